(* C17 — the directory-backed filesystem (Model/DirFS.v) refines the reference
   for ROOTED names too, with Mknod / Readnod, and with the overlay's envelope
   clause replaced by the syntactic class.

   Proofs/FsDir.v needed relative names: every name the host sees went through
   filepath.Join(base, name) ([hp]), which drops a leading "/" (and turns "/"
   into "."), while the overlay is asked with the name as given.  Here: for a
   normalised name, rooted or not, the reference resolves [hp p] exactly as it
   resolves [p] (a leading "/" only restarts at the root, where the walk
   already is), [hp] is idempotent there and does not climb; so the host call
   is the reference's step on the name as given, and the theorem of FsDir.v
   carries over with [relpath]/[relleaf] weakened to [clean_path]/[clean_leaf_path].

   Mknod (the host's mknod succeeding, or answering EEXIST: since fix bfd5027 a
   taken name is left alone, [mknod_existing]; on any other failure dirFS writes
   an empty regular file under the name) and Readnod (the name not itself
   a symbolic link: dirFS asks os.Stat first, which follows it) are inside.

   The envelope clause of the overlay is a parameter [EV] of [denv_g]:
   [E MemFS] gives the semantic statement, [syn_ev w] (the operation's
   openFile/MkdirAll weight within the budget, and no clause of the envelope
   other than the link clause failing) the syntactic one, for runs whose
   Symlink operations are tame and respect the weight [w]. *)
From Apko Require Import Base.Prelude Model.MemFS Spec.FsSpec Model.DirFS
  Proofs.FsProofs Proofs.FsLaws Proofs.FsWf Proofs.FsAgree Proofs.FsReach Proofs.FsTame Proofs.FsTameOps
  Proofs.FsTameReach Proofs.FsWeights Proofs.FsDir.
Open Scope string_scope. Open Scope list_scope.

(* ---- what filepath.Join(base, name) does to a normalised name ----------------------------------- *)
Lemma hp_root : forall p, is_root_path p = true -> hp p = ["."].
Proof.
  intros p Er. unfold is_root_path in Er. apply orb_true_iff in Er.
  destruct Er as [Er|Er]; apply path_eqb_eq in Er; subst p; reflexivity.
Qed.
Lemma hp_abs : forall q, nonempty q = true -> forallb clean_name q = true -> hp ("" :: q) = q.
Proof.
  intros q N C. unfold hp, go_clean. cbn [clean_loop String.eqb orb]. rewrite clean_loop_clean by exact C.
  cbn [rev app as_path]. destruct q; [discriminate | reflexivity].
Qed.

Lemma clean_path_names : forall q, nonempty q = true -> forallb clean_name q = true -> clean_path q = true.
Proof.
  intros q N C. pose proof (clean_leaf_rel q N C) as H. unfold clean_leaf_path in H. apply andb_true_iff in H. apply H.
Qed.

Lemma hp_props : forall p, clean_path p = true ->
  relpath (hp p) = true /\ (clean_leaf_path p = true -> relleaf (hp p) = true).
Proof.
  intros p Hc. destruct (clean_path_cases p Hc) as [Er|[Er [N [C [Ep|Ep]]]]].
  - rewrite (hp_root p Er). split; [reflexivity|]. intro Hl. unfold clean_leaf_path in Hl. rewrite Er, andb_false_r in Hl. discriminate.
  - remember (strip_slash p) as q eqn:Eq. clear Eq. subst p. unfold hp. rewrite (go_clean_rel q N C).
    unfold relpath, relleaf. rewrite (clean_path_names q N C), (clean_leaf_rel q N C), (clean_not_rooted q C). split; reflexivity.
  - remember (strip_slash p) as q eqn:Eq. clear Eq. subst p. rewrite (hp_abs q N C).
    unfold relpath, relleaf. rewrite (clean_path_names q N C), (clean_leaf_rel q N C), (clean_not_rooted q C). split; reflexivity.
Qed.
Lemma hp_relpath : forall p, clean_path p = true -> relpath (hp p) = true.
Proof. intros p H. apply (hp_props p H). Qed.
Lemma hp_relleaf : forall p, clean_leaf_path p = true -> relleaf (hp p) = true.
Proof.
  intros p H. assert (Hc : clean_path p = true) by (unfold clean_leaf_path in H; apply andb_true_iff in H; apply H).
  apply (proj2 (hp_props p Hc) H).
Qed.
Lemma hp_idem : forall p, clean_path p = true -> hp (hp p) = hp p.
Proof. intros p H. apply hp_rel, hp_relpath, H. Qed.

Lemma climbs_clean : forall p, clean_path p = true -> climbs p = false.
Proof.
  intros p Hc. unfold climbs. destruct (clean_path_cases p Hc) as [Er|[Er [N [C [Ep|Ep]]]]].
  - unfold is_root_path in Er. apply orb_true_iff in Er. destruct Er as [Er|Er]; apply path_eqb_eq in Er; subst p; reflexivity.
  - remember (strip_slash p) as q eqn:Eq. clear Eq. subst p. rewrite clean_loop_clean by exact C. cbn [rev app].
    destruct q as [|c q]; [reflexivity|]. cbn [forallb] in C. apply andb_true_iff in C. destruct C as [Hn _].
    destruct (clean_name_eqb c Hn) as [_ [_ E3]]. exact E3.
  - remember (strip_slash p) as q eqn:Eq. clear Eq. subst p. cbn [clean_loop String.eqb orb]. rewrite clean_loop_clean by exact C. cbn [rev app].
    destruct q as [|c q]; [reflexivity|]. cbn [forallb] in C. apply andb_true_iff in C. destruct C as [Hn _].
    destruct (clean_name_eqb c Hn) as [_ [_ E3]]. exact E3.
Qed.

(* ---- the reference resolves hp p as it resolves p ----------------------------------------------- *)
Lemma s_resolve_skip : forall n h st nm q f, s_resolve n h st nm ("" :: q) f = s_resolve n h st nm q f.
Proof. intros [|n]; reflexivity. Qed.
Lemma s_walk_dot : forall h f, is_dir h 0 = true -> s_walk h [0] None ["."] f = WEnd (RFound [0] None).
Proof. intros h f R. cbn [s_walk String.eqb Ascii.eqb Bool.eqb cur hd orb andb]. rewrite R. reflexivity. Qed.
Lemma s_resolve_dot : forall n h f, is_dir h 0 = true -> s_resolve n h [0] None ["."] f = RFound [0] None.
Proof. intros [|n] h f R; cbn [s_resolve]; rewrite (s_walk_dot h f R); reflexivity. Qed.
Lemma s_resolve_slash : forall n h f, s_resolve n h [0] None [""; ""] f = RFound [0] None.
Proof. intros [|n]; reflexivity. Qed.

Lemma s_path_hp : forall h p f, is_dir h 0 = true -> clean_path p = true -> s_path h (hp p) f = s_path h p f.
Proof.
  intros h p f R Hc. destruct (clean_path_cases p Hc) as [Er|[Er [N [C [Ep|Ep]]]]].
  - rewrite (hp_root p Er). unfold is_root_path in Er. apply orb_true_iff in Er.
    destruct Er as [Er|Er]; apply path_eqb_eq in Er; subst p; [|reflexivity].
    unfold s_path. assert (path_eqb ["."] [""] = false) as -> by reflexivity. assert (path_eqb [""; ""] [""] = false) as -> by reflexivity.
    rewrite (s_resolve_dot _ h f R), s_resolve_slash. reflexivity.
  - remember (strip_slash p) as q eqn:Eq. clear Eq. subst p. unfold hp. rewrite (go_clean_rel q N C). reflexivity.
  - remember (strip_slash p) as q eqn:Eq. clear Eq. subst p. rewrite (hp_abs q N C). unfold s_path.
    rewrite (clean_not_emptystr q N C), s_resolve_skip.
    assert (path_eqb ("" :: q) [""] = false) as -> by (destruct q; [discriminate N | reflexivity]). reflexivity.
Qed.
Lemma s_node_hp : forall h p, is_dir h 0 = true -> clean_path p = true -> s_node h (hp p) = s_node h p.
Proof. intros h p R Hc. unfold s_node. rewrite (s_path_hp h p true R Hc). reflexivity. Qed.
Lemma s_lnode_hp : forall h p, is_dir h 0 = true -> clean_path p = true -> s_lnode h (hp p) = s_lnode h p.
Proof. intros h p R Hc. unfold s_lnode. rewrite (s_path_hp h p false R Hc). reflexivity. Qed.
Lemma s_leaf_hp : forall h p, is_dir h 0 = true -> clean_path p = true -> s_leaf h (hp p) = s_leaf h p.
Proof. intros h p R Hc. unfold s_leaf. rewrite (s_path_hp h p false R Hc). reflexivity. Qed.
Lemma s_open_hp : forall h p fl perm, is_dir h 0 = true -> clean_path p = true -> s_open h (hp p) fl perm = s_open h p fl perm.
Proof. intros h p fl perm R Hc. unfold s_open. rewrite (s_path_hp h p true R Hc). reflexivity. Qed.
Lemma s_mkdirall_hp : forall h p perm, clean_path p = true ->
  path_eqb (hp p) [""] = path_eqb p [""] /\ s_mkdirall h [0] (hp p) perm = s_mkdirall h [0] p perm.
Proof.
  intros h p perm Hc. destruct (clean_path_cases p Hc) as [Er|[Er [N [C [Ep|Ep]]]]].
  - rewrite (hp_root p Er). unfold is_root_path in Er. apply orb_true_iff in Er.
    destruct Er as [Er|Er]; apply path_eqb_eq in Er; subst p; split; reflexivity.
  - remember (strip_slash p) as q eqn:Eq. clear Eq. subst p. unfold hp. rewrite (go_clean_rel q N C). split; reflexivity.
  - remember (strip_slash p) as q eqn:Eq. clear Eq. subst p. rewrite (hp_abs q N C). split; [|reflexivity].
    rewrite (clean_not_emptystr q N C). destruct q; [discriminate N | reflexivity].
Qed.

(* the names of an operation that go through filepath.Join (link targets do not) *)
Definition op_paths (o : op) : list path :=
  match o with
  | Mkdir p _ | MkdirAll p _ | OpenFile p _ _ | Create p | ReadFile p | WriteFile p _ _ | ReadDir p | Stat p | Lstat p
  | Symlink _ p | Readlink p | Remove p | Chmod p _ | Chown p _ _ | Chtimes p _ | Mknod p _ _ | Readnod p
  | SetXattr p _ _ | GetXattr p _ | RemoveXattr p _ | ListXattrs p => [p]
  | Link old new => [old; new]
  | Read _ _ | ReadAt _ _ _ | Write _ _ | Seek _ _ _ | Close _ => []
  end.

Lemma spec_raw_hp : forall s o, is_dir (heap s) 0 = true -> forallb clean_path (op_paths o) = true ->
  spec_raw s (host_op o) = spec_raw s o.
Proof.
  intros s o R H.
  destruct o; cbn [op_paths forallb] in H; rewrite ?andb_true_r in H; cbn [host_op spec_raw];
    unfold s_with_leaf, s_with_node, s_do_open; try reflexivity;
    rewrite ?(s_leaf_hp _ _ R H), ?(s_node_hp _ _ R H), ?(s_lnode_hp _ _ R H), ?(s_open_hp _ _ _ _ R H); try reflexivity.
  - (* MkdirAll *) destruct (s_mkdirall_hp (heap s) p perm H) as [A B]. rewrite A, B. reflexivity.
  - (* Link *) apply andb_true_iff in H. destruct H as [Ho Hn].
    rewrite (s_leaf_hp _ _ R Hn), (s_node_hp _ _ R Ho). reflexivity.
Qed.
Lemma host_op_mkdirall : forall o, is_mkdirall (host_op o) = is_mkdirall o.
Proof. intros []; reflexivity. Qed.
Lemma spec_step_hp : forall s o, is_dir (heap s) 0 = true -> forallb clean_path (op_paths o) = true ->
  spec_step s (host_op o) = spec_step s o.
Proof. intros s o R H. unfold spec_step. rewrite (spec_raw_hp s o R H), host_op_mkdirall. reflexivity. Qed.

(* ---- when a host call is the reference's step on the name as given ------------------------------ *)
Definition hplain_r (o : op) : bool :=
  match o with
  | Mkdir p _ | Remove p | Symlink _ p | Mknod p _ _ => clean_leaf_path p
  | MkdirAll p _ | OpenFile p _ _ | Create p | ReadFile p | WriteFile p _ _ | ReadDir p | Stat p | Lstat p
  | Readlink p | Chmod p _ | Chown p _ _ | Chtimes p _ | Readnod p
  | SetXattr p _ _ | GetXattr p _ | RemoveXattr p _ | ListXattrs p => clean_path p
  | Read _ n | ReadAt _ n _ => negb (Nat.eqb n 0)
  | Write _ _ | Seek _ _ _ | Close _ => true
  | Link _ _ => false
  end.

Lemma leaf_clean : forall p, clean_leaf_path p = true -> clean_path p = true.
Proof. intros p H. unfold clean_leaf_path in H. apply andb_true_iff in H. apply H. Qed.

Lemma hplain_r_paths : forall o, hplain_r o = true -> forallb clean_path (op_paths o) = true.
Proof.
  intros o H. destruct o; cbn [hplain_r] in H; try discriminate H; cbn [op_paths forallb]; rewrite ?andb_true_r;
    try reflexivity; try exact H; apply leaf_clean, H.
Qed.

Definition is_mknod (o : op) : bool := match o with Mknod _ _ _ => true | _ => false end.

Lemma hplain_r_host_op : forall o, hplain_r o = true -> is_mknod o = false ->
  hplain (host_op o) = true /\ host_op (host_op o) = host_op o.
Proof.
  intros o H Hm. destruct o; cbn [hplain_r is_mknod] in *; try discriminate; cbn [host_op hplain];
    try (split; [exact H | reflexivity]); try (split; reflexivity);
    try (rewrite (hp_idem _ H); split; [apply hp_relpath, H | reflexivity]);
    (rewrite (hp_idem _ (leaf_clean _ H)); split; [apply hp_relleaf, H | reflexivity]).
Qed.

Lemma host_call_r : forall s o, is_dir (heap s) 0 = true -> hplain_r o = true -> host_call s o = spec_step s o.
Proof.
  intros s o R H. destruct (is_mknod o) eqn:Em.
  - destruct o; try discriminate Em. cbn [hplain_r] in H. unfold host_call. cbn [host_op host_step].
    pose proof (hp_relleaf p H) as Hl. unfold relleaf in Hl. apply andb_true_iff in Hl. destruct Hl as [Hl _].
    rewrite (dot_last_false _ _ Hl).
    change (Mknod (hp p) perm dev) with (host_op (Mknod p perm dev)).
    apply spec_step_hp; [exact R|]. cbn [op_paths forallb]. rewrite (leaf_clean _ H). reflexivity.
  - destruct (hplain_r_host_op o H Em) as [A B].
    transitivity (host_call s (host_op o)); [unfold host_call; rewrite B; reflexivity|].
    rewrite (host_call_plain s (host_op o) A). apply spec_step_hp; [exact R | apply hplain_r_paths, H].
Qed.

(* ---- the envelope of dirFS, with the overlay's clause as a parameter --------------------------- *)
Definition denv_g (EV : st -> op -> bool) (d : dst) (o : op) : bool :=
  match o with
  | Link old new => clean_path old && clean_leaf_path new && link_ok (heap (d_host d)) old new && EV (d_ov d) o
  | MkdirAll _ _ => hplain_r o && EV (d_ov d) o && negb (is_failure (snd (spec_step (d_host d) o)))
  | Mknod _ _ _ => hplain_r o && EV (d_ov d) o && negb (mknod_fallback (snd (spec_step (d_host d) o)))
  | Readnod p => hplain_r o && EV (d_ov d) o && eres_nat_eqb (s_lnode (heap (d_host d)) p) (s_node (heap (d_host d)) p)
  | OpenFile _ fl _ => hplain_r o && (negb (f_creat fl) || EV (d_ov d) o)
  | ReadFile _ | Read _ _ | ReadAt _ _ _ | Write _ _ | Seek _ _ _ | Close _ => hplain_r o
  | _ => hplain_r o && EV (d_ov d) (strip_op o)
  end.
Definition denv_r : dst -> op -> bool := denv_g (E MemFS).

Lemma denv_g_mono : forall (E1 E2 : st -> op -> bool) d o,
  (forall x, E1 (d_ov d) x = true -> E2 (d_ov d) x = true) -> denv_g E1 d o = true -> denv_g E2 d o = true.
Proof.
  intros E1 E2 d o M H. destruct o; cbn [denv_g strip_op] in *; try exact H;
    rewrite ?andb_true_iff, ?orb_true_iff in *; intuition auto.
Qed.

Lemma readnod_stat_fail : forall s p, eres_nat_eqb (s_lnode (heap s) p) (s_node (heap s) p) = true ->
  is_failure (snd (spec_step s (Stat p))) = true -> spec_step s (Readnod p) = spec_step s (Stat p).
Proof.
  intros s p Hl Hf. apply eres_nat_eqb_eq in Hl. unfold spec_step in *. cbn [spec_raw is_mkdirall] in *.
  unfold s_with_node, s_with_leaf in *. unfold s_lnode, s_node, s_leaf in *.
  destruct (s_path (heap s) p true) as [st nm|st nm|e]; cbn [snd is_failure info_of] in Hf; try discriminate Hf;
    destruct (s_path (heap s) p false) as [st' nm'|st' nm'|e']; try discriminate Hl; try reflexivity;
    inversion Hl; subst; reflexivity.
Qed.

Theorem dirfs_refines_r : forall d o, dsync d -> is_dir (heap (d_host d)) 0 = true -> denv_r d o = true -> dref d o.
Proof.
  intros d o Hs Hr Hv. unfold denv_r in Hv. unfold dref.
  destruct o; cbn [denv_g] in Hv; try discriminate Hv; cbn [dirfs_step ov_only strip_op] in *.
  - (* Mkdir *) env2 Hv HE.
    apply (L_hto d (Mkdir p perm) (Mkdir p perm) Hs eq_refl eq_refl eq_refl eq_refl eq_refl (host_call_r _ _ Hr Hv) HE).
    apply fail_same. reflexivity.
  - (* MkdirAll *) env2 Hv HF. env2 Hv HE. apply negb_true_iff in HF.
    apply (L_hto d (MkdirAll p perm) (MkdirAll p perm) Hs eq_refl eq_refl eq_refl eq_refl eq_refl (host_call_r _ _ Hr Hv) HE).
    intro F. congruence.
  - (* OpenFile *) env2 Hv HE. destruct (f_creat fl) eqn:Ec.
    + cbn [negb orb] in HE. apply (L_open d (OpenFile p fl perm) Hs eq_refl eq_refl eq_refl (host_call_r _ _ Hr Hv) HE).
    + apply (L_host d (OpenFile p fl perm) Hs); [cbn [data_op]; rewrite Ec; reflexivity | apply host_call_r; assumption].
  - (* Create *) env2 Hv HE. apply (L_open d (Create p) Hs eq_refl eq_refl eq_refl (host_call_r _ _ Hr Hv) HE).
  - (* Read *) apply (L_host d (Read h n) Hs eq_refl (host_call_r _ _ Hr Hv)).
  - (* ReadAt *) apply (L_host d (ReadAt h n off) Hs eq_refl (host_call_r _ _ Hr Hv)).
  - (* Write *) apply (L_host d (Write h b) Hs eq_refl (host_call_r _ _ Hr Hv)).
  - (* Seek *) apply (L_host d (Seek h off wh) Hs eq_refl (host_call_r _ _ Hr Hv)).
  - (* Close *) apply (L_host d (Close h) Hs eq_refl (host_call_r _ _ Hr Hv)).
  - (* ReadFile *) apply (L_host d (ReadFile p) Hs eq_refl (host_call_r _ _ Hr Hv)).
  - (* WriteFile *) env2 Hv HE.
    apply (L_hto d (WriteFile p b perm) (WriteFile p [] perm) Hs eq_refl eq_refl eq_refl eq_refl eq_refl (host_call_r _ _ Hr Hv) HE).
    apply fail_same. reflexivity.
  - (* ReadDir *) env2 Hv HE.
    rewrite (host_call_r _ _ Hr Hv).
    pose proof (pair_step (d_ov d) (d_host d) (ReadDir p) (ReadDir p) Hs eq_refl eq_refl eq_refl) as [P1 P2].
    pose proof (ro_ops (d_host d) (ReadDir p) eq_refl) as Rh. pose proof (ro_ops (d_ov d) (ReadDir p) eq_refl) as Rv.
    pose proof (keep_ops (d_host d) (ReadDir p) eq_refl) as Kh. pose proof (keep_ops (d_ov d) (ReadDir p) eq_refl) as Kv.
    destruct (spec_step (d_host d) (ReadDir p)) as [h1 r] eqn:Eh. cbn [fst snd] in *. subst h1.
    destruct (is_failure r); [split; [exact Hs | reflexivity]|].
    unfold only_ov, ov_step. rewrite (refines MemFS (d_ov d) _ HE).
    destruct (spec_step (d_ov d) (ReadDir p)) as [v1 r'] eqn:Ev. cbn [fst snd] in *. subst v1.
    rewrite (keeps_eq r' r Kv Kh P2). destruct d; split; [exact Hs | reflexivity].
  - (* Stat *) env2 Hv HE.
    rewrite (host_call_r _ _ Hr Hv). unfold ov_step. rewrite (refines MemFS (d_ov d) _ HE).
    pose proof (pair_step (d_ov d) (d_host d) (Stat p) (Stat p) Hs eq_refl eq_refl eq_refl) as [P1 P2].
    pose proof (ro_ops (d_host d) (Stat p) eq_refl) as Rh.
    destruct (spec_step (d_host d) (Stat p)) as [h1 r] eqn:Eh. destruct (spec_step (d_ov d) (Stat p)) as [v1 r'] eqn:Ev.
    pose proof (stat_out (d_host d) p) as Oh. pose proof (stat_out (d_ov d) p) as Ov. rewrite Eh in Oh. rewrite Ev in Ov.
    cbn [fst snd] in *. subst h1.
    destruct r'; try contradiction; destruct r; try contradiction; cbn [strip_out] in P2; try discriminate P2;
      inversion P2; subst; split; try exact Hs; reflexivity.
  - (* Lstat *) env2 Hv HE. apply (L_ov d (Lstat p) Hs eq_refl HE).
  - (* Symlink *) env2 Hv HE.
    apply (L_hto d (Symlink tgt p) (Symlink tgt p) Hs eq_refl eq_refl eq_refl eq_refl eq_refl (host_call_r _ _ Hr Hv) HE).
    apply fail_same. reflexivity.
  - (* Link *) env2 Hv HE. env2 Hv HK. env2 Hv HN.
    rewrite (climbs_clean _ Hv).
    assert (Hcall : host_call (d_host d) (Link old new) = spec_step (d_host d) (Link old new)).
    { pose proof (leaf_clean _ HN) as HNc.
      transitivity (spec_step (d_host d) (host_op (Link old new))).
      - unfold host_call. cbn [host_op host_step].
        pose proof (hp_relleaf new HN) as Hl. unfold relleaf in Hl. apply andb_true_iff in Hl. destruct Hl as [Hl _].
        apply host_link_spec; [exact Hl|]. unfold link_ok.
        rewrite (s_lnode_hp _ _ Hr Hv), (s_node_hp _ _ Hr Hv), (s_leaf_hp _ _ Hr HNc). exact HK.
      - apply spec_step_hp; [exact Hr|]. cbn [op_paths forallb]. rewrite Hv, HNc. reflexivity. }
    apply (L_hto d (Link old new) (Link old new) Hs eq_refl eq_refl eq_refl eq_refl eq_refl Hcall HE). apply fail_same. reflexivity.
  - (* Readlink *) env2 Hv HE.
    pose proof (L_ov d (Readlink p) Hs eq_refl HE) as L. unfold only_ov, ov_step in *. rewrite (refines MemFS (d_ov d) _ HE) in *.
    pose proof (pair_step (d_ov d) (d_host d) (Readlink p) (Readlink p) Hs eq_refl eq_refl eq_refl) as [P1 P2].
    pose proof (ro_ops (d_host d) (Readlink p) eq_refl) as Rh.
    pose proof (keep_ops (d_host d) (Readlink p) eq_refl) as Kh. pose proof (keep_ops (d_ov d) (Readlink p) eq_refl) as Kv.
    destruct (spec_step (d_ov d) (Readlink p)) as [v1 r'] eqn:Ev. destruct (spec_step (d_host d) (Readlink p)) as [h1 r] eqn:Eh.
    cbn [fst snd d_host] in *. subst h1. rewrite (keeps_eq r' r Kv Kh P2). destruct L as [L1 _]. split; [exact L1 | reflexivity].
  - (* Remove *) env2 Hv HE. apply (L_oth d (Remove p) Hs eq_refl eq_refl eq_refl (host_call_r _ _ Hr Hv) HE).
  - (* Chmod *) env2 Hv HE. apply (L_hio d (Chmod p perm) Hs eq_refl eq_refl (host_call_r _ _ Hr Hv) HE).
  - (* Chown *) env2 Hv HE. apply (L_hio d (Chown p uid gid) Hs eq_refl eq_refl (host_call_r _ _ Hr Hv) HE).
  - (* Chtimes *) env2 Hv HE.
    apply (L_hto d (Chtimes p t) (Chtimes p t) Hs eq_refl eq_refl eq_refl eq_refl eq_refl (host_call_r _ _ Hr Hv) HE).
    apply fail_same. reflexivity.
  - (* Mknod: the host's mknod succeeds or says EEXIST (no fallback since fix bfd5027), then the overlay's *)
    env2 Hv HF. env2 Hv HE. apply negb_true_iff in HF.
    rewrite (host_call_r _ _ Hr Hv).
    pose proof (pair_step (d_ov d) (d_host d) (Mknod p perm dev) (Mknod p perm dev) Hs eq_refl eq_refl eq_refl) as [P1 P2].
    pose proof (keep_ops (d_host d) (Mknod p perm dev) eq_refl) as Kh. pose proof (keep_ops (d_ov d) (Mknod p perm dev) eq_refl) as Kv.
    destruct (spec_step (d_host d) (Mknod p perm dev)) as [h1 r] eqn:Eh. cbn [snd fst] in *. rewrite HF.
    unfold ov_step. rewrite (refines MemFS (d_ov d) _ HE).
    destruct (spec_step (d_ov d) (Mknod p perm dev)) as [v1 r'] eqn:Ev. cbn [fst snd] in *.
    rewrite (keeps_eq r' r Kv Kh P2). split; [exact P1 | reflexivity].
  - (* Readnod: os.Stat first (its error is returned), then the overlay *) env2 Hv HL. env2 Hv HE.
    assert (Hst : hplain_r (Stat p) = true) by exact Hv.
    rewrite (host_call_r _ _ Hr Hst).
    pose proof (ro_ops (d_host d) (Stat p) eq_refl) as Rs. pose proof (ro_ops (d_host d) (Readnod p) eq_refl) as Rn.
    pose proof (readnod_stat_fail (d_host d) p HL) as RF.
    destruct (spec_step (d_host d) (Stat p)) as [h1 r] eqn:Eh. cbn [fst snd] in *. subst h1.
    destruct (is_failure r) eqn:Ef.
    + split; [exact Hs|]. rewrite (RF eq_refl). reflexivity.
    + pose proof (L_ov d (Readnod p) Hs eq_refl HE) as L. unfold only_ov, ov_step in *. rewrite (refines MemFS (d_ov d) _ HE) in *.
      pose proof (pair_step (d_ov d) (d_host d) (Readnod p) (Readnod p) Hs eq_refl eq_refl eq_refl) as [P1 P2].
      pose proof (keep_ops (d_host d) (Readnod p) eq_refl) as Kh. pose proof (keep_ops (d_ov d) (Readnod p) eq_refl) as Kv.
      destruct (spec_step (d_ov d) (Readnod p)) as [v1 r'] eqn:Ev. destruct (spec_step (d_host d) (Readnod p)) as [h2 r2] eqn:Eh2.
      cbn [fst snd d_host] in *. subst h2. rewrite (keeps_eq r' r2 Kv Kh P2). destruct L as [L1 _]. split; [exact L1 | reflexivity].
  - (* SetXattr *) env2 Hv HE. apply (L_ov d (SetXattr p a v) Hs eq_refl HE).
  - (* GetXattr *) env2 Hv HE. apply (L_ov d (GetXattr p a) Hs eq_refl HE).
  - (* RemoveXattr *) env2 Hv HE. apply (L_ov d (RemoveXattr p a) Hs eq_refl HE).
  - (* ListXattrs *) env2 Hv HE. apply (L_ov d (ListXattrs p) Hs eq_refl HE).
Qed.

(* Mknod of a name that is taken (fix bfd5027; was finding C17-F20): nothing changes, on either
   side, and the answer is ErrExist *)
Theorem mknod_existing : forall d p perm dev, dsync d -> is_dir (heap (d_host d)) 0 = true ->
  clean_leaf_path p = true -> E MemFS (d_ov d) (Mknod p perm dev) = true ->
  snd (spec_step (d_host d) (Mknod p perm dev)) = OErr EExist ->
  dirfs_step d (Mknod p perm dev) = (d, OErr EExist).
Proof.
  intros d p perm dev Hs Hr Hp HE Hx.
  assert (Hv : denv_r d (Mknod p perm dev) = true).
  { unfold denv_r. cbn [denv_g hplain_r]. rewrite Hp, HE, Hx. reflexivity. }
  pose proof (dirfs_refines_r d _ Hs Hr Hv) as R. unfold dref in R. cbn [ov_only] in R.
  pose proof (fail_same (d_host d) (Mknod p perm dev) eq_refl) as Fh. rewrite Hx in Fh. specialize (Fh eq_refl).
  destruct (dirfs_step d (Mknod p perm dev)) as [d' r] eqn:Ed. destruct R as [_ R].
  destruct (spec_step (d_host d) (Mknod p perm dev)) as [h1 r1] eqn:Eh. cbn [fst snd] in *. subst r1 h1.
  inversion R; subst r. f_equal.
  (* the overlay: its Mknod failed too, so it is where it was *)
  cbn [dirfs_step] in Ed. rewrite (host_call_r (d_host d) (Mknod p perm dev) Hr Hp), Eh in Ed. cbn [mknod_fallback] in Ed.
  unfold ov_step in Ed. destruct (model_step MemFS (d_ov d) (Mknod p perm dev)) as [v1 r'] eqn:Em.
  inversion Ed; subst. rewrite (model_failure_no_change MemFS (d_ov d) _ v1 (OErr EExist) Em eq_refl eq_refl).
  destruct d; reflexivity.
Qed.

(* ---- sequences --------------------------------------------------------------------------------- *)
Fixpoint run_in_denv_g (EV : st -> op -> bool) (d : dst) (ops : list op) : bool :=
  match ops with
  | [] => true
  | o :: ops' => denv_g EV d o && run_in_denv_g EV (fst (dirfs_step d o)) ops'
  end.

Theorem dirfs_run_refines_r : forall ops d, dsync d -> wf (d_host d) -> run_in_denv_g (E MemFS) d ops = true ->
  dsync (fst (dirfs_run d ops)) /\
  d_host (fst (dirfs_run d ops)) = fst (spec_run (d_host d) (host_ops ops)) /\
  host_obs ops (snd (dirfs_run d ops)) = snd (spec_run (d_host d) (host_ops ops)).
Proof.
  induction ops as [|o ops IH]; intros d Hs Hw Hr; [repeat split; exact Hs|].
  cbn [run_in_denv_g] in Hr. apply andb_true_iff in Hr. destruct Hr as [Hv Hr].
  pose proof (dirfs_refines_r d o Hs (proj2 Hw) Hv) as R. unfold dref in R.
  pose proof (spec_step_wf_root (d_host d) o Hw) as Hw1.
  cbn [dirfs_run host_ops filter host_obs]. destruct (dirfs_step d o) as [d1 r] eqn:E1. cbn [fst] in Hr.
  destruct R as [Hs1 R].
  assert (Hw' : wf (d_host d1)).
  { destruct (ov_only o); [destruct R as [R1 _]; rewrite R1; exact Hw | rewrite R in Hw1; exact Hw1]. }
  destruct (IH d1 Hs1 Hw' Hr) as [A [B C]].
  destruct (dirfs_run d1 ops) as [d2 rs] eqn:E2. cbn [fst snd] in *.
  destruct (ov_only o); cbn [negb].
  - destruct R as [R1 _]. rewrite <- R1. repeat split; assumption.
  - cbn [spec_run]. rewrite R. fold (host_ops ops). destruct (spec_run (d_host d1) (host_ops ops)) as [s2 rs2].
    cbn [fst snd] in *. subst. repeat split; assumption.
Qed.

(* ---- the overlay's clause from the syntactic class --------------------------------------------- *)
Definition link_only (s : st) (o : op) : bool :=
  match corner MemFS s o with None => true | Some t => String.eqb t t_link end.
Definition syn_ev (w : string -> nat) (s : st) (o : op) : bool :=
  Nat.leb (op_weight w o) spec_max_links && link_only s o.

Definition ovinv (w : string -> nat) (s : st) : Prop :=
  wf s /\ tame_links (heap s) = true /\ weights_ok w (heap s) = true.

Lemma dot_ok_mem : forall o, dot_ok MemFS o = true.
Proof. intros []; try reflexivity. cbn [dot_ok]. apply orb_true_r. Qed.

Lemma syn_E : forall w s o, ovinv w s -> syn_ev w s o = true -> E MemFS s o = true.
Proof.
  intros w s o [Wf [T W]] H. unfold syn_ev in H. apply andb_true_iff in H. destruct H as [Hb Hl]. apply Nat.leb_le in Hb.
  apply (refines_syntactic MemFS s o w T (proj2 Wf) W Hb (dot_ok_mem o)).
  intros tag Hc. unfold link_only in Hl. rewrite Hc in Hl. apply String.eqb_eq in Hl. exact Hl.
Qed.

Lemma ovinv_step : forall w s o, ovinv w s -> tame_op o = true -> wt_op w o = true -> ovinv w (fst (model_step MemFS s o)).
Proof.
  intros w s o [Wf [T W]] Ht Hw. split; [apply model_step_wf, Wf|]. split; [apply model_step_tame; assumption|].
  apply model_step_weights; assumption.
Qed.

Section OvInv.
Variable w : string -> nat.

Lemma hto_inv : forall d oh oo, ovinv w (d_ov d) -> tame_op oo = true -> wt_op w oo = true ->
  ovinv w (d_ov (fst (host_then_ov d oh oo))).
Proof.
  intros d oh oo I Ht Hw. unfold host_then_ov. destruct (host_call (d_host d) oh) as [h1 r].
  destruct (is_failure r); [exact I|]. pose proof (ovinv_step w (d_ov d) oo I Ht Hw) as A. unfold ov_step.
  destruct (model_step MemFS (d_ov d) oo) as [v1 r']. exact A.
Qed.
Lemma hio_inv : forall d o, ovinv w (d_ov d) -> tame_op o = true -> wt_op w o = true ->
  ovinv w (d_ov (fst (host_ignored_then_ov d o))).
Proof.
  intros d o I Ht Hw. unfold host_ignored_then_ov. destruct (host_call (d_host d) o) as [h1 r].
  pose proof (ovinv_step w (d_ov d) o I Ht Hw) as A. unfold ov_step. destruct (model_step MemFS (d_ov d) o) as [v1 r']. exact A.
Qed.
Lemma oth_inv : forall d oo oh, ovinv w (d_ov d) -> tame_op oo = true -> wt_op w oo = true ->
  ovinv w (d_ov (fst (ov_then_host d oo oh))).
Proof.
  intros d oo oh I Ht Hw. unfold ov_then_host. pose proof (ovinv_step w (d_ov d) oo I Ht Hw) as A. unfold ov_step.
  destruct (model_step MemFS (d_ov d) oo) as [v1 r]. destruct (is_failure r); [exact A|].
  destruct (host_call (d_host d) oh) as [h1 r']. exact A.
Qed.
Lemma only_ov_inv : forall d o, ovinv w (d_ov d) -> tame_op o = true -> wt_op w o = true -> ovinv w (d_ov (fst (only_ov d o))).
Proof.
  intros d o I Ht Hw. unfold only_ov. pose proof (ovinv_step w (d_ov d) o I Ht Hw) as A. unfold ov_step.
  destruct (model_step MemFS (d_ov d) o) as [v1 r]. exact A.
Qed.
Lemma only_host_inv : forall d o, ovinv w (d_ov d) -> ovinv w (d_ov (fst (only_host d o))).
Proof. intros d o I. unfold only_host. destruct (host_call (d_host d) o) as [h1 r]. exact I. Qed.
Lemma open_both_inv : forall d o, ovinv w (d_ov d) -> tame_op o = true -> wt_op w o = true -> ovinv w (d_ov (fst (open_both d o))).
Proof.
  intros d o I Ht Hw. unfold open_both. pose proof (ovinv_step w (d_ov d) o I Ht Hw) as A. unfold ov_step.
  destruct (model_step MemFS (d_ov d) o) as [v1 r]. cbn [fst] in A. destruct (is_failure r); [exact A|].
  pose proof (ovinv_step w v1 (Close (List.length (handles (d_ov d)))) A eq_refl eq_refl) as B.
  destruct (model_step MemFS v1 (Close (List.length (handles (d_ov d))))) as [v2 rc].
  destruct (host_call (d_host d) o) as [h1 r']. exact B.
Qed.

Theorem dirfs_step_ovinv : forall d o, ovinv w (d_ov d) -> tame_op o = true -> wt_op w o = true ->
  ovinv w (d_ov (fst (dirfs_step d o))).
Proof.
  intros d o I Ht Hw. destruct o; cbn [dirfs_step];
    try (apply hto_inv; assumption); try (apply hio_inv; assumption); try (apply oth_inv; assumption);
    try (apply only_ov_inv; assumption); try (apply only_host_inv; assumption); try (apply open_both_inv; assumption).
  - (* OpenFile *) destruct (f_creat fl); [apply open_both_inv; assumption | apply only_host_inv; assumption].
  - (* ReadDir *) destruct (host_call (d_host d) (ReadDir p)) as [h1 r]. destruct (is_failure r); [exact I | apply only_ov_inv; assumption].
  - (* Stat *) unfold ov_step. destruct (model_step MemFS (d_ov d) (Stat p)) as [v1 r]. destruct r; try exact I.
    destruct (snd (host_call (d_host d) (Stat p))); exact I.
  - (* Link *) destruct (climbs old); [exact I | apply hto_inv; assumption].
  - (* Mknod *)
    pose proof (ovinv_step w (d_ov d) (Mknod p perm dev) I Ht Hw) as A. unfold ov_step.
    destruct (host_call (d_host d) (Mknod p perm dev)) as [h1 r]. destruct (mknod_fallback r).
    + destruct (host_call (d_host d) (WriteFile p [] 0%N)) as [h2 r2]. destruct (is_failure r2); [exact I|].
      destruct (model_step MemFS (d_ov d) (Mknod p perm dev)) as [v1 r']. exact A.
    + destruct (model_step MemFS (d_ov d) (Mknod p perm dev)) as [v1 r']. exact A.
  - (* Readnod *) destruct (host_call (d_host d) (Stat p)) as [h1 r]. destruct (is_failure r); [exact I | apply only_ov_inv; assumption].
Qed.
End OvInv.

Lemma ovinv_init : forall w, ovinv w init_st.
Proof. intro w. split; [exact init_wf_model | split; reflexivity]. Qed.

Lemma run_syn_E : forall w ops d, ovinv w (d_ov d) -> forallb tame_op ops = true -> forallb (wt_op w) ops = true ->
  run_in_denv_g (syn_ev w) d ops = true -> run_in_denv_g (E MemFS) d ops = true.
Proof.
  intros w. induction ops as [|o ops IH]; intros d I Ht Hw H; [reflexivity|].
  cbn [run_in_denv_g forallb] in *. apply andb_true_iff in H, Ht, Hw. destruct H as [Hv H]. destruct Ht as [Ht Hts]. destruct Hw as [Hw Hws].
  apply andb_true_iff. split.
  - apply (denv_g_mono (syn_ev w) (E MemFS) d o); [|exact Hv]. intros x Hx. apply (syn_E w); assumption.
  - apply IH; [apply dirfs_step_ovinv; assumption | exact Hts | exact Hws | exact H].
Qed.

(* sequences from the empty directory whose Symlink operations are tame and respect the
   weight: no envelope premise on the overlay, only "no clause other than the link
   clause fails" and the weight of the operation's own path *)
Theorem dirfs_run_refines_class : forall w ops,
  forallb tame_op ops = true -> forallb (wt_op w) ops = true -> run_in_denv_g (syn_ev w) dinit ops = true ->
  dsync (fst (dirfs_run dinit ops)) /\
  d_host (fst (dirfs_run dinit ops)) = fst (spec_run init_st (host_ops ops)) /\
  host_obs ops (snd (dirfs_run dinit ops)) = snd (spec_run init_st (host_ops ops)).
Proof.
  intros w ops Ht Hw H.
  apply (dirfs_run_refines_r ops dinit dsync_init init_wf_model).
  apply (run_syn_E w ops dinit (ovinv_init w) Ht Hw H).
Qed.

(* one step, syntactic form *)
Theorem dirfs_refines_class : forall w d o, dsync d -> is_dir (heap (d_host d)) 0 = true -> ovinv w (d_ov d) ->
  denv_g (syn_ev w) d o = true -> dref d o.
Proof.
  intros w d o Hs Hr I Hv. apply (dirfs_refines_r d o Hs Hr). unfold denv_r.
  apply (denv_g_mono (syn_ev w) (E MemFS) d o); [|exact Hv]. intros x Hx. apply (syn_E w); assumption.
Qed.
