(* C17 — laws of the reference filesystem (Spec/FsSpec.v). *)
From Coq Require Import Sorting.Sorted.
From Apko Require Import Base.Prelude Model.MemFS Spec.FsSpec Proofs.FsProofs.
Open Scope string_scope. Open Scope list_scope.

(* ---- the byte order on names ------------------------------------------------------- *)
Definition slt (a b : string) : Prop := String.ltb a b = true.

Lemma acmp_trans a b c : Ascii.compare a b = Lt -> Ascii.compare b c = Lt -> Ascii.compare a c = Lt.
Proof. unfold Ascii.compare. rewrite !N.compare_lt_iff. lia. Qed.

Lemma scmp_trans : forall a b c, String.compare a b = Lt -> String.compare b c = Lt -> String.compare a c = Lt.
Proof.
  induction a as [|x a IH]; intros [|y b] [|z c]; simpl; try congruence.
  intros H1 H2.
  destruct (Ascii.compare x y) eqn:E1; try discriminate.
  - apply Ascii.compare_eq_iff in E1; subst y.
    destruct (Ascii.compare x z) eqn:E2; try congruence. eapply IH; eauto.
  - destruct (Ascii.compare y z) eqn:E2; try discriminate.
    + apply Ascii.compare_eq_iff in E2; subst z. rewrite E1. reflexivity.
    + rewrite (acmp_trans _ _ _ E1 E2). reflexivity.
Qed.
Lemma slt_trans a b c : slt a b -> slt b c -> slt a c.
Proof.
  unfold slt, String.ltb. intros H1 H2.
  destruct (String.compare a b) eqn:E1; try discriminate.
  destruct (String.compare b c) eqn:E2; try discriminate.
  rewrite (scmp_trans _ _ _ E1 E2). reflexivity.
Qed.
Lemma scmp_refl : forall a, String.compare a a = Eq.
Proof.
  induction a as [|x a IH]; simpl; [reflexivity|].
  unfold Ascii.compare. rewrite N.compare_refl. exact IH.
Qed.
Lemma slt_irrefl a : ~ slt a a.
Proof. unfold slt, String.ltb. rewrite scmp_refl. discriminate. Qed.
Lemma slt_total a b : String.ltb a b = false -> String.eqb a b = false -> slt b a.
Proof.
  unfold slt, String.ltb. intros H1 H2. rewrite String.compare_antisym.
  destruct (String.compare a b) eqn:E; try discriminate.
  - apply String.compare_eq_iff in E. apply String.eqb_neq in H2. contradiction.
  - reflexivity.
Qed.

(* ---- sort_keys: strictly ascending, same names -------------------------------------- *)
Lemma insert_key_in {A} k (v : A) : forall l x,
  In x (List.map fst (insert_key k v l)) <-> x = k \/ In x (List.map fst l).
Proof.
  induction l as [|[k' v'] l IH]; intros x; simpl.
  - intuition.
  - destruct (String.ltb k k') eqn:E1; simpl; [intuition|].
    destruct (String.eqb k k') eqn:E2; simpl.
    + apply String.eqb_eq in E2. subst k'. intuition.
    + rewrite IH. intuition.
Qed.
Lemma insert_key_sorted {A} k (v : A) : forall l,
  StronglySorted slt (List.map fst l) -> StronglySorted slt (List.map fst (insert_key k v l)).
Proof.
  induction l as [|[k' v'] l IH]; simpl; intro H.
  - constructor; constructor.
  - inversion H as [|? ? Hs Hf]; subst.
    destruct (String.ltb k k') eqn:E1; simpl.
    + constructor; [exact H|]. constructor; [exact E1|].
      eapply Forall_impl; [|exact Hf]. intros a Ha. eapply slt_trans; eauto.
    + destruct (String.eqb k k') eqn:E2; simpl; [exact H|].
      constructor; [apply IH, Hs|].
      apply Forall_forall. intros x Hx. apply insert_key_in in Hx. destruct Hx as [->|Hx].
      * apply slt_total; assumption.
      * rewrite Forall_forall in Hf. apply Hf, Hx.
Qed.
Lemma sort_keys_sorted {A} : forall l : list (string * A), StronglySorted slt (List.map fst (sort_keys l)).
Proof. induction l as [|[k v] l IH]; simpl; [constructor | apply insert_key_sorted, IH]. Qed.
Lemma sort_keys_in {A} : forall (l : list (string * A)) x,
  In x (List.map fst (sort_keys l)) <-> In x (List.map fst l).
Proof.
  induction l as [|[k v] l IH]; intros x; simpl; [reflexivity|].
  rewrite insert_key_in, IH. intuition.
Qed.
Lemma sorted_nodup : forall l, StronglySorted slt l -> NoDup l.
Proof.
  induction l as [|a l IH]; intro H; constructor; inversion H as [|? ? Hs Hf]; subst.
  - intro Hin. rewrite Forall_forall in Hf. exact (slt_irrefl a (Hf a Hin)).
  - apply IH, Hs.
Qed.

(* ReadDir: the listing is exactly the set of names in the directory, in
   strictly ascending byte order (hence without duplicates); the state is unchanged *)
Theorem readdir_sorted_complete_nodup : forall s p s' l,
  spec_step s (ReadDir p) = (s', ODir l) ->
  exists i, s_node (heap s) p = inl i /\ is_dir (heap s) i = true /\ s' = s /\
    StronglySorted slt (List.map fst l) /\ NoDup (List.map fst l) /\
    (forall nm, In nm (List.map fst l) <-> In nm (List.map fst (n_children (get (heap s) i)))).
Proof.
  intros s p s' l H. unfold spec_step in H. cbn [spec_raw is_mkdirall negb] in H. unfold s_with_node in H.
  destruct (s_node (heap s) p) as [i|e] eqn:En; [|simpl in H; inversion H].
  destruct (is_dir (heap s) i) eqn:Ed; cbn [negb] in H; [|simpl in H; inversion H].
  cbn [is_failure andb] in H. inversion H; subst. exists i.
  split; [first [reflexivity | assumption]|]. split; [first [reflexivity | assumption]|]. split; [reflexivity|].
  split; [apply sort_keys_sorted|]. split; [apply sorted_nodup, sort_keys_sorted|].
  intro nm; split.
  - intro Hin. apply (proj1 (sort_keys_in _ _)) in Hin. rewrite map_map in Hin.
    erewrite map_ext in Hin; [exact Hin|]. intros [a c]; reflexivity.
  - intro Hin. apply (proj2 (sort_keys_in _ _)). rewrite map_map.
    erewrite map_ext; [exact Hin|]. intros [a c]; reflexivity.
Qed.

(* ---- the link budget ---------------------------------------------------------------- *)
Definition config := (list nat * option string * path)%type.
(* the configuration after following the next link, if the walk reaches one *)
Definition next (h : list node) (follow : bool) (c : config) : option config :=
  let '(st, nm, p) := c in
  match s_walk h st nm p follow with
  | WEnd _ => None
  | WLink st' tgt rest =>
      if path_eqb tgt [""] then None else Some (if rooted tgt then [0] else st', None, tgt ++ rest)
  end.
Fixpoint iter (h : list node) (follow : bool) (k : nat) (c : config) : option config :=
  match k with
  | O => Some c
  | S k' => match next h follow c with None => None | Some c' => iter h follow k' c' end
  end.
Definition resolve_cfg (n : nat) (h : list node) (follow : bool) (c : config) : rres :=
  let '(st, nm, p) := c in s_resolve n h st nm p follow.

(* a resolution that would have to follow more than [n] links is an error (ELOOP) *)
Lemma budget_exceeded : forall h follow n c,
  iter h follow (S n) c <> None -> resolve_cfg n h follow c = RErr EOther.
Proof.
  intros h follow. induction n as [|n IH]; intros [[st nm] p] H; cbn [resolve_cfg s_resolve iter next] in *.
  - destruct (s_walk h st nm p follow) as [r|st' tgt rest]; [congruence | reflexivity].
  - destruct (s_walk h st nm p follow) as [r|st' tgt rest]; [congruence|].
    destruct (path_eqb tgt [""]); [congruence|].
    apply (IH (if rooted tgt then [0] else st', None, tgt ++ rest)). exact H.
Qed.
(* in particular a loop is an error whatever the budget *)
Lemma iter_loop : forall h follow c, next h follow c = Some c -> forall k, iter h follow k c = Some c.
Proof. intros h follow c H. induction k; simpl; [reflexivity | rewrite H; exact IHk]. Qed.
Lemma loop_is_error : forall h follow c, next h follow c = Some c ->
  forall n, resolve_cfg n h follow c = RErr EOther.
Proof. intros h follow c H n. apply budget_exceeded. rewrite (iter_loop h follow c H). discriminate. Qed.
(* and a resolution that succeeds followed at most [n] links *)
Lemma success_within_budget : forall h follow n c,
  (forall e, resolve_cfg n h follow c <> RErr e) -> exists k, k <= n /\ iter h follow (S k) c = None.
Proof.
  intros h follow. induction n as [|n IH]; intros [[st nm] p] H; cbn [resolve_cfg s_resolve] in H.
  - exists 0. split; [lia|]. cbn [iter next].
    destruct (s_walk h st nm p follow) as [r|st' tgt rest]; [reflexivity | exfalso; eapply H; reflexivity].
  - destruct (s_walk h st nm p follow) as [r|st' tgt rest] eqn:Ew.
    + exists 0. split; [lia|]. cbn [iter next]. rewrite Ew. reflexivity.
    + destruct (path_eqb tgt [""]) eqn:Et.
      * exists 0. split; [lia|]. cbn [iter next]. rewrite Ew, Et. reflexivity.
      * destruct (IH (if rooted tgt then [0] else st', None, tgt ++ rest) H) as [k [Hk Hi]].
        exists (S k). split; [lia|]. cbn [iter next] in *. rewrite Ew, Et. exact Hi.
Qed.

(* ---- hard links share the inode ------------------------------------------------------ *)
Lemma lookup_remove_key {A} k : forall l : list (string * A), lookup k (remove_key k l) = None.
Proof.
  induction l as [|[k' v] l IH]; simpl; [reflexivity|].
  destruct (String.eqb k k') eqn:E; [exact IH|]. simpl. rewrite E. exact IH.
Qed.
Lemma lookup_app_none {A} k : forall (l l' : list (string * A)), lookup k l = None -> lookup k (l ++ l') = lookup k l'.
Proof.
  induction l as [|[k' v] l IH]; simpl; intros l' H; [reflexivity|].
  destruct (String.eqb k k'); [discriminate | apply IH, H].
Qed.
Lemma lookup_set_key {A} k (v : A) l : lookup k (set_key k v l) = Some v.
Proof. unfold set_key. rewrite lookup_app_none by apply lookup_remove_key. simpl. rewrite String.eqb_refl. reflexivity. Qed.

Lemma get_upd_same : forall h i f, i < List.length h -> get (upd h i f) i = f (get h i).
Proof.
  unfold get. induction h as [|x h IH]; intros [|i] f H; simpl in *; try lia; [reflexivity|].
  apply IH. lia.
Qed.
Lemma get_upd_other : forall h i j f, i <> j -> get (upd h i f) j = get h j.
Proof.
  unfold get. induction h as [|x h IH]; intros [|i] [|j] f H; simpl; try reflexivity; try congruence.
  apply IH. congruence.
Qed.
Lemma is_dir_in_range : forall h i, is_dir h i = true -> i < List.length h.
Proof.
  intros h i H. unfold is_dir, get in H. destruct (Nat.ltb i (List.length h)) eqn:E.
  - apply Nat.ltb_lt in E. exact E.
  - apply Nat.ltb_ge in E. rewrite nth_overflow in H by exact E. discriminate.
Qed.

(* a successful Link enters, under the new name, the very inode the old name
   resolves to; file contents, permissions, owner, times and attributes live in
   the inode, so they are shared by construction *)
Theorem hardlinks_share : forall s old new s',
  spec_step s (Link old new) = (s', OOk) ->
  exists d nm i,
    s_node (heap s) old = inl i /\ s_leaf (heap s) new = inl (d, nm, None) /\ is_dir (heap s) i = false /\
    heap s' = add_child (heap s) d nm i /\ handles s' = handles s /\
    lookup nm (n_children (get (heap s') d)) = Some i.
Proof.
  intros s old new s' H. unfold spec_step in H. cbn [spec_raw is_mkdirall negb] in H. unfold s_with_leaf in H.
  destruct (s_leaf (heap s) new) as [[[d nm] c]|e] eqn:El; [|simpl in H; inversion H].
  destruct (is_dir (heap s) d) eqn:Edd; cbn [negb] in H; [|simpl in H; inversion H].
  destruct (s_node (heap s) old) as [i|e] eqn:En; [|simpl in H; inversion H].
  destruct (is_dir (heap s) i) eqn:Ed; [simpl in H; inversion H|].
  unfold s_enter_new in H. rewrite Edd in H. cbn [negb] in H. destruct c as [c|]; [simpl in H; inversion H|].
  cbn [is_failure andb] in H. inversion H; subst. exists d, nm, i.
  do 5 (split; [first [reflexivity | assumption]|]).
  cbn [seth heap]. unfold add_child. rewrite get_upd_same by (apply is_dir_in_range, Edd).
  cbn [set_children n_children]. apply lookup_set_key.
Qed.

(* ---- reads return the bytes last written ---------------------------------------------- *)
Lemma write_at_prefix_len : forall d o, o <= List.length (if Nat.ltb (List.length d) o then d ++ zeros (o - List.length d) else d).
Proof.
  intros d o. destruct (Nat.ltb (List.length d) o) eqn:E.
  - apply Nat.ltb_lt in E. rewrite app_length. unfold zeros. rewrite repeat_length. lia.
  - apply Nat.ltb_ge in E. exact E.
Qed.
Lemma write_at_read : forall d o p, firstn (List.length p) (skipn o (write_at d o p)) = p.
Proof.
  intros d o p. unfold write_at.
  set (d1 := if Nat.ltb (List.length d) o then d ++ zeros (o - List.length d) else d).
  assert (L : List.length (firstn o d1) = o) by (rewrite firstn_length; pose proof (write_at_prefix_len d o); fold d1 in H; lia).
  rewrite skipn_app, L, Nat.sub_diag. rewrite skipn_all2 by lia. cbn [skipn app].
  rewrite firstn_app, Nat.sub_diag, firstn_all. cbn [firstn]. apply app_nil_r.
Qed.
Lemma write_at_length : forall d o p, o + List.length p <= List.length (write_at d o p).
Proof.
  intros d o p. unfold write_at.
  set (d1 := if Nat.ltb (List.length d) o then d ++ zeros (o - List.length d) else d).
  pose proof (write_at_prefix_len d o) as H; fold d1 in H.
  rewrite !app_length, firstn_length. lia.
Qed.

(* A successful Write of [p] through a handle positioned at [o] (not O_APPEND)
   is seen, byte for byte, by a ReadAt of the same range through ANY open
   readable handle on the same inode — in particular through a handle opened
   under another hard link of the file. *)
Theorem read_after_write : forall s i p hd s' r,
  nth_error (handles s) i = Some hd -> f_app (h_fl hd) = false ->
  h_ino hd < List.length (heap s) -> p <> [] ->
  spec_step s (Write i p) = (s', r) -> is_failure r = false ->
  r = ONum (blen p) /\
  forall j hj, nth_error (handles s') j = Some hj -> h_open hj = true -> readable (h_fl hj) = true ->
    h_ino hj = h_ino hd -> is_dir (heap s') (h_ino hd) = false ->
    spec_step s' (ReadAt j (List.length p) (h_off hd)) = (s', OBytes p).
Proof.
  intros s i p hd s' r Hn Ha Hr Hp H Hf. unfold spec_step in H. cbn [spec_raw is_mkdirall negb] in H.
  unfold with_handle in H. rewrite Hn in H.
  destruct (h_open hd); [|inversion H; subst; discriminate Hf].
  destruct (writable (h_fl hd)); cbn [negb] in H; [|inversion H; subst; discriminate Hf].
  rewrite Ha in H. destruct (h_off hd <? 0)%Z eqn:Eo; [inversion H; subst; discriminate Hf|].
  cbn [is_failure andb] in H. inversion H; subst. clear H. split; [reflexivity|].
  intros j hj Hj Hoj Hrj Hino Hd. unfold spec_step. cbn [spec_raw is_mkdirall negb]. unfold with_handle.
  rewrite Hj, Hoj, Hrj. cbn [negb]. rewrite Hino, Hd.
  cbn [heap]. rewrite get_upd_same by exact Hr. cbn [set_data n_data].
  rewrite Eo.
  assert (Hlen : List.length p <> 0) by (destruct p; [congruence | simpl; lia]).
  apply Nat.eqb_neq in Hlen. rewrite Hlen. cbn [negb andb].
  apply Z.ltb_ge in Eo.
  pose proof (write_at_length (n_data (get (heap s) (h_ino hd))) (Z.to_nat (h_off hd)) p) as L.
  apply Nat.eqb_neq in Hlen.
  assert (Hge : (h_off hd >=? blen (write_at (n_data (get (heap s) (h_ino hd))) (Z.to_nat (h_off hd)) p))%Z = false).
  { unfold blen. rewrite Z.geb_leb. apply Z.leb_gt. lia. }
  rewrite Hge. rewrite write_at_read. reflexivity.
Qed.

(* ---- metadata reads return what was last set -------------------------------------------- *)
(* resolution looks only at kinds, directory entries and link targets *)
Definition same_shape (h h' : list node) : Prop :=
  forall j, n_kind (get h' j) = n_kind (get h j) /\ n_children (get h' j) = n_children (get h j) /\
            n_target (get h' j) = n_target (get h j).

Lemma s_walk_shape : forall h h', same_shape h h' ->
  forall p st nm f, s_walk h' st nm p f = s_walk h st nm p f.
Proof.
  intros h h' H. induction p as [|c rest IH]; intros st nm f; cbn [s_walk]; [reflexivity|].
  unfold is_dir, is_sym. destruct (H (cur st)) as [K [C _]]. rewrite K, C, !IH.
  destruct (lookup c (n_children (get h (cur st)))) as [i|]; [|reflexivity].
  destruct (H i) as [Ki [_ Ti]]. rewrite Ki, Ti, IH. reflexivity.
Qed.
Lemma s_resolve_shape : forall h h', same_shape h h' ->
  forall n st nm p f, s_resolve n h' st nm p f = s_resolve n h st nm p f.
Proof.
  intros h h' H. induction n as [|n IH]; intros st nm p f; cbn [s_resolve]; rewrite (s_walk_shape h h' H);
    destruct (s_walk h st nm p f); try reflexivity.
  destruct (path_eqb tgt [""]); [reflexivity | apply IH].
Qed.
Lemma s_node_shape : forall h h', same_shape h h' -> forall p, s_node h' p = s_node h p.
Proof. intros h h' H p. unfold s_node, s_path. rewrite (s_resolve_shape h h' H). reflexivity. Qed.

Lemma upd_out_of_range : forall h i f, List.length h <= i -> upd h i f = h.
Proof.
  induction h as [|x h IH]; intros [|i] f H; simpl in *; try reflexivity; try lia.
  f_equal. apply IH. lia.
Qed.
Lemma upd_same_shape : forall h i f,
  (forall n, n_kind (f n) = n_kind n /\ n_children (f n) = n_children n /\ n_target (f n) = n_target n) ->
  same_shape h (upd h i f).
Proof.
  intros h i f Hf j. destruct (Nat.eq_dec i j) as [->|Hne].
  - destruct (Nat.lt_ge_cases j (List.length h)) as [Hl|Hl].
    + rewrite get_upd_same by exact Hl. apply Hf.
    + rewrite upd_out_of_range by exact Hl. repeat split.
  - rewrite get_upd_other by exact Hne. repeat split.
Qed.

Lemma stat_after_upd : forall s p i f,
  (forall n, n_kind (f n) = n_kind n /\ n_children (f n) = n_children n /\ n_target (f n) = n_target n) ->
  s_node (heap s) p = inl i -> i < List.length (heap s) ->
  spec_step (seth s (upd (heap s) i f)) (Stat p) = (seth s (upd (heap s) i f), info_of (f (get (heap s) i))).
Proof.
  intros s p i f Hf Hn Hi. unfold spec_step. cbn [spec_raw is_mkdirall negb]. unfold s_with_node. cbn [seth heap].
  rewrite (s_node_shape _ _ (upd_same_shape (heap s) i f Hf)), Hn. rewrite get_upd_same by exact Hi.
  unfold info_of. reflexivity.
Qed.

(* After a successful Chmod / Chown / Chtimes of [p], Stat of the same path
   reports exactly the value set (and everything else as before).  The premise
   [i < length heap] says the resolved inode exists; every state reached from
   the empty filesystem satisfies it. *)
Theorem metadata_last_set : forall s p i, s_node (heap s) p = inl i -> i < List.length (heap s) ->
  (forall m s', spec_step s (Chmod p m) = (s', OOk) ->
     spec_step s' (Stat p) = (s', info_of (set_perm m (get (heap s) i)))) /\
  (forall u g s', spec_step s (Chown p u g) = (s', OOk) ->
     spec_step s' (Stat p) = (s', info_of (set_owner u g (get (heap s) i)))) /\
  (forall t s', spec_step s (Chtimes p t) = (s', OOk) ->
     spec_step s' (Stat p) = (s', info_of (set_mtime (Some t) (get (heap s) i)))).
Proof.
  intros s p i Hn Hi. repeat split; intros; unfold spec_step in H; cbn [spec_raw is_mkdirall negb] in H;
    unfold s_with_node in H; rewrite Hn in H; cbn [is_failure andb] in H; inversion H; subst;
    apply stat_after_upd; try assumption; intros n; repeat split.
Qed.
