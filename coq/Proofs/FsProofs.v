(* C17 — proofs about the reference filesystem (Spec/FsSpec.v) and the model
   of the in-memory filesystems (Model/MemFS.v). *)
From Apko Require Import Base.Prelude Model.MemFS Spec.FsSpec.
Open Scope string_scope. Open Scope list_scope.

(* ---- failure leaves the state unchanged (reference: by construction) ------ *)
Lemma spec_failure_no_change : forall s o s' r,
  spec_step s o = (s', r) -> is_failure r = true -> is_mkdirall o = false -> s' = s.
Proof.
  intros s o s' r H Hf Hm. unfold spec_step in H.
  destruct (spec_raw s o) as [s1 r1]. rewrite Hm in H. cbn [negb] in H.
  rewrite andb_true_r in H.
  destruct (is_failure r1) eqn:E1; inversion H; subst; [reflexivity | congruence].
Qed.

(* ---- boolean equalities are sound --------------------------------------------- *)
Lemma kind_eqb_eq a b : kind_eqb a b = true -> a = b.
Proof. destruct a, b; simpl; congruence. Qed.
Lemma eclass_eqb_eq a b : eclass_eqb a b = true -> a = b.
Proof. destruct a, b; simpl; congruence. Qed.
Lemma list_eqb_eq {A} (eqb : A -> A -> bool) (H : forall x y, eqb x y = true -> x = y) :
  forall a b, list_eqb eqb a b = true -> a = b.
Proof.
  induction a as [|x a IH]; destruct b as [|y b]; simpl; intro E; try reflexivity; try discriminate.
  apply andb_true_iff in E. destruct E as [E1 E2]. f_equal; auto.
Qed.
Lemma pair_eqb_eq {A B} (ea : A -> A -> bool) (eb : B -> B -> bool)
  (Ha : forall x y, ea x y = true -> x = y) (Hb : forall x y, eb x y = true -> x = y) :
  forall x y, pair_eqb ea eb x y = true -> x = y.
Proof.
  intros [a b] [a' b']; unfold pair_eqb; simpl; intro E.
  apply andb_true_iff in E. destruct E. f_equal; auto.
Qed.
Lemma option_eqb_eq {A} (eqb : A -> A -> bool) (H : forall x y, eqb x y = true -> x = y) :
  forall a b, option_eqb eqb a b = true -> a = b.
Proof. intros [x|] [y|]; simpl; intro E; try discriminate; try reflexivity. f_equal; auto. Qed.
Lemma str_eqb_eq x y : String.eqb x y = true -> x = y.
Proof. apply String.eqb_eq. Qed.
Lemma nat_eqb_eq x y : Nat.eqb x y = true -> x = y.
Proof. apply Nat.eqb_eq. Qed.
Lemma N_eqb_eq x y : N.eqb x y = true -> x = y.
Proof. apply N.eqb_eq. Qed.
Lemma Z_eqb_eq x y : Z.eqb x y = true -> x = y.
Proof. apply Z.eqb_eq. Qed.
Lemma path_eqb_eq a b : path_eqb a b = true -> a = b.
Proof. apply list_eqb_eq, str_eqb_eq. Qed.

Lemma node_eqb_eq a b : node_eqb a b = true -> a = b.
Proof.
  destruct a as [k1 p1 u1 g1 d1 m1 t1 v1 x1 c1], b as [k2 p2 u2 g2 d2 m2 t2 v2 x2 c2]; unfold node_eqb; simpl.
  intro E.
  apply andb_true_iff in E; destruct E as [E Ec]. apply andb_true_iff in E; destruct E as [E Ex].
  apply andb_true_iff in E; destruct E as [E Ev]. apply andb_true_iff in E; destruct E as [E Et].
  apply andb_true_iff in E; destruct E as [E Em]. apply andb_true_iff in E; destruct E as [E Ed].
  apply andb_true_iff in E; destruct E as [E Eg]. apply andb_true_iff in E; destruct E as [E Eu].
  apply andb_true_iff in E; destruct E as [Ek Ep].
  apply kind_eqb_eq in Ek. apply N_eqb_eq in Ep. apply Z_eqb_eq in Eu. apply Z_eqb_eq in Eg.
  apply (list_eqb_eq _ N_eqb_eq) in Ed. apply (option_eqb_eq _ Z_eqb_eq) in Em.
  apply path_eqb_eq in Et. apply N_eqb_eq in Ev.
  apply (list_eqb_eq _ (pair_eqb_eq _ _ str_eqb_eq (list_eqb_eq _ N_eqb_eq))) in Ex.
  apply (list_eqb_eq _ (pair_eqb_eq _ _ str_eqb_eq nat_eqb_eq)) in Ec.
  congruence.
Qed.
Lemma heap_eqb_eq a b : heap_eqb a b = true -> a = b.
Proof. apply list_eqb_eq, node_eqb_eq. Qed.
Lemma eres_nat_eqb_eq a b : eres_nat_eqb a b = true -> a = b.
Proof.
  destruct a, b; simpl; intro E; try discriminate.
  - apply nat_eqb_eq in E; congruence.
  - apply eclass_eqb_eq in E; congruence.
Qed.
Lemma leaf_eqb_eq a b : leaf_eqb a b = true -> a = b.
Proof.
  destruct a as [[[p1 n1] c1]|e1], b as [[[p2 n2] c2]|e2]; simpl; intro E; try discriminate.
  - apply andb_true_iff in E. destruct E as [E E3]. apply andb_true_iff in E. destruct E as [E1 E2].
    apply nat_eqb_eq in E1. apply str_eqb_eq in E2. apply (option_eqb_eq _ nat_eqb_eq) in E3. congruence.
  - apply eclass_eqb_eq in E; congruence.
Qed.
Lemma opened_eqb_eq a b : opened_eqb a b = true -> a = b.
Proof.
  destruct a, b; simpl; intro E; try discriminate.
  - apply eclass_eqb_eq in E; congruence.
  - apply andb_true_iff in E. destruct E as [E1 E2]. apply heap_eqb_eq in E1. apply nat_eqb_eq in E2. congruence.
Qed.
Lemma mkdirall_eqb_eq a b : mkdirall_eqb a b = true -> a = b.
Proof.
  destruct a, b; unfold mkdirall_eqb; simpl; intro E. apply andb_true_iff in E. destruct E as [E1 E2].
  apply heap_eqb_eq in E1. apply (option_eqb_eq _ eclass_eqb_eq) in E2. congruence.
Qed.

(* ---- reading the envelope ----------------------------------------------------- *)
Lemma first_corner_none : forall l, first_corner l = None -> Forall (fun x => fst x = true) l.
Proof.
  unfold first_corner. induction l as [|[c t] l IH]; simpl; intro H; constructor.
  - simpl. destruct c; [reflexivity | simpl in H; discriminate].
  - apply IH. destruct c; simpl in H; [exact H | discriminate].
Qed.
Lemma E_clauses : forall b s o, E b s o = true -> Forall (fun x => fst x = true) (corners b s o).
Proof.
  intros b s o H. apply first_corner_none. unfold E, corner in H.
  destruct (first_corner (corners b s o)); [discriminate | reflexivity].
Qed.

Ltac clauses H :=
  repeat match type of H with
         | Forall _ (_ :: _) => let H1 := fresh "C" in let H2 := fresh "H" in
                                inversion H as [|? ? H1 H2]; subst; clear H; cbn [fst] in H1; rename H2 into H
         | Forall _ (_ ++ _) => apply Forall_app in H; let H1 := fresh "H" in destruct H as [H1 H]
         end.
Lemma node_ops_agree : forall b s p (k : nat -> st * out),
  Forall (fun x => fst x = true) (node_corner b (heap s) p) ->
  with_node b s p k = s_with_node s p k.
Proof.
  intros b s p k H. unfold node_corner in H. clauses H.
  apply eres_nat_eqb_eq in C1. unfold with_node, s_with_node. rewrite C1. reflexivity.
Qed.

(* entry-level operations that do not test the parent: the lookups agree *)
Lemma leaf_ops_agree : forall b s p (k : nat -> string -> option nat -> st * out),
  Forall (fun x => fst x = true) (leaf_corner b (heap s) p false) ->
  with_leaf b s p k = s_with_leaf s p k.
Proof.
  intros b s p k H. unfold leaf_corner in H. clauses H. cbn [andb] in C1. rewrite orb_false_r in C1.
  apply leaf_eqb_eq in C1. unfold with_leaf, s_with_leaf. rewrite C1. reflexivity.
Qed.

(* operations that test "parent is a directory" themselves: either the lookups
   agree, or the code found a non-directory parent where the reference says ENOTDIR *)
Lemma leaf_chk_agree : forall b s p (k1 k2 : nat -> string -> option nat -> st * out),
  (forall pi nm c, k1 pi nm c = k2 pi nm c) ->
  Forall (fun x => fst x = true) (leaf_corner b (heap s) p true) ->
  with_leaf b s p (fun pi base c => if negb (is_dir (heap s) pi) then (s, OErr EOther) else k1 pi base c) =
  s_with_leaf s p (fun pi nm c => if negb (is_dir (heap s) pi) then (s, OErr EOther) else k2 pi nm c).
Proof.
  intros b s p k1 k2 Hk H. unfold leaf_corner in H. clauses H. cbn [andb] in C1.
  unfold with_leaf, s_with_leaf.
  destruct (leaf_eqb (m_leaf b (heap s) p) (s_leaf (heap s) p)) eqn:El.
  - apply leaf_eqb_eq in El. rewrite El. destruct (s_leaf (heap s) p) as [[[pi nm] c]|e]; [|reflexivity].
    rewrite Hk. reflexivity.
  - cbn [orb] in C1. unfold leaf_nondir_parent in C1.
    destruct (m_leaf b (heap s) p) as [[[pi nm] c]|e]; [|discriminate].
    destruct (s_leaf (heap s) p) as [x|e]; [discriminate|]. destruct e; try discriminate.
    rewrite C1. reflexivity.
Qed.

Lemma refine_mkdir : forall b s p perm, E b s (Mkdir p perm) = true ->
  model_step b s (Mkdir p perm) = spec_raw s (Mkdir p perm).
Proof.
  intros b s p perm H. apply E_clauses in H. cbn [corners] in H.
  cbn [model_step spec_raw].
  apply (leaf_chk_agree b s p
           (fun pi base c => match c with
                             | Some _ => (s, OErr EExist)
                             | None => (seth s (fst (create (heap s) pi base (empty_node KDir perm))), OOk)
                             end) _ (fun _ _ _ => eq_refl)). exact H.
Qed.

Lemma refine_entry : forall b s p (mk : nat -> string -> list node -> list node),
  Forall (fun x => fst x = true) (leaf_corner b (heap s) p true) ->
  with_leaf b s p (fun pi base c => enter_new s pi c (mk pi base)) =
  s_with_leaf s p (fun pi nm c => s_enter_new s pi c (mk pi nm)).
Proof.
  intros b s p mk H. unfold enter_new, s_enter_new.
  apply (leaf_chk_agree b s p
           (fun pi base c => match c with
                             | Some _ => (s, OErr EExist)
                             | None => (seth s (mk pi base (heap s)), OOk)
                             end) _ (fun _ _ _ => eq_refl)). exact H.
Qed.

Lemma refine_symlink : forall b s t p, E b s (Symlink t p) = true ->
  model_step b s (Symlink t p) = spec_raw s (Symlink t p).
Proof.
  intros b s t p H. apply E_clauses in H. cbn [corners] in H. cbn [model_step spec_raw].
  apply (refine_entry b s p (fun pi base h => fst (create h pi base (mkNode KSym 511%N 0%Z 0%Z [] None t 0%N [] [])))). exact H.
Qed.
Lemma refine_mknod : forall b s p perm dev, E b s (Mknod p perm dev) = true ->
  model_step b s (Mknod p perm dev) = spec_raw s (Mknod p perm dev).
Proof.
  intros b s p perm dev H. apply E_clauses in H. cbn [corners] in H. cbn [model_step spec_raw].
  apply (refine_entry b s p (fun pi base h => fst (create h pi base (mkNode KDev perm 0%Z 0%Z [] None [] dev [] [])))). exact H.
Qed.

Lemma refine_link : forall b s old new, E b s (Link old new) = true ->
  model_step b s (Link old new) = spec_raw s (Link old new).
Proof.
  intros b s old new H. apply E_clauses in H. cbn [corners] in H. cbn [model_step spec_raw].
  apply Forall_app in H. destruct H as [H1 H]. clauses H.
  apply eres_nat_eqb_eq in C2.
  apply (leaf_chk_agree b s new
           (fun pi base c => match get_node b (heap s) old with
                             | inr _ => (s, OErr ENotExist)
                             | inl t => enter_new s pi c (fun h => add_child h pi base t)
                             end)
           (fun pi nm c => match s_node (heap s) old with
                           | inr e => (s, OErr e)
                           | inl t => if is_dir (heap s) t then (s, OErr EOther)
                                      else s_enter_new s pi c (fun h => add_child h pi nm t)
                           end)); [|exact H1].
  intros pi nm c. rewrite C2 in *. destruct (s_node (heap s) old) as [t|e].
  - destruct (is_dir (heap s) t); [discriminate | reflexivity].
  - destruct e; try discriminate. reflexivity.
Qed.

Lemma refine_leaf_simple : forall b s o p,
  (corners b s o = leaf_corner b (heap s) p false) ->
  forall k, model_step b s o = with_leaf b s p k -> spec_raw s o = s_with_leaf s p k ->
  E b s o = true -> model_step b s o = spec_raw s o.
Proof.
  intros b s o p Hc k Hm Hs H. apply E_clauses in H. rewrite Hc in H. rewrite Hm, Hs.
  apply leaf_ops_agree. exact H.
Qed.

Lemma refine_readlink : forall b s p, E b s (Readlink p) = true ->
  model_step b s (Readlink p) = spec_raw s (Readlink p).
Proof. intros b s p. eapply refine_leaf_simple; reflexivity. Qed.
Lemma refine_readnod : forall b s p, E b s (Readnod p) = true ->
  model_step b s (Readnod p) = spec_raw s (Readnod p).
Proof. intros b s p. eapply refine_leaf_simple; reflexivity. Qed.

Lemma refine_remove : forall b s p, E b s (Remove p) = true ->
  model_step b s (Remove p) = spec_raw s (Remove p).
Proof.
  intros b s p H. apply E_clauses in H. cbn [corners] in H. cbn [model_step spec_raw].
  apply Forall_app in H. destruct H as [H1 H]. clauses H.
  rewrite (leaf_ops_agree b s p _ H1).
  unfold s_with_leaf. destruct (s_leaf (heap s) p) as [[[pi nm] [c|]]|e] eqn:Es; try reflexivity.
  unfold nonempty in C. destruct (is_dir (heap s) c); [|reflexivity].
  destruct (n_children (get (heap s) c)); [reflexivity | discriminate].
Qed.

Lemma refine_node_simple : forall b s o p,
  (corners b s o = node_corner b (heap s) p) ->
  forall k, model_step b s o = with_node b s p k -> spec_raw s o = s_with_node s p k ->
  E b s o = true -> model_step b s o = spec_raw s o.
Proof.
  intros b s o p Hc k Hm Hs H. apply E_clauses in H. rewrite Hc in H. rewrite Hm, Hs.
  apply node_ops_agree. exact H.
Qed.
Lemma refine_readdir : forall b s p, E b s (ReadDir p) = true -> model_step b s (ReadDir p) = spec_raw s (ReadDir p).
Proof. intros b s p. eapply refine_node_simple; reflexivity. Qed.
Lemma refine_stat : forall b s p, E b s (Stat p) = true -> model_step b s (Stat p) = spec_raw s (Stat p).
Proof. intros b s p. eapply refine_node_simple; reflexivity. Qed.
Lemma refine_chmod : forall b s p m, E b s (Chmod p m) = true -> model_step b s (Chmod p m) = spec_raw s (Chmod p m).
Proof. intros b s p m. eapply refine_node_simple; reflexivity. Qed.
Lemma refine_chown : forall b s p u g, E b s (Chown p u g) = true -> model_step b s (Chown p u g) = spec_raw s (Chown p u g).
Proof. intros b s p u g. eapply refine_node_simple; reflexivity. Qed.
Lemma refine_chtimes : forall b s p t, E b s (Chtimes p t) = true -> model_step b s (Chtimes p t) = spec_raw s (Chtimes p t).
Proof. intros b s p t. eapply refine_node_simple; reflexivity. Qed.

Lemma refine_lstat : forall b s p, E b s (Lstat p) = true -> model_step b s (Lstat p) = spec_raw s (Lstat p).
Proof.
  intros b s p H. apply E_clauses in H. cbn [corners] in H. cbn [model_step spec_raw].
  apply Forall_app in H. destruct H as [H1 H]. clauses H1. apply eres_nat_eqb_eq in C0.
  rewrite (node_ops_agree b s p _ H). unfold s_with_node. rewrite C0. reflexivity.
Qed.

Lemma xattr_ops_agree : forall b s p (k : nat -> st * out),
  Forall (fun x => fst x = true)
    ([ (clean_path p, t_path);
       (match s_node (heap s) p with inr ENotExist => true | inr _ => false | inl _ => true end,
        "xattr-lookup-error-always-notexist") ] ++ node_corner b (heap s) p) ->
  with_node_ne b s p k = s_with_node s p k.
Proof.
  intros b s p k H. apply Forall_app in H. destruct H as [H1 H]. clauses H1.
  unfold node_corner in H. clauses H. apply eres_nat_eqb_eq in C3.
  unfold with_node_ne, s_with_node. rewrite C3.
  destruct (s_node (heap s) p) as [i|e]; [reflexivity|]. destruct e; try discriminate. reflexivity.
Qed.
Lemma refine_setxattr : forall b s p a v, E b s (SetXattr p a v) = true -> model_step b s (SetXattr p a v) = spec_raw s (SetXattr p a v).
Proof. intros b s p a v H. apply E_clauses in H. cbn [corners] in H. cbn [model_step spec_raw]. apply xattr_ops_agree, H. Qed.
Lemma refine_getxattr : forall b s p a, E b s (GetXattr p a) = true -> model_step b s (GetXattr p a) = spec_raw s (GetXattr p a).
Proof. intros b s p a H. apply E_clauses in H. cbn [corners] in H. cbn [model_step spec_raw]. apply xattr_ops_agree, H. Qed.
Lemma refine_removexattr : forall b s p a, E b s (RemoveXattr p a) = true -> model_step b s (RemoveXattr p a) = spec_raw s (RemoveXattr p a).
Proof. intros b s p a H. apply E_clauses in H. cbn [corners] in H. cbn [model_step spec_raw]. apply xattr_ops_agree, H. Qed.
Lemma refine_listxattrs : forall b s p, E b s (ListXattrs p) = true -> model_step b s (ListXattrs p) = spec_raw s (ListXattrs p).
Proof. intros b s p H. apply E_clauses in H. cbn [corners] in H. cbn [model_step spec_raw]. apply xattr_ops_agree, H. Qed.

(* ---- handles --------------------------------------------------------------------- *)
Lemma handle_clauses : forall s i f hd,
  nth_error (handles s) i = Some hd -> h_open hd = true ->
  Forall (fun x => fst x = true) (handle_corner s i f) -> Forall (fun x => fst x = true) (f hd).
Proof. intros s i f hd H1 H2 H. unfold handle_corner in H. rewrite H1, H2 in H. exact H. Qed.

Lemma refine_read : forall b s i n, E b s (Read i n) = true -> model_step b s (Read i n) = spec_raw s (Read i n).
Proof.
  intros b s i n H. apply E_clauses in H. cbn [corners] in H. cbn [model_step spec_raw].
  unfold with_handle. destruct (nth_error (handles s) i) as [hd|] eqn:En; [|reflexivity].
  destruct (h_open hd) eqn:Eo; [|reflexivity].
  apply (handle_clauses s i _ hd En Eo) in H. cbv beta in H. clauses H.
  rewrite C. cbn [negb]. apply negb_true_iff in C0, C1, C2. rewrite C0, C1.
  destruct (h_off hd >=? blen (n_data (get (heap s) (h_ino hd))))%Z eqn:Ee.
  - rewrite andb_true_r in C2. rewrite C2. reflexivity.
  - rewrite andb_false_r. reflexivity.
Qed.
Lemma refine_readat : forall b s i n off, E b s (ReadAt i n off) = true -> model_step b s (ReadAt i n off) = spec_raw s (ReadAt i n off).
Proof.
  intros b s i n off H. apply E_clauses in H. cbn [corners] in H. cbn [model_step spec_raw].
  unfold with_handle. destruct (nth_error (handles s) i) as [hd|] eqn:En; [|reflexivity].
  destruct (h_open hd) eqn:Eo; [|reflexivity].
  apply (handle_clauses s i _ hd En Eo) in H. cbv beta in H. clauses H.
  rewrite C. cbn [negb]. apply negb_true_iff in C0, C1. rewrite C0.
  destruct (off <? 0)%Z; [reflexivity|].
  destruct (off >=? blen (n_data (get (heap s) (h_ino hd))))%Z eqn:Ee.
  - rewrite andb_true_r in C1. rewrite C1. reflexivity.
  - rewrite andb_false_r. reflexivity.
Qed.
Lemma refine_write : forall b s i p, E b s (Write i p) = true -> model_step b s (Write i p) = spec_raw s (Write i p).
Proof.
  intros b s i p H. apply E_clauses in H. cbn [corners] in H. cbn [model_step spec_raw].
  unfold with_handle. destruct (nth_error (handles s) i) as [hd|] eqn:En; [|reflexivity].
  destruct (h_open hd) eqn:Eo; [|reflexivity].
  apply (handle_clauses s i _ hd En Eo) in H. cbv beta in H. clauses H.
  rewrite C. cbn [negb]. apply negb_true_iff in C0. rewrite C0.
  destruct (f_app (h_fl hd)).
  - simpl in C1. apply Z.eqb_eq in C1. rewrite <- C1. rewrite C0. reflexivity.
  - rewrite C0. reflexivity.
Qed.
Lemma refine_seek : forall b s i off wh, E b s (Seek i off wh) = true -> model_step b s (Seek i off wh) = spec_raw s (Seek i off wh).
Proof. reflexivity. Qed.
Lemma refine_close : forall b s i, E b s (Close i) = true -> model_step b s (Close i) = spec_raw s (Close i).
Proof. reflexivity. Qed.

(* ---- open ------------------------------------------------------------------------ *)
Lemma get_upd_data_nil : forall h i, n_data (get (upd h i (set_data [])) i) = [].
Proof.
  unfold get. induction h as [|x h IH]; intros [|i]; simpl; try reflexivity. apply IH.
Qed.

Lemma open_agree : forall b s p fl perm,
  Forall (fun x => fst x = true) (open_corner b (heap s) p fl perm) ->
  m_open b s p fl perm = s_do_open s p fl perm.
Proof.
  intros b s p fl perm H. unfold open_corner in H. clauses H. apply opened_eqb_eq in C3.
  unfold m_open, s_do_open. rewrite C3 in *. destruct (s_open (heap s) p fl perm) as [e|h i]; [reflexivity|].
  unfold new_handle, s_new_handle. destruct (f_app fl); [|reflexivity].
  destruct (f_trunc fl).
  - rewrite get_upd_data_nil. reflexivity.
  - simpl in C4. apply Nat.eqb_eq in C4. rewrite C4. reflexivity.
Qed.
Lemma refine_openfile : forall b s p fl perm, E b s (OpenFile p fl perm) = true ->
  model_step b s (OpenFile p fl perm) = spec_raw s (OpenFile p fl perm).
Proof. intros b s p fl perm H. apply E_clauses in H. cbn [corners] in H. cbn [model_step spec_raw]. apply open_agree, H. Qed.
Lemma refine_create : forall b s p, E b s (Create p) = true -> model_step b s (Create p) = spec_raw s (Create p).
Proof. intros b s p H. apply E_clauses in H. cbn [corners] in H. cbn [model_step spec_raw]. apply open_agree, H. Qed.
Lemma refine_writefile : forall b s p bs perm, E b s (WriteFile p bs perm) = true ->
  model_step b s (WriteFile p bs perm) = spec_raw s (WriteFile p bs perm).
Proof.
  intros b s p bs perm H. apply E_clauses in H. cbn [corners] in H. cbn [model_step spec_raw].
  unfold open_corner in H. clauses H. apply opened_eqb_eq in C3. rewrite C3. reflexivity.
Qed.
Lemma refine_readfile : forall b s p, E b s (ReadFile p) = true -> model_step b s (ReadFile p) = spec_raw s (ReadFile p).
Proof.
  intros b s p H. apply E_clauses in H. cbn [corners] in H. cbn [model_step spec_raw].
  unfold open_corner in H. clauses H. apply opened_eqb_eq in C3. rewrite C3.
  unfold s_with_node. unfold s_node in *. unfold s_open. 
  destruct (s_path (heap s) p true) as [st nm|st nm|e]; try reflexivity.
  cbn [rdonly f_creat f_excl f_acc f_trunc andb orb].
  apply negb_true_iff in C1. rewrite C1. reflexivity.
Qed.

(* ---- mkdir -p ---------------------------------------------------------------------- *)
Lemma clean_path_not_empty : forall p, clean_path p = true -> path_eqb p [""] = false.
Proof.
  intros p H. destruct (path_eqb p [""]) eqn:Ep; [|reflexivity].
  apply path_eqb_eq in Ep. subst p. vm_compute in H. discriminate.
Qed.
Lemma refine_mkdirall : forall b s p perm, E b s (MkdirAll p perm) = true ->
  model_step b s (MkdirAll p perm) = spec_raw s (MkdirAll p perm).
Proof.
  intros b s p perm H. apply E_clauses in H. cbn [corners] in H. cbn [model_step spec_raw].
  clauses H. apply mkdirall_eqb_eq in C2. rewrite (clean_path_not_empty p C). rewrite C2. reflexivity.
Qed.

Theorem refines_raw : forall b s o, E b s o = true -> model_step b s o = spec_raw s o.
Proof.
  intros b s o; destruct o.
  - apply refine_mkdir. - apply refine_mkdirall. - apply refine_openfile. - apply refine_create.
  - apply refine_read. - apply refine_readat. - apply refine_write. - apply refine_seek. - apply refine_close.
  - apply refine_readfile. - apply refine_writefile. - apply refine_readdir. - apply refine_stat. - apply refine_lstat.
  - apply refine_symlink. - apply refine_link. - apply refine_readlink. - apply refine_remove.
  - apply refine_chmod. - apply refine_chown. - apply refine_chtimes. - apply refine_mknod. - apply refine_readnod.
  - apply refine_setxattr. - apply refine_getxattr. - apply refine_removexattr. - apply refine_listxattrs.
Qed.

(* the model: a failing operation returns the state it was given (MkdirAll excepted) *)
Ltac brk :=
  repeat match goal with
         | |- context [match ?x with _ => _ end] => destruct x eqn:?; cbn [fst snd is_failure] in *
         end.
Lemma model_fail_same : forall b s o, is_mkdirall o = false ->
  is_failure (snd (model_step b s o)) = true -> fst (model_step b s o) = s.
Proof.
  intros b s o Hm. destruct o; try discriminate Hm; cbn [model_step];
    unfold with_leaf, with_node, with_node_ne, with_handle, enter_new, m_open, new_handle;
    brk; intro Hf; try reflexivity; try discriminate Hf.
Qed.

(* ---- the refinement ------------------------------------------------------------------ *)
Theorem refines : forall b s o, E b s o = true -> model_step b s o = spec_step s o.
Proof.
  intros b s o H. unfold spec_step. rewrite <- (refines_raw b s o H).
  destruct (model_step b s o) as [s' r] eqn:Em.
  destruct (is_failure r && negb (is_mkdirall o)) eqn:Ef; [|reflexivity].
  apply andb_true_iff in Ef. destruct Ef as [Ef Hm]. apply negb_true_iff in Hm.
  pose proof (model_fail_same b s o Hm) as F. rewrite Em in F. cbn [fst snd] in F.
  rewrite (F Ef). reflexivity.
Qed.

(* every step of the run lies inside the envelope *)
Fixpoint run_in_E (b : backend) (s : st) (ops : list op) : bool :=
  match ops with
  | [] => true
  | o :: ops' => E b s o && run_in_E b (fst (model_step b s o)) ops'
  end.

Theorem refines_run : forall b ops s, run_in_E b s ops = true -> model_run b s ops = spec_run s ops.
Proof.
  intros b. induction ops as [|o ops IH]; intros s H; [reflexivity|].
  cbn [run_in_E] in H. apply andb_true_iff in H. destruct H as [H1 H2].
  cbn [model_run spec_run]. rewrite <- (refines b s o H1).
  destruct (model_step b s o) as [s1 r] eqn:Em. cbn [fst] in H2.
  rewrite (IH s1 H2). reflexivity.
Qed.

Theorem model_failure_no_change : forall b s o s' r,
  model_step b s o = (s', r) -> is_failure r = true -> is_mkdirall o = false -> s' = s.
Proof.
  intros b s o s' r H Hf Hm. pose proof (model_fail_same b s o Hm) as F. rewrite H in F. exact (F Hf).
Qed.
