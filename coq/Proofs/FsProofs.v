(* C17 — proofs about the reference filesystem (Spec/FsSpec.v) and the model
   of the in-memory filesystems (Model/MemFS.v). *)
From Apko Require Import Base.Prelude Model.MemFS Spec.FsSpec.
Open Scope string_scope. Open Scope list_scope.

(* ---- failure leaves the state unchanged (reference: by construction) ------ *)
Lemma spec_failure_no_change : forall s o s' r,
  spec_step s o = (s', r) -> is_failure r = true -> is_mkdirall o = false -> s' = s.
Proof.
  intros s o s' r H Hf Hm. unfold spec_step in H.
  destruct (spec_raw s o) as [s1 r1]. rewrite Hm in H. cbn [negb] in H.
  rewrite andb_true_r in H.
  destruct (is_failure r1) eqn:E1; inversion H; subst; [reflexivity | congruence].
Qed.
