(* C17 — the reachable-state invariant of the CODE's model: [wf s] (every inode
   number stored in a directory entry or in an open handle exists, and inode 0
   is a directory) holds of the empty filesystem and is preserved by
   [model_step b] for both in-memory backends and EVERY operation — inside the
   envelope or not — hence by every operation sequence.  With it the
   read-after-write and metadata laws lose their "inode number in range"
   premise on all reachable states. *)
From Apko Require Import Base.Prelude Model.MemFS Spec.FsSpec Proofs.FsProofs Proofs.FsLaws Proofs.FsWf.
Open Scope string_scope. Open Scope list_scope.

Definition wf (s : st) : Prop := wfs s /\ is_dir (heap s) 0 = true.

(* the states the code can be in: any operation sequence from the empty filesystem *)
Definition reach (b : backend) (ops : list op) : st :=
  fold_left (fun s o => fst (model_step b s o)) ops init_st.

(* ---- the code's lookups stay inside the heap ------------------------------------------- *)
Lemma get_loop_range : forall h (rec : path -> eres nat), wfh h ->
  (forall p i, rec p = inl i -> i < List.length h) ->
  forall parts c trav i, c < List.length h -> get_loop rec h parts c trav = inl i -> i < List.length h.
Proof.
  intros h rec W Hrec. induction parts as [|part rest IH]; intros c trav i Hc H; cbn [get_loop] in H.
  - inversion H; subst; exact Hc.
  - destruct (String.eqb part ""); [eapply IH; eassumption|].
    destruct (negb (is_dir h c)); [discriminate|].
    destruct (lookup part (n_children (get h c))) as [x|] eqn:El; [|discriminate].
    destruct (is_sym h x).
    + match type of H with context [rec ?t] => destruct (rec t) as [tn|e] eqn:Er end; [|discriminate].
      eapply IH; [|exact H]. eapply Hrec, Er.
    + eapply IH; [|exact H]. destruct W as [_ W2]. eapply W2, lookup_In, El.
Qed.
Lemma get_at_range : forall h, wfh h -> forall d p i, get_at d h p = inl i -> i < List.length h.
Proof.
  intros h W. induction d as [|d IH]; intros p i H; cbn [get_at] in H.
  - destruct (is_root_path p); [inversion H; subst; apply W|].
    eapply (get_loop_range h _ W); [|apply W|exact H]. intros q j Hq; discriminate.
  - destruct (is_root_path p); [inversion H; subst; apply W|].
    eapply (get_loop_range h _ W); [|apply W|exact H]. exact IH.
Qed.
Lemma get_node_range : forall b h p i, wfh h -> get_node b h p = inl i -> i < List.length h.
Proof. intros b h p i W H. eapply get_at_range; eassumption. Qed.
Lemma m_leaf_range : forall b h p d nm c, wfh h -> m_leaf b h p = inl (d, nm, c) ->
  d < List.length h /\ forall x, c = Some x -> x < List.length h.
Proof.
  intros b h p d nm c W H. unfold m_leaf in H. destruct (get_node b h (go_dir p)) as [pi|e] eqn:Eg; [|discriminate].
  inversion H; subst. split; [eapply get_node_range; eassumption|].
  intros x Hx. destruct W as [_ W2]. eapply W2, lookup_In, Hx.
Qed.

Lemma open_at_wf : forall b d h name fl perm h' i, wfh h -> open_at b d h name fl perm = OpNode h' i ->
  wfh h' /\ List.length h <= List.length h' /\ i < List.length h' /\ forall j, j < List.length h -> n_kind (get h' j) = n_kind (get h j).
Proof.
  intros b. induction d as [|d IH]; intros h name fl perm h' i W H; cbn [open_at] in H;
    destruct (get_node b h (go_dir name)) as [pi|e] eqn:Eg; try discriminate;
    destruct (negb (is_dir h pi)); try discriminate;
    (destruct (lookup (go_base name) (n_children (get h pi))) as [c|] eqn:El;
     [ destruct (is_dir h c); [discriminate|];
       assert (Hc : c < List.length h) by (destruct W as [_ W2]; eapply W2, lookup_In, El)
     | destruct (f_creat fl);
       [ destruct (wfh_create h pi (go_base name) (empty_node KReg perm) W eq_refl) as [A [B C]];
         unfold create in *; cbn [fst snd] in *; inversion H; subst; split; [exact A|]; split; [lia|]; split; [lia|];
         intros j Hj; unfold add_child;
         destruct (Nat.eq_dec pi j) as [->|Hne];
         [ rewrite get_upd_same by (rewrite app_length; simpl; lia); cbn [set_children n_kind]; unfold get; rewrite app_nth1 by exact Hj; reflexivity
         | rewrite get_upd_other by exact Hne; unfold get; rewrite app_nth1 by exact Hj; reflexivity ]
       | destruct b; [discriminate|]; destruct (path_eqb (go_dir name) name); [|discriminate];
         inversion H; subst; split; [exact W|]; split; [lia|]; split; [eapply get_node_range; eassumption | reflexivity] ] ]).
  - destruct (is_sym h c); [discriminate|]. inversion H; subst. repeat split; try apply W; [lia | exact Hc].
  - destruct (is_sym h c); [|inversion H; subst; repeat split; try apply W; [lia | exact Hc]].
    eapply IH; eassumption.
Qed.

Lemma get_app_old : forall (h : list node) n j, j < List.length h -> get (h ++ [n]) j = get h j.
Proof. intros h n j H. unfold get. apply app_nth1, H. Qed.

Lemma create_kind : forall h d nm n j, j < List.length h -> n_kind (get (fst (create h d nm n)) j) = n_kind (get h j).
Proof.
  intros h d nm n j Hj. unfold create, add_child. cbn [fst].
  destruct (Nat.eq_dec d j) as [->|Hne].
  - rewrite get_upd_same by (rewrite app_length; simpl; lia). cbn [set_children n_kind]. rewrite get_app_old by exact Hj. reflexivity.
  - rewrite get_upd_other by exact Hne. rewrite get_app_old by exact Hj. reflexivity.
Qed.

Lemma mkdirall_loop_wf : forall b parts h c trav perm, wfh h ->
  let h' := fst (mkdirall_loop b h parts c trav perm) in
  wfh h' /\ List.length h <= List.length h' /\ forall j, j < List.length h -> n_kind (get h' j) = n_kind (get h j).
Proof.
  intros b. induction parts as [|part rest IH]; intros h c trav perm W; cbn [mkdirall_loop]; cbv zeta.
  - cbn [fst]. repeat split; try apply W; lia.
  - destruct (String.eqb part "" || match b with MemFS => String.eqb part "." | TarFS => false end); [apply IH, W|].
    destruct (lookup part (n_children (get h c))) as [x|] eqn:El.
    + destruct (if is_sym h x then _ else _) as [nn'|e]; [|cbn [fst]; repeat split; try apply W; lia].
      destruct (negb (is_dir h nn')); [cbn [fst]; repeat split; try apply W; lia|]. apply IH, W.
    + destruct (wfh_create h c part (empty_node KDir perm) W eq_refl) as [A [B C]].
      pose proof (create_kind h c part (empty_node KDir perm)) as K.
      destruct (create h c part (empty_node KDir perm)) as [h1 nn]. cbn [fst snd] in *.
      assert (G : forall X : list node * option eclass, (X = (h1, snd X) \/
                  exists rest' c' trav', X = mkdirall_loop b h1 rest' c' trav' perm /\ rest' = rest) ->
                  wfh (fst X) /\ List.length h <= List.length (fst X) /\
                  (forall j, j < List.length h -> n_kind (get (fst X) j) = n_kind (get h j))).
      { intros X [HX|[r' [c' [t' [HX ->]]]]].
        - rewrite HX. cbn [fst]. split; [exact A|]. split; [lia|]. exact K.
        - rewrite HX. destruct (IH h1 c' t' perm A) as [A1 [B1 C1]]. split; [exact A1|]. split; [lia|].
          intros j Hj. rewrite C1 by lia. apply K, Hj. }
      destruct (if is_sym h1 nn then _ else _) as [nn'|e]; [|apply G; left; reflexivity].
      destruct (negb (is_dir h1 nn')); [apply G; left; reflexivity|].
      apply G. right. eexists _, _, _. split; reflexivity.
Qed.

(* ---- every step of the model preserves wf -------------------------------------------------- *)
Lemma is_dir_kind : forall h h' i, n_kind (get h' i) = n_kind (get h i) -> is_dir h' i = is_dir h i.
Proof. intros h h' i H. unfold is_dir. rewrite H. reflexivity. Qed.
Lemma root_upd : forall h i f, (forall n, n_kind (f n) = n_kind n) -> is_dir (upd h i f) 0 = is_dir h 0.
Proof.
  intros h i f Hf. apply is_dir_kind. destruct (Nat.eq_dec i 0) as [->|Hne].
  - destruct h as [|x h]; [reflexivity|]. cbn. apply Hf.
  - rewrite get_upd_other by exact Hne. reflexivity.
Qed.
Lemma root_create : forall h d nm n, 0 < List.length h -> is_dir (fst (create h d nm n)) 0 = is_dir h 0.
Proof. intros h d nm n H. apply is_dir_kind, create_kind, H. Qed.
Lemma root_add_child : forall h d nm t, is_dir (add_child h d nm t) 0 = is_dir h 0.
Proof. intros. unfold add_child. apply root_upd. reflexivity. Qed.
Lemma root_del_child : forall h d nm, is_dir (del_child h d nm) 0 = is_dir h 0.
Proof. intros. unfold del_child. apply root_upd. reflexivity. Qed.

Lemma wf_mk : forall s s', wfs s' -> is_dir (heap s') 0 = is_dir (heap s) 0 -> wf s -> wf s'.
Proof. intros s s' W R [_ Hr]. split; [exact W | rewrite R; exact Hr]. Qed.

Ltac keepw W :=
  match type of W with wf ?s0 =>
  first [ exact W
        | apply (wf_mk s0); [apply wfs_upd; [intros; reflexivity | apply W] | cbn [seth heap]; apply root_upd; intros; reflexivity | exact W]
        | apply (wf_mk s0); [apply wfs_handles; [intros; reflexivity | apply W] | reflexivity | exact W] ]
  end.

Lemma m_open_wf : forall b s p fl perm, wf s -> wf (fst (m_open b s p fl perm)).
Proof.
  intros b s p fl perm W. pose proof W as [[Wh WH] Hr]. unfold m_open.
  destruct (open_at b (openfile_depth b) (heap s) p fl perm) as [e|h i] eqn:Eo; [exact W|].
  destruct (open_at_wf _ _ _ _ _ _ _ _ Wh Eo) as [A [B [C K]]]. unfold new_handle. cbn [fst].
  assert (R : is_dir h 0 = is_dir (heap s) 0) by (apply is_dir_kind, K, Wh).
  destruct (f_trunc fl).
  - eapply (wf_mk s); [|cbn [heap]; rewrite root_upd by (intros; reflexivity); exact R | exact W].
    apply wfs_mk; [apply wfh_upd; [intros; reflexivity | exact A]|].
    rewrite upd_length. apply Forall_app. split; [apply handles_mono; [apply W | exact B] | constructor; [exact C | constructor]].
  - eapply (wf_mk s); [|exact R | exact W].
    apply wfs_mk; [exact A|].
    apply Forall_app. split; [apply handles_mono; [apply W | exact B] | constructor; [exact C | constructor]].
Qed.

Lemma enter_create_wf : forall s pi c nm n, wf s -> n_children n = [] ->
  wf (fst (enter_new s pi c (fun h => fst (create h pi nm n)))).
Proof.
  intros s pi c nm n W Hn. pose proof W as [[Wh WH] Hr]. unfold enter_new.
  destruct (negb (is_dir (heap s) pi)); [exact W|]. destruct c; [exact W|]. cbn [fst].
  destruct (wfh_create (heap s) pi nm n Wh Hn) as [A [B C]].
  eapply (wf_mk s); [apply wfs_seth; [apply W | exact A | lia] | cbn [seth heap]; apply root_create, Wh | exact W].
Qed.

Theorem model_step_wf : forall b s o, wf s -> wf (fst (model_step b s o)).
Proof.
  intros b s o W. pose proof W as [[Wh WH] Hr].
  destruct o; cbn [model_step]; unfold with_leaf, with_node, with_node_ne, with_handle.
  - (* Mkdir *)
    destruct (m_leaf b (heap s) p) as [[[d nm] c]|e]; [|exact W]. destruct (negb (is_dir (heap s) d)); [exact W|].
    destruct c; [exact W|]. cbn [fst].
    destruct (wfh_create (heap s) d nm (empty_node KDir perm) Wh eq_refl) as [A [B C]].
    eapply (wf_mk s); [apply wfs_seth; [apply W | exact A | lia] | cbn [seth heap]; apply root_create, Wh | exact W].
  - (* MkdirAll *)
    destruct (mkdirall_loop_wf b p (heap s) 0 [] perm Wh) as [A [B K]].
    destruct (mkdirall_loop b (heap s) p 0 [] perm) as [h e]. cbn [fst] in *.
    eapply (wf_mk s); [apply wfs_seth; [apply W | exact A | exact B] | cbn [seth heap]; apply is_dir_kind, K, Wh | exact W].
  - (* OpenFile *) apply m_open_wf, W.
  - (* Create *) apply m_open_wf, W.
  - (* Read *)
    destruct (nth_error (handles s) h) as [hd|]; [|exact W]. destruct (h_open hd); [|exact W].
    repeat match goal with |- context [if ?x then _ else _] => destruct x end; cbn [fst]; keepw W.
  - (* ReadAt *)
    destruct (nth_error (handles s) h) as [hd|]; [|exact W]. destruct (h_open hd); [|exact W].
    repeat match goal with |- context [if ?x then _ else _] => destruct x end; cbn [fst]; keepw W.
  - (* Write *)
    destruct (nth_error (handles s) h) as [hd|]; [|exact W]. destruct (h_open hd); [|exact W].
    match goal with |- context [if ?x then _ else _] => destruct x end; [exact W|]. cbn [fst].
    eapply (wf_mk s); [|cbn [heap]; apply root_upd; intros; reflexivity | exact W].
    split; cbn [heap handles].
    + apply wfh_upd; [intros; reflexivity | exact Wh].
    + rewrite upd_length. apply Forall_upd_h; [intros x Hx; exact Hx | exact WH].
  - (* Seek *)
    destruct (nth_error (handles s) h) as [hd|]; [|exact W]. destruct (h_open hd); [|exact W].
    destruct wh as [|[|[|wh]]]; cbn [fst]; try exact W;
      match goal with |- context [if ?x then _ else _] => destruct x end; cbn [fst]; keepw W.
  - (* Close *)
    destruct (nth_error (handles s) h) as [hd|]; [|exact W]. destruct (h_open hd); [|exact W]. cbn [fst]. keepw W.
  - (* ReadFile *)
    destruct (open_at b (openfile_depth b) (heap s) p rdonly 420%N); exact W.
  - (* WriteFile *)
    destruct (open_at b (openfile_depth b) (heap s) p rdwr_create_trunc perm) as [e|h i] eqn:Eo; [exact W|].
    destruct (open_at_wf _ _ _ _ _ _ _ _ Wh Eo) as [A [B [C K]]]. cbn [fst].
    eapply (wf_mk s); [apply wfs_seth; [apply W | apply wfh_upd; [intros; reflexivity | exact A] | rewrite upd_length; exact B] | | exact W].
    cbn [seth heap]. rewrite root_upd by (intros; reflexivity). apply is_dir_kind, K, Wh.
  - (* ReadDir *)
    destruct (get_node b (heap s) p); [|exact W]. destruct (negb (is_dir (heap s) n)); exact W.
  - (* Stat *) destruct (get_node b (heap s) p); exact W.
  - (* Lstat *) destruct (get_node b (heap s) p); exact W.
  - (* Symlink *)
    destruct (m_leaf b (heap s) p) as [[[d nm] c]|e]; [|exact W]. apply enter_create_wf; [exact W | reflexivity].
  - (* Link *)
    destruct (m_leaf b (heap s) new) as [[[d nm] c]|e]; [|exact W]. destruct (negb (is_dir (heap s) d)) eqn:Ed; [exact W|].
    destruct (get_node b (heap s) old) as [t|e] eqn:En; [|exact W].
    unfold enter_new. rewrite Ed. destruct c; [exact W|]. cbn [fst].
    eapply (wf_mk s); [apply wfs_seth; [apply W | apply wfh_add_child; [exact Wh | eapply get_node_range; eassumption] |]
                  | cbn [seth heap]; apply root_add_child | exact W].
    unfold add_child. rewrite upd_length. lia.
  - (* Readlink *)
    destruct (m_leaf b (heap s) p) as [[[d nm] c]|e]; [|exact W]. destruct c; [|exact W]. destruct (is_sym (heap s) n); exact W.
  - (* Remove *)
    destruct (m_leaf b (heap s) p) as [[[d nm] c]|e]; [|exact W]. destruct c; [|exact W]. cbn [fst].
    eapply (wf_mk s); [apply wfs_seth; [apply W | apply wfh_del_child, Wh | unfold del_child; rewrite upd_length; lia]
                  | cbn [seth heap]; apply root_del_child | exact W].
  - (* Chmod *) destruct (get_node b (heap s) p); [cbn [fst]; keepw W | exact W].
  - (* Chown *) destruct (get_node b (heap s) p); [cbn [fst]; keepw W | exact W].
  - (* Chtimes *) destruct (get_node b (heap s) p); [cbn [fst]; keepw W | exact W].
  - (* Mknod *)
    destruct (m_leaf b (heap s) p) as [[[d nm] c]|e]; [|exact W]. apply enter_create_wf; [exact W | reflexivity].
  - (* Readnod *)
    destruct (m_leaf b (heap s) p) as [[[d nm] c]|e]; [|exact W]. destruct c; [|exact W].
    destruct (n_kind (get (heap s) n)); exact W.
  - (* SetXattr *) destruct (get_node b (heap s) p); [cbn [fst]; keepw W | exact W].
  - (* GetXattr *)
    destruct (get_node b (heap s) p); [|exact W]. destruct (lookup a (n_xattrs (get (heap s) n))); exact W.
  - (* RemoveXattr *) destruct (get_node b (heap s) p); [cbn [fst]; keepw W | exact W].
  - (* ListXattrs *) destruct (get_node b (heap s) p); exact W.
Qed.

Lemma init_wf_model : wf init_st.
Proof. split; [exact init_wf | reflexivity]. Qed.

Lemma fold_wf : forall b ops s, wf s -> wf (fold_left (fun s o => fst (model_step b s o)) ops s).
Proof. intros b. induction ops as [|o ops IH]; intros s W; cbn [fold_left]; [exact W | apply IH, model_step_wf, W]. Qed.
Theorem reach_wf : forall b ops, wf (reach b ops).
Proof. intros b ops. apply fold_wf, init_wf_model. Qed.

(* [reach] is the state component of model_run *)
Lemma model_run_fold : forall b ops s, fst (model_run b s ops) = fold_left (fun s o => fst (model_step b s o)) ops s.
Proof.
  intros b. induction ops as [|o ops IH]; intros s; cbn [model_run fold_left]; [reflexivity|].
  destruct (model_step b s o) as [s1 r] eqn:E1. cbn [fst]. rewrite <- IH.
  destruct (model_run b s1 ops) as [s2 rs]. reflexivity.
Qed.
Lemma reach_model_run : forall b ops, reach b ops = fst (model_run b init_st ops).
Proof. intros. unfold reach. symmetry. apply model_run_fold. Qed.

(* the reference preserves wf too (so mixed runs stay well-formed) *)
Lemma spec_step_wf_root : forall s o, wf s -> wf (fst (spec_step s o)).
Proof.
  intros s o W. split; [apply spec_step_wf, W|].
  (* root stays a directory: no step of the reference changes the kind of an existing inode *)
  pose proof W as [[Wh WH] Hr].
  assert (K : forall h', (forall j, j < List.length (heap s) -> n_kind (get h' j) = n_kind (get (heap s) j)) -> is_dir h' 0 = true).
  { intros h' Hk. rewrite (is_dir_kind (heap s) h' 0); [exact Hr | apply Hk, Wh]. }
  unfold spec_step. destruct (spec_raw s o) as [s' r] eqn:Er.
  destruct (is_failure r && negb (is_mkdirall o)); cbn [fst]; [exact Hr|].
  assert (Es : s' = fst (spec_raw s o)) by (rewrite Er; reflexivity). subst s'. clear Er r.
  Ltac root_same Hr := first [ exact Hr | cbn [fst seth heap]; first [rewrite root_upd by (intros; reflexivity) | rewrite root_add_child | rewrite root_del_child]; exact Hr ].
  assert (Hopen : forall p fl perm h i, s_open (heap s) p fl perm = OpNode h i -> is_dir h 0 = true).
  { intros p fl perm h i H. unfold s_open in H. destruct (s_path (heap s) p true) as [st nm|st nm|e]; try discriminate.
    - destruct (f_creat fl && f_excl fl); [discriminate|]. destruct (is_dir (heap s) (cur st)).
      + destruct (f_acc fl); try discriminate. destruct (f_creat fl || f_trunc fl); [discriminate|]. inversion H; subst; exact Hr.
      + inversion H; subst; exact Hr.
    - destruct (f_creat fl); [|discriminate]. pose proof (root_create (heap s) (cur st) nm (empty_node KReg perm) (proj1 Wh)) as R.
      destruct (create (heap s) (cur st) nm (empty_node KReg perm)) as [h1 i1]. cbn [fst] in R. inversion H; subst. rewrite R; exact Hr. }
  destruct o; cbn [spec_raw]; unfold s_with_node, s_with_leaf, with_handle, s_enter_new, s_do_open.
  - destruct (s_leaf (heap s) p) as [[[d nm] c]|e]; [|exact Hr]. destruct (negb (is_dir (heap s) d)); [exact Hr|].
    destruct c; [exact Hr|]. cbn [fst seth heap]. rewrite root_create by apply Wh. exact Hr.
  - destruct (path_eqb p [""]); [exact Hr|].
    assert (M : forall p h stk, 0 < List.length h -> is_dir (fst (s_mkdirall h stk p perm)) 0 = is_dir h 0).
    { clear. induction p as [|c rest IH]; intros h stk L; cbn [s_mkdirall]; [reflexivity|].
      destruct (String.eqb c "" || String.eqb c "."); [apply IH, L|].
      destruct (String.eqb c ".."); [apply IH, L|].
      destruct (negb (is_dir h (cur stk))); [reflexivity|].
      destruct (lookup c (n_children (get h (cur stk)))).
      - destruct (s_resolve spec_max_links h stk None [c] true); try reflexivity.
        destruct (is_dir h (cur stack)); [apply IH, L | reflexivity].
      - pose proof (root_create h (cur stk) c (empty_node KDir perm) L) as R.
        assert (L1 : 0 < List.length (fst (create h (cur stk) c (empty_node KDir perm)))).
        { unfold create, add_child. cbn [fst]. rewrite upd_length, app_length. simpl. lia. }
        destruct (create h (cur stk) c (empty_node KDir perm)) as [h1 i1]. cbn [fst] in *.
        rewrite IH by exact L1. exact R. }
    specialize (M p (heap s) [0] (proj1 Wh)). destruct (s_mkdirall (heap s) [0] p perm) as [h e]. cbn [fst seth heap] in *.
    rewrite M. exact Hr.
  - destruct (s_open (heap s) p fl perm) as [e|h i] eqn:Eo; [exact Hr|]. unfold s_new_handle. cbn [fst heap].
    pose proof (Hopen _ _ _ _ _ Eo) as R. destruct (f_trunc fl); [rewrite root_upd by (intros; reflexivity)|]; exact R.
  - destruct (s_open (heap s) p rdwr_create_trunc 438%N) as [e|h i] eqn:Eo; [exact Hr|]. unfold s_new_handle. cbn [fst heap].
    pose proof (Hopen _ _ _ _ _ Eo) as R. cbn [rdwr_create_trunc f_trunc]. rewrite root_upd by (intros; reflexivity). exact R.
  - destruct (nth_error (handles s) h) as [hd|]; [|exact Hr]. destruct (h_open hd); [|exact Hr].
    repeat match goal with |- context [if ?x then _ else _] => destruct x end; exact Hr.
  - destruct (nth_error (handles s) h) as [hd|]; [|exact Hr]. destruct (h_open hd); [|exact Hr].
    repeat match goal with |- context [if ?x then _ else _] => destruct x end; exact Hr.
  - destruct (nth_error (handles s) h) as [hd|]; [|exact Hr]. destruct (h_open hd); [|exact Hr].
    repeat match goal with |- context [if ?x then _ else _] => destruct x end; try exact Hr;
      cbn [fst heap]; rewrite root_upd by (intros; reflexivity); exact Hr.
  - destruct (nth_error (handles s) h) as [hd|]; [|exact Hr]. destruct (h_open hd); [|exact Hr].
    destruct wh as [|[|[|wh]]]; try exact Hr; match goal with |- context [if ?x then _ else _] => destruct x end; exact Hr.
  - destruct (nth_error (handles s) h) as [hd|]; [|exact Hr]. destruct (h_open hd); exact Hr.
  - destruct (s_node (heap s) p); [|exact Hr]. destruct (is_dir (heap s) n); exact Hr.
  - destruct (s_open (heap s) p rdwr_create_trunc perm) as [e|h i] eqn:Eo; [exact Hr|]. cbn [fst seth heap].
    rewrite root_upd by (intros; reflexivity). exact (Hopen _ _ _ _ _ Eo).
  - destruct (s_node (heap s) p); [|exact Hr]. destruct (negb (is_dir (heap s) n)); exact Hr.
  - destruct (s_node (heap s) p); exact Hr.
  - destruct (s_lnode (heap s) p); exact Hr.
  - destruct (s_leaf (heap s) p) as [[[d nm] c]|e]; [|exact Hr]. destruct (negb (is_dir (heap s) d)); [exact Hr|].
    destruct c; [exact Hr|]. cbn [fst seth heap]. rewrite root_create by apply Wh. exact Hr.
  - destruct (s_leaf (heap s) new) as [[[d nm] c]|e]; [|exact Hr]. destruct (negb (is_dir (heap s) d)); [exact Hr|].
    destruct (s_node (heap s) old) as [t|e]; [|exact Hr]. destruct (is_dir (heap s) t); [exact Hr|].
    destruct c; [exact Hr|]. root_same Hr.
  - destruct (s_leaf (heap s) p) as [[[d nm] c]|e]; [|exact Hr]. destruct c; [|exact Hr]. destruct (is_sym (heap s) n); exact Hr.
  - destruct (s_leaf (heap s) p) as [[[d nm] c]|e]; [|exact Hr]. destruct c; [|exact Hr].
    match goal with |- context [if ?x then _ else _] => destruct x end; [exact Hr|]. root_same Hr.
  - destruct (s_node (heap s) p); root_same Hr.
  - destruct (s_node (heap s) p); root_same Hr.
  - destruct (s_node (heap s) p); root_same Hr.
  - destruct (s_leaf (heap s) p) as [[[d nm] c]|e]; [|exact Hr]. destruct (negb (is_dir (heap s) d)); [exact Hr|].
    destruct c; [exact Hr|]. cbn [fst seth heap]. rewrite root_create by apply Wh. exact Hr.
  - destruct (s_leaf (heap s) p) as [[[d nm] c]|e]; [|exact Hr]. destruct c; [|exact Hr].
    destruct (n_kind (get (heap s) n)); exact Hr.
  - destruct (s_node (heap s) p); root_same Hr.
  - destruct (s_node (heap s) p); [|exact Hr]. destruct (lookup a (n_xattrs (get (heap s) n))); exact Hr.
  - destruct (s_node (heap s) p); root_same Hr.
  - destruct (s_node (heap s) p); exact Hr.
Qed.

(* ---- the laws on reachable states, premise-free ---------------------------------------------- *)
Theorem read_after_write_reachable : forall b ops i p hd s' r,
  let s := reach b ops in
  nth_error (handles s) i = Some hd -> f_app (h_fl hd) = false -> p <> [] ->
  spec_step s (Write i p) = (s', r) -> is_failure r = false ->
  r = ONum (blen p) /\
  forall j hj, nth_error (handles s') j = Some hj -> h_open hj = true -> readable (h_fl hj) = true ->
    h_ino hj = h_ino hd -> is_dir (heap s') (h_ino hd) = false ->
    spec_step s' (ReadAt j (List.length p) (h_off hd)) = (s', OBytes p).
Proof. intros b ops i p hd s' r s. apply read_after_write_wf. apply (reach_wf b ops). Qed.

Theorem metadata_last_set_reachable : forall b ops p i,
  let s := reach b ops in
  s_node (heap s) p = inl i ->
  (forall m s', spec_step s (Chmod p m) = (s', OOk) ->
     spec_step s' (Stat p) = (s', info_of (set_perm m (get (heap s) i)))) /\
  (forall u g s', spec_step s (Chown p u g) = (s', OOk) ->
     spec_step s' (Stat p) = (s', info_of (set_owner u g (get (heap s) i)))) /\
  (forall t s', spec_step s (Chtimes p t) = (s', OOk) ->
     spec_step s' (Stat p) = (s', info_of (set_mtime (Some t) (get (heap s) i)))).
Proof. intros b ops p i s. apply metadata_last_set_wf. apply (reach_wf b ops). Qed.

(* the same two laws stated of the CODE's own steps: on a reachable state, when
   the steps involved are inside the envelope, the code's Write/ReadAt and
   Chmod/Stat pairs behave as the laws say *)
Theorem model_read_after_write_reachable : forall b ops i p hd s' r,
  let s := reach b ops in
  nth_error (handles s) i = Some hd -> f_app (h_fl hd) = false -> p <> [] ->
  E b s (Write i p) = true ->
  model_step b s (Write i p) = (s', r) -> is_failure r = false ->
  r = ONum (blen p) /\
  forall j hj, nth_error (handles s') j = Some hj -> h_open hj = true -> readable (h_fl hj) = true ->
    h_ino hj = h_ino hd -> is_dir (heap s') (h_ino hd) = false ->
    model_step b s' (ReadAt j (List.length p) (h_off hd)) = (s', OBytes p).
Proof.
  intros b ops i p hd s' r s Hn Ha Hp HE Hm Hf. rewrite (refines b s _ HE) in Hm.
  destruct (read_after_write_reachable b ops i p hd s' r Hn Ha Hp Hm Hf) as [R1 R2]. split; [exact R1|].
  intros j hj Hj Ho Hr Hi Hd. rewrite <- (R2 j hj Hj Ho Hr Hi Hd). apply refines.
  (* the ReadAt is inside the envelope: readable, not a directory, non-zero length *)
  unfold E, corner. cbn [corners]. unfold handle_corner. rewrite Hj, Ho. unfold first_corner. cbn [filter fst negb].
  rewrite Hr. cbn [negb]. rewrite Hi, Hd. cbn [negb].
  assert (Hl : Nat.eqb (List.length p) 0 = false) by (destruct p; [congruence | reflexivity]).
  rewrite Hl. reflexivity.
Qed.

Theorem model_metadata_last_set_reachable : forall b ops p i,
  let s := reach b ops in
  s_node (heap s) p = inl i ->
  (forall m s', E b s (Chmod p m) = true -> model_step b s (Chmod p m) = (s', OOk) -> E b s' (Stat p) = true ->
     model_step b s' (Stat p) = (s', info_of (set_perm m (get (heap s) i)))) /\
  (forall u g s', E b s (Chown p u g) = true -> model_step b s (Chown p u g) = (s', OOk) -> E b s' (Stat p) = true ->
     model_step b s' (Stat p) = (s', info_of (set_owner u g (get (heap s) i)))) /\
  (forall t s', E b s (Chtimes p t) = true -> model_step b s (Chtimes p t) = (s', OOk) -> E b s' (Stat p) = true ->
     model_step b s' (Stat p) = (s', info_of (set_mtime (Some t) (get (heap s) i)))).
Proof.
  intros b ops p i s Hn. destruct (metadata_last_set_reachable b ops p i Hn) as [A [B C]].
  repeat split; intros; rewrite (refines b s _ H) in H0; rewrite (refines b s' _ H1); auto.
Qed.
