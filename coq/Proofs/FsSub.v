(* C17 — the sub-filesystem view (Model/SubFS.v) is the parent at the joined path,
   and is lexically confined to its root for names without "..".

   For a root of ordinary names and a name without a ".." component,
   filepath.Join(root, name) is the root followed by the name's ordinary
   components ("" and "." dropped; a leading "/" is absorbed): so the operation
   the parent receives names a path under the root, and for a normalised name it
   is the operation at root/name — to which the refinement theorem applies.
   With ".." the joined path leaves the root: refuted with a witness
   (Properties/C17.v), replayed on the real code by the harness.  Symlink and Link
   are joined like every other method since fix 44061d3. *)
From Apko Require Import Base.Prelude Model.MemFS Spec.FsSpec Model.SubFS Proofs.FsProofs Proofs.FsLaws Proofs.FsAgree Proofs.FsTame.
Open Scope string_scope. Open Scope list_scope.

Definition plain_root (root : path) : bool := nonempty root && forallb clean_name root.

Lemma clean_loop_keep : forall rt p acc, no_dotdot p = true -> clean_loop rt acc p = rev acc ++ filter keepc p.
Proof.
  intros rt. induction p as [|c p IH]; intros acc H; cbn [clean_loop filter]; [rewrite app_nil_r; reflexivity|].
  cbn [no_dotdot forallb] in H. apply andb_true_iff in H. destruct H as [Hc Hp]. apply negb_true_iff in Hc.
  unfold keepc at 1. destruct (String.eqb c "" || String.eqb c "."); cbn [negb]; [apply IH, Hp|].
  rewrite Hc. rewrite (IH (c :: acc) Hp). cbn [rev]. rewrite <- app_assoc. reflexivity.
Qed.

Lemma filter_keep_clean : forall q, forallb clean_name q = true -> filter keepc q = q.
Proof.
  induction q as [|c q IH]; intro H; [reflexivity|]. cbn [forallb] in H. apply andb_true_iff in H. destruct H as [Hc Hq].
  destruct (clean_name_eqb c Hc) as [E1 [E2 _]]. cbn [filter]. unfold keepc at 1. rewrite E1, E2. cbn [orb negb]. rewrite (IH Hq). reflexivity.
Qed.
Lemma clean_no_dotdot : forall q, forallb clean_name q = true -> no_dotdot q = true.
Proof.
  induction q as [|c q IH]; intro H; [reflexivity|]. cbn [forallb] in H. apply andb_true_iff in H. destruct H as [Hc Hq].
  destruct (clean_name_eqb c Hc) as [_ [_ E3]]. cbn [no_dotdot forallb]. rewrite E3. apply IH, Hq.
Qed.
Lemma keep_clean : forall p, no_dotdot p = true -> forallb clean_name (filter keepc p) = true.
Proof.
  induction p as [|c p IH]; intro H; [reflexivity|]. cbn [no_dotdot forallb] in H. apply andb_true_iff in H. destruct H as [Hc Hp].
  cbn [filter]. destruct (keepc c) eqn:Ek; [|apply IH, Hp]. cbn [forallb]. rewrite (IH Hp), andb_true_r.
  unfold keepc in Ek. apply negb_true_iff in Ek. apply negb_true_iff in Hc. unfold clean_name.
  apply orb_false_iff in Ek. destruct Ek as [E1 E2]. rewrite E1, E2, Hc. reflexivity.
Qed.

(* filepath.Join(root, name) for a root of ordinary names and a name without ".." *)
Theorem sjoin_keep : forall root p, plain_root root = true -> no_dotdot p = true ->
  sjoin root p = root ++ filter keepc p.
Proof.
  intros root p Hr Hp. unfold plain_root in Hr. apply andb_true_iff in Hr. destruct Hr as [N C].
  unfold sjoin, go_clean. rewrite (clean_not_rooted root C).
  rewrite clean_loop_keep.
  2:{ unfold no_dotdot. rewrite forallb_app. fold (no_dotdot root). fold (no_dotdot p). rewrite (clean_no_dotdot root C), Hp. reflexivity. }
  cbn [rev app]. rewrite filter_app, (filter_keep_clean root C). unfold as_path.
  destruct root; [discriminate N | reflexivity].
Qed.

Theorem sub_op_at_root : forall root o, plain_root root = true ->
  forallb no_dotdot (sub_paths o) = true -> sub_op root o = at_root root o.
Proof.
  intros root o Hr H.
  destruct o; cbn [sub_paths forallb] in H; rewrite ?andb_true_r in H; cbn [sub_op at_root];
    try reflexivity; try (rewrite (sjoin_keep root _ Hr H); reflexivity).
  (* Link: both names *)
  apply andb_true_iff in H. destruct H as [Ho Hn]. rewrite (sjoin_keep root _ Hr Ho), (sjoin_keep root _ Hr Hn). reflexivity.
Qed.

(* hence: one step through the sub-filesystem is the parent's step at root/name,
   and inside the envelope of that operation it is the reference's step there *)
Theorem sub_step_refines : forall b root s o, plain_root root = true ->
  forallb no_dotdot (sub_paths o) = true ->
  sub_step b root s o = model_step b s (at_root root o) /\
  (E b s (at_root root o) = true -> sub_step b root s o = spec_step s (at_root root o)).
Proof.
  intros b root s o Hr H. unfold sub_step. rewrite (sub_op_at_root root o Hr H). split; [reflexivity|]. apply refines.
Qed.

(* lexical confinement: every path the parent is asked about lies under the root,
   by ordinary names only *)
Definition under_root (root p : path) : Prop := exists q, p = root ++ q /\ forallb clean_name q = true.
Definition joined_paths (root : path) (o : op) : list path := List.map (sjoin root) (sub_paths o).

Theorem sub_confined : forall root o, plain_root root = true -> forallb no_dotdot (sub_paths o) = true ->
  forall p, In p (joined_paths root o) -> under_root root p.
Proof.
  intros root o Hr H p Hin. unfold joined_paths in Hin. apply in_map_iff in Hin. destruct Hin as [x [Ex Hx]].
  rewrite forallb_forall in H. specialize (H x Hx). subst p. exists (filter keepc x). split; [apply sjoin_keep; assumption | apply keep_clean, H].
Qed.

(* normalised names: the joined path is the root followed by the name (its leading "/" dropped) *)
Lemma keep_clean_path : forall p, clean_path p = true ->
  no_dotdot p = true /\ filter keepc p = (if is_root_path p then [] else strip_slash p).
Proof.
  intros p Hc. destruct (clean_path_cases p Hc) as [Er|[Er [N [C [Ep|Ep]]]]].
  - rewrite Er. unfold is_root_path in Er. apply orb_true_iff in Er. destruct Er as [Er|Er]; apply path_eqb_eq in Er; subst p; split; reflexivity.
  - rewrite Er. remember (strip_slash p) as q eqn:Eq. rewrite Ep. split; [apply clean_no_dotdot, C | apply filter_keep_clean, C].
  - rewrite Er. remember (strip_slash p) as q eqn:Eq. rewrite Ep. split.
    + cbn [no_dotdot forallb String.eqb negb andb]. apply clean_no_dotdot, C.
    + cbn [filter]. unfold keepc at 1. cbn [String.eqb orb negb]. apply filter_keep_clean, C.
Qed.
