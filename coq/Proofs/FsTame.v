(* C17 — a SYNTACTIC sufficient condition for the lookup-agreement clauses of
   the envelope, for filesystems WITH symbolic links.

   [tame_links h]: every symbolic link's target is a non-empty relative path
   of ordinary names (no "", ".", ".." components, hence no leading "/").

   On such a heap the code's lexical, nesting-bounded lookup getNode (get_at d)
   and the reference's physical, total-budget resolution with the SAME number
   d as budget return the same answer for every normalised path — including
   the answer "too many links" — up to the recorded corner "a non-directory in
   the middle of the path is NotExist instead of ENOTDIR".  The reason: a
   relative link's target is resolved by re-resolving the whole traversed
   prefix one nesting level deeper, so the nesting depth a path needs is
   exactly the total number of links the reference follows.

   The proof instruments the reference resolution with the budget that is left
   ([rs]); the invariant of the code's loop is "the traversed text, resolved
   from the root with the full budget, ends at the current node with n left". *)
From Apko Require Import Base.Prelude Model.MemFS Spec.FsSpec Proofs.FsProofs Proofs.FsLaws Proofs.FsAgree.
Open Scope string_scope. Open Scope list_scope.

Definition tame_target (t : path) : bool := nonempty t && forallb clean_name t.
Definition tame_node (n : node) : bool :=
  match n_kind n with KSym => tame_target (n_target n) | _ => true end.
Definition tame_links (h : list node) : bool := forallb tame_node h.

Lemma tame_get : forall h i, tame_links h = true -> is_sym h i = true ->
  nonempty (n_target (get h i)) = true /\ forallb clean_name (n_target (get h i)) = true.
Proof.
  intros h i T S. unfold is_sym in S. destruct (Nat.lt_ge_cases i (List.length h)) as [L|L].
  - unfold tame_links in T. rewrite forallb_forall in T.
    specialize (T (get h i) (nth_In _ _ L)). unfold tame_node in T.
    destruct (n_kind (get h i)); try discriminate. apply andb_true_iff in T. exact T.
  - unfold get in S. rewrite nth_overflow in S by exact L. discriminate.
Qed.

(* ---- the reference resolution, returning the budget that is left ---------------------- *)
Inductive rsr := RS (r : rres) (n : nat) | RSLoop.
Definition norm (r : rres) (n : nat) : rsr := match r with RErr _ => RS r 0 | _ => RS r n end.
Fixpoint rs (n : nat) (h : list node) (st : list nat) (nm : option string) (p : path) (f : bool) : rsr :=
  match s_walk h st nm p f with
  | WEnd r => norm r n
  | WLink st' tgt rest =>
      match n with
      | O => RSLoop
      | S n' => if path_eqb tgt [""] then RS (RErr ENotExist) 0
                else rs n' h (if rooted tgt then [0] else st') None (tgt ++ rest) f
      end
  end.
Definition to_rres (x : rsr) : rres := match x with RS r _ => r | RSLoop => RErr EOther end.

Lemma rs_eq : forall n h st nm p f, rs n h st nm p f =
  match s_walk h st nm p f with
  | WEnd r => norm r n
  | WLink st' tgt rest =>
      match n with
      | O => RSLoop
      | S n' => if path_eqb tgt [""] then RS (RErr ENotExist) 0
                else rs n' h (if rooted tgt then [0] else st') None (tgt ++ rest) f
      end
  end.
Proof. intros [|n]; reflexivity. Qed.

Lemma rs_resolve : forall n h st nm p f, to_rres (rs n h st nm p f) = s_resolve n h st nm p f.
Proof.
  induction n as [|n IH]; intros h st nm p f; cbn [rs s_resolve]; destruct (s_walk h st nm p f) as [r|st' tgt rest];
    try (destruct r; reflexivity); try reflexivity.
  destruct (path_eqb tgt [""]); [reflexivity | apply IH].
Qed.

Definition is_err (r : rres) : bool := match r with RErr _ => true | _ => false end.

Lemma rs_le : forall n h st nm p f r k, rs n h st nm p f = RS r k -> k <= n.
Proof.
  induction n as [|n IH]; intros h st nm p f r k H; rewrite rs_eq in H; destruct (s_walk h st nm p f) as [r0|st' tgt rest].
  - destruct r0; inversion H; lia.
  - discriminate.
  - destruct r0; inversion H; lia.
  - destruct (path_eqb tgt [""]); [inversion H; lia|]. apply IH in H. lia.
Qed.
Lemma rs_err0 : forall n h st nm p f e k, rs n h st nm p f = RS (RErr e) k -> k = 0.
Proof.
  induction n as [|n IH]; intros h st nm p f e k H; rewrite rs_eq in H; destruct (s_walk h st nm p f) as [r0|st' tgt rest].
  - destruct r0; inversion H; reflexivity.
  - discriminate.
  - destruct r0; inversion H; reflexivity.
  - destruct (path_eqb tgt [""]); [inversion H; reflexivity|]. eapply IH, H.
Qed.

(* more budget: the same answer, with as much more left *)
Lemma rs_mono : forall n h st nm p f r k, rs n h st nm p f = RS r k ->
  rs (S n) h st nm p f = RS r (if is_err r then 0 else S k).
Proof.
  induction n as [|n IH]; intros h st nm p f r k H; rewrite rs_eq in H; rewrite rs_eq;
    destruct (s_walk h st nm p f) as [r0|st' tgt rest].
  - destruct r0; inversion H; subst; reflexivity.
  - discriminate.
  - destruct r0; inversion H; subst; reflexivity.
  - destruct (path_eqb tgt [""]); [inversion H; subst; reflexivity|]. apply IH, H.
Qed.
Lemma rs_mono_add : forall j n h st nm p f r k, rs n h st nm p f = RS r k ->
  rs (n + j) h st nm p f = RS r (if is_err r then 0 else k + j).
Proof.
  induction j as [|j IH]; intros n h st nm p f r k H.
  - rewrite !Nat.add_0_r. destruct (is_err r) eqn:Ee; [|exact H].
    destruct r; try discriminate. rewrite (rs_err0 _ _ _ _ _ _ _ _ H) in H. exact H.
  - rewrite Nat.add_succ_r. rewrite (rs_mono _ _ _ _ _ _ _ _ (IH n h st nm p f r k H)).
    destruct (is_err r); [reflexivity|]. rewrite Nat.add_succ_r. reflexivity.
Qed.
(* less budget: the same successful answer with one less left, or "too many links" *)
Lemma rs_down : forall m h st nm p f r k, rs (S m) h st nm p f = RS r k -> is_err r = false ->
  rs m h st nm p f = match k with O => RSLoop | S k' => RS r k' end.
Proof.
  induction m as [|m IH]; intros h st nm p f r k H He; rewrite rs_eq in H; rewrite rs_eq;
    destruct (s_walk h st nm p f) as [r0|st' tgt rest].
  - destruct r0; inversion H; subst; try discriminate; reflexivity.
  - destruct (path_eqb tgt [""]); [inversion H; subst; discriminate|].
    pose proof (rs_le _ _ _ _ _ _ _ _ H) as L. assert (k = 0) by lia. subst k. reflexivity.
  - destruct r0; inversion H; subst; try discriminate; reflexivity.
  - destruct (path_eqb tgt [""]); [inversion H; subst; discriminate|]. apply IH; assumption.
Qed.

(* ---- walking a concatenation ------------------------------------------------------------ *)
Lemma nonempty_app_r {A} : forall (a b : list A), nonempty b = true -> nonempty (a ++ b) = true.
Proof. intros [|x a] [|y b] H; try discriminate; reflexivity. Qed.
Lemma nonempty_match {A} : forall (l : list A), nonempty l = true -> match l with [] => false | _ :: _ => true end = true.
Proof. intros [|x l] H; [discriminate | reflexivity]. Qed.

Lemma s_walk_app : forall h b f, nonempty b = true -> forall a st nm,
  s_walk h st nm (a ++ b) f =
  match s_walk h st nm a true with
  | WEnd (RFound st' nm') => s_walk h st' nm' b f
  | WEnd (RMissing _ _) => WEnd (RErr ENotExist)
  | WEnd (RErr e) => WEnd (RErr e)
  | WLink st' tgt rest => WLink st' tgt (rest ++ b)
  end.
Proof.
  intros h b f Hb. induction a as [|c a IH]; intros st nm; [reflexivity|].
  cbn [app s_walk]. destruct (String.eqb c ""); [apply IH|].
  destruct (negb (is_dir h (cur st))); [reflexivity|].
  destruct (String.eqb c "."); [apply IH|]. destruct (String.eqb c ".."); [apply IH|].
  destruct (lookup c (n_children (get h (cur st)))) as [i|].
  - rewrite (nonempty_match (a ++ b) (nonempty_app_r a b Hb)). rewrite orb_true_r. cbn [orb]. rewrite andb_true_r.
    destruct (is_sym h i); [reflexivity | apply IH].
  - pose proof (nonempty_app_r a b Hb) as N. destruct (a ++ b) eqn:Eab; [discriminate|].
    destruct a; reflexivity.
Qed.

Lemma rs_app : forall h b f, nonempty b = true -> forall n a st nm,
  rs n h st nm (a ++ b) f =
  match rs n h st nm a true with
  | RS (RFound st' nm') n' => rs n' h st' nm' b f
  | RS (RMissing _ _) _ => RS (RErr ENotExist) 0
  | RS (RErr e) _ => RS (RErr e) 0
  | RSLoop => RSLoop
  end.
Proof.
  intros h b f Hb. induction n as [|n IH]; intros a st nm; rewrite (rs_eq _ h st nm (a ++ b)), (rs_eq _ h st nm a);
    rewrite (s_walk_app h b f Hb); destruct (s_walk h st nm a true) as [r|st' tgt rest].
  - destruct r; cbn [norm]; first [reflexivity | rewrite rs_eq; reflexivity].
  - reflexivity.
  - destruct r; cbn [norm]; first [reflexivity | rewrite (rs_eq (S n)); reflexivity].
  - destruct (path_eqb tgt [""]); [reflexivity|]. rewrite app_assoc. apply IH.
Qed.

(* a path that begins with an ordinary name forgets the name it started under *)
Lemma s_walk_nm : forall h st nm nm' c p f, clean_name c = true ->
  s_walk h st nm (c :: p) f = s_walk h st nm' (c :: p) f.
Proof.
  intros h st nm nm' c p f Hc. destruct (clean_name_eqb c Hc) as [E1 [E2 E3]].
  cbn [s_walk]. rewrite E1, E2, E3. reflexivity.
Qed.
Lemma rs_nm : forall n h st nm nm' c p f, clean_name c = true ->
  rs n h st nm (c :: p) f = rs n h st nm' (c :: p) f.
Proof. intros. rewrite (rs_eq n h st nm), (rs_eq n h st nm'), (s_walk_nm h st nm nm' c p f H). reflexivity. Qed.

(* the stack of a resolution started on a non-empty stack is never empty *)
Lemma pop_nonempty : forall st, st <> [] -> pop st <> [].
Proof. intros [|a [|b st]] H; simpl; congruence. Qed.
Lemma s_walk_stack : forall h p st nm f, st <> [] ->
  match s_walk h st nm p f with
  | WEnd (RFound st' _) | WEnd (RMissing st' _) | WLink st' _ _ => st' <> []
  | WEnd (RErr _) => True
  end.
Proof.
  intros h. induction p as [|c p IH]; intros st nm f Hs; cbn [s_walk]; [exact Hs|].
  destruct (String.eqb c ""); [apply IH, Hs|]. destruct (negb (is_dir h (cur st))); [exact I|].
  destruct (String.eqb c "."); [apply IH, Hs|]. destruct (String.eqb c ".."); [apply IH, pop_nonempty, Hs|].
  destruct (lookup c (n_children (get h (cur st)))) as [i|].
  - destruct (is_sym h i && _); [exact Hs | apply IH; discriminate].
  - destruct p; [exact Hs | exact I].
Qed.
Lemma rs_stack : forall n h st nm p f st' nm' k, st <> [] -> rs n h st nm p f = RS (RFound st' nm') k -> st' <> [].
Proof.
  induction n as [|n IH]; intros h st nm p f st' nm' k Hs H; rewrite rs_eq in H;
    pose proof (s_walk_stack h p st nm f Hs) as W; destruct (s_walk h st nm p f) as [r|st1 tgt rest].
  - destruct r; inversion H; subst; exact W.
  - discriminate.
  - destruct r; inversion H; subst; exact W.
  - destruct (path_eqb tgt [""]); [discriminate|]. eapply IH; [|exact H]. destruct (rooted tgt); [discriminate | exact W].
Qed.

(* ---- Go's lexical functions on normalised paths ------------------------------------------- *)
Lemma clean_loop_clean : forall rt p acc, forallb clean_name p = true -> clean_loop rt acc p = rev acc ++ p.
Proof.
  intros rt. induction p as [|c p IH]; intros acc H; cbn [clean_loop]; [rewrite app_nil_r; reflexivity|].
  cbn [forallb] in H. apply andb_true_iff in H. destruct H as [Hc Hp].
  destruct (clean_name_eqb c Hc) as [E1 [E2 E3]]. rewrite E1, E2, E3. cbn [orb].
  rewrite IH by exact Hp. cbn [rev]. rewrite <- app_assoc. reflexivity.
Qed.
Lemma go_clean_rel : forall p, nonempty p = true -> forallb clean_name p = true -> go_clean false p = p.
Proof.
  intros p N H. unfold go_clean. rewrite clean_loop_clean by exact H. cbn [rev app as_path].
  destruct p; [discriminate | reflexivity].
Qed.
Lemma go_clean_abs : forall p, nonempty p = true -> forallb clean_name p = true -> go_clean true ("" :: p) = "" :: p.
Proof.
  intros p N H. unfold go_clean. cbn [clean_loop String.eqb orb]. rewrite clean_loop_clean by exact H. cbn [rev app as_path].
  destruct p; [discriminate | reflexivity].
Qed.
Lemma forallb_clean_app : forall a b, forallb clean_name (a ++ b) = forallb clean_name a && forallb clean_name b.
Proof. intros. apply forallb_app. Qed.
Lemma clean_not_root : forall p, nonempty p = true -> forallb clean_name p = true -> is_root_path p = false.
Proof.
  intros [|c p] N H; [discriminate|]. cbn [forallb] in H. apply andb_true_iff in H. destruct H as [Hc _].
  destruct (clean_name_eqb c Hc) as [E1 [E2 E3]].
  unfold is_root_path, path_eqb. cbn [list_eqb]. rewrite E1, E2. reflexivity.
Qed.
Lemma clean_not_rooted : forall p, forallb clean_name p = true -> rooted p = false.
Proof.
  intros [|c p] H; [reflexivity|]. cbn [forallb] in H. apply andb_true_iff in H. destruct H as [Hc _].
  destruct (clean_name_eqb c Hc) as [E1 _]. destruct c; [discriminate E1 | reflexivity].
Qed.
Lemma clean_not_emptystr : forall p, nonempty p = true -> forallb clean_name p = true -> path_eqb p [""] = false.
Proof.
  intros [|c p] N H; [discriminate|]. cbn [forallb] in H. apply andb_true_iff in H. destruct H as [Hc _].
  destruct (clean_name_eqb c Hc) as [E1 _]. unfold path_eqb. cbn [list_eqb]. rewrite E1. reflexivity.
Qed.

(* ---- the agreement ------------------------------------------------------------------------- *)
(* what the code's answer must be, given the reference's (with the budget left) *)
Definition ag (m : eres nat) (x : rsr) : Prop :=
  match x with
  | RS (RFound st _) _ => m = inl (cur st)
  | RS (RMissing _ _) _ => m = inr ENotExist
  | RS (RErr ENotExist) _ => m = inr ENotExist
  | RS (RErr EOther) _ => m = inr ENotExist         (* the non-directory-prefix corner *)
  | RS (RErr _) _ => False
  | RSLoop => m = inr EOther                         (* too many links: both say so *)
  end.

Definition recd (d : nat) (h : list node) : path -> eres nat :=
  match d with O => fun _ => inr EOther | S d' => get_at d' h end.

Section Tame.
Variable h : list node.
Hypothesis T : tame_links h = true.

(* one step of the instrumented reference over a symbolic link with a tame target *)
Lemma rs_link_step : forall n stk nm part rest c,
  clean_name part = true -> is_dir h (cur stk) = true ->
  lookup part (n_children (get h (cur stk))) = Some c -> is_sym h c = true ->
  rs n h stk nm (part :: rest) true =
  match n with
  | O => RSLoop
  | S n' =>
      match rs n' h stk None (n_target (get h c)) true with
      | RS (RFound st' nm') k => rs k h st' nm' rest true
      | RS (RMissing a b) k => match rest with [] => RS (RMissing a b) k | _ => RS (RErr ENotExist) 0 end
      | RS (RErr e) _ => RS (RErr e) 0
      | RSLoop => RSLoop
      end
  end.
Proof.
  intros n stk nm part rest c Hp Hd Hl Hs. destruct (tame_get h c T Hs) as [N C].
  destruct (clean_name_eqb part Hp) as [E1 [E2 E3]].
  rewrite rs_eq. cbn [s_walk]. rewrite E1, E2, E3, Hd, Hl, Hs. cbn [negb andb orb].
  destruct n as [|n']; [reflexivity|].
  rewrite (clean_not_emptystr _ N C), (clean_not_rooted _ C).
  destruct rest as [|r0 rest].
  - rewrite app_nil_r. destruct (rs n' h stk None (n_target (get h c)) true) as [[st' nm'|a b|e] k|] eqn:Ex; try reflexivity.
    + rewrite rs_eq. reflexivity.
    + rewrite (rs_err0 _ _ _ _ _ _ _ _ Ex). reflexivity.
  - rewrite (rs_app h (r0 :: rest) true eq_refl). reflexivity.
Qed.
(* ... and over an ordinary entry *)
Lemma rs_plain_step : forall n stk nm part rest c,
  clean_name part = true -> is_dir h (cur stk) = true ->
  lookup part (n_children (get h (cur stk))) = Some c -> is_sym h c = false ->
  rs n h stk nm (part :: rest) true = rs n h (c :: stk) (Some part) rest true.
Proof.
  intros n stk nm part rest c Hp Hd Hl Hs. destruct (clean_name_eqb part Hp) as [E1 [E2 E3]].
  rewrite (rs_eq n h stk), (rs_eq n h (c :: stk)). cbn [s_walk]. rewrite E1, E2, E3, Hd, Hl, Hs. reflexivity.
Qed.

Lemma loop_ag : forall d,
  (forall q, nonempty q = true -> forallb clean_name q = true ->
     ag (recd d h q) (match d with O => RSLoop | S d' => rs d' h [0] None q true end)) ->
  forall parts trav stk nm n, forallb clean_name parts = true -> forallb clean_name trav = true ->
    rs d h [0] None trav true = RS (RFound stk nm) n ->
    ag (get_loop (recd d h) h parts (cur stk) trav) (rs n h stk nm parts true).
Proof.
  intros d Prev. induction parts as [|part rest IH]; intros trav stk nm n Hc Ht Hpre.
  - cbn [get_loop]. rewrite rs_eq. reflexivity.
  - cbn [forallb] in Hc. apply andb_true_iff in Hc. destruct Hc as [Hp Hr].
    destruct (clean_name_eqb part Hp) as [E1 [E2 E3]].
    cbn [get_loop]. rewrite E1.
    destruct (is_dir h (cur stk)) eqn:Ed; cbn [negb].
    2:{ rewrite rs_eq. cbn [s_walk]. rewrite E1, Ed. reflexivity. }
    destruct (lookup part (n_children (get h (cur stk)))) as [c|] eqn:El.
    2:{ rewrite rs_eq. cbn [s_walk]. rewrite E1, E2, E3, Ed, El. cbn [negb]. destruct rest; reflexivity. }
    assert (Ht' : forallb clean_name (trav ++ [part]) = true).
    { rewrite forallb_clean_app, Ht. cbn [forallb]. rewrite Hp. reflexivity. }
    destruct (is_sym h c) eqn:Es.
    + (* a symbolic link *)
      destruct (tame_get h c T Es) as [N C]. rewrite (clean_not_rooted _ C).
      assert (Hq : go_join_trav trav (n_target (get h c)) = trav ++ n_target (get h c)).
      { unfold go_join_trav. apply go_clean_rel; [apply nonempty_app_r, N | rewrite forallb_clean_app, Ht, C; reflexivity]. }
      rewrite Hq. rewrite (rs_link_step n stk nm part rest c Hp Ed El Es).
      assert (Nq : nonempty (trav ++ n_target (get h c)) = true) by (apply nonempty_app_r, N).
      assert (Cq : forallb clean_name (trav ++ n_target (get h c)) = true) by (rewrite forallb_clean_app, Ht, C; reflexivity).
      specialize (Prev _ Nq Cq).
      destruct d as [|d'].
      * (* no nesting left: n = 0 *)
        pose proof (rs_le _ _ _ _ _ _ _ _ Hpre) as L. assert (n = 0) by lia. subst n. cbn [recd]. reflexivity.
      * cbn [recd] in *. rewrite (rs_app h _ true N) in Prev.
        rewrite (rs_down _ _ _ _ _ _ _ _ Hpre eq_refl) in Prev.
        destruct n as [|n']; [rewrite Prev; reflexivity|].
        destruct (n_target (get h c)) as [|t0 tt] eqn:Etg; [discriminate N|].
        assert (Ct0 : clean_name t0 = true) by (cbn [forallb] in C; apply andb_true_iff in C; apply C).
        rewrite (rs_nm n' h stk nm None t0 tt true Ct0) in Prev.
        destruct (rs n' h stk None (t0 :: tt) true) as [[st' nm'|a b|e] k|] eqn:Ex.
        -- cbn [ag] in Prev. rewrite Prev. apply IH; [exact Hr | exact Ht'|].
           rewrite (rs_app h [part] true eq_refl), Hpre.
           rewrite (rs_link_step (S n') stk nm part [] c Hp Ed El Es), Etg, Ex. rewrite rs_eq. reflexivity.
        -- cbn [ag] in Prev. rewrite Prev. destruct rest; reflexivity.
        -- destruct e; cbn [ag] in Prev; try contradiction; rewrite Prev; reflexivity.
        -- cbn [ag] in Prev. rewrite Prev. reflexivity.
    + (* an ordinary entry *)
      rewrite (rs_plain_step n stk nm part rest c Hp Ed El Es).
      apply (IH (trav ++ [part]) (c :: stk) (Some part) n Hr Ht').
      rewrite (rs_app h [part] true eq_refl), Hpre.
      rewrite (rs_plain_step n stk nm part [] c Hp Ed El Es). rewrite rs_eq. reflexivity.
Qed.

Lemma get_at_loop : forall d q, nonempty q = true -> forallb clean_name q = true ->
  get_at d h q = get_loop (recd d h) h q 0 [].
Proof. intros d q N C. destruct d; cbn [get_at recd]; rewrite (clean_not_root q N C); reflexivity. Qed.

(* getNode with nesting limit d = the reference with total budget d *)
Theorem get_at_ag : forall d q, nonempty q = true -> forallb clean_name q = true ->
  ag (get_at d h q) (rs d h [0] None q true).
Proof.
  induction d as [|d IH]; intros q N C; rewrite (get_at_loop _ q N C).
  - apply (loop_ag 0 (fun _ _ _ => eq_refl) q [] [0] None 0 C eq_refl). rewrite rs_eq. reflexivity.
  - apply (loop_ag (S d) IH q [] [0] None (S d) C eq_refl). rewrite rs_eq. reflexivity.
Qed.

(* a leading "/" changes nothing on either side *)
Lemma rs_skip_slash : forall n st nm p f, rs n h st nm ("" :: p) f = rs n h st nm p f.
Proof. intros. rewrite (rs_eq n h st nm ("" :: p)), (rs_eq n h st nm p). reflexivity. Qed.
Lemma get_at_skip_slash : forall d q, nonempty q = true -> forallb clean_name q = true ->
  get_at d h ("" :: q) = get_at d h q.
Proof.
  intros d q N C. assert (R : is_root_path ("" :: q) = false).
  { destruct q as [|c q]; [discriminate|]. cbn [forallb] in C. apply andb_true_iff in C. destruct C as [Hc _].
    destruct (clean_name_eqb c Hc) as [E1 _]. unfold is_root_path, path_eqb. cbn [list_eqb String.eqb]. rewrite E1. reflexivity. }
  destruct d; cbn [get_at]; rewrite R, (clean_not_root q N C); reflexivity.
Qed.

(* every normalised path: "/", ".", [/]name/.../name *)
Definition strip_slash (p : path) : path := match p with "" :: q => q | q => q end.
Lemma clean_path_cases : forall p, clean_path p = true ->
  is_root_path p = true \/
  (is_root_path p = false /\ nonempty (strip_slash p) = true /\ forallb clean_name (strip_slash p) = true /\
   (p = strip_slash p \/ p = "" :: strip_slash p)).
Proof.
  intros p H. unfold clean_path in H. destruct (is_root_path p) eqn:Er; [left; reflexivity|]. right. cbn [orb] in H.
  split; [reflexivity|]. destruct p as [|c q]; [discriminate|]. destruct (String.eqb c "") eqn:Ec.
  - apply String.eqb_eq in Ec. subst c. apply andb_true_iff in H. cbn [strip_slash]. destruct H. auto.
  - assert (H' : nonempty (c :: q) && forallb clean_name (c :: q) = true) by (destruct c; [discriminate Ec | exact H]).
    apply andb_true_iff in H'. destruct H'. assert (strip_slash (c :: q) = c :: q) as -> by (destruct c; [discriminate Ec | reflexivity]).
    auto.
Qed.

Hypothesis Root : is_dir h 0 = true.

Theorem path_ag : forall d p, clean_path p = true -> ag (get_at d h p) (rs d h [0] None p true).
Proof.
  intros d p H. destruct (clean_path_cases p H) as [Er|[Er [N [C [Ep|Ep]]]]].
  - assert (get_at d h p = inl 0) as -> by (destruct d; cbn [get_at]; rewrite Er; reflexivity).
    unfold is_root_path in Er. apply orb_true_iff in Er. destruct Er as [Er|Er]; apply path_eqb_eq in Er; subst p;
      rewrite rs_eq; cbn [s_walk String.eqb cur hd]; [|rewrite Root]; reflexivity.
  - rewrite Ep. apply get_at_ag; assumption.
  - rewrite Ep. rewrite rs_skip_slash, get_at_skip_slash by assumption. apply get_at_ag; assumption.
Qed.

Definition rnode (r : rres) : eres nat :=
  match r with RFound st _ => inl (cur st) | RMissing _ _ => inr ENotExist | RErr e => inr e end.
Lemma ag_node : forall m x, ag m x ->
  m = rnode (to_rres x) \/ (m = inr ENotExist /\ rnode (to_rres x) = inr EOther).
Proof.
  intros m [[st o|st o|e] k|] H; cbn in *; try (left; exact H).
  destruct e; try contradiction; [left; exact H | right; split; [exact H | reflexivity]].
Qed.
Lemma s_node_rs : forall p, clean_path p = true -> s_node h p = rnode (to_rres (rs spec_max_links h [0] None p true)).
Proof. intros p H. unfold s_node, s_path. rewrite (clean_path_not_empty p H), rs_resolve. reflexivity. Qed.

Lemma getnode_depth_spec : forall b, getnode_depth b = spec_max_links.
Proof. intros []; reflexivity. Qed.

Theorem node_agree_tame : forall b p, clean_path p = true ->
  get_node b h p = s_node h p \/ (get_node b h p = inr ENotExist /\ s_node h p = inr EOther).
Proof.
  intros b p H. unfold get_node. rewrite getnode_depth_spec, (s_node_rs p H). apply ag_node, path_ag, H.
Qed.

(* ---- entry-level lookups: filepath.Dir / Base + getNode ------------------------------------ *)
Lemma strip_snoc : forall x base, String.eqb base "" = false -> strip_trailing_empty (x ++ [base]) = x ++ [base].
Proof.
  induction x as [|c x IH]; intros base Hb; cbn [app strip_trailing_empty]; [rewrite Hb; reflexivity|].
  rewrite IH by exact Hb. destruct x; reflexivity.
Qed.
Lemma go_base_snoc : forall x base, String.eqb base "" = false -> go_base (x ++ [base]) = base.
Proof.
  intros x base Hb. unfold go_base. rewrite strip_snoc by exact Hb.
  assert (L : match x ++ [base] with [] => "/" | _ :: _ => last (x ++ [base]) "/" end = base).
  { destruct (x ++ [base]) eqn:Ex; [destruct x; discriminate|]. rewrite <- Ex. apply last_last. }
  destruct x as [|c x]; cbn [app] in *.
  - destruct base; [discriminate Hb | exact L].
  - destruct c; [|exact L]. destruct (x ++ [base]) eqn:Ex; [destruct x; discriminate | exact L].
Qed.

Lemma leaf_shape : forall p, clean_leaf_path p = true ->
  exists x base, p = x ++ [base] /\ clean_name base = true /\ go_base p = base /\
    forall d, ag (get_at d h (go_dir p)) (rs d h [0] None x true).
Proof.
  intros p H. unfold clean_leaf_path in H. apply andb_true_iff in H. destruct H as [Hc Hnr]. apply negb_true_iff in Hnr.
  destruct (clean_path_cases p Hc) as [Er|[_ [N [C Ep]]]]; [congruence|].
  assert (Hn : strip_slash p <> []) by (destruct (strip_slash p); [discriminate N | discriminate]).
  destruct (exists_last Hn) as [q [base Eq]]. clear Hn.
  rewrite Eq in *. rewrite forallb_clean_app in C. apply andb_true_iff in C. destruct C as [Cq Cb].
  cbn [forallb] in Cb. rewrite andb_true_r in Cb. destruct (clean_name_eqb base Cb) as [B1 _].
  destruct Ep as [Ep|Ep].
  - exists q, base. split; [exact Ep|]. split; [exact Cb|]. split; [rewrite Ep; apply go_base_snoc, B1|].
    intro d. rewrite Ep. unfold go_dir. rewrite removelast_last. destruct q as [|c q'].
    + assert (get_at d h ["."] = inl 0) as -> by (destruct d; reflexivity). rewrite rs_eq. reflexivity.
    + assert (Ec : String.eqb c "" = false).
      { cbn [forallb] in Cq. apply andb_true_iff in Cq. destruct Cq as [Cc _]. apply (clean_name_eqb c Cc). }
      rewrite Ec. rewrite go_clean_rel by (try reflexivity; exact Cq). apply get_at_ag; [reflexivity | exact Cq].
  - exists ("" :: q), base. split; [exact Ep|]. split; [exact Cb|].
    split; [rewrite Ep; change ("" :: q ++ [base]) with (("" :: q) ++ [base]); apply go_base_snoc, B1|].
    intro d. rewrite Ep. unfold go_dir. change ("" :: q ++ [base]) with (("" :: q) ++ [base]). rewrite removelast_last. cbn [app String.eqb].
    destruct q as [|c q'].
    + assert (go_clean true [""] = [""; ""]) as -> by reflexivity.
      assert (get_at d h [""; ""] = inl 0) as -> by (destruct d; reflexivity). rewrite rs_eq. reflexivity.
    + rewrite go_clean_abs by (try reflexivity; exact Cq). rewrite rs_skip_slash.
      rewrite get_at_skip_slash by (try reflexivity; exact Cq). apply get_at_ag; [reflexivity | exact Cq].
Qed.

Lemma clean_leaf_rel : forall t, nonempty t = true -> forallb clean_name t = true -> clean_leaf_path t = true.
Proof.
  intros t N C. unfold clean_leaf_path, clean_path. rewrite (clean_not_root t N C). cbn [orb negb]. rewrite andb_true_r.
  destruct t as [|c t']; [discriminate|]. pose proof C as C'. cbn [forallb] in C'. apply andb_true_iff in C'. destruct C' as [Hc _].
  destruct (clean_name_eqb c Hc) as [E1 _]. destruct c; [discriminate E1|]. rewrite C. reflexivity.
Qed.
Lemma clean_leaf_abs : forall t, nonempty t = true -> forallb clean_name t = true -> clean_leaf_path ("" :: t) = true.
Proof.
  intros t N C. unfold clean_leaf_path, clean_path.
  assert (R : is_root_path ("" :: t) = false).
  { destruct t as [|c q]; [discriminate|]. cbn [forallb] in C. apply andb_true_iff in C. destruct C as [Hc _].
    destruct (clean_name_eqb c Hc) as [E1 _]. unfold is_root_path, path_eqb. cbn [list_eqb String.eqb]. rewrite E1. reflexivity. }
  rewrite R, N, C. reflexivity.
Qed.

(* the same decomposition, with what openFile needs: Dir(p) <> p, and the text
   openFile re-opens when the last component is a link *)
Lemma leaf_shape_open : forall p, clean_leaf_path p = true ->
  exists x base, p = x ++ [base] /\ clean_name base = true /\ go_base p = base /\
    (forall d, ag (get_at d h (go_dir p)) (rs d h [0] None x true)) /\
    path_eqb (go_dir p) p = false /\
    forall t, nonempty t = true -> forallb clean_name t = true ->
      go_join_dir (go_dir p) t = x ++ t /\ clean_leaf_path (x ++ t) = true.
Proof.
  intros p H. destruct (leaf_shape p H) as [x [base [Ep [Cb [Eb A]]]]]. exists x, base.
  do 4 (split; [assumption|]).
  destruct (clean_name_eqb base Cb) as [B1 [B2 B3]].
  unfold clean_leaf_path in H. apply andb_true_iff in H. destruct H as [Hc Hnr]. apply negb_true_iff in Hnr.
  destruct (clean_path_cases p Hc) as [Er|[_ [N [C Epp]]]]; [congruence|].
  assert (Hx : (x = strip_slash (x ++ [base]) ++ [] -> False) \/ True) by (right; exact I). clear Hx.
  (* recover the shape of x *)
  assert (Sx : (x = [] \/ (nonempty x = true /\ forallb clean_name x = true)) \/
               (exists q, x = "" :: q /\ (q = [] \/ (nonempty q = true /\ forallb clean_name q = true)))).
  { subst p. destruct Epp as [Epp|Epp].
    - left. rewrite <- Epp in C. rewrite forallb_clean_app in C. apply andb_true_iff in C. destruct C as [Cx _].
      destruct x; [left; reflexivity | right; split; [reflexivity | exact Cx]].
    - right. destruct x as [|c q]; [cbn [app] in Epp; inversion Epp as [[E1 E2]]; rewrite E1 in B1; discriminate B1|].
      cbn [app] in Epp. inversion Epp as [[E1 E2]]. subst c. exists q. split; [reflexivity|].
      cbn [app strip_slash] in C. rewrite forallb_clean_app in C. apply andb_true_iff in C. destruct C as [Cx _].
      destruct q; [left; reflexivity | right; split; [reflexivity | exact Cx]]. }
  subst p. unfold go_dir. rewrite removelast_last.
  destruct Sx as [[->|[Nx Cx]]|[q [-> [->|[Nq Cq]]]]].
  - (* [base] *)
    split; [unfold path_eqb; cbn [app list_eqb]; rewrite (String.eqb_sym "." base), B2; reflexivity|].
    intros t Nt Ct. split; [|apply clean_leaf_rel; assumption].
    unfold go_join_dir, go_clean. cbn [rooted app clean_loop String.eqb Ascii.eqb Bool.eqb andb orb].
    rewrite clean_loop_clean by exact Ct. cbn [rev app as_path]. destruct t; [discriminate | reflexivity].
  - (* q ++ [base] *)
    destruct x as [|c x']; [discriminate|].
    assert (Ec : String.eqb c "" = false).
    { cbn [forallb] in Cx. apply andb_true_iff in Cx. destruct Cx as [Cc _]. apply (clean_name_eqb c Cc). }
    rewrite Ec. rewrite go_clean_rel by (try reflexivity; exact Cx).
    split.
    + destruct (path_eqb (c :: x') ((c :: x') ++ [base])) eqn:Ee; [|reflexivity]. apply path_eqb_eq in Ee.
      apply (f_equal (@List.length string)) in Ee. rewrite app_length in Ee. simpl in Ee. lia.
    + intros t Nt Ct. unfold go_join_dir. rewrite (clean_not_rooted _ Cx).
      assert (Cq : forallb clean_name ((c :: x') ++ t) = true) by (rewrite forallb_clean_app, Cx, Ct; reflexivity).
      split; [apply go_clean_rel; [reflexivity | exact Cq] | apply clean_leaf_rel; [reflexivity | exact Cq]].
  - (* "/" base *)
    cbn [String.eqb]. assert (go_clean true [""] = [""; ""]) as -> by reflexivity.
    split; [unfold path_eqb; cbn [app list_eqb]; rewrite (String.eqb_sym "" base), B1; reflexivity|].
    intros t Nt Ct. split; [|apply (clean_leaf_abs t); assumption].
    unfold go_join_dir, go_clean. cbn [rooted app clean_loop String.eqb orb].
    rewrite clean_loop_clean by exact Ct. cbn [rev app as_path]. destruct t; [discriminate | reflexivity].
  - (* "/" q ++ [base] *)
    cbn [String.eqb]. rewrite go_clean_abs by assumption.
    split.
    + destruct (path_eqb ("" :: q) (("" :: q) ++ [base])) eqn:Ee; [|reflexivity]. apply path_eqb_eq in Ee.
      apply (f_equal (@List.length string)) in Ee. rewrite app_length in Ee. simpl in Ee. lia.
    + intros t Nt Ct. unfold go_join_dir.
      assert (Rq : rooted ("" :: q) = true) by (destruct q; [discriminate | reflexivity]). rewrite Rq.
      assert (Cqt : forallb clean_name (q ++ t) = true) by (rewrite forallb_clean_app, Cq, Ct; reflexivity).
      assert (Nqt : nonempty (q ++ t) = true) by (apply nonempty_app_r, Nt).
      split; [apply (go_clean_abs (q ++ t)); assumption | apply (clean_leaf_abs (q ++ t)); assumption].
Qed.

Theorem leaf_agree_tame : forall b p, clean_leaf_path p = true ->
  m_leaf b h p = s_leaf h p \/
  (m_leaf b h p = inr ENotExist /\ s_leaf h p = inr EOther) \/
  leaf_nondir_parent h (m_leaf b h p) (s_leaf h p) = true.
Proof.
  intros b p H. destruct (leaf_shape p H) as [x [base [Ep [Cb [Eb A]]]]]. specialize (A (getnode_depth b)).
  destruct (clean_name_eqb base Cb) as [B1 [B2 B3]].
  assert (Hcp : clean_path p = true) by (unfold clean_leaf_path in H; apply andb_true_iff in H; apply H).
  assert (Hs : s_path h p false = to_rres (rs spec_max_links h [0] None (x ++ [base]) false)).
  { unfold s_path. rewrite (clean_path_not_empty p Hcp), rs_resolve, <- Ep. reflexivity. }
  unfold m_leaf, get_node, s_leaf. rewrite Hs, Eb. clear Hs.
  rewrite (rs_app h [base] false eq_refl). rewrite getnode_depth_spec in A.
  rewrite getnode_depth_spec.
  destruct (rs spec_max_links h [0] None x true) as [[st' nm'|a0 b0|e] k|] eqn:Ex; cbn [ag] in A.
  - rewrite A. rewrite rs_eq. cbn [s_walk]. rewrite B1, B2, B3.
    assert (Hne : st' <> []) by (eapply rs_stack; [|exact Ex]; discriminate).
    destruct (is_dir h (cur st')) eqn:Ed; cbn [negb norm to_rres].
    + destruct (lookup base (n_children (get h (cur st')))) as [i|]; cbn [andb orb norm to_rres].
      * rewrite andb_false_r. cbn [s_walk norm to_rres]. destruct st' as [|par st'']; [congruence|]. left. reflexivity.
      * left. reflexivity.
    + right. right. unfold leaf_nondir_parent. rewrite Ed. reflexivity.
  - rewrite A. left. reflexivity.
  - destruct e; try contradiction; rewrite A; cbn [to_rres]; [left; reflexivity | right; left; split; reflexivity].
  - rewrite A. left. reflexivity.
Qed.

End Tame.
