(* C17 — from the syntactic class of Proofs/FsTame.v to the refinement:
   openFile and MkdirAll (whose nesting limits are NOT the reference's total
   budget: openFile counts the final links separately and restarts getNode
   with a fresh limit for every parent, MkdirAll resolves every linked
   component with a fresh limit) agree with the reference as long as the
   reference resolution of the path stays within its budget, for which a
   syntactic certificate is given (a weight on names that bounds the number
   of links any resolution follows); then [refines_syntactic]. *)
From Apko Require Import Base.Prelude Model.MemFS Spec.FsSpec Proofs.FsProofs Proofs.FsLaws Proofs.FsWf Proofs.FsAgree Proofs.FsTame.
Open Scope string_scope. Open Scope list_scope.

(* ---- a certificate that resolutions stay within the budget -------------------------------
   [w] weighs names; a name under which a symbolic link is entered anywhere must
   weigh more than the link's whole target.  Then resolving a path follows at
   most (sum of the weights of its components) links, from any directory. *)
Definition pw (w : string -> nat) (p : path) : nat := list_sum (List.map w p).
Definition entry_ok (w : string -> nat) (h : list node) (e : string * nat) : bool :=
  if is_sym h (snd e) then Nat.leb (S (pw w (n_target (get h (snd e))))) (w (fst e)) else true.
Definition weights_ok (w : string -> nat) (h : list node) : bool :=
  forallb (fun n => forallb (entry_ok w h) (n_children n)) h.

(* a canonical weight, computed from the state alone: k rounds of
   "1 + the weight of the heaviest target entered under this name" *)
Fixpoint auto_w (k : nat) (h : list node) : string -> nat :=
  match k with
  | O => fun _ => 0
  | S k' => fun nm =>
      list_max (List.concat (List.map (fun n => List.map (fun e =>
        if String.eqb (fst e) nm && is_sym h (snd e) then S (pw (auto_w k' h) (n_target (get h (snd e)))) else 0)
        (n_children n)) h))
  end.

Lemma pw_app : forall w a b, pw w (a ++ b) = pw w a + pw w b.
Proof. intros. unfold pw. rewrite map_app, list_sum_app. reflexivity. Qed.

Lemma pw_cons : forall w c r, pw w (c :: r) = w c + pw w r.
Proof. reflexivity. Qed.

Lemma s_walk_link : forall h p st nm f st' tgt rest, s_walk h st nm p f = WLink st' tgt rest ->
  exists pre c i, p = pre ++ c :: rest /\ is_dir h (cur st') = true /\
    lookup c (n_children (get h (cur st'))) = Some i /\ is_sym h i = true /\ tgt = n_target (get h i).
Proof.
  intros h. induction p as [|c p IH]; intros st nm f st' tgt rest H; cbn [s_walk] in H; [discriminate|].
  destruct (String.eqb c "").
  { destruct (IH _ _ _ _ _ _ H) as [pre [c' [i [E R]]]]. exists (c :: pre), c', i. rewrite E. split; [reflexivity | exact R]. }
  destruct (negb (is_dir h (cur st))) eqn:Ed; [discriminate|].
  destruct (String.eqb c ".").
  { destruct (IH _ _ _ _ _ _ H) as [pre [c' [i [E R]]]]. exists (c :: pre), c', i. rewrite E. split; [reflexivity | exact R]. }
  destruct (String.eqb c "..").
  { destruct (IH _ _ _ _ _ _ H) as [pre [c' [i [E R]]]]. exists (c :: pre), c', i. rewrite E. split; [reflexivity | exact R]. }
  destruct (lookup c (n_children (get h (cur st)))) as [i|] eqn:El.
  - destruct (is_sym h i && (f || match p with [] => false | _ => true end)) eqn:Es.
    + inversion H; subst. apply andb_true_iff in Es. destruct Es as [Es _]. apply negb_false_iff in Ed.
      exists [], c, i. repeat split; assumption.
    + destruct (IH _ _ _ _ _ _ H) as [pre [c' [j [E R]]]]. exists (c :: pre), c', j. rewrite E. split; [reflexivity | exact R].
  - destruct p; discriminate.
Qed.

Theorem no_loop_w : forall w h, weights_ok w h = true ->
  forall n st nm p f, pw w p <= n -> rs n h st nm p f <> RSLoop.
Proof.
  intros w h W. induction n as [|n IH]; intros st nm p f Hp; rewrite rs_eq;
    destruct (s_walk h st nm p f) as [r|st' tgt rest] eqn:Ew; try (destruct r; discriminate);
    destruct (s_walk_link _ _ _ _ _ _ _ _ Ew) as [pre [c [i [Ep [Ed [El [Es Et]]]]]]];
    assert (Hw : S (pw w tgt) <= w c).
  1,3: (unfold weights_ok in W; rewrite forallb_forall in W;
        specialize (W (get h (cur st')) (nth_In _ _ (is_dir_in_range _ _ Ed)));
        rewrite forallb_forall in W; specialize (W (c, i) (lookup_In _ _ _ El));
        unfold entry_ok in W; cbn [fst snd] in W; rewrite Es in W; apply Nat.leb_le in W; subst tgt; exact W).
  - subst p. rewrite pw_app, pw_cons in Hp. lia.
  - destruct (path_eqb tgt [""]); [discriminate|]. apply IH.
    subst p. rewrite pw_app, pw_cons in Hp. rewrite pw_app. lia.
Qed.

(* ---- reflexivity of the envelope's boolean equalities --------------------------------------- *)
Lemma list_eqb_refl {A} (eqb : A -> A -> bool) : (forall x, eqb x x = true) -> forall l, list_eqb eqb l l = true.
Proof. intros H. induction l as [|x l IH]; simpl; [reflexivity | rewrite H, IH; reflexivity]. Qed.
Lemma option_eqb_refl {A} (eqb : A -> A -> bool) : (forall x, eqb x x = true) -> forall o, option_eqb eqb o o = true.
Proof. intros H [x|]; simpl; [apply H | reflexivity]. Qed.
Lemma kind_eqb_refl : forall k, kind_eqb k k = true. Proof. intros []; reflexivity. Qed.
Lemma eclass_eqb_refl : forall k, eclass_eqb k k = true. Proof. intros []; reflexivity. Qed.
Lemma node_eqb_refl : forall n, node_eqb n n = true.
Proof.
  intros n. unfold node_eqb. rewrite kind_eqb_refl, N.eqb_refl, !Z.eqb_refl, N.eqb_refl.
  rewrite (list_eqb_refl N.eqb N.eqb_refl), (option_eqb_refl Z.eqb Z.eqb_refl).
  unfold path_eqb. rewrite (list_eqb_refl String.eqb String.eqb_refl).
  rewrite (list_eqb_refl (pair_eqb String.eqb (list_eqb N.eqb))).
  2:{ intros [a v]. unfold pair_eqb. cbn [fst snd]. rewrite String.eqb_refl, (list_eqb_refl N.eqb N.eqb_refl). reflexivity. }
  rewrite (list_eqb_refl (pair_eqb String.eqb Nat.eqb)).
  2:{ intros [a v]. unfold pair_eqb. cbn [fst snd]. rewrite String.eqb_refl, Nat.eqb_refl. reflexivity. }
  reflexivity.
Qed.
Lemma heap_eqb_refl : forall h, heap_eqb h h = true.
Proof. apply list_eqb_refl, node_eqb_refl. Qed.
Lemma leaf_eqb_refl : forall x, leaf_eqb x x = true.
Proof.
  intros [[[p n] c]|e]; simpl; [|apply eclass_eqb_refl].
  rewrite Nat.eqb_refl, String.eqb_refl, (option_eqb_refl Nat.eqb Nat.eqb_refl). reflexivity.
Qed.
Lemma opened_eqb_refl : forall x, opened_eqb x x = true.
Proof. intros [e|h i]; simpl; [apply eclass_eqb_refl | rewrite heap_eqb_refl, Nat.eqb_refl; reflexivity]. Qed.
Lemma mkdirall_eqb_refl : forall x, mkdirall_eqb x x = true.
Proof. intros [h e]. unfold mkdirall_eqb. cbn [fst snd]. rewrite heap_eqb_refl, (option_eqb_refl eclass_eqb eclass_eqb_refl). reflexivity. Qed.

(* ---- openFile --------------------------------------------------------------------------------- *)
Definition s_open_r (h : list node) (r : rres) (fl : oflags) (perm : N) : opened :=
  match r with
  | RErr e => OpErr e
  | RMissing st nm =>
      if f_creat fl then let '(h', i) := create h (cur st) nm (empty_node KReg perm) in OpNode h' i
      else OpErr ENotExist
  | RFound st _ =>
      if f_creat fl && f_excl fl then OpErr EExist
      else if is_dir h (cur st) then
        match f_acc fl with
        | ARd => if f_creat fl || f_trunc fl then OpErr EOther else OpNode h (cur st)
        | _ => OpErr EOther
        end
      else OpNode h (cur st)
  end.
Lemma s_open_eq : forall h p fl perm, s_open h p fl perm = s_open_r h (s_path h p true) fl perm.
Proof. reflexivity. Qed.

Lemma open_at_eq : forall b d h name fl perm, open_at b d h name fl perm =
  match get_node b h (go_dir name) with
  | inr e => OpErr e
  | inl pi =>
      if negb (is_dir h pi) then OpErr EOther
      else match lookup (go_base name) (n_children (get h pi)) with
           | None =>
               if f_creat fl then let '(h', i) := create h pi (go_base name) (empty_node KReg perm) in OpNode h' i
               else match b with
                    | TarFS => if path_eqb (go_dir name) name then OpNode h pi else OpErr ENotExist
                    | MemFS => OpErr ENotExist
                    end
           | Some c =>
               if is_dir h c then OpErr EOther
               else if is_sym h c then
                 match d with
                 | O => OpErr EOther
                 | S d' =>
                     let t := n_target (get h c) in
                     open_at b d' h (if rooted t then t else go_join_dir (go_dir name) t) fl perm
                 end
               else OpNode h c
           end
  end.
Proof. intros b [|d]; reflexivity. Qed.

Lemma is_sym_not_dir : forall h c, is_sym h c = true -> is_dir h c = false.
Proof. intros h c. unfold is_sym, is_dir. destruct (n_kind (get h c)); congruence. Qed.

Section TameOps.
Variable h : list node.
Hypothesis T : tame_links h = true.
Hypothesis Root : is_dir h 0 = true.

Section Open.
Variable b : backend.
Variable fl : oflags.
Variable perm : N.
Hypothesis Hex : f_creat fl && f_excl fl = false.

(* one level of openFile: either it answers as the reference does, or the last
   component is a link and it re-opens the joined text, which the reference
   resolves to the same thing with one link less in the budget *)
Lemma open_step : forall d B name, clean_leaf_path name = true -> B <= spec_max_links ->
  rs B h [0] None name true <> RSLoop ->
  (forall i, rnode (to_rres (rs B h [0] None name true)) = inl i -> is_dir h i = false) ->
  (open_at b d h name fl perm = s_open_r h (to_rres (rs B h [0] None name true)) fl perm \/
   (open_at b d h name fl perm = OpErr ENotExist /\
    s_open_r h (to_rres (rs B h [0] None name true)) fl perm = OpErr EOther)) \/
  exists name' B', B = S B' /\ clean_leaf_path name' = true /\
    rs B' h [0] None name' true = rs B h [0] None name true /\
    open_at b d h name fl perm = match d with O => OpErr EOther | S d' => open_at b d' h name' fl perm end.
Proof.
  intros d B name Hl HBD NL ND.
  destruct (leaf_shape_open h T name Hl) as [x [base [Ep [Cb [Eb [A [Hne J]]]]]]].
  destruct (clean_name_eqb base Cb) as [B1 [B2 B3]].
  specialize (A spec_max_links). rewrite open_at_eq. unfold get_node. rewrite getnode_depth_spec, Eb.
  remember (rs B h [0] None name true) as X eqn:EX.
  rewrite Ep, (rs_app h [base] true eq_refl) in EX.
  destruct (rs B h [0] None x true) as [r k|] eqn:EY; [|congruence].
  pose proof (rs_mono_add (spec_max_links - B) _ _ _ _ _ _ _ _ EY) as EM.
  replace (B + (spec_max_links - B)) with spec_max_links in EM by lia. rewrite EM in A.
  destruct r as [st' nm'|a0 b0|e]; cbn [ag is_err] in A.
  2:{ left. rewrite A, EX. left. reflexivity. }
  2:{ left. destruct e; try contradiction; rewrite A, EX; cbn [to_rres s_open_r]; [left; reflexivity | right; split; reflexivity]. }
  rewrite A. rewrite rs_eq in EX. cbn [s_walk] in EX. rewrite B1, B2, B3 in EX.
  destruct (is_dir h (cur st')) eqn:Ed; cbn [negb] in EX |- *.
  2:{ left. rewrite EX. left. reflexivity. }
  destruct (lookup base (n_children (get h (cur st')))) as [c|] eqn:El.
  2:{ left. rewrite EX. cbn [norm to_rres s_open_r]. rewrite Hne. left.
      destruct (f_creat fl); [reflexivity | destruct b; reflexivity]. }
  rewrite orb_true_l, andb_true_r in EX.
  destruct (is_sym h c) eqn:Es.
  2:{ left. cbn [s_walk norm] in EX. rewrite EX in ND |- *. cbn [to_rres s_open_r rnode cur hd] in ND |- *.
      rewrite Hex, (ND c eq_refl). left. reflexivity. }
  rewrite (is_sym_not_dir h c Es). destruct (tame_get h c T Es) as [Nt Ct].
  rewrite (clean_not_emptystr _ Nt Ct), (clean_not_rooted _ Ct) in EX.
  destruct k as [|k']; [congruence|]. pose proof (rs_le _ _ _ _ _ _ _ _ EY) as Lk.
  destruct B as [|B']; [lia|]. rewrite app_nil_r in EX.
  destruct (J _ Nt Ct) as [J1 J2]. right. exists (x ++ n_target (get h c)), B'.
  split; [reflexivity|]. split; [exact J2|]. split.
  - rewrite EX. rewrite (rs_app h _ true Nt). rewrite (rs_down _ _ _ _ _ _ _ _ EY eq_refl).
    destruct (n_target (get h c)) as [|t0 tt]; [discriminate Nt|]. apply rs_nm.
    cbn [forallb] in Ct. apply andb_true_iff in Ct. apply Ct.
  - cbv zeta. rewrite (clean_not_rooted _ Ct), J1. reflexivity.
Qed.

Lemma open_ag : forall d B name, clean_leaf_path name = true -> B <= d -> B <= spec_max_links ->
  rs B h [0] None name true <> RSLoop ->
  (forall i, rnode (to_rres (rs B h [0] None name true)) = inl i -> is_dir h i = false) ->
  open_at b d h name fl perm = s_open_r h (to_rres (rs B h [0] None name true)) fl perm \/
  (open_at b d h name fl perm = OpErr ENotExist /\
   s_open_r h (to_rres (rs B h [0] None name true)) fl perm = OpErr EOther).
Proof.
  induction d as [|d IH]; intros B name Hl HBd HBD NL ND.
  - destruct (open_step 0 B name Hl HBD NL ND) as [R|[name' [B' [EB [Hl' [EX Eo]]]]]]; [exact R | lia].
  - destruct (open_step (S d) B name Hl HBD NL ND) as [R|[name' [B' [EB [Hl' [EX Eo]]]]]]; [exact R|].
    rewrite Eo, <- EX. rewrite <- EX in NL, ND. apply IH; [exact Hl' | lia | lia | exact NL | exact ND].
Qed.

Theorem open_agree_tame : forall p, clean_leaf_path p = true ->
  rs spec_max_links h [0] None p true <> RSLoop ->
  match s_node h p with inl i => is_dir h i | _ => false end = false ->
  open_at b (openfile_depth b) h p fl perm = s_open h p fl perm \/
  (open_at b (openfile_depth b) h p fl perm = OpErr ENotExist /\ s_open h p fl perm = OpErr EOther).
Proof.
  intros p Hl NL ND.
  assert (Hcp : clean_path p = true) by (unfold clean_leaf_path in Hl; apply andb_true_iff in Hl; apply Hl).
  assert (Hod : openfile_depth b = spec_max_links) by (destruct b; reflexivity).
  rewrite s_open_eq. unfold s_path. rewrite (clean_path_not_empty p Hcp), <- rs_resolve. rewrite Hod.
  apply open_ag; [exact Hl | lia | lia | exact NL|].
  intros i Hi. rewrite (s_node_rs h p Hcp), Hi in ND. exact ND.
Qed.
End Open.

(* ---- MkdirAll ------------------------------------------------------------------------------------ *)
Definition mk_bad (m r : option eclass) : bool :=
  match m, r with
  | Some ENotExist, Some EOther | Some ENotExist, Some EExist | Some EOther, Some EExist => true
  | _, _ => false
  end.
End TameOps.

Lemma get_create_new : forall h d nm n, d < List.length h -> get (fst (create h d nm n)) (List.length h) = n.
Proof.
  intros h d nm n Hd. unfold create, add_child. cbn [fst]. rewrite get_upd_other by lia.
  unfold get. apply nth_middle.
Qed.

(* once a component had to be created, everything below it is created as well:
   no link is met any more and the two loops coincide *)
Lemma mkdir_create_step : forall b perm rest h part trav stk,
  clean_name part = true -> forallb clean_name rest = true -> is_dir h (cur stk) = true ->
  lookup part (n_children (get h (cur stk))) = None ->
  mkdirall_loop b h (part :: rest) (cur stk) trav perm = s_mkdirall h stk (part :: rest) perm.
Proof.
  intros b perm. induction rest as [|part' rest IH]; intros h part trav stk Hp Hr Hd Hl;
    destruct (clean_name_eqb part Hp) as [E1 [E2 E3]];
    cbn [mkdirall_loop s_mkdirall]; rewrite E1, E2, E3, Hd, Hl;
    assert (Eb : (match b with MemFS => false | TarFS => false end) = false) by (destruct b; reflexivity);
    rewrite Eb; cbn [orb negb];
    pose proof (get_create_new h (cur stk) part (empty_node KDir perm) (is_dir_in_range _ _ Hd)) as G;
    destruct (create h (cur stk) part (empty_node KDir perm)) as [h1 nn] eqn:Ec;
    assert (Enn : nn = List.length h) by (unfold create in Ec; inversion Ec; reflexivity);
    cbn [fst] in G; rewrite <- Enn in G;
    assert (S1 : is_sym h1 nn = false) by (unfold is_sym; rewrite G; reflexivity);
    assert (D1 : is_dir h1 nn = true) by (unfold is_dir; rewrite G; reflexivity);
    rewrite S1, D1; cbn [negb].
  - reflexivity.
  - cbn [forallb] in Hr. apply andb_true_iff in Hr. destruct Hr as [Hp' Hr'].
    apply (IH h1 part' (trav ++ [part]) (nn :: stk) Hp' Hr'); cbn [cur hd]; [exact D1|].
    rewrite G. reflexivity.
Qed.

Section TameMk.
Variable h : list node.
Hypothesis T : tame_links h = true.
Hypothesis Root : is_dir h 0 = true.
Variable b : backend.
Variable perm : N.

Lemma mkdir_ag : forall parts trav stk nm n,
  forallb clean_name parts = true -> forallb clean_name trav = true ->
  rs spec_max_links h [0] None trav true = RS (RFound stk nm) n -> is_dir h (cur stk) = true ->
  rs n h stk nm parts true <> RSLoop ->
  mkdirall_loop b h parts (cur stk) trav perm = s_mkdirall h stk parts perm \/
  mk_bad (snd (mkdirall_loop b h parts (cur stk) trav perm)) (snd (s_mkdirall h stk parts perm)) = true.
Proof.
  induction parts as [|part rest IH]; intros trav stk nm n Hc Ht Hpre Hd NL; [left; reflexivity|].
  cbn [forallb] in Hc. apply andb_true_iff in Hc. destruct Hc as [Hp Hr].
  destruct (clean_name_eqb part Hp) as [E1 [E2 E3]].
  destruct (lookup part (n_children (get h (cur stk)))) as [c|] eqn:El.
  2:{ left. apply mkdir_create_step; assumption. }
  assert (Ht' : forallb clean_name (trav ++ [part]) = true).
  { rewrite forallb_clean_app, Ht. cbn [forallb]. rewrite Hp. reflexivity. }
  cbn [mkdirall_loop s_mkdirall]. rewrite E1, E2, E3, Hd, El.
  assert (Eb : (match b with MemFS => false | TarFS => false end) = false) by (destruct b; reflexivity).
  rewrite Eb. cbn [orb negb]. rewrite <- rs_resolve.
  destruct (is_sym h c) eqn:Es.
  - (* a linked component *)
    destruct (tame_get h c T Es) as [N C]. rewrite (clean_not_rooted _ C).
    assert (Hq : go_join_trav trav (n_target (get h c)) = trav ++ n_target (get h c)).
    { unfold go_join_trav. apply go_clean_rel; [apply nonempty_app_r, N | rewrite forallb_clean_app, Ht, C; reflexivity]. }
    rewrite Hq. unfold get_node. rewrite getnode_depth_spec.
    assert (Nq : nonempty (trav ++ n_target (get h c)) = true) by (apply nonempty_app_r, N).
    assert (Cq : forallb clean_name (trav ++ n_target (get h c)) = true) by (rewrite forallb_clean_app, Ht, C; reflexivity).
    pose proof (get_at_ag h T spec_max_links _ Nq Cq) as A.
    rewrite (rs_app h _ true N), Hpre in A.
    rewrite (rs_link_step h T n stk nm part rest c Hp Hd El Es) in NL.
    destruct n as [|n']; [congruence|].
    pose proof (rs_le _ _ _ _ _ _ _ _ Hpre) as Ln.
    destruct (n_target (get h c)) as [|t0 tt] eqn:Etg; [discriminate N|].
    assert (Ct0 : clean_name t0 = true) by (cbn [forallb] in C; apply andb_true_iff in C; apply C).
    rewrite (rs_nm (S n') h stk nm None t0 tt true Ct0) in A.
    destruct (rs n' h stk None (t0 :: tt) true) as [rz kz|] eqn:EZ; [|congruence].
    rewrite (rs_mono _ _ _ _ _ _ _ _ EZ) in A.
    (* the reference resolves the one component with the full budget *)
    assert (ER : rs spec_max_links h stk None [part] true =
                 match rz with
                 | RFound st2 nm2 => RS (RFound st2 nm2) (kz + (spec_max_links - S n'))
                 | RMissing a0 b0 => RS (RMissing a0 b0) (kz + (spec_max_links - S n'))
                 | RErr e => RS (RErr e) 0
                 end).
    { rewrite (rs_link_step h T spec_max_links stk None part [] c Hp Hd El Es).
      destruct spec_max_links as [|D'] eqn:ED; [lia|]. rewrite Etg.
      pose proof (rs_mono_add (D' - n') _ _ _ _ _ _ _ _ EZ) as EM.
      replace (n' + (D' - n')) with D' in EM by lia. rewrite EM.
      replace (S D' - S n') with (D' - n') by lia.
      destruct rz; cbn [is_err]; try reflexivity. rewrite rs_eq. reflexivity. }
    rewrite ER.
    destruct rz as [st2 nm2|a0 b0|e]; cbn [ag is_err] in A; cbn [to_rres].
    + rewrite A. destruct (is_dir h (cur st2)) eqn:Ed2; cbn [negb]; [|left; reflexivity].
      apply (IH (trav ++ [part]) st2 nm2 kz Hr Ht'); [|exact Ed2|exact NL].
      rewrite (rs_app h [part] true eq_refl), Hpre.
      rewrite (rs_link_step h T (S n') stk nm part [] c Hp Hd El Es), Etg, EZ. rewrite rs_eq. reflexivity.
    + rewrite A. right. reflexivity.
    + destruct e; try contradiction; rewrite A; right; reflexivity.
  - (* an ordinary entry *)
    rewrite (rs_plain_step h spec_max_links stk None part [] c Hp Hd El Es). rewrite rs_eq. cbn [s_walk norm to_rres cur hd].
    destruct (is_dir h c) eqn:Edc; cbn [negb]; [|left; reflexivity].
    apply (IH (trav ++ [part]) (c :: stk) (Some part) n Hr Ht'); [|exact Edc|].
    + rewrite (rs_app h [part] true eq_refl), Hpre.
      rewrite (rs_plain_step h n stk nm part [] c Hp Hd El Es). rewrite rs_eq. reflexivity.
    + rewrite (rs_plain_step h n stk nm part rest c Hp Hd El Es) in NL. exact NL.
Qed.

(* MkdirAll(".") is left out for tarfs: its loop does not skip "." and makes a directory of that name *)
Definition mkdirall_path_ok (p : path) : bool :=
  clean_path p && (negb (path_eqb p ["."]) || match b with MemFS => true | TarFS => false end).

Theorem mkdirall_agree_tame : forall p, mkdirall_path_ok p = true ->
  rs spec_max_links h [0] None p true <> RSLoop ->
  mkdirall_loop b h p 0 [] perm = s_mkdirall h [0] p perm \/
  mk_bad (snd (mkdirall_loop b h p 0 [] perm)) (snd (s_mkdirall h [0] p perm)) = true.
Proof.
  intros p Hok NL. unfold mkdirall_path_ok in Hok. apply andb_true_iff in Hok. destruct Hok as [Hc Hdot].
  destruct (clean_path_cases p Hc) as [Er|[Er [N [C [Ep|Ep]]]]].
  - left. unfold is_root_path in Er. apply orb_true_iff in Er. destruct Er as [Er|Er]; apply path_eqb_eq in Er; subst p.
    + reflexivity.
    + destruct b; [reflexivity | discriminate Hdot].
  - remember (strip_slash p) as q eqn:Eq. clear Eq. subst p.
    apply (mkdir_ag q [] [0] None spec_max_links C eq_refl); [rewrite rs_eq; reflexivity | exact Root | exact NL].
  - remember (strip_slash p) as q eqn:Eq. clear Eq. subst p. rewrite rs_skip_slash in NL.
    apply (mkdir_ag q [] [0] None spec_max_links C eq_refl); [rewrite rs_eq; reflexivity | exact Root | exact NL].
Qed.
End TameMk.

(* ---- the envelope from the syntactic class ----------------------------------------------------- *)
Definition budget_path (o : op) : option path :=
  match o with
  | OpenFile p _ _ | Create p | ReadFile p | WriteFile p _ _ | MkdirAll p _ => Some p
  | _ => None
  end.
Definition in_budget (h : list node) (o : op) : Prop :=
  match budget_path o with Some p => rs spec_max_links h [0] None p true <> RSLoop | None => True end.
Definition op_weight (w : string -> nat) (o : op) : nat :=
  match budget_path o with Some p => pw w p | None => 0 end.
Definition dot_ok (b : backend) (o : op) : bool :=
  match o with
  | MkdirAll p _ => negb (path_eqb p ["."]) || match b with MemFS => true | TarFS => false end
  | _ => true
  end.

Definition okc (x : option string) : Prop := match x with Some t => t = t_link | None => True end.
Lemma fc_true : forall t l, first_corner ((true, t) :: l) = first_corner l. Proof. reflexivity. Qed.
Lemma fc_false : forall t l, first_corner ((false, t) :: l) = Some t. Proof. reflexivity. Qed.

Ltac drop_true H :=
  lazymatch goal with
  | |- first_corner ((true, ?t) :: ?l) = None =>
      change (first_corner ((true, t) :: l)) with (first_corner l) in H |- *
  end.
Ltac step H :=
  lazymatch goal with
  | |- first_corner ((true, _) :: _) = None => drop_true H
  | |- first_corner ((?c, ?t) :: _) = None =>
      let Hc := fresh "Hc" in
      destruct c eqn:Hc; [ drop_true H | exfalso; change (t = t_link) in H; discriminate H ]
  end.
Ltac link_ok H L :=
  lazymatch goal with
  | |- first_corner ((?c, _) :: _) = None =>
      let Hl := fresh "Hl" in
      assert (Hl : c = true) by L; rewrite Hl in H |- *; drop_true H
  end.

Section Envelope.
Variable b : backend.
Variable h : list node.
Hypothesis T : tame_links h = true.
Hypothesis Root : is_dir h 0 = true.

Lemma node_link_ok : forall p, clean_path p = true ->
  negb (match get_node b h p, s_node h p with inr ENotExist, inr EOther => true | _, _ => false end) = true ->
  eres_nat_eqb (get_node b h p) (s_node h p) = true.
Proof.
  intros p Hc Hp. destruct (node_agree_tame h T Root b p Hc) as [E|[E1 E2]].
  - rewrite E. apply eres_nat_eqb_refl.
  - rewrite E1, E2 in Hp. discriminate Hp.
Qed.

Lemma leaf_link_ok : forall p chk, clean_leaf_path p = true ->
  negb (match m_leaf b h p, s_leaf h p with
        | inr ENotExist, inr EOther => true
        | _, _ => negb chk && leaf_nondir_parent h (m_leaf b h p) (s_leaf h p)
        end) = true ->
  leaf_eqb (m_leaf b h p) (s_leaf h p) || (chk && leaf_nondir_parent h (m_leaf b h p) (s_leaf h p)) = true.
Proof.
  intros p chk Hc Hp. destruct (leaf_agree_tame h T b p Hc) as [E|[[E1 E2]|E]].
  - rewrite E. rewrite leaf_eqb_refl. reflexivity.
  - rewrite E1, E2 in Hp. discriminate Hp.
  - destruct chk; [rewrite E; apply orb_true_r|]. exfalso.
    unfold leaf_nondir_parent in E. destruct (m_leaf b h p) as [[[pi nm] c]|e]; [|discriminate].
    destruct (s_leaf h p) as [x|e]; [discriminate|]. destruct e; try discriminate.
    unfold leaf_nondir_parent in Hp. rewrite E in Hp. discriminate Hp.
Qed.

Lemma s_node_root : forall p, is_root_path p = true -> s_node h p = inl 0.
Proof.
  intros p Er. assert (Hc : clean_path p = true) by (unfold clean_path; rewrite Er; reflexivity).
  rewrite (s_node_rs h p Hc). unfold is_root_path in Er. apply orb_true_iff in Er.
  destruct Er as [Er|Er]; apply path_eqb_eq in Er; subst p; rewrite rs_eq; cbn [s_walk String.eqb cur hd]; [|rewrite Root]; reflexivity.
Qed.

Lemma open_link_ok : forall p fl perm,
  clean_leaf_path p || (is_root_path p && negb (f_creat fl)) = true ->
  negb (f_creat fl && f_excl fl) = true ->
  negb (match s_node h p with inl i => is_dir h i | _ => false end) = true ->
  negb (match open_at b (openfile_depth b) h p fl perm, s_open h p fl perm with
        | OpErr ENotExist, OpErr EOther => true | _, _ => false end) = true ->
  rs spec_max_links h [0] None p true <> RSLoop ->
  opened_eqb (open_at b (openfile_depth b) h p fl perm) (s_open h p fl perm) = true.
Proof.
  intros p fl perm H1 H2 H3 H4 NL. apply negb_true_iff in H2, H3.
  destruct (clean_leaf_path p) eqn:Hl.
  - destruct (open_agree_tame h T b fl perm H2 p Hl NL H3) as [E|[E1 E2]].
    + rewrite E. apply opened_eqb_refl.
    + rewrite E1, E2 in H4. discriminate H4.
  - cbn [orb] in H1. apply andb_true_iff in H1. destruct H1 as [Er _].
    rewrite (s_node_root p Er), Root in H3. discriminate H3.
Qed.

Lemma mkdirall_link_ok : forall p perm,
  clean_path p = true -> negb (path_eqb p ["."]) || match b with MemFS => true | TarFS => false end = true ->
  negb (match snd (mkdirall_loop b h p 0 [] perm), snd (s_mkdirall h [0] p perm) with
        | Some ENotExist, Some EOther => true | _, _ => false end) = true ->
  negb (match snd (mkdirall_loop b h p 0 [] perm), snd (s_mkdirall h [0] p perm) with
        | Some ENotExist, Some EExist | Some EOther, Some EExist => true | _, _ => false end) = true ->
  rs spec_max_links h [0] None p true <> RSLoop ->
  mkdirall_eqb (mkdirall_loop b h p 0 [] perm) (s_mkdirall h [0] p perm) = true.
Proof.
  intros p perm Hc Hd H2 H3 NL.
  assert (Hok : mkdirall_path_ok b p = true) by (unfold mkdirall_path_ok; rewrite Hc, Hd; reflexivity).
  destruct (mkdirall_agree_tame h T Root b perm p Hok NL) as [E|E].
  - rewrite E. apply mkdirall_eqb_refl.
  - exfalso. unfold mk_bad in E.
    destruct (snd (mkdirall_loop b h p 0 [] perm)) as [[]|]; destruct (snd (s_mkdirall h [0] p perm)) as [[]|];
      try discriminate E; try discriminate H2; discriminate H3.
Qed.
End Envelope.

Theorem envelope_tame : forall b s o,
  tame_links (heap s) = true -> is_dir (heap s) 0 = true -> in_budget (heap s) o -> dot_ok b o = true ->
  (forall tag, corner b s o = Some tag -> tag = t_link) -> E b s o = true.
Proof.
  intros b s o T Root IB Dot H0.
  assert (H : okc (corner b s o)) by (unfold okc; destruct (corner b s o) as [t|] eqn:Ec; [apply H0; reflexivity | exact I]).
  clear H0. unfold E. assert (G : corner b s o = None); [|rewrite G; reflexivity].
  unfold corner in *. unfold in_budget in IB.
  pose proof (node_link_ok b (heap s) T Root) as LN.
  pose proof (leaf_link_ok b (heap s) T) as LL.
  pose proof (open_link_ok b (heap s) T Root) as LO.
  pose proof (mkdirall_link_ok b (heap s) T Root) as LM.
  destruct o; cbn [corners budget_path dot_ok] in *;
    unfold open_corner, leaf_corner, node_corner, handle_corner in *; cbn [app] in *.
  - (* Mkdir *) step H. step H. link_ok H ltac:(apply LL; assumption). reflexivity.
  - (* MkdirAll *) step H. step H. step H. link_ok H ltac:(apply LM; assumption). reflexivity.
  - (* OpenFile *) step H. step H. step H. step H. link_ok H ltac:(apply LO; assumption). step H. reflexivity.
  - (* Create *) step H. step H. step H. step H. link_ok H ltac:(apply LO; assumption). step H. reflexivity.
  - (* Read *)
    destruct (nth_error (handles s) h) as [hd|]; [|reflexivity]. destruct (h_open hd); [|reflexivity].
    step H. step H. step H. step H. reflexivity.
  - (* ReadAt *)
    destruct (nth_error (handles s) h) as [hd|]; [|reflexivity]. destruct (h_open hd); [|reflexivity].
    step H. step H. step H. reflexivity.
  - (* Write *)
    destruct (nth_error (handles s) h) as [hd|]; [|reflexivity]. destruct (h_open hd); [|reflexivity].
    step H. step H. step H. reflexivity.
  - reflexivity.
  - reflexivity.
  - (* ReadFile *) step H. step H. step H. step H. link_ok H ltac:(apply LO; assumption). step H. reflexivity.
  - (* WriteFile *) step H. step H. step H. step H. link_ok H ltac:(apply LO; assumption). step H. reflexivity.
  - (* ReadDir *) step H. step H. link_ok H ltac:(apply LN; assumption). reflexivity.
  - (* Stat *) step H. step H. link_ok H ltac:(apply LN; assumption). reflexivity.
  - (* Lstat *) step H. step H. step H. step H. link_ok H ltac:(apply LN; assumption). reflexivity.
  - (* Symlink *) step H. step H. link_ok H ltac:(apply LL; assumption). reflexivity.
  - (* Link *)
    step H. step H. link_ok H ltac:(apply LL; assumption). step H. step H. step H.
    link_ok H ltac:(apply LN; assumption). step H. reflexivity.
  - (* Readlink *) step H. step H. link_ok H ltac:(apply LL; assumption). reflexivity.
  - (* Remove *) step H. step H. link_ok H ltac:(apply LL; assumption). step H. reflexivity.
  - (* Chmod *) step H. step H. link_ok H ltac:(apply LN; assumption). reflexivity.
  - (* Chown *) step H. step H. link_ok H ltac:(apply LN; assumption). reflexivity.
  - (* Chtimes *) step H. step H. link_ok H ltac:(apply LN; assumption). reflexivity.
  - (* Mknod *) step H. step H. link_ok H ltac:(apply LL; assumption). reflexivity.
  - (* Readnod *) step H. step H. link_ok H ltac:(apply LL; assumption). reflexivity.
  - (* SetXattr *) step H. step H. step H. step H. link_ok H ltac:(apply LN; assumption). reflexivity.
  - (* GetXattr *) step H. step H. step H. step H. link_ok H ltac:(apply LN; assumption). reflexivity.
  - (* RemoveXattr *) step H. step H. step H. step H. link_ok H ltac:(apply LN; assumption). reflexivity.
  - (* ListXattrs *) step H. step H. step H. step H. link_ok H ltac:(apply LN; assumption). reflexivity.
Qed.

(* the syntactic theorem: tame link targets + a weight certificate for the paths
   that go through openFile / MkdirAll *)
Theorem refines_syntactic : forall b s o w,
  tame_links (heap s) = true -> is_dir (heap s) 0 = true ->
  weights_ok w (heap s) = true -> op_weight w o <= spec_max_links -> dot_ok b o = true ->
  (forall tag, corner b s o = Some tag -> tag = t_link) ->
  E b s o = true /\ model_step b s o = spec_step s o.
Proof.
  intros b s o w T Root W Hw Dot H.
  assert (HE : E b s o = true).
  { apply envelope_tame; try assumption. unfold in_budget, op_weight in *.
    destruct (budget_path o) as [p|]; [|exact I]. apply (no_loop_w w (heap s) W). exact Hw. }
  split; [exact HE | apply refines, HE].
Qed.

(* ---- statements free of the instrumentation ------------------------------------------------------ *)
(* getNode with nesting limit d = the reference resolution with total budget d, for every d *)
Theorem get_at_is_budget : forall h d p, tame_links h = true -> is_dir h 0 = true -> clean_path p = true ->
  get_at d h p = rnode (s_resolve d h [0] None p true) \/
  (get_at d h p = inr ENotExist /\ rnode (s_resolve d h [0] None p true) = inr EOther).
Proof. intros h d p T Root Hc. rewrite <- rs_resolve. apply ag_node, path_ag; assumption. Qed.

(* under a weight certificate a resolution never exhausts a budget of at least the
   path's weight: more budget changes nothing *)
Theorem weight_bounds_links : forall w h, weights_ok w h = true ->
  forall n st nm p f j, pw w p <= n -> s_resolve (n + j) h st nm p f = s_resolve n h st nm p f.
Proof.
  intros w h W n st nm p f j Hp. rewrite <- !rs_resolve.
  pose proof (no_loop_w w h W n st nm p f Hp) as NL.
  destruct (rs n h st nm p f) as [r k|] eqn:Er; [|congruence].
  rewrite (rs_mono_add j _ _ _ _ _ _ _ _ Er). reflexivity.
Qed.
