(* C17 — the syntactic class is closed under the code's steps: if every Symlink
   operation of a sequence is given a tame target (non-empty, relative, ordinary
   names only), every state the code reaches is tame — a condition on the
   OPERATIONS alone. *)
From Apko Require Import Base.Prelude Model.MemFS Spec.FsSpec Proofs.FsProofs Proofs.FsLaws Proofs.FsWf Proofs.FsReach Proofs.FsTame Proofs.FsTameOps.
Open Scope string_scope. Open Scope list_scope.

Definition tame_op (o : op) : bool := match o with Symlink tgt _ => tame_target tgt | _ => true end.

Lemma tame_upd : forall h i f, (forall n, n_kind (f n) = n_kind n /\ n_target (f n) = n_target n) ->
  tame_links h = true -> tame_links (upd h i f) = true.
Proof.
  unfold tame_links. induction h as [|x h IH]; intros [|i] f Hf H; cbn [upd forallb] in *; try exact H;
    apply andb_true_iff in H; destruct H as [H1 H2]; apply andb_true_iff; split; auto.
  unfold tame_node in *. destruct (Hf x) as [K Tg]. rewrite K, Tg. exact H1.
Qed.
Lemma tame_app : forall h n, tame_links h = true -> tame_node n = true -> tame_links (h ++ [n]) = true.
Proof. intros h n H Hn. unfold tame_links in *. rewrite forallb_app, H. cbn [forallb]. rewrite Hn. reflexivity. Qed.
Lemma tame_add_child : forall h d nm t, tame_links h = true -> tame_links (add_child h d nm t) = true.
Proof. intros. unfold add_child. apply tame_upd; [intros; split; reflexivity | assumption]. Qed.
Lemma tame_del_child : forall h d nm, tame_links h = true -> tame_links (del_child h d nm) = true.
Proof. intros. unfold del_child. apply tame_upd; [intros; split; reflexivity | assumption]. Qed.
Lemma tame_create : forall h d nm n, tame_links h = true -> tame_node n = true -> tame_links (fst (create h d nm n)) = true.
Proof. intros. unfold create. cbn [fst]. apply tame_add_child, tame_app; assumption. Qed.

Lemma open_at_tame : forall b d h name fl perm h' i, tame_links h = true ->
  open_at b d h name fl perm = OpNode h' i -> tame_links h' = true.
Proof.
  intros b. induction d as [|d IH]; intros h name fl perm h' i T H; rewrite open_at_eq in H;
    destruct (get_node b h (go_dir name)) as [pi|e]; try discriminate;
    destruct (negb (is_dir h pi)); try discriminate;
    (destruct (lookup (go_base name) (n_children (get h pi))) as [c|];
     [ destruct (is_dir h c); [discriminate|]
     | destruct (f_creat fl);
       [ pose proof (tame_create h pi (go_base name) (empty_node KReg perm) T eq_refl) as A;
         destruct (create h pi (go_base name) (empty_node KReg perm)) as [h1 i1]; cbn [fst] in A; inversion H; subst; exact A
       | destruct b; [discriminate|]; destruct (path_eqb (go_dir name) name); [|discriminate]; inversion H; subst; exact T ] ]).
  - destruct (is_sym h c); [discriminate|]. inversion H; subst; exact T.
  - destruct (is_sym h c); [|inversion H; subst; exact T]. eapply IH; eassumption.
Qed.

Lemma mkdirall_loop_tame : forall b parts h c trav perm, tame_links h = true ->
  tame_links (fst (mkdirall_loop b h parts c trav perm)) = true.
Proof.
  intros b. induction parts as [|part rest IH]; intros h c trav perm T; cbn [mkdirall_loop]; cbv zeta; [exact T|].
  destruct (String.eqb part "" || match b with MemFS => String.eqb part "." | TarFS => false end); [apply IH, T|].
  destruct (lookup part (n_children (get h c))) as [x|].
  - destruct (if is_sym h x then _ else _) as [nn'|e]; [|exact T].
    destruct (negb (is_dir h nn')); [exact T | apply IH, T].
  - pose proof (tame_create h c part (empty_node KDir perm) T eq_refl) as A.
    destruct (create h c part (empty_node KDir perm)) as [h1 nn]. cbn [fst] in A.
    destruct (if is_sym h1 nn then _ else _) as [nn'|e]; [|exact A].
    destruct (negb (is_dir h1 nn')); [exact A | apply IH, A].
Qed.

Ltac tame_same T :=
  first [ exact T
        | cbn [fst seth heap]; apply tame_upd; [intros; split; reflexivity | exact T] ].

Theorem model_step_tame : forall b s o, tame_op o = true -> tame_links (heap s) = true ->
  tame_links (heap (fst (model_step b s o))) = true.
Proof.
  intros b s o Ho T.
  destruct o; cbn [model_step]; unfold with_leaf, with_node, with_node_ne, with_handle, enter_new, m_open, new_handle.
  - destruct (m_leaf b (heap s) p) as [[[d nm] c]|e]; [|exact T]. destruct (negb (is_dir (heap s) d)); [exact T|].
    destruct c; [exact T|]. cbn [fst seth heap]. apply tame_create; [exact T | reflexivity].
  - pose proof (mkdirall_loop_tame b p (heap s) 0 [] perm T) as A.
    destruct (mkdirall_loop b (heap s) p 0 [] perm) as [h e]. exact A.
  - destruct (open_at b (openfile_depth b) (heap s) p fl perm) as [e|h i] eqn:Eo; [exact T|].
    pose proof (open_at_tame _ _ _ _ _ _ _ _ T Eo) as A. cbn [fst heap].
    destruct (f_trunc fl); [apply tame_upd; [intros; split; reflexivity | exact A] | exact A].
  - destruct (open_at b (openfile_depth b) (heap s) p rdwr_create_trunc 438%N) as [e|h i] eqn:Eo; [exact T|].
    pose proof (open_at_tame _ _ _ _ _ _ _ _ T Eo) as A. cbn [fst heap rdwr_create_trunc f_trunc].
    apply tame_upd; [intros; split; reflexivity | exact A].
  - destruct (nth_error (handles s) h) as [hd|]; [|exact T]. destruct (h_open hd); [|exact T].
    repeat match goal with |- context [if ?x then _ else _] => destruct x end; exact T.
  - destruct (nth_error (handles s) h) as [hd|]; [|exact T]. destruct (h_open hd); [|exact T].
    repeat match goal with |- context [if ?x then _ else _] => destruct x end; exact T.
  - destruct (nth_error (handles s) h) as [hd|]; [|exact T]. destruct (h_open hd); [|exact T].
    match goal with |- context [if ?x then _ else _] => destruct x end; [exact T|].
    cbn [fst heap]. apply tame_upd; [intros; split; reflexivity | exact T].
  - destruct (nth_error (handles s) h) as [hd|]; [|exact T]. destruct (h_open hd); [|exact T].
    destruct wh as [|[|[|wh]]]; try exact T; match goal with |- context [if ?x then _ else _] => destruct x end; exact T.
  - destruct (nth_error (handles s) h) as [hd|]; [|exact T]. destruct (h_open hd); exact T.
  - destruct (open_at b (openfile_depth b) (heap s) p rdonly 420%N); exact T.
  - destruct (open_at b (openfile_depth b) (heap s) p rdwr_create_trunc perm) as [e|h i] eqn:Eo; [exact T|].
    pose proof (open_at_tame _ _ _ _ _ _ _ _ T Eo) as A. cbn [fst seth heap].
    apply tame_upd; [intros; split; reflexivity | exact A].
  - destruct (get_node b (heap s) p); [|exact T]. destruct (negb (is_dir (heap s) n)); exact T.
  - destruct (get_node b (heap s) p); exact T.
  - destruct (get_node b (heap s) p); exact T.
  - destruct (m_leaf b (heap s) p) as [[[d nm] c]|e]; [|exact T]. destruct (negb (is_dir (heap s) d)); [exact T|].
    destruct c; [exact T|]. cbn [fst seth heap]. apply tame_create; [exact T|]. exact Ho.
  - destruct (m_leaf b (heap s) new) as [[[d nm] c]|e]; [|exact T]. destruct (negb (is_dir (heap s) d)) eqn:Ed; [exact T|].
    destruct (get_node b (heap s) old) as [t|e]; [|exact T]. destruct c; [exact T|].
    cbn [fst seth heap]. apply tame_add_child, T.
  - destruct (m_leaf b (heap s) p) as [[[d nm] c]|e]; [|exact T]. destruct c; [|exact T]. destruct (is_sym (heap s) n); exact T.
  - destruct (m_leaf b (heap s) p) as [[[d nm] c]|e]; [|exact T]. destruct c; [|exact T].
    cbn [fst seth heap]. apply tame_del_child, T.
  - destruct (get_node b (heap s) p); tame_same T.
  - destruct (get_node b (heap s) p); tame_same T.
  - destruct (get_node b (heap s) p); tame_same T.
  - destruct (m_leaf b (heap s) p) as [[[d nm] c]|e]; [|exact T]. destruct (negb (is_dir (heap s) d)); [exact T|].
    destruct c; [exact T|]. cbn [fst seth heap]. apply tame_create; [exact T | reflexivity].
  - destruct (m_leaf b (heap s) p) as [[[d nm] c]|e]; [|exact T]. destruct c; [|exact T].
    destruct (n_kind (get (heap s) n)); exact T.
  - destruct (get_node b (heap s) p); tame_same T.
  - destruct (get_node b (heap s) p); [|exact T]. destruct (lookup a (n_xattrs (get (heap s) n))); exact T.
  - destruct (get_node b (heap s) p); tame_same T.
  - destruct (get_node b (heap s) p); exact T.
Qed.

Theorem reach_tame : forall b ops, forallb tame_op ops = true -> tame_links (heap (reach b ops)) = true.
Proof.
  intros b ops. unfold reach.
  assert (G : forall ops s, tame_links (heap s) = true -> forallb tame_op ops = true ->
            tame_links (heap (fold_left (fun s o => fst (model_step b s o)) ops s)) = true).
  { induction ops0 as [|o ops0 IH]; intros s T H; cbn [fold_left]; [exact T|].
    cbn [forallb] in H. apply andb_true_iff in H. destruct H as [Ho H]. apply IH; [apply model_step_tame; assumption | exact H]. }
  intro H. apply G; [reflexivity | exact H].
Qed.

(* the refinement for sequences given by their operations alone (plus the weight
   certificate of the state each operation meets) *)
Theorem refines_syntactic_ops : forall b ops o w,
  let s := reach b ops in
  forallb tame_op ops = true -> weights_ok w (heap s) = true -> op_weight w o <= spec_max_links -> dot_ok b o = true ->
  (forall tag, corner b s o = Some tag -> tag = t_link) ->
  model_step b s o = spec_step s o.
Proof.
  intros b ops o w s Hops W Hw D H.
  exact (proj2 (refines_syntactic b s o w (reach_tame b ops Hops) (proj2 (reach_wf b ops)) W Hw D H)).
Qed.
