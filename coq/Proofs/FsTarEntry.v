(* C17 — the tar-entry channel (Model/TarEntry.v): it extends the tree model
   conservatively, and a package-backed file reads as the entry's bytes. *)
From Apko Require Import Base.Prelude Model.MemFS Spec.FsSpec Model.TarEntry Proofs.FsProofs Proofs.FsLaws Proofs.FsWf Proofs.FsAgree Proofs.FsReach Proofs.FsTame Proofs.FsTameOps.
Open Scope string_scope. Open Scope list_scope.

(* without entries and without opener files the step IS the tree model's step *)
Theorem tstep_conservative : forall s o,
  tstep (mkT s [] []) (TOp o) = (mkT (fst (model_step TarFS s o)) [] [], snd (model_step TarFS s o)).
Proof.
  intros s o. cbn [tstep]. unfold t_op, lift, with_rc. cbn [t_base t_te t_rc nlookup].
  assert (L : forall h i, lazy [] h i = None) by reflexivity.
  destruct o; cbn [model_step]; try reflexivity.
  - (* OpenFile *) unfold t_open, m_open. cbn [t_base t_te t_rc]. destruct (open_at TarFS (openfile_depth TarFS) (heap s) p fl perm) as [e|h i]; [reflexivity|].
    rewrite L. assert (K : (if f_trunc fl then kill i [] else []) = @nil (nat * (list N * bool))) by (destruct (f_trunc fl); reflexivity). rewrite K.
    destruct (new_handle h i fl) as [h1 hd]. reflexivity.
  - (* Create *) unfold t_open, m_open. cbn [t_base t_te t_rc]. destruct (open_at TarFS (openfile_depth TarFS) (heap s) p rdwr_create_trunc 438%N) as [e|h i]; [reflexivity|].
    rewrite L. cbn [rdwr_create_trunc f_trunc kill nlookup]. destruct (new_handle h i rdwr_create_trunc) as [h1 hd]. reflexivity.
  - (* Read *) destruct (nth_error (handles s) h) as [hd|]; [destruct (h_open hd)|]; reflexivity.
  - (* ReadAt *) destruct (nth_error (handles s) h) as [hd|]; [destruct (h_open hd)|]; reflexivity.
  - (* Write *) destruct (nth_error (handles s) h) as [hd|]; [destruct (h_open hd)|]; reflexivity.
  - (* Seek *) destruct (nth_error (handles s) h) as [hd|]; [destruct (h_open hd)|]; reflexivity.
  - (* Close *) destruct (with_handle s h (fun _ : handle => (mkSt (heap s) (upd_h (handles s) h set_closed), OOk))) as [s1 r]. destruct r; reflexivity.
  - (* ReadFile *) destruct (open_at TarFS (openfile_depth TarFS) (heap s) p rdonly 420%N) as [e|h i]; [reflexivity|]. rewrite L. reflexivity.
  - (* WriteFile *) destruct (open_at TarFS (openfile_depth TarFS) (heap s) p rdwr_create_trunc perm) as [e|h i]; reflexivity.
  - (* Stat *) unfold with_node, t_info. cbn [t_base t_te]. destruct (get_node TarFS (heap s) p); [rewrite L|]; reflexivity.
  - (* Lstat *) unfold with_node, t_info. cbn [t_base t_te]. destruct (get_node TarFS (heap s) p); [rewrite L|]; reflexivity.
Qed.

(* a package installs a file under a fresh name in the root directory: the file
   reads as the entry's bytes and stats with the entry's size and mode *)
Lemma nlookup_nset {A} : forall k (v : A) l, nlookup k (nset k v l) = Some v.
Proof. intros. unfold nset. cbn [nlookup]. rewrite Nat.eqb_refl. reflexivity. Qed.

Lemma go_base_single : forall nm, clean_name nm = true -> go_base [nm] = nm.
Proof.
  intros nm H. destruct (clean_name_eqb nm H) as [E1 _]. apply (go_base_snoc [] nm E1).
Qed.

Theorem read_after_writeheader : forall ts nm c perm,
  let s := t_base ts in
  clean_name nm = true -> is_dir (heap s) 0 = true -> lookup nm (n_children (get (heap s) 0)) = None -> c <> [] ->
  let ts' := fst (tstep ts (TWriteHeader [nm] c perm)) in
  snd (tstep ts (TWriteHeader [nm] c perm)) = ONum 1%Z /\
  snd (tstep ts' (TOp (ReadFile [nm]))) = OBytes c /\
  snd (tstep ts' (TOp (Stat [nm]))) = OInfo KReg perm (N.of_nat (List.length c)) 0%Z 0%Z None.
Proof.
  intros ts nm c perm s Hn Hr Hl Hc ts'.
  destruct (clean_name_eqb nm Hn) as [E1 [E2 E3]].
  assert (Hb : go_base [nm] = nm) by (apply go_base_single, Hn).
  assert (Hd : go_dir [nm] = ["."]) by reflexivity.
  assert (Hg : forall h, get_node TarFS h ["."] = inl 0) by (intro h; unfold get_node; destruct (getnode_depth TarFS); reflexivity).
  assert (L0 : 0 < List.length (heap s)) by (apply is_dir_in_range, Hr).
  (* the state after WriteHeader *)
  assert (Ets : tstep ts (TWriteHeader [nm] c perm) =
                (mkT (seth s (fst (create (heap s) 0 nm (empty_node KReg perm)))) (nset (List.length (heap s)) (c, true) (t_te ts)) (t_rc ts), ONum 1%Z)).
  { cbn [tstep]. unfold t_writeheader, t_wh. fold s. rewrite Hd, Hg, Hb, Hr, Hl. reflexivity. }
  unfold ts'. rewrite Ets. cbn [fst snd]. split; [reflexivity|].
  set (h' := fst (create (heap s) 0 nm (empty_node KReg perm))).
  set (i := List.length (heap s)).
  assert (Gi : get h' i = empty_node KReg perm) by (apply get_create_new, L0).
  assert (Lk : lookup nm (n_children (get h' 0)) = Some i).
  { unfold h', create, add_child. cbn [fst]. rewrite get_upd_same by (rewrite app_length; simpl; lia).
    cbn [set_children n_children]. apply lookup_set_key. }
  assert (D0 : is_dir h' 0 = true).
  { unfold h'. rewrite root_create by exact L0. exact Hr. }
  assert (Lz : lazy (nset i (c, true) (t_te ts)) h' i = Some c).
  { unfold lazy. rewrite nlookup_nset, Gi. cbn [empty_node n_data]. destruct c; [congruence | reflexivity]. }
  assert (Gn : get_node TarFS h' [nm] = inl i).
  { unfold get_node. assert (Hroot : is_root_path [nm] = false).
    { unfold is_root_path, path_eqb. cbn [list_eqb]. rewrite E1, E2. reflexivity. }
    assert (Si : is_sym h' i = false) by (unfold is_sym; rewrite Gi; reflexivity).
    destruct (getnode_depth TarFS); cbn [get_at]; rewrite Hroot; cbn [get_loop]; rewrite E1, D0, Lk, Si; reflexivity. }
  split.
  - cbn [tstep]. unfold t_op. cbn [t_base t_te t_rc seth heap].
    assert (Eo : open_at TarFS (openfile_depth TarFS) h' [nm] rdonly 420%N = OpNode h' i).
    { rewrite open_at_eq. rewrite Hd, Hg, Hb, D0, Lk. cbn [negb].
      assert (Di : is_dir h' i = false) by (unfold is_dir; rewrite Gi; reflexivity).
      assert (Si : is_sym h' i = false) by (unfold is_sym; rewrite Gi; reflexivity).
      rewrite Di, Si. reflexivity. }
    fold h' i. rewrite Eo, Lz. reflexivity.
  - cbn [tstep]. unfold t_op. cbn [t_base t_te t_rc seth heap]. fold h' i. rewrite Gn.
    unfold t_info. cbn [t_base t_te seth heap snd]. rewrite Lz, Gi. reflexivity.
Qed.

(* ---- directory, symbolic-link and hard-link headers -------------------------------------------- *)
Definition inst_out (r : out) : out := match r with OOk => ONum 1%Z | r => r end.

(* a hard-link header is Link on the tree — the entry and opener tables are untouched, so the new
   name is the SAME inode with the same package entry — and the reference's Link inside its envelope *)
Theorem writeheader_link_is_link : forall ts old new,
  let s := t_base ts in
  tstep ts (TWriteHeaderLink old new) =
    (mkT (fst (model_step TarFS s (Link old new))) (t_te ts) (t_rc ts), inst_out (snd (model_step TarFS s (Link old new)))) /\
  (E TarFS s (Link old new) = true ->
   tstep ts (TWriteHeaderLink old new) =
     (mkT (fst (spec_step s (Link old new))) (t_te ts) (t_rc ts), inst_out (snd (spec_step s (Link old new))))).
Proof.
  intros ts old new s.
  assert (A : tstep ts (TWriteHeaderLink old new) =
    (mkT (fst (model_step TarFS s (Link old new))) (t_te ts) (t_rc ts), inst_out (snd (model_step TarFS s (Link old new))))).
  { cbn [tstep]. unfold t_writeheader_link. fold s. destruct (model_step TarFS s (Link old new)) as [s1 r]. reflexivity. }
  split; [exact A|]. intro HE. rewrite A, (refines TarFS s _ HE). reflexivity.
Qed.

(* a directory header is MkdirAll followed by Chtimes; inside their envelopes: the reference's
   mkdir -p followed by the reference's Chtimes *)
Theorem writeheader_dir_is_mkdirall_chtimes : forall ts p perm t,
  let s := t_base ts in
  E TarFS s (MkdirAll p perm) = true ->
  let s1 := fst (spec_step s (MkdirAll p perm)) in
  (snd (spec_step s (MkdirAll p perm)) = OOk -> E TarFS s1 (Chtimes p t) = true ->
   tstep ts (TWriteHeaderDir p perm t) =
     (mkT (fst (spec_step s1 (Chtimes p t))) (t_te ts) (t_rc ts), inst_out (snd (spec_step s1 (Chtimes p t))))) /\
  (snd (spec_step s (MkdirAll p perm)) <> OOk ->
   tstep ts (TWriteHeaderDir p perm t) = (mkT s1 (t_te ts) (t_rc ts), snd (spec_step s (MkdirAll p perm)))).
Proof.
  intros ts p perm t s HE s1. cbn [tstep]. unfold t_writeheader_dir. fold s. rewrite (refines TarFS s _ HE).
  unfold s1. destruct (spec_step s (MkdirAll p perm)) as [s1' r1]. cbn [fst snd]. split.
  - intros Hr HE2. subst r1. rewrite (refines TarFS s1' _ HE2). destruct (spec_step s1' (Chtimes p t)) as [s2 r2]. reflexivity.
  - intro Hr. destruct r1; try reflexivity. congruence.
Qed.

(* a link header under a fresh name in the root directory, in ANY state: the link is made with the
   header's target, Readlink reads it back, and the same header again is "not installed" and
   changes nothing (apk re-delivers identical links) *)
Theorem symlink_after_writeheader : forall ts nm tgt cid,
  let s := t_base ts in
  clean_name nm = true -> is_dir (heap s) 0 = true -> lookup nm (n_children (get (heap s) 0)) = None ->
  let ts' := fst (tstep ts (TWriteHeaderSym [nm] tgt cid)) in
  snd (tstep ts (TWriteHeaderSym [nm] tgt cid)) = ONum 1%Z /\
  snd (tstep ts' (TOp (Readlink [nm]))) = OPath tgt /\
  tstep ts' (TWriteHeaderSym [nm] tgt cid) = (ts', ONum 0%Z).
Proof.
  intros ts nm tgt cid s Hn Hr Hl ts'.
  destruct (clean_name_eqb nm Hn) as [E1 [E2 E3]].
  assert (Hb : go_base [nm] = nm) by (apply go_base_single, Hn).
  assert (Hd : go_dir [nm] = ["."]) by reflexivity.
  assert (Hg : forall h, get_node TarFS h ["."] = inl 0) by (intro h; unfold get_node; destruct (getnode_depth TarFS); reflexivity).
  assert (L0 : 0 < List.length (heap s)) by (apply is_dir_in_range, Hr).
  set (n := mkNode KSym 511%N 0%Z 0%Z [] None tgt 0%N [] []).
  assert (Rl0 : snd (model_step TarFS s (Readlink [nm])) = OErr ENotExist).
  { cbn [model_step]. unfold with_leaf, m_leaf. rewrite Hd, Hg, Hb, Hl. reflexivity. }
  assert (Ets : tstep ts (TWriteHeaderSym [nm] tgt cid) =
                (mkT (seth s (fst (create (heap s) 0 nm n))) (nset (List.length (heap s)) (cid, false) (t_te ts)) (t_rc ts), ONum 1%Z)).
  { cbn [tstep]. unfold t_writeheader_sym. fold s. rewrite Rl0. unfold t_wh. fold s. rewrite Hd, Hg, Hb, Hr, Hl. reflexivity. }
  unfold ts'. rewrite Ets. cbn [fst snd]. split; [reflexivity|].
  set (h' := fst (create (heap s) 0 nm n)). set (i := List.length (heap s)).
  assert (Gi : get h' i = n) by (apply get_create_new, L0).
  assert (Lk : lookup nm (n_children (get h' 0)) = Some i).
  { unfold h', create, add_child. cbn [fst]. rewrite get_upd_same by (rewrite app_length; simpl; lia).
    cbn [set_children n_children]. apply lookup_set_key. }
  assert (Si : is_sym h' i = true) by (unfold is_sym; rewrite Gi; reflexivity).
  assert (Rl1 : model_step TarFS (seth s h') (Readlink [nm]) = (seth s h', OPath tgt)).
  { cbn [model_step]. unfold with_leaf, m_leaf. cbn [seth heap]. rewrite Hd, Hg, Hb, Lk, Si, Gi. reflexivity. }
  split.
  - cbn [tstep]. unfold t_op, lift. cbn [t_base t_te t_rc]. fold h'. rewrite Rl1. reflexivity.
  - cbn [tstep]. unfold t_writeheader_sym. cbn [t_base]. fold h'. rewrite Rl1. cbn [snd].
    unfold path_eqb. rewrite (list_eqb_refl String.eqb String.eqb_refl). reflexivity.
Qed.
