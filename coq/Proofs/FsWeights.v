(* C17 — the weight certificate of Proofs/FsTameOps.v along operation sequences.

   [weights_ok w h] (a name under which a symbolic link is entered weighs more
   than the link's whole target) was a premise on the STATE an operation meets.
   Here: for a weight [w] fixed in advance it is preserved by every step of the
   code's model, inside the envelope or not, provided every Symlink operation
   itself respects [w] ([wt_op w], a boolean on the operation: the NAME the link
   is entered under, filepath.Base of its path, weighs more than its target).
   Entries are otherwise only added for fresh directories / files / devices
   (never links), by Link for the node getNode returns (never a link: getNode
   follows the last link too), or removed; no step changes the kind or the
   target of an existing inode.

   Hence the refinement for EVERY finite sequence of operations taken from a
   class that is defined on the operations' syntax alone ([op_in_class b w]):
   the link-agreement clause of the envelope never fails first, at any step; the
   sequence either runs exactly as the reference does, or its first departure is
   one of the operation corners recorded with their own tags. *)
From Apko Require Import Base.Prelude Model.MemFS Spec.FsSpec Proofs.FsProofs Proofs.FsLaws Proofs.FsWf Proofs.FsAgree Proofs.FsReach Proofs.FsTame Proofs.FsTameOps Proofs.FsTameReach.
Open Scope string_scope. Open Scope list_scope.

Definition wt_op (w : string -> nat) (o : op) : bool :=
  match o with Symlink tgt p => Nat.leb (S (pw w tgt)) (w (go_base p)) | _ => true end.

(* the certificate as a proposition about entries *)
Definition WOK (w : string -> nat) (h : list node) : Prop :=
  forall d nm i, In (nm, i) (n_children (get h d)) -> is_sym h i = true ->
    S (pw w (n_target (get h i))) <= w nm.

Lemma weights_ok_WOK : forall w h, weights_ok w h = true <-> WOK w h.
Proof.
  intros w h. unfold weights_ok, WOK. split.
  - intros H d nm i Hin Hs.
    destruct (Nat.lt_ge_cases d (List.length h)) as [L|L].
    + rewrite forallb_forall in H. specialize (H (get h d) (nth_In _ _ L)).
      rewrite forallb_forall in H. specialize (H (nm, i) Hin). unfold entry_ok in H. cbn [fst snd] in H.
      rewrite Hs in H. apply Nat.leb_le in H. exact H.
    + rewrite get_default_children in Hin by exact L. destruct Hin.
  - intros H. apply forallb_forall. intros n Hn. apply forallb_forall. intros [nm i] Hin.
    destruct (In_nth _ _ (empty_node KReg 0%N) Hn) as [d [Ld Ed]].
    unfold entry_ok. cbn [fst snd]. destruct (is_sym h i) eqn:Hs; [|reflexivity].
    apply Nat.leb_le. apply (H d nm i); [|exact Hs]. unfold get. rewrite Ed. exact Hin.
Qed.

(* ---- heap primitives ------------------------------------------------------------------------ *)
Lemma upd_kt : forall h d f i, (forall n, n_kind (f n) = n_kind n /\ n_target (f n) = n_target n) ->
  n_kind (get (upd h d f) i) = n_kind (get h i) /\ n_target (get (upd h d f) i) = n_target (get h i).
Proof.
  intros h d f i Hf. destruct (Nat.eq_dec d i) as [->|Hne].
  - destruct (Nat.lt_ge_cases i (List.length h)) as [L|L].
    + rewrite get_upd_same by exact L. apply Hf.
    + rewrite upd_out_of_range by exact L. split; reflexivity.
  - rewrite get_upd_other by exact Hne. split; reflexivity.
Qed.

Lemma wok_upd : forall w h d f,
  (forall n, n_kind (f n) = n_kind n /\ n_target (f n) = n_target n) ->
  (forall nm i, In (nm, i) (n_children (f (get h d))) ->
     In (nm, i) (n_children (get h d)) \/ (is_sym h i = true -> S (pw w (n_target (get h i))) <= w nm)) ->
  WOK w h -> WOK w (upd h d f).
Proof.
  intros w h d f Hf Hc W d' nm i Hin Hs.
  destruct (upd_kt h d f i Hf) as [K T]. unfold is_sym in Hs. rewrite K in Hs. rewrite T.
  destruct (Nat.eq_dec d d') as [->|Hne].
  - destruct (Nat.lt_ge_cases d' (List.length h)) as [L|L].
    + rewrite get_upd_same in Hin by exact L. destruct (Hc nm i Hin) as [H|H].
      * exact (W d' nm i H Hs).
      * exact (H Hs).
    + rewrite upd_out_of_range in Hin by exact L. exact (W d' nm i Hin Hs).
  - rewrite get_upd_other in Hin by exact Hne. exact (W d' nm i Hin Hs).
Qed.

Lemma wok_upd_same : forall w h d f,
  (forall n, n_kind (f n) = n_kind n /\ n_target (f n) = n_target n /\ n_children (f n) = n_children n) ->
  WOK w h -> WOK w (upd h d f).
Proof.
  intros w h d f Hf W. apply wok_upd; [intro n; split; apply Hf | | exact W].
  intros nm i Hin. left. rewrite (proj2 (proj2 (Hf _))) in Hin. exact Hin.
Qed.

Lemma wok_app : forall w h n, wfh h -> n_children n = [] -> WOK w h -> WOK w (h ++ [n]).
Proof.
  intros w h n [W1 W2] Hn W d nm i Hin Hs.
  destruct (Nat.lt_ge_cases d (List.length h)) as [L|L].
  - rewrite get_app_old in Hin by exact L. pose proof (W2 d nm i Hin) as Li.
    unfold is_sym in Hs. rewrite get_app_old in Hs by exact Li. rewrite get_app_old by exact Li.
    exact (W d nm i Hin Hs).
  - exfalso. destruct (Nat.eq_dec d (List.length h)) as [->|Hne].
    + unfold get in Hin. rewrite nth_middle, Hn in Hin. destruct Hin.
    + rewrite get_default_children in Hin by (rewrite app_length; simpl; lia). destruct Hin.
Qed.

Lemma wok_create : forall w h d nm n, wfh h -> n_children n = [] ->
  match n_kind n with KSym => S (pw w (n_target n)) <= w nm | _ => True end ->
  WOK w h -> WOK w (fst (create h d nm n)).
Proof.
  intros w h d nm n Wf Hn Hw W. unfold create, add_child. cbn [fst].
  apply wok_upd; [intros; split; reflexivity | | apply wok_app; assumption].
  intros nm' i Hin. cbn [set_children n_children] in Hin. apply In_set_key in Hin.
  destruct Hin as [Hin|Hin]; [|left; exact Hin].
  inversion Hin; subst nm' i. right. intro Hs.
  assert (G : get (h ++ [n]) (List.length h) = n) by (unfold get; apply nth_middle).
  unfold is_sym in Hs. rewrite G in Hs |- *. destruct (n_kind n); try discriminate Hs. exact Hw.
Qed.

Lemma wok_add_child : forall w h d nm t, is_sym h t = false -> WOK w h -> WOK w (add_child h d nm t).
Proof.
  intros w h d nm t Ht W. unfold add_child. apply wok_upd; [intros; split; reflexivity | | exact W].
  intros nm' i Hin. cbn [set_children n_children] in Hin. apply In_set_key in Hin.
  destruct Hin as [Hin|Hin]; [|left; exact Hin].
  inversion Hin; subst nm' i. right. intro Hs. congruence.
Qed.

Lemma wok_del_child : forall w h d nm, WOK w h -> WOK w (del_child h d nm).
Proof.
  intros w h d nm W. unfold del_child. apply wok_upd; [intros; split; reflexivity | | exact W].
  intros nm' i Hin. cbn [set_children n_children] in Hin. left. eapply In_remove_key, Hin.
Qed.

(* ---- getNode never returns a symbolic link ---------------------------------------------------- *)
Lemma get_loop_nosym : forall h (rec : path -> eres nat),
  (forall p i, rec p = inl i -> is_sym h i = false) ->
  forall parts c trav i, is_sym h c = false -> get_loop rec h parts c trav = inl i -> is_sym h i = false.
Proof.
  intros h rec Hrec. induction parts as [|part rest IH]; intros c trav i Hc H; cbn [get_loop] in H.
  - inversion H; subst; exact Hc.
  - destruct (String.eqb part ""); [eapply IH; eassumption|].
    destruct (negb (is_dir h c)); [discriminate|].
    destruct (lookup part (n_children (get h c))) as [x|] eqn:El; [|discriminate].
    destruct (is_sym h x) eqn:Es.
    + match type of H with context [rec ?t] => destruct (rec t) as [tn|e] eqn:Er end; [|discriminate].
      eapply IH; [|exact H]. eapply Hrec, Er.
    + eapply IH; [|exact H]. exact Es.
Qed.
Lemma get_at_nosym : forall h, is_sym h 0 = false -> forall d p i, get_at d h p = inl i -> is_sym h i = false.
Proof.
  intros h R. induction d as [|d IH]; intros p i H; cbn [get_at] in H.
  - destruct (is_root_path p); [inversion H; subst; exact R|].
    eapply (get_loop_nosym h _); [|exact R|exact H]. intros q j Hq; discriminate.
  - destruct (is_root_path p); [inversion H; subst; exact R|].
    eapply (get_loop_nosym h _); [|exact R|exact H]. exact IH.
Qed.
Lemma is_dir_not_sym : forall h c, is_dir h c = true -> is_sym h c = false.
Proof. intros h c. unfold is_sym, is_dir. destruct (n_kind (get h c)); congruence. Qed.

(* ---- openFile, MkdirAll ----------------------------------------------------------------------- *)
Lemma open_at_wok : forall w b d h name fl perm h' i, wfh h -> WOK w h ->
  open_at b d h name fl perm = OpNode h' i -> WOK w h'.
Proof.
  intros w b. induction d as [|d IH]; intros h name fl perm h' i Wf W H; rewrite open_at_eq in H;
    destruct (get_node b h (go_dir name)) as [pi|e]; try discriminate;
    destruct (negb (is_dir h pi)); try discriminate;
    (destruct (lookup (go_base name) (n_children (get h pi))) as [c|];
     [ destruct (is_dir h c); [discriminate|]
     | destruct (f_creat fl);
       [ pose proof (wok_create w h pi (go_base name) (empty_node KReg perm) Wf eq_refl I W) as A;
         destruct (create h pi (go_base name) (empty_node KReg perm)) as [h1 i1]; cbn [fst] in A; inversion H; subst; exact A
       | destruct b; [discriminate|]; destruct (path_eqb (go_dir name) name); [|discriminate]; inversion H; subst; exact W ] ]).
  - destruct (is_sym h c); [discriminate|]. inversion H; subst; exact W.
  - destruct (is_sym h c); [|inversion H; subst; exact W]. eapply IH; eassumption.
Qed.

Lemma mkdirall_loop_wok : forall w b parts h c trav perm, wfh h -> WOK w h ->
  WOK w (fst (mkdirall_loop b h parts c trav perm)).
Proof.
  intros w b. induction parts as [|part rest IH]; intros h c trav perm Wf W; cbn [mkdirall_loop]; cbv zeta; [exact W|].
  destruct (String.eqb part "" || match b with MemFS => String.eqb part "." | TarFS => false end); [apply IH; assumption|].
  destruct (lookup part (n_children (get h c))) as [x|].
  - destruct (if is_sym h x then _ else _) as [nn'|e]; [|exact W].
    destruct (negb (is_dir h nn')); [exact W | apply IH; assumption].
  - pose proof (wok_create w h c part (empty_node KDir perm) Wf eq_refl I W) as A.
    destruct (wfh_create h c part (empty_node KDir perm) Wf eq_refl) as [Wf1 _].
    destruct (create h c part (empty_node KDir perm)) as [h1 nn]. cbn [fst] in A, Wf1.
    destruct (if is_sym h1 nn then _ else _) as [nn'|e]; [|exact A].
    destruct (negb (is_dir h1 nn')); [exact A | apply IH; assumption].
Qed.

(* ---- every step of the model keeps the certificate ----------------------------------------------- *)
Ltac wok_same W :=
  first [ exact W
        | cbn [fst seth heap]; apply wok_upd_same; [intros; repeat split; reflexivity | exact W] ].

Theorem model_step_wok : forall b s o w, wf s -> wt_op w o = true -> WOK w (heap s) ->
  WOK w (heap (fst (model_step b s o))).
Proof.
  intros b s o w Wf Ho W. pose proof Wf as [[Wh WH] Hr].
  destruct o; cbn [model_step]; unfold with_leaf, with_node, with_node_ne, with_handle, enter_new, m_open, new_handle.
  - (* Mkdir *)
    destruct (m_leaf b (heap s) p) as [[[d nm] c]|e]; [|exact W]. destruct (negb (is_dir (heap s) d)); [exact W|].
    destruct c; [exact W|]. cbn [fst seth heap]. apply wok_create; [exact Wh | reflexivity | exact I | exact W].
  - (* MkdirAll *)
    pose proof (mkdirall_loop_wok w b p (heap s) 0 [] perm Wh W) as A.
    destruct (mkdirall_loop b (heap s) p 0 [] perm) as [h e]. exact A.
  - (* OpenFile *)
    destruct (open_at b (openfile_depth b) (heap s) p fl perm) as [e|h i] eqn:Eo; [exact W|].
    pose proof (open_at_wok _ _ _ _ _ _ _ _ _ Wh W Eo) as A. cbn [fst heap].
    destruct (f_trunc fl); [apply wok_upd_same; [intros; repeat split; reflexivity | exact A] | exact A].
  - (* Create *)
    destruct (open_at b (openfile_depth b) (heap s) p rdwr_create_trunc 438%N) as [e|h i] eqn:Eo; [exact W|].
    pose proof (open_at_wok _ _ _ _ _ _ _ _ _ Wh W Eo) as A. cbn [fst heap rdwr_create_trunc f_trunc].
    apply wok_upd_same; [intros; repeat split; reflexivity | exact A].
  - (* Read *)
    destruct (nth_error (handles s) h) as [hd|]; [|exact W]. destruct (h_open hd); [|exact W].
    repeat match goal with |- context [if ?x then _ else _] => destruct x end; exact W.
  - (* ReadAt *)
    destruct (nth_error (handles s) h) as [hd|]; [|exact W]. destruct (h_open hd); [|exact W].
    repeat match goal with |- context [if ?x then _ else _] => destruct x end; exact W.
  - (* Write *)
    destruct (nth_error (handles s) h) as [hd|]; [|exact W]. destruct (h_open hd); [|exact W].
    match goal with |- context [if ?x then _ else _] => destruct x end; [exact W|].
    cbn [fst heap]. apply wok_upd_same; [intros; repeat split; reflexivity | exact W].
  - (* Seek *)
    destruct (nth_error (handles s) h) as [hd|]; [|exact W]. destruct (h_open hd); [|exact W].
    destruct wh as [|[|[|wh]]]; try exact W; match goal with |- context [if ?x then _ else _] => destruct x end; exact W.
  - (* Close *)
    destruct (nth_error (handles s) h) as [hd|]; [|exact W]. destruct (h_open hd); exact W.
  - (* ReadFile *)
    destruct (open_at b (openfile_depth b) (heap s) p rdonly 420%N); exact W.
  - (* WriteFile *)
    destruct (open_at b (openfile_depth b) (heap s) p rdwr_create_trunc perm) as [e|h i] eqn:Eo; [exact W|].
    pose proof (open_at_wok _ _ _ _ _ _ _ _ _ Wh W Eo) as A. cbn [fst seth heap].
    apply wok_upd_same; [intros; repeat split; reflexivity | exact A].
  - (* ReadDir *)
    destruct (get_node b (heap s) p); [|exact W]. destruct (negb (is_dir (heap s) n)); exact W.
  - (* Stat *) destruct (get_node b (heap s) p); exact W.
  - (* Lstat *) destruct (get_node b (heap s) p); exact W.
  - (* Symlink: the one step that enters a link, under filepath.Base of its path *)
    destruct (m_leaf b (heap s) p) as [[[d nm] c]|e] eqn:El; [|exact W]. destruct (negb (is_dir (heap s) d)); [exact W|].
    destruct c; [exact W|]. cbn [fst seth heap]. apply wok_create; [exact Wh | reflexivity | | exact W].
    cbn [n_kind n_target]. cbn [wt_op] in Ho. apply Nat.leb_le in Ho.
    unfold m_leaf in El. destruct (get_node b (heap s) (go_dir p)); [|discriminate]. inversion El; subst. exact Ho.
  - (* Link: the node getNode returns is never a link *)
    destruct (m_leaf b (heap s) new) as [[[d nm] c]|e]; [|exact W]. destruct (negb (is_dir (heap s) d)) eqn:Ed; [exact W|].
    destruct (get_node b (heap s) old) as [t|e] eqn:En; [|exact W]. destruct c; [exact W|].
    cbn [fst seth heap]. apply wok_add_child; [|exact W].
    unfold get_node in En. eapply get_at_nosym; [apply is_dir_not_sym, Hr | exact En].
  - (* Readlink *)
    destruct (m_leaf b (heap s) p) as [[[d nm] c]|e]; [|exact W]. destruct c; [|exact W]. destruct (is_sym (heap s) n); exact W.
  - (* Remove *)
    destruct (m_leaf b (heap s) p) as [[[d nm] c]|e]; [|exact W]. destruct c; [|exact W].
    cbn [fst seth heap]. apply wok_del_child, W.
  - (* Chmod *) destruct (get_node b (heap s) p); wok_same W.
  - (* Chown *) destruct (get_node b (heap s) p); wok_same W.
  - (* Chtimes *) destruct (get_node b (heap s) p); wok_same W.
  - (* Mknod *)
    destruct (m_leaf b (heap s) p) as [[[d nm] c]|e]; [|exact W]. destruct (negb (is_dir (heap s) d)); [exact W|].
    destruct c; [exact W|]. cbn [fst seth heap]. apply wok_create; [exact Wh | reflexivity | exact I | exact W].
  - (* Readnod *)
    destruct (m_leaf b (heap s) p) as [[[d nm] c]|e]; [|exact W]. destruct c; [|exact W].
    destruct (n_kind (get (heap s) n)); exact W.
  - (* SetXattr *) destruct (get_node b (heap s) p); wok_same W.
  - (* GetXattr *)
    destruct (get_node b (heap s) p); [|exact W]. destruct (lookup a (n_xattrs (get (heap s) n))); exact W.
  - (* RemoveXattr *) destruct (get_node b (heap s) p); wok_same W.
  - (* ListXattrs *) destruct (get_node b (heap s) p); exact W.
Qed.

Theorem model_step_weights : forall b s o w, wf s -> wt_op w o = true -> weights_ok w (heap s) = true ->
  weights_ok w (heap (fst (model_step b s o))) = true.
Proof. intros b s o w Wf Ho W. apply weights_ok_WOK. apply model_step_wok; [exact Wf | exact Ho | apply weights_ok_WOK, W]. Qed.

Lemma fold_weights : forall b w ops s, wf s -> weights_ok w (heap s) = true -> forallb (wt_op w) ops = true ->
  weights_ok w (heap (fold_left (fun s o => fst (model_step b s o)) ops s)) = true.
Proof.
  intros b w. induction ops as [|o ops IH]; intros s Wf W H; cbn [fold_left]; [exact W|].
  cbn [forallb] in H. apply andb_true_iff in H. destruct H as [Ho H].
  apply IH; [apply model_step_wf, Wf | apply model_step_weights; assumption | exact H].
Qed.
Theorem reach_weights : forall b w ops, forallb (wt_op w) ops = true -> weights_ok w (heap (reach b ops)) = true.
Proof. intros b w ops H. unfold reach. apply fold_weights; [exact init_wf_model | reflexivity | exact H]. Qed.

(* ---- the refinement for sequences given by their syntax alone --------------------------------- *)
Definition op_in_class (b : backend) (w : string -> nat) (o : op) : bool :=
  tame_op o && wt_op w o && Nat.leb (op_weight w o) spec_max_links && dot_ok b o.

Lemma class_split : forall b w ops, forallb (op_in_class b w) ops = true ->
  forallb tame_op ops = true /\ forallb (wt_op w) ops = true.
Proof.
  intros b w. induction ops as [|o ops IH]; intro H; [split; reflexivity|].
  cbn [forallb] in *. apply andb_true_iff in H. destruct H as [Ho H]. destruct (IH H) as [A B].
  unfold op_in_class in Ho. apply andb_true_iff in Ho. destruct Ho as [Ho _]. apply andb_true_iff in Ho. destruct Ho as [Ho _].
  apply andb_true_iff in Ho. destruct Ho as [H1 H2]. rewrite H1, H2, A, B. split; reflexivity.
Qed.

(* one step after ANY prefix (corners included) of operations in the class: the
   link-agreement clause does not fail first — the step is the reference's, or
   the first failing clause of the envelope is one of the other, named corners *)
Theorem refines_class_step : forall b w pre o,
  forallb tame_op pre = true -> forallb (wt_op w) pre = true ->
  op_weight w o <= spec_max_links -> dot_ok b o = true ->
  let s := reach b pre in
  (corner b s o = None /\ model_step b s o = spec_step s o) \/
  (exists tag, corner b s o = Some tag /\ tag <> t_link).
Proof.
  intros b w pre o Ht Hw Hb Hd s.
  destruct (corner b s o) as [tag|] eqn:Ec.
  - right. exists tag. split; [reflexivity|]. intro Et. subst tag.
    assert (HE : E b s o = true).
    { apply (refines_syntactic b s o w (reach_tame b pre Ht) (proj2 (reach_wf b pre)) (reach_weights b w pre Hw) Hb Hd).
      intros tag H. rewrite Ec in H. inversion H. reflexivity. }
    unfold E in HE. rewrite Ec in HE. discriminate HE.
  - left. split; [reflexivity|]. apply refines. unfold E. rewrite Ec. reflexivity.
Qed.

Lemma reach_snoc : forall b pre o, reach b (pre ++ [o]) = fst (model_step b (reach b pre) o).
Proof. intros. unfold reach. rewrite fold_left_app. reflexivity. Qed.

Lemma class_app : forall b w a c, forallb (op_in_class b w) (a ++ c) = forallb (op_in_class b w) a && forallb (op_in_class b w) c.
Proof. intros. apply forallb_app. Qed.

Lemma refines_class_from : forall b w ops pre,
  forallb (op_in_class b w) pre = true -> forallb (op_in_class b w) ops = true ->
  model_run b (reach b pre) ops = spec_run (reach b pre) ops \/
  exists mid o post tag, ops = mid ++ o :: post /\
    model_run b (reach b pre) mid = spec_run (reach b pre) mid /\
    corner b (reach b (pre ++ mid)) o = Some tag /\ tag <> t_link.
Proof.
  intros b w. induction ops as [|o ops IH]; intros pre Hp Ho; [left; reflexivity|].
  cbn [forallb] in Ho. apply andb_true_iff in Ho. destruct Ho as [Hc Ho].
  destruct (class_split b w pre Hp) as [Ht Hw].
  pose proof Hc as Hc'. unfold op_in_class in Hc'. apply andb_true_iff in Hc'. destruct Hc' as [Hc' Hd].
  apply andb_true_iff in Hc'. destruct Hc' as [_ Hb]. apply Nat.leb_le in Hb.
  destruct (refines_class_step b w pre o Ht Hw Hb Hd) as [[_ Es]|[tag [Ec Et]]].
  - assert (Hp' : forallb (op_in_class b w) (pre ++ [o]) = true).
    { rewrite class_app, Hp. cbn [forallb]. rewrite Hc. reflexivity. }
    specialize (IH (pre ++ [o]) Hp' Ho). rewrite reach_snoc in IH.
    cbn [model_run spec_run]. rewrite <- Es.
    destruct (model_step b (reach b pre) o) as [s1 r] eqn:Em. cbn [fst] in IH.
    destruct IH as [IH|[mid [o' [post [tag [E1 [E2 [E3 E4]]]]]]]].
    + left. rewrite IH. reflexivity.
    + right. exists (o :: mid), o', post, tag. split; [rewrite E1; reflexivity|]. split.
      * cbn [model_run spec_run]. rewrite <- Es, Em, E2. reflexivity.
      * split; [|exact E4]. rewrite <- app_assoc in E3. exact E3.
  - right. exists [], o, ops, tag. split; [reflexivity|]. split; [reflexivity|]. rewrite app_nil_r. split; assumption.
Qed.

(* EVERY finite sequence of operations of the class, from the empty filesystem *)
Theorem refines_sequences : forall b w ops, forallb (op_in_class b w) ops = true ->
  (forall pre o post, ops = pre ++ o :: post -> corner b (reach b pre) o <> Some t_link) /\
  (model_run b init_st ops = spec_run init_st ops \/
   exists pre o post tag, ops = pre ++ o :: post /\
     model_run b init_st pre = spec_run init_st pre /\
     corner b (reach b pre) o = Some tag /\ tag <> t_link).
Proof.
  intros b w ops H. split.
  - intros pre o post E1. subst ops. rewrite class_app in H. apply andb_true_iff in H. destruct H as [Hp Ho].
    cbn [forallb] in Ho. apply andb_true_iff in Ho. destruct Ho as [Hc _].
    destruct (class_split b w pre Hp) as [Ht Hw].
    unfold op_in_class in Hc. apply andb_true_iff in Hc. destruct Hc as [Hc Hd].
    apply andb_true_iff in Hc. destruct Hc as [_ Hb]. apply Nat.leb_le in Hb.
    destruct (refines_class_step b w pre o Ht Hw Hb Hd) as [[Ec _]|[tag [Ec Et]]]; rewrite Ec; [discriminate|].
    intro X. inversion X. contradiction.
  - exact (refines_class_from b w ops [] eq_refl H).
Qed.
