(* C17 — well-formedness of the states reached from the empty filesystem:
   every inode number stored in a directory entry or in an open handle exists.
   Preserved by every step of the reference; it discharges the "inode number in
   range" premises of the read-after-write and metadata laws. *)
From Apko Require Import Base.Prelude Model.MemFS Spec.FsSpec Proofs.FsProofs Proofs.FsLaws.
Open Scope string_scope. Open Scope list_scope.

Definition wfh (h : list node) : Prop :=
  0 < List.length h /\ forall j nm c, In (nm, c) (n_children (get h j)) -> c < List.length h.
Definition wfs (s : st) : Prop :=
  wfh (heap s) /\ Forall (fun hd => h_ino hd < List.length (heap s)) (handles s).
Definition in_range (h : list node) (st : list nat) : Prop := Forall (fun i => i < List.length h) st.

(* ---- list facts ---------------------------------------------------------------------- *)
Lemma lookup_In {A} k : forall (l : list (string * A)) v, lookup k l = Some v -> In (k, v) l.
Proof.
  induction l as [|[k' v'] l IH]; simpl; intros v H; [discriminate|].
  destruct (String.eqb k k') eqn:E.
  - apply String.eqb_eq in E. inversion H; subst. left; reflexivity.
  - right. apply IH, H.
Qed.
Lemma In_remove_key {A} k : forall (l : list (string * A)) x, In x (remove_key k l) -> In x l.
Proof.
  induction l as [|[k' v'] l IH]; simpl; intros x H; [exact H|].
  destruct (String.eqb k k'); [right; apply IH, H|]. destruct H as [H|H]; [left; exact H | right; apply IH, H].
Qed.
Lemma In_set_key {A} k (v : A) l x : In x (set_key k v l) -> x = (k, v) \/ In x l.
Proof.
  unfold set_key. intro H. apply in_app_or in H. destruct H as [H|[H|[]]].
  - right. eapply In_remove_key, H.
  - left. symmetry; exact H.
Qed.
Lemma upd_length : forall h i f, List.length (upd h i f) = List.length h.
Proof. induction h as [|x h IH]; intros [|i] f; simpl; try reflexivity. f_equal. apply IH. Qed.
Lemma get_default_children : forall h j, List.length h <= j -> n_children (get h j) = [].
Proof. intros h j H. unfold get. rewrite nth_overflow by exact H. reflexivity. Qed.
Lemma Forall_upd_h : forall (P : handle -> Prop) l i f,
  (forall x, P x -> P (f x)) -> Forall P l -> Forall P (upd_h l i f).
Proof.
  intros P. induction l as [|x l IH]; intros [|i] f Hf H; simpl; try exact H; inversion H; subst; constructor; auto.
Qed.

(* ---- heap primitives preserve wfh ------------------------------------------------------ *)
Lemma wfh_upd : forall h i f, (forall n, n_children (f n) = n_children n) -> wfh h -> wfh (upd h i f).
Proof.
  intros h i f Hf [W1 W2]. split; [rewrite upd_length; exact W1|].
  intros j nm c Hin. rewrite upd_length. destruct (Nat.eq_dec i j) as [->|Hne].
  - destruct (Nat.lt_ge_cases j (List.length h)) as [Hl|Hl].
    + rewrite get_upd_same in Hin by exact Hl. rewrite Hf in Hin. eapply W2, Hin.
    + rewrite upd_out_of_range in Hin by exact Hl. eapply W2, Hin.
  - rewrite get_upd_other in Hin by exact Hne. eapply W2, Hin.
Qed.
Lemma wfh_add_child : forall h d nm t, wfh h -> t < List.length h -> wfh (add_child h d nm t).
Proof.
  intros h d nm t [W1 W2] Ht. unfold add_child. split; [rewrite upd_length; exact W1|].
  intros j k c Hin. rewrite upd_length. destruct (Nat.eq_dec d j) as [->|Hne].
  - destruct (Nat.lt_ge_cases j (List.length h)) as [Hl|Hl].
    + rewrite get_upd_same in Hin by exact Hl. cbn [set_children n_children] in Hin.
      apply In_set_key in Hin. destruct Hin as [Hin|Hin]; [inversion Hin; subst; exact Ht | eapply W2, Hin].
    + rewrite upd_out_of_range in Hin by exact Hl. eapply W2, Hin.
  - rewrite get_upd_other in Hin by exact Hne. eapply W2, Hin.
Qed.
Lemma wfh_del_child : forall h d nm, wfh h -> wfh (del_child h d nm).
Proof.
  intros h d nm [W1 W2]. unfold del_child. split; [rewrite upd_length; exact W1|].
  intros j k c Hin. rewrite upd_length. destruct (Nat.eq_dec d j) as [->|Hne].
  - destruct (Nat.lt_ge_cases j (List.length h)) as [Hl|Hl].
    + rewrite get_upd_same in Hin by exact Hl. cbn [set_children n_children] in Hin.
      apply In_remove_key in Hin. eapply W2, Hin.
    + rewrite upd_out_of_range in Hin by exact Hl. eapply W2, Hin.
  - rewrite get_upd_other in Hin by exact Hne. eapply W2, Hin.
Qed.
Lemma wfh_app : forall h n, wfh h -> n_children n = [] -> wfh (h ++ [n]).
Proof.
  intros h n [W1 W2] Hn. split; [rewrite app_length; simpl; lia|].
  intros j nm c Hin. rewrite app_length; simpl.
  destruct (Nat.lt_ge_cases j (List.length h)) as [Hl|Hl].
  - unfold get in Hin. rewrite app_nth1 in Hin by exact Hl. apply W2 in Hin. lia.
  - destruct (Nat.eq_dec j (List.length h)) as [->|Hne].
    + unfold get in Hin. rewrite nth_middle in Hin. rewrite Hn in Hin. destruct Hin.
    + rewrite get_default_children in Hin by (rewrite app_length; simpl; lia). destruct Hin.
Qed.
Lemma wfh_create : forall h d nm n, wfh h -> n_children n = [] ->
  wfh (fst (create h d nm n)) /\ List.length (fst (create h d nm n)) = S (List.length h) /\
  snd (create h d nm n) = List.length h.
Proof.
  intros h d nm n W Hn. unfold create. cbn [fst snd]. split; [|split; [|reflexivity]].
  - apply wfh_add_child; [apply wfh_app; assumption | rewrite app_length; simpl; lia].
  - unfold add_child. rewrite upd_length, app_length. simpl. lia.
Qed.

(* ---- resolution stays inside the heap --------------------------------------------------- *)
Lemma cur_in_range : forall h st, wfh h -> in_range h st -> cur st < List.length h.
Proof. intros h [|i st] [W1 _] H; simpl; [exact W1 | inversion H; assumption]. Qed.
Lemma pop_in_range : forall h st, in_range h st -> in_range h (pop st).
Proof. intros h [|a [|b st]] H; simpl; try exact H. inversion H; assumption. Qed.

Definition wres_ok (h : list node) (w : wres) : Prop :=
  match w with
  | WEnd (RFound st _) | WEnd (RMissing st _) | WLink st _ _ => in_range h st
  | WEnd (RErr _) => True
  end.
Definition rres_ok (h : list node) (r : rres) : Prop :=
  match r with RFound st _ | RMissing st _ => in_range h st | RErr _ => True end.

Lemma s_walk_range : forall h, wfh h -> forall p st nm f, in_range h st -> wres_ok h (s_walk h st nm p f).
Proof.
  intros h W. induction p as [|c rest IH]; intros st nm f Hs; cbn [s_walk]; [exact Hs|].
  destruct (String.eqb c ""); [apply IH, Hs|].
  destruct (negb (is_dir h (cur st))); [exact I|].
  destruct (String.eqb c "."); [apply IH, Hs|].
  destruct (String.eqb c ".."); [apply IH, pop_in_range, Hs|].
  destruct (lookup c (n_children (get h (cur st)))) as [i|] eqn:El.
  - destruct (is_sym h i && (f || match rest with [] => false | _ => true end)); [exact Hs|].
    apply IH. constructor; [|exact Hs]. destruct W as [_ W2]. eapply W2, lookup_In, El.
  - destruct rest; [exact Hs | exact I].
Qed.
Lemma s_resolve_range : forall h, wfh h -> forall n st nm p f, in_range h st -> rres_ok h (s_resolve n h st nm p f).
Proof.
  intros h W. induction n as [|n IH]; intros st nm p f Hs; cbn [s_resolve];
    pose proof (s_walk_range h W p st nm f Hs) as Hw; destruct (s_walk h st nm p f) as [r|st' tgt rest].
  - destruct r; exact Hw.
  - exact I.
  - destruct r; exact Hw.
  - destruct (path_eqb tgt [""]); [exact I|]. apply IH.
    destruct (rooted tgt); [constructor; [apply W | constructor] | exact Hw].
Qed.
Lemma s_path_range : forall h, wfh h -> forall p f, rres_ok h (s_path h p f).
Proof.
  intros h W p f. unfold s_path. destruct (path_eqb p [""]); [exact I|].
  apply s_resolve_range; [exact W | constructor; [apply W | constructor]].
Qed.
Lemma s_node_range : forall h p i, wfh h -> s_node h p = inl i -> i < List.length h.
Proof.
  intros h p i W H. unfold s_node in H. pose proof (s_path_range h W p true) as R.
  destruct (s_path h p true); inversion H; subst. apply cur_in_range; assumption.
Qed.
Lemma s_lnode_range : forall h p i, wfh h -> s_lnode h p = inl i -> i < List.length h.
Proof.
  intros h p i W H. unfold s_lnode in H. pose proof (s_path_range h W p false) as R.
  destruct (s_path h p false); inversion H; subst. apply cur_in_range; assumption.
Qed.
Lemma s_leaf_range : forall h p d nm c, wfh h -> s_leaf h p = inl (d, nm, c) ->
  d < List.length h /\ forall x, c = Some x -> x < List.length h.
Proof.
  intros h p d nm c W H. unfold s_leaf in H. pose proof (s_path_range h W p false) as R.
  destruct (s_path h p false) as [st o|st o|e]; try discriminate.
  - destruct st as [|a [|b st]]; try discriminate. destruct o; try discriminate. inversion H; subst.
    cbn [rres_ok] in R. inversion R as [|? ? Ha R']; subst. inversion R'; subst.
    split; [assumption|]. intros x Hx; inversion Hx; subst; assumption.
  - inversion H; subst. split; [apply cur_in_range; assumption | intros x Hx; discriminate].
Qed.

(* ---- every step of the reference preserves wfs -------------------------------------------- *)
Lemma in_range_mono : forall h h' st, List.length h <= List.length h' -> in_range h st -> in_range h' st.
Proof. intros h h' st L H. eapply Forall_impl; [|exact H]. cbv beta. intros; lia. Qed.

Lemma wfs_mk : forall h' hs',
  wfh h' -> Forall (fun hd => h_ino hd < List.length h') hs' -> wfs (mkSt h' hs').
Proof. intros. split; assumption. Qed.
Lemma handles_mono : forall s (h' : list node), wfs s -> List.length (heap s) <= List.length h' ->
  Forall (fun hd => h_ino hd < List.length h') (handles s).
Proof. intros s h' [_ H] L. eapply Forall_impl; [|exact H]. cbv beta. intros; lia. Qed.
Lemma wfs_seth : forall s (h' : list node), wfs s -> wfh h' -> List.length (heap s) <= List.length h' -> wfs (seth s h').
Proof. intros s h' W Wh L. split; cbn [seth heap handles]; [exact Wh | apply handles_mono; assumption]. Qed.
Lemma wfs_upd : forall s i f, (forall n, n_children (f n) = n_children n) -> wfs s -> wfs (seth s (upd (heap s) i f)).
Proof.
  intros s i f Hf W. apply wfs_seth; [exact W | apply wfh_upd; [exact Hf | apply W] | rewrite upd_length; lia].
Qed.
Lemma wfs_handles : forall s f i, (forall x, h_ino (f x) = h_ino x) -> wfs s ->
  wfs (mkSt (heap s) (upd_h (handles s) i f)).
Proof.
  intros s f i Hf [W H]. split; [exact W|]. cbn [heap handles].
  apply Forall_upd_h; [|exact H]. intros x Hx. rewrite Hf. exact Hx.
Qed.

Lemma s_open_wf : forall h p fl perm h' i, wfh h -> s_open h p fl perm = OpNode h' i ->
  wfh h' /\ List.length h <= List.length h' /\ i < List.length h'.
Proof.
  intros h p fl perm h' i W H. unfold s_open in H. pose proof (s_path_range h W p true) as R.
  destruct (s_path h p true) as [st o|st nm|e]; try discriminate.
  - assert (Hc : cur st < List.length h) by (apply cur_in_range; assumption).
    destruct (f_creat fl && f_excl fl); [discriminate|].
    destruct (is_dir h (cur st)).
    + destruct (f_acc fl); try discriminate. destruct (f_creat fl || f_trunc fl); [discriminate|].
      inversion H; subst. repeat split; try apply W; [lia | exact Hc].
    + inversion H; subst. repeat split; try apply W; [lia | exact Hc].
  - destruct (f_creat fl); [|discriminate].
    destruct (wfh_create h (cur st) nm (empty_node KReg perm) W eq_refl) as [A [B C]].
    destruct (create h (cur st) nm (empty_node KReg perm)) as [h1 i1]. cbn [fst snd] in *.
    inversion H; subst. split; [exact A|]. split; lia.
Qed.

Lemma s_mkdirall_wf : forall p h st perm, wfh h -> in_range h st ->
  wfh (fst (s_mkdirall h st p perm)) /\ List.length h <= List.length (fst (s_mkdirall h st p perm)).
Proof.
  induction p as [|c rest IH]; intros h st perm W Hs; cbn [s_mkdirall]; [split; [exact W | simpl; lia]|].
  destruct (String.eqb c "" || String.eqb c "."); [apply IH; assumption|].
  destruct (String.eqb c ".."); [apply IH; [assumption | apply pop_in_range, Hs]|].
  destruct (negb (is_dir h (cur st))); [split; [exact W | simpl; lia]|].
  destruct (lookup c (n_children (get h (cur st)))) as [x|].
  - pose proof (s_resolve_range h W spec_max_links st None [c] true Hs) as R.
    destruct (s_resolve spec_max_links h st None [c] true) as [st' o|st' o|e]; try (split; [exact W | simpl; lia]).
    destruct (is_dir h (cur st')); [apply IH; assumption | split; [exact W | simpl; lia]].
  - destruct (wfh_create h (cur st) c (empty_node KDir perm) W eq_refl) as [A [B C]].
    destruct (create h (cur st) c (empty_node KDir perm)) as [h1 i1]. cbn [fst snd] in *.
    assert (Hs1 : in_range h1 (i1 :: st)).
    { constructor; [lia | eapply in_range_mono; [|exact Hs]; lia]. }
    destruct (IH h1 (i1 :: st) perm A Hs1) as [A1 B1]. split; [exact A1 | lia].
Qed.

Ltac keep := first [assumption | apply wfs_upd; [intros; reflexivity | assumption]
                    | apply wfs_handles; [intros; reflexivity | assumption]].

Lemma spec_raw_wf : forall s o, wfs s -> wfs (fst (spec_raw s o)).
Proof.
  intros s o W. pose proof W as [Wh WH].
  destruct o; cbn [spec_raw]; unfold s_with_node, s_with_leaf, with_handle, s_enter_new, s_do_open.
  - (* Mkdir *)
    destruct (s_leaf (heap s) p) as [[[d nm] c]|e]; [|exact W]. destruct (negb (is_dir (heap s) d)); [exact W|].
    destruct c; [exact W|]. cbn [fst].
    destruct (wfh_create (heap s) d nm (empty_node KDir perm) Wh eq_refl) as [A [B C]].
    apply wfs_seth; [exact W | exact A | lia].
  - (* MkdirAll *)
    destruct (path_eqb p [""]); [exact W|].
    destruct (s_mkdirall_wf p (heap s) [0] perm Wh) as [A B]; [constructor; [apply Wh | constructor]|].
    destruct (s_mkdirall (heap s) [0] p perm) as [h e]. cbn [fst] in *. apply wfs_seth; assumption.
  - (* OpenFile *)
    destruct (s_open (heap s) p fl perm) as [e|h i] eqn:Eo; [exact W|].
    destruct (s_open_wf _ _ _ _ _ _ Wh Eo) as [A [B C]]. unfold s_new_handle. cbn [fst].
    destruct (f_trunc fl).
    + apply wfs_mk; [apply wfh_upd; [intros; reflexivity | exact A]|].
      rewrite upd_length. apply Forall_app. split; [apply handles_mono; assumption | constructor; [exact C | constructor]].
    + apply wfs_mk; [exact A|].
      apply Forall_app. split; [apply handles_mono; assumption | constructor; [exact C | constructor]].
  - (* Create *)
    destruct (s_open (heap s) p rdwr_create_trunc 438%N) as [e|h i] eqn:Eo; [exact W|].
    destruct (s_open_wf _ _ _ _ _ _ Wh Eo) as [A [B C]]. unfold s_new_handle. cbn [fst rdwr_create_trunc f_trunc].
    apply wfs_mk; [apply wfh_upd; [intros; reflexivity | exact A]|].
    rewrite upd_length. apply Forall_app. split; [apply handles_mono; assumption | constructor; [exact C | constructor]].
  - (* Read *)
    destruct (nth_error (handles s) h) as [hd|]; [|exact W]. destruct (h_open hd); [|exact W].
    repeat match goal with |- context [if ?x then _ else _] => destruct x end; cbn [fst]; keep.
  - (* ReadAt *)
    destruct (nth_error (handles s) h) as [hd|]; [|exact W]. destruct (h_open hd); [|exact W].
    repeat match goal with |- context [if ?x then _ else _] => destruct x end; cbn [fst]; keep.
  - (* Write *)
    destruct (nth_error (handles s) h) as [hd|]; [|exact W]. destruct (h_open hd); [|exact W].
    destruct (negb (writable (h_fl hd))); [exact W|].
    match goal with |- context [if ?x then _ else _] => destruct x end; [exact W|]. cbn [fst].
    split; cbn [heap handles].
    + apply wfh_upd; [intros; reflexivity | exact Wh].
    + rewrite upd_length. apply Forall_upd_h; [intros x Hx; exact Hx | exact WH].
  - (* Seek *)
    destruct (nth_error (handles s) h) as [hd|]; [|exact W]. destruct (h_open hd); [|exact W].
    destruct wh as [|[|[|wh]]]; cbn [fst]; try exact W;
      match goal with |- context [if ?x then _ else _] => destruct x end; cbn [fst]; keep.
  - (* Close *)
    destruct (nth_error (handles s) h) as [hd|]; [|exact W]. destruct (h_open hd); [|exact W]. cbn [fst]. keep.
  - (* ReadFile *)
    destruct (s_node (heap s) p); [|exact W]. destruct (is_dir (heap s) n); exact W.
  - (* WriteFile *)
    destruct (s_open (heap s) p rdwr_create_trunc perm) as [e|h i] eqn:Eo; [exact W|].
    destruct (s_open_wf _ _ _ _ _ _ Wh Eo) as [A [B C]]. cbn [fst].
    apply wfs_seth; [exact W | apply wfh_upd; [intros; reflexivity | exact A] | rewrite upd_length; exact B].
  - (* ReadDir *)
    destruct (s_node (heap s) p); [|exact W]. destruct (negb (is_dir (heap s) n)); exact W.
  - (* Stat *) destruct (s_node (heap s) p); exact W.
  - (* Lstat *) destruct (s_lnode (heap s) p); exact W.
  - (* Symlink *)
    destruct (s_leaf (heap s) p) as [[[d nm] c]|e]; [|exact W]. destruct (negb (is_dir (heap s) d)); [exact W|].
    destruct c; [exact W|]. cbn [fst].
    destruct (wfh_create (heap s) d nm (mkNode KSym 511%N 0%Z 0%Z [] None tgt 0%N [] []) Wh eq_refl) as [A [B C]].
    apply wfs_seth; [exact W | exact A | lia].
  - (* Link *)
    destruct (s_leaf (heap s) new) as [[[d nm] c]|e]; [|exact W]. destruct (negb (is_dir (heap s) d)); [exact W|].
    destruct (s_node (heap s) old) as [t|e] eqn:En; [|exact W]. destruct (is_dir (heap s) t); [exact W|].
    destruct c; [exact W|]. cbn [fst].
    apply wfs_seth; [exact W | apply wfh_add_child; [exact Wh | eapply s_node_range; eassumption]|].
    unfold add_child. rewrite upd_length. lia.
  - (* Readlink *)
    destruct (s_leaf (heap s) p) as [[[d nm] c]|e]; [|exact W]. destruct c; [|exact W]. destruct (is_sym (heap s) n); exact W.
  - (* Remove *)
    destruct (s_leaf (heap s) p) as [[[d nm] c]|e]; [|exact W]. destruct c; [|exact W].
    match goal with |- context [if ?x then _ else _] => destruct x end; [exact W|]. cbn [fst].
    apply wfs_seth; [exact W | apply wfh_del_child, Wh | unfold del_child; rewrite upd_length; lia].
  - (* Chmod *) destruct (s_node (heap s) p); [cbn [fst]; keep | exact W].
  - (* Chown *) destruct (s_node (heap s) p); [cbn [fst]; keep | exact W].
  - (* Chtimes *) destruct (s_node (heap s) p); [cbn [fst]; keep | exact W].
  - (* Mknod *)
    destruct (s_leaf (heap s) p) as [[[d nm] c]|e]; [|exact W]. destruct (negb (is_dir (heap s) d)); [exact W|].
    destruct c; [exact W|]. cbn [fst].
    destruct (wfh_create (heap s) d nm (mkNode KDev perm 0%Z 0%Z [] None [] dev [] []) Wh eq_refl) as [A [B C]].
    apply wfs_seth; [exact W | exact A | lia].
  - (* Readnod *)
    destruct (s_leaf (heap s) p) as [[[d nm] c]|e]; [|exact W]. destruct c; [|exact W].
    destruct (n_kind (get (heap s) n)); exact W.
  - (* SetXattr *) destruct (s_node (heap s) p); [cbn [fst]; keep | exact W].
  - (* GetXattr *)
    destruct (s_node (heap s) p); [|exact W]. destruct (lookup a (n_xattrs (get (heap s) n))); exact W.
  - (* RemoveXattr *) destruct (s_node (heap s) p); [cbn [fst]; keep | exact W].
  - (* ListXattrs *) destruct (s_node (heap s) p); exact W.
Qed.

Lemma spec_step_wf : forall s o, wfs s -> wfs (fst (spec_step s o)).
Proof.
  intros s o W. unfold spec_step. pose proof (spec_raw_wf s o W) as R.
  destruct (spec_raw s o) as [s' r]. destruct (is_failure r && negb (is_mkdirall o)); cbn [fst] in *; assumption.
Qed.
Lemma init_wf : wfs init_st.
Proof.
  split; [split; [simpl; lia|] | constructor].
  intros j nm c H. destruct j as [|[|j]]; simpl in H; destruct H.
Qed.
Lemma spec_run_wf : forall ops s, wfs s -> wfs (fst (spec_run s ops)).
Proof.
  induction ops as [|o ops IH]; intros s W; cbn [spec_run]; [exact W|].
  pose proof (spec_step_wf s o W) as W1. destruct (spec_step s o) as [s1 r]. cbn [fst] in W1.
  pose proof (IH s1 W1) as W2. destruct (spec_run s1 ops) as [s2 rs]. exact W2.
Qed.
(* every state reached from the empty filesystem is well-formed *)
Theorem reachable_wf : forall ops, wfs (fst (spec_run init_st ops)).
Proof. intro ops. apply spec_run_wf, init_wf. Qed.

(* the laws without the range premises, for well-formed (in particular reachable) states *)
Theorem read_after_write_wf : forall s i p hd s' r, wfs s ->
  nth_error (handles s) i = Some hd -> f_app (h_fl hd) = false -> p <> [] ->
  spec_step s (Write i p) = (s', r) -> is_failure r = false ->
  r = ONum (blen p) /\
  forall j hj, nth_error (handles s') j = Some hj -> h_open hj = true -> readable (h_fl hj) = true ->
    h_ino hj = h_ino hd -> is_dir (heap s') (h_ino hd) = false ->
    spec_step s' (ReadAt j (List.length p) (h_off hd)) = (s', OBytes p).
Proof.
  intros s i p hd s' r [_ WH] Hn Ha Hp. apply read_after_write; try assumption.
  rewrite Forall_forall in WH. apply WH. eapply nth_error_In, Hn.
Qed.
Theorem metadata_last_set_wf : forall s p i, wfs s -> s_node (heap s) p = inl i ->
  (forall m s', spec_step s (Chmod p m) = (s', OOk) ->
     spec_step s' (Stat p) = (s', info_of (set_perm m (get (heap s) i)))) /\
  (forall u g s', spec_step s (Chown p u g) = (s', OOk) ->
     spec_step s' (Stat p) = (s', info_of (set_owner u g (get (heap s) i)))) /\
  (forall t s', spec_step s (Chtimes p t) = (s', OOk) ->
     spec_step s' (Stat p) = (s', info_of (set_mtime (Some t) (get (heap s) i)))).
Proof. intros s p i [Wh _] Hn. apply metadata_last_set; [exact Hn | eapply s_node_range; eassumption]. Qed.
