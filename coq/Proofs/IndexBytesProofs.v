(* C04 — proofs about Model/IndexBytes.v: what an accepted byte string owes to a
   verified entry, the mutant oracle, the sweep validator, and the agreement of
   the byte-level model with the member-structure model of Model/Index.v. *)
From Apko Require Import Base.Prelude Base.Regex Generated.Regexes Generated.IndexConsts
  Model.Index Spec.IndexSpec Proofs.IndexProofs Model.IndexBytes Spec.IndexBytesSpec.
Open Scope string_scope. Open Scope list_scope.

Lemma assoc_str_in {A} k : forall (l : list (string * A)) v, assoc_str k l = Some v -> In (k, v) l.
Proof.
  induction l as [|[k' v'] l IH]; simpl; intros v H; [discriminate|].
  destruct (String.eqb k k') eqn:E.
  - apply String.eqb_eq in E. inversion H; subst. left; reflexivity.
  - right. apply IH; exact H.
Qed.

Lemma assoc_str_mem {A} k : forall (l : list (string * A)), In k (map fst l) -> exists v, assoc_str k l = Some v.
Proof.
  induction l as [|[k' v'] l IH]; simpl; intro H; [destruct H|].
  destruct (String.eqb k k') eqn:E; [eauto|].
  destruct H as [H|H]; [subst; rewrite String.eqb_refl in E; discriminate | apply IH; exact H].
Qed.

(* the generated switch again, as a statement about sig_kind_of (no oracles involved) *)
Lemma sig_kind_supported' alg a : sig_kind_of alg = KAlg a -> supported alg = Some a.
Proof. exact (sig_kind_supported alg a). Qed.

(* where a signature record of the signature pass came from *)
Lemma sig_pass_origin names : forall es sigs s,
  sig_pass names es = Ok sigs -> In s sigs ->
  exists e t, In e es /\ e_name e = sig_entry_name t (s_key s) /\ sig_kind_of t = KAlg (s_alg s) /\
              In (s_key s) names /\ s_sig s = e_body e.
Proof.
  induction es as [|e es IH]; simpl; intros sigs s SP Hs.
  - inversion SP; subst. destruct Hs.
  - destruct (sig_name_parts (e_name e)) as [[t key]|] eqn:P; [|discriminate].
    assert (forall sg, sig_pass names es = Ok sg -> In s sg ->
              exists e0 t0, In e0 (e :: es) /\ e_name e0 = sig_entry_name t0 (s_key s) /\ sig_kind_of t0 = KAlg (s_alg s) /\
                            In (s_key s) names /\ s_sig s = e_body e0) as Lift.
    { intros sg Hsg Hin. destruct (IH sg s Hsg Hin) as (e0 & t0 & A1 & A2). exists e0, t0. split; [right; exact A1 | exact A2]. }
    destruct (mem_str key names) eqn:M; simpl in SP.
    + destruct (sig_kind_of t) as [|a|] eqn:K.
      * eapply Lift; eauto.
      * destruct (sig_pass names es) as [more| | |] eqn:R; simpl in SP; try discriminate.
        inversion SP; subst. destruct Hs as [Hs|Hs].
        -- subst s. simpl. apply (sig_name_parts_spec) in P. destruct P as [P _].
           exists e, t. split; [left; reflexivity|]. split; [exact P|]. split; [exact K|].
           split; [apply mem_str_In; exact M | reflexivity].
        -- eapply Lift; eauto.
      * discriminate.
    + eapply Lift; eauto.
Qed.

Section WithBytes.
  Variable D : Type.
  Variable gz_first : list N -> option (list N * nat).
  Variable tar_entries : list N -> option (list entry).
  Variable hash : halg -> list N -> D.
  Variable verify : list N -> halg -> D -> list N -> bool.
  Variable index_of_bytes : list N -> option index.

  Notation prib := (parse_repository_index_bytes D gz_first tar_entries hash verify index_of_bytes).
  Notation svb := (sig_verifies_bytes D hash verify).

  Lemma prib_checked_cases keys b :
    prib true keys b = PErr \/
    exists tarb n es sigs s i0,
      keys <> [] /\ existsb contains_slash (key_names keys) = false /\
      gz_first b = Some (tarb, n) /\ tar_entries tarb = Some es /\
      sig_pass (key_names keys) es = Ok sigs /\
      verify_loop (svb keys (index_data b n)) sigs = Some s /\
      index_of_bytes (index_data b n) = Some i0 /\
      prib true keys b = POk (fill_signature (Some (s_sig s)) i0).
  Proof.
    unfold parse_repository_index_bytes. destruct keys as [|k keys']; [left; reflexivity|].
    destruct (existsb contains_slash (key_names (k :: keys'))) eqn:Sl; [left; reflexivity|].
    destruct (gz_first b) as [[tarb n]|] eqn:G; [|left; reflexivity].
    destruct (tar_entries tarb) as [es|] eqn:T; [|left; reflexivity].
    destruct (sig_pass (key_names (k :: keys')) es) as [sigs| | |] eqn:SP; try (left; reflexivity).
    destruct sigs as [|s0 sigs']; [left; reflexivity|].
    cbv zeta.
    destruct (verify_loop (svb (k :: keys') (index_data b n)) (s0 :: sigs')) as [s|] eqn:V; [|left; reflexivity].
    unfold parse_bytes. destruct (index_of_bytes (index_data b n)) as [i0|] eqn:I; [|left; reflexivity].
    right. exists tarb, n, es, (s0 :: sigs'), s, i0. repeat split; try assumption; discriminate.
  Qed.

  (* the result is never "not modelled" *)
  Lemma prib_total check keys b : prib check keys b <> PUnmodelled.
  Proof.
    destruct check.
    - destruct (prib_checked_cases keys b) as [E|(? & ? & ? & ? & ? & ? & _ & _ & _ & _ & _ & _ & _ & E)]; rewrite E; discriminate.
    - unfold parse_repository_index_bytes, parse_bytes. destruct (index_of_bytes b); discriminate.
  Qed.

  (* acceptance requires a verified entry: an entry of the signature stream named
     .SIGN.<type>.<key> whose type the generated switch maps to a digest (RSA, RSA256),
     whose key name is configured, and whose body verifies under the MATERIAL stored
     for that name over the digest (of that type) of exactly the bytes that are then
     parsed, b[readBytes:] *)
  Theorem accept_requires_verified_entry keys b idx :
    prib true keys b = POk idx ->
    exists tarb n es e t kname kb a i0,
      gz_first b = Some (tarb, n) /\ tar_entries tarb = Some es /\ In e es /\
      e_name e = sig_entry_name t kname /\ sig_kind_of t = KAlg a /\ supported t = Some a /\
      In (kname, kb) keys /\
      verify kb a (hash a (skipn n b)) (e_body e) = true /\
      index_of_bytes (skipn n b) = Some i0 /\
      i_pkgs idx = i_pkgs i0 /\ i_desc idx = i_desc i0 /\
      i_sig idx = match i_sig i0 with Some sg => Some sg | None => Some (e_body e) end.
  Proof.
    intro H. destruct (prib_checked_cases keys b) as [E|(tarb & n & es & sigs & s & i0 & _ & _ & G & T & SP & V & I & E)]; [congruence|].
    rewrite E in H. inversion H; subst idx. clear H E.
    apply verify_loop_some in V. destruct V as (Hs & V & _).
    destruct (sig_pass_origin (key_names keys) es sigs s SP Hs) as (e & t & He & Hn & K & Hk & Hb).
    destruct (assoc_str_mem (s_key s) keys Hk) as (kb & Ak).
    exists tarb, n, es, e, t, (s_key s), kb, (s_alg s), i0.
    unfold svb, sig_verifies_bytes, key_bytes in V. rewrite Ak, Hb in V.
    repeat split; try assumption.
    - apply sig_kind_supported'; exact K.
    - apply assoc_str_in; exact Ak.
    - apply fill_signature_keeps.
    - apply fill_signature_keeps.
    - unfold fill_signature. destruct (i_sig i0) eqn:S; [exact S|]. simpl. rewrite Hb. reflexivity.
  Qed.

  (* ---- the mutant oracle ------------------------------------------------------ *)
  Section Oracle.
    Variable Signed : list N -> Prop.
    Variable keys : keymap.
    (* soundness of the signature oracle: whatever verifies under the material of a
       configured key, over the digest of x, was signed — x is one of the byte strings
       the key holders signed (unforgeability and collision resistance, idealised) *)
    Hypothesis verify_sound : forall kname kb a x sg,
      In (kname, kb) keys -> verify kb a (hash a x) sg = true -> Signed x.

    Definition pkgs_of_bytes (x : list N) : option (list string) := option_map i_pkgs (index_of_bytes x).

    Theorem mutant_oracle b :
      MutantHolds Signed pkgs_of_bytes b (verdict_of (prib true keys b)).
    Proof.
      intros pk Hv. destruct (prib true keys b) as [idx| |] eqn:R; try discriminate.
      inversion Hv; subst pk. clear Hv.
      destruct (accept_requires_verified_entry keys b idx R)
        as (tarb & n & es & e & t & kname & kb & a & i0 & _ & _ & _ & _ & _ & _ & Hk & V & I & Pk & _).
      exists n. split; [eapply verify_sound; eauto|]. unfold pkgs_of_bytes. rewrite I. simpl. rewrite Pk. reflexivity.
    Qed.

    (* a change that reaches the signed bytes: no suffix of the mutant is a signed
       byte string => rejected *)
    Corollary mutant_not_signed_rejected b :
      (forall n, ~ Signed (skipn n b)) -> prib true keys b = PErr.
    Proof.
      intro NS. destruct (prib true keys b) as [idx| |] eqn:R; [|reflexivity|exfalso; eapply prib_total; eauto].
      exfalso. destruct (mutant_oracle b (i_pkgs idx)) as (n & S & _); [rewrite R; reflexivity|]. exact (NS n S).
    Qed.
  End Oracle.

  (* only one byte string x0 was ever signed: whatever is done to the archive, the
     verdict is "rejected" or "accepted with the package list of x0" — a change
     outside the signed bytes does not reach what is parsed *)
  Corollary mutant_accepted_is_original keys x0 b :
    (forall kname kb a x sg, In (kname, kb) keys -> verify kb a (hash a x) sg = true -> x = x0) ->
    verdict_of (prib true keys b) = None \/
    (verdict_of (prib true keys b) = pkgs_of_bytes x0 /\ exists n, skipn n b = x0).
  Proof.
    intro VS. destruct (verdict_of (prib true keys b)) as [pk|] eqn:E; [|left; reflexivity]. right.
    destruct (mutant_oracle (fun x => x = x0) keys VS b pk) as (n & S & P); [exact E|].
    rewrite S in P. split; [symmetry; exact P | exists n; exact S].
  Qed.
End WithBytes.

(* ---- the sweep validator ------------------------------------------------------- *)
Lemma list_N_eqb_spec (a b : list N) : list_eqb N.eqb a b = true <-> a = b.
Proof. apply list_eqb_spec. intros; apply N.eqb_eq. Qed.

Lemma assoc_bytes_some {A} x : forall (tbl : list (list N * A)) v, assoc_bytes x tbl = Some v -> In (x, v) tbl.
Proof.
  induction tbl as [|[k v'] tbl IH]; simpl; intros v H; [discriminate|].
  destruct (list_eqb N.eqb x k) eqn:E.
  - apply list_N_eqb_spec in E. inversion H; subst. left; reflexivity.
  - right. apply IH; exact H.
Qed.

(* what the validator decides: the rendered suffix is a signed byte string and the
   accepted package list is the one recorded for it *)
Definition SuffixHolds (signed : list (list N * list string)) (suffix : list N) (verdict : option (list string)) : Prop :=
  forall pk, verdict = Some pk -> assoc_bytes suffix signed = Some pk.

Lemma mutant_tags_iff signed suffix ending verdict :
  mutant_tags signed suffix ending verdict = [] <-> SuffixHolds signed suffix verdict.
Proof.
  unfold mutant_tags, SuffixHolds. destruct verdict as [pk|]; [|split; [intros _ pk H; discriminate | reflexivity]].
  destruct (assoc_bytes suffix signed) as [spk|] eqn:A.
  - destruct (list_eqb String.eqb spk pk) eqn:E; simpl.
    + apply (list_eqb_spec String.eqb) in E; [|intros; apply String.eqb_eq]. subst.
      split; [intros _ pk' H; inversion H; reflexivity | reflexivity].
    + split; [discriminate|]. intro H. specialize (H pk eq_refl). inversion H; subst.
      assert (list_eqb String.eqb pk pk = true) by (apply list_eqb_spec; [intros; apply String.eqb_eq | reflexivity]). congruence.
  - split; [discriminate|]. intro H. specialize (H pk eq_refl). discriminate.
Qed.

(* ... and that is the oracle for EVERY mutant that ends with the rendered suffix,
   whatever precedes it *)
Theorem mutant_tags_sound signed suffix ending verdict :
  mutant_tags signed suffix ending verdict = [] ->
  forall pre, MutantHolds (SignedIn signed) (fun x => assoc_bytes x signed) (pre ++ suffix) verdict.
Proof.
  intros H pre pk Hv. apply mutant_tags_iff in H. specialize (H pk Hv).
  exists (List.length pre). rewrite skipn_app, skipn_all, Nat.sub_diag. simpl.
  split; [exists pk; apply assoc_bytes_some; exact H | exact H].
Qed.

(* ---- agreement with the member-structure model ---------------------------------
   If the readers decode a byte string the way Model/Index.v pictures it — the first
   gzip stream is the first member, the gzip reader stops at its end, the remaining
   bytes are [raw rest], IndexFromArchive of those bytes is the tar walk over [rest]
   — then the byte-level model and the structural model give the same answer. *)
Section Refines.
  Variable D : Type.
  Variable gz_first : list N -> option (list N * nat).
  Variable tar_entries : list N -> option (list entry).
  Variable hash : halg -> list N -> D.
  Variable verify : list N -> halg -> D -> list N -> bool.
  Variable index_of_bytes : list N -> option index.
  Variable parse_text : list N -> option (list string).
  Variable enc1 : member -> list N.               (* the bytes of the first gzip member *)
  Variable tarb1 : member -> list N.              (* its decompressed tar stream *)
  Variable raw : list member -> list N.           (* the bytes of the remaining members *)

  Definition pres_of_option (o : option index) : pres := match o with Some i => POk i | None => PErr end.

  Theorem bytes_model_refines_structure keys m1 rest :
    gz_first (enc1 m1 ++ raw rest) = Some (tarb1 m1, List.length (enc1 m1)) ->
    tar_entries (tarb1 m1) = Some (m_entries m1) ->
    pres_of_option (index_of_bytes (raw rest)) = index_from_archive parse_text rest ->
    parse_repository_index_bytes D gz_first tar_entries hash verify index_of_bytes true keys (enc1 m1 ++ raw rest) =
    parse_repository_index (list N) D raw hash (fun name => verify (key_bytes keys name)) parse_text true (key_names keys) (m1 :: rest).
  Proof.
    intros G T I. unfold parse_repository_index_bytes, parse_repository_index.
    destruct keys as [|k keys']; [reflexivity|]. set (ks := k :: keys').
    change (key_names ks) with (map fst ks).
    destruct (map fst ks) as [|n0 ns] eqn:Ek; [discriminate|]. rewrite <- Ek.
    destruct (existsb contains_slash (map fst ks)); [reflexivity|].
    rewrite G, T. unfold key_names.
    destruct (sig_pass (map fst ks) (m_entries m1)) as [sigs| | |]; try reflexivity.
    destruct sigs as [|s0 sigs']; [reflexivity|]. cbv zeta.
    unfold index_data. rewrite skipn_app, skipn_all, Nat.sub_diag. simpl skipn. simpl app.
    assert (forall s, sig_verifies_bytes D hash verify ks (raw rest) s =
                      sig_verifies (list N) D raw hash (fun name => verify (key_bytes ks name)) rest s) as Sv by reflexivity.
    assert (forall l, verify_loop (sig_verifies_bytes D hash verify ks (raw rest)) l =
                      verify_loop (sig_verifies (list N) D raw hash (fun name => verify (key_bytes ks name)) rest) l) as Vl.
    { induction l as [|x l IH]; simpl; [reflexivity|]. rewrite Sv, IH. reflexivity. }
    rewrite Vl. destruct (verify_loop _ (s0 :: sigs')) as [s|]; [|reflexivity].
    unfold parse_bytes. rewrite <- I. destruct (index_of_bytes (raw rest)); reflexivity.
  Qed.
End Refines.
