(* C04 — the index cache hands an index only to calls that authorise it, provided
   the cache key separates verification contexts (fix C04-F3); refuted for the
   URL-only key. *)
From Apko Require Import Base.Prelude Model.Index Spec.IndexSpec Model.IndexCache.
Open Scope string_scope. Open Scope list_scope.

Lemma authorised_b_true signer loc arch c r :
  authorised_b signer loc arch c r = true -> Authorised signer loc arch c r.
Proof.
  unfold authorised_b, Authorised. intros H Hc. rewrite Hc in H. cbn [negb orb] in H.
  destruct (signer r) as [k|]; [|discriminate]. exists k. split; [reflexivity|].
  apply existsb_exists in H. destruct H as [k' [Hin He]]. apply String.eqb_eq in He. subst. exact Hin.
Qed.
Lemma authorised_b_iff signer loc arch c r :
  authorised_b signer loc arch c r = true <-> Authorised signer loc arch c r.
Proof.
  split; [apply authorised_b_true|]. unfold authorised_b, Authorised. intro H.
  destruct (call_check_required loc arch c r); [|reflexivity]. cbn [negb orb].
  destruct (H eq_refl) as [k [Hs Hin]]. rewrite Hs. apply existsb_exists. exists k. split; [exact Hin | apply String.eqb_refl].
Qed.

Section Sound.
  Variable signer : nat -> option string.
  Variable loc : nat -> string.
  Variable arch : string.
  Variable cached : nat -> bool.
  Variable K : Type.
  Variable K_eqb : K -> K -> bool.
  Variable ctx : repo_call -> nat -> K.
  Hypothesis K_eqb_sound : forall a b, K_eqb a b = true -> a = b.
  (* the key separates verification contexts *)
  Hypothesis ctx_separates : forall c c' r, ctx c r = ctx c' r ->
    authorised_b signer loc arch c r = authorised_b signer loc arch c' r.

  Let A := authorised_b signer loc arch.
  Definition store_ok (s : store K) : Prop :=
    forall r k b, In (r, k, b) s -> exists c0, k = ctx c0 r /\ b = A c0 r.

  Lemma lookup_in (s : store K) r k b : lookup K K_eqb s r k = Some b -> In (r, k, b) s.
  Proof.
    induction s as [|[[r' k'] b'] s IH]; cbn [lookup]; [discriminate|].
    destruct (Nat.eqb r r' && K_eqb k k') eqn:E.
    - intro H. injection H as <-. apply andb_true_iff in E. destruct E as [E1 E2].
      apply Nat.eqb_eq in E1. apply K_eqb_sound in E2. subst. left. reflexivity.
    - intro H. right. apply IH. exact H.
  Qed.

  Lemma cache_get_spec s c r : store_ok s ->
    fst (cache_get signer loc arch cached K K_eqb ctx s c r) = A c r /\
    store_ok (snd (cache_get signer loc arch cached K K_eqb ctx s c r)).
  Proof.
    intro Hs. unfold cache_get. destruct (cached r); [|split; [reflexivity | exact Hs]].
    destruct (lookup K K_eqb s r (ctx c r)) as [b|] eqn:L.
    - cbn [fst snd]. split; [|exact Hs]. apply lookup_in in L. destruct (Hs _ _ _ L) as [c0 [Hk Hb]].
      subst b. symmetry. apply ctx_separates. exact Hk.
    - cbn [fst snd]. split; [reflexivity|]. intros r' k b [H|H].
      + injection H as <- <- <-. exists c. split; reflexivity.
      + apply Hs. exact H.
  Qed.

  Lemma get_all_spec c : forall rs s, store_ok s ->
    fst (get_all signer loc arch cached K K_eqb ctx s c rs) = map (fun r => (r, A c r)) rs /\
    store_ok (snd (get_all signer loc arch cached K K_eqb ctx s c rs)).
  Proof.
    induction rs as [|r rs IH]; intros s Hs; cbn [get_all map]; [split; [reflexivity|exact Hs]|].
    destruct (cache_get_spec s c r Hs) as [H1 H2].
    destruct (cache_get signer loc arch cached K K_eqb ctx s c r) as [b s1]. cbn [fst snd] in H1, H2.
    destruct (IH s1 H2) as [H3 H4].
    destruct (get_all signer loc arch cached K K_eqb ctx s1 c rs) as [l s2]. cbn [fst snd] in *.
    subst. split; [reflexivity | exact H4].
  Qed.

  (* the outcome of a call does not depend on the store: the cache is transparent *)
  Definition fresh_call (c : repo_call) : repo_call :=
    let ok := forallb (A c) (rc_repos c) in
    {| rc_repos := rc_repos c; rc_keys := rc_keys c; rc_ignore := rc_ignore c; rc_exempt := rc_exempt c;
       o_err := negb ok; o_got := if ok then rc_repos c else [] |}.

  Lemma run_call_spec s c : store_ok s ->
    fst (run_call signer loc arch cached K K_eqb ctx s c) = fresh_call c /\
    store_ok (snd (run_call signer loc arch cached K K_eqb ctx s c)).
  Proof.
    intro Hs. unfold run_call. destruct (get_all_spec c (rc_repos c) s Hs) as [H1 H2].
    destruct (get_all signer loc arch cached K K_eqb ctx s c (rc_repos c)) as [l s']. cbn [fst snd] in *.
    subst l. split; [|exact H2]. unfold fresh_call.
    assert (forall l, forallb snd (map (fun r => (r, A c r)) l) = forallb (A c) l) as F1
      by (induction l as [|x l IHl]; cbn; [reflexivity | rewrite IHl; reflexivity]).
    rewrite F1, map_map. cbn [fst]. rewrite map_id. reflexivity.
  Qed.

  Lemma run_history_spec : forall cs s, store_ok s ->
    run_history signer loc arch cached K K_eqb ctx s cs = map fresh_call cs.
  Proof.
    induction cs as [|c cs IH]; intros s Hs; cbn [run_history map]; [reflexivity|].
    destruct (run_call_spec s c Hs) as [H1 H2].
    destruct (run_call signer loc arch cached K K_eqb ctx s c) as [c' s']. cbn [fst snd] in *.
    subst c'. rewrite (IH s' H2). reflexivity.
  Qed.

  Lemma fresh_call_holds c r : In r (o_got (fresh_call c)) -> Authorised signer loc arch (fresh_call c) r.
  Proof.
    unfold fresh_call. cbn [o_got]. destruct (forallb (A c) (rc_repos c)) eqn:E; [|intros []].
    intro Hin. rewrite forallb_forall in E. specialize (E r Hin).
    apply authorised_b_true in E. exact E.
  Qed.

  Theorem cache_sound cs :
    run_history signer loc arch cached K K_eqb ctx [] cs = map fresh_call cs /\
    HistoryHolds signer loc arch (run_history signer loc arch cached K K_eqb ctx [] cs).
  Proof.
    assert (store_ok []) as H0 by (intros ? ? ? []).
    split; [apply run_history_spec; exact H0|].
    rewrite (run_history_spec cs [] H0). intros c Hc r Hr.
    apply in_map_iff in Hc. destruct Hc as [c0 [<- _]]. apply fresh_call_holds. exact Hr.
  Qed.
End Sound.

(* the key of fix C04-F3 separates verification contexts *)
Lemma vctx_eqb_sound a b : vctx_eqb a b = true -> a = b.
Proof.
  destruct a as [a1 a2], b as [b1 b2]. unfold vctx_eqb. cbn [fst snd]. intro H.
  apply andb_true_iff in H. destruct H as [H1 H2]. apply Bool.eqb_prop in H1.
  apply list_eqb_spec in H2; [|intros; apply String.eqb_eq]. subst. reflexivity.
Qed.
Lemma ctx_fixed_separates signer loc arch c c' r :
  ctx_fixed loc arch c r = ctx_fixed loc arch c' r ->
  authorised_b signer loc arch c r = authorised_b signer loc arch c' r.
Proof.
  unfold ctx_fixed, authorised_b. intro H. injection H as H1 H2. rewrite <- H1 in *.
  destruct (call_check_required loc arch c r); [|reflexivity]. rewrite H2. reflexivity.
Qed.

Theorem cache_fixed_sound signer loc arch cached cs :
  let out := run_history signer loc arch cached vctx vctx_eqb (ctx_fixed loc arch) [] cs in
  out = map (fresh_call signer loc arch) cs /\ HistoryHolds signer loc arch out.
Proof.
  cbn zeta. apply cache_sound; [apply vctx_eqb_sound | intros; apply ctx_fixed_separates; assumption].
Qed.

(* with the URL-only key (before the fix) a verified request is answered from what
   an ignore-signatures request stored: bob-signed index, later call trusts alice only *)
Definition w_signer (r : nat) : option string := match r with 0 => Some "bob" | _ => None end.
Definition w_loc (r : nat) : string := "repo".
Definition w_calls : list repo_call :=
  [ {| rc_repos := [0]; rc_keys := []; rc_ignore := true; rc_exempt := []; o_err := false; o_got := [] |};
    {| rc_repos := [0]; rc_keys := ["alice"]; rc_ignore := false; rc_exempt := []; o_err := false; o_got := [] |} ].
Theorem cache_url_only_refuted :
  ~ HistoryHolds w_signer w_loc "x86_64"
      (run_history w_signer w_loc "x86_64" (fun _ => true) unit (fun _ _ => true) ctx_url_only [] w_calls) /\
  history_tags w_signer w_loc "x86_64"
      (run_history w_signer w_loc "x86_64" (fun _ => true) unit (fun _ _ => true) ctx_url_only [] w_calls)
    = ["viol:index-cache-ignores-verification-context"].
Proof.
  split; [|vm_compute; reflexivity].
  intro H.
  assert (In {| rc_repos := [0]; rc_keys := ["alice"]; rc_ignore := false; rc_exempt := []; o_err := false; o_got := [0] |}
            (run_history w_signer w_loc "x86_64" (fun _ => true) unit (fun _ _ => true) ctx_url_only [] w_calls)) as Hin
    by (vm_compute; auto).
  specialize (H _ Hin 0 (or_introl eq_refl)). unfold Authorised in H.
  destruct H as [k [Hs Hk]]; [vm_compute; reflexivity|].
  vm_compute in Hs. injection Hs as <-. cbn in Hk. destruct Hk as [Hk|[]]. discriminate.
Qed.

(* the validator decides the readable statement *)
Lemma call_tags_nil signer loc arch earlier c :
  call_tags signer loc arch earlier c = [] <-> (forall r, In r (o_got c) -> Authorised signer loc arch c r).
Proof.
  unfold call_tags. split.
  - intros H r Hr. apply authorised_b_iff.
    destruct (authorised_b signer loc arch c r) eqn:E; [reflexivity|exfalso].
    assert (In r (o_got c) -> False) as F; [|exact (F Hr)].
    clear Hr. induction (o_got c) as [|x l IH]; [intros []|].
    cbn [flat_map] in H. apply app_eq_nil in H. destruct H as [H1 H2]. intros [<-|Hin].
    + rewrite E in H1. destruct (existsb _ earlier); discriminate.
    + exact (IH H2 Hin).
  - intro H. induction (o_got c) as [|x l IH]; [reflexivity|]. cbn [flat_map].
    rewrite (proj2 (authorised_b_iff signer loc arch c x) (H x (or_introl eq_refl))). cbn [app].
    apply IH. intros r Hr. apply H. right. exact Hr.
Qed.
Theorem history_validator_decides signer loc arch calls :
  history_tags signer loc arch calls = [] <-> HistoryHolds signer loc arch calls.
Proof.
  unfold history_tags, HistoryHolds.
  assert (forall earlier, history_tags_from signer loc arch earlier calls = [] <->
            (forall c, In c calls -> forall r, In r (o_got c) -> Authorised signer loc arch c r)) as G.
  { induction calls as [|c rest IH]; intro earlier; cbn [history_tags_from].
    - split; [intros _ c []|reflexivity].
    - split.
      + intro H. apply app_eq_nil in H. destruct H as [H1 H2]. intros c' [<-|Hin].
        * apply (call_tags_nil signer loc arch earlier). exact H1.
        * apply (proj1 (IH (earlier ++ [c])) H2). exact Hin.
      + intro H. rewrite (proj2 (call_tags_nil signer loc arch earlier c) (H c (or_introl eq_refl))). cbn [app].
        apply IH. intros c' Hin. apply H. right. exact Hin. }
  exact (G []).
Qed.
