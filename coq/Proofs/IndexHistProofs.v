(* C04 (wave 3) — proofs: the multi-architecture wiring verifies every index that
   reaches resolution (refuted for a sibling load that ignores signatures); the
   local-file branch of the index cache over rewritten files. *)
From Apko Require Import Base.Prelude Generated.IndexShapes Model.Index Spec.IndexSpec Model.IndexCache
  Model.IndexWiring Model.IndexCacheFiles Spec.IndexHistSpec.
Open Scope string_scope. Open Scope list_scope.

(* ================= wiring ================= *)
Section WiringProofs.
  Variable ctxs : list wctx.
  Variable signer : nat -> nat -> option string.

  Lemma existsb_nat_In r l : existsb (Nat.eqb r) l = true <-> In r l.
  Proof.
    rewrite existsb_exists. split.
    - intros (x & Hx & E). apply Nat.eqb_eq in E. subst. exact Hx.
    - intro H. exists r. split; [exact H | apply Nat.eqb_refl].
  Qed.
  Lemma existsb_str_In k l : existsb (String.eqb k) l = true <-> In k l.
  Proof.
    rewrite existsb_exists. split.
    - intros (x & Hx & E). apply String.eqb_eq in E. subst. exact Hx.
    - intro H. exists k. split; [exact H | apply String.eqb_refl].
  Qed.

  Lemma wauthorised_b_iff a j r : wauthorised_b ctxs signer a j r = true <-> WAuthorised ctxs signer a j r.
  Proof.
    unfold wauthorised_b, index_loads, WAuthorised. rewrite !orb_true_iff, existsb_nat_In. split.
    - intros [[H|H]|H]; [left; exact H | right; left; exact H |].
      destruct (signer j r) as [k|]; [|discriminate]. right; right. exists k. split; [reflexivity | apply existsb_str_In; exact H].
    - intros [H|[H|(k & Hs & Hk)]]; [left; left; exact H | left; right; exact H |].
      right. rewrite Hs. apply existsb_str_In; exact Hk.
  Qed.

  Lemma wiring_tags_iff ok : wiring_tags ctxs signer ok = [] <-> WiringHolds ctxs signer ok.
  Proof.
    unfold wiring_tags, WiringHolds. split.
    - intros H a Ha Hok j Hj r Hr. apply wauthorised_b_iff.
      destruct (wauthorised_b ctxs signer a j r) eqn:E; [reflexivity|exfalso].
      assert (In a (seq 0 (List.length ctxs))) as Ia by (apply in_seq; lia).
      assert (wiring_tags_of ctxs signer ok a = []) as T.
      { clear - H Ia. induction (seq 0 (List.length ctxs)) as [|x l IH]; [destruct Ia|].
        simpl in H. apply app_eq_nil in H. destruct H as [H1 H2]. destruct Ia as [->|Ia]; [exact H1 | exact (IH H2 Ia)]. }
      unfold wiring_tags_of in T. rewrite Hok in T.
      assert (In j (a :: siblings ctxs a)) as Ij by (destruct Hj as [->|Hj]; [left; reflexivity | right; exact Hj]).
      assert (In r (seq 0 (wx_nrepos (ctx_of ctxs j)))) as Ir by (apply in_seq; lia).
      revert T Ij. generalize (a :: siblings ctxs a). intros L T Ij.
      induction L as [|x L IH]; [destruct Ij|]. simpl in T. apply app_eq_nil in T. destruct T as [T1 T2].
      destruct Ij as [->|Ij]; [|exact (IH T2 Ij)].
      clear - T1 Ir E. induction (seq 0 (wx_nrepos (ctx_of ctxs j))) as [|y l IH]; [destruct Ir|].
      simpl in T1. apply app_eq_nil in T1. destruct T1 as [T1 T2]. destruct Ir as [->|Ir]; [|exact (IH Ir T2)].
      rewrite E in T1. destruct (Nat.eqb j a); discriminate.
    - intro H.
      assert (forall l, (forall a, In a l -> a < List.length ctxs) -> flat_map (wiring_tags_of ctxs signer ok) l = []) as G.
      { induction l as [|a l IH]; intro Hl; [reflexivity|]. simpl. rewrite IH by (intros; apply Hl; right; assumption).
        rewrite app_nil_r. unfold wiring_tags_of. destruct (ok a) eqn:Hok; [|reflexivity].
        assert (forall L, (forall j, In j L -> j = a \/ In j (siblings ctxs a)) ->
                  flat_map (fun j => flat_map (fun r => tag_if (negb (wauthorised_b ctxs signer a j r))
                     (if Nat.eqb j a then "viol:unverified-own-index-reaches-resolution" else "viol:unverified-sibling-index-reaches-resolution"))
                     (seq 0 (wx_nrepos (ctx_of ctxs j)))) L = []) as G2.
        { induction L as [|j L IHL]; intro HL; [reflexivity|]. simpl. rewrite IHL by (intros; apply HL; right; assumption).
          rewrite app_nil_r.
          assert (forall l2, (forall r, In r l2 -> r < wx_nrepos (ctx_of ctxs j)) ->
                    flat_map (fun r => tag_if (negb (wauthorised_b ctxs signer a j r))
                       (if Nat.eqb j a then "viol:unverified-own-index-reaches-resolution" else "viol:unverified-sibling-index-reaches-resolution")) l2 = []) as G3.
          { induction l2 as [|r l2 IH2]; intro Hl2; [reflexivity|]. simpl. rewrite IH2 by (intros; apply Hl2; right; assumption).
            rewrite app_nil_r.
            rewrite (proj2 (wauthorised_b_iff a j r)); [reflexivity|].
            apply (H a (Hl a (or_introl eq_refl)) Hok j (HL j (or_introl eq_refl)) r). apply Hl2. left; reflexivity. }
          apply G3. intros r Hr. apply in_seq in Hr. lia. }
        apply G2. intros j [<-|Hj]; [left; reflexivity | right; exact Hj]. }
      apply G. intros a Ha. apply in_seq in Ha. lia.
  Qed.

  (* loads made with the ignore argument "$a.ignoreSignatures" authorise what they return *)
  Lemma ctx_loads_spec ign j : ctx_loads ctxs signer ign j = true ->
    forall r, r < wx_nrepos (ctx_of ctxs j) -> index_loads ctxs signer ign j r = true.
  Proof.
    unfold ctx_loads. rewrite forallb_forall. intros H r Hr. apply H. apply in_seq. lia.
  Qed.

  (* ResolveWorld as the source has it on this run: the model's answer meets the statement *)
  Theorem wiring_model_holds :
    WiringHolds ctxs signer (fun a => match resolve_loads ctxs signer a with Some _ => true | None => false end).
  Proof.
    intros a _ Hok j Hj r Hr. apply wauthorised_b_iff. unfold wauthorised_b.
    unfold resolve_loads, resolve_loads_with in Hok.
    destruct (ctx_loads ctxs signer (ignore_arg ctxs resolve_own_ignore_arg a a) a &&
              forallb (fun o => ctx_loads ctxs signer (ignore_arg ctxs resolve_sibling_ignore_arg a o) o) (siblings ctxs a)) eqn:E;
      [|discriminate].
    apply andb_true_iff in E. destruct E as [E1 E2].
    destruct Hj as [->|Hj].
    - exact (ctx_loads_spec _ a E1 r Hr).
    - rewrite forallb_forall in E2. exact (ctx_loads_spec _ j (E2 j Hj) r Hr).
  Qed.

  Lemma resolve_loads_lists a l : resolve_loads ctxs signer a = Some l ->
    forall j r, In (j, r) l <-> (j = a \/ In j (siblings ctxs a)) /\ r < wx_nrepos (ctx_of ctxs j).
  Proof.
    unfold resolve_loads, resolve_loads_with. destruct (_ && _); [|discriminate]. intro H. injection H as <-.
    intros j r. cbn [flat_map]. rewrite in_app_iff, in_map_iff, in_flat_map. split.
    - intros [(r' & E & Hr')|(x & Hx & Hin)].
      + inversion E; subst. apply in_seq in Hr'. split; [left; reflexivity | lia].
      + apply in_map_iff in Hin. destruct Hin as (r' & E & Hr'). inversion E; subst.
        apply in_seq in Hr'. split; [right; exact Hx | lia].
    - intros ([->|Hj] & Hr).
      + left. exists r. split; [reflexivity | apply in_seq; lia].
      + right. exists j. split; [exact Hj|]. apply in_map_iff. exists r. split; [reflexivity | apply in_seq; lia].
  Qed.
End WiringProofs.

(* a sibling load that ignores signatures (the argument `true`) lets an unsigned index of
   another architecture reach resolution: two contexts, one repository each, the sibling's
   index unsigned *)
Definition wit_ctxs : list wctx :=
  [ {| wx_keys := ["k"]; wx_ignore := false; wx_exempt := []; wx_nrepos := 1; wx_byarch := [0; 1] |};
    {| wx_keys := ["k"]; wx_ignore := false; wx_exempt := []; wx_nrepos := 1; wx_byarch := [0; 1] |} ].
Definition wit_signer (j r : nat) : option string := match j with 0 => Some "k" | _ => None end.
Theorem wiring_sibling_ignore_refuted :
  ~ WiringHolds wit_ctxs wit_signer
      (fun a => match resolve_loads_with wit_ctxs wit_signer "$a.ignoreSignatures" "true" a with Some _ => true | None => false end) /\
  wiring_tags wit_ctxs wit_signer
      (fun a => match resolve_loads_with wit_ctxs wit_signer "$a.ignoreSignatures" "true" a with Some _ => true | None => false end)
    = ["viol:unverified-sibling-index-reaches-resolution"].
Proof.
  split; [|vm_compute; reflexivity].
  intro H. specialize (H 0). destruct H with (j := 1) (r := 0) as [H1|[H1|(k & Hs & _)]].
  - simpl; lia.
  - vm_compute; reflexivity.
  - right. vm_compute. left. reflexivity.
  - simpl; lia.
  - discriminate.
  - destruct H1.
  - discriminate.
Qed.

(* ================= rewritten local files ================= *)
Section FileProofs.
  Variable loc : nat -> string.
  Variable arch : string.
  Variable K : Type.
  Variable K_eqb : K -> K -> bool.
  Variable ctx : repo_call -> nat -> K.
  Hypothesis K_eqb_sound : forall a b, K_eqb a b = true -> a = b.
  Hypothesis ctx_separates : forall c c' r, ctx c r = ctx c' r ->
    forall sg, auth_sig loc arch c r sg = auth_sig loc arch c' r sg.

  Notation A := (auth_sig loc arch).

  (* every entry was made from a version the repository carried, at that version's mtime,
     under some call with that context *)
  Definition entry_ok (w : fworld) (e : fentry K) : Prop :=
    let '(r, k, m, res) := e in
    exists v c0, In v (w r) /\ fv_mtime v = m /\ k = ctx c0 r /\
                 res = if A c0 r (fv_signer v) && fv_parses v then Some (fv_id v) else None.
  Definition store_ok (w : fworld) (s : fstore K) : Prop := forall e, In e s -> entry_ok w e.

  Lemma flookup_in s r k m res : flookup K K_eqb s r k = Some (m, res) -> In (r, k, m, res) s.
  Proof.
    induction s as [|[[[r' k'] m'] res'] s IH]; simpl; [discriminate|].
    destruct (Nat.eqb r r' && K_eqb k k') eqn:E.
    - intro H. inversion H; subst. apply andb_true_iff in E. destruct E as [E1 E2].
      apply Nat.eqb_eq in E1. apply K_eqb_sound in E2. subst. left. reflexivity.
    - intro H. right. apply IH. exact H.
  Qed.

  Lemma store_ok_rewrite w s r v : store_ok w s -> store_ok (put_version w r v) s.
  Proof.
    intros H [[[r' k] m] res] He. destruct (H _ He) as (v' & c0 & Hin & R). exists v', c0. split; [|exact R].
    unfold put_version. destruct (Nat.eqb r' r); [right; exact Hin | exact Hin].
  Qed.

  (* what one fget answers *)
  Lemma fget_spec w s c r : store_ok w s ->
    store_ok w (snd (fget loc arch K K_eqb ctx w s c r)) /\
    forall id, fst (fget loc arch K K_eqb ctx w s c r) = Some id ->
      (exists v, In v (w r) /\ fv_id v = id /\ A c r (fv_signer v) = true) /\
      (forall cur older, w r = cur :: older -> visible_head (w r) = true -> A c r (fv_signer cur) = true).
  Proof.
    intro Hs. unfold fget. destruct (w r) as [|v older] eqn:W; [split; [exact Hs | intros id H; discriminate]|].
    assert (store_ok w ((r, ctx c r, fv_mtime v, if A c r (fv_signer v) && fv_parses v then Some (fv_id v) else None) :: s)) as Hs'.
    { intros e [<-|He]; [|exact (Hs e He)]. exists v, c. rewrite W. split; [left; reflexivity|]. repeat split. }
    assert (forall id, (if A c r (fv_signer v) && fv_parses v then Some (fv_id v) else None) = Some id ->
              (exists v0, In v0 (v :: older) /\ fv_id v0 = id /\ A c r (fv_signer v0) = true) /\
              (forall cur older0, v :: older = cur :: older0 -> visible_head (v :: older) = true -> A c r (fv_signer cur) = true)) as Fresh.
    { intros id H. destruct (A c r (fv_signer v)) eqn:E; [|discriminate]. destruct (fv_parses v); [|discriminate]. inversion H; subst.
      split; [exists v; split; [left; reflexivity | split; [reflexivity | exact E]]|].
      intros cur older0 Eq _. inversion Eq; subst. exact E. }
    destruct (flookup K K_eqb s r (ctx c r)) as [[before res]|] eqn:L; [|split; [exact Hs' | exact Fresh]].
    destruct (before <? fv_mtime v)%N eqn:Lt; [split; [exact Hs' | exact Fresh]|].
    split; [exact Hs|]. cbn [fst]. intros id Hres. subst res.
    apply flookup_in in L. destruct (Hs _ L) as (v' & c0 & Hin & Hm & Hk & Hr).
    rewrite W in Hin.
    assert (A c r (fv_signer v') = A c0 r (fv_signer v')) as Eq by (apply ctx_separates; exact Hk).
    destruct (A c0 r (fv_signer v')) eqn:E; [|discriminate]. destruct (fv_parses v'); [|discriminate]. inversion Hr; subst id.
    split; [exists v'; split; [exact Hin | split; [reflexivity | rewrite Eq; reflexivity]]|].
    intros cur older0 Eqw Vis. inversion Eqw; subst cur older0.
    (* a visible head has an mtime above every older version: the entry was made from the head itself *)
    destruct Hin as [<-|Hin]; [rewrite Eq; reflexivity|exfalso].
    simpl in Vis. rewrite forallb_forall in Vis. specialize (Vis v' Hin). apply N.ltb_lt in Vis. apply N.ltb_ge in Lt. lia.
  Qed.

  Lemma fget_all_spec w c : forall rs s, store_ok w s ->
    store_ok w (snd (fget_all loc arch K K_eqb ctx w s c rs)) /\
    forall r id, In (r, Some id) (fst (fget_all loc arch K K_eqb ctx w s c rs)) ->
      (exists v, In v (w r) /\ fv_id v = id /\ A c r (fv_signer v) = true) /\
      (forall cur older, w r = cur :: older -> visible_head (w r) = true -> A c r (fv_signer cur) = true).
  Proof.
    induction rs as [|r rs IH]; intros s Hs; simpl; [split; [exact Hs | intros r id []]|].
    destruct (fget_spec w s c r Hs) as [H1 H2].
    destruct (fget loc arch K K_eqb ctx w s c r) as [res s1]. cbn [fst snd] in H1, H2.
    destruct (IH s1 H1) as [H3 H4].
    destruct (fget_all loc arch K K_eqb ctx w s1 c rs) as [l s2]. cbn [fst snd] in *.
    split; [exact H3|]. intros r' id [E|Hin]; [inversion E; subst; apply H2; reflexivity | apply H4; exact Hin].
  Qed.

  Lemma got_of_in l r id : In (r, id) (got_of l) -> In (r, Some id) l.
  Proof.
    unfold got_of. rewrite in_flat_map. intros ([r' [v|]] & Hin & H); simpl in H; [|destruct H].
    destruct H as [E|[]]. inversion E; subst. exact Hin.
  Qed.

  (* the model's answers, put in place of the observed ones, meet the statement — for every
     history of calls and rewrites, from any initial state of the files *)
  Theorem files_model_holds : forall evs w s, store_ok w s ->
    FilesHold loc arch w (answered evs (frun loc arch K K_eqb ctx w s evs)).
  Proof.
    induction evs as [|[r v|c got] evs IH]; intros w s Hs; [exact I| |].
    - simpl. apply IH. apply store_ok_rewrite. exact Hs.
    - cbn [frun]. destruct (fget_all_spec w c (rc_repos c) s Hs) as [H1 H2].
      destruct (fget_all loc arch K K_eqb ctx w s c (rc_repos c)) as [l s'] eqn:G. cbn [fst snd] in H1, H2.
      cbn [answered FilesHold]. split; [|apply IH; exact H1].
      intros r id Hin. destruct (forallb _ l); [|destruct Hin]. apply H2. apply got_of_in. exact Hin.
  Qed.
End FileProofs.

(* the key of fix C04-F3 separates the contexts also with the signer varying *)
Lemma ctx_fixed_separates_sig loc arch c c' r :
  ctx_fixed loc arch c r = ctx_fixed loc arch c' r -> forall sg, auth_sig loc arch c r sg = auth_sig loc arch c' r sg.
Proof.
  unfold ctx_fixed, auth_sig. intros H sg. injection H as H1 H2. rewrite <- H1 in *.
  destruct (call_check_required loc arch c r); [|reflexivity]. rewrite H2. reflexivity.
Qed.

Lemma vctx_eqb_sound' a b : vctx_eqb a b = true -> a = b.
Proof.
  destruct a as [a1 a2], b as [b1 b2]. unfold vctx_eqb. cbn [fst snd]. intro H.
  apply andb_true_iff in H. destruct H as [H1 H2]. apply Bool.eqb_prop in H1.
  apply list_eqb_spec in H2; [|intros; apply String.eqb_eq]. subst. reflexivity.
Qed.

Theorem files_fixed_holds loc arch evs w :
  FilesHold loc arch w (answered evs (frun loc arch vctx vctx_eqb (ctx_fixed loc arch) w [] evs)).
Proof.
  apply files_model_holds; [apply vctx_eqb_sound' | intros; apply ctx_fixed_separates_sig; assumption | intros e []].
Qed.

(* the validator decides the statement *)
Lemma call_file_tags_iff loc arch w c got : call_file_tags loc arch w c got = [] <-> CallHolds loc arch w c got.
Proof.
  unfold call_file_tags, CallHolds. split.
  - intros H r id Hin.
    assert (forall l, In (r, id) l ->
      flat_map (fun p => let '(r, id) := p in
        tag_if (negb (existsb (fun v => Nat.eqb (fv_id v) id && auth_sig loc arch c r (fv_signer v)) (w r)))
               (if existsb (fun v => Nat.eqb (fv_id v) id) (w r) then "viol:index-used-without-trusted-signature"
                else "viol:index-returned-that-the-repository-never-carried") ++
        match w r with
        | cur :: _ => tag_if (visible_head (w r) && negb (auth_sig loc arch c r (fv_signer cur)))
                             "viol:repository-used-although-its-index-in-place-does-not-verify"
        | [] => []
        end) l = [] ->
      (existsb (fun v => Nat.eqb (fv_id v) id && auth_sig loc arch c r (fv_signer v)) (w r) = true) /\
      match w r with cur :: _ => visible_head (w r) && negb (auth_sig loc arch c r (fv_signer cur)) = false | [] => True end) as G.
    { induction l as [|[r' id'] l IH]; intros Hl T; [destruct Hl|]. simpl in T. apply app_eq_nil in T. destruct T as [T1 T2].
      destruct Hl as [E|Hl]; [|exact (IH Hl T2)]. inversion E; subst. apply app_eq_nil in T1. destruct T1 as [T1a T1b].
      split.
      - destruct (existsb (fun v => Nat.eqb (fv_id v) id && auth_sig loc arch c r (fv_signer v)) (w r)); [reflexivity|].
        simpl in T1a. destruct (existsb _ (w r)); discriminate.
      - destruct (w r) as [|cur older]; [exact I|]. destruct (visible_head (cur :: older) && negb (auth_sig loc arch c r (fv_signer cur))); [discriminate | reflexivity]. }
    destruct (G got Hin H) as [G1 G2]. split.
    + apply existsb_exists in G1. destruct G1 as (v & Hv & E). apply andb_true_iff in E. destruct E as [E1 E2].
      apply Nat.eqb_eq in E1. exists v. auto.
    + intros cur older W Vis. rewrite W in G2, Vis. rewrite Vis in G2. simpl in G2. apply negb_false_iff in G2. exact G2.
  - intro H. induction got as [|[r id] got IH]; [reflexivity|]. simpl.
    rewrite IH by (intros r' id' Hin; apply H; right; exact Hin). rewrite app_nil_r.
    destruct (H r id (or_introl eq_refl)) as [(v & Hv & Hid & Ha) Hcur].
    assert (existsb (fun v0 => Nat.eqb (fv_id v0) id && auth_sig loc arch c r (fv_signer v0)) (w r) = true) as X.
    { apply existsb_exists. exists v. split; [exact Hv|]. rewrite Hid, Nat.eqb_refl, Ha. reflexivity. }
    rewrite X. simpl. destruct (w r) as [|cur older] eqn:W; [reflexivity|].
    destruct (visible_head (cur :: older)) eqn:Vis; [|reflexivity].
    rewrite (Hcur cur older eq_refl eq_refl). reflexivity.
Qed.

Theorem files_tags_iff loc arch : forall evs w, files_tags loc arch w evs = [] <-> FilesHold loc arch w evs.
Proof.
  induction evs as [|[r v|c got] evs IH]; intro w; simpl; [tauto | apply IH|].
  split.
  - intro H. apply app_eq_nil in H. destruct H as [H1 H2]. split; [apply call_file_tags_iff; exact H1 | apply IH; exact H2].
  - intros [H1 H2]. rewrite (proj2 (call_file_tags_iff loc arch w c got) H1), (proj2 (IH w) H2). reflexivity.
Qed.

(* ================= remote indexes served with an ETag ================= *)
From Apko Require Import Model.IndexCacheEtag.
Section EtagProofs.
  Variable loc : nat -> string.
  Variable arch : string.
  Variable K : Type.
  Variable K_eqb : K -> K -> bool.
  Variable ctx : repo_call -> nat -> K.
  Hypothesis K_eqb_sound : forall a b, K_eqb a b = true -> a = b.
  Hypothesis ctx_separates : forall c c' r, ctx c r = ctx c' r ->
    forall sg, auth_sig loc arch c r sg = auth_sig loc arch c' r sg.

  Notation A := (auth_sig loc arch).
  Notation entry_ok := (entry_ok loc arch K ctx).
  Definition estore_ok (w : fworld) (s : list (eentry K)) : Prop := forall e, In e s -> entry_ok w e.

  Lemma elookup_in s r k e res : elookup K K_eqb s r k e = Some res -> In (r, k, e, res) s.
  Proof.
    induction s as [|[[[r' k'] e'] res'] s IH]; simpl; [discriminate|].
    destruct (Nat.eqb r r' && K_eqb k k' && N.eqb e e') eqn:E.
    - intro H. inversion H; subst. apply andb_true_iff in E. destruct E as [E E3]. apply andb_true_iff in E. destruct E as [E1 E2].
      apply Nat.eqb_eq in E1. apply K_eqb_sound in E2. apply N.eqb_eq in E3. subst. left. reflexivity.
    - intro H. right. apply IH. exact H.
  Qed.

  Lemma estore_ok_rewrite w s r v : estore_ok w s -> estore_ok (put_version w r v) s.
  Proof.
    intros H [[[r' k] m] res] He. destruct (H _ He) as (v' & c0 & Hin & R). exists v', c0. split; [|exact R].
    unfold put_version. destruct (Nat.eqb r' r); [right; exact Hin | exact Hin].
  Qed.

  Lemma eget_spec w s u c r : estore_ok w s ->
    estore_ok w (fst (snd (eget loc arch K K_eqb ctx w (s, u) c r))) /\
    forall id, fst (eget loc arch K K_eqb ctx w (s, u) c r) = Some id ->
      (exists v, In v (w r) /\ fv_id v = id /\ A c r (fv_signer v) = true) /\
      (forall cur older, w r = cur :: older -> visible_head (w r) = true -> A c r (fv_signer cur) = true).
  Proof.
    intro Hs. unfold eget. destruct (w r) as [|v older] eqn:W; [split; [exact Hs | intros id H; discriminate]|].
    destruct (elookup K K_eqb s r (ctx c r) (fv_mtime v)) as [res|] eqn:L.
    - cbn [fst snd]. split; [exact Hs|]. intros id Hres. subst res.
      apply elookup_in in L. destruct (Hs _ L) as (v' & c0 & Hin & Hm & Hk & Hr). rewrite W in Hin.
      assert (A c r (fv_signer v') = A c0 r (fv_signer v')) as Eq by (apply ctx_separates; exact Hk).
      destruct (A c0 r (fv_signer v')) eqn:E; [|discriminate]. destruct (fv_parses v'); [|discriminate]. inversion Hr; subst id.
      split; [exists v'; split; [exact Hin | split; [reflexivity | rewrite Eq; reflexivity]]|].
      intros cur older0 Eqw Vis. inversion Eqw; subst cur older0.
      destruct Hin as [<-|Hin]; [rewrite Eq; reflexivity|exfalso].
      simpl in Vis. rewrite forallb_forall in Vis. specialize (Vis v' Hin). apply N.ltb_lt in Vis. lia.
    - cbn [fst snd]. split.
      + intros e [<-|He].
        * exists v, c. rewrite W. split; [left; reflexivity|]. repeat split.
        * apply Hs. destruct (prev_etag K K_eqb u r (ctx c r)); [apply filter_In in He; tauto | exact He].
      + intros id H. destruct (A c r (fv_signer v)) eqn:E; [|discriminate]. destruct (fv_parses v); [|discriminate]. inversion H; subst.
        split; [exists v; split; [left; reflexivity | split; [reflexivity | exact E]]|].
        intros cur older0 Eq _. inversion Eq; subst. exact E.
  Qed.

  Lemma eget_all_spec w c : forall rs s u, estore_ok w s ->
    estore_ok w (fst (snd (eget_all loc arch K K_eqb ctx w (s, u) c rs))) /\
    forall r id, In (r, Some id) (fst (eget_all loc arch K K_eqb ctx w (s, u) c rs)) ->
      (exists v, In v (w r) /\ fv_id v = id /\ A c r (fv_signer v) = true) /\
      (forall cur older, w r = cur :: older -> visible_head (w r) = true -> A c r (fv_signer cur) = true).
  Proof.
    induction rs as [|r rs IH]; intros s u Hs; simpl; [split; [exact Hs | intros r id []]|].
    destruct (eget_spec w s u c r Hs) as [H1 H2].
    destruct (eget loc arch K K_eqb ctx w (s, u) c r) as [res [s1 u1]]. cbn [fst snd] in H1, H2.
    destruct (IH s1 u1 H1) as [H3 H4].
    destruct (eget_all loc arch K K_eqb ctx w (s1, u1) c rs) as [l [s2 u2]]. cbn [fst snd] in *.
    split; [exact H3|]. intros r' id [E|Hin]; [inversion E; subst; apply H2; reflexivity | apply H4; exact Hin].
  Qed.

  Theorem etag_model_holds : forall evs w s u, estore_ok w s ->
    FilesHold loc arch w (answered evs (erun loc arch K K_eqb ctx w (s, u) evs)).
  Proof.
    induction evs as [|[r v|c got] evs IH]; intros w s u Hs; [exact I| |].
    - simpl. apply IH. apply estore_ok_rewrite. exact Hs.
    - cbn [erun]. destruct (eget_all_spec w c (rc_repos c) s u Hs) as [H1 H2].
      destruct (eget_all loc arch K K_eqb ctx w (s, u) c (rc_repos c)) as [l [s' u']] eqn:G. cbn [fst snd] in H1, H2.
      cbn [answered FilesHold]. split; [|apply IH; exact H1].
      intros r id Hin. destruct (forallb _ l); [|destruct Hin]. apply H2. apply (got_of_in l). exact Hin.
  Qed.
End EtagProofs.

Theorem etag_fixed_holds loc arch evs w :
  FilesHold loc arch w (answered evs (erun loc arch vctx vctx_eqb (ctx_fixed loc arch) w ([], []) evs)).
Proof.
  apply etag_model_holds; [apply vctx_eqb_sound' | intros; apply ctx_fixed_separates_sig; assumption | intros e []].
Qed.
