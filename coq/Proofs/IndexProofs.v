(* C04 — proofs about Model/Index.v against Spec/IndexSpec.v. *)
From Apko Require Import Base.Prelude Base.Regex Generated.Regexes Generated.IndexConsts Generated.IndexShapes
  Model.Index Spec.IndexSpec.
Open Scope string_scope. Open Scope list_scope.

(* ---- strings -------------------------------------------------------------- *)
Lemma strip_prefix_spec p : forall s r, strip_prefix p s = Some r -> s = (p ++ r)%string.
Proof.
  induction p as [|a p IH]; simpl; intros s r H.
  - inversion H; reflexivity.
  - destruct s as [|b s]; [discriminate|].
    destruct (Ascii.eqb a b) eqn:E; [|discriminate].
    apply Ascii.eqb_eq in E; subst b. f_equal. apply IH; exact H.
Qed.

Lemma strip_prefix_app p r : strip_prefix p (p ++ r)%string = Some r.
Proof. induction p as [|a p IH]; simpl; [reflexivity|]. rewrite Ascii.eqb_refl. exact IH. Qed.

Lemma cut_dot_spec : forall s a b, cut_dot s = Some (a, b) -> s = (a ++ "." ++ b)%string.
Proof.
  induction s as [|c s IH]; simpl; intros a b H; [discriminate|].
  destruct (Ascii.eqb c ".") eqn:E.
  - apply Ascii.eqb_eq in E; subst c. inversion H; subst. reflexivity.
  - destruct (cut_dot s) as [[a' b']|] eqn:C; [|discriminate].
    inversion H; subst. simpl. f_equal. apply IH; reflexivity.
Qed.

Lemma mem_str_In x l : mem_str x l = true <-> In x l.
Proof.
  induction l as [|y l IH]; simpl; [split; [discriminate | tauto]|].
  rewrite orb_true_iff, IH, String.eqb_eq. split; intros [H|H]; auto.
Qed.

Lemma has_prefix_app p r : has_prefix p (p ++ r)%string = true.
Proof. unfold has_prefix. rewrite strip_prefix_app. reflexivity. Qed.

Lemma has_prefix_neq p a b : has_prefix p a = true -> has_prefix p b = false -> a <> b.
Proof. intros Ha Hb E; subst; congruence. Qed.

(* ---- the validator decides the readable statement ------------------------- *)
Lemma supported_names_spec an a : supported an = Some a -> In an supported_names.
Proof.
  unfold supported, supported_names. intro H.
  destruct (String.eqb an "RSA") eqn:E1; [apply String.eqb_eq in E1; subst; simpl; auto|].
  destruct (String.eqb an "RSA256") eqn:E2; [apply String.eqb_eq in E2; subst; simpl; auto|].
  discriminate.
Qed.

Section WithOracles.
  Variable B D : Type.
  Variable raw : list member -> B.
  Variable hash : halg -> B -> D.
  Variable verify : string -> halg -> D -> list N -> bool.
  Variable parse_text : list N -> option (list string).

  Notation Authentic := (Authentic B D raw hash verify).
  Notation authentic_b := (authentic_b B D raw hash verify).
  Notation pri := (parse_repository_index B D raw hash verify parse_text).
  Notation ifa := (index_from_archive parse_text).
  Notation rt := (read_toks parse_text).

  Lemma authentic_b_iff keys m1 rest : authentic_b keys m1 rest = true <-> Authentic keys m1 rest.
  Proof.
    unfold authentic_b, IndexSpec.Authentic. rewrite existsb_exists. split.
    - intros (e & He & H). apply existsb_exists in H. destruct H as (key & Hk & H).
      apply existsb_exists in H. destruct H as (an & Han & H).
      destruct (supported an) as [a|] eqn:S; [|discriminate].
      apply andb_true_iff in H. destruct H as [H1 H2]. apply String.eqb_eq in H1.
      exists e, an, a, key. auto.
    - intros (e & an & a & key & He & Hn & S & Hk & V).
      exists e. split; [exact He|]. apply existsb_exists. exists key. split; [exact Hk|].
      apply existsb_exists. exists an. split; [eapply supported_names_spec; eauto|].
      rewrite S. apply andb_true_iff. split; [apply String.eqb_eq; exact Hn | exact V].
  Qed.

  Lemma str_list_eqb_spec (a b : list string) : list_eqb String.eqb a b = true <-> a = b.
  Proof. apply list_eqb_spec. intros; apply String.eqb_eq. Qed.

  Lemma holds_tags_iff keys a o :
    holds_tags B D raw hash verify parse_text keys a o = [] <-> Holds B D raw hash verify parse_text keys a o.
  Proof.
    unfold holds_tags, Holds. destruct o as [pkgs|].
    - destruct a as [|m1 rest].
      + split; [discriminate|]. intro H. destruct (H pkgs eq_refl) as (m1 & rest & E & _). discriminate.
      + destruct (authentic_b keys m1 rest) eqn:A; simpl.
        * destruct (signed_pkgs parse_text rest) as [sp|] eqn:S; simpl.
          -- destruct (list_eqb String.eqb sp pkgs) eqn:E; simpl.
             ++ apply str_list_eqb_spec in E; subst. split; [|reflexivity]. intros _ pk Hpk. inversion Hpk; subst.
                exists m1, rest. split; [reflexivity|]. split; [apply authentic_b_iff; exact A | exact S].
             ++ split; [discriminate|]. intro H. destruct (H pkgs eq_refl) as (m1' & rest' & E' & _ & S').
                inversion E'; subst. rewrite S in S'. inversion S'; subst.
                assert (list_eqb String.eqb pkgs pkgs = true) by (apply str_list_eqb_spec; reflexivity). congruence.
          -- split; [discriminate|]. intro H. destruct (H pkgs eq_refl) as (m1' & rest' & E' & _ & S').
             inversion E'; subst. congruence.
        * split; [discriminate|]. intro H. destruct (H pkgs eq_refl) as (m1' & rest' & E' & A' & _).
          inversion E'; subst. apply authentic_b_iff in A'. congruence.
    - split; [intros _ pk Hpk; discriminate | reflexivity].
  Qed.

  (* ---- the signature pass -------------------------------------------------- *)
  Lemma sig_name_parts_spec n alg key :
    sig_name_parts n = Some (alg, key) ->
    n = sig_entry_name alg key /\ full_match signature_file_regex n = true.
  Proof.
    unfold sig_name_parts. destruct (full_match signature_file_regex n) eqn:F; [|discriminate].
    destruct (strip_prefix sig_lit_prefix n) as [r|] eqn:S; [|discriminate].
    intro C. apply strip_prefix_spec in S. apply cut_dot_spec in C. subst. split; reflexivity.
  Qed.

  (* the generated signature-type switch admits exactly the supported types *)
  Lemma sig_kind_supported alg a : sig_kind_of alg = KAlg a -> supported alg = Some a.
  Proof.
    unfold sig_kind_of, sig_type_table. cbn [assoc_str].
    repeat match goal with
           | |- context [String.eqb alg ?s] =>
               let E := fresh "E" in destruct (String.eqb alg s) eqn:E;
               [apply String.eqb_eq in E; subst alg; vm_compute; intro H; inversion H; reflexivity|]
           end.
    vm_compute. intro H; inversion H.
  Qed.

  Definition sig_justified (keys : list string) (es : list entry) (s : sigrec) : Prop :=
    exists e alg, In e es /\ e_name e = sig_entry_name alg (s_key s) /\
      supported alg = Some (s_alg s) /\ In (s_key s) keys /\ s_sig s = e_body e.

  Lemma sig_pass_sound keys : forall es sigs,
    sig_pass keys es = Ok sigs -> forall s, In s sigs -> sig_justified keys es s.
  Proof.
    induction es as [|e es IH]; simpl; intros sigs H s Hs.
    - inversion H; subst. destruct Hs.
    - destruct (sig_name_parts (e_name e)) as [[alg key]|] eqn:P; [|discriminate].
      assert (forall sg, sig_pass keys es = Ok sg -> In s sg -> sig_justified keys (e :: es) s) as Lift.
      { intros sg Hsg Hin. destruct (IH sg Hsg s Hin) as (e' & alg' & A1 & A2).
        exists e', alg'. split; [right; exact A1 | exact A2]. }
      destruct (mem_str key keys) eqn:M; simpl in H.
      + destruct (sig_kind_of alg) as [|a|] eqn:K.
        * eapply Lift; eauto.
        * destruct (sig_pass keys es) as [more| | |] eqn:R; simpl in H; try discriminate.
          inversion H; subst. destruct Hs as [Hs|Hs].
          -- subst s. simpl. apply sig_name_parts_spec in P. destruct P as [P _].
             exists e, alg. simpl. split; [left; reflexivity|]. split; [exact P|].
             split; [apply sig_kind_supported; exact K|]. split; [apply mem_str_In; exact M | reflexivity].
          -- eapply Lift; eauto.
        * discriminate.
      + eapply Lift; eauto.
  Qed.

  (* ---- the verify loop ------------------------------------------------------- *)
  Lemma verify_loop_some (ok : sigrec -> bool) : forall sigs s,
    verify_loop ok sigs = Some s ->
    In s sigs /\ ok s = true /\
    exists before after, sigs = before ++ s :: after /\ forallb (fun x => negb (ok x)) before = true.
  Proof.
    induction sigs as [|x sigs IH]; simpl; intros s H; [discriminate|].
    destruct (ok x) eqn:E.
    - inversion H; subst. split; [left; reflexivity|]. split; [exact E|]. exists [], sigs. split; reflexivity.
    - destruct (IH s H) as (Hin & Hok & before & after & -> & Hb). split; [right; exact Hin|]. split; [exact Hok|].
      exists (x :: before), after. split; [reflexivity|]. simpl. rewrite E. exact Hb.
  Qed.

  Lemma verify_loop_none (ok : sigrec -> bool) : forall sigs,
    verify_loop ok sigs = None <-> existsb ok sigs = false.
  Proof.
    induction sigs as [|x sigs IH]; simpl; [tauto|]. destruct (ok x); simpl; [split; discriminate | exact IH].
  Qed.

  Lemma fill_signature_keeps v i : i_pkgs (fill_signature v i) = i_pkgs i /\ i_desc (fill_signature v i) = i_desc i.
  Proof. unfold fill_signature. destruct (i_sig i); split; reflexivity. Qed.

  Lemma fill_pres_none r : fill_pres None r = r.
  Proof. destruct r as [i| |]; try reflexivity. unfold fill_pres, fill_signature. destruct i as [p d [sg|]]; reflexivity. Qed.

  Lemma fill_pres_ok v r idx : fill_pres v r = POk idx -> exists i0, r = POk i0 /\ idx = fill_signature v i0.
  Proof. destruct r as [i| |]; simpl; intro H; try discriminate. inversion H. eauto. Qed.

  (* ---- parseRepositoryIndex with checking on --------------------------------- *)
  Lemma pri_checked_cases keys a :
    pri true keys a = PErr \/
    exists m1 rest sigs s, a = m1 :: rest /\ keys <> [] /\ existsb contains_slash keys = false /\
      sig_pass keys (m_entries m1) = Ok sigs /\
      verify_loop (sig_verifies B D raw hash verify rest) sigs = Some s /\
      pri true keys a = fill_pres (Some (s_sig s)) (ifa rest).
  Proof.
    unfold parse_repository_index. destruct keys as [|k keys']; [left; reflexivity|].
    destruct (existsb contains_slash (k :: keys')) eqn:Sl; [left; reflexivity|].
    destruct a as [|m1 rest]; [left; reflexivity|].
    destruct (sig_pass (k :: keys') (m_entries m1)) as [sigs| | |] eqn:SP; try (left; reflexivity).
    destruct sigs as [|s0 sigs']; [left; reflexivity|].
    destruct (verify_loop (sig_verifies B D raw hash verify rest) (s0 :: sigs')) as [s|] eqn:V; [|left; reflexivity].
    right. exists m1, rest, (s0 :: sigs'), s. repeat split; try assumption; discriminate.
  Qed.

  Lemma accepted_authentic keys m1 rest sigs s :
    sig_pass keys (m_entries m1) = Ok sigs ->
    verify_loop (sig_verifies B D raw hash verify rest) sigs = Some s ->
    Authentic keys m1 rest.
  Proof.
    intros SP V. apply verify_loop_some in V. destruct V as (Hs & V & _).
    destruct (sig_pass_sound keys _ _ SP s Hs) as (e & alg & He & Hn & Sup & Hk & Hb).
    exists e, alg, (s_alg s), (s_key s). unfold sig_verifies in V. rewrite Hb in V. auto.
  Qed.

  (* accepted: authentic, and the index handed on is the parse of exactly the
     remaining members, its Signature field filled in (when the signed part
     carries no .SIGN. entry of its own) with the body of the verified entry *)
  Lemma accept_sound keys a idx :
    pri true keys a = POk idx ->
    exists m1 rest, a = m1 :: rest /\ Authentic keys m1 rest /\
      exists i0, ifa rest = POk i0 /\ i_pkgs idx = i_pkgs i0 /\ i_desc idx = i_desc i0.
  Proof.
    intro H. destruct (pri_checked_cases keys a) as [E|(m1 & rest & sigs & s & -> & _ & _ & SP & V & E)]; [congruence|].
    exists m1, rest. split; [reflexivity|]. split; [eapply accepted_authentic; eauto|].
    rewrite E in H. apply fill_pres_ok in H. destruct H as (i0 & I & ->). exists i0. split; [exact I|].
    apply fill_signature_keeps.
  Qed.

  (* the Signature field of an accepted index: the signed part's own .SIGN. entry if
     it has one, otherwise the body of an entry of the first member that verifies
     for a configured key over the remaining bytes *)
  Lemma accept_signature_field keys a idx :
    pri true keys a = POk idx ->
    exists m1 rest i0, a = m1 :: rest /\ ifa rest = POk i0 /\
      match i_sig i0 with
      | Some sg => i_sig idx = Some sg
      | None => exists e alg a' key, i_sig idx = Some (e_body e) /\ In e (m_entries m1) /\
                  e_name e = sig_entry_name alg key /\ supported alg = Some a' /\ In key keys /\
                  verify key a' (hash a' (raw rest)) (e_body e) = true
      end.
  Proof.
    intro H. destruct (pri_checked_cases keys a) as [E|(m1 & rest & sigs & s & -> & _ & _ & SP & V & E)]; [congruence|].
    rewrite E in H. apply fill_pres_ok in H. destruct H as (i0 & I & ->). exists m1, rest, i0.
    split; [reflexivity|]. split; [exact I|]. unfold fill_signature. destruct (i_sig i0) as [sg|] eqn:S.
    - exact S.
    - apply verify_loop_some in V. destruct V as (Hs & V & _).
      destruct (sig_pass_sound keys _ _ SP s Hs) as (e & alg & He & Hn & Sup & Hk & Hb).
      exists e, alg, (s_alg s), (s_key s). simpl. unfold sig_verifies in V. rewrite Hb in *. repeat split; assumption.
  Qed.

  Lemma reject_not_authentic keys m1 rest :
    ~ Authentic keys m1 rest -> pri true keys (m1 :: rest) = PErr.
  Proof.
    intro NA. destruct (pri_checked_cases keys (m1 :: rest)) as [E|(m1' & rest' & sigs & s & E0 & _ & _ & SP & V & _)]; [exact E|].
    inversion E0; subst. exfalso. apply NA. eapply accepted_authentic; eauto.
  Qed.

  Lemma model_holds keys a idx :
    pri true keys a = POk idx -> Holds B D raw hash verify parse_text keys a (Some (i_pkgs idx)).
  Proof.
    intros H pkgs E. inversion E; subst. destruct (accept_sound keys a idx H) as (m1 & rest & -> & A & i0 & I & Pk & _).
    exists m1, rest. split; [reflexivity|]. split; [exact A|]. unfold signed_pkgs. rewrite I, Pk. reflexivity.
  Qed.

  Lemma reject_unsigned keys m1 rest :
    (forall e alg key, In e (m_entries m1) -> e_name e <> sig_entry_name alg key) ->
    pri true keys (m1 :: rest) = PErr.
  Proof.
    intro H. apply reject_not_authentic. intros (e & an & a & key & He & Hn & _). exact (H e an key He Hn).
  Qed.

  Lemma reject_unknown_keys keys m1 rest :
    (forall e alg key, In e (m_entries m1) -> e_name e = sig_entry_name alg key -> ~ In key keys) ->
    pri true keys (m1 :: rest) = PErr.
  Proof.
    intro H. apply reject_not_authentic. intros (e & an & a & key & He & Hn & _ & Hk & _). exact (H e an key He Hn Hk).
  Qed.

  Lemma reject_unverified keys m1 rest :
    (forall e key a, In e (m_entries m1) -> In key keys -> verify key a (hash a (raw rest)) (e_body e) = false) ->
    pri true keys (m1 :: rest) = PErr.
  Proof.
    intro H. apply reject_not_authentic. intros (e & an & a & key & He & _ & _ & Hk & V).
    rewrite (H e key a He Hk) in V. discriminate.
  Qed.

  Lemma reject_no_keys a : pri true [] a = PErr.
  Proof. reflexivity. Qed.

  Lemma reject_empty_archive keys : pri true keys [] = PErr.
  Proof. unfold parse_repository_index. destruct keys; [reflexivity|]. destruct (existsb _ _); reflexivity. Qed.

  Lemma unchecked_is_plain_parse keys a : pri false keys a = ifa a.
  Proof. apply fill_pres_none. Qed.
End WithOracles.

  (* every entry name the signature pass tolerates matches the generated regex *)
  Lemma sig_pass_names keys : forall es sigs,
    sig_pass keys es = Ok sigs -> forall e, In e es -> full_match signature_file_regex (e_name e) = true.
  Proof.
    induction es as [|e es IH]; simpl; intros sigs H e' He'; [destruct He'|].
    destruct (sig_name_parts (e_name e)) as [[alg key]|] eqn:P; [|discriminate].
    destruct He' as [->|He'].
    - apply sig_name_parts_spec in P. tauto.
    - destruct (negb (mem_str key keys)); [eapply IH; eauto|].
      destruct (sig_kind_of alg); try discriminate; [eapply IH; eauto|].
      destruct (sig_pass keys es) eqn:R; simpl in H; try discriminate. eapply IH; eauto.
  Qed.


(* ---- names: the regular expression only lets signature names through ------- *)
Lemma L_lit_inv bs s : L (Lit bs) s -> s = bs.
Proof. intro H; inversion H; reflexivity. Qed.

Lemma N_of_ascii_inj a b : N_of_ascii a = N_of_ascii b -> a = b.
Proof. intro H. rewrite <- (ascii_N_embedding a), <- (ascii_N_embedding b), H. reflexivity. Qed.

Lemma bytes_of_string_cons a s : bytes_of_string (String a s) = N_of_ascii a :: bytes_of_string s.
Proof. reflexivity. Qed.

Lemma bytes_prefix_has_prefix p : forall n t,
  bytes_of_string n = bytes_of_string p ++ t -> has_prefix p n = true.
Proof.
  unfold has_prefix. induction p as [|a p IH]; intros n t H; [reflexivity|].
  rewrite bytes_of_string_cons in H. destruct n as [|b n]; [discriminate|].
  rewrite bytes_of_string_cons in H. simpl in H. inversion H as [[Hb Ht]].
  apply N_of_ascii_inj in Hb; subst b. simpl. rewrite Ascii.eqb_refl. eapply IH; eauto.
Qed.

Lemma sig_regex_prefix n :
  full_match signature_file_regex n = true -> has_prefix sig_lit_prefix n = true.
Proof.
  unfold full_match. destruct (anchored signature_file_regex) as [r|] eqn:A; [|discriminate].
  vm_compute in A. inversion A as [Hr]. clear A. intro M.
  apply matches_L in M; [|subst r; vm_compute; reflexivity].
  subst r. apply L_cat_inv in M. destruct M as (s1 & s2 & E & L1 & _).
  apply L_lit_inv in L1. subst s1.
  eapply bytes_prefix_has_prefix with (t := s2). rewrite E. reflexivity.
Qed.

(* a tolerated name is never one of the names the index reader takes packages
   or the description from, and it is one the index reader files as a signature *)
Lemma tolerated_names_disjoint n :
  full_match signature_file_regex n = true ->
  has_prefix sign_prefix n = true /\ n <> apk_index_filename /\ n <> description_filename.
Proof.
  intro F. apply sig_regex_prefix in F.
  assert (sig_lit_prefix = sign_prefix) as E by reflexivity. rewrite E in F.
  split; [exact F|]. split; eapply has_prefix_neq; eauto; vm_compute; reflexivity.
Qed.

(* ---- opt-outs ---------------------------------------------------------------- *)
Lemma append_nil_r s : (s ++ "")%string = s.
Proof. induction s; simpl; congruence. Qed.

Lemma index_url_spec r arch : index_url r arch = (r ++ "/" ++ arch ++ "/APKINDEX.tar.gz")%string.
Proof.
  unfold index_url, index_url_format, index_filename. cbn [sprintf_s].
  rewrite append_nil_r. reflexivity.
Qed.

(* the exemption test read from the source is the exact comparison *)
Lemma exempt_test_spec r arch index : exempt_test r arch index = String.eqb (index_url r arch) index.
Proof. reflexivity. Qed.

Lemma should_check_iff ign listed index arch :
  should_check ign listed index arch = true <-> CheckRequired ign listed index arch.
Proof.
  unfold should_check, CheckRequired. destruct ign.
  - split; [discriminate | intros [H _]; discriminate].
  - rewrite negb_true_iff. split.
    + intro H. split; [reflexivity|]. intros r Hr E.
      assert (existsb (fun r0 => exempt_test r0 arch index) listed = true) as X.
      { apply existsb_exists. exists r. split; [exact Hr|]. rewrite exempt_test_spec, index_url_spec. apply String.eqb_eq; exact E. }
      congruence.
    + intros [_ H]. destruct (existsb _ listed) eqn:X; [|reflexivity].
      apply existsb_exists in X. destruct X as (r & Hr & E). rewrite exempt_test_spec in E. apply String.eqb_eq in E.
      rewrite index_url_spec in E. exfalso; exact (H r Hr E).
Qed.

Lemma check_required_b_iff ign listed index arch :
  check_required_b ign listed index arch = true <-> CheckRequired ign listed index arch.
Proof.
  unfold check_required_b, CheckRequired. rewrite andb_true_iff, negb_true_iff, forallb_forall.
  split; intros [H1 H2]; (split; [exact H1|]); intros r Hr.
  - specialize (H2 r Hr). rewrite negb_true_iff in H2. intro E. apply String.eqb_eq in E. congruence.
  - rewrite negb_true_iff. destruct (String.eqb _ index) eqn:E; [|reflexivity].
    apply String.eqb_eq in E. exfalso; exact (H2 r Hr E).
Qed.

(* ---- the modelled envelope of the tar walk ----------------------------------- *)
(* no two meta-headers in a row, and a size record never raises the number of
   512-byte blocks of the entry it applies to *)
Fixpoint toks_modelled (carried : option meta) (ts : list tok) : bool :=
  match ts with
  | [] => true
  | KZero :: _ => true
  | KMeta mt :: ts' => match carried with None => toks_modelled (Some mt) ts' | Some _ => false end
  | KEntry e :: ts' =>
      (match carried with
       | Some mt => match mt_resize mt with
                    | Some k => (blocks k <=? blocks (blen (e_body e)))%N
                    | None => true
                    end
       | None => true
       end) && toks_modelled None ts'
  end.

Lemma read_toks_modelled parse_text : forall ts carried idx,
  toks_modelled carried ts = true -> read_toks parse_text carried idx ts <> PUnmodelled.
Proof.
  induction ts as [|t ts IH]; intros carried idx H; simpl; [discriminate|].
  destruct t as [e|mt|].
  - simpl in H. apply andb_true_iff in H. destruct H as [H1 H2].
    assert (forall e', match handle parse_text idx e' with
                       | Some idx' => read_toks parse_text None idx' ts
                       | None => PErr end <> PUnmodelled) as K.
    { intro e'. destruct (handle parse_text idx e'); [apply IH; exact H2 | discriminate]. }
    destruct carried as [mt|]; [|apply K].
    unfold apply_meta. destruct (mt_resize mt) as [k|]; [|apply K].
    destruct (blocks k =? blocks (blen (e_body e)))%N eqn:E1; [apply K|].
    destruct (blocks k <? blocks (blen (e_body e)))%N eqn:E2; [discriminate|].
    apply N.leb_le in H1. apply N.eqb_neq in E1. apply N.ltb_ge in E2. lia.
  - simpl in H. destruct carried; [discriminate|]. apply IH; exact H.
  - destruct ts as [|[e|mt|] ts']; discriminate.
Qed.
