(* C04 — proofs about Model/Index.v against Spec/IndexSpec.v. *)
From Apko Require Import Base.Prelude Base.Regex Generated.Regexes Generated.IndexConsts
  Model.Index Spec.IndexSpec.
Open Scope string_scope. Open Scope list_scope.

(* ---- strings -------------------------------------------------------------- *)
Lemma strip_prefix_spec p : forall s r, strip_prefix p s = Some r -> s = (p ++ r)%string.
Proof.
  induction p as [|a p IH]; simpl; intros s r H.
  - inversion H; reflexivity.
  - destruct s as [|b s]; [discriminate|].
    destruct (Ascii.eqb a b) eqn:E; [|discriminate].
    apply Ascii.eqb_eq in E; subst b. f_equal. apply IH; exact H.
Qed.

Lemma strip_prefix_app p r : strip_prefix p (p ++ r)%string = Some r.
Proof. induction p as [|a p IH]; simpl; [reflexivity|]. rewrite Ascii.eqb_refl. exact IH. Qed.

Lemma cut_dot_spec : forall s a b, cut_dot s = Some (a, b) -> s = (a ++ "." ++ b)%string.
Proof.
  induction s as [|c s IH]; simpl; intros a b H; [discriminate|].
  destruct (Ascii.eqb c ".") eqn:E.
  - apply Ascii.eqb_eq in E; subst c. inversion H; subst. reflexivity.
  - destruct (cut_dot s) as [[a' b']|] eqn:C; [|discriminate].
    inversion H; subst. simpl. f_equal. apply IH; reflexivity.
Qed.

Lemma mem_str_In x l : mem_str x l = true <-> In x l.
Proof.
  induction l as [|y l IH]; simpl; [split; [discriminate | tauto]|].
  rewrite orb_true_iff, IH, String.eqb_eq. split; intros [H|H]; auto.
Qed.

Lemma has_prefix_app p r : has_prefix p (p ++ r)%string = true.
Proof. unfold has_prefix. rewrite strip_prefix_app. reflexivity. Qed.

Lemma has_prefix_neq p a b : has_prefix p a = true -> has_prefix p b = false -> a <> b.
Proof. intros Ha Hb E; subst; congruence. Qed.

(* ---- the validator decides the readable statement ------------------------- *)
Lemma supported_names_spec an a : supported an = Some a -> In an supported_names.
Proof.
  unfold supported, supported_names. intro H.
  destruct (String.eqb an "RSA") eqn:E1; [apply String.eqb_eq in E1; subst; simpl; auto|].
  destruct (String.eqb an "RSA256") eqn:E2; [apply String.eqb_eq in E2; subst; simpl; auto|].
  discriminate.
Qed.

Section WithOracles.
  Variable B D : Type.
  Variable raw : list member -> B.
  Variable hash : halg -> B -> D.
  Variable verify : string -> halg -> D -> list N -> bool.
  Variable parse_text : list N -> option (list string).

  Notation Authentic := (Authentic B D raw hash verify).
  Notation authentic_b := (authentic_b B D raw hash verify).
  Notation pri := (parse_repository_index B D raw hash verify parse_text).
  Notation ifa := (index_from_archive parse_text).
  Notation rt := (read_toks parse_text).

  Lemma authentic_b_iff keys m1 rest : authentic_b keys m1 rest = true <-> Authentic keys m1 rest.
  Proof.
    unfold authentic_b, IndexSpec.Authentic. rewrite existsb_exists. split.
    - intros (e & He & H). apply existsb_exists in H. destruct H as (key & Hk & H).
      apply existsb_exists in H. destruct H as (an & Han & H).
      destruct (supported an) as [a|] eqn:S; [|discriminate].
      apply andb_true_iff in H. destruct H as [H1 H2]. apply String.eqb_eq in H1.
      exists e, an, a, key. auto.
    - intros (e & an & a & key & He & Hn & S & Hk & V).
      exists e. split; [exact He|]. apply existsb_exists. exists key. split; [exact Hk|].
      apply existsb_exists. exists an. split; [eapply supported_names_spec; eauto|].
      rewrite S. apply andb_true_iff. split; [apply String.eqb_eq; exact Hn | exact V].
  Qed.

  Lemma str_list_eqb_spec (a b : list string) : list_eqb String.eqb a b = true <-> a = b.
  Proof. apply list_eqb_spec. intros; apply String.eqb_eq. Qed.

  Lemma holds_tags_iff keys a o :
    holds_tags B D raw hash verify parse_text keys a o = [] <-> Holds B D raw hash verify parse_text keys a o.
  Proof.
    unfold holds_tags, Holds. destruct o as [pkgs|].
    - destruct a as [|m1 rest].
      + split; [discriminate|]. intro H. destruct (H pkgs eq_refl) as (m1 & rest & E & _). discriminate.
      + destruct (authentic_b keys m1 rest) eqn:A; simpl.
        * destruct (signed_pkgs parse_text rest) as [sp|] eqn:S; simpl.
          -- destruct (list_eqb String.eqb sp pkgs) eqn:E; simpl.
             ++ apply str_list_eqb_spec in E; subst. split; [|reflexivity]. intros _ pk Hpk. inversion Hpk; subst.
                exists m1, rest. split; [reflexivity|]. split; [apply authentic_b_iff; exact A | exact S].
             ++ split; [discriminate|]. intro H. destruct (H pkgs eq_refl) as (m1' & rest' & E' & _ & S').
                inversion E'; subst. rewrite S in S'. inversion S'; subst.
                assert (list_eqb String.eqb pkgs pkgs = true) by (apply str_list_eqb_spec; reflexivity). congruence.
          -- split; [discriminate|]. intro H. destruct (H pkgs eq_refl) as (m1' & rest' & E' & _ & S').
             inversion E'; subst. congruence.
        * split; [discriminate|]. intro H. destruct (H pkgs eq_refl) as (m1' & rest' & E' & A' & _).
          inversion E'; subst. apply authentic_b_iff in A'. congruence.
    - split; [intros _ pk Hpk; discriminate | reflexivity].
  Qed.
End WithOracles.
