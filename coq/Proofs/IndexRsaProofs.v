(* C04 — RSAVerifyDigest in stages: what a successful verification presupposes, and what
   follows for parseRepositoryIndex over bytes when its verify oracle is that function. *)
From Apko Require Import Base.Prelude Generated.IndexShapes Model.Index Spec.IndexSpec Proofs.IndexProofs
  Model.IndexBytes Spec.IndexBytesSpec Proofs.IndexBytesProofs Model.IndexRsa.
Open Scope string_scope. Open Scope list_scope.

Lemma rsa_steps_known_true : rsa_steps_known = true.
Proof. reflexivity. Qed.

Section RsaProofs.
  Variable DER K D : Type.
  Variable digest_fits : halg -> D -> bool.
  Variable pem_first_block : list N -> option DER.
  Variable parse_pkix : DER -> option (pubkey K).
  Variable pkcs1v15 : K -> halg -> D -> list N -> bool.

  Notation rvd := (rsa_verify_digest (list N) DER K D digest_fits pem_first_block parse_pkix pkcs1v15).
  Notation rsakey := (pkix_rsa_key (list N) DER K pem_first_block parse_pkix).

  Theorem rsa_verify_digest_inv kb a d sig :
    rvd kb a d sig = true ->
    digest_fits a d = true /\ exists k, rsakey kb = Some k /\ pkcs1v15 k a d sig = true.
  Proof.
    unfold rsa_verify_digest, rsa_verify_digest_meaning, pkix_rsa_key. rewrite rsa_steps_known_true.
    destruct (digest_fits a d); [|discriminate]. simpl.
    destruct (pem_first_block kb) as [der|]; [|discriminate].
    destruct (parse_pkix der) as [[k|]|]; try discriminate. intro H. split; [reflexivity|]. exists k. auto.
  Qed.

  Theorem rsa_verify_digest_iff kb a d sig :
    rvd kb a d sig = true <->
    digest_fits a d = true /\ exists k, rsakey kb = Some k /\ pkcs1v15 k a d sig = true.
  Proof.
    split; [apply rsa_verify_digest_inv|]. intros (F & k & R & V).
    unfold rsa_verify_digest, rsa_verify_digest_meaning, pkix_rsa_key in *. rewrite rsa_steps_known_true, F. simpl.
    destruct (pem_first_block kb) as [der|]; [|discriminate].
    destruct (parse_pkix der) as [[k'|]|]; try discriminate. inversion R; subst. exact V.
  Qed.

  (* a key file that is not a PKIX RSA key never verifies anything *)
  Corollary not_pkix_rsa_never_verifies kb : rsakey kb = None -> forall a d sig, rvd kb a d sig = false.
  Proof.
    intros H a d sig. destruct (rvd kb a d sig) eqn:E; [|reflexivity].
    apply rsa_verify_digest_inv in E. destruct E as (_ & k & R & _). congruence.
  Qed.

  Variable gz_first : list N -> option (list N * nat).
  Variable tar_entries : list N -> option (list entry).
  Variable hash : halg -> list N -> D.
  Variable index_of_bytes : list N -> option index.
  Notation prib := (parse_repository_index_bytes D gz_first tar_entries hash rvd index_of_bytes).

  (* parseRepositoryIndex with RSAVerifyDigest as its verifier: acceptance requires a configured
     key FILE whose first PEM block is a PKIX RSA public key under which the entry verifies *)
  Theorem accept_requires_pkix_rsa_key keys b idx :
    prib true keys b = POk idx ->
    exists n e t kname kb a k,
      In (kname, kb) keys /\ e_name e = sig_entry_name t kname /\ supported t = Some a /\
      rsakey kb = Some k /\ digest_fits a (hash a (skipn n b)) = true /\
      pkcs1v15 k a (hash a (skipn n b)) (e_body e) = true.
  Proof.
    intro H. destruct (accept_requires_verified_entry D gz_first tar_entries hash rvd index_of_bytes keys b idx H)
      as (tarb & n & es & e & t & kname & kb & a & i0 & _ & _ & _ & Hn & _ & S & Hk & V & _).
    apply rsa_verify_digest_inv in V. destruct V as (F & k & R & V).
    exists n, e, t, kname, kb, a, k. auto 10.
  Qed.

  (* no configured key file is a PKIX RSA key: every archive is rejected *)
  Theorem no_rsa_key_rejects_everything keys :
    (forall kname kb, In (kname, kb) keys -> rsakey kb = None) ->
    forall b, prib true keys b = PErr.
  Proof.
    intros H b. destruct (prib true keys b) as [idx| |] eqn:E; [|reflexivity|exfalso; eapply prib_total; eauto].
    exfalso. destruct (accept_requires_pkix_rsa_key keys b idx E) as (n & e & t & kname & kb & a & k & Hk & _ & _ & R & _).
    rewrite (H kname kb Hk) in R. discriminate.
  Qed.
End RsaProofs.
