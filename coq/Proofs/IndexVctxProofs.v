(* C04 — verificationContext separates verification contexts: under a collision-free
   hash, equal context strings mean the same answer of shouldCheckSignatureForIndex
   and, when verification applies, the same set of (key name, key bytes) pairs. *)
From Coq Require Import DecimalString DecimalN.
From Apko Require Import Base.Prelude Generated.IndexShapes Model.Index Spec.IndexSpec Model.IndexCache
  Proofs.IndexCacheProofs Model.IndexVctx.
Open Scope string_scope. Open Scope list_scope.

(* ---- strings ---------------------------------------------------------------------- *)
Lemma sapp_assoc (a b c : string) : ((a ++ b) ++ c)%string = (a ++ (b ++ c))%string.
Proof. induction a as [|x a IH]; simpl; [reflexivity | rewrite IH; reflexivity]. Qed.
Lemma sapp_nil_r (s : string) : (s ++ "")%string = s.
Proof. induction s as [|x s IH]; simpl; [reflexivity | rewrite IH; reflexivity]. Qed.
Lemma sapp_length (a b : string) : String.length (a ++ b) = String.length a + String.length b.
Proof. induction a as [|x a IH]; simpl; [reflexivity | rewrite IH; reflexivity]. Qed.

Lemma sapp_len_inj : forall (x y r r' : string),
  String.length x = String.length y -> (x ++ r)%string = (y ++ r')%string -> x = y /\ r = r'.
Proof.
  induction x as [|a x IH]; destruct y as [|b y]; simpl; intros r r' L E; try discriminate.
  - split; [reflexivity | exact E].
  - inversion E; subst. inversion L as [L']. destruct (IH y r r' L' H1) as [-> ->]. split; reflexivity.
Qed.

Lemma sapp_inj_r : forall (s a b : string), (a ++ s)%string = (b ++ s)%string -> a = b.
Proof.
  intros s a. revert s. induction a as [|x a IH]; intros s b E.
  - destruct b as [|y b]; [reflexivity|]. exfalso.
    assert (String.length s = String.length (String y b ++ s)) as L by (rewrite <- E; reflexivity).
    rewrite sapp_length in L. simpl in L. lia.
  - destruct b as [|y b].
    + exfalso. assert (String.length (String x a ++ s) = String.length s) as L by (rewrite E; reflexivity).
      rewrite sapp_length in L. simpl in L. lia.
    + simpl in E. inversion E; subst. f_equal. eapply IH; eauto.
Qed.
Fixpoint no_colon (s : string) : bool :=
  match s with EmptyString => true | String c s' => negb (Ascii.eqb c ":") && no_colon s' end.

Lemma split_first_colon : forall (u v x y : string),
  no_colon u = true -> no_colon v = true ->
  (u ++ String ":" x)%string = (v ++ String ":" y)%string -> u = v /\ x = y.
Proof.
  induction u as [|a u IH]; destruct v as [|b v]; simpl; intros x y Hu Hv E.
  - inversion E; split; reflexivity.
  - inversion E; subst. rewrite Ascii.eqb_refl in Hv. discriminate.
  - inversion E; subst. rewrite Ascii.eqb_refl in Hu. discriminate.
  - inversion E; subst. apply andb_true_iff in Hu. apply andb_true_iff in Hv.
    destruct (IH v x y (proj2 Hu) (proj2 Hv) H1) as [-> ->]. split; reflexivity.
Qed.

(* ---- decimal rendering ---------------------------------------------------------------- *)
Lemma string_of_uint_no_colon d : no_colon (NilEmpty.string_of_uint d) = true.
Proof. induction d; simpl; try rewrite IHd; reflexivity. Qed.

Lemma dec_no_colon n : no_colon (dec n) = true.
Proof. apply string_of_uint_no_colon. Qed.

Lemma dec_inj a b : dec a = dec b -> a = b.
Proof.
  unfold dec. intro E.
  assert (N.to_uint a = N.to_uint b) as U.
  { pose proof (NilEmpty.usu (N.to_uint a)) as Ua. pose proof (NilEmpty.usu (N.to_uint b)) as Ub.
    rewrite E in Ua. rewrite Ua in Ub. inversion Ub; reflexivity. }
  rewrite <- (DecimalN.Unsigned.of_to a), <- (DecimalN.Unsigned.of_to b), U. reflexivity.
Qed.

Lemma slen_inj a b : slen a = slen b -> String.length a = String.length b.
Proof. unfold slen. apply Nnat.Nat2N.inj. Qed.

(* a length-prefixed field followed by anything: dec |x| ++ ":" ++ x ++ r *)
Definition field (x : string) : string := (dec (slen x) ++ String ":" x)%string.

Lemma field_inj x y r r' : (field x ++ r)%string = (field y ++ r')%string -> x = y /\ r = r'.
Proof.
  unfold field. rewrite !sapp_assoc. simpl. intro E.
  apply split_first_colon in E; [|apply dec_no_colon|apply dec_no_colon]. destruct E as [E1 E2].
  apply dec_inj, slen_inj in E1. exact (sapp_len_inj x y r r' E1 E2).
Qed.

(* ---- what one key writes into the hash, as interpreted from the generated shape -------- *)
Lemma vctx_entry_spec n k : vctx_entry n k = (field n ++ field k)%string.
Proof.
  unfold vctx_entry, vctx_writes, field. cbn -[dec slen String.append].
  cbn [sprintf show_farg Ascii.eqb Bool.eqb orb].
  repeat (rewrite sapp_assoc || rewrite sapp_nil_r || (progress (simpl String.append))). reflexivity.
Qed.

Lemma preimage_of_inj : forall l1 l2, vctx_preimage_of l1 = vctx_preimage_of l2 -> l1 = l2.
Proof.
  induction l1 as [|[n k] l1 IH]; destruct l2 as [|[n' k'] l2]; simpl; intro E.
  - reflexivity.
  - exfalso. rewrite vctx_entry_spec in E. unfold field in E. rewrite !sapp_assoc in E.
    destruct (dec (slen n')); simpl in E; discriminate.
  - exfalso. rewrite vctx_entry_spec in E. unfold field in E. rewrite !sapp_assoc in E.
    destruct (dec (slen n)); simpl in E; discriminate.
  - rewrite !vctx_entry_spec, !sapp_assoc in E.
    apply field_inj in E. destruct E as [-> E]. apply field_inj in E. destruct E as [-> E].
    rewrite (IH l2 E). reflexivity.
Qed.

(* ---- sorting keeps the pairs ------------------------------------------------------------ *)
Lemma insert_pair_in p q l : In q (insert_pair p l) <-> q = p \/ In q l.
Proof.
  induction l as [|x l IH]; simpl; [intuition|].
  destruct (String.leb (fst p) (fst x)); simpl; [intuition|]. rewrite IH. intuition.
Qed.
Lemma sort_pairs_in q l : In q (sort_pairs l) <-> In q l.
Proof.
  induction l as [|x l IH]; simpl; [tauto|]. rewrite insert_pair_in, IH. intuition.
Qed.
Lemma ordered_in q l : In q (ordered l) <-> In q l.
Proof. unfold ordered. destruct vctx_sorted; [apply sort_pairs_in | tauto]. Qed.

(* ---- hex ---------------------------------------------------------------------------------- *)
Definition unhex_digit (a : ascii) : N :=
  let n := N_of_ascii a in if (n <? 58)%N then n - 48 else n - 87.
Definition unhex2 (a b : ascii) : ascii := ascii_of_N (16 * unhex_digit a + unhex_digit b).

Lemma unhex2_hex c : unhex2 (hex_digit (N_of_ascii c / 16)) (hex_digit (N_of_ascii c mod 16)) = c.
Proof. destruct c as [[] [] [] [] [] [] [] []]; vm_compute; reflexivity. Qed.

Lemma hex_inj : forall a b, hex a = hex b -> a = b.
Proof.
  induction a as [|x a IH]; destruct b as [|y b]; simpl; intro E; try discriminate; [reflexivity|].
  inversion E as [[E1 E2 E3]]. rewrite (IH b E3). f_equal.
  rewrite <- (unhex2_hex x), <- (unhex2_hex y), E1, E2. reflexivity.
Qed.

Lemma sapp_inj_l : forall p a b : string, (p ++ a)%string = (p ++ b)%string -> a = b.
Proof. induction p as [|c p IH]; simpl; intros a b E; [exact E | inversion E; apply IH; assumption]. Qed.

(* ---- the context string determines the context ------------------------------------------- *)
Section Inj.
  Variable H : string -> string.
  Hypothesis H_collision_free : forall x y, H x = H y -> x = y.

  Theorem verification_context_injective c1 k1 c2 k2 :
    verification_context H c1 k1 = verification_context H c2 k2 ->
    c1 = c2 /\ (c1 = true -> forall p, In p k1 <-> In p k2).
  Proof.
    unfold verification_context. destruct c1, c2; intro E.
    - split; [reflexivity|]. intros _ p.
      apply sapp_inj_l, hex_inj, H_collision_free in E. unfold vctx_preimage in E.
      apply preimage_of_inj in E. rewrite <- (ordered_in p k1), <- (ordered_in p k2), E. tauto.
    - exfalso. unfold vctx_prefix, vctx_unverified in E. simpl in E. discriminate.
    - exfalso. unfold vctx_prefix, vctx_unverified in E. simpl in E. discriminate.
    - split; [reflexivity | discriminate].
  Qed.

  (* ---- as the key of the index cache ---------------------------------------------------------
     A call's key identifiers name (file name, key bytes) pairs through [material]; two
     identifiers with the same material are the same key. With the context string as the
     cache key, no call is handed an index it did not authorise. *)
  Variable signer : nat -> option string.
  Variable loc : nat -> string.
  Variable arch : string.
  Variable material : string -> string * string.
  Hypothesis material_inj : forall a b, material a = material b -> a = b.

  Definition ctx_real (c : repo_call) (r : nat) : string :=
    verification_context H (call_check_required loc arch c r) (map material (rc_keys c)).

  Lemma ctx_real_separates c c' r :
    ctx_real c r = ctx_real c' r -> authorised_b signer loc arch c r = authorised_b signer loc arch c' r.
  Proof.
    unfold ctx_real, authorised_b. intro E. apply verification_context_injective in E. destruct E as [E1 E2].
    rewrite <- E1. destruct (call_check_required loc arch c r); [|reflexivity]. cbn [negb orb].
    destruct (signer r) as [k|]; [|reflexivity]. specialize (E2 eq_refl).
    assert (forall l l', (forall p, In p (map material l) <-> In p (map material l')) ->
              existsb (String.eqb k) l = true -> existsb (String.eqb k) l' = true) as Sub.
    { intros l l' Hp Hx. apply existsb_exists in Hx. destruct Hx as (x & Hin & Hk). apply String.eqb_eq in Hk. subst x.
      assert (In (material k) (map material l')) as M by (apply Hp, in_map; exact Hin).
      apply in_map_iff in M. destruct M as (y & My & Hy). apply material_inj in My. subst y.
      apply existsb_exists. exists k. split; [exact Hy | apply String.eqb_refl]. }
    destruct (existsb (String.eqb k) (rc_keys c)) eqn:A, (existsb (String.eqb k) (rc_keys c')) eqn:B; try reflexivity.
    - rewrite (Sub _ _ E2 A) in B. discriminate.
    - assert (forall p, In p (map material (rc_keys c')) <-> In p (map material (rc_keys c))) as E2' by (intro p; symmetry; apply E2).
      rewrite (Sub _ _ E2' B) in A. discriminate.
  Qed.

  Theorem cache_real_context_sound cached cs :
    let out := run_history signer loc arch cached string String.eqb ctx_real [] cs in
    out = map (fresh_call signer loc arch) cs /\ HistoryHolds signer loc arch out.
  Proof.
    cbn zeta. apply cache_sound; [intros a b E; apply String.eqb_eq; exact E | intros; apply ctx_real_separates; assumption].
  Qed.
End Inj.
