(* C07 — the database writer with repeated paths (Model/InstallDb.v):
     - when no package ships a path twice it writes exactly the headers of
       Model/Install.v's [db_entries] ([db_of_nodup]): every theorem about
       [f_db] is one about the writer the correspondence compares;
     - the rule table applied to a package against itself ([self_rows]): the
       later copy of a path wins unless the bytes are the same (then the first
       stays, with ITS mode);
     - the writer records the LAST header of a repeated path however the clash
       went ([dup_records_last_refuted], finding C07-F16). *)
From Apko Require Import Base.Prelude Model.Install Model.InstallDb Proofs.InstallProofs Proofs.InstallProvProofs.
Open Scope string_scope. Open Scope list_scope.

Definition nd (pr : list hdr) : Prop := NoDup (List.map h_path pr).

Lemma has_hdr_iff : forall pr q, has_hdr pr q = true <-> exists h, In h pr /\ h_path h = q.
Proof.
  intros pr q. unfold has_hdr. rewrite existsb_exists. split; intros (h & A & B); exists h; split; auto.
  - apply path_eqb_eq. exact B.
  - apply path_eqb_eq. exact B.
Qed.

Lemma count_path_nodup : forall pr q, nd pr -> count_path pr q = if has_hdr pr q then 1 else 0.
Proof.
  induction pr as [|x r IH]; intros q N; [reflexivity|].
  unfold nd in N. cbn [List.map] in N. inversion N as [|? ? Nx Nr]; subst.
  unfold count_path, has_hdr in *. cbn [filter existsb].
  destruct (path_eqb (h_path x) q) eqn:E; cbn [List.length orb].
  - apply path_eqb_eq in E. subst q.
    specialize (IH (h_path x) Nr).
    destruct (existsb (fun h => path_eqb (h_path h) (h_path x)) r) eqn:F.
    + exfalso. apply Nx. apply existsb_exists in F. destruct F as (h & A & B). apply path_eqb_eq in B.
      rewrite <- B. apply in_map. exact A.
    + rewrite IH. reflexivity.
  - apply IH. exact Nr.
Qed.

Lemma last_at_nodup : forall pr x, nd pr -> In x pr -> last_at pr (h_path x) = Some x.
Proof.
  intros pr x N I. unfold last_at.
  destruct (find (fun h => path_eqb (h_path h) (h_path x)) (rev pr)) as [z|] eqn:F.
  - apply find_some in F. destruct F as [A B]. apply in_rev in A. apply path_eqb_eq in B.
    f_equal. eapply nodup_map_inj; eauto.
  - exfalso. pose proof (find_none _ _ F x (proj1 (in_rev pr x) I)) as C. cbn in C.
    rewrite path_eqb_refl in C. discriminate.
Qed.

Lemma last_at_some : forall pr q h, last_at pr q = Some h -> In h pr /\ h_path h = q.
Proof.
  intros pr q h F. unfold last_at in F. apply find_some in F. destruct F as [A B].
  split; [apply in_rev; exact A | apply path_eqb_eq; exact B].
Qed.

Lemma is_dir_hdr_nodup : forall pr q, nd pr ->
  (is_dir_hdr pr q = true <-> exists h, last_at pr q = Some h /\ h_kind h = KDir).
Proof.
  intros pr q N. unfold is_dir_hdr. rewrite existsb_exists. split.
  - intros (h & A & B). apply andb_true_iff in B. destruct B as [B C].
    apply path_eqb_eq in B. apply kind_eqb_eq in C. exists h. split; [|exact C].
    subst q. apply last_at_nodup; assumption.
  - intros (h & A & B). apply last_at_some in A. destruct A as [A C]. exists h. split; [exact A|].
    apply andb_true_iff. split; [apply path_eqb_eq; exact C | apply kind_eqb_eq; exact B].
Qed.

Lemma is_dir_has : forall pr q, is_dir_hdr pr q = true -> has_hdr pr q = true.
Proof.
  intros pr q H. unfold is_dir_hdr in H. apply existsb_exists in H. destruct H as (h & A & B).
  apply andb_true_iff in B. destruct B as [B _]. apply has_hdr_iff. exists h. split; [exact A | apply path_eqb_eq; exact B].
Qed.

Lemma expands_nodup : forall pr cur e, nd pr -> expands pr cur e = if is_dir_hdr pr cur then e else 0.
Proof.
  intros pr cur e N. destruct (is_dir_hdr pr cur) eqn:D.
  - apply (is_dir_hdr_nodup pr cur N) in D. destruct D as (h & A & B). unfold expands. rewrite A, B. reflexivity.
  - unfold expands. destruct (last_at pr cur) as [h|] eqn:A; [|reflexivity].
    destruct (kind_eqb (h_kind h) KDir) eqn:K; [|reflexivity].
    exfalso. assert (is_dir_hdr pr cur = true).
    { apply (is_dir_hdr_nodup pr cur N). exists h. split; [exact A | apply kind_eqb_eq; exact K]. }
    congruence.
Qed.

Fixpoint emit_ok (pr : list hdr) (cur : path) (rest : list path) : bool :=
  match rest with
  | [] => true
  | q :: more => is_dir_hdr pr cur && has_hdr pr q && emit_ok pr q more
  end.

Lemma emis_from_nodup : forall pr, nd pr -> forall rest cur e, e <= 1 ->
  emis_from pr e cur rest = if emit_ok pr cur rest then e else 0.
Proof.
  intros pr N. induction rest as [|q more IH]; intros cur e Le; [reflexivity|].
  cbn [emis_from emit_ok]. rewrite count_path_nodup, expands_nodup by exact N.
  destruct (is_dir_hdr pr cur); destruct (has_hdr pr q); cbn [andb].
  - rewrite Nat.mul_1_l. apply IH. exact Le.
  - rewrite Nat.mul_0_l. rewrite IH by lia. destruct (emit_ok pr q more); reflexivity.
  - rewrite Nat.mul_0_r. rewrite IH by lia. destruct (emit_ok pr q more); reflexivity.
  - rewrite Nat.mul_0_l. rewrite IH by lia. destruct (emit_ok pr q more); reflexivity.
Qed.

Lemma emit_ok_prefixes : forall pr rest cur, rest <> [] -> has_hdr pr (cur ++ rest) = true ->
  emit_ok pr cur (prefixes_from cur rest) = forallb (is_dir_hdr pr) (cur :: prefixes_from cur (removelast rest)).
Proof.
  intros pr. induction rest as [|c rest IH]; intros cur Hne Hh; [contradiction|].
  destruct rest as [|c' r].
  - cbn. rewrite Hh. destruct (is_dir_hdr pr cur); reflexivity.
  - assert (E : cur ++ c :: c' :: r = (cur ++ [c]) ++ c' :: r) by (rewrite <- app_assoc; reflexivity).
    rewrite E in Hh. specialize (IH (cur ++ [c]) ltac:(discriminate) Hh).
    change (prefixes_from cur (c :: c' :: r)) with ((cur ++ [c]) :: prefixes_from (cur ++ [c]) (c' :: r)).
    change (removelast (c :: c' :: r)) with (c :: removelast (c' :: r)).
    change (prefixes_from cur (c :: removelast (c' :: r))) with ((cur ++ [c]) :: prefixes_from (cur ++ [c]) (removelast (c' :: r))).
    cbn [emit_ok]. rewrite IH. cbn [forallb].
    destruct (is_dir_hdr pr cur); cbn [andb]; [|reflexivity].
    destruct (is_dir_hdr pr (cur ++ [c])) eqn:D; cbn [andb].
    + rewrite (is_dir_has _ _ D). reflexivity.
    + destruct (has_hdr pr (cur ++ [c])); reflexivity.
Qed.

Lemma removelast_app1 : forall (a : path) c, removelast (a ++ [c]) = a.
Proof. intros. apply removelast_last. Qed.

(* a top-level entry that is not a directory has nothing below it in its own package *)
Definition top_childless (files : list hdr) : Prop :=
  forall h c, In h files -> In c files -> h_kind h <> KDir -> List.length (h_path h) = 1 -> parent (h_path c) <> h_path h.

Lemma emissions_nodup : forall pr x, nd pr -> top_childless pr -> In x pr ->
  emissions pr (h_path x) = if emitted pr x then 1 else 0.
Proof.
  intros pr x N T I. unfold emissions, emitted.
  destruct (h_path x) as [|c1 [|c2 r]] eqn:P.
  - reflexivity.
  - cbn [prefixes prefixes_from app emis_from]. unfold has_child.
    destruct (kind_eqb (h_kind x) KDir) eqn:K; cbn [andb]; [reflexivity|].
    destruct (existsb _ pr) eqn:F; [|reflexivity].
    exfalso. apply existsb_exists in F. destruct F as (c & A & B). apply andb_true_iff in B. destruct B as [B _].
    apply path_eqb_eq in B. apply (T x c I A); [intro Kd; apply kind_eqb_eq in Kd; congruence | rewrite P; reflexivity | rewrite P; exact B].
  - change (prefixes (c1 :: c2 :: r)) with ([c1] :: prefixes_from [c1] (c2 :: r)). cbv iota beta.
    rewrite emis_from_nodup by (try exact N; destruct (has_child pr [c1]); lia).
    assert (Hh : has_hdr pr ([c1] ++ c2 :: r) = true) by (apply has_hdr_iff; exists x; split; [exact I | exact P]).
    rewrite (emit_ok_prefixes pr (c2 :: r) [c1] ltac:(discriminate) Hh).
    change (parent (c1 :: c2 :: r)) with (c1 :: removelast (c2 :: r)).
    change (prefixes (c1 :: removelast (c2 :: r))) with ([c1] :: prefixes_from [c1] (removelast (c2 :: r))).
    destruct (forallb (is_dir_hdr pr) ([c1] :: prefixes_from [c1] (removelast (c2 :: r)))) eqn:F; [|reflexivity].
    (* the name below the top-level directory has a header: the directory has a child *)
    assert (Hc : has_hdr pr [c1; c2] = true).
    { destruct r as [|c3 r'].
      - exact Hh.
      - change (removelast (c2 :: c3 :: r')) with (c2 :: removelast (c3 :: r')) in F.
        change (prefixes_from [c1] (c2 :: removelast (c3 :: r'))) with ([c1; c2] :: prefixes_from [c1; c2] (removelast (c3 :: r'))) in F.
        cbn [forallb] in F. apply andb_true_iff in F. destruct F as [_ F]. apply andb_true_iff in F. destruct F as [F _].
        apply is_dir_has. exact F. }
    apply has_hdr_iff in Hc. destruct Hc as (h' & A & B).
    assert (has_child pr [c1] = true).
    { unfold has_child. apply existsb_exists. exists h'. split; [exact A|]. rewrite B. apply andb_true_iff.
      split; [apply path_eqb_eq; reflexivity | apply negb_true_iff; apply path_eqb_neq; discriminate]. }
    rewrite H. reflexivity.
Qed.

Lemma in_dedup : forall l q, In q (dedup l) <-> In q l.
Proof.
  induction l as [|x r IH]; intro q; cbn; [tauto|].
  destruct (existsb (path_eqb x) r) eqn:E.
  - rewrite IH. split; [auto|]. intros [A|A]; [|exact A]. subst q.
    apply existsb_exists in E. destruct E as (y & A & B). apply path_eqb_eq in B. subst y. exact A.
  - cbn. rewrite IH. tauto.
Qed.

Lemma nd_filter : forall (g : hdr -> bool) l, nd l -> nd (filter g l).
Proof.
  intros g. induction l as [|x r IH]; intro N; [exact N|].
  unfold nd in *. cbn [List.map] in N. inversion N as [|? ? Nx Nr]; subst. cbn [filter].
  destruct (g x); [|apply IH; exact Nr]. cbn [List.map]. constructor; [|apply IH; exact Nr].
  intro I. apply Nx. apply in_map_iff in I. destruct I as (y & A & B). apply filter_In in B.
  rewrite <- A. apply in_map. tauto.
Qed.

Theorem db_entries_d_nodup : forall ifs i files, nd files -> top_childless files ->
  forall y, In y (db_entries_d ifs i files) <-> In y (db_entries ifs i files).
Proof.
  intros ifs i files N T y. unfold db_entries_d, db_entries.
  set (pr := prune ifs i files).
  assert (Npr : nd pr) by (apply nd_filter; exact N).
  assert (Tpr : top_childless pr).
  { intros h c A B. apply T; [apply filter_In in A; tauto | apply filter_In in B; tauto]. }
  rewrite in_flat_map, filter_In. split.
  - intros (q & A & B). apply (proj1 (in_dedup _ _)) in A. apply in_map_iff in A. destruct A as (x & A & Ix). subst q.
    rewrite (last_at_nodup pr x Npr Ix) in B. rewrite (emissions_nodup pr x Npr Tpr Ix) in B.
    destruct (emitted pr x) eqn:E; [|contradiction]. cbn in B. destruct B as [B|[]]. subst y. auto.
  - intros [Iy E]. exists (h_path y). split; [apply (proj2 (in_dedup _ _)); apply in_map; exact Iy|].
    rewrite (last_at_nodup pr y Npr Iy), (emissions_nodup pr y Npr Tpr Iy), E. left. reflexivity.
Qed.

(* ---- lifted to a finished install ------------------------------------------- *)
Lemma install_files_nd : forall b pkgs i me hs s acc s' acc',
  nd (acc ++ hs) -> install_files b pkgs i me s acc hs = IOk (s', acc') -> nd acc'.
Proof.
  induction hs as [|h hs IH]; intros s acc s' acc' N H; cbn in H.
  - inv_ok H. rewrite app_nil_r in N. exact N.
  - destruct (step b pkgs i me s h) as [[s1 app]|e s1]; [|discriminate].
    eapply IH; [|exact H]. destruct app.
    + rewrite <- app_assoc. exact N.
    + unfold nd in *. rewrite map_app in *. cbn [List.map] in N. apply NoDup_remove_1 in N. exact N.
Qed.

Definition strict_nodup_paths (pkgs : list pkg) : Prop := forall pk, In pk pkgs -> nd (p_files pk).
Definition top_childless_pkgs (pkgs : list pkg) : Prop := forall pk, In pk pkgs -> top_childless (p_files pk).

Lemma install_all_nd : forall b pkgs todo i s done s' done',
  (forall pk, In pk todo -> nd (p_files pk)) ->
  (forall k, nd (nth k done [])) ->
  install_all b pkgs i s done todo = IOk (s', done') -> forall k, nd (nth k done' []).
Proof.
  induction todo as [|me todo IH]; intros i s done s' done' Ht Hd H; cbn in H.
  - inv_ok H. exact Hd.
  - destruct (install_files b pkgs i me s [] (p_files me)) as [[s1 files]|e s1] eqn:F; [|discriminate].
    eapply IH; [| |exact H].
    + intros pk I. apply Ht. right. exact I.
    + intro k. destruct (Nat.lt_ge_cases k (List.length done)) as [L|L].
      * rewrite app_nth1 by exact L. apply Hd.
      * rewrite app_nth2 by exact L. destruct (k - List.length done) as [|j]; cbn.
        -- eapply install_files_nd; [|exact F]. cbn. apply Ht. left. reflexivity.
        -- destruct j; constructor.
Qed.

Lemma db_from_d_nth : forall ifs all i k entries,
  nth_error (db_from_d ifs i all) k = Some entries -> entries = db_entries_d ifs (i + k) (nth k all []).
Proof.
  induction all as [|f all IH]; intros i k entries H; cbn in H.
  - destruct k; discriminate.
  - destruct k as [|k]; cbn in H.
    + inv_ok H. rewrite Nat.add_0_r. reflexivity.
    + rewrite (IH _ _ _ H). rewrite Nat.add_succ_comm. reflexivity.
Qed.
Lemma db_from_lengths : forall ifs all i, List.length (db_from_d ifs i all) = List.length (db_from ifs i all).
Proof. induction all as [|f all IH]; intro i; cbn; [reflexivity | rewrite IH; reflexivity]. Qed.

(* when no package ships a path twice, the writer with repeated paths writes
   what [f_db] says: stanza by stanza the same headers *)
Theorem db_of_nodup : forall b pkgs init f,
  install b pkgs init = RDone f -> strict_nodup_paths pkgs -> top_childless_pkgs pkgs ->
  forall k entries, nth_error (db_of f) k = Some entries ->
    exists entries', nth_error (f_db f) k = Some entries' /\ forall y, In y entries <-> In y entries'.
Proof.
  intros b pkgs init f H Hn Ht k entries Hk.
  pose proof (install_listed b pkgs init f H) as Hsub.
  assert (Hdb : f_db f = db_from (f_if f) 0 (f_files f)).
  { unfold install in H.
    destruct (install_all b pkgs 0 {| s_fs := init; s_if := [] |} [] pkgs) as [[s all]|e s]; [|discriminate].
    inv_ok H. reflexivity. }
  assert (Hnd : forall j, nd (nth j (f_files f) [])).
  { unfold install in H.
    destruct (install_all b pkgs 0 {| s_fs := init; s_if := [] |} [] pkgs) as [[s all]|e s] eqn:A; [|discriminate].
    inv_ok H. cbn [f_files]. eapply install_all_nd; [exact Hn | | exact A]. intro j. destruct j; constructor. }
  unfold db_of in Hk.
  assert (Lk : k < List.length (db_from (f_if f) 0 (f_files f))).
  { rewrite <- db_from_lengths. apply nth_error_Some. congruence. }
  destruct (nth_error (db_from (f_if f) 0 (f_files f)) k) as [e'|] eqn:E'; [|apply nth_error_None in E'; lia].
  exists e'. rewrite Hdb. split; [exact E'|].
  apply db_from_d_nth in Hk. apply db_from_nth in E'. cbn [Nat.add] in *. subst entries e'.
  apply db_entries_d_nodup; [apply Hnd|].
  (* the list of package k is part of what package k ships *)
  intros h c A B. destruct (nth_in_or_default k pkgs no_pkg) as [I|I].
  - apply (Ht _ I); apply Hsub; assumption.
  - apply Hsub in A. rewrite I in A. contradiction.
Qed.

(* ---- a package against itself -------------------------------------------------
   both decision procedures meet the package's own earlier copy of a path: *)
Lemma self_rows : forall me gs ws,
  decide_lazy me me gs ws = (if N.eqb gs ws then KeepOld else if declares me me then KeepOld else Overwrite) /\
  decide_stream (Some me) me (N.eqb gs ws) =
    (if String.eqb (p_origin me) "" then SErrExists
     else SDec (if N.eqb gs ws then KeepOld else if declares me me then KeepOld else Overwrite)).
Proof.
  intros me gs ws. unfold decide_lazy, decide_stream. rewrite String.eqb_refl, orb_true_r. cbn [negb andb].
  split; [reflexivity|]. destruct (String.eqb (p_origin me) ""); [reflexivity|].
  destruct (N.eqb gs ws); [reflexivity|]. destruct (declares me me); reflexivity.
Qed.

(* the later copy of a path wins inside one package, on every backend, when the
   package names an origin (tarfs: also when it names none) and does not list
   itself in replaces; identical bytes leave the FIRST copy (and its mode) *)
Theorem dup_later_copy_wins : forall b pkgs i s h1 h2,
  let me := nth i pkgs no_pkg in
  h_kind h1 = KReg -> h_kind h2 = KReg -> h_path h2 = h_path h1 ->
  dir_state (s_fs s) (parent (h_path h1)) = PDir ->
  fs_get (s_fs s) (h_path h1) = Some (NFile (h_sum h1) (h_mode h1) (Some i) true) ->
  if_get (s_if s) (h_path h1) = Some i ->
  declares me me = false ->
  (is_lazy b = false -> p_origin me <> "") ->
  step b pkgs i me s h2 =
    IOk (if N.eqb (h_sum h1) (h_sum h2) then s else set_file s i h2, true).
Proof.
  intros b pkgs i s h1 h2 me K1 K2 P D G I Dc Ho.
  destruct (self_rows me (h_sum h1) (h_sum h2)) as [RL RS]. rewrite Dc in RL, RS.
  unfold step. rewrite K2. destruct (is_lazy b) eqn:Lz.
  - unfold step_lazy_file, need_dir. rewrite K2, P, D, G. cbn match. fold me. rewrite RL.
    destruct (N.eqb (h_sum h1) (h_sum h2)); reflexivity.
  - unfold step_stream_reg. rewrite P, D, G, I. fold me. rewrite RS.
    destruct (String.eqb (p_origin me) "") eqn:E; [apply String.eqb_eq in E; exfalso; exact (Ho eq_refl E)|].
    destruct (N.eqb (h_sum h1) (h_sum h2)); reflexivity.
Qed.

(* ---- the writer records the last header of a repeated path ---------------------
   finding C07-F16: a ships usr/bin/x twice with the same bytes, 0755 then 0700:
   the first copy stays (mode 0755), the database writes the last header (0700),
   twice *)
Definition wit_x2 : hdr :=
  {| h_path := ["usr"; "bin"; "x"]; h_kind := KReg; h_mode := 448; h_uid := 0; h_gid := 0; h_sum := 2; h_link := [] |}.
Definition wit_dup_pkgs : list pkg :=
  [ {| p_name := "a"; p_origin := "a"; p_replaces := []; p_files := wit_dirs ++ [wit_hx; wit_x2] |} ].

Lemma dup_records_last : forall b, exists f,
  install b wit_dup_pkgs [] = RDone f /\
  nth_error (db_of f) 0 = Some (wit_dirs ++ [wit_x2; wit_x2]) /\
  fs_get (f_fs f) (h_path wit_x2) = Some (NFile 2 493 (Some 0) true).
Proof.
  intro b. destruct b; eexists; (split; [vm_compute; reflexivity|]); split; vm_compute; reflexivity.
Qed.

(* "every record of the database is true" fails for the writer with repeated
   paths on every backend: the recorded mode is not the mode present *)
Theorem dup_records_last_refuted : forall b,
  ~ (forall pkgs init f, install b pkgs init = RDone f ->
       forall k entries h, nth_error (db_of f) k = Some entries -> In h entries -> h_kind h = KReg ->
         exists sm ow dt, fs_get (f_fs f) (h_path h) = Some (NFile sm (h_mode h) ow dt)).
Proof.
  intros b Hall. destruct (dup_records_last b) as (f & A & B & C).
  destruct (Hall _ _ _ A 0 _ wit_x2 B ltac:(cbn; tauto) eq_refl) as (sm & ow & dt & G).
  rewrite C in G. discriminate.
Qed.

(* different bytes: the later copy is in the tree and in the database (twice) *)
Definition wit_x3 : hdr :=
  {| h_path := ["usr"; "bin"; "x"]; h_kind := KReg; h_mode := 448; h_uid := 0; h_gid := 0; h_sum := 3; h_link := [] |}.
Lemma dup_other_bytes : forall b, exists f,
  install b [ {| p_name := "a"; p_origin := "a"; p_replaces := []; p_files := wit_dirs ++ [wit_hx; wit_x3] |} ] [] = RDone f /\
  nth_error (db_of f) 0 = Some (wit_dirs ++ [wit_x3; wit_x3]) /\
  fs_get (f_fs f) (h_path wit_x3) = Some (NFile 3 448 (Some 0) true).
Proof.
  intro b. destruct b; eexists; (split; [vm_compute; reflexivity|]); split; vm_compute; reflexivity.
Qed.
