(* C07 — hard links. Proofs about Model/InstallInode.v:
     - with fresh nodes (what the code does) every step of the names-and-heap
       model is, seen through [view], the step of the flat model of
       Model/Install.v, errors included: the copy semantics of a hard link is
       exact ([step_sim], [inode_refines]);
     - no step changes a node in place and only the header's own name is
       re-bound: every other name of the node keeps its content
       ([hardlink_names_keep]);
     - with in-place re-pointing (seeded change C07-4) the statement is false
       ([inplace_changes_other_names]). *)
From Apko Require Import Base.Prelude Model.Install Model.InstallInode Proofs.InstallProofs.
Open Scope string_scope. Open Scope list_scope.

Definition wf (x : ist) : Prop := forall e, In e (i_names x) -> snd e < List.length (i_heap x).

Lemma view_get : forall x p,
  fs_get (view_fs x) p = option_map (heap_get (i_heap x)) (nm_get (i_names x) p).
Proof.
  intros x p. unfold view_fs. induction (i_names x) as [|[q id] m IH]; [reflexivity|].
  cbn [List.map fs_get nm_get fst snd]. destruct (path_eqb q p); [reflexivity | exact IH].
Qed.

Lemma heap_get_app : forall hp tail id, id < List.length hp -> heap_get (hp ++ tail) id = heap_get hp id.
Proof. intros. unfold heap_get. apply app_nth1. assumption. Qed.
Lemma heap_get_new : forall hp n, heap_get (hp ++ [n]) (List.length hp) = n.
Proof. intros. unfold heap_get. rewrite app_nth2 by lia. rewrite Nat.sub_diag. reflexivity. Qed.

Lemma map_nm_set : forall (g g' : nat -> node) m p id,
  (forall e, In e m -> g' (snd e) = g (snd e)) ->
  List.map (fun e => (fst e, g' (snd e))) (nm_set m p id) =
  fs_set (List.map (fun e => (fst e, g (snd e))) m) p (g' id).
Proof.
  induction m as [|[q j] m IH]; intros p id H; [reflexivity|].
  cbn [nm_set List.map fst snd fs_set].
  destruct (path_eqb q p) eqn:E; cbn [List.map fst snd].
  - f_equal. apply map_ext_in. intros e He. rewrite H by (right; exact He). reflexivity.
  - pose proof (H (q, j) (or_introl eq_refl)) as Hq. cbn [snd] in Hq. rewrite Hq. f_equal. apply IH. intros e He. apply H. right. exact He.
Qed.

Lemma in_nm_set : forall m p id e, In e (nm_set m p id) -> In e m \/ snd e = id.
Proof.
  induction m as [|[q j] m IH]; intros p id e H; cbn in H.
  - destruct H as [H|[]]. subst e. right. reflexivity.
  - destruct (path_eqb q p).
    + destruct H as [H|H]; [subst e; right; reflexivity | left; right; exact H].
    + destruct H as [H|H]; [left; left; exact H|]. destruct (IH _ _ _ H) as [A|A]; [left; right; exact A | right; exact A].
Qed.

Lemma nm_get_in : forall m p id, nm_get m p = Some id -> exists q, In (q, id) m.
Proof.
  induction m as [|[q j] m IH]; intros p id H; cbn in H; [discriminate|].
  destruct (path_eqb q p).
  - inv_ok H. exists q. left. reflexivity.
  - destruct (IH _ _ H) as (q' & A). exists q'. right. exact A.
Qed.

Lemma nm_get_set_same : forall m p id, nm_get (nm_set m p id) p = Some id.
Proof.
  induction m as [|[q j] m IH]; intros p id; cbn.
  - rewrite path_eqb_refl. reflexivity.
  - destruct (path_eqb q p) eqn:E; cbn; rewrite E; [reflexivity | apply IH].
Qed.
Lemma nm_get_set_other : forall m p q id, p <> q -> nm_get (nm_set m p id) q = nm_get m q.
Proof.
  induction m as [|[r j] m IH]; intros p q id H; cbn.
  - rewrite path_eqb_neq by exact H. reflexivity.
  - destruct (path_eqb r p) eqn:E; cbn.
    + apply path_eqb_eq in E. subst r. rewrite path_eqb_neq by exact H. reflexivity.
    + destruct (path_eqb r q); [reflexivity | apply IH; exact H].
Qed.

(* ---- the writes, seen through the view -------------------------------------- *)
Lemma view_alloc : forall x p n, wf x -> view_fs (alloc x p n) = fs_set (view_fs x) p n.
Proof.
  intros x p n W. unfold view_fs, alloc. cbn [i_names i_heap].
  rewrite (map_nm_set (heap_get (i_heap x)) (heap_get (i_heap x ++ [n]))).
  - rewrite heap_get_new. reflexivity.
  - intros e He. apply heap_get_app. apply W. exact He.
Qed.
Lemma view_bind : forall x p id, view_fs (bind x p id) = fs_set (view_fs x) p (heap_get (i_heap x) id).
Proof.
  intros x p id. unfold view_fs, bind. cbn [i_names i_heap].
  apply map_nm_set. intros; reflexivity.
Qed.
Lemma wf_alloc : forall x p n, wf x -> wf (alloc x p n).
Proof.
  intros x p n W e He. unfold alloc in *. cbn [i_names i_heap] in *. rewrite app_length. cbn.
  destruct (in_nm_set _ _ _ _ He) as [A|A]; [specialize (W e A); lia | lia].
Qed.
Lemma wf_bind : forall x p id, wf x -> id < List.length (i_heap x) -> wf (bind x p id).
Proof.
  intros x p id W L e He. unfold bind in *. cbn [i_names i_heap] in *.
  destruct (in_nm_set _ _ _ _ He) as [A|A]; [exact (W e A) | lia].
Qed.

(* what a step may do to names and nodes *)
Definition good (x : ist) (h : hdr) (y : ist) : Prop :=
  wf y /\ (exists tail, i_heap y = i_heap x ++ tail) /\
  (h_kind h <> KDir -> forall q, q <> h_path h -> nm_get (i_names y) q = nm_get (i_names x) q).

Lemma good_refl : forall x h, wf x -> good x h x.
Proof. intros x h W. split; [exact W|]. split; [exists []; rewrite app_nil_r; reflexivity|]. intros; reflexivity. Qed.

Lemma set_file_view : forall x i h, wf x -> view (set_file_i true x i h) = set_file (view x) i h.
Proof.
  intros x i h W. unfold set_file_i, set_file, view, replace_node, with_if. cbn [s_fs s_if i_if i_names i_heap].
  f_equal. change (view_fs (alloc x (h_path h) (file_node i h)) = fs_set (view_fs x) (h_path h) (file_node i h)).
  apply view_alloc. exact W.
Qed.
Lemma set_file_good : forall x i h, wf x -> good x h (set_file_i true x i h).
Proof.
  intros x i h W. unfold set_file_i, replace_node, with_if. split; [|split].
  - intros e He. cbn [i_names i_heap] in *. apply (wf_alloc x (h_path h) (file_node i h) W e He).
  - cbn [i_heap alloc]. eexists. reflexivity.
  - intros _ q Hq. cbn [i_names alloc]. apply nm_get_set_other. congruence.
Qed.

Lemma mkdir_all_sim : forall ps x perm, wf x ->
  mkdir_all (view_fs x) ps perm = (view_fs (fst (mkdir_all_i x ps perm)), snd (mkdir_all_i x ps perm)) /\
  wf (fst (mkdir_all_i x ps perm)) /\ i_if (fst (mkdir_all_i x ps perm)) = i_if x /\
  exists tail, i_heap (fst (mkdir_all_i x ps perm)) = i_heap x ++ tail.
Proof.
  induction ps as [|q ps IH]; intros x perm W; cbn.
  - repeat split; auto. exists []. rewrite app_nil_r. reflexivity.
  - destruct (fs_get (view_fs x) q) as [n|] eqn:G.
    + destruct n; cbn; try (repeat split; auto; exists []; rewrite app_nil_r; reflexivity).
      apply IH. exact W.
    + destruct (IH (alloc x q (NDir perm)) perm (wf_alloc _ _ _ W)) as (A & B & C & (tail & D)).
      rewrite view_alloc in A by exact W. split; [exact A|]. split; [exact B|]. split; [exact C|].
      exists ([NDir perm] ++ tail). rewrite D. cbn [alloc i_heap]. rewrite <- app_assoc. reflexivity.
Qed.

(* ---- every step of the names-and-heap model is the step of the flat model ---- *)
Definition sim_res (x : ist) (h : hdr) (r : step_res_i) (r' : step_res) : Prop :=
  match r, r' with
  | ROk (y, a), IOk (s', a') => a = a' /\ view y = s' /\ good x h y
  | RErr e y, IErr e' s' => e = e' /\ view y = s' /\ good x h y
  | _, _ => False
  end.

Ltac leaf W :=
  cbn [sim_res];
  first [ split; [reflexivity|]; split; [reflexivity | apply good_refl; exact W]
        | split; [reflexivity|]; split; [apply set_file_view; exact W | apply set_file_good; exact W] ].

Lemma step_lazy_sim : forall pkgs i me x h, wf x ->
  sim_res x h (step_lazy_file_i true pkgs i me x h) (step_lazy_file pkgs i me (view x) h).
Proof.
  intros pkgs i me x h W. unfold step_lazy_file_i, step_lazy_file. cbn [s_fs view].
  match goal with |- context [if ?c then _ else _] => destruct c end; [leaf W|].
  unfold need_dir_i, need_dir. cbn [s_fs view].
  destruct (dir_state (view_fs x) (parent (h_path h))); try (leaf W).
  destruct (fs_get (view_fs x) (h_path h)) as [n|]; [|leaf W].
  destruct n as [m|gs md [j|] dt|tg [j|] lk|]; try (leaf W).
  - destruct (decide_lazy (nth j pkgs no_pkg) me gs (h_sum h)); leaf W.
  - destruct dt; [|leaf W]. destruct (N.eqb gs (h_sum h)); leaf W.
  - destruct (decide_lazy (nth j pkgs no_pkg) me tg (h_sum h)); leaf W.
Qed.

Lemma step_stream_reg_sim : forall pkgs i me x h, wf x ->
  sim_res x h (step_stream_reg_i pkgs i me x h) (step_stream_reg pkgs i me (view x) h).
Proof.
  intros pkgs i me x h W. unfold step_stream_reg_i, step_stream_reg. cbn [s_fs s_if view].
  destruct (dir_state (view_fs x) (parent (h_path h))); try (leaf W).
  destruct (fs_get (view_fs x) (h_path h)) as [n|]; [|leaf W].
  destruct n as [m|gs md ow dt|tg ow lk|]; try (leaf W).
  destruct (decide_stream _ me (N.eqb gs (h_sum h))) as [[| |]| |]; leaf W.
Qed.

Lemma step_stream_sym_sim : forall i x h, wf x ->
  sim_res x h (step_stream_sym_i i x h) (step_stream_sym i (view x) h).
Proof.
  intros i x h W. unfold step_stream_sym_i, step_stream_sym, need_dir_i, need_dir. cbn [s_fs view].
  destruct (dir_state (view_fs x) (parent (h_path h))); try (leaf W).
  destruct (fs_get (view_fs x) (h_path h)) as [n|]; [|leaf W].
  destruct n as [m|gs md ow dt|tg ow lk|]; try (leaf W).
  destruct (N.eqb tg (h_sum h)); leaf W.
Qed.

Lemma step_dir_sim : forall x h, wf x -> h_kind h = KDir ->
  sim_res x h (step_dir_i x h) (step_dir (view x) h).
Proof.
  intros x h W K. unfold step_dir_i, step_dir. cbn [s_fs view].
  destruct (mkdir_all_sim (prefixes (h_path h)) x (perm_of (h_mode h)) W) as (A & B & C & D).
  rewrite A. destruct (mkdir_all_i x (prefixes (h_path h)) (perm_of (h_mode h))) as [y [e|]]; cbn [fst snd] in *; cbn [sim_res].
  - split; [reflexivity|]. split; [unfold with_fs, view; cbn [s_if]; rewrite C; reflexivity|].
    split; [exact B|]. split; [exact D|]. intro F. contradiction.
  - split; [reflexivity|]. split; [unfold with_fs, view; cbn [s_if]; rewrite C; reflexivity|].
    split; [exact B|]. split; [exact D|]. intro F. contradiction.
Qed.

Lemma step_link_sim : forall x h, wf x ->
  sim_res x h (step_link_i x h) (step_link (view x) h).
Proof.
  intros x h W. unfold step_link_i, step_link, need_dir_i, need_dir. cbn [s_fs view].
  destruct (dir_state (view_fs x) (parent (h_path h))); try (leaf W).
  destruct (dir_state (view_fs x) (parent (h_link h))); try (leaf W).
  rewrite !view_get.
  destruct (nm_get (i_names x) (h_link h)) as [id|] eqn:Gl; cbn [option_map]; [|leaf W].
  destruct (heap_get (i_heap x) id) as [m|sm md ow dt|tg ow lk|] eqn:Hn; try (leaf W).
  destruct (nm_get (i_names x) (h_path h)) as [id2|] eqn:Gp; cbn [option_map]; [leaf W|].
  cbn [sim_res]. split; [reflexivity|]. split.
  - unfold with_fs, view. cbn [s_fs s_if]. f_equal. rewrite view_bind, Hn. reflexivity.
  - assert (L : id < List.length (i_heap x)).
    { destruct (nm_get_in _ _ _ Gl) as (q & I). exact (W _ I). }
    split; [apply wf_bind; assumption|]. split; [exists []; rewrite app_nil_r; reflexivity|].
    intros _ q Hq. cbn [bind i_names]. apply nm_get_set_other. congruence.
Qed.

Theorem step_sim : forall b pkgs i me x h, wf x ->
  sim_res x h (step_i true b pkgs i me x h) (step b pkgs i me (view x) h).
Proof.
  intros b pkgs i me x h W. unfold step_i, step. destruct (h_kind h) eqn:K.
  - destruct (is_lazy b); [apply step_lazy_sim | apply step_stream_reg_sim]; exact W.
  - apply step_dir_sim; assumption.
  - destruct (is_lazy b); [apply step_lazy_sim | apply step_stream_sym_sim]; exact W.
  - apply step_link_sim; exact W.
Qed.

(* ---- the whole install -------------------------------------------------------- *)
Lemma install_files_sim : forall b pkgs i me hs x acc, wf x ->
  match install_files_i true b pkgs i me x acc hs, install_files b pkgs i me (view x) acc hs with
  | ROk (y, l), IOk (s', l') => l = l' /\ view y = s' /\ wf y
  | RErr e y, IErr e' s' => e = e' /\ view y = s' /\ wf y
  | _, _ => False
  end.
Proof.
  induction hs as [|h hs IH]; intros x acc W; cbn.
  - auto.
  - pose proof (step_sim b pkgs i me x h W) as S. unfold sim_res in S.
    destruct (step_i true b pkgs i me x h) as [[y a]|e y]; destruct (step b pkgs i me (view x) h) as [[s' a']|e' s']; try contradiction.
    + destruct S as (Ea & Ev & (Wy & _)). subst a' s'. apply IH. exact Wy.
    + destruct S as (Ee & Ev & (Wy & _)). auto.
Qed.

Lemma install_all_sim : forall b pkgs todo i x done, wf x ->
  match install_all_i true b pkgs i x done todo, install_all b pkgs i (view x) done todo with
  | ROk (y, l), IOk (s', l') => l = l' /\ view y = s' /\ wf y
  | RErr e y, IErr e' s' => e = e' /\ view y = s' /\ wf y
  | _, _ => False
  end.
Proof.
  induction todo as [|me todo IH]; intros i x done W; cbn.
  - auto.
  - pose proof (install_files_sim b pkgs i me (p_files me) x [] W) as S.
    destruct (install_files_i true b pkgs i me x [] (p_files me)) as [[y l]|e y];
      destruct (install_files b pkgs i me (view x) [] (p_files me)) as [[s' l']|e' s']; try contradiction.
    + destruct S as (El & Ev & Wy). subst l' s'. apply IH. exact Wy.
    + exact S.
Qed.

Lemma view_ist_of_gen : forall (m : fsmap) (pre : list node),
  List.map (fun e => (fst e, heap_get (pre ++ List.map snd m) (snd e)))
           (combine (List.map fst m) (seq (List.length pre) (List.length m))) = m.
Proof.
  induction m as [|[p n] m IH]; intro pre; cbn; [reflexivity|].
  f_equal.
  - unfold heap_get. rewrite app_nth2 by lia. rewrite Nat.sub_diag. reflexivity.
  - specialize (IH (pre ++ [n])). rewrite app_length in IH. cbn in IH.
    rewrite Nat.add_1_r in IH. rewrite <- app_assoc in IH. exact IH.
Qed.
Lemma view_ist_of : forall m, view (ist_of m) = {| s_fs := m; s_if := [] |}.
Proof.
  intro m. unfold view, ist_of, view_fs. cbn [i_names i_heap i_if]. f_equal.
  exact (view_ist_of_gen m []).
Qed.
Lemma wf_ist_of : forall m, wf (ist_of m).
Proof.
  intros m e He. unfold ist_of in *. cbn [i_names i_heap] in *. rewrite map_length.
  destruct e as [p id]. apply in_combine_r in He. apply in_seq in He. cbn. lia.
Qed.

Theorem inode_refines : forall b pkgs init, install_i true b pkgs init = install b pkgs init.
Proof.
  intros b pkgs init. unfold install_i, install.
  pose proof (install_all_sim b pkgs pkgs 0 (ist_of init) [] (wf_ist_of init)) as S.
  rewrite view_ist_of in S.
  destruct (install_all_i true b pkgs 0 (ist_of init) [] pkgs) as [[y l]|e y];
    destruct (install_all b pkgs 0 {| s_fs := init; s_if := [] |} [] pkgs) as [[s' l']|e' s']; try contradiction.
  - destruct S as (El & Ev & _). subst l' s'. reflexivity.
  - destruct S as (Ee & Ev & _). subst e' s'. reflexivity.
Qed.

(* ---- the other names of a node keep its content ------------------------------ *)
Theorem hardlink_names_keep : forall b pkgs i me x h y app,
  wf x -> step_i true b pkgs i me x h = ROk (y, app) ->
  (* no node is changed in place *)
  (forall id, id < List.length (i_heap x) -> heap_get (i_heap y) id = heap_get (i_heap x) id) /\
  (h_kind h <> KDir ->
     (* only the header's own name is (re-)bound ... *)
     (forall q, q <> h_path h -> nm_get (i_names y) q = nm_get (i_names x) q) /\
     (* ... so every other name shows the node it showed before *)
     (forall q, q <> h_path h -> fs_get (view_fs y) q = fs_get (view_fs x) q)).
Proof.
  intros b pkgs i me x h y app W H.
  pose proof (step_sim b pkgs i me x h W) as S. rewrite H in S. unfold sim_res in S.
  destruct (step b pkgs i me (view x) h) as [[s' a']|e' s']; [|contradiction].
  destruct S as (_ & _ & (Wy & (tail & Ht) & Hn)).
  assert (A : forall id, id < List.length (i_heap x) -> heap_get (i_heap y) id = heap_get (i_heap x) id).
  { intros id L. rewrite Ht. apply heap_get_app. exact L. }
  split; [exact A|]. intro K. split; [exact (Hn K)|].
  intros q Hq. rewrite !view_get, (Hn K q Hq).
  destruct (nm_get (i_names x) q) as [id|] eqn:G; [|reflexivity]. cbn. f_equal. apply A.
  destruct (nm_get_in _ _ _ G) as (r & I). exact (W _ I).
Qed.

(* the statement is about something: were the node re-pointed in place (seeded
   change C07-4), the hard link's name would show the new package's bytes.
   a ships usr/bin/x and the hard link usr/bin/lx; b (same origin) ships
   usr/bin/x with other bytes *)
Definition wit_a_files : list hdr :=
  wit_dirs ++
  [ {| h_path := ["usr"; "bin"; "x"]; h_kind := KReg; h_mode := 493; h_uid := 0; h_gid := 0; h_sum := 2; h_link := [] |};
    {| h_path := ["usr"; "bin"; "lx"]; h_kind := KLink; h_mode := 493; h_uid := 0; h_gid := 0; h_sum := 0; h_link := ["usr"; "bin"; "x"] |} ].
Definition wit_b_x : hdr :=
  {| h_path := ["usr"; "bin"; "x"]; h_kind := KReg; h_mode := 448; h_uid := 0; h_gid := 0; h_sum := 3; h_link := [] |}.
Definition wit_ab : list pkg :=
  [ {| p_name := "a"; p_origin := "o"; p_replaces := []; p_files := wit_a_files |};
    {| p_name := "b"; p_origin := "o"; p_replaces := []; p_files := wit_dirs ++ [wit_b_x] |} ].

Lemma inplace_changes_other_names : exists x y,
  install_files_i false Lazy wit_ab 0 (nth 0 wit_ab no_pkg) (ist_of []) [] wit_a_files = ROk (x, wit_a_files) /\
  wf x /\
  step_i false Lazy wit_ab 1 (nth 1 wit_ab no_pkg) x wit_b_x = ROk (y, true) /\
  fs_get (view_fs x) ["usr"; "bin"; "lx"] = Some (NFile 2 493 (Some 0) true) /\
  fs_get (view_fs y) ["usr"; "bin"; "lx"] = Some (NFile 3 448 (Some 1) true).
Proof.
  eexists _, _. split; [vm_compute; reflexivity|]. split.
  - intros e He. vm_compute in He. vm_compute.
    repeat (destruct He as [He|He]; [subst e; cbn; lia|]). contradiction.
  - split; [vm_compute; reflexivity|]. split; vm_compute; reflexivity.
Qed.

(* ... while the code as it is keeps a's bytes under the link's name *)
Lemma fresh_keeps_other_names : exists x y,
  install_files_i true Lazy wit_ab 0 (nth 0 wit_ab no_pkg) (ist_of []) [] wit_a_files = ROk (x, wit_a_files) /\
  step_i true Lazy wit_ab 1 (nth 1 wit_ab no_pkg) x wit_b_x = ROk (y, true) /\
  fs_get (view_fs y) ["usr"; "bin"; "lx"] = Some (NFile 2 493 (Some 0) true) /\
  fs_get (view_fs y) ["usr"; "bin"; "x"] = Some (NFile 3 448 (Some 1) true).
Proof.
  eexists _, _. split; [vm_compute; reflexivity|]. split; [vm_compute; reflexivity|]. split; vm_compute; reflexivity.
Qed.
