(* C07 — which package's symbolic link is in the tree of the lazy backend when
   the packages DISAGREE on the target: the one the rule table names.
   [sym_winner pkgs p] walks every header of path p in install order and applies
   tarfs.writeHeader's decision ([decide_lazy]) to the link in place and the one
   arriving; the final tree holds exactly that link. For every package list in
   which p is shipped as a symbolic link only and was not there before. *)
From Apko Require Import Base.Prelude Model.Install Model.InstallLinkWin Proofs.InstallProofs Proofs.InstallProvProofs.
Open Scope string_scope. Open Scope list_scope.

Definition holds (s : st) (p : path) (w : option (nat * hdr)) : Prop :=
  match w with
  | Some (k, h) => fs_get (s_fs s) p = Some (NSym (h_sum h) (Some k) (h_link h))
  | None => fs_get (s_fs s) p = None \/ exists md, fs_get (s_fs s) p = Some (NDir md)
  end.

Lemma holds_step : forall pkgs p i s h s' app w,
  (h_path h = p -> h_kind h = KSym) ->
  step Lazy pkgs i (nth i pkgs no_pkg) s h = IOk (s', app) ->
  holds s p w ->
  holds s' p (if path_eqb (h_path h) p then win_step pkgs w i h else w).
Proof.
  intros pkgs p i s h s' app w Hk H G.
  destruct (path_eqb (h_path h) p) eqn:E.
  - apply path_eqb_eq in E. specialize (Hk E). subst p.
    unfold step in H. rewrite Hk in H. cbn [is_lazy] in H. unfold step_lazy_file in H. rewrite Hk in H.
    destruct w as [[k' h']|]; cbn [holds win_step] in *.
    + rewrite G in H.
      destruct (dir_state (s_fs s) (parent (h_path h))) eqn:D;
        try (destruct (N.eqb (h_sum h') (h_sum h)); unfold need_dir in H; rewrite D in H; discriminate).
      destruct (N.eqb (h_sum h') (h_sum h)) eqn:Q.
      * inv_ok H. exact G.
      * unfold need_dir in H. rewrite D in H.
        destruct (decide_lazy (nth k' pkgs no_pkg) (nth i pkgs no_pkg) (h_sum h') (h_sum h)); try discriminate; inv_ok H.
        -- exact G.
        -- unfold set_file. cbn [s_fs holds]. rewrite fs_get_set_same. unfold file_node. rewrite Hk. reflexivity.
    + destruct G as [G|(md & G)]; rewrite G in H.
      * destruct (dir_state (s_fs s) (parent (h_path h))) eqn:D; unfold need_dir in H; rewrite D in H; try discriminate.
        inv_ok H. unfold set_file. cbn [s_fs]. rewrite fs_get_set_same. unfold file_node. rewrite Hk. reflexivity.
      * destruct (dir_state (s_fs s) (parent (h_path h))) eqn:D; unfold need_dir in H; rewrite D in H; discriminate.
  - assert (Ne : p <> h_path h) by (intro F; subst p; rewrite path_eqb_refl in E; discriminate).
    destruct (step_tr _ _ _ _ _ _ _ _ H) as [Es|K Eif Hkeep Hnew|sm md ow dt K _ _ _ Es|K _ Es|K _ Es _].
    + subst s'. exact G.
    + destruct w as [[k' h']|]; cbn [holds] in *.
      * apply Hkeep. exact G.
      * destruct G as [G|(md & G)]; [|right; exists md; apply Hkeep; exact G].
        destruct (fs_get (s_fs s') p) as [n|] eqn:F; [|left; reflexivity].
        destruct (Hnew p n F) as [A|(md & A)]; [congruence|]. right. exists md. rewrite A. reflexivity.
    + assert (F : fs_get (s_fs s') p = fs_get (s_fs s) p).
      { subst s'. cbn. apply fs_get_set_other. congruence. }
      unfold holds in *. rewrite F. exact G.
    + assert (F : fs_get (s_fs s') p = fs_get (s_fs s) p).
      { subst s'. unfold set_file. cbn. apply fs_get_set_other. congruence. }
      unfold holds in *. rewrite F. exact G.
    + assert (F : fs_get (s_fs s') p = fs_get (s_fs s) p).
      { subst s'. unfold set_file. cbn. apply fs_get_set_other. congruence. }
      unfold holds in *. rewrite F. exact G.
Qed.

Lemma holds_files : forall pkgs p i hs s acc s' acc' w,
  (forall h, In h hs -> h_path h = p -> h_kind h = KSym) ->
  install_files Lazy pkgs i (nth i pkgs no_pkg) s acc hs = IOk (s', acc') ->
  holds s p w -> holds s' p (win_files pkgs p i hs w).
Proof.
  induction hs as [|h hs IH]; intros s acc s' acc' w Hk H G; cbn in H.
  - inv_ok H. exact G.
  - destruct (step Lazy pkgs i (nth i pkgs no_pkg) s h) as [[s1 app]|e s1] eqn:S; [|discriminate].
    cbn [win_files]. eapply IH; [| exact H |].
    + intros x Hx. apply Hk. right. exact Hx.
    + eapply holds_step; [apply Hk; left; reflexivity | exact S | exact G].
Qed.

Lemma holds_all : forall pkgs p todo pre s done s' done' w,
  pkgs = pre ++ todo ->
  (forall h, In h (all_hdrs pkgs) -> h_path h = p -> h_kind h = KSym) ->
  install_all Lazy pkgs (List.length pre) s done todo = IOk (s', done') ->
  holds s p w -> holds s' p (win_pkgs pkgs p (List.length pre) todo w).
Proof.
  induction todo as [|me todo IH]; intros pre s done s' done' w Hp Hk H G; cbn in H.
  - inv_ok H. exact G.
  - assert (Hme : nth (List.length pre) pkgs no_pkg = me).
    { subst pkgs. rewrite app_nth2 by lia. rewrite Nat.sub_diag. reflexivity. }
    destruct (install_files Lazy pkgs (List.length pre) me s [] (p_files me)) as [[s1 files]|e s1] eqn:F; [|discriminate].
    cbn [win_pkgs]. specialize (IH (pre ++ [me]) s1 (done ++ [files]) s' done' (win_files pkgs p (List.length pre) (p_files me) w)).
    assert (El : List.length (pre ++ [me]) = S (List.length pre)) by (rewrite app_length; cbn; lia).
    rewrite El in IH. apply IH; [subst pkgs; rewrite <- app_assoc; reflexivity | exact Hk | exact H |].
    rewrite <- Hme in F. rewrite <- Hme. eapply holds_files; [| exact F | exact G].
    intros h Hh. apply Hk. eapply in_nth_all_hdrs. exact Hh.
Qed.

Theorem lazy_link_winner : forall pkgs init f p k h,
  install Lazy pkgs init = RDone f ->
  fs_get init p = None ->
  (forall x, In x (all_hdrs pkgs) -> h_path x = p -> h_kind x = KSym) ->
  sym_winner pkgs p = Some (k, h) ->
  fs_get (f_fs f) p = Some (NSym (h_sum h) (Some k) (h_link h)).
Proof.
  intros pkgs init f p k h H Hi Hk Hw. unfold install in H.
  destruct (install_all Lazy pkgs 0 {| s_fs := init; s_if := [] |} [] pkgs) as [[s all]|e s] eqn:A; [|discriminate].
  inv_ok H. cbn [f_fs].
  pose proof (holds_all pkgs p pkgs [] {| s_fs := init; s_if := [] |} [] s all None eq_refl Hk A) as G.
  cbn [List.length] in G. fold (sym_winner pkgs p) in G. rewrite Hw in G. apply G. left. exact Hi.
Qed.

(* the F5 pair: a and b of one origin ship usr/bin/sx -> (2) and -> (3): b wins *)
Lemma lazy_link_winner_witness :
  sym_winner [ {| p_name := "a"; p_origin := "o"; p_replaces := []; p_files := wit_dirs ++ [wit_sx 2] |};
               {| p_name := "b"; p_origin := "o"; p_replaces := []; p_files := wit_dirs ++ [wit_sx 3] |} ]
             ["usr"; "bin"; "sx"] = Some (1, wit_sx 3) /\
  sym_winner [ {| p_name := "a"; p_origin := "a"; p_replaces := ["b"]; p_files := wit_dirs ++ [wit_sx 2] |};
               {| p_name := "b"; p_origin := "a"; p_replaces := []; p_files := wit_dirs ++ [wit_sx 3] |} ]
             ["usr"; "bin"; "sx"] = Some (0, wit_sx 2).
Proof. split; vm_compute; reflexivity. Qed.
