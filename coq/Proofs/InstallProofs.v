(* C07 — proofs about Model/Install.v against Spec/InstallSpec.v. *)
From Apko Require Import Base.Prelude Model.Install Spec.InstallSpec.
Open Scope string_scope. Open Scope list_scope.

(* ---- the two decision procedures are the rule table ---------------------- *)
Lemma string_eqb_empty_l : forall s, String.eqb "" s = String.eqb s "".
Proof. intros. apply String.eqb_sym. Qed.

Lemma decide_lazy_is_spec : forall got want gs ws,
  (p_origin got <> "" \/ p_origin want <> "") ->
  decide_lazy got want gs ws = spec_clash got want gs ws.
Proof.
  intros got want gs ws H. unfold decide_lazy, spec_clash, spec_decide, spec_same_origin.
  destruct (N.eqb gs ws); [reflexivity|].
  destruct (declares got want); [reflexivity|].
  destruct (declares want got); [reflexivity|]. cbn [orb].
  destruct (String.eqb_spec (p_origin got) (p_origin want)) as [E|E];
    destruct (String.eqb_spec (p_origin got) "") as [E0|E0]; cbn; try reflexivity.
  exfalso. destruct H as [H|H]; [exact (H E0) | apply H; rewrite <- E; exact E0].
Qed.

(* both origins empty: the lazy backend treats the packages as of one origin *)
Lemma decide_lazy_empty_origins : forall got want gs ws,
  p_origin got = "" -> p_origin want = "" ->
  decide_lazy got want gs ws = spec_decide (N.eqb gs ws) (declares got want) (declares want got) true.
Proof.
  intros got want gs ws H1 H2. unfold decide_lazy, spec_decide. rewrite H1, H2. cbn.
  destruct (N.eqb gs ws); [reflexivity|]. destruct (declares got want); [reflexivity|].
  rewrite orb_true_r. reflexivity.
Qed.

Lemma decide_stream_is_spec : forall got want gs ws,
  p_origin want <> "" ->
  decide_stream (Some got) want (N.eqb gs ws) = SDec (spec_clash got want gs ws).
Proof.
  intros got want gs ws H. unfold decide_stream, spec_clash, spec_decide, spec_same_origin.
  destruct (String.eqb_spec (p_origin want) "") as [E|_]; [contradiction|].
  destruct (N.eqb gs ws); [reflexivity|].
  destruct (declares got want); [reflexivity|].
  destruct (declares want got); cbn [negb andb orb].
  - rewrite andb_false_r. reflexivity.
  - rewrite andb_true_r.
    destruct (String.eqb_spec (p_origin got) (p_origin want)) as [E|E]; cbn [negb].
    + destruct (String.eqb_spec (p_origin got) "") as [E0|E0]; cbn; [|reflexivity].
      exfalso. apply H. rewrite <- E. exact E0.
    + rewrite andb_false_r. reflexivity.
Qed.

(* a package without origin: every clash is an error, identical content included *)
Lemma decide_stream_empty_origin : forall owner want same,
  p_origin want = "" -> decide_stream owner want same = SErrExists.
Proof. intros owner want same H. unfold decide_stream. rewrite H. reflexivity. Qed.

(* a file nobody is recorded for (it was there before the install) *)
Lemma decide_stream_not_ours : forall want,
  p_origin want <> "" -> decide_stream None want false = SErrNotOurs.
Proof.
  intros want H. unfold decide_stream.
  destruct (String.eqb_spec (p_origin want) "") as [E|_]; [contradiction|reflexivity].
Qed.
