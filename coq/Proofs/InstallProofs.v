(* C07 — proofs about Model/Install.v against Spec/InstallSpec.v. *)
From Apko Require Import Base.Prelude Base.C07Lib Generated.C07Install Generated.FsConsts Model.Install Spec.InstallSpec.
Open Scope string_scope. Open Scope list_scope.

(* ---- the two decision procedures are the rule table ---------------------- *)
Lemma string_eqb_empty_l : forall s, String.eqb "" s = String.eqb s "".
Proof. intros. apply String.eqb_sym. Qed.

Lemma decide_lazy_is_spec : forall got want gs ws,
  (p_origin got <> "" \/ p_origin want <> "") ->
  decide_lazy got want gs ws = spec_clash got want gs ws.
Proof.
  intros got want gs ws H. unfold decide_lazy, spec_clash, spec_decide, spec_same_origin.
  destruct (N.eqb gs ws); [reflexivity|].
  destruct (declares got want); [reflexivity|].
  destruct (declares want got); [reflexivity|]. cbn [orb].
  destruct (String.eqb_spec (p_origin got) (p_origin want)) as [E|E];
    destruct (String.eqb_spec (p_origin got) "") as [E0|E0]; cbn; try reflexivity.
  exfalso. destruct H as [H|H]; [exact (H E0) | apply H; rewrite <- E; exact E0].
Qed.

(* both origins empty: the lazy backend treats the packages as of one origin *)
Lemma decide_lazy_empty_origins : forall got want gs ws,
  p_origin got = "" -> p_origin want = "" ->
  decide_lazy got want gs ws = spec_decide (N.eqb gs ws) (declares got want) (declares want got) true.
Proof.
  intros got want gs ws H1 H2. unfold decide_lazy, spec_decide. rewrite H1, H2. cbn.
  destruct (N.eqb gs ws); [reflexivity|]. destruct (declares got want); [reflexivity|].
  rewrite orb_true_r. reflexivity.
Qed.

Lemma decide_stream_is_spec : forall got want gs ws,
  p_origin want <> "" ->
  decide_stream (Some got) want (N.eqb gs ws) = SDec (spec_clash got want gs ws).
Proof.
  intros got want gs ws H. unfold decide_stream, spec_clash, spec_decide, spec_same_origin.
  destruct (String.eqb_spec (p_origin want) "") as [E|_]; [contradiction|].
  destruct (N.eqb gs ws); [reflexivity|].
  destruct (declares got want); [reflexivity|].
  destruct (declares want got); cbn [negb andb orb].
  - rewrite andb_false_r. reflexivity.
  - rewrite andb_true_r.
    destruct (String.eqb_spec (p_origin got) (p_origin want)) as [E|E]; cbn [negb].
    + destruct (String.eqb_spec (p_origin got) "") as [E0|E0]; cbn; [|reflexivity].
      exfalso. apply H. rewrite <- E. exact E0.
    + rewrite andb_false_r. reflexivity.
Qed.

(* a package without origin: every clash is an error, identical content included *)
Lemma decide_stream_empty_origin : forall owner want same,
  p_origin want = "" -> decide_stream owner want same = SErrExists.
Proof. intros owner want same H. unfold decide_stream. rewrite H. reflexivity. Qed.

(* a file nobody is recorded for (it was there before the install) *)
Lemma decide_stream_not_ours : forall want,
  p_origin want <> "" -> decide_stream None want false = SErrNotOurs.
Proof.
  intros want H. unfold decide_stream.
  destruct (String.eqb_spec (p_origin want) "") as [E|_]; [contradiction|reflexivity].
Qed.

(* ---- maps ----------------------------------------------------------------- *)
Lemma path_eqb_eq : forall a b, path_eqb a b = true <-> a = b.
Proof. apply list_eqb_spec. apply String.eqb_eq. Qed.
Lemma path_eqb_refl : forall a, path_eqb a a = true.
Proof. intro. apply path_eqb_eq. reflexivity. Qed.
Lemma path_eqb_neq : forall a b, a <> b -> path_eqb a b = false.
Proof. intros a b H. destruct (path_eqb a b) eqn:E; [|reflexivity]. apply path_eqb_eq in E. contradiction. Qed.

Lemma fs_get_set_same : forall m p n, fs_get (fs_set m p n) p = Some n.
Proof.
  induction m as [|[q x] m IH]; intros p n; cbn.
  - rewrite path_eqb_refl. reflexivity.
  - destruct (path_eqb q p) eqn:E; cbn; rewrite E; [reflexivity | apply IH].
Qed.
Lemma fs_get_set_other : forall m p q n, p <> q -> fs_get (fs_set m p n) q = fs_get m q.
Proof.
  induction m as [|[r x] m IH]; intros p q n H; cbn.
  - rewrite (path_eqb_neq _ _ H). reflexivity.
  - destruct (path_eqb r p) eqn:E; cbn.
    + apply path_eqb_eq in E. subst r. rewrite (path_eqb_neq _ _ H). reflexivity.
    + destruct (path_eqb r q); [reflexivity | apply IH; exact H].
Qed.
Lemma if_get_set_same : forall m p i, if_get (if_set m p i) p = Some i.
Proof. intros. unfold if_set. cbn. rewrite path_eqb_refl. reflexivity. Qed.
Lemma if_get_set_other : forall m p q i, p <> q -> if_get (if_set m p i) q = if_get m q.
Proof. intros. unfold if_set. cbn. rewrite (path_eqb_neq _ _ H). reflexivity. Qed.

(* MkdirAll only adds directories where nothing was *)
Lemma mkdir_all_keeps : forall ps m perm p n,
  fs_get m p = Some n -> fs_get (fst (mkdir_all m ps perm)) p = Some n.
Proof.
  induction ps as [|q ps IH]; intros m perm p n H; cbn; [exact H|].
  destruct (fs_get m q) as [x|] eqn:E.
  - destruct x; cbn; try exact H. apply IH. exact H.
  - apply IH. rewrite fs_get_set_other; [exact H|]. intro; subst q. congruence.
Qed.

(* ---- what a successful step can do to the state -------------------------- *)
Inductive trans (i : nat) (h : hdr) (s s' : st) (app : bool) : Prop :=
| TSame : s' = s -> trans i h s s' app
| TGrow : s_if s' = s_if s ->
          (forall p n, fs_get (s_fs s) p = Some n -> fs_get (s_fs s') p = Some n) -> trans i h s s' app
| TSet : s' = set_file s i h -> app = true -> (h_kind h = KReg \/ h_kind h = KSym) -> trans i h s s' app.

Ltac inv_ok H := inversion H; subst; clear H.

Lemma need_dir_ok : forall s d k r, need_dir s d k = IOk r -> k tt = IOk r.
Proof. intros s d k r. unfold need_dir. destruct (dir_state (s_fs s) d); intro H; try discriminate. exact H. Qed.

Lemma step_trans : forall b pkgs i me s h s' app,
  step b pkgs i me s h = IOk (s', app) -> trans i h s s' app.
Proof.
  intros b pkgs i me s h s' app H. unfold step in H.
  destruct (h_kind h) eqn:K.
  - (* KReg *)
    destruct (is_lazy b).
    + unfold step_lazy_file in H. rewrite K in H. cbn match in H.
      apply need_dir_ok in H.
      destruct (fs_get (s_fs s) (h_path h)) as [x|] eqn:G.
      * destruct x as [m|gs md [j|] dt|tg [j|]|]; try discriminate.
        -- destruct (decide_lazy (nth j pkgs no_pkg) me gs (h_sum h)); try discriminate; inv_ok H;
             [apply TSame; reflexivity | apply TSet; auto].
        -- destruct dt; try discriminate. destruct (N.eqb gs (h_sum h)); try discriminate. inv_ok H. apply TSame; reflexivity.
        -- destruct (decide_lazy (nth j pkgs no_pkg) me tg (h_sum h)); try discriminate; inv_ok H;
             [apply TSame; reflexivity | apply TSet; auto].
      * inv_ok H. apply TSet; auto.
    + unfold step_stream_reg in H.
      destruct (dir_state (s_fs s) (parent (h_path h))); try discriminate.
      destruct (fs_get (s_fs s) (h_path h)) as [x|] eqn:G.
      * destruct x as [m|gs md ow dt|tg ow|]; try discriminate.
        destruct (decide_stream _ me (N.eqb gs (h_sum h))) as [[| |]| |]; try discriminate; inv_ok H;
          [apply TSame; reflexivity | apply TSet; auto].
      * inv_ok H. apply TSet; auto.
  - (* KDir *)
    unfold step_dir in H.
    destruct (mkdir_all (s_fs s) (prefixes (h_path h)) (perm_of (h_mode h))) as [m [e|]] eqn:M; try discriminate.
    inv_ok H. apply TGrow; [reflexivity|]. intros p n G. cbn.
    pose proof (mkdir_all_keeps (prefixes (h_path h)) (s_fs s) (perm_of (h_mode h)) p n G) as Hk.
    rewrite M in Hk. exact Hk.
  - (* KSym *)
    destruct (is_lazy b).
    + unfold step_lazy_file in H. rewrite K in H.
      match type of H with (if ?c then _ else _) = _ => destruct c end.
      * inv_ok H. apply TSame; reflexivity.
      * apply need_dir_ok in H.
        destruct (fs_get (s_fs s) (h_path h)) as [x|] eqn:G.
        -- destruct x as [m|gs md [j|] dt|tg [j|]|]; try discriminate.
           ++ destruct (decide_lazy (nth j pkgs no_pkg) me gs (h_sum h)); try discriminate; inv_ok H;
                [apply TSame; reflexivity | apply TSet; auto].
           ++ destruct dt; try discriminate. destruct (N.eqb gs (h_sum h)); try discriminate. inv_ok H. apply TSame; reflexivity.
           ++ destruct (decide_lazy (nth j pkgs no_pkg) me tg (h_sum h)); try discriminate; inv_ok H;
                [apply TSame; reflexivity | apply TSet; auto].
        -- inv_ok H. apply TSet; auto.
    + unfold step_stream_sym in H. apply need_dir_ok in H.
      destruct (fs_get (s_fs s) (h_path h)) as [x|] eqn:G.
      * destruct x as [m|gs md ow dt|tg ow|]; try discriminate.
        destruct (N.eqb tg (h_sum h)); try discriminate. inv_ok H. apply TSame; reflexivity.
      * inv_ok H. apply TSet; auto.
  - (* KLink *)
    unfold step_link in H. apply need_dir_ok in H.
    destruct (dir_state (s_fs s) (parent (h_link h))); try discriminate.
    destruct (fs_get (s_fs s) (h_link h)) as [x|] eqn:G; try discriminate.
    destruct x as [m|gs md ow dt|tg ow|]; try discriminate.
    destruct (fs_get (s_fs s) (h_path h)) eqn:G2; try discriminate.
    inv_ok H. apply TGrow; [reflexivity|]. intros p n Hp. cbn.
    rewrite fs_get_set_other; [exact Hp|]. intro; subst p. congruence.
Qed.

(* ---- the owner invariant -------------------------------------------------- *)
Definition all_hdrs (pkgs : list pkg) : list hdr := flat_map p_files pkgs.

(* no path is shipped as a regular file by one package and as a symbolic link
   by another (or the same) *)
Definition no_sym_over_reg (pkgs : list pkg) : Prop :=
  forall h1 h2, In h1 (all_hdrs pkgs) -> In h2 (all_hdrs pkgs) ->
    h_kind h1 = KReg -> h_kind h2 = KSym -> h_path h1 <> h_path h2.

Lemma in_nth_all_hdrs : forall pkgs k h, In h (p_files (nth k pkgs no_pkg)) -> In h (all_hdrs pkgs).
Proof.
  intros pkgs k h H. unfold all_hdrs. apply in_flat_map.
  destruct (Nat.lt_ge_cases k (List.length pkgs)) as [L|L].
  - exists (nth k pkgs no_pkg). split; [apply nth_In; exact L | exact H].
  - rewrite nth_overflow in H by exact L. contradiction.
Qed.

(* [L k] = the headers appended so far to package k's list *)
Definition owned (pkgs : list pkg) (s : st) (L : nat -> list hdr) : Prop :=
  forall p k, if_get (s_if s) p = Some k ->
    exists h, In h (L k) /\ In h (p_files (nth k pkgs no_pkg)) /\ h_kind h = KReg /\ h_path h = p /\
              fs_get (s_fs s) p = Some (NFile (h_sum h) (h_mode h) (Some k) true).

Definition upd (L : nat -> list hdr) (i : nat) (l : list hdr) : nat -> list hdr :=
  fun k => if Nat.eqb k i then l else L k.

Lemma owned_step : forall b pkgs i s h s' app L acc,
  no_sym_over_reg pkgs ->
  In h (p_files (nth i pkgs no_pkg)) ->
  owned pkgs s (upd L i acc) ->
  step b pkgs i (nth i pkgs no_pkg) s h = IOk (s', app) ->
  owned pkgs s' (upd L i (if app then acc ++ [h] else acc)).
Proof.
  intros b pkgs i s h s' app L acc Hsym Hin Hown Hstep.
  assert (Hmono : forall k x, In x (upd L i acc k) -> In x (upd L i (if app then acc ++ [h] else acc) k)).
  { intros k x. unfold upd. destruct (Nat.eqb k i); [|auto]. destruct app; [|auto]. intro. apply in_or_app. auto. }
  apply step_trans in Hstep. destruct Hstep as [E|Eif Hfs|E Eapp Hk].
  - subst s'. intros p k G. destruct (Hown p k G) as (x & A & B & C & D & F).
    exists x. repeat split; auto.
  - intros p k G. rewrite Eif in G. destruct (Hown p k G) as (x & A & B & C & D & F).
    exists x. repeat split; auto.
  - subst s' app. intros p k G. unfold set_file in G |- *. cbn [s_if s_fs] in *.
    destruct Hk as [K|K]; rewrite K in *.
    + (* a regular file was written at h_path h *)
      destruct (list_eq_dec string_dec (h_path h) p) as [E|E].
      * subst p. rewrite if_get_set_same in G. inv_ok G. exists h.
        split. { unfold upd. rewrite Nat.eqb_refl. apply in_or_app. right. left. reflexivity. }
        split; [exact Hin|]. split; [exact K|]. split; [reflexivity|].
        rewrite fs_get_set_same. unfold file_node. rewrite K. reflexivity.
      * rewrite if_get_set_other in G by exact E.
        destruct (Hown p k G) as (x & A & B & C & D & F).
        exists x. repeat split; auto. rewrite fs_get_set_other by exact E. exact F.
    + (* a symbolic link was written: nobody owns that path *)
      destruct (Hown p k G) as (x & A & B & C & D & F).
      assert (h_path h <> p).
      { intro E. apply (Hsym x h); auto.
        - eapply in_nth_all_hdrs; exact B.
        - eapply in_nth_all_hdrs; exact Hin.
        - congruence. }
      exists x. repeat split; auto. rewrite fs_get_set_other by assumption. exact F.
Qed.

Lemma owned_files : forall b pkgs i hs s acc s' acc' L,
  no_sym_over_reg pkgs ->
  (forall h, In h hs -> In h (p_files (nth i pkgs no_pkg))) ->
  owned pkgs s (upd L i acc) ->
  install_files b pkgs i (nth i pkgs no_pkg) s acc hs = IOk (s', acc') ->
  owned pkgs s' (upd L i acc').
Proof.
  induction hs as [|h hs IH]; intros s acc s' acc' L Hsym Hsub Hown H; cbn in H.
  - inv_ok H. exact Hown.
  - destruct (step b pkgs i (nth i pkgs no_pkg) s h) as [[s1 app]|e s1] eqn:S; [|discriminate].
    eapply IH; [exact Hsym | | | exact H].
    + intros x Hx. apply Hsub. right. exact Hx.
    + eapply owned_step; eauto. apply Hsub. left. reflexivity.
Qed.

Lemma upd_nth : forall (done : list (list hdr)) acc k,
  upd (fun k => nth k done []) (List.length done) acc k = nth k (done ++ [acc]) [].
Proof.
  intros done acc k. unfold upd. destruct (Nat.eqb_spec k (List.length done)) as [E|E].
  - subst k. rewrite app_nth2 by lia. rewrite Nat.sub_diag. reflexivity.
  - destruct (Nat.lt_ge_cases k (List.length done)) as [Lk|Lk].
    + rewrite app_nth1 by exact Lk. reflexivity.
    + rewrite !nth_overflow; [reflexivity | rewrite app_length; cbn; lia | exact Lk].
Qed.

Lemma owned_ext : forall pkgs s L L', (forall k, L k = L' k) -> owned pkgs s L -> owned pkgs s L'.
Proof. intros pkgs s L L' E H p k G. destruct (H p k G) as (x & A & B). exists x. rewrite <- E. auto. Qed.

Lemma owned_all : forall b pkgs todo pre s done s' done',
  no_sym_over_reg pkgs ->
  pkgs = pre ++ todo -> List.length done = List.length pre ->
  owned pkgs s (fun k => nth k done []) ->
  install_all b pkgs (List.length pre) s done todo = IOk (s', done') ->
  owned pkgs s' (fun k => nth k done' []).
Proof.
  induction todo as [|me todo IH]; intros pre s done s' done' Hsym Hp Hl Hown H; cbn in H.
  - inv_ok H. exact Hown.
  - assert (Hme : nth (List.length pre) pkgs no_pkg = me).
    { subst pkgs. rewrite app_nth2 by lia. rewrite Nat.sub_diag. reflexivity. }
    destruct (install_files b pkgs (List.length pre) me s [] (p_files me)) as [[s1 files]|e s1] eqn:F; [|discriminate].
    specialize (IH (pre ++ [me]) s1 (done ++ [files]) s' done' Hsym).
    assert (El : List.length (pre ++ [me]) = S (List.length pre)) by (rewrite app_length; cbn; lia).
    rewrite El in IH.
    apply IH; [subst pkgs; rewrite <- app_assoc; reflexivity | rewrite app_length; cbn; lia | | exact H].
    apply owned_ext with (L := upd (fun k => nth k done []) (List.length done) files); [intro k; apply upd_nth|].
    rewrite Hl. rewrite <- Hme in F.
    eapply owned_files; [exact Hsym | | | exact F].
    + intros x Hx. exact Hx.
    + eapply owned_ext; [|exact Hown]. intro k. unfold upd.
      destruct (Nat.eqb_spec k (List.length pre)) as [E|E]; [|reflexivity].
      subst k. rewrite nth_overflow by lia. reflexivity.
Qed.

Lemma install_owned : forall b pkgs init f,
  no_sym_over_reg pkgs -> install b pkgs init = RDone f ->
  owned pkgs {| s_fs := f_fs f; s_if := f_if f |} (fun k => nth k (f_files f) []).
Proof.
  intros b pkgs init f Hsym H. unfold install in H.
  destruct (install_all b pkgs 0 {| s_fs := init; s_if := [] |} [] pkgs) as [[s all]|e s] eqn:A; [|discriminate].
  inv_ok H. cbn [f_fs f_if f_files].
  pose proof (owned_all b pkgs pkgs [] {| s_fs := init; s_if := [] |} [] s all Hsym eq_refl eq_refl) as O.
  cbn [List.length] in O. destruct s as [fs ifs]. apply O; [|exact A].
  intros p k G. cbn in G. discriminate.
Qed.

(* pruning: a path with a recorded owner survives only in that owner's list *)
Lemma prune_owner : forall ifs k files h i,
  In h (prune ifs k files) -> h_kind h <> KDir -> if_get ifs (h_path h) = Some i -> k = i.
Proof.
  intros ifs k files h i H Hk G. unfold prune in H. apply filter_In in H. destruct H as [_ H].
  rewrite G in H. destruct (h_kind h); try (apply Nat.eqb_eq in H; auto). contradiction.
Qed.
Lemma prune_keeps_own : forall ifs k files h,
  In h files -> if_get ifs (h_path h) = Some k -> In h (prune ifs k files).
Proof.
  intros. unfold prune. apply filter_In. split; [assumption|]. rewrite H0.
  destruct (h_kind h); try apply Nat.eqb_refl. reflexivity.
Qed.

Theorem owner_invariant : forall b pkgs init f,
  no_sym_over_reg pkgs -> install b pkgs init = RDone f ->
  forall p i, if_get (f_if f) p = Some i ->
    exists h, In h (p_files (nth i pkgs no_pkg)) /\ h_kind h = KReg /\ h_path h = p /\
      (* the content (and mode) present is package i's *)
      fs_get (f_fs f) p = Some (NFile (h_sum h) (h_mode h) (Some i) true) /\
      (* after pruning the path is listed under package i ... *)
      In h (prune (f_if f) i (nth i (f_files f) [])) /\
      (* ... and under no other package (directory headers are never pruned: their
         names end in "/" and are no keys of installedFiles) *)
      (forall k h', In h' (prune (f_if f) k (nth k (f_files f) [])) -> h_kind h' <> KDir -> h_path h' = p -> k = i).
Proof.
  intros b pkgs init f Hsym H p i G.
  destruct (install_owned b pkgs init f Hsym H p i G) as (h & A & B & C & D & F). cbn in F.
  exists h. repeat split; auto.
  - apply prune_keeps_own; [exact A | rewrite D; exact G].
  - intros k h' Hin Hk' Hp. eapply prune_owner; [exact Hin | exact Hk' | rewrite Hp; exact G].
Qed.

(* ---- a Conflict decision is the error of the whole install ---------------- *)
(* header [h] of package [me] meets, in state [s], an entry written from
   another package's tar entry (lazy) / a file with a recorded owner
   (streaming), and the backend's decision procedure answers Conflict *)
Definition conflict_at (b : backend) (pkgs : list pkg) (me : pkg) (s : st) (h : hdr) : Prop :=
  dir_state (s_fs s) (parent (h_path h)) = PDir /\
  if is_lazy b then
    (h_kind h = KReg \/ h_kind h = KSym) /\
    exists j gs, ((exists md dt, fs_get (s_fs s) (h_path h) = Some (NFile gs md (Some j) dt)) \/
                  (exists lk, fs_get (s_fs s) (h_path h) = Some (NSym gs (Some j) lk))) /\
                 decide_lazy (nth j pkgs no_pkg) me gs (h_sum h) = Conflict
  else
    h_kind h = KReg /\
    exists gs md ow dt j, fs_get (s_fs s) (h_path h) = Some (NFile gs md ow dt) /\
      if_get (s_if s) (h_path h) = Some j /\
      decide_stream (Some (nth j pkgs no_pkg)) me (N.eqb gs (h_sum h)) = SDec Conflict.

Lemma decide_lazy_conflict_neq : forall a c gs ws, decide_lazy a c gs ws = Conflict -> N.eqb gs ws = false.
Proof. intros a c gs ws. unfold decide_lazy. destruct (N.eqb gs ws); [discriminate | reflexivity]. Qed.

Lemma conflict_step : forall b pkgs i me s h,
  conflict_at b pkgs me s h -> step b pkgs i me s h = IErr (EConflict (h_path h)) s.
Proof.
  intros b pkgs i me s h [Hd H]. unfold step. destruct (is_lazy b) eqn:Lz.
  - destruct H as (Hk & j & gs & Hn & Hc).
    assert (Hneq := decide_lazy_conflict_neq _ _ _ _ Hc).
    assert (E : step_lazy_file pkgs i me s h = IErr (EConflict (h_path h)) s).
    { unfold step_lazy_file, need_dir. rewrite Hd.
      destruct Hn as [(md & dt & G)|(lk & G)]; rewrite G.
      - destruct (h_kind h); cbn match; rewrite Hc; reflexivity.
      - destruct (h_kind h); cbn match; try (rewrite Hc; reflexivity).
        rewrite Hneq. rewrite Hc. reflexivity. }
    destruct Hk as [K|K]; rewrite K; exact E.
  - destruct H as (K & gs & md & ow & dt & j & G & Gi & Hc). rewrite K.
    unfold step_stream_reg. rewrite Hd, G, Gi, Hc. reflexivity.
Qed.

Lemma install_files_err : forall b pkgs i me hpre s0 acc0 s acc h hpost e s',
  install_files b pkgs i me s0 acc0 hpre = IOk (s, acc) ->
  step b pkgs i me s h = IErr e s' ->
  install_files b pkgs i me s0 acc0 (hpre ++ h :: hpost) = IErr e s'.
Proof.
  induction hpre as [|x hpre IH]; intros s0 acc0 s acc h hpost e s' H S; cbn in *.
  - inv_ok H. rewrite S. reflexivity.
  - destruct (step b pkgs i me s0 x) as [[s1 app]|e1 s1]; [|discriminate].
    eapply IH; eauto.
Qed.

Lemma install_all_err : forall b pkgs pre i s0 done0 s1 done1 me post e s',
  install_all b pkgs i s0 done0 pre = IOk (s1, done1) ->
  install_files b pkgs (i + List.length pre) me s1 [] (p_files me) = IErr e s' ->
  install_all b pkgs i s0 done0 (pre ++ me :: post) = IErr e s'.
Proof.
  induction pre as [|x pre IH]; intros i s0 done0 s1 done1 me post e s' H F; cbn in *.
  - inv_ok H. rewrite Nat.add_0_r in F. rewrite F. reflexivity.
  - destruct (install_files b pkgs i x s0 [] (p_files x)) as [[s2 files]|e2 s2]; [|discriminate].
    eapply IH; [exact H|]. rewrite Nat.add_succ_comm. exact F.
Qed.

Theorem no_silent_overwrite : forall b pkgs init pre me post hpre h hpost s1 done1 s acc,
  pkgs = pre ++ me :: post ->
  p_files me = hpre ++ h :: hpost ->
  install_all b pkgs 0 {| s_fs := init; s_if := [] |} [] pre = IOk (s1, done1) ->
  install_files b pkgs (List.length pre) me s1 [] hpre = IOk (s, acc) ->
  conflict_at b pkgs me s h ->
  install b pkgs init = RFail (EConflict (h_path h)) s.
Proof.
  intros b pkgs init pre me post hpre h hpost s1 done1 s acc Hp Hf Hpre Hh Hc.
  unfold install.
  assert (E : install_all b pkgs 0 {| s_fs := init; s_if := [] |} [] pkgs = IErr (EConflict (h_path h)) s).
  { rewrite Hp at 2. eapply install_all_err; [exact Hpre|]. cbn [Nat.add]. rewrite Hf.
    eapply install_files_err; [exact Hh|]. apply conflict_step. exact Hc. }
  rewrite E. reflexivity.
Qed.

(* ---- the database against the tree ---------------------------------------- *)
Definition nodup_paths (pkgs : list pkg) : Prop :=
  forall pk h1 h2, In pk pkgs -> In h1 (p_files pk) -> In h2 (p_files pk) -> h_path h1 = h_path h2 -> h1 = h2.

Lemma install_files_sub : forall b pkgs i me hs s acc s' acc' x,
  install_files b pkgs i me s acc hs = IOk (s', acc') -> In x acc' -> In x acc \/ In x hs.
Proof.
  induction hs as [|h hs IH]; intros s acc s' acc' x H Hx; cbn in H.
  - inv_ok H. auto.
  - destruct (step b pkgs i me s h) as [[s1 app]|e s1]; [|discriminate].
    destruct (IH _ _ _ _ _ H Hx) as [A|A]; [|right; right; exact A].
    destruct app; [|auto]. apply in_app_or in A. destruct A as [A|[A|[]]]; [auto | subst; right; left; reflexivity].
Qed.

Definition listed_sub (pkgs : list pkg) (done : list (list hdr)) : Prop :=
  forall k x, In x (nth k done []) -> In x (p_files (nth k pkgs no_pkg)).

Lemma listed_all : forall b pkgs todo pre s done s' done',
  pkgs = pre ++ todo -> List.length done = List.length pre ->
  listed_sub pkgs done ->
  install_all b pkgs (List.length pre) s done todo = IOk (s', done') ->
  listed_sub pkgs done'.
Proof.
  induction todo as [|me todo IH]; intros pre s done s' done' Hp Hl Hs H; cbn in H.
  - inv_ok H. exact Hs.
  - assert (Hme : nth (List.length pre) pkgs no_pkg = me).
    { subst pkgs. rewrite app_nth2 by lia. rewrite Nat.sub_diag. reflexivity. }
    destruct (install_files b pkgs (List.length pre) me s [] (p_files me)) as [[s1 files]|e s1] eqn:F; [|discriminate].
    specialize (IH (pre ++ [me]) s1 (done ++ [files]) s' done').
    assert (El : List.length (pre ++ [me]) = S (List.length pre)) by (rewrite app_length; cbn; lia).
    rewrite El in IH.
    apply IH; [subst pkgs; rewrite <- app_assoc; reflexivity | rewrite app_length; cbn; lia | | exact H].
    intros k x Hx. rewrite <- upd_nth in Hx. unfold upd in Hx.
    destruct (Nat.eqb_spec k (List.length done)) as [E|E].
    + subst k. rewrite Hl, Hme. destruct (install_files_sub _ _ _ _ _ _ _ _ _ x F Hx) as [[]|A]. exact A.
    + apply Hs. exact Hx.
Qed.

Lemma db_from_nth : forall ifs all i k entries,
  nth_error (db_from ifs i all) k = Some entries ->
  entries = db_entries ifs (i + k) (nth k all []).
Proof.
  induction all as [|f all IH]; intros i k entries H; cbn in H.
  - destruct k; discriminate.
  - destruct k as [|k]; cbn in H.
    + inv_ok H. rewrite Nat.add_0_r. reflexivity.
    + rewrite (IH _ _ _ H). rewrite Nat.add_succ_comm. reflexivity.
Qed.

Lemma db_entries_sub : forall ifs k files h, In h (db_entries ifs k files) -> In h (prune ifs k files).
Proof. intros ifs k files h H. unfold db_entries in H. apply filter_In in H. tauto. Qed.

Theorem db_regular_entries_true : forall b pkgs init f,
  no_sym_over_reg pkgs -> nodup_paths pkgs -> install b pkgs init = RDone f ->
  forall k entries h, nth_error (f_db f) k = Some entries -> In h entries -> h_kind h = KReg ->
    if_get (f_if f) (h_path h) = None \/
    fs_get (f_fs f) (h_path h) = Some (NFile (h_sum h) (h_mode h) (Some k) true).
Proof.
  intros b pkgs init f Hsym Hnd H k entries h Hn Hin Hk.
  pose proof (install_owned b pkgs init f Hsym H) as Hown.
  assert (Hsub : listed_sub pkgs (f_files f)).
  { unfold install in H.
    destruct (install_all b pkgs 0 {| s_fs := init; s_if := [] |} [] pkgs) as [[s all]|e s] eqn:A; [|discriminate].
    inv_ok H. cbn [f_files].
    apply (listed_all b pkgs pkgs [] {| s_fs := init; s_if := [] |} [] s all eq_refl eq_refl); [|exact A].
    intros j x Hx. destruct j; cbn in Hx; contradiction. }
  assert (Hdb : f_db f = db_from (f_if f) 0 (f_files f)).
  { unfold install in H.
    destruct (install_all b pkgs 0 {| s_fs := init; s_if := [] |} [] pkgs) as [[s all]|e s]; [|discriminate].
    inv_ok H. reflexivity. }
  rewrite Hdb in Hn. apply db_from_nth in Hn. cbn [Nat.add] in Hn. subst entries.
  apply db_entries_sub in Hin.
  destruct (if_get (f_if f) (h_path h)) as [j|] eqn:G; [right | left; reflexivity].
  assert (k = j) by (eapply prune_owner; eauto; rewrite Hk; discriminate). subst j.
  destruct (Hown (h_path h) k G) as (h0 & A & B & C & D & F). cbn in F.
  assert (Hfiles : In h (p_files (nth k pkgs no_pkg))).
  { apply Hsub. unfold prune in Hin. apply filter_In in Hin. tauto. }
  assert (h0 = h).
  { destruct (Nat.lt_ge_cases k (List.length pkgs)) as [Lk|Lk].
    - eapply Hnd; [apply nth_In; exact Lk | exact B | exact Hfiles | exact D].
    - rewrite nth_overflow in Hfiles by exact Lk. contradiction. }
  subst h0. exact F.
Qed.

(* the full statement: every recorded entry exists with the recorded mode and owner *)
Definition node_perm (n : node) : N :=
  match n with NDir m => N.land m 511 | NFile _ m _ _ => N.land m 511 | NSym _ _ _ => 511 | NOther => 0 end.
Definition DbMatchesFs (f : final) : Prop :=
  forall k entries h, nth_error (f_db f) k = Some entries -> In h entries ->
    exists n, fs_get (f_fs f) (h_path h) = Some n /\
      node_perm n = perm_of (h_mode h) /\ node_uid n = h_uid h /\ node_gid n = h_gid h.

Definition wit_dirs : list hdr :=
  [ {| h_path := ["usr"]; h_kind := KDir; h_mode := 493; h_uid := 0; h_gid := 0; h_sum := 0; h_link := [] |};
    {| h_path := ["usr"; "bin"]; h_kind := KDir; h_mode := 493; h_uid := 0; h_gid := 0; h_sum := 0; h_link := [] |} ].
Definition wit_file_1000 : hdr :=
  {| h_path := ["usr"; "bin"; "x"]; h_kind := KReg; h_mode := 493; h_uid := 1000; h_gid := 1000; h_sum := 2; h_link := [] |}.

(* C07-F1: one package, one file owned 1000:1000 *)
Lemma db_owner_witness : forall b, exists f entries n,
  install b [ {| p_name := "a"; p_origin := "a"; p_replaces := []; p_files := wit_dirs ++ [wit_file_1000] |} ] [] = RDone f /\
  nth_error (f_db f) 0 = Some entries /\ In wit_file_1000 entries /\
  fs_get (f_fs f) (h_path wit_file_1000) = Some n /\ node_uid n <> h_uid wit_file_1000.
Proof.
  intro b. destruct b; eexists _, _, _;
    (split; [vm_compute; reflexivity|]); (split; [vm_compute; reflexivity|]);
    (split; [vm_compute; tauto|]); (split; [vm_compute; reflexivity|]); vm_compute; discriminate.
Qed.

(* C07-F2: two packages ship opt/d with modes 0700 and 0755, all owners root *)
Definition wit_dir (m : N) : hdr :=
  {| h_path := ["opt"; "d"]; h_kind := KDir; h_mode := m; h_uid := 0; h_gid := 0; h_sum := 0; h_link := [] |}.
Definition wit_opt : hdr :=
  {| h_path := ["opt"]; h_kind := KDir; h_mode := 493; h_uid := 0; h_gid := 0; h_sum := 0; h_link := [] |}.
Definition wit_f (name : string) (sm : N) : hdr :=
  {| h_path := ["opt"; "d"; name]; h_kind := KReg; h_mode := 420; h_uid := 0; h_gid := 0; h_sum := sm; h_link := [] |}.
Lemma db_dir_mode_witness : forall b, exists f entries n,
  install b [ {| p_name := "a"; p_origin := "a"; p_replaces := []; p_files := [wit_opt; wit_dir 448; wit_f "a" 2] |};
              {| p_name := "b"; p_origin := "b"; p_replaces := []; p_files := [wit_opt; wit_dir 493; wit_f "b" 3] |} ] [] = RDone f /\
  nth_error (f_db f) 1 = Some entries /\ In (wit_dir 493) entries /\
  fs_get (f_fs f) ["opt"; "d"] = Some n /\ node_perm n <> perm_of (h_mode (wit_dir 493)).
Proof.
  intro b. destruct b; eexists _, _, _;
    (split; [vm_compute; reflexivity|]); (split; [vm_compute; reflexivity|]);
    (split; [vm_compute; tauto|]); (split; [vm_compute; reflexivity|]); vm_compute; discriminate.
Qed.

Theorem db_matches_fs_refuted : forall b,
  ~ (forall pkgs init f, install b pkgs init = RDone f -> DbMatchesFs f).
Proof.
  intros b H. destruct (db_owner_witness b) as (f & entries & n & A & B & C & D & E).
  destruct (H _ _ _ A 0 entries wit_file_1000 B C) as (n' & G & _ & U & _).
  rewrite D in G. inv_ok G. contradiction.
Qed.

Theorem db_matches_fs_refuted_root_owned : forall b,
  ~ (forall pkgs init f, install b pkgs init = RDone f ->
       (forall h, In h (all_hdrs pkgs) -> h_uid h = 0%N /\ h_gid h = 0%N) -> DbMatchesFs f).
Proof.
  intros b H. destruct (db_dir_mode_witness b) as (f & entries & n & A & B & C & D & E).
  destruct (H _ _ _ A) with (k := 1) (entries := entries) (h := wit_dir 493) as (n' & G & Pm & _); auto.
  - intros h Hh. cbn in Hh. repeat (destruct Hh as [Hh|Hh]; [subst h; split; reflexivity|]). contradiction.
  - cbn [h_path wit_dir] in G. rewrite D in G. inv_ok G. contradiction.
Qed.

(* without the hypothesis on symbolic links the owner invariant fails on tarfs *)
Lemma owner_invariant_needs_no_sym_over_reg : exists pkgs f p i,
  install Lazy pkgs [] = RDone f /\ if_get (f_if f) p = Some i /\
  forall sm md ow dt, fs_get (f_fs f) p <> Some (NFile sm md ow dt).
Proof.
  exists [ {| p_name := "a"; p_origin := "o"; p_replaces := []; p_files := wit_dirs ++ [
             {| h_path := ["usr"; "bin"; "x"]; h_kind := KReg; h_mode := 493; h_uid := 0; h_gid := 0; h_sum := 2; h_link := [] |}] |};
           {| p_name := "b"; p_origin := "o"; p_replaces := []; p_files := wit_dirs ++ [
             {| h_path := ["usr"; "bin"; "x"]; h_kind := KSym; h_mode := 511; h_uid := 0; h_gid := 0; h_sum := 3; h_link := [] |}] |} ].
  eexists _, ["usr"; "bin"; "x"], 0.
  split; [vm_compute; reflexivity|]. split; [vm_compute; reflexivity|].
  intros sm md ow dt. vm_compute. discriminate.
Qed.

(* ---- the rule validator decides the readable statement --------------------- *)
Lemma eclass_eqb_eq : forall a b, eclass_eqb a b = true <-> a = b.
Proof. destruct a, b; cbn; split; intro; try reflexivity; discriminate. Qed.
Lemma tkind_eqb_eq : forall a b, tkind_eqb a b = true <-> a = b.
Proof. destruct a, b; cbn; split; intro; try reflexivity; discriminate. Qed.

Lemma own_get_in : forall m p v, own_get m p = Some v -> exists q, In (q, v) m /\ q = p.
Proof.
  induction m as [|[q x] m IH]; intros p v H; cbn in H; [discriminate|].
  destruct (path_eqb q p) eqn:E.
  - inv_ok H. apply path_eqb_eq in E. exists q. split; [left; reflexivity | exact E].
  - destruct (IH _ _ H) as (r & A & B). exists r. split; [right; exact A | exact B].
Qed.
Lemma in_own_get : forall m p v, In (p, v) m -> exists v', own_get m p = Some v'.
Proof.
  induction m as [|[q x] m IH]; intros p v H; [contradiction|]. cbn.
  destruct (path_eqb q p) eqn:E; [eexists; reflexivity|].
  destruct H as [H|H]; [inv_ok H; rewrite path_eqb_refl in E; discriminate | eapply IH; exact H].
Qed.

Lemma kind_eqb_eq : forall a b, kind_eqb a b = true <-> a = b.
Proof. destruct a, b; cbn; split; intro; try reflexivity; discriminate. Qed.

Lemma winner_present_iff : forall tree p i sm k,
  winner_present tree p (i, sm, k) = true <->
  exists n, tree_get tree p = Some n /\ t_kind n = tkind_of k /\ (k <> KDir -> t_sum n = sm).
Proof.
  intros tree p i sm k. unfold winner_present.
  destruct (tree_get tree p) as [n|]; [|split; [discriminate | intros (n & H & _); discriminate]].
  rewrite andb_true_iff, orb_true_iff, tkind_eqb_eq, N.eqb_eq. unfold is_dir_kind. rewrite kind_eqb_eq.
  split.
  - intros [A B]. exists n. split; [reflexivity|]. split; [exact A|]. intro Hk. destruct B as [B|B]; [contradiction | exact B].
  - intros (n' & E & A & B). inv_ok E. split; [exact A|].
    destruct k; try (right; apply B; discriminate). left; reflexivity.
Qed.

Lemma winners_present_iff : forall m tree,
  winners_present m tree = true <->
  forall p i sm k, own_get m p = Some (i, sm, k) ->
    exists n, tree_get tree p = Some n /\ t_kind n = tkind_of k /\ (k <> KDir -> t_sum n = sm).
Proof.
  intros m tree. unfold winners_present. rewrite forallb_forall. split.
  - intros H p i sm k G. destruct (own_get_in _ _ _ G) as (q & A & B). subst q.
    specialize (H _ A). cbn [fst] in H. rewrite G in H. apply (proj1 (winner_present_iff tree p i sm k)). exact H.
  - intros H [p v] Hin. cbn [fst]. destruct (in_own_get _ _ _ Hin) as ([[i sm] k] & G). rewrite G.
    apply (proj2 (winner_present_iff tree p i sm k)). eapply H. exact G.
Qed.

(* the spec's rule never answers "fails some other way" nor "cannot be told" *)
Definition decided (r : walk_res) : Prop :=
  match r with WOk _ _ | WConflict _ _ => True | _ => False end.

Lemma walk_files_spec_decided : forall hs pkgs i me m u, decided (walk_files spec_rule pkgs i me m u hs).
Proof.
  induction hs as [|h hs IH]; intros pkgs i me m u; cbn; [exact I|].
  destruct (h_kind h);
    try (destruct (own_get m (h_path h)) as [[[j gs] k]|]; [|apply IH];
         unfold spec_rule; destruct (spec_clash_k (nth j pkgs no_pkg) me k _ gs (h_sum h)); try apply IH; exact I).
  destruct (own_get m (h_link h)) as [[[j gs] k]|]; [|apply IH]. destruct k; apply IH.
Qed.
Lemma walk_pkgs_spec_decided : forall todo pkgs i m u, decided (walk_pkgs spec_rule pkgs i m u todo).
Proof.
  induction todo as [|me todo IH]; intros pkgs i m u; cbn; [exact I|].
  pose proof (walk_files_spec_decided (p_files me) pkgs i me m u) as D.
  destruct (walk_files spec_rule pkgs i me m u (p_files me)); try contradiction; [apply IH | exact I].
Qed.

Theorem rules_validator_decides : forall pkgs e tree,
  agrees (spec_walk pkgs) e tree = true <-> RulesObeyed pkgs e tree.
Proof.
  intros pkgs e tree. unfold agrees, RulesObeyed.
  pose proof (walk_pkgs_spec_decided pkgs pkgs 0 [] []) as NF. fold (spec_walk pkgs) in NF.
  destruct (spec_walk pkgs) as [m u|p u|u|p wk gs u]; try contradiction.
  - rewrite andb_true_iff, eclass_eqb_eq, winners_present_iff. tauto.
  - apply eclass_eqb_eq.
Qed.

(* ---- the entry validator decides the readable statement -------------------- *)
Lemma app_nil_iff : forall (A : Type) (a b : list A), a ++ b = [] <-> a = [] /\ b = [].
Proof. intros. split; [apply app_eq_nil | intros [-> ->]; reflexivity]. Qed.

Lemma tag_if_nil : forall b t, tag_if b t = [] <-> b = false.
Proof. intros [|] t; cbn; split; intro; try reflexivity; discriminate. Qed.

Theorem entry_validator_decides : forall b pre tree fm al th dp d,
  check_entry b pre tree fm al th dp d = [] <-> EntryTrue tree d.
Proof.
  intros b pre tree fm al th dp d. unfold check_entry, EntryTrue.
  destruct (tree_lookup tree (d_path d)) as [n|];
    [|split; [destruct (th (d_path d)); discriminate | intros (n & H & _); discriminate]].
  match goal with |- (if ?c then _ else _) = [] <-> _ => destruct c eqn:DirLink end.
  { (* a directory entry over a symbolic link is never true *)
    split; [discriminate|]. intros (n' & E & Hd & _). inv_ok E. exfalso.
    apply andb_true_iff in DirLink. destruct DirLink as [D1 D2]. apply tkind_eqb_eq in D2.
    apply Hd in D1. congruence. }
  match goal with |- (if ?c then _ else _) = [] <-> _ => destruct c eqn:DirReg end.
  { (* nor is a directory entry over a regular file *)
    split; [discriminate|]. intros (n' & E & Hd & _). inv_ok E. exfalso.
    apply andb_true_iff in DirReg. destruct DirReg as [D1 _].
    apply andb_true_iff in D1. destruct D1 as [D1 D2]. apply tkind_eqb_eq in D2.
    apply Hd in D1. congruence. }
  match goal with |- (if ?c then _ else _) = [] <-> _ => destruct c eqn:Stale end.
  - (* a stale entry under a symbolic link is never true *)
    split; [destruct (is_lazy b); discriminate|]. intros (n' & E & _ & _ & _ & Hs). inv_ok E. exfalso.
    apply andb_true_iff in Stale. destruct Stale as [S1 S3].
    apply andb_true_iff in S1. destruct S1 as [_ S2]. apply tkind_eqb_eq in S2.
    destruct (d_sum d) as [sm|]; [|discriminate].
    apply negb_true_iff in S3. apply N.eqb_neq in S3. apply S3. apply Hs; auto.
  - rewrite !app_nil_iff, tag_if_nil.
    assert (P1 : negb (Bool.eqb (d_dir d) (tkind_eqb (t_kind n) TDir)) = false <-> (d_dir d = true <-> t_kind n = TDir)).
    { rewrite negb_false_iff, Bool.eqb_true_iff. rewrite <- (tkind_eqb_eq (t_kind n) TDir).
      destruct (d_dir d), (tkind_eqb (t_kind n) TDir); intuition congruence. }
    match goal with |- (_ /\ ?M = [] /\ ?O = [] /\ ?C = []) <-> _ =>
      assert (P2 : M = [] <-> N.land (t_mode n) 511 = d_perm d);
      [| assert (P3 : O = [] <-> ((t_uid n < 0)%Z \/ (t_uid n = Z.of_N (d_uid d) /\ t_gid n = Z.of_N (d_gid d))));
         [| assert (P4 : C = [] <-> (forall sm, d_sum d = Some sm -> t_kind n = TReg \/ t_kind n = TSym -> t_sum n = sm)) ] ]
    end.
    { destruct (N.eqb_spec (N.land (t_mode n) 511) (d_perm d)) as [E|E]; [tauto|].
      split; [|contradiction].
      repeat match goal with |- (if ?c then _ else _) = [] -> _ => destruct c end; discriminate. }
    { destruct (Z.ltb_spec (t_uid n) 0) as [L|L]; [tauto|].
      destruct (Z.eqb_spec (t_uid n) (Z.of_N (d_uid d))) as [E1|E1];
        destruct (Z.eqb_spec (t_gid n) (Z.of_N (d_gid d))) as [E2|E2]; cbn [andb];
        try tauto;
        (split; [destruct (Z.eqb (t_uid n) 0 && Z.eqb (t_gid n) 0); discriminate | intros [?|[? ?]]; [lia | contradiction]]). }
    { destruct (d_sum d) as [sm|]; [|split; [intros _ sm H; discriminate | reflexivity]].
      rewrite tag_if_nil, andb_false_iff, orb_false_iff, negb_false_iff, N.eqb_eq.
      split.
      - intros [[A B]|A] sm' E [K|K]; inv_ok E; auto; rewrite K in *; discriminate.
      - intro H. destruct (t_kind n) eqn:K; cbn; auto; right; apply H; auto. }
    rewrite P1, P2, P3, P4. split.
    + intros (A & B & C & D). exists n. auto.
    + intros (n' & E & A & B & C & D). inv_ok E. auto.
Qed.

(* ---- the model with path resolution extends the declining one -------------- *)
Definition declined {A : Type} (r : ires A) : Prop :=
  match r with IErr EUnsupported _ => True | _ => False end.

Lemma step_l_agrees : forall b pkgs i me s h,
  ~ declined (step b pkgs i me s h) -> step_l b pkgs i me s h = step b pkgs i me s h.
Proof.
  intros b pkgs i me s h H. unfold step_l.
  destruct (step b pkgs i me s h) as [r|e s']; [reflexivity|].
  destruct e; try reflexivity. exfalso. apply H. exact I.
Qed.

Lemma install_files_l_agrees : forall b pkgs i me hs s acc,
  ~ declined (install_files b pkgs i me s acc hs) ->
  install_files_l b pkgs i me s acc hs = install_files b pkgs i me s acc hs.
Proof.
  induction hs as [|h hs IH]; intros s acc H; cbn in *; [reflexivity|].
  destruct (step b pkgs i me s h) as [[s1 app]|e s1] eqn:S.
  - rewrite step_l_agrees by (rewrite S; exact (fun x => x)). rewrite S. apply IH. exact H.
  - rewrite step_l_agrees by (rewrite S; exact H). rewrite S. reflexivity.
Qed.

Lemma install_all_l_agrees : forall b pkgs todo i s done,
  ~ declined (install_all b pkgs i s done todo) ->
  install_all_l b pkgs i s done todo = install_all b pkgs i s done todo.
Proof.
  induction todo as [|me todo IH]; intros i s done H; cbn in *; [reflexivity|].
  destruct (install_files b pkgs i me s [] (p_files me)) as [[s1 files]|e s1] eqn:F.
  - rewrite install_files_l_agrees by (rewrite F; exact (fun x => x)). rewrite F. apply IH. exact H.
  - rewrite install_files_l_agrees by (rewrite F; exact H). rewrite F. reflexivity.
Qed.

(* whenever the declining model answers (success, or an error of the real
   code), the model with path resolution gives the same answer *)
Theorem install_l_conservative : forall b pkgs init,
  (forall s, install b pkgs init <> RFail EUnsupported s) ->
  install_l b pkgs init = install b pkgs init.
Proof.
  intros b pkgs init H. unfold install_l, install in *.
  rewrite install_all_l_agrees; [reflexivity|].
  destruct (install_all b pkgs 0 {| s_fs := init; s_if := [] |} [] pkgs) as [[s all]|e s]; [exact (fun x => x)|].
  destruct e; try exact (fun x => x). intros _. apply (H s). reflexivity.
Qed.

(* ---- which nodes a step may replace ---------------------------------------- *)
Definition repl (b : backend) (o : option node) : Prop :=
  match o with
  | None => True
  | Some (NFile _ _ _ _) => True
  | Some (NSym _ _ _) => is_lazy b = true
  | _ => False
  end.

Inductive trans2 (b : backend) (i : nat) (h : hdr) (s s' : st) (app : bool) : Prop :=
| T2Same : s' = s -> trans2 b i h s s' app
| T2Grow : s_if s' = s_if s ->
           (forall p n, fs_get (s_fs s) p = Some n -> fs_get (s_fs s') p = Some n) ->
           (h_kind h = KDir \/ h_kind h = KLink) -> trans2 b i h s s' app
| T2Set : s' = set_file s i h -> app = true -> (h_kind h = KReg \/ h_kind h = KSym) ->
          repl b (fs_get (s_fs s) (h_path h)) -> trans2 b i h s s' app.

Lemma step_trans2 : forall b pkgs i me s h s' app,
  step b pkgs i me s h = IOk (s', app) -> trans2 b i h s s' app.
Proof.
  intros b pkgs i me s h s' app H. unfold step in H.
  destruct (h_kind h) eqn:K.
  - (* KReg *)
    destruct (is_lazy b) eqn:Lz.
    + unfold step_lazy_file in H. rewrite K in H. cbn match in H.
      apply need_dir_ok in H.
      destruct (fs_get (s_fs s) (h_path h)) as [x|] eqn:G.
      * destruct x as [m|gs md [j|] dt|tg [j|] lk|]; try discriminate.
        -- destruct (decide_lazy (nth j pkgs no_pkg) me gs (h_sum h)); try discriminate; inv_ok H;
             [apply T2Same; reflexivity | apply T2Set; auto; rewrite G; exact I].
        -- destruct dt; try discriminate. destruct (N.eqb gs (h_sum h)); try discriminate. inv_ok H. apply T2Same; reflexivity.
        -- destruct (decide_lazy (nth j pkgs no_pkg) me tg (h_sum h)); try discriminate; inv_ok H;
             [apply T2Same; reflexivity | apply T2Set; auto; rewrite G; exact Lz].
      * inv_ok H. apply T2Set; auto. rewrite G. exact I.
    + unfold step_stream_reg in H.
      destruct (dir_state (s_fs s) (parent (h_path h))); try discriminate.
      destruct (fs_get (s_fs s) (h_path h)) as [x|] eqn:G.
      * destruct x as [m|gs md ow dt|tg ow lk|]; try discriminate.
        destruct (decide_stream _ me (N.eqb gs (h_sum h))) as [[| |]| |]; try discriminate; inv_ok H;
          [apply T2Same; reflexivity | apply T2Set; auto; rewrite G; exact I].
      * inv_ok H. apply T2Set; auto. rewrite G. exact I.
  - (* KDir *)
    unfold step_dir in H.
    destruct (mkdir_all (s_fs s) (prefixes (h_path h)) (perm_of (h_mode h))) as [m [e|]] eqn:M; try discriminate.
    inv_ok H. apply T2Grow; [reflexivity| |auto]. intros p n G. cbn.
    pose proof (mkdir_all_keeps (prefixes (h_path h)) (s_fs s) (perm_of (h_mode h)) p n G) as Hk.
    rewrite M in Hk. exact Hk.
  - (* KSym *)
    destruct (is_lazy b) eqn:Lz.
    + unfold step_lazy_file in H. rewrite K in H.
      match type of H with (if ?c then _ else _) = _ => destruct c end.
      * inv_ok H. apply T2Same; reflexivity.
      * apply need_dir_ok in H.
        destruct (fs_get (s_fs s) (h_path h)) as [x|] eqn:G.
        -- destruct x as [m|gs md [j|] dt|tg [j|] lk|]; try discriminate.
           ++ destruct (decide_lazy (nth j pkgs no_pkg) me gs (h_sum h)); try discriminate; inv_ok H;
                [apply T2Same; reflexivity | apply T2Set; auto; rewrite G; exact I].
           ++ destruct dt; try discriminate. destruct (N.eqb gs (h_sum h)); try discriminate. inv_ok H. apply T2Same; reflexivity.
           ++ destruct (decide_lazy (nth j pkgs no_pkg) me tg (h_sum h)); try discriminate; inv_ok H;
                [apply T2Same; reflexivity | apply T2Set; auto; rewrite G; exact Lz].
        -- inv_ok H. apply T2Set; auto. rewrite G. exact I.
    + unfold step_stream_sym in H. apply need_dir_ok in H.
      destruct (fs_get (s_fs s) (h_path h)) as [x|] eqn:G.
      * destruct x as [m|gs md ow dt|tg ow lk|]; try discriminate.
        destruct (N.eqb tg (h_sum h)); try discriminate. inv_ok H. apply T2Same; reflexivity.
      * inv_ok H. apply T2Set; auto. rewrite G. exact I.
  - (* KLink *)
    unfold step_link in H. apply need_dir_ok in H.
    destruct (dir_state (s_fs s) (parent (h_link h))); try discriminate.
    destruct (fs_get (s_fs s) (h_link h)) as [x|] eqn:G; try discriminate.
    destruct x as [m|gs md ow dt|tg ow lk|]; try discriminate.
    destruct (fs_get (s_fs s) (h_path h)) eqn:G2; try discriminate.
    inv_ok H. apply T2Grow; [reflexivity| |auto]. intros p n Hp. cbn.
    rewrite fs_get_set_other; [exact Hp|]. intro; subst p. congruence.
Qed.

(* a node that a step cannot replace is still there afterwards *)
Lemma step_keeps : forall b pkgs i me s h s' app q n,
  step b pkgs i me s h = IOk (s', app) ->
  fs_get (s_fs s) q = Some n -> ~ repl b (Some n) ->
  fs_get (s_fs s') q = Some n.
Proof.
  intros b pkgs i me s h s' app q n H G NR.
  destruct (step_trans2 _ _ _ _ _ _ _ _ H) as [E|_ Hfs _|E _ _ R].
  - subst s'. exact G.
  - apply Hfs. exact G.
  - subst s'. unfold set_file. cbn [s_fs].
    destruct (list_eq_dec string_dec (h_path h) q) as [Eq|Ne].
    + subst q. rewrite G in R. contradiction.
    + rewrite fs_get_set_other by exact Ne. exact G.
Qed.

Lemma install_files_keeps : forall b pkgs i me hs s acc s' acc' q n,
  install_files b pkgs i me s acc hs = IOk (s', acc') ->
  fs_get (s_fs s) q = Some n -> ~ repl b (Some n) -> fs_get (s_fs s') q = Some n.
Proof.
  induction hs as [|h hs IH]; intros s acc s' acc' q n H G NR; cbn in H.
  - inv_ok H. exact G.
  - destruct (step b pkgs i me s h) as [[s1 app]|e s1] eqn:S; [|discriminate].
    eapply IH; [exact H | | exact NR]. eapply step_keeps; eauto.
Qed.

Lemma install_all_keeps : forall b pkgs todo i s done s' done' q n,
  install_all b pkgs i s done todo = IOk (s', done') ->
  fs_get (s_fs s) q = Some n -> ~ repl b (Some n) -> fs_get (s_fs s') q = Some n.
Proof.
  induction todo as [|me todo IH]; intros i s done s' done' q n H G NR; cbn in H.
  - inv_ok H. exact G.
  - destruct (install_files b pkgs i me s [] (p_files me)) as [[s1 files]|e s1] eqn:F; [|discriminate].
    eapply IH; [exact H | | exact NR]. eapply install_files_keeps; eauto.
Qed.

(* ---- an invariant about every header appended to a package's list ---------- *)
Definition rec_inv (Good : st -> nat -> hdr -> Prop) (s : st) (L : nat -> list hdr) : Prop :=
  forall k x, In x (L k) -> Good s k x.

Lemma rec_step : forall b pkgs (Good : st -> nat -> hdr -> Prop),
  (forall i me s h s', step b pkgs i me s h = IOk (s', true) -> Good s' i h) ->
  (forall i me s h s' app k x, step b pkgs i me s h = IOk (s', app) -> Good s k x -> Good s' k x) ->
  forall i me s h s' app L acc,
  rec_inv Good s (upd L i acc) ->
  step b pkgs i me s h = IOk (s', app) ->
  rec_inv Good s' (upd L i (if app then acc ++ [h] else acc)).
Proof.
  intros b pkgs Good Hnew Hkeep i me s h s' app L acc Hinv Hstep k x Hin.
  unfold upd in Hin. destruct (Nat.eqb_spec k i) as [E|E].
  - subst k. destruct app.
    + apply in_app_or in Hin. destruct Hin as [Hin|[Hin|[]]].
      * eapply Hkeep; [exact Hstep|]. apply Hinv. unfold upd. rewrite Nat.eqb_refl. exact Hin.
      * subst x. eapply Hnew. exact Hstep.
    + eapply Hkeep; [exact Hstep|]. apply Hinv. unfold upd. rewrite Nat.eqb_refl. exact Hin.
  - eapply Hkeep; [exact Hstep|]. apply Hinv. unfold upd.
    destruct (Nat.eqb_spec k i); [contradiction | exact Hin].
Qed.

Lemma rec_files : forall b pkgs (Good : st -> nat -> hdr -> Prop),
  (forall i me s h s', step b pkgs i me s h = IOk (s', true) -> Good s' i h) ->
  (forall i me s h s' app k x, step b pkgs i me s h = IOk (s', app) -> Good s k x -> Good s' k x) ->
  forall i me hs s acc s' acc' L,
  rec_inv Good s (upd L i acc) ->
  install_files b pkgs i me s acc hs = IOk (s', acc') ->
  rec_inv Good s' (upd L i acc').
Proof.
  intros b pkgs Good Hnew Hkeep i me.
  induction hs as [|h hs IH]; intros s acc s' acc' L Hinv H; cbn in H.
  - inv_ok H. exact Hinv.
  - destruct (step b pkgs i me s h) as [[s1 app]|e s1] eqn:S; [|discriminate].
    eapply IH; [|exact H]. eapply rec_step; eauto.
Qed.

Lemma rec_inv_ext : forall Good s L L', (forall k, L k = L' k) -> rec_inv Good s L -> rec_inv Good s L'.
Proof. intros Good s L L' E H k x Hin. apply H. rewrite E. exact Hin. Qed.

Lemma rec_all : forall b pkgs (Good : st -> nat -> hdr -> Prop),
  (forall i me s h s', step b pkgs i me s h = IOk (s', true) -> Good s' i h) ->
  (forall i me s h s' app k x, step b pkgs i me s h = IOk (s', app) -> Good s k x -> Good s' k x) ->
  forall todo i s done s' done',
  List.length done = i ->
  rec_inv Good s (fun k => nth k done []) ->
  install_all b pkgs i s done todo = IOk (s', done') ->
  rec_inv Good s' (fun k => nth k done' []).
Proof.
  intros b pkgs Good Hnew Hkeep.
  induction todo as [|me todo IH]; intros i s done s' done' Hl Hinv H; cbn in H.
  - inv_ok H. exact Hinv.
  - destruct (install_files b pkgs i me s [] (p_files me)) as [[s1 files]|e s1] eqn:F; [|discriminate].
    eapply (IH (S i) s1 (done ++ [files])); [rewrite app_length; cbn; lia | | exact H].
    apply rec_inv_ext with (L := upd (fun k => nth k done []) (List.length done) files); [intro k; apply upd_nth|].
    rewrite Hl. eapply rec_files; [exact Hnew | exact Hkeep | | exact F].
    eapply rec_inv_ext; [|exact Hinv]. intro k. unfold upd.
    destruct (Nat.eqb_spec k i) as [E|E]; [|reflexivity].
    subst k. rewrite nth_overflow by lia. reflexivity.
Qed.

Lemma rec_install : forall b pkgs init f (Good : st -> nat -> hdr -> Prop),
  (forall i me s h s', step b pkgs i me s h = IOk (s', true) -> Good s' i h) ->
  (forall i me s h s' app k x, step b pkgs i me s h = IOk (s', app) -> Good s k x -> Good s' k x) ->
  install b pkgs init = RDone f ->
  forall k x, In x (nth k (f_files f) []) -> Good {| s_fs := f_fs f; s_if := f_if f |} k x.
Proof.
  intros b pkgs init f Good Hnew Hkeep H. unfold install in H.
  destruct (install_all b pkgs 0 {| s_fs := init; s_if := [] |} [] pkgs) as [[s all]|e s] eqn:A; [|discriminate].
  inv_ok H. cbn [f_fs f_if f_files]. destruct s as [fs ifs]. cbn [s_fs s_if].
  apply (rec_all b pkgs Good Hnew Hkeep pkgs 0 {| s_fs := init; s_if := [] |} [] _ all eq_refl); [|exact A].
  intros k x Hin. destruct k; cbn in Hin; contradiction.
Qed.

(* every database entry is a header appended to that package's list *)
Lemma db_entry_listed : forall b pkgs init f k entries h,
  install b pkgs init = RDone f -> nth_error (f_db f) k = Some entries -> In h entries ->
  In h (prune (f_if f) k (nth k (f_files f) [])) /\ In h (nth k (f_files f) []).
Proof.
  intros b pkgs init f k entries h H Hn Hin.
  assert (Hdb : f_db f = db_from (f_if f) 0 (f_files f)).
  { unfold install in H.
    destruct (install_all b pkgs 0 {| s_fs := init; s_if := [] |} [] pkgs) as [[s all]|e s]; [|discriminate].
    inv_ok H. reflexivity. }
  rewrite Hdb in Hn. apply db_from_nth in Hn. cbn [Nat.add] in Hn. subst entries.
  apply db_entries_sub in Hin. split; [exact Hin|]. unfold prune in Hin. apply filter_In in Hin. tauto.
Qed.

(* ---- the recorded KIND is true --------------------------------------------- *)
Lemma mkdir_all_last : forall ps m perm m' q,
  mkdir_all m ps perm = (m', None) -> In q ps -> exists md, fs_get m' q = Some (NDir md).
Proof.
  induction ps as [|p ps IH]; intros m perm m' q H Hin; [contradiction|]. cbn in H.
  destruct (fs_get m p) as [x|] eqn:G.
  - destruct x as [md|? ? ? ?|? ? ?|]; try discriminate.
    destruct Hin as [E|Hin]; [|eapply IH; eauto].
    subst q. exists md.
    pose proof (mkdir_all_keeps ps m perm p (NDir md) G) as K. rewrite H in K. exact K.
  - destruct Hin as [E|Hin]; [|eapply IH; eauto].
    subst q. exists perm.
    pose proof (mkdir_all_keeps ps (fs_set m p (NDir perm)) perm p (NDir perm) (fs_get_set_same _ _ _)) as K.
    rewrite H in K. exact K.
Qed.

Lemma prefixes_from_last : forall rest acc, rest <> [] -> In (acc ++ rest) (prefixes_from acc rest).
Proof.
  induction rest as [|c rest IH]; intros acc H; [contradiction|]. cbn.
  destruct rest as [|c' rest'].
  - left. reflexivity.
  - right. replace (acc ++ c :: c' :: rest') with ((acc ++ [c]) ++ c' :: rest') by (rewrite <- app_assoc; reflexivity).
    apply IH. discriminate.
Qed.
Lemma prefixes_last : forall p, p <> [] -> In p (prefixes p).
Proof. intros p H. unfold prefixes. apply (prefixes_from_last p [] H). Qed.

Definition kind_true (s : st) (x : hdr) : Prop :=
  match h_kind x with
  | KDir => exists md, fs_get (s_fs s) (h_path x) = Some (NDir md)
  | _ => match fs_get (s_fs s) (h_path x) with
         | Some (NFile _ _ _ _) | Some (NSym _ _ _) => True
         | _ => False
         end
  end.

Lemma kind_true_new : forall b pkgs i me s h s',
  h_path h <> [] -> step b pkgs i me s h = IOk (s', true) -> kind_true s' h.
Proof.
  intros b pkgs i me s h s' Hne H. unfold kind_true.
  pose proof (step_trans2 _ _ _ _ _ _ _ _ H) as T.
  destruct (h_kind h) eqn:K.
  - (* KReg: written, kept, or identical: a file or link is there *)
    unfold step in H. rewrite K in H. destruct (is_lazy b).
    + unfold step_lazy_file in H. rewrite K in H. cbn match in H. apply need_dir_ok in H.
      destruct (fs_get (s_fs s) (h_path h)) as [x|] eqn:G.
      * destruct x as [m|gs md [j|] dt|tg [j|] lk|]; try discriminate.
        -- destruct (decide_lazy (nth j pkgs no_pkg) me gs (h_sum h)); try discriminate; inv_ok H.
           ++ rewrite G. exact I.
           ++ cbn. rewrite fs_get_set_same. unfold file_node. rewrite K. exact I.
        -- destruct dt; try discriminate. destruct (N.eqb gs (h_sum h)); try discriminate. inv_ok H. rewrite G. exact I.
        -- destruct (decide_lazy (nth j pkgs no_pkg) me tg (h_sum h)); try discriminate; inv_ok H.
           ++ rewrite G. exact I.
           ++ cbn. rewrite fs_get_set_same. unfold file_node. rewrite K. exact I.
      * inv_ok H. cbn. rewrite fs_get_set_same. unfold file_node. rewrite K. exact I.
    + unfold step_stream_reg in H.
      destruct (dir_state (s_fs s) (parent (h_path h))); try discriminate.
      destruct (fs_get (s_fs s) (h_path h)) as [x|] eqn:G.
      * destruct x as [m|gs md ow dt|tg ow lk|]; try discriminate.
        destruct (decide_stream _ me (N.eqb gs (h_sum h))) as [[| |]| |]; try discriminate; inv_ok H.
        -- rewrite G. exact I.
        -- cbn. rewrite fs_get_set_same. unfold file_node. rewrite K. exact I.
      * inv_ok H. cbn. rewrite fs_get_set_same. unfold file_node. rewrite K. exact I.
  - (* KDir *)
    unfold step in H. rewrite K in H. unfold step_dir in H.
    destruct (mkdir_all (s_fs s) (prefixes (h_path h)) (perm_of (h_mode h))) as [m [e|]] eqn:M; try discriminate.
    inv_ok H. cbn. eapply mkdir_all_last; [exact M|]. apply prefixes_last. exact Hne.
  - (* KSym *)
    unfold step in H. rewrite K in H. destruct (is_lazy b).
    + unfold step_lazy_file in H. rewrite K in H.
      match type of H with (if ?c then _ else _) = _ => destruct c eqn:SL end.
      * inv_ok H.
        destruct (dir_state (s_fs s') (parent (h_path h))); try discriminate.
        destruct (fs_get (s_fs s') (h_path h)) as [x|]; try discriminate.
        destruct x; try discriminate. exact I.
      * clear SL. apply need_dir_ok in H.
        destruct (fs_get (s_fs s) (h_path h)) as [x|] eqn:G.
        -- destruct x as [m|gs md [j|] dt|tg [j|] lk|]; try discriminate.
           ++ destruct (decide_lazy (nth j pkgs no_pkg) me gs (h_sum h)); try discriminate; inv_ok H.
              ** rewrite G. exact I.
              ** cbn. rewrite fs_get_set_same. unfold file_node. rewrite K. exact I.
           ++ destruct dt; try discriminate. destruct (N.eqb gs (h_sum h)); try discriminate. inv_ok H. rewrite G. exact I.
           ++ destruct (decide_lazy (nth j pkgs no_pkg) me tg (h_sum h)); try discriminate; inv_ok H.
              ** rewrite G. exact I.
              ** cbn. rewrite fs_get_set_same. unfold file_node. rewrite K. exact I.
        -- inv_ok H. cbn. rewrite fs_get_set_same. unfold file_node. rewrite K. exact I.
    + unfold step_stream_sym in H. apply need_dir_ok in H.
      destruct (fs_get (s_fs s) (h_path h)) as [x|] eqn:G.
      * destruct x as [m|gs md ow dt|tg ow lk|]; try discriminate.
        destruct (N.eqb tg (h_sum h)); discriminate.
      * inv_ok H. cbn. rewrite fs_get_set_same. unfold file_node. rewrite K. exact I.
  - (* KLink *)
    unfold step in H. rewrite K in H. unfold step_link in H. apply need_dir_ok in H.
    destruct (dir_state (s_fs s) (parent (h_link h))); try discriminate.
    destruct (fs_get (s_fs s) (h_link h)) as [x|] eqn:G; try discriminate.
    destruct x as [m|gs md ow dt|tg ow lk|]; try discriminate.
    destruct (fs_get (s_fs s) (h_path h)) eqn:G2; try discriminate.
    inv_ok H. cbn. rewrite fs_get_set_same. exact I.
Qed.

Lemma kind_true_keep : forall b pkgs i me s h s' app x,
  step b pkgs i me s h = IOk (s', app) -> kind_true s x -> kind_true s' x.
Proof.
  intros b pkgs i me s h s' app x H Hx. unfold kind_true in *.
  destruct (h_kind x) eqn:Kx.
  1,3,4: destruct (step_trans2 _ _ _ _ _ _ _ _ H) as [E|_ Hfs _|E _ Hk _];
    [ subst s'; exact Hx
    | destruct (fs_get (s_fs s) (h_path x)) as [n|] eqn:G; [|contradiction];
      rewrite (Hfs _ _ G); exact Hx
    | subst s'; unfold set_file; cbn [s_fs];
      destruct (list_eq_dec string_dec (h_path h) (h_path x)) as [Eq|Ne];
      [ rewrite <- Eq, fs_get_set_same; unfold file_node; destruct Hk as [Hk|Hk]; rewrite Hk; exact I
      | rewrite fs_get_set_other by exact Ne; exact Hx ] ].
  destruct Hx as (md & G). exists md. eapply step_keeps; [exact H | exact G | exact (fun f => f)].
Qed.

(* every recorded entry exists with the recorded KIND (the database text tells
   directories from everything else) *)
Theorem db_kind_true : forall b pkgs init f,
  install b pkgs init = RDone f ->
  (forall h, In h (all_hdrs pkgs) -> h_path h <> []) ->
  forall k entries h, nth_error (f_db f) k = Some entries -> In h entries ->
    kind_true {| s_fs := f_fs f; s_if := f_if f |} h.
Proof.
  intros b pkgs init f H Hne k entries h Hn Hin.
  destruct (db_entry_listed _ _ _ _ _ _ _ H Hn Hin) as [_ Hl].
  assert (Hsub : listed_sub pkgs (f_files f)).
  { unfold install in H.
    destruct (install_all b pkgs 0 {| s_fs := init; s_if := [] |} [] pkgs) as [[s all]|e s] eqn:A; [|discriminate].
    inv_ok H. cbn [f_files].
    apply (listed_all b pkgs pkgs [] {| s_fs := init; s_if := [] |} [] s all eq_refl eq_refl); [|exact A].
    intros j x Hx. destruct j; cbn in Hx; contradiction. }
  pose (Good := fun (s : st) (k : nat) (x : hdr) => h_path x <> [] -> kind_true s x).
  assert (G : Good {| s_fs := f_fs f; s_if := f_if f |} k h).
  { apply (rec_install b pkgs init f Good); [| |exact H|exact Hl].
    - intros i me s x s' Hs Hp. eapply kind_true_new; eauto.
    - intros i me s x s' app k' y Hs Hy Hp. eapply kind_true_keep; [exact Hs|]. apply Hy. exact Hp. }
  apply G. apply Hne. eapply in_nth_all_hdrs. apply Hsub. exact Hl.
Qed.

(* ---- symbolic-link entries on the streaming backends ----------------------- *)
Theorem db_symlink_entries_stream : forall b pkgs init f,
  is_lazy b = false -> install b pkgs init = RDone f ->
  forall k entries h, nth_error (f_db f) k = Some entries -> In h entries -> h_kind h = KSym ->
    fs_get (f_fs f) (h_path h) = Some (NSym (h_sum h) (Some k) (h_link h)).
Proof.
  intros b pkgs init f Lz H k entries h Hn Hin Hk.
  destruct (db_entry_listed _ _ _ _ _ _ _ H Hn Hin) as [_ Hl].
  pose (Good := fun (s : st) (k : nat) (x : hdr) =>
    h_kind x = KSym -> fs_get (s_fs s) (h_path x) = Some (NSym (h_sum x) (Some k) (h_link x))).
  apply (rec_install b pkgs init f Good) with (k := k) (x := h); [| |exact H|exact Hl|exact Hk].
  - intros i me s x s' Hs Kx. unfold step in Hs. rewrite Kx, Lz in Hs.
    unfold step_stream_sym in Hs. apply need_dir_ok in Hs.
    destruct (fs_get (s_fs s) (h_path x)) as [y|] eqn:G.
    + destruct y as [m|gs md ow dt|tg ow lk|]; try discriminate.
      destruct (N.eqb tg (h_sum x)); discriminate.
    + inv_ok Hs. cbn. rewrite fs_get_set_same. unfold file_node. rewrite Kx. reflexivity.
  - intros i me s x s' app k' y Hs Hy Ky. eapply step_keeps; [exact Hs | exact (Hy Ky) |].
    cbn. rewrite Lz. discriminate.
Qed.

(* on tarfs the same statement is false (finding C07-F5): a and b of one origin
   ship usr/bin/sx -> (2) and -> (3); b's link wins, a's entry stays recorded *)
Definition wit_sx (t : N) : hdr :=
  {| h_path := ["usr"; "bin"; "sx"]; h_kind := KSym; h_mode := 511; h_uid := 0; h_gid := 0; h_sum := t; h_link := [] |}.
Lemma db_symlink_entry_stale_lazy : exists pkgs f entries,
  install Lazy pkgs [] = RDone f /\ nth_error (f_db f) 0 = Some entries /\ In (wit_sx 2) entries /\
  fs_get (f_fs f) ["usr"; "bin"; "sx"] = Some (NSym 3 (Some 1) []).
Proof.
  exists [ {| p_name := "a"; p_origin := "o"; p_replaces := []; p_files := wit_dirs ++ [wit_sx 2] |};
           {| p_name := "b"; p_origin := "o"; p_replaces := []; p_files := wit_dirs ++ [wit_sx 3] |} ].
  eexists _, _. split; [vm_compute; reflexivity|]. split; [vm_compute; reflexivity|].
  split; [vm_compute; tauto | vm_compute; reflexivity].
Qed.

(* ---- hard-link entries: the recorded mode is the header's, the node is the
   target's (finding C07-F9) ----------------------------------------------- *)
Definition wit_l (m : N) : hdr :=
  {| h_path := ["usr"; "bin"; "l"]; h_kind := KReg; h_mode := m; h_uid := 0; h_gid := 0; h_sum := 2; h_link := [] |}.
Definition wit_ln : hdr :=
  {| h_path := ["usr"; "bin"; "l.ln"]; h_kind := KLink; h_mode := 493; h_uid := 0; h_gid := 0; h_sum := 0; h_link := ["usr"; "bin"; "l"] |}.
Lemma db_hardlink_mode_witness : forall b, exists f entries n,
  install b [ {| p_name := "c"; p_origin := "c"; p_replaces := []; p_files := wit_dirs ++ [wit_l 384] |};
              {| p_name := "d"; p_origin := "d"; p_replaces := []; p_files := wit_dirs ++ [wit_l 493; wit_ln] |} ] [] = RDone f /\
  nth_error (f_db f) 1 = Some entries /\ In wit_ln entries /\
  fs_get (f_fs f) (h_path wit_ln) = Some n /\ node_perm n <> perm_of (h_mode wit_ln).
Proof.
  intro b. destruct b; eexists _, _, _;
    (split; [vm_compute; reflexivity|]); (split; [vm_compute; reflexivity|]);
    (split; [vm_compute; tauto|]); (split; [vm_compute; reflexivity|]); vm_compute; discriminate.
Qed.

(* ---- a header that survives pruning is written when the package ships (and so
   installs) a directory header for every ancestor ------------------------- *)
Lemma install_files_dirs_appended : forall b pkgs i me hs s acc s' acc' d,
  install_files b pkgs i me s acc hs = IOk (s', acc') -> In d hs -> h_kind d = KDir -> In d acc'.
Proof.
  assert (Mono : forall b pkgs i me hs s acc s' acc' x,
            install_files b pkgs i me s acc hs = IOk (s', acc') -> In x acc -> In x acc').
  { induction hs as [|h hs IH]; intros s acc s' acc' x H Hx; cbn in H.
    - inv_ok H. exact Hx.
    - destruct (step b pkgs i me s h) as [[s1 app]|e s1]; [|discriminate].
      eapply IH; [exact H|]. destruct app; [apply in_or_app; left|]; exact Hx. }
  induction hs as [|h hs IH]; intros s acc s' acc' d H Hin Hk; [contradiction|]. cbn in H.
  destruct (step b pkgs i me s h) as [[s1 app]|e s1] eqn:S; [|discriminate].
  destruct Hin as [E|Hin]; [|eapply IH; eauto].
  subst d. eapply Mono; [exact H|].
  assert (app = true).
  { unfold step in S. rewrite Hk in S. unfold step_dir in S.
    destruct (mkdir_all (s_fs s) (prefixes (h_path h)) (perm_of (h_mode h))) as [m [e|]]; [discriminate|].
    inv_ok S. reflexivity. }
  subst app. apply in_or_app. right. left. reflexivity.
Qed.

Lemma install_all_dirs_appended : forall b pkgs todo i s done s' done' j me d,
  install_all b pkgs i s done todo = IOk (s', done') -> List.length done = i ->
  nth_error todo j = Some me -> In d (p_files me) -> h_kind d = KDir ->
  In d (nth (i + j) done' []).
Proof.
  assert (Keep : forall b pkgs todo i s done s' done' k,
            install_all b pkgs i s done todo = IOk (s', done') -> k < List.length done ->
            nth k done' [] = nth k done []).
  { induction todo as [|me todo IH]; intros i s done s' done' k H Hk; cbn in H.
    - inv_ok H. reflexivity.
    - destruct (install_files b pkgs i me s [] (p_files me)) as [[s1 files]|e s1]; [|discriminate].
      rewrite (IH _ _ _ _ _ k H) by (rewrite app_length; cbn; lia). apply app_nth1. exact Hk. }
  induction todo as [|x todo IH]; intros i s done s' done' j me d H Hl Hj Hin Hk; [destruct j; discriminate|].
  subst i. cbn in H. destruct (install_files b pkgs (List.length done) x s [] (p_files x)) as [[s1 files]|e s1] eqn:F; [|discriminate].
  destruct j as [|j]; cbn in Hj.
  - inv_ok Hj. rewrite Nat.add_0_r.
    rewrite (Keep _ _ _ _ _ _ _ _ (List.length done) H) by (rewrite app_length; cbn; lia).
    rewrite app_nth2 by lia. rewrite Nat.sub_diag. cbn.
    eapply install_files_dirs_appended; eauto.
  - replace (List.length done + S j) with (S (List.length done) + j) by lia.
    eapply IH; [exact H | rewrite app_length; cbn; lia | exact Hj | exact Hin | exact Hk].
Qed.

Lemma is_dir_hdr_in : forall files q d, In d files -> h_path d = q -> h_kind d = KDir -> is_dir_hdr files q = true.
Proof.
  intros files q d Hin Hp Hk. unfold is_dir_hdr. apply existsb_exists. exists d. split; [exact Hin|].
  rewrite Hp, path_eqb_refl, Hk. reflexivity.
Qed.

Lemma prefixes_from_nonempty : forall rest acc q, In q (prefixes_from acc rest) -> q <> [].
Proof.
  induction rest as [|c rest IH]; intros acc q H; cbn in H; [contradiction|].
  destruct H as [H|H]; [subst q; destruct acc; discriminate | eapply IH; exact H].
Qed.

Lemma db_from_nth_error : forall ifs all i k,
  k < List.length all -> nth_error (db_from ifs i all) k = Some (db_entries ifs (i + k) (nth k all [])).
Proof.
  induction all as [|x all IH]; intros i k Hk; [cbn in Hk; lia|].
  destruct k as [|k]; cbn.
  - rewrite Nat.add_0_r. reflexivity.
  - rewrite IH by (cbn in Hk; lia). rewrite Nat.add_succ_comm. reflexivity.
Qed.

Theorem pruned_header_written : forall b pkgs init f k me h,
  install b pkgs init = RDone f ->
  nth_error pkgs k = Some me ->
  In h (prune (f_if f) k (nth k (f_files f) [])) ->
  (2 <= List.length (h_path h))%nat ->
  (* the package ships a directory header for every ancestor *)
  (forall q, In q (prefixes (parent (h_path h))) -> exists d, In d (p_files me) /\ h_path d = q /\ h_kind d = KDir) ->
  exists entries, nth_error (f_db f) k = Some entries /\ In h entries.
Proof.
  intros b pkgs init f k me h H Hk Hin Hlen Hdirs.
  assert (HA : exists s all, install_all b pkgs 0 {| s_fs := init; s_if := [] |} [] pkgs = IOk (s, all) /\
                 f_files f = all /\ f_if f = s_if s /\ f_fs f = s_fs s /\ f_db f = db_from (s_if s) 0 all).
  { unfold install in H.
    destruct (install_all b pkgs 0 {| s_fs := init; s_if := [] |} [] pkgs) as [[s all]|e s] eqn:A; [|discriminate].
    inv_ok H. exists s, all. repeat split; reflexivity. }
  destruct HA as (s & all & A & Ef & Ei & Efs & Edb).
  (* every ancestor's directory header is in the appended list and survives pruning *)
  assert (Hanc : forall q, In q (prefixes (parent (h_path h))) ->
             is_dir_hdr (prune (f_if f) k (nth k (f_files f) [])) q = true).
  { intros q Hq. destruct (Hdirs q Hq) as (d & Hd & Hp & Hkd).
    assert (Happ : In d (nth k (f_files f) [])).
    { rewrite Ef. apply (install_all_dirs_appended b pkgs pkgs 0 _ [] s all k me d A eq_refl Hk Hd Hkd). }
    apply is_dir_hdr_in with (d := d); [|exact Hp|exact Hkd].
    unfold prune. apply filter_In. split; [exact Happ|]. rewrite Hkd. reflexivity. }
  exists (db_entries (f_if f) k (nth k (f_files f) [])). split.
  - rewrite Edb, <- Ei, <- Ef.
    assert (Lk : k < List.length (f_files f)).
    { destruct (Nat.lt_ge_cases k (List.length (f_files f))) as [L|L]; [exact L|].
      rewrite nth_overflow in Hin by exact L. contradiction. }
    rewrite (db_from_nth_error (f_if f) (f_files f) 0 k Lk). reflexivity.
  - unfold db_entries. apply filter_In. split; [exact Hin|].
    unfold emitted. destruct (h_path h) as [|c1 [|c2 rest]] eqn:P; cbn in Hlen; try lia.
    apply forallb_forall. intros q Hq. apply Hanc. exact Hq.
Qed.

Theorem db_hardlink_mode_refuted : forall b,
  ~ (forall pkgs init f, install b pkgs init = RDone f ->
       forall k entries h, nth_error (f_db f) k = Some entries -> In h entries -> h_kind h = KLink ->
         exists n, fs_get (f_fs f) (h_path h) = Some n /\ node_perm n = perm_of (h_mode h)).
Proof.
  intros b H. destruct (db_hardlink_mode_witness b) as (f & entries & n & A & B & C & D & E).
  destruct (H _ _ _ A 1 entries wit_ln B C eq_refl) as (n' & G & Pm).
  rewrite D in G. inv_ok G. contradiction.
Qed.

(* with path resolution the recorded kind can be false (finding C07-F11): a
   ships usr/bin/x -> ../lib, b ships the directory usr/bin/x; MkdirAll follows
   the link, b's directory entry is recorded over a's link *)
Definition wit_usr_lib : hdr :=
  {| h_path := ["usr"; "lib"]; h_kind := KDir; h_mode := 493; h_uid := 0; h_gid := 0; h_sum := 0; h_link := [] |}.
Definition wit_x_link : hdr :=
  {| h_path := ["usr"; "bin"; "x"]; h_kind := KSym; h_mode := 511; h_uid := 0; h_gid := 0; h_sum := 3; h_link := [".."; "lib"] |}.
Definition wit_x_dir : hdr :=
  {| h_path := ["usr"; "bin"; "x"]; h_kind := KDir; h_mode := 493; h_uid := 0; h_gid := 0; h_sum := 0; h_link := [] |}.
Lemma db_kind_links_witness : forall b, exists f entries,
  install_l b [ {| p_name := "a"; p_origin := "a"; p_replaces := []; p_files := wit_dirs ++ [wit_usr_lib; wit_x_link] |};
                {| p_name := "b"; p_origin := "b"; p_replaces := []; p_files := wit_dirs ++ [wit_x_dir] |} ] [] = RDone f /\
  nth_error (f_db f) 1 = Some entries /\ In wit_x_dir entries /\
  fs_get (f_fs f) ["usr"; "bin"; "x"] = Some (NSym 3 (Some 0) [".."; "lib"]).
Proof.
  intro b. destruct b; eexists _, _;
    (split; [vm_compute; reflexivity|]); (split; [vm_compute; reflexivity|]);
    (split; [vm_compute; tauto | vm_compute; reflexivity]).
Qed.

(* ---- the tie to the source text (Generated/C07Install.v, Generated/FsConsts.v) *)
Definition out_of_decision (d : decision) : cout :=
  match d with KeepOld => OKeep | Overwrite => OOverwrite | Conflict => OConflict end.
Definition out_of_sdecision (d : sdecision) : cout :=
  match d with SDec d => out_of_decision d | SErrExists => OSameError | SErrNotOurs => ONewError end.

(* the facts the tests of writeHeader look at *)
Definition env_lazy (got want : pkg) (gs ws : N) : cenv :=
  {| e_same_sum := N.eqb gs ws; e_old_declares_new := declares got want; e_new_declares_old := declares want got;
     e_same_origin := String.eqb (p_origin got) (p_origin want); e_new_origin_empty := String.eqb (p_origin want) "";
     e_old_unknown := false; e_other_error := false |}.
(* ... and those of installRegularFile once the error is a FileExistsError *)
Definition env_stream (owner : option pkg) (want : pkg) (same : bool) : cenv :=
  {| e_same_sum := same;
     e_old_declares_new := match owner with Some pk => declares pk want | None => false end;
     e_new_declares_old := match owner with Some pk => declares want pk | None => false end;
     e_same_origin := match owner with Some pk => String.eqb (p_origin pk) (p_origin want) | None => false end;
     e_new_origin_empty := String.eqb (p_origin want) "";
     e_old_unknown := match owner with None => true | Some _ => false end;
     e_other_error := false |}.

Lemma lazy_rows_are_source : forall got want gs ws,
  crun (env_lazy got want gs ws) c07_writeheader_rows c07_writeheader_default =
  out_of_decision (decide_lazy got want gs ws).
Proof.
  intros got want gs ws. unfold decide_lazy, env_lazy. cbn.
  destruct (N.eqb gs ws), (declares got want), (declares want got),
    (String.eqb (p_origin got) (p_origin want)); reflexivity.
Qed.

Lemma stream_rows_are_source : forall owner want same,
  crun (env_stream owner want same) c07_installregular_rows c07_installregular_default =
  out_of_sdecision (decide_stream owner want same).
Proof.
  intros owner want same. unfold decide_stream, env_stream. cbn.
  destruct (String.eqb (p_origin want) ""), same; try reflexivity;
  destruct owner as [pk|]; try reflexivity;
  destruct (declares pk want), (declares want pk), (String.eqb (p_origin pk) (p_origin want)); reflexivity.
Qed.

(* writeOneFile creates a NEW file with the header's mode: the name is tested
   with Stat, an allowed overwrite removes the old entry first, and the file is
   opened O_CREATE|O_EXCL without O_TRUNC/O_APPEND (what [set_file] transcribes:
   the node is replaced, not rewritten in place) *)
Definition has_flag (f : string) (fl : list string) : bool := existsb (String.eqb f) fl.
Definition creates_fresh_node (exists_test : string) (flags : list string) (removes : bool) : bool :=
  String.eqb exists_test "Stat" && has_flag "O_CREATE" flags && has_flag "O_EXCL" flags &&
  negb (has_flag "O_TRUNC" flags) && negb (has_flag "O_APPEND" flags) && removes.
Lemma write_one_file_creates_fresh :
  creates_fresh_node c07_wof_exists_test c07_wof_open_flags c07_wof_removes_before_create = true.
Proof. vm_compute. reflexivity. Qed.

(* installedFiles is updated for regular files only, on both install paths *)
Definition kind_tar_name (k : kind) : string :=
  match k with KReg => "TypeReg" | KDir => "TypeDir" | KSym => "TypeSymlink" | KLink => "TypeLink" end.
Lemma tracked_kinds_are_source : forall (s : st) i h loc,
  (s_if (set_file s i h) = if has_flag (kind_tar_name (h_kind h)) c07_lazy_tracked then if_set (s_if s) (h_path h) i else s_if s) /\
  (s_if (set_file s i h) = if has_flag (kind_tar_name (h_kind h)) c07_stream_tracked then if_set (s_if s) (h_path h) i else s_if s) /\
  s_if (set_at s i h loc) = s_if (set_file s i h).
Proof. intros s i h loc. unfold set_file, set_at. destruct (h_kind h); cbn; repeat split; reflexivity. Qed.

(* the database writer: permission mask and the two defaults its text leaves out
   (the harness's own reader fills the same two values in) *)
Lemma db_perm_is_source : forall m,
  perm_of m = N.land m c07_db_perm_mask /\ c07_db_default_dir_perm = 493%N /\ c07_db_default_file_perm = 420%N.
Proof. intro m. repeat split; reflexivity. Qed.

(* the nesting limit of the path resolution is the one both in-memory
   filesystems test in getNodeCountLinks and openFile *)
Lemma max_links_is_source :
  max_links = tarfs_getnode_depth /\ max_links = memfs_getnode_depth /\
  max_links = tarfs_openfile_depth /\ max_links = memfs_openfile_depth.
Proof. repeat split; reflexivity. Qed.

(* ---- inputs on which the declining model always answers --------------------
   regular files and directories only, in the packages and in the initial tree *)
Definition plain_node (n : node) : Prop := match n with NDir _ | NFile _ _ _ _ => True | _ => False end.
Definition plain_fs (m : fsmap) : Prop := forall p n, fs_get m p = Some n -> plain_node n.
Definition plain_pkgs (pkgs : list pkg) : Prop :=
  forall h, In h (all_hdrs pkgs) -> h_kind h = KReg \/ h_kind h = KDir.

Lemma fs_set_plain : forall m p n, plain_fs m -> plain_node n -> plain_fs (fs_set m p n).
Proof.
  intros m p n Hm Hn q x G. destruct (list_eq_dec string_dec p q) as [E|E].
  - subst q. rewrite fs_get_set_same in G. inv_ok G. exact Hn.
  - rewrite fs_get_set_other in G by exact E. eapply Hm. exact G.
Qed.

Lemma walk_dirs_plain : forall m ps, plain_fs m -> walk_dirs m ps <> PSymlinked.
Proof.
  induction ps as [|q ps IH]; intros Hm; cbn; [discriminate|].
  destruct (fs_get m q) as [x|] eqn:G; [|discriminate].
  pose proof (Hm _ _ G) as P. destruct x; cbn in P; try contradiction; [apply IH; exact Hm | discriminate].
Qed.

Lemma mkdir_all_plain : forall ps m perm, plain_fs m ->
  plain_fs (fst (mkdir_all m ps perm)) /\ snd (mkdir_all m ps perm) <> Some EUnsupported.
Proof.
  induction ps as [|q ps IH]; intros m perm Hm; cbn; [split; [exact Hm | discriminate]|].
  destruct (fs_get m q) as [x|] eqn:G.
  - pose proof (Hm _ _ G) as P. destruct x; cbn in P; try contradiction; cbn.
    + apply IH. exact Hm.
    + split; [exact Hm | discriminate].
  - apply IH. apply fs_set_plain; [exact Hm | exact I].
Qed.

Lemma step_plain : forall b pkgs i me s h,
  plain_fs (s_fs s) -> (h_kind h = KReg \/ h_kind h = KDir) ->
  match step b pkgs i me s h with
  | IOk (s', _) => plain_fs (s_fs s')
  | IErr e _ => e <> EUnsupported
  end.
Proof.
  intros b pkgs i me s h Hm Hk. unfold step.
  assert (Hset : plain_fs (s_fs (set_file s i h)) \/ h_kind h = KDir).
  { destruct Hk as [K|K]; [left|right; exact K]. unfold set_file. cbn.
    apply fs_set_plain; [exact Hm|]. unfold file_node. rewrite K. exact I. }
  destruct Hk as [K|K]; rewrite K.
  - destruct Hset as [Hset|Hset]; [|congruence].
    pose proof (walk_dirs_plain (s_fs s) (prefixes (parent (h_path h))) Hm) as Hw.
    destruct (is_lazy b).
    + unfold step_lazy_file. rewrite K. cbn match. unfold need_dir, dir_state.
      destruct (walk_dirs (s_fs s) (prefixes (parent (h_path h)))) eqn:W; try discriminate; [|contradiction].
      destruct (fs_get (s_fs s) (h_path h)) as [x|] eqn:G; [|exact Hset].
      pose proof (Hm _ _ G) as P. destruct x as [m|gs md [j|] dt| |]; cbn in P; try contradiction; try discriminate.
      * destruct (decide_lazy (nth j pkgs no_pkg) me gs (h_sum h)); [exact Hm | exact Hset | discriminate].
      * destruct dt; [|discriminate]. destruct (N.eqb gs (h_sum h)); [exact Hm | discriminate].
    + unfold step_stream_reg, dir_state.
      destruct (walk_dirs (s_fs s) (prefixes (parent (h_path h)))) eqn:W; try discriminate; [|contradiction].
      destruct (fs_get (s_fs s) (h_path h)) as [x|] eqn:G; [|exact Hset].
      pose proof (Hm _ _ G) as P. destruct x as [m|gs md ow dt| |]; cbn in P; try contradiction; try discriminate.
      destruct (decide_stream _ me (N.eqb gs (h_sum h))) as [[| |]| |]; try discriminate; [exact Hm | exact Hset].
  - unfold step_dir.
    pose proof (mkdir_all_plain (prefixes (h_path h)) (s_fs s) (perm_of (h_mode h)) Hm) as [P1 P2].
    destruct (mkdir_all (s_fs s) (prefixes (h_path h)) (perm_of (h_mode h))) as [m [e|]]; cbn in *.
    + intro E. apply P2. rewrite E. reflexivity.
    + exact P1.
Qed.

Lemma install_files_plain : forall b pkgs i me hs s acc,
  plain_fs (s_fs s) -> (forall h, In h hs -> h_kind h = KReg \/ h_kind h = KDir) ->
  match install_files b pkgs i me s acc hs with
  | IOk (s', _) => plain_fs (s_fs s')
  | IErr e _ => e <> EUnsupported
  end.
Proof.
  induction hs as [|h hs IH]; intros s acc Hm Hk; cbn; [exact Hm|].
  pose proof (step_plain b pkgs i me s h Hm (Hk h (or_introl eq_refl))) as S.
  destruct (step b pkgs i me s h) as [[s1 app]|e s1]; [|exact S].
  apply IH; [exact S|]. intros x Hx. apply Hk. right. exact Hx.
Qed.

Lemma install_all_plain : forall b pkgs todo i s done,
  plain_fs (s_fs s) -> (forall me h, In me todo -> In h (p_files me) -> h_kind h = KReg \/ h_kind h = KDir) ->
  match install_all b pkgs i s done todo with
  | IOk (s', _) => plain_fs (s_fs s')
  | IErr e _ => e <> EUnsupported
  end.
Proof.
  induction todo as [|me todo IH]; intros i s done Hm Hk; cbn; [exact Hm|].
  pose proof (install_files_plain b pkgs i me (p_files me) s [] Hm (fun h Hh => Hk me h (or_introl eq_refl) Hh)) as F.
  destruct (install_files b pkgs i me s [] (p_files me)) as [[s1 files]|e s1]; [|exact F].
  apply IH; [exact F|]. intros x h Hx Hh. apply (Hk x h); [right; exact Hx | exact Hh].
Qed.

Theorem install_plain_answers : forall b pkgs init,
  plain_pkgs pkgs -> plain_fs init ->
  (forall s, install b pkgs init <> RFail EUnsupported s) /\ install_l b pkgs init = install b pkgs init.
Proof.
  intros b pkgs init Hp Hi.
  assert (A : forall s, install b pkgs init <> RFail EUnsupported s).
  { intros s0 E. unfold install in E.
    pose proof (install_all_plain b pkgs pkgs 0 {| s_fs := init; s_if := [] |} [] Hi) as P.
    destruct (install_all b pkgs 0 {| s_fs := init; s_if := [] |} [] pkgs) as [[s1 all]|e s1]; [discriminate|].
    inv_ok E. apply P; [|reflexivity].
    intros me h Hme Hh. apply Hp. unfold all_hdrs. apply in_flat_map. exists me. split; assumption. }
  split; [exact A | apply install_l_conservative; exact A].
Qed.
