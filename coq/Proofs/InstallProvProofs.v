(* C07 — provenance of the installed tree, and the database theorem derived
   from it.

   Invariant [prov]: every non-directory node of the tree is either still the
   node that was there before the install (and then nobody is recorded as its
   owner), or was written by a header OF THAT PATH that is on its package's list
   of installed files:
     a regular-file header  -> the node carries the header's content and mode,
                               its tar entry names that package, and
                               installedFiles names that package for the path;
     a symbolic-link header -> the node carries the header's target and names
                               that package (on the streaming backends nobody is
                               recorded for the path; on tarfs a stale owner may
                               be: finding C07-F5);
     a hard-link header     -> the node is a regular file whose bytes are those
                               of a regular-file header on some package's list
                               (or were there before), and nobody is recorded
                               for the path.
   The invariant is preserved by every successful step of [Model.Install.step]
   (every backend, every header kind), hence holds after [install]. No
   hypothesis on the package list: the model answering (no EUnsupported, i.e. no
   path reached through a symbolic link: finding C07-F14 is outside) is all. *)
From Apko Require Import Base.Prelude Model.Install Proofs.InstallProofs.
Open Scope string_scope. Open Scope list_scope.

(* ---- what a successful step does, precisely -------------------------------- *)
Lemma mkdir_all_new : forall ps m perm p n,
  fs_get (fst (mkdir_all m ps perm)) p = Some n -> fs_get m p = Some n \/ n = NDir perm.
Proof.
  induction ps as [|q ps IH]; intros m perm p n H; cbn in H; [left; exact H|].
  destruct (fs_get m q) as [x|] eqn:E.
  - destruct x; cbn in H; try (left; exact H). apply IH in H. exact H.
  - apply IH in H. destruct H as [H|H]; [|right; exact H].
    destruct (list_eq_dec string_dec q p) as [Eq|Ne].
    + subst q. rewrite fs_get_set_same in H. inversion H. right. reflexivity.
    + rewrite fs_get_set_other in H by exact Ne. left. exact H.
Qed.

Inductive tr (b : backend) (i : nat) (h : hdr) (s s' : st) (app : bool) : Prop :=
| TrSame : s' = s -> tr b i h s s' app
| TrDir : h_kind h = KDir -> s_if s' = s_if s ->
    (forall p n, fs_get (s_fs s) p = Some n -> fs_get (s_fs s') p = Some n) ->
    (forall p n, fs_get (s_fs s') p = Some n -> fs_get (s_fs s) p = Some n \/ exists md, n = NDir md) ->
    tr b i h s s' app
| TrLink : forall sm md ow dt, h_kind h = KLink -> app = true ->
    fs_get (s_fs s) (h_path h) = None ->
    fs_get (s_fs s) (h_link h) = Some (NFile sm md ow dt) ->
    s' = with_fs s (fs_set (s_fs s) (h_path h) (NFile sm md ow dt)) ->
    tr b i h s s' app
| TrReg : h_kind h = KReg -> app = true -> s' = set_file s i h -> tr b i h s s' app
| TrSym : h_kind h = KSym -> app = true -> s' = set_file s i h ->
    (is_lazy b = false -> fs_get (s_fs s) (h_path h) = None) -> tr b i h s s' app.

Lemma step_tr : forall b pkgs i me s h s' app,
  step b pkgs i me s h = IOk (s', app) -> tr b i h s s' app.
Proof.
  intros b pkgs i me s h s' app H. unfold step in H.
  destruct (h_kind h) eqn:K.
  - (* KReg *)
    destruct (is_lazy b) eqn:Lz.
    + unfold step_lazy_file in H. rewrite K in H. cbn match in H.
      apply need_dir_ok in H.
      destruct (fs_get (s_fs s) (h_path h)) as [x|] eqn:G.
      * destruct x as [m|gs md [j|] dt|tg [j|] lk|]; try discriminate.
        -- destruct (decide_lazy (nth j pkgs no_pkg) me gs (h_sum h)); try discriminate; inv_ok H;
             [apply TrSame; reflexivity | apply TrReg; auto].
        -- destruct dt; try discriminate. destruct (N.eqb gs (h_sum h)); try discriminate. inv_ok H. apply TrSame; reflexivity.
        -- destruct (decide_lazy (nth j pkgs no_pkg) me tg (h_sum h)); try discriminate; inv_ok H;
             [apply TrSame; reflexivity | apply TrReg; auto].
      * inv_ok H. apply TrReg; auto.
    + unfold step_stream_reg in H.
      destruct (dir_state (s_fs s) (parent (h_path h))); try discriminate.
      destruct (fs_get (s_fs s) (h_path h)) as [x|] eqn:G.
      * destruct x as [m|gs md ow dt|tg ow lk|]; try discriminate.
        destruct (decide_stream _ me (N.eqb gs (h_sum h))) as [[| |]| |]; try discriminate; inv_ok H;
          [apply TrSame; reflexivity | apply TrReg; auto].
      * inv_ok H. apply TrReg; auto.
  - (* KDir *)
    unfold step_dir in H.
    destruct (mkdir_all (s_fs s) (prefixes (h_path h)) (perm_of (h_mode h))) as [m [e|]] eqn:M; try discriminate.
    inv_ok H. apply TrDir; [exact K | reflexivity | |].
    + intros p n G. cbn.
      pose proof (mkdir_all_keeps (prefixes (h_path h)) (s_fs s) (perm_of (h_mode h)) p n G) as Hk.
      rewrite M in Hk. exact Hk.
    + intros p n G. cbn in G.
      pose proof (mkdir_all_new (prefixes (h_path h)) (s_fs s) (perm_of (h_mode h)) p n) as Hn.
      rewrite M in Hn. destruct (Hn G) as [A|A]; [left; exact A | right; eexists; exact A].
  - (* KSym *)
    destruct (is_lazy b) eqn:Lz.
    + unfold step_lazy_file in H. rewrite K in H.
      match type of H with (if ?c then _ else _) = _ => destruct c end.
      * inv_ok H. apply TrSame; reflexivity.
      * apply need_dir_ok in H.
        destruct (fs_get (s_fs s) (h_path h)) as [x|] eqn:G.
        -- destruct x as [m|gs md [j|] dt|tg [j|] lk|]; try discriminate.
           ++ destruct (decide_lazy (nth j pkgs no_pkg) me gs (h_sum h)); try discriminate; inv_ok H;
                [apply TrSame; reflexivity | apply TrSym; auto; rewrite Lz; discriminate].
           ++ destruct dt; try discriminate. destruct (N.eqb gs (h_sum h)); try discriminate. inv_ok H. apply TrSame; reflexivity.
           ++ destruct (decide_lazy (nth j pkgs no_pkg) me tg (h_sum h)); try discriminate; inv_ok H;
                [apply TrSame; reflexivity | apply TrSym; auto; rewrite Lz; discriminate].
        -- inv_ok H. apply TrSym; auto.
    + unfold step_stream_sym in H. apply need_dir_ok in H.
      destruct (fs_get (s_fs s) (h_path h)) as [x|] eqn:G.
      * destruct x as [m|gs md ow dt|tg ow lk|]; try discriminate.
        destruct (N.eqb tg (h_sum h)); try discriminate. inv_ok H. apply TrSame; reflexivity.
      * inv_ok H. apply TrSym; auto.
  - (* KLink *)
    unfold step_link in H. apply need_dir_ok in H.
    destruct (dir_state (s_fs s) (parent (h_link h))); try discriminate.
    destruct (fs_get (s_fs s) (h_link h)) as [x|] eqn:G; try discriminate.
    destruct x as [m|gs md ow dt|tg ow lk|]; try discriminate.
    destruct (fs_get (s_fs s) (h_path h)) eqn:G2; try discriminate.
    inv_ok H. eapply TrLink; eauto.
Qed.

(* a step that is not a directory header touches the node under its own path only *)
Lemma step_only_own_path : forall b pkgs i me s h s' app q,
  step b pkgs i me s h = IOk (s', app) -> h_kind h <> KDir -> q <> h_path h ->
  fs_get (s_fs s') q = fs_get (s_fs s) q.
Proof.
  intros b pkgs i me s h s' app q H Kd Hq.
  destruct (step_tr _ _ _ _ _ _ _ _ H) as [E|K _ _ _|sm md ow dt K _ _ _ E|K _ E|K _ E _].
  - subst s'. reflexivity.
  - contradiction.
  - subst s'. cbn. apply fs_get_set_other. congruence.
  - subst s'. unfold set_file. cbn. apply fs_get_set_other. congruence.
  - subst s'. unfold set_file. cbn. apply fs_get_set_other. congruence.
Qed.

(* ---- the invariant --------------------------------------------------------- *)
Definition from_init (init : fsmap) (n : node) : Prop := exists q, fs_get init q = Some n.

(* the bytes of a regular-file node are those of a regular-file header on its
   package's list, or were in the tree before the install *)
Definition content_src (init : fsmap) (L : nat -> list hdr) (n : node) : Prop :=
  from_init init n \/
  exists j h0, In h0 (L j) /\ h_kind h0 = KReg /\ n = NFile (h_sum h0) (h_mode h0) (Some j) true.

Inductive origin_of (b : backend) (init : fsmap) (L : nat -> list hdr) (s : st) (p : path) (n : node) : Prop :=
| OInit : fs_get init p = Some n -> if_get (s_if s) p = None -> origin_of b init L s p n
| OReg : forall k h, In h (L k) -> h_path h = p -> h_kind h = KReg ->
    n = NFile (h_sum h) (h_mode h) (Some k) true -> if_get (s_if s) p = Some k -> origin_of b init L s p n
| OSym : forall k h, In h (L k) -> h_path h = p -> h_kind h = KSym ->
    n = NSym (h_sum h) (Some k) (h_link h) -> (is_lazy b = false -> if_get (s_if s) p = None) -> origin_of b init L s p n
| OLink : forall k h sm md ow dt, In h (L k) -> h_path h = p -> h_kind h = KLink ->
    n = NFile sm md ow dt -> content_src init L n -> if_get (s_if s) p = None -> origin_of b init L s p n.

Definition is_dir_node (n : node) : Prop := match n with NDir _ => True | _ => False end.

Definition prov (b : backend) (init : fsmap) (s : st) (L : nat -> list hdr) : Prop :=
  (forall p n, fs_get (s_fs s) p = Some n -> is_dir_node n \/ origin_of b init L s p n) /\
  (forall p k, if_get (s_if s) p = Some k -> exists n, fs_get (s_fs s) p = Some n).

Lemma content_src_mono : forall init (L1 L2 : nat -> list hdr) n,
  (forall k x, In x (L1 k) -> In x (L2 k)) -> content_src init L1 n -> content_src init L2 n.
Proof.
  intros init L1 L2 n M [A|(j & h0 & A & B & C)]; [left; exact A|].
  right. exists j, h0. auto.
Qed.

Lemma origin_of_ext : forall b init (L1 L2 : nat -> list hdr) s1 s2 p n,
  (forall k x, In x (L1 k) -> In x (L2 k)) ->
  if_get (s_if s2) p = if_get (s_if s1) p ->
  origin_of b init L1 s1 p n -> origin_of b init L2 s2 p n.
Proof.
  intros b init L1 L2 s1 s2 p n M E O.
  destruct O as [A B|k h A B C D F|k h A B C D F|k h sm md ow dt A B C D F G].
  - apply OInit; [exact A | rewrite E; exact B].
  - eapply OReg; eauto. rewrite E. exact F.
  - eapply OSym; eauto. intro Lz. rewrite E. exact (F Lz).
  - eapply OLink; eauto; [eapply content_src_mono; eauto | rewrite E; exact G].
Qed.

Lemma upd_mono : forall (L : nat -> list hdr) i acc h (app : bool) k x,
  In x (upd L i acc k) -> In x (upd L i (if app then acc ++ [h] else acc) k).
Proof.
  intros L i acc h app k x. unfold upd. destruct (Nat.eqb k i); [|auto].
  destruct app; [|auto]. intro. apply in_or_app. auto.
Qed.

Lemma upd_new : forall (L : nat -> list hdr) i acc h, In h (upd L i (acc ++ [h]) i).
Proof. intros. unfold upd. rewrite Nat.eqb_refl. apply in_or_app. right. left. reflexivity. Qed.

Lemma no_owner_of_missing : forall b init s L p,
  prov b init s L -> fs_get (s_fs s) p = None -> if_get (s_if s) p = None.
Proof.
  intros b init s L p [_ P2] G. destruct (if_get (s_if s) p) as [k|] eqn:E; [|reflexivity].
  destruct (P2 p k E) as (n & Hn). congruence.
Qed.

Lemma prov_step : forall b pkgs init i me s h s' app L acc,
  prov b init s (upd L i acc) ->
  step b pkgs i me s h = IOk (s', app) ->
  prov b init s' (upd L i (if app then acc ++ [h] else acc)).
Proof.
  intros b pkgs init i me s h s' app L acc P Hstep.
  pose proof (upd_mono L i acc h app) as M.
  pose proof P as [P1 P2].
  destruct (step_tr _ _ _ _ _ _ _ _ Hstep) as [E|K Eif Hkeep Hnew|sm md ow dt K Eapp Gp Gl E|K Eapp E|K Eapp E Hs].
  - (* nothing changed *)
    subst s'. split; [|exact P2].
    intros p n G. destruct (P1 p n G) as [D|O]; [left; exact D|right].
    eapply origin_of_ext with (s1 := s); [exact M | reflexivity | exact O].
  - (* directories were created *)
    split.
    + intros p n G. destruct (Hnew p n G) as [G0|(md & Hd)]; [|left; subst n; exact I].
      destruct (P1 p n G0) as [D|O]; [left; exact D|right].
      eapply origin_of_ext with (s1 := s); [exact M | rewrite Eif; reflexivity | exact O].
    + intros p k G. rewrite Eif in G. destruct (P2 p k G) as (n & Hn). exists n. apply Hkeep. exact Hn.
  - (* a hard link: a second name for the node of the target *)
    subst s' app. unfold with_fs. split.
    + intros p n G. cbn [s_fs] in G. destruct (list_eq_dec string_dec (h_path h) p) as [Eq|Ne].
      * subst p. rewrite fs_get_set_same in G. inv_ok G. right.
        eapply OLink with (k := i) (h := h); [apply upd_new | reflexivity | exact K | reflexivity | |].
        -- destruct (P1 _ _ Gl) as [D|O]; [contradiction|].
           destruct O as [A B|k0 h0 A B C D F|k0 h0 A B C D F|k0 h0 sm0 md0 ow0 dt0 A B C D F G0].
           ++ left. exists (h_link h). exact A.
           ++ right. exists k0, h0. split; [apply (M k0 h0 A) | auto].
           ++ discriminate.
           ++ eapply content_src_mono; [exact M | exact F].
        -- exact (no_owner_of_missing b init s _ _ P Gp).
      * rewrite fs_get_set_other in G by exact Ne.
        destruct (P1 p n G) as [D|O]; [left; exact D|right].
        eapply origin_of_ext with (s1 := s); [exact M | reflexivity | exact O].
    + intros p k G. cbn [s_fs s_if] in *. destruct (P2 p k G) as (n & Hn).
      destruct (list_eq_dec string_dec (h_path h) p) as [Eq|Ne].
      * subst p. rewrite fs_get_set_same. eexists; reflexivity.
      * rewrite fs_get_set_other by exact Ne. exists n. exact Hn.
  - (* a regular file was written *)
    subst s' app. unfold set_file. rewrite K. cbn [s_fs s_if]. split.
    + intros p n G. cbn [s_fs s_if] in *. destruct (list_eq_dec string_dec (h_path h) p) as [Eq|Ne].
      * subst p. rewrite fs_get_set_same in G. inv_ok G. right.
        eapply OReg with (k := i) (h := h); [apply upd_new | reflexivity | exact K | |].
        -- unfold file_node. rewrite K. reflexivity.
        -- cbn [s_if]. apply if_get_set_same.
      * rewrite fs_get_set_other in G by exact Ne.
        destruct (P1 p n G) as [D|O]; [left; exact D|right].
        eapply origin_of_ext with (s1 := s); [exact M | | exact O]. cbn [s_if]. apply if_get_set_other. exact Ne.
    + intros p k G. cbn [s_fs s_if] in *. destruct (list_eq_dec string_dec (h_path h) p) as [Eq|Ne].
      * subst p. rewrite fs_get_set_same. eexists; reflexivity.
      * rewrite if_get_set_other in G by exact Ne. destruct (P2 p k G) as (n & Hn).
        rewrite fs_get_set_other by exact Ne. exists n. exact Hn.
  - (* a symbolic link was written *)
    subst s' app. unfold set_file. rewrite K. cbn [s_fs s_if]. split.
    + intros p n G. cbn [s_fs s_if] in *. destruct (list_eq_dec string_dec (h_path h) p) as [Eq|Ne].
      * subst p. rewrite fs_get_set_same in G. inv_ok G. right.
        eapply OSym with (k := i) (h := h); [apply upd_new | reflexivity | exact K | |].
        -- unfold file_node. rewrite K. reflexivity.
        -- intro Lz. exact (no_owner_of_missing b init s _ _ P (Hs Lz)).
      * rewrite fs_get_set_other in G by exact Ne.
        destruct (P1 p n G) as [D|O]; [left; exact D|right].
        eapply origin_of_ext with (s1 := s); [exact M | reflexivity | exact O].
    + intros p k G. cbn [s_fs s_if] in *. destruct (list_eq_dec string_dec (h_path h) p) as [Eq|Ne].
      * subst p. rewrite fs_get_set_same. eexists; reflexivity.
      * destruct (P2 p k G) as (n & Hn). rewrite fs_get_set_other by exact Ne. exists n. exact Hn.
Qed.

(* ---- lifting an invariant of (state, lists) through the install ------------- *)
Lemma inv_files : forall (Inv : st -> (nat -> list hdr) -> Prop) b pkgs,
  (forall i me s h s' app L acc, Inv s (upd L i acc) -> step b pkgs i me s h = IOk (s', app) ->
     Inv s' (upd L i (if app then acc ++ [h] else acc))) ->
  forall i me hs s acc s' acc' L,
  Inv s (upd L i acc) -> install_files b pkgs i me s acc hs = IOk (s', acc') -> Inv s' (upd L i acc').
Proof.
  intros Inv b pkgs Hstep i me.
  induction hs as [|h hs IH]; intros s acc s' acc' L Hinv H; cbn in H.
  - inv_ok H. exact Hinv.
  - destruct (step b pkgs i me s h) as [[s1 app]|e s1] eqn:S; [|discriminate].
    eapply IH; [|exact H]. eapply Hstep; eauto.
Qed.

Lemma inv_all : forall (Inv : st -> (nat -> list hdr) -> Prop) b pkgs,
  (forall s L L', (forall k, L k = L' k) -> Inv s L -> Inv s L') ->
  (forall i me s h s' app L acc, Inv s (upd L i acc) -> step b pkgs i me s h = IOk (s', app) ->
     Inv s' (upd L i (if app then acc ++ [h] else acc))) ->
  forall todo i s done s' done',
  List.length done = i ->
  Inv s (fun k => nth k done []) ->
  install_all b pkgs i s done todo = IOk (s', done') ->
  Inv s' (fun k => nth k done' []).
Proof.
  intros Inv b pkgs Hext Hstep.
  induction todo as [|me todo IH]; intros i s done s' done' Hl Hinv H; cbn in H.
  - inv_ok H. exact Hinv.
  - destruct (install_files b pkgs i me s [] (p_files me)) as [[s1 files]|e s1] eqn:F; [|discriminate].
    eapply (IH (S i) s1 (done ++ [files])); [rewrite app_length; cbn; lia | | exact H].
    apply Hext with (L := upd (fun k => nth k done []) (List.length done) files); [intro k; apply upd_nth|].
    rewrite Hl. eapply inv_files; [exact Hstep | | exact F].
    eapply Hext; [|exact Hinv]. intro k. unfold upd.
    destruct (Nat.eqb_spec k i) as [E|E]; [|reflexivity].
    subst k. rewrite nth_overflow by lia. reflexivity.
Qed.

Lemma prov_ext : forall b init s L L', (forall k, L k = L' k) -> prov b init s L -> prov b init s L'.
Proof.
  intros b init s L L' E [P1 P2]. split; [|exact P2].
  intros p n G. destruct (P1 p n G) as [D|O]; [left; exact D|right].
  eapply origin_of_ext with (s1 := s); [|reflexivity|exact O]. intros k x Hx. rewrite <- E. exact Hx.
Qed.

Lemma prov_initial : forall b init, prov b init {| s_fs := init; s_if := [] |} (fun k => nth k [] []).
Proof.
  intros b init. split.
  - intros p n G. right. apply OInit; [exact G | reflexivity].
  - intros p k G. discriminate.
Qed.

Theorem install_prov : forall b pkgs init f,
  install b pkgs init = RDone f ->
  prov b init {| s_fs := f_fs f; s_if := f_if f |} (fun k => nth k (f_files f) []).
Proof.
  intros b pkgs init f H. unfold install in H.
  destruct (install_all b pkgs 0 {| s_fs := init; s_if := [] |} [] pkgs) as [[s all]|e s] eqn:A; [|discriminate].
  inv_ok H. cbn [f_fs f_if f_files]. destruct s as [fs ifs].
  apply (inv_all (prov b init) b pkgs (prov_ext b init)
           (fun i me s h s' app L acc => prov_step b pkgs init i me s h s' app L acc)
           pkgs 0 {| s_fs := init; s_if := [] |} [] _ all eq_refl (prov_initial b init) A).
Qed.

Lemma install_listed : forall b pkgs init f,
  install b pkgs init = RDone f -> listed_sub pkgs (f_files f).
Proof.
  intros b pkgs init f H. unfold install in H.
  destruct (install_all b pkgs 0 {| s_fs := init; s_if := [] |} [] pkgs) as [[s all]|e s] eqn:A; [|discriminate].
  inv_ok H. cbn [f_files].
  apply (listed_all b pkgs pkgs [] {| s_fs := init; s_if := [] |} [] s all eq_refl eq_refl); [|exact A].
  intros j x Hx. destruct j; cbn in Hx; contradiction.
Qed.

(* the readable form: where every non-directory node of the final tree comes from *)
Theorem provenance : forall b pkgs init f,
  install b pkgs init = RDone f ->
  forall p n, fs_get (f_fs f) p = Some n ->
    is_dir_node n \/
    (* untouched *)
    (fs_get init p = Some n /\ if_get (f_if f) p = None) \/
    (* written by a header of that path, of package k, that is on k's list *)
    exists k h, In h (p_files (nth k pkgs no_pkg)) /\ In h (nth k (f_files f) []) /\ h_path h = p /\
      match h_kind h with
      | KReg => n = NFile (h_sum h) (h_mode h) (Some k) true /\ if_get (f_if f) p = Some k
      | KSym => n = NSym (h_sum h) (Some k) (h_link h) /\ (is_lazy b = false -> if_get (f_if f) p = None)
      | KLink => (exists sm md ow dt, n = NFile sm md ow dt) /\
                 content_src init (fun k => nth k (f_files f) []) n /\ if_get (f_if f) p = None
      | KDir => False
      end.
Proof.
  intros b pkgs init f H p n G.
  destruct (install_prov b pkgs init f H) as [P1 _]. cbn [s_fs s_if] in P1.
  pose proof (install_listed b pkgs init f H) as Hsub.
  destruct (P1 p n G) as [D|O]; [left; exact D|right].
  destruct O as [A B|k h A B C D F|k h A B C D F|k h sm md ow dt A B C D F G0].
  - left. split; assumption.
  - right. exists k, h. split; [apply Hsub; exact A|]. split; [exact A|]. split; [exact B|]. rewrite C. split; assumption.
  - right. exists k, h. split; [apply Hsub; exact A|]. split; [exact A|]. split; [exact B|]. rewrite C. split; assumption.
  - right. exists k, h. split; [apply Hsub; exact A|]. split; [exact A|]. split; [exact B|]. rewrite C.
    split; [exists sm, md, ow, dt; exact D|]. split; assumption.
Qed.

(* ---- the database theorem --------------------------------------------------- *)
(* the envelope: every path is shipped with ONE kind (excludes a regular file
   over a link and the reverse, findings C07-F5/F13, and a regular file at a
   hard link's name), by no package twice, and what the packages ship as files
   or links was not in the tree before (excludes the keyring file, C07-F8) *)
Definition one_kind_per_path (pkgs : list pkg) : Prop :=
  forall h1 h2, In h1 (all_hdrs pkgs) -> In h2 (all_hdrs pkgs) -> h_path h1 = h_path h2 -> h_kind h1 = h_kind h2.
Definition fresh_paths (pkgs : list pkg) (init : fsmap) : Prop :=
  forall h n, In h (all_hdrs pkgs) -> h_kind h <> KDir -> fs_get init (h_path h) = Some n -> is_dir_node n.
Definition links_agree (pkgs : list pkg) : Prop :=
  forall h1 h2, In h1 (all_hdrs pkgs) -> In h2 (all_hdrs pkgs) -> h_kind h1 = KSym -> h_kind h2 = KSym ->
    h_path h1 = h_path h2 -> h_sum h1 = h_sum h2 /\ h_link h1 = h_link h2.

Lemma nth_in_pkgs : forall (pkgs : list pkg) k h, In h (p_files (nth k pkgs no_pkg)) -> In (nth k pkgs no_pkg) pkgs.
Proof.
  intros pkgs k h H. destruct (Nat.lt_ge_cases k (List.length pkgs)) as [L|L].
  - apply nth_In. exact L.
  - rewrite nth_overflow in H by exact L. contradiction.
Qed.

Definition record_true (b : backend) (pkgs : list pkg) (init : fsmap) (f : final) (k : nat) (h : hdr) : Prop :=
  match h_kind h with
  | KDir => exists md, fs_get (f_fs f) (h_path h) = Some (NDir md)
  | KReg =>
      (* the bytes and the mode present are this header's, the node is this
         package's, installedFiles names this package, and no other stanza
         lists the path *)
      fs_get (f_fs f) (h_path h) = Some (NFile (h_sum h) (h_mode h) (Some k) true) /\
      if_get (f_if f) (h_path h) = Some k /\
      (forall k' entries' h', nth_error (f_db f) k' = Some entries' -> In h' entries' -> h_path h' = h_path h -> k' = k)
  | KSym =>
      (* a link is there; it was written by the link header of a package that
         lists it; on the streaming backends that is this record, on tarfs it is
         this record's target whenever the packages agree on the target *)
      exists k' h', In h' (p_files (nth k' pkgs no_pkg)) /\ In h' (nth k' (f_files f) []) /\
        h_kind h' = KSym /\ h_path h' = h_path h /\
        fs_get (f_fs f) (h_path h) = Some (NSym (h_sum h') (Some k') (h_link h')) /\
        (* the record of the package the node names (the last writer) is this very link *)
        (k' = k -> h' = h) /\
        (is_lazy b = false -> k' = k /\ h_sum h' = h_sum h /\ h_link h' = h_link h) /\
        (links_agree pkgs -> h_sum h' = h_sum h /\ h_link h' = h_link h)
  | KLink =>
      (* a regular file is there whose bytes are those of a regular-file header
         on some package's list (or were there before); nobody is recorded as
         the owner of the name *)
      exists sm md ow dt, fs_get (f_fs f) (h_path h) = Some (NFile sm md ow dt) /\
        content_src init (fun j => nth j (f_files f) []) (NFile sm md ow dt) /\
        if_get (f_if f) (h_path h) = None
  end.

Theorem db_records_true : forall b pkgs init f,
  install b pkgs init = RDone f ->
  nodup_paths pkgs -> one_kind_per_path pkgs -> fresh_paths pkgs init ->
  (forall h, In h (all_hdrs pkgs) -> h_path h <> []) ->
  forall k entries h, nth_error (f_db f) k = Some entries -> In h entries -> record_true b pkgs init f k h.
Proof.
  intros b pkgs init f H Hnd Hone Hfresh Hne k entries h Hn Hin.
  destruct (db_entry_listed _ _ _ _ _ _ _ H Hn Hin) as [Hpr Hl].
  pose proof (install_listed b pkgs init f H) as Hsub.
  assert (Hall : In h (all_hdrs pkgs)) by (eapply in_nth_all_hdrs; apply Hsub; exact Hl).
  pose proof (db_kind_true b pkgs init f H Hne k entries h Hn Hin) as KT. unfold kind_true in KT. cbn [s_fs] in KT.
  unfold record_true.
  destruct (h_kind h) eqn:K; [| exact KT | |].
  - (* KReg *)
    destruct (fs_get (f_fs f) (h_path h)) as [n|] eqn:G; [|contradiction].
    destruct (provenance b pkgs init f H _ _ G) as [D|[[A B]|(k' & h' & A & A' & B & C)]].
    + destruct n; contradiction.
    + exfalso. assert (Dn := Hfresh h n Hall ltac:(rewrite K; discriminate) A). destruct n; contradiction.
    + assert (Hall' : In h' (all_hdrs pkgs)) by (eapply in_nth_all_hdrs; exact A).
      assert (K' : h_kind h' = KReg) by (rewrite (Hone h' h Hall' Hall B); exact K).
      rewrite K' in C. destruct C as [C1 C2].
      assert (k = k') by (eapply prune_owner; [exact Hpr | rewrite K; discriminate | exact C2]). subst k'.
      assert (h' = h).
      { eapply Hnd; [eapply nth_in_pkgs; exact A | exact A | apply Hsub; exact Hl | exact B]. }
      subst h'. split; [rewrite C1; reflexivity|]. split; [exact C2|].
      intros k2 e2 h2 Hn2 Hin2 Hp2.
      destruct (db_entry_listed _ _ _ _ _ _ _ H Hn2 Hin2) as [Hpr2 Hl2].
      assert (Hall2 : In h2 (all_hdrs pkgs)) by (eapply in_nth_all_hdrs; apply Hsub; exact Hl2).
      eapply prune_owner; [exact Hpr2 | rewrite (Hone h2 h Hall2 Hall Hp2), K; discriminate | rewrite Hp2; exact C2].
  - (* KSym *)
    destruct (fs_get (f_fs f) (h_path h)) as [n|] eqn:G; [|contradiction].
    destruct (provenance b pkgs init f H _ _ G) as [D|[[A B]|(k' & h' & A & A' & B & C)]].
    + destruct n; contradiction.
    + exfalso. assert (Dn := Hfresh h n Hall ltac:(rewrite K; discriminate) A). destruct n; contradiction.
    + assert (Hall' : In h' (all_hdrs pkgs)) by (eapply in_nth_all_hdrs; exact A).
      assert (K' : h_kind h' = KSym) by (rewrite (Hone h' h Hall' Hall B); exact K).
      rewrite K' in C. destruct C as [C1 C2].
      exists k', h'. split; [exact A|]. split; [exact A'|]. split; [exact K'|]. split; [exact B|].
      split; [subst n; reflexivity|]. split.
      { intro Ek. subst k'. eapply Hnd; [eapply nth_in_pkgs; exact A | exact A | apply Hsub; exact Hl | exact B]. }
      split.
      * intro Lz. pose proof (db_symlink_entries_stream b pkgs init f Lz H k entries h Hn Hin K) as S.
        rewrite G, C1 in S. inversion S. auto.
      * intro Hag. exact (Hag h' h Hall' Hall K' K B).
  - (* KLink *)
    destruct (fs_get (f_fs f) (h_path h)) as [n|] eqn:G; [|contradiction].
    destruct (provenance b pkgs init f H _ _ G) as [D|[[A B]|(k' & h' & A & A' & B & C)]].
    + destruct n; contradiction.
    + exfalso. assert (Dn := Hfresh h n Hall ltac:(rewrite K; discriminate) A). destruct n; contradiction.
    + assert (Hall' : In h' (all_hdrs pkgs)) by (eapply in_nth_all_hdrs; exact A).
      assert (K' : h_kind h' = KLink) by (rewrite (Hone h' h Hall' Hall B); exact K).
      rewrite K' in C. destruct C as [(sm & md & ow & dt & C1) [C2 C3]].
      exists sm, md, ow, dt. subst n. auto.
Qed.

(* ---- the hypotheses are satisfiable, the corners are real ------------------- *)
Definition wit_hx : hdr :=
  {| h_path := ["usr"; "bin"; "x"]; h_kind := KReg; h_mode := 493; h_uid := 0; h_gid := 0; h_sum := 2; h_link := [] |}.
Definition wit_hlx : hdr :=
  {| h_path := ["usr"; "bin"; "lx"]; h_kind := KLink; h_mode := 493; h_uid := 0; h_gid := 0; h_sum := 0; h_link := ["usr"; "bin"; "x"] |}.
Definition wit_prov_pkgs : list pkg :=
  [ {| p_name := "a"; p_origin := "o"; p_replaces := []; p_files := wit_dirs ++ [wit_hx; wit_hlx; wit_sx 2] |};
    {| p_name := "b"; p_origin := "o"; p_replaces := [];
       p_files := wit_dirs ++ [ {| h_path := ["usr"; "bin"; "x"]; h_kind := KReg; h_mode := 448; h_uid := 0; h_gid := 0; h_sum := 3; h_link := [] |};
                                wit_sx 2 ] |} ].

Lemma path_eqb_reflect : forall a b : path, reflect (a = b) (path_eqb a b).
Proof.
  intros a b. destruct (path_eqb a b) eqn:E.
  - apply ReflectT. apply path_eqb_eq. exact E.
  - apply ReflectF. intro F. apply path_eqb_eq in F. congruence.
Qed.

(* boolean forms of the three hypotheses, for checking concrete lists *)
Definition one_kind_b (hs : list hdr) : bool :=
  forallb (fun h1 => forallb (fun h2 => negb (path_eqb (h_path h1) (h_path h2)) || kind_eqb (h_kind h1) (h_kind h2)) hs) hs.
Lemma one_kind_b_ok : forall pkgs, one_kind_b (all_hdrs pkgs) = true -> one_kind_per_path pkgs.
Proof.
  intros pkgs H h1 h2 I1 I2 E. unfold one_kind_b in H. rewrite forallb_forall in H.
  specialize (H h1 I1). rewrite forallb_forall in H. specialize (H h2 I2).
  rewrite E, path_eqb_refl in H. cbn in H. apply kind_eqb_eq. exact H.
Qed.

Fixpoint nodupb (l : list path) : bool :=
  match l with [] => true | x :: r => negb (existsb (path_eqb x) r) && nodupb r end.
Lemma nodupb_ok : forall l, nodupb l = true -> NoDup l.
Proof.
  induction l as [|x r IH]; intro H; [constructor|]. cbn in H. apply andb_true_iff in H. destruct H as [A B].
  constructor; [|apply IH; exact B]. intro I. apply negb_true_iff in A.
  assert (existsb (path_eqb x) r = true) by (apply existsb_exists; exists x; split; [exact I | apply path_eqb_refl]).
  congruence.
Qed.
Lemma nodup_map_inj : forall (l : list hdr) a c, NoDup (List.map h_path l) -> In a l -> In c l -> h_path a = h_path c -> a = c.
Proof.
  induction l as [|x l IH]; intros a c N Ia Ic E; [contradiction|]. cbn in N. inversion N as [|? ? Nx Nl]; subst.
  destruct Ia as [Ia|Ia]; destruct Ic as [Ic|Ic].
  - congruence.
  - subst x. exfalso. apply Nx. rewrite E. apply in_map. exact Ic.
  - subst x. exfalso. apply Nx. rewrite <- E. apply in_map. exact Ia.
  - apply IH; assumption.
Qed.
Definition nodup_paths_b (pkgs : list pkg) : bool := forallb (fun pk => nodupb (List.map h_path (p_files pk))) pkgs.
Lemma nodup_paths_b_ok : forall pkgs, nodup_paths_b pkgs = true -> nodup_paths pkgs.
Proof.
  intros pkgs H pk h1 h2 Ip I1 I2 E. unfold nodup_paths_b in H. rewrite forallb_forall in H.
  eapply nodup_map_inj; [apply nodupb_ok; apply H; exact Ip | exact I1 | exact I2 | exact E].
Qed.

(* a: usr/bin/x, the hard link usr/bin/lx -> usr/bin/x and the link usr/bin/sx;
   b (same origin) replaces usr/bin/x and ships the same link: every record of
   the database is true, the hard link's name keeps a's bytes *)
Lemma wit_prov_in_envelope :
  nodup_paths wit_prov_pkgs /\ one_kind_per_path wit_prov_pkgs /\ fresh_paths wit_prov_pkgs [] /\
  links_agree wit_prov_pkgs /\ (forall h, In h (all_hdrs wit_prov_pkgs) -> h_path h <> []).
Proof.
  split; [apply nodup_paths_b_ok; vm_compute; reflexivity|].
  split; [apply one_kind_b_ok; vm_compute; reflexivity|].
  split; [intros h n _ _ G; discriminate|].
  split.
  - intros h1 h2 I1 I2 K1 K2 E. cbn in I1, I2.
    repeat (destruct I1 as [I1|I1]; [subst h1; try discriminate|]); try contradiction;
    repeat (destruct I2 as [I2|I2]; [subst h2; try discriminate|]); try contradiction; split; reflexivity.
  - intros h I. cbn in I. repeat (destruct I as [I|I]; [subst h; discriminate|]). contradiction.
Qed.

Lemma wit_prov_lazy : exists f ea eb,
  install Lazy wit_prov_pkgs [] = RDone f /\
  nth_error (f_db f) 0 = Some ea /\ nth_error (f_db f) 1 = Some eb /\
  In wit_hlx ea /\ In (wit_sx 2) ea /\ In (wit_sx 2) eb /\
  fs_get (f_fs f) ["usr"; "bin"; "lx"] = Some (NFile 2 493 (Some 0) true) /\
  fs_get (f_fs f) ["usr"; "bin"; "x"] = Some (NFile 3 448 (Some 1) true).
Proof.
  eexists _, _, _. split; [vm_compute; reflexivity|]. split; [vm_compute; reflexivity|]. split; [vm_compute; reflexivity|].
  split; [vm_compute; tauto|]. split; [vm_compute; tauto|]. split; [vm_compute; tauto|].
  split; vm_compute; reflexivity.
Qed.

(* without [fresh_paths] the statement is false (finding C07-F8): the tree holds
   usr/bin/x (bytes 2, mode 0600) before the install, a ships the same bytes
   0644: the file that was there stays, a's header is recorded *)
Definition wit_pre : fsmap :=
  [ (["usr"], NDir 493); (["usr"; "bin"], NDir 493); (["usr"; "bin"; "x"], NFile 2 384 None true) ].
Lemma db_records_true_needs_fresh : forall b, exists f entries,
  install b [ {| p_name := "a"; p_origin := "a"; p_replaces := []; p_files := wit_dirs ++ [wit_hx] |} ] wit_pre = RDone f /\
  nth_error (f_db f) 0 = Some entries /\ In wit_hx entries /\
  fs_get (f_fs f) (h_path wit_hx) = Some (NFile 2 384 None true) /\ if_get (f_if f) (h_path wit_hx) = None.
Proof.
  intro b. destruct b; eexists _, _; (split; [vm_compute; reflexivity|]); (split; [vm_compute; reflexivity|]);
    (split; [vm_compute; tauto|]); split; vm_compute; reflexivity.
Qed.
