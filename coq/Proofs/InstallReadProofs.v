(* C07 — the reader's view of the lazy backend (Model/InstallRead.v) is the tree
   itself wherever the by-name fetch cannot go astray: when no package ships a
   name twice, every node that is not under a hard link's name reads the bytes it
   was written with. (Under a hard link's name the same holds in the real code;
   the model's provenance does not carry the target chain, the correspondence
   covers it.) *)
From Apko Require Import Base.Prelude Model.Install Model.InstallRead Proofs.InstallProofs Proofs.InstallProvProofs Proofs.InstallDbProofs.
Open Scope string_scope. Open Scope list_scope.

Definition init_unowned (init : fsmap) : Prop :=
  forall p sm md k dt, fs_get init p <> Some (NFile sm md (Some k) dt).

Lemma last_entry_nodup : forall files h, nd files -> In h files -> h_kind h <> KDir ->
  last_entry files (h_path h) = Some h.
Proof.
  intros files h N I K. unfold last_entry.
  destruct (find (fun x => path_eqb (h_path x) (h_path h) && negb (kind_eqb (h_kind x) KDir)) (rev files)) as [z|] eqn:F.
  - apply find_some in F. destruct F as [A B]. apply in_rev in A. apply andb_true_iff in B. destruct B as [B _].
    apply path_eqb_eq in B. f_equal. eapply nodup_map_inj; eauto.
  - exfalso. pose proof (find_none _ _ F h (proj1 (in_rev files h) I)) as C. cbn in C.
    rewrite path_eqb_refl in C. cbn in C. apply negb_false_iff in C. apply kind_eqb_eq in C. contradiction.
Qed.

Lemma tar_open_reg : forall f files name h,
  last_entry files name = Some h -> h_kind h = KReg -> tar_open (S f) files name = Some (h_sum h).
Proof. intros f files name h L K. cbn [tar_open]. rewrite L, K. reflexivity. Qed.

Lemma entry_name_own : forall f pkgs k sm q,
  ships_reg (nth k pkgs no_pkg) q sm = true -> entry_name (S f) pkgs k sm q = q.
Proof. intros f pkgs k sm q S. cbn [entry_name]. rewrite S. reflexivity. Qed.

Theorem lazy_node_plain : forall b pkgs init f,
  install b pkgs init = RDone f -> strict_nodup_paths pkgs -> init_unowned init ->
  forall q n, fs_get (f_fs f) q = Some n ->
    (forall k h, In h (p_files (nth k pkgs no_pkg)) -> h_kind h = KLink -> h_path h <> q) ->
    lazy_node pkgs q n = n.
Proof.
  intros b pkgs init f H Hn Hu q n G Hl.
  destruct (provenance b pkgs init f H q n G) as [D|[[A B]|(k & h & A & A' & B & C)]].
  - destruct n; try contradiction. reflexivity.
  - destruct n as [m|sm md [j|] dt|tg ow lk|]; try reflexivity. exfalso. exact (Hu _ _ _ _ _ A).
  - destruct (h_kind h) eqn:K.
    + destruct C as [C _]. subst n. unfold lazy_node.
      destruct (N.eqb (h_sum h) 1); [reflexivity|].
      assert (S : ships_reg (nth k pkgs no_pkg) q (h_sum h) = true).
      { unfold ships_reg. apply existsb_exists. exists h. split; [exact A|].
        rewrite B, path_eqb_refl, K, N.eqb_refl. reflexivity. }
      unfold tar_max_hops.
      rewrite (entry_name_own 7 pkgs k (h_sum h) q S).
      rewrite (tar_open_reg 64 (p_files (nth k pkgs no_pkg)) q h); [reflexivity | | exact K].
      rewrite <- B. apply last_entry_nodup; [exact (Hn _ (nth_in_pkgs pkgs k h A)) | exact A | rewrite K; discriminate].
    + contradiction.
    + destruct C as [C _]. subst n. reflexivity.
    + exfalso. exact (Hl k h A K B).
Qed.
