(* C10 — the main-stack / layer-stack invariant of splitLayers over a walk, and
   from it: every layer is well formed (parents first, no path twice). *)
From Apko Require Import Base.Prelude Model.Tar Spec.TarSpec Proofs.TarProofs Proofs.TarRoundtrip Proofs.TarOrder
  Model.Layers Spec.LayersSpec Proofs.LayersProofs.
From Coq Require Import Sorting.Sorted Sorting.Permutation.
Open Scope string_scope. Open Scope list_scope.

(* ---- non-empty prefixes of a path, shortest first -------------------------------- *)
Fixpoint prefixes (q : path) : list path :=
  match q with [] => [] | x :: r => [x] :: map (cons x) (prefixes r) end.

Lemma prefixes_snoc : forall q n, prefixes (q ++ [n]) = prefixes q ++ [q ++ [n]].
Proof.
  induction q as [| x r IH]; intros n; simpl; auto.
  rewrite IH, map_app. reflexivity.
Qed.

Lemma in_prefixes : forall q p, In p (prefixes q) <-> p <> [] /\ exists s, q = p ++ s.
Proof.
  induction q as [| x r IH]; intros p; simpl.
  - split; [contradiction|]. intros [Hp [s Hs]]. destruct p; [congruence | discriminate].
  - split.
    + intros [<- | H]; [split; [discriminate | exists r; reflexivity]|].
      apply in_map_iff in H. destruct H as [p0 [<- Hp0]]. apply IH in Hp0. destruct Hp0 as [_ [s ->]].
      split; [discriminate | exists s; reflexivity].
    + intros [Hp [s Hs]]. destruct p as [| y p0]; [congruence|]. simpl in Hs. inversion Hs; subst.
      destruct p0 as [| z p1]; [left; reflexivity|]. right. apply in_map. apply IH. split; [discriminate | exists s; reflexivity].
Qed.

Lemma prefixes_nonempty : forall q p, In p (prefixes q) -> p <> [].
Proof. intros q p H. apply in_prefixes in H. tauto. Qed.

Lemma prefixes_self : forall q, q <> [] -> In q (prefixes q).
Proof. intros q H. apply in_prefixes. split; auto. exists []. rewrite app_nil_r. reflexivity. Qed.

Lemma prefixes_app : forall q s, prefixes (q ++ s) = prefixes q ++ map (app q) (prefixes s).
Proof.
  induction q as [| x r IH]; intros s; simpl.
  - rewrite map_id. reflexivity.
  - rewrite IH, map_app, map_map. reflexivity.
Qed.

Lemma prefixes_NoDup : forall q, NoDup (prefixes q).
Proof.
  induction q as [| x r IH]; simpl; constructor.
  - intros H. apply in_map_iff in H. destruct H as [p [E Hp]]. apply prefixes_nonempty in Hp. inversion E; subst. congruence.
  - apply FinFun.Injective_map_NoDup; auto. intros a b E. inversion E; reflexivity.
Qed.

Lemma parent_snoc : forall (q : path) n, parent (q ++ [n]) = q.
Proof. intros. unfold parent. apply removelast_last. Qed.

Lemma path_parent_last : forall p : path, p <> [] -> exists n, p = parent p ++ [n].
Proof. intros p H. exists (last p ""). unfold parent. apply app_removelast_last. exact H. Qed.

(* ---- a value between q and q ++ [n] in the order has q as a prefix ---------------- *)
Lemma lex_between : forall q n x, path_lt x (q ++ [n]) -> (x = q \/ path_lt q x) -> exists s, x = q ++ s.
Proof.
  unfold path_lt. induction q as [| a q IH]; intros n x H1 H2.
  - exists x. reflexivity.
  - destruct x as [| b x0].
    + destruct H2 as [H2 | H2]; [discriminate | simpl in H2; discriminate].
    + simpl in H1. destruct (String.compare b a) eqn:E; try discriminate.
      * apply compare_eq in E. subst. destruct (IH n x0 H1) as [s ->].
        -- destruct H2 as [H2 | H2]; [left; inversion H2; reflexivity | right; simpl in H2; rewrite compare_refl in H2; exact H2].
        -- exists s. reflexivity.
      * exfalso. destruct H2 as [H2 | H2].
        -- inversion H2; subst. rewrite compare_refl in E. discriminate.
        -- simpl in H2. rewrite String.compare_antisym, E in H2. simpl in H2. discriminate.
Qed.

(* ---- well-formed sequences: what splitLayers needs of the walk --------------------- *)
Definition parent_closed (es : list entry) : Prop :=
  forall e, In e es -> parent (e_path e) <> [] ->
    exists d, In d es /\ is_dir d = true /\ e_path d = parent (e_path e).

Record wseq (es : list entry) : Prop := {
  ws_sorted : StronglySorted entry_lt es;
  ws_nonempty : forall e, In e es -> e_path e <> [];
  ws_parents : parent_closed es
}.

Lemma SS_split_lt : forall A (R : A -> A -> Prop) a x b, StronglySorted R (a ++ x :: b) ->
  (forall y, In y a -> R y x) /\ (forall y, In y b -> R x y).
Proof.
  induction a as [| z a IH]; intros x b H; simpl in H.
  - inversion H; subst. split; [intros y []|]. rewrite Forall_forall in H3. exact H3.
  - inversion H; subst. destruct (IH x b H2) as [I1 I2]. split; auto.
    intros y [<- | Hy]; auto. rewrite Forall_forall in H3. apply H3. apply in_or_app. right. simpl; auto.
Qed.

Lemma wseq_before_distinct : forall es done f rest, wseq es -> es = done ++ f :: rest ->
  forall d, In d done -> path_lt (e_path d) (e_path f).
Proof.
  intros es done f rest W E d Hd. pose proof (ws_sorted es W) as S. rewrite E in S.
  apply SS_split_lt in S. destruct S as [S _]. exact (S d Hd).
Qed.

Lemma wseq_fresh : forall es done f rest, wseq es -> es = done ++ f :: rest ->
  forall d, In d done -> e_path d <> e_path f.
Proof.
  intros es done f rest W E d Hd Heq. pose proof (wseq_before_distinct es done f rest W E d Hd) as L.
  rewrite Heq in L. exact (path_lt_irrefl _ L).
Qed.

(* the path of the last directory visited so far *)
Definition last_dir_path (done : list entry) : path :=
  match find is_dir (rev done) with Some e => e_path e | None => [] end.

Lemma last_dir_path_snoc : forall done f,
  last_dir_path (done ++ [f]) = if is_dir f then e_path f else last_dir_path done.
Proof. intros. unfold last_dir_path. rewrite rev_unit. simpl. destruct (is_dir f); reflexivity. Qed.

Lemma find_app : forall A (P : A -> bool) a b, find P (a ++ b) = match find P a with Some x => Some x | None => find P b end.
Proof. induction a as [| x a IH]; intros; simpl; auto. destruct (P x); auto. Qed.

(* pre-order: the parent of the next entry is a prefix of the last directory visited *)
Lemma preorder : forall es done f rest, wseq es -> es = done ++ f :: rest ->
  parent (e_path f) <> [] -> exists s, last_dir_path done = parent (e_path f) ++ s.
Proof.
  intros es done f rest W E Hp.
  assert (Hf : In f es) by (rewrite E; apply in_or_app; right; simpl; auto).
  destruct (ws_parents es W f Hf Hp) as [d [Hd [Hdir Hpath]]].
  destruct (path_parent_last (e_path f) (ws_nonempty es W f Hf)) as [n Hn].
  assert (Hlt : path_lt (e_path d) (e_path f)).
  { rewrite Hpath. remember (parent (e_path f)) as q. rewrite Hn. apply path_lt_prefix. }
  (* d is in done *)
  assert (Hdd : In d done).
  { rewrite E in Hd. apply in_app_or in Hd. destruct Hd as [Hd | [<- | Hd]]; auto.
    - exfalso. exact (path_lt_irrefl _ Hlt).
    - exfalso. pose proof (ws_sorted es W) as S. rewrite E in S. apply SS_split_lt in S. destruct S as [_ S].
      specialize (S d Hd). unfold entry_lt in S. exact (path_lt_irrefl _ (path_lt_trans _ _ _ Hlt S)). }
  apply in_split in Hdd. destruct Hdd as [d1 [d2 Ed]].
  unfold last_dir_path. rewrite Ed, rev_app_distr. simpl. rewrite <- app_assoc. simpl. rewrite find_app.
  assert (Hx : exists x, (match find is_dir (rev d2) with Some x => Some x | None => find is_dir (d :: rev d1) end) = Some x /\
                (x = d \/ In x d2)).
  { destruct (find is_dir (rev d2)) as [x|] eqn:F.
    - exists x. split; auto. right. apply find_some in F. apply in_rev. tauto.
    - exists d. simpl. rewrite Hdir. auto. }
  destruct Hx as [x [-> Hx]].
  apply (lex_between (parent (e_path f)) n).
  - rewrite <- Hn. apply (wseq_before_distinct es done f rest W E). rewrite Ed. apply in_or_app. right.
    destruct Hx as [-> | Hx]; simpl; auto.
  - destruct Hx as [-> | Hx]; [left; exact Hpath | right].
    rewrite <- Hpath. pose proof (ws_sorted es W) as S. rewrite E, Ed, <- app_assoc in S. simpl in S.
    apply SS_split_lt in S. destruct S as [_ S]. apply S. apply in_or_app. left. exact Hx.
Qed.

(* ---- chains: stacks whose paths are the prefixes of one path ------------------------ *)
Definition chain_of (q : path) (l : list entry) : Prop := map e_path l = prefixes q.

Lemma pop_to_skip : forall p a b, (forall e, In e a -> e_path e <> p) -> pop_to p (a ++ b) = pop_to p b.
Proof.
  induction a as [| x a IH]; intros b H; simpl; auto.
  destruct (path_eqb (e_path x) p) eqn:E.
  - apply path_eqb_spec in E. exfalso. apply (H x); simpl; auto.
  - apply IH. intros e He. apply H. simpl; auto.
Qed.

Lemma pop_to_hit : forall A z B,
  (forall e, In e B -> e_path e <> e_path z) ->
  rev (pop_to (e_path z) (rev (A ++ z :: B))) = A ++ [z].
Proof.
  intros A z B H. rewrite rev_app_distr. simpl. rewrite <- app_assoc. simpl.
  rewrite pop_to_skip by (intros e He; apply H; apply in_rev; exact He).
  simpl. assert (E : path_eqb (e_path z) (e_path z) = true) by (apply path_eqb_spec; reflexivity).
  rewrite E. simpl. rewrite rev_involutive. reflexivity.
Qed.

Lemma pop_to_none : forall p l, (forall e, In e l -> e_path e <> p) -> pop_to p l = [].
Proof. intros p l H. rewrite <- (app_nil_r l). rewrite pop_to_skip; auto. Qed.

Lemma chain_nonempty_paths : forall q l e, chain_of q l -> In e l -> e_path e <> [].
Proof. intros q l e C He. apply (prefixes_nonempty q). rewrite <- C. apply in_map. exact He. Qed.

(* pushing a directory whose parent is a prefix of the chain's path *)
Lemma push_dir_chain : forall q main f q' n,
  chain_of q main -> e_path f = q' ++ [n] -> (q' = [] \/ exists s, q = q' ++ s) ->
  exists main0, push_dir main f = main0 ++ [f] /\ chain_of q' main0 /\ (forall d, In d main0 -> In d main).
Proof.
  intros q main f q' n C Ef Hq. unfold push_dir. rewrite Ef, parent_snoc.
  destruct (list_eq_dec string_dec q' []) as [-> | Hne].
  - exists []. rewrite pop_to_none.
    + simpl. repeat split; auto. intros d [].
    + intros e He. apply in_rev in He. exact (chain_nonempty_paths q main e C He).
  - destruct Hq as [Hq | [s Hs]]; [congruence|].
    destruct (path_parent_last q' Hne) as [n' Hn']. remember (parent q') as q0.
    unfold chain_of in C. rewrite Hs, prefixes_app, Hn', prefixes_snoc in C. rewrite <- Hn' in C.
    apply map_eq_app in C. destruct C as [A [B [-> [CA CB]]]].
    apply map_eq_app in CA. destruct CA as [A0 [Z [-> [CA0 CZ]]]].
    destruct Z as [| z Z]; [discriminate|]. destruct Z; [| discriminate]. simpl in CZ. inversion CZ as [Hz].
    exists (A0 ++ [z]). rewrite <- app_assoc. simpl.
    rewrite pop_to_hit.
    + repeat split; auto.
      * unfold chain_of. rewrite map_app, CA0. simpl. rewrite Hz.
        transitivity (prefixes (q0 ++ [n'])); [rewrite prefixes_snoc, <- Hn'; reflexivity | rewrite <- Hn'; reflexivity].
      * intros d Hd. apply in_app_or in Hd. apply in_or_app. destruct Hd as [Hd | [<- | []]]; [left; exact Hd | right; simpl; auto].
    + intros e He Heq. assert (Hin : In (e_path e) (map (app q') (prefixes s))) by (rewrite <- CB; apply in_map; exact He).
      apply in_map_iff in Hin. destruct Hin as [p [Hp Hpin]]. apply prefixes_nonempty in Hpin.
      rewrite Heq, Hz in Hp. rewrite <- (app_nil_r q') in Hp at 2. apply app_inv_head in Hp. congruence.
Qed.

(* alignStacks on two chains *)
Lemma align_chain_gen : forall q b r main S,
  map e_path main = map (app b) (prefixes q) -> map e_path S = map (app b) (prefixes r) ->
  exists pre, main = pre ++ align main S /\
    (forall d, In d pre -> In (e_path d) (map e_path S)) /\
    (forall d, In d (align main S) -> ~ In (e_path d) (map e_path S)).
Proof.
  induction q as [| x q0 IH]; intros b r main S Hm HS.
  - destruct main; [| discriminate]. exists []. simpl. repeat split; auto; intros d [].
  - destruct main as [| m mr]; [discriminate|]. simpl in Hm. inversion Hm as [[Hm1 Hm2]].
    rewrite map_map in Hm2.
    assert (Hmr : map e_path mr = map (app (b ++ [x])) (prefixes q0)).
    { rewrite Hm2. apply map_ext. intros a. rewrite <- app_assoc. reflexivity. }
    assert (Hlong : forall d, In d mr -> exists p, p <> [] /\ e_path d = (b ++ [x]) ++ p).
    { intros d Hd. assert (Hin : In (e_path d) (map (app (b ++ [x])) (prefixes q0))) by (rewrite <- Hmr; apply in_map; exact Hd).
      apply in_map_iff in Hin. destruct Hin as [p [Hp Hpin]]. exists p. split; [exact (prefixes_nonempty _ _ Hpin) | auto]. }
    destruct S as [| l lr].
    + exists []. simpl. repeat split; auto.
    + destruct r as [| y r0]; [discriminate|]. simpl in HS. inversion HS as [[HS1 HS2]]. rewrite map_map in HS2.
      assert (Hlr : map e_path lr = map (app (b ++ [y])) (prefixes r0)).
      { rewrite HS2. apply map_ext. intros a. rewrite <- app_assoc. reflexivity. }
      simpl align. destruct (path_eqb (e_path m) (e_path l)) eqn:E.
      * apply path_eqb_spec in E. rewrite Hm1, HS1 in E. apply app_inv_head in E. inversion E; subst y.
        destruct (IH (b ++ [x]) r0 mr lr Hmr Hlr) as [pre [E1 [E2 E3]]].
        exists (m :: pre). split; [simpl; rewrite <- E1; reflexivity|]. split.
        -- intros d [<- | Hd]; simpl; [left; congruence | right; apply E2; exact Hd].
        -- intros d Hd [Hh | Ht]; [| exact (E3 d Hd Ht)].
           assert (Hdm : In d mr) by (rewrite E1; apply in_or_app; right; exact Hd).
           destruct (Hlong d Hdm) as [p [Hp Hpe]]. rewrite HS1, Hpe in Hh.
           rewrite <- (app_nil_r (b ++ [x])) in Hh at 1. apply app_inv_head in Hh. congruence.
      * exists []. split; [reflexivity|]. split; [intros d []|].
        assert (Hxy : x <> y).
        { intros ->. assert (T : path_eqb (e_path m) (e_path l) = true) by (apply path_eqb_spec; congruence). congruence. }
        assert (HSp : forall p, In p (map e_path (l :: lr)) -> exists t, p = b ++ y :: t).
        { intros p [<- | Hp]; [exists []; exact HS1|]. rewrite Hlr in Hp. apply in_map_iff in Hp.
          destruct Hp as [t [<- _]]. exists t. rewrite <- app_assoc. reflexivity. }
        intros d Hd Hin. destruct (HSp _ Hin) as [t Ht].
        destruct Hd as [<- | Hd].
        -- rewrite Hm1 in Ht. apply app_inv_head in Ht. inversion Ht. congruence.
        -- destruct (Hlong d Hd) as [p [_ Hpe]]. rewrite Hpe, <- app_assoc in Ht. apply app_inv_head in Ht. simpl in Ht. inversion Ht. congruence.
Qed.

Lemma align_chain : forall q r main S, chain_of q main -> chain_of r S ->
  exists pre, main = pre ++ align main S /\
    (forall d, In d pre -> In (e_path d) (map e_path S)) /\
    (forall d, In d (align main S) -> ~ In (e_path d) (map e_path S)).
Proof.
  intros q r main S Cm CS. apply (align_chain_gen q [] r).
  - unfold chain_of in Cm. rewrite Cm. symmetry. apply map_id.
  - unfold chain_of in CS. rewrite CS. symmetry. apply map_id.
Qed.

(* in a chain every element's parent is top level or the path of an earlier element *)
Lemma chain_parent : forall q l, chain_of q l ->
  forall A x B, l = A ++ x :: B -> parent (e_path x) = [] \/ exists d, In d A /\ e_path d = parent (e_path x).
Proof.
  induction q as [| n q IH] using rev_ind; intros l C A x B E.
  - unfold chain_of in C. simpl in C. destruct l; [destruct A; discriminate | discriminate].
  - unfold chain_of in C. rewrite prefixes_snoc in C. apply map_eq_app in C. destruct C as [l0 [Z [-> [C0 CZ]]]].
    destruct Z as [| z Z]; [discriminate|]. destruct Z; [| discriminate]. simpl in CZ. inversion CZ as [Hz].
    destruct B as [| b B'] using rev_ind.
    + assert (A = l0 /\ x = z) as [-> ->] by (apply app_inj_tail; exact (eq_sym E)).
      rewrite Hz, parent_snoc. destruct (list_eq_dec string_dec q []) as [-> | Hne]; [left; reflexivity|].
      right. assert (Hin : In q (map e_path l0)) by (rewrite C0; apply prefixes_self; exact Hne).
      apply in_map_iff in Hin. destruct Hin as [d [Hd1 Hd2]]. exists d. split; auto.
    + clear IHB'. rewrite app_comm_cons, app_assoc in E. apply app_inj_tail in E. destruct E as [E _].
      exact (IH l0 C0 A x B' E).
Qed.

Lemma chain_NoDup_paths : forall q l, chain_of q l -> NoDup (map e_path l).
Proof. intros q l C. rewrite C. apply prefixes_NoDup. Qed.

(* ---- layers built by valid appends ------------------------------------------------------ *)
Inductive built : list entry -> Prop :=
| built_nil : built []
| built_snoc : forall O x, built O ->
    (forall d, In d O -> e_path d <> e_path x) ->
    (parent (e_path x) <> [] -> exists d, In d O /\ is_dir d = true /\ e_path d = parent (e_path x)) ->
    built (O ++ [x]).

Lemma snoc_split : forall A (l : list A) x pre e post, l ++ [x] = pre ++ e :: post ->
  (post = [] /\ pre = l /\ e = x) \/ (exists post', post = post' ++ [x] /\ l = pre ++ e :: post').
Proof.
  intros A l x pre e post H. destruct post as [| y post0] using rev_ind.
  - left. apply app_inj_tail in H. destruct H; subst; auto.
  - clear IHpost0. right. exists post0. rewrite app_comm_cons, app_assoc in H. apply app_inj_tail in H.
    destruct H as [H1 H2]. subst. auto.
Qed.

Lemma built_wellformed : forall O, built O -> LayerWellFormed O.
Proof.
  induction 1 as [| O x HO IH Hfresh Hpar]; intros pre e post E.
  - destruct pre; discriminate.
  - apply snoc_split in E. destruct E as [[-> [-> ->]] | [post' [-> ->]]].
    + split; auto.
    + apply (IH pre e post' eq_refl).
Qed.

Lemma wm_path : forall d f, e_path (with_mtime d f) = e_path d. Proof. reflexivity. Qed.
Lemma wm_dir : forall d f, is_dir (with_mtime d f) = is_dir d. Proof. reflexivity. Qed.
Lemma wm_kind : forall d f, e_kind (with_mtime d f) = e_kind d. Proof. reflexivity. Qed.

Lemma NoDup_map_split : forall (l : list entry) A x B d, NoDup (map e_path l) -> l = A ++ x :: B -> In d B -> e_path x <> e_path d.
Proof.
  intros l A x B d H -> Hd E. rewrite map_app in H. simpl in H. apply NoDup_remove_2 in H. apply H.
  apply in_or_app. right. rewrite E. apply in_map. exact Hd.
Qed.

(* writing the missing tail T of a chain C = pre ++ T whose head pre is already written *)
Lemma write_chain : forall f q T pre O,
  chain_of q (pre ++ T) -> built O ->
  (forall d, In d (pre ++ T) -> is_dir d = true) ->
  (forall d, In d pre -> exists o, In o O /\ is_dir o = true /\ e_path o = e_path d) ->
  (forall d, In d T -> forall o, In o O -> e_path o <> e_path d) ->
  built (O ++ map (fun d => with_mtime d f) T) /\
  (forall d, In d (pre ++ T) -> exists o, In o (O ++ map (fun d => with_mtime d f) T) /\ is_dir o = true /\ e_path o = e_path d).
Proof.
  intros f q T. induction T as [| t T' IH]; intros pre O C HB Hdirs Hw Hf.
  - simpl. rewrite !app_nil_r in *. split; auto.
  - assert (B1 : built (O ++ [with_mtime t f])).
    { constructor; auto.
      - intros d Hd. rewrite wm_path. apply Hf; simpl; auto.
      - rewrite wm_path. intros Hp. destruct (chain_parent q (pre ++ t :: T') C pre t T' eq_refl) as [Hn | [d [Hd Hdp]]]; [congruence|].
        destruct (Hw d Hd) as [o [Ho [Hod Hop]]]. exists o. repeat split; auto. congruence. }
    replace (pre ++ t :: T') with ((pre ++ [t]) ++ T') in * by (rewrite <- app_assoc; reflexivity).
    replace (O ++ map (fun d => with_mtime d f) (t :: T')) with ((O ++ [with_mtime t f]) ++ map (fun d => with_mtime d f) T')
      by (rewrite <- app_assoc; reflexivity).
    apply IH; auto.
    + intros d Hd. apply in_app_or in Hd. destruct Hd as [Hd | [<- | []]].
      * destruct (Hw d Hd) as [o [Ho R]]. exists o. split; [apply in_or_app; left; exact Ho | exact R].
      * exists (with_mtime t f). split; [apply in_or_app; right; simpl; auto|]. rewrite wm_dir, wm_path. split; auto.
        apply Hdirs. apply in_or_app. left. apply in_or_app. right. simpl; auto.
    + intros d Hd o Ho. apply in_app_or in Ho. destruct Ho as [Ho | [<- | []]].
      * apply Hf; simpl; auto.
      * rewrite wm_path. apply (NoDup_map_split ((pre ++ [t]) ++ T') pre t T' d).
        -- exact (chain_NoDup_paths q _ C).
        -- rewrite <- app_assoc. reflexivity.
        -- exact Hd.
Qed.

(* ---- the invariant ------------------------------------------------------------------------- *)
Record layer_inv (done main S O : list entry) : Prop := {
  li_chain : exists r, chain_of r S;
  li_written : forall d, In d S -> exists o, In o O /\ is_dir o = true /\ e_path o = e_path d;
  li_live : forall o, In o O -> In (e_path o) (map e_path main) -> In (e_path o) (map e_path S);
  li_origin : forall o, In o O -> exists d, In d done /\ e_path d = e_path o /\ e_kind d = e_kind o;
  li_built : built O
}.

Record chain_inv (gs : list (list string)) (st : lstate) (done : list entry) : Prop := {
  ci_main : chain_of (last_dir_path done) (s_main st);
  ci_main_in : forall d, In d (s_main st) -> In d done /\ is_dir d = true;
  ci_len_s : List.length (s_stacks st) = S (List.length gs);
  ci_len_o : List.length (s_outs st) = S (List.length gs);
  ci_layer : forall w, w < S (List.length gs) ->
     layer_inv done (s_main st) (nth w (s_stacks st) []) (nth w (s_outs st) [])
}.

Lemma filter_all : forall A (P : A -> bool) l, (forall x, In x l -> P x = true) -> filter P l = l.
Proof. induction l as [| x l IH]; intros H; simpl; auto. rewrite (H x) by (simpl; auto). rewrite IH; auto. intros; apply H; simpl; auto. Qed.

Lemma chain_step : forall gs own es done f rest st st',
  wseq es -> es = done ++ f :: rest -> chain_inv gs st done ->
  split_step gs own (Ok st) f = Ok st' -> chain_inv gs st' (done ++ [f]).
Proof.
  intros gs own es done f rest st st' W E [Cmain Hmain_in Hls Hlo Hlay] H.
  assert (Hfe : In f es) by (rewrite E; apply in_or_app; right; simpl; auto).
  pose proof (ws_nonempty es W f Hfe) as Hfne.
  destruct (path_parent_last (e_path f) Hfne) as [n Hn]. remember (parent (e_path f)) as q' eqn:Hq'.
  pose proof (wseq_fresh es done f rest W E) as Hfresh.
  (* the parent of f is top level or a prefix of the last directory *)
  assert (Hpre : q' = [] \/ exists s, last_dir_path done = q' ++ s).
  { destruct (list_eq_dec string_dec q' []) as [-> | Hne]; [left; reflexivity | right].
    subst q'. apply (preorder es done f rest W E Hne). }
  unfold split_step in H. cbn [rbind] in H.
  set (main' := if is_dir f then push_dir (s_main st) f else s_main st) in *.
  (* C : the part of the new main stack that was already on the old one *)
  assert (HC : exists C c, chain_of c C /\ (forall d, In d C -> In d (s_main st)) /\
             main' = C ++ (if is_dir f then [f] else []) /\
             chain_of (last_dir_path (done ++ [f])) main' /\
             (q' = [] \/ In q' (map e_path C))).
  { rewrite last_dir_path_snoc. unfold main'. destruct (is_dir f) eqn:D.
    - destruct (push_dir_chain (last_dir_path done) (s_main st) f q' n Cmain Hn Hpre) as [main0 [E0 [C0 I0]]].
      exists main0, q'. repeat split; auto.
      + unfold chain_of. rewrite E0, map_app, C0. simpl. rewrite Hn at 2. rewrite prefixes_snoc, <- Hn. reflexivity.
      + destruct (list_eq_dec string_dec q' []) as [-> | Hne]; [left; reflexivity | right]. rewrite C0. apply prefixes_self. exact Hne.
    - exists (s_main st), (last_dir_path done). rewrite app_nil_r. repeat split; auto.
      destruct Hpre as [-> | [s Hs]]; [left; reflexivity|].
      destruct (list_eq_dec string_dec q' []) as [-> | Hne]; [left; reflexivity | right].
      rewrite Cmain. apply in_prefixes. split; auto. exists s. exact Hs. }
  destruct HC as [C [c [CC [HCin [Emain' [Cmain' Hparent]]]]]].
  assert (HCdone : forall d, In d C -> In d done /\ is_dir d = true) by (intros d Hd; apply Hmain_in, HCin, Hd).
  assert (Hmain'_in : forall d, In d main' -> In d (done ++ [f]) /\ is_dir d = true).
  { intros d Hd. rewrite Emain' in Hd. apply in_app_or in Hd. destruct Hd as [Hd | Hd].
    - destruct (HCdone d Hd). split; auto. apply in_or_app. left. assumption.
    - destruct (is_dir f) eqn:D; [| destruct Hd]. destruct Hd as [<- | []]. split; auto. apply in_or_app. right. simpl; auto. }
  assert (Hpaths' : forall p, In p (map e_path main') -> In p (map e_path (s_main st)) \/ p = e_path f).
  { intros p Hp. rewrite Emain', map_app in Hp. apply in_app_or in Hp. destruct Hp as [Hp | Hp].
    - left. apply in_map_iff in Hp. destruct Hp as [d [<- Hd]]. apply in_map. apply HCin. exact Hd.
    - right. destruct (is_dir f); simpl in Hp; [destruct Hp as [<- | []]; reflexivity | destruct Hp]. }
  assert (W0 : exists w, w < S (List.length gs) /\
     st' = {| s_main := main'; s_stacks := upd w (fun _ => main') (s_stacks st);
              s_outs := upd w (fun o => o ++ map (fun d => with_mtime d f)
                 (filter (fun d => negb (path_eqb (e_path d) (e_path f))) (align main' (nth w (s_stacks st) []))) ++ [f]) (s_outs st) |}).
  { destruct (own (e_path f)) as [nm|].
    - destruct (writer_of nm gs 0 None) as [w|] eqn:Ew; [| discriminate]. cbn [rbind] in H. inversion H; subst.
      exists w. split; auto. apply writer_of_bound in Ew; [lia | intros; discriminate].
    - cbn [rbind] in H. inversion H; subst. exists (List.length gs). split; auto. }
  destruct W0 as [w [Hwb ->]]. clear H.
  constructor; cbn [s_main s_stacks s_outs].
  - exact Cmain'.
  - exact Hmain'_in.
  - rewrite upd_length. exact Hls.
  - rewrite upd_length. exact Hlo.
  - intros w1 Hw1. destruct (Nat.eq_dec w w1) as [<- | Hne].
    + (* the layer written to *)
      rewrite !nth_upd_eq by lia.
      destruct (Hlay w Hwb) as [[r CS] Lw Ll Lo Lb].
      set (Sw := nth w (s_stacks st) []) in *. set (Ow := nth w (s_outs st) []) in *.
      destruct (align_chain _ r main' Sw Cmain' CS) as [pre [Epre [Hpre_in Htodo]]].
      assert (HSdone : forall p, In p (map e_path Sw) -> p <> e_path f).
      { intros p Hp Heq. apply in_map_iff in Hp. destruct Hp as [d [Hd1 Hd2]].
        destruct (Lw d Hd2) as [o [Ho [_ Hop]]]. destruct (Lo o Ho) as [d' [Hd' [Hp' _]]].
        apply (Hfresh d' Hd'). congruence. }
      assert (HT : exists T0, C = pre ++ T0 /\ align main' Sw = T0 ++ (if is_dir f then [f] else [])).
      { destruct (is_dir f) eqn:D.
        - destruct (align main' Sw) as [| y T1] eqn:Ea using rev_ind.
          + exfalso. rewrite app_nil_r in Epre. rewrite Emain' in Epre.
            assert (Hfp : In f pre) by (rewrite <- Epre; apply in_or_app; right; simpl; auto).
            apply (HSdone (e_path f)); auto.
          + clear IHT1. exists T1. rewrite Emain', app_assoc in Epre. apply app_inj_tail in Epre. destruct Epre as [-> ->]. auto.
        - exists (align main' Sw). rewrite app_nil_r. split; [| reflexivity].
          rewrite app_nil_r in Emain'. rewrite <- Emain'. exact Epre. }
      destruct HT as [T0 [EC Etodo]].
      assert (HT0 : forall d, In d T0 -> In d C) by (intros d Hd; rewrite EC; apply in_or_app; right; exact Hd).
      assert (Efilter : filter (fun d => negb (path_eqb (e_path d) (e_path f))) (align main' Sw) = T0).
      { rewrite Etodo, filter_app. rewrite filter_all.
        - destruct (is_dir f); simpl; [| apply app_nil_r].
          assert (T : path_eqb (e_path f) (e_path f) = true) by (apply path_eqb_spec; reflexivity). rewrite T. simpl. apply app_nil_r.
        - intros d Hd. apply negb_true_iff. destruct (path_eqb (e_path d) (e_path f)) eqn:P; auto.
          apply path_eqb_spec in P. exfalso. destruct (HCdone d (HT0 d Hd)) as [Hdd _]. exact (Hfresh d Hdd P). }
      rewrite Efilter.
      assert (HTfresh : forall d, In d T0 -> forall o, In o Ow -> e_path o <> e_path d).
      { intros d Hd o Ho Heq. apply (Htodo d).
        - rewrite Etodo. apply in_or_app. left. exact Hd.
        - rewrite <- Heq. apply Ll; auto. rewrite Heq. apply in_map. apply HCin, HT0, Hd. }
      assert (Hprew : forall d, In d pre -> exists o, In o Ow /\ is_dir o = true /\ e_path o = e_path d).
      { intros d Hd. pose proof (Hpre_in d Hd) as Hp. apply in_map_iff in Hp. destruct Hp as [s0 [Hs1 Hs2]].
        destruct (Lw s0 Hs2) as [o [Ho [Hod Hop]]]. exists o. repeat split; auto. congruence. }
      rewrite EC in CC.
      destruct (write_chain f c T0 pre Ow CC Lb) as [B1 Wr]; auto.
      { intros d Hd. rewrite <- EC in Hd. apply HCdone. exact Hd. }
      rewrite <- EC in Wr.
      assert (B2 : built ((Ow ++ map (fun d => with_mtime d f) T0) ++ [f])).
      { constructor; auto.
        - intros d Hd. apply in_app_or in Hd. destruct Hd as [Hd | Hd].
          + destruct (Lo d Hd) as [d' [Hd' [Hp' _]]]. rewrite <- Hp'. apply Hfresh. exact Hd'.
          + apply in_map_iff in Hd. destruct Hd as [d0 [<- Hd0]]. rewrite wm_path. apply Hfresh. apply HCdone, HT0, Hd0.
        - rewrite <- Hq'. intros Hp. destruct Hparent as [-> | Hparent]; [congruence|].
          apply in_map_iff in Hparent. destruct Hparent as [d [Hd1 Hd2]]. destruct (Wr d Hd2) as [o [Ho [Hod Hop]]].
          exists o. repeat split; auto. congruence. }
      rewrite <- app_assoc in B2.
      constructor.
      * exists (last_dir_path (done ++ [f])). exact Cmain'.
      * intros d Hd. rewrite Emain' in Hd. apply in_app_or in Hd. destruct Hd as [Hd | Hd].
        -- destruct (Wr d Hd) as [o [Ho R]]. exists o. split; auto. rewrite app_assoc. apply in_or_app. left. exact Ho.
        -- destruct (is_dir f) eqn:D; [| destruct Hd]. destruct Hd as [<- | []]. exists f. repeat split; auto.
           apply in_or_app. right. apply in_or_app. right. simpl; auto.
      * intros o _ Hp. exact Hp.
      * intros o Ho. apply in_app_or in Ho. destruct Ho as [Ho | Ho].
        -- destruct (Lo o Ho) as [d [Hd R]]. exists d. split; auto. apply in_or_app. left. exact Hd.
        -- apply in_app_or in Ho. destruct Ho as [Ho | [<- | []]].
           ++ apply in_map_iff in Ho. destruct Ho as [d0 [<- Hd0]]. exists d0. rewrite wm_path, wm_kind. repeat split; auto.
              apply in_or_app. left. apply HCdone, HT0, Hd0.
           ++ exists f. repeat split; auto. apply in_or_app. right. simpl; auto.
      * exact B2.
    + (* another layer: untouched *)
      rewrite !nth_upd_neq by exact Hne.
      destruct (Hlay w1 Hw1) as [Lc Lw Ll Lo Lb]. constructor; auto.
      * intros o Ho Hp. destruct (Hpaths' _ Hp) as [Hp1 | Hp1]; [apply Ll; auto|].
        exfalso. destruct (Lo o Ho) as [d [Hd [Hpd _]]]. apply (Hfresh d Hd). congruence.
      * intros o Ho. destruct (Lo o Ho) as [d [Hd R]]. exists d. split; auto. apply in_or_app. left. exact Hd.
Qed.

(* ---- the fold, and the initial state --------------------------------------------------------- *)
Lemma split_fold_nonok : forall gs own r a, (forall st, a <> Ok st) -> fold_left (split_step gs own) r a = a.
Proof.
  induction r as [| f r IH]; intros a H; simpl; auto.
  assert (E : split_step gs own a f = a) by (destruct a; [exfalso; eapply H; reflexivity | reflexivity ..]).
  rewrite E. apply IH. exact H.
Qed.

Lemma chain_fold : forall gs own es rest done st st',
  wseq es -> es = done ++ rest -> chain_inv gs st done ->
  fold_left (split_step gs own) rest (Ok st) = Ok st' -> chain_inv gs st' es.
Proof.
  intros gs own es. induction rest as [| f r IH]; intros done st st' W E I H.
  - simpl in H. inversion H; subst. rewrite app_nil_r. exact I.
  - cbn [fold_left] in H. destruct (split_step gs own (Ok st) f) as [st1| | |] eqn:E1.
    + apply (IH (done ++ [f]) st1 st'); auto.
      * rewrite <- app_assoc. exact E.
      * exact (chain_step gs own es done f r st st1 W E I E1).
    + rewrite split_fold_nonok in H by (intros; discriminate). discriminate.
    + rewrite split_fold_nonok in H by (intros; discriminate). discriminate.
    + rewrite split_fold_nonok in H by (intros; discriminate). discriminate.
Qed.

Definition init_state (gs : list (list string)) : lstate :=
  {| s_main := []; s_stacks := repeat [] (S (List.length gs)); s_outs := repeat [] (S (List.length gs)) |}.

Lemma chain_init : forall gs, chain_inv gs (init_state gs) [].
Proof.
  intros gs. constructor; cbn [init_state s_main s_stacks s_outs].
  - reflexivity.
  - intros d [].
  - apply repeat_length.
  - apply repeat_length.
  - intros w _. rewrite !nth_repeat_nil. constructor.
    + exists []. reflexivity.
    + intros d [].
    + intros o [].
    + intros o [].
    + constructor.
Qed.

Lemma split_chain : forall gs own es layers, wseq es -> split_layers gs own es = Ok layers ->
  exists st, layers = s_outs st /\ chain_inv gs st es.
Proof.
  intros gs own es layers W H. unfold split_layers in H. fold (init_state gs) in H.
  destruct (fold_left (split_step gs own) es (Ok (init_state gs))) as [st| | |] eqn:E; try discriminate.
  cbn [rbind] in H. inversion H; subst. exists st. split; auto.
  apply (chain_fold gs own es es [] (init_state gs) st W eq_refl (chain_init gs) E).
Qed.

(* what the invariant says of the layers at the end *)
Lemma split_layers_built : forall gs own es layers, wseq es -> split_layers gs own es = Ok layers ->
  List.length layers = S (List.length gs) /\
  forall i, i < List.length layers ->
    built (nth i layers []) /\
    (forall o, In o (nth i layers []) -> exists d, In d es /\ e_path d = e_path o /\ e_kind d = e_kind o).
Proof.
  intros gs own es layers W H. destruct (split_chain gs own es layers W H) as [st [-> I]].
  destruct I as [_ _ _ Hlo Hlay]. split; auto. intros i Hi. rewrite Hlo in Hi.
  destruct (Hlay i Hi) as [_ _ _ Lo Lb]. split; auto.
Qed.

Lemma Forall_nth_all : forall A (P : A -> Prop) (l : list A) d, (forall i, i < List.length l -> P (nth i l d)) -> Forall P l.
Proof.
  intros A P l d H. apply Forall_forall. intros x Hx. apply (In_nth l x d) in Hx. destruct Hx as [i [Hi <-]]. apply H. exact Hi.
Qed.

Lemma split_layers_wellformed : forall gs own es layers, wseq es -> split_layers gs own es = Ok layers ->
  Forall LayerWellFormed layers.
Proof.
  intros gs own es layers W H. destruct (split_layers_built gs own es layers W H) as [_ Hb].
  apply (Forall_nth_all _ _ layers []). intros i Hi. apply built_wellformed. apply (Hb i Hi).
Qed.

(* ---- the walk of a tree with distinct child names is such a sequence -------------------------- *)
Lemma walk_tree_parent_closed : forall t ev p e, In e (walk_tree ev p t) -> e_path e <> p ->
  exists d, In d (walk_tree ev p t) /\ is_dir d = true /\ e_path d = parent (e_path e).
Proof.
  induction t as [m l h | m cs IH] using tree_ind'; intros ev p e H Hne.
  - exfalso. destruct (walk_tree_prefix _ _ _ _ H) as [s Hs]. simpl in H. destruct H as [<- | []].
    apply Hne. unfold file_entry.
    destruct (match h with Some q => if has_hdr ev p then Some q else None | None => None end); destruct l; reflexivity.
  - rewrite walk_tree_dir in *. destruct H as [<- | H]; [exfalso; apply Hne; reflexivity|].
    rewrite walk_forest_sorted in *. apply in_flat_map in H. destruct H as [y [Hy He]].
    destruct (list_eq_dec string_dec (e_path e) (p ++ [fst y])) as [Eq | Nq].
    + exists (dir_entry ev p m). split; [left; reflexivity|]. split; [reflexivity|]. rewrite Eq, parent_snoc. reflexivity.
    + rewrite Forall_forall in IH. assert (Hy' : In y cs) by (apply (proj1 (sort_by_name_in _ _ _)); exact Hy).
      destruct (IH y Hy' ev (p ++ [fst y]) e He Nq) as [d [Hd R]]. exists d. split; auto.
      right. apply in_flat_map. exists y. split; auto.
Qed.

Lemma walk_wseq : forall ev f, wf_names_forest f = true -> wseq (walk ev f).
Proof.
  intros ev f H. constructor.
  - apply walk_SS. exact H.
  - intros e He. unfold walk in He. rewrite walk_forest_sorted in He. apply in_flat_map in He. destruct He as [y [_ He]].
    destruct (walk_tree_prefix _ _ _ _ He) as [s Hs]. rewrite Hs. simpl. discriminate.
  - intros e He Hp. unfold walk in *. rewrite walk_forest_sorted in *. apply in_flat_map in He. destruct He as [y [Hy He]].
    simpl in He. destruct (list_eq_dec string_dec (e_path e) [fst y]) as [Eq | Nq].
    + exfalso. apply Hp. rewrite Eq. reflexivity.
    + destruct (walk_tree_parent_closed _ _ _ _ He Nq) as [d [Hd R]]. exists d. split; auto.
      apply in_flat_map. exists y. split; auto.
Qed.
