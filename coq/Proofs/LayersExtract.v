(* C10 — a path-wise reading of the reference extractor: what node sits at each
   path after extracting a list of entries (the last entry written at that
   path), and: two name-distinct forests with the same node at every path have
   the same canonical form.  Used to compare the flattened layers with the
   single layer without following the order in which children were created. *)
From Apko Require Import Base.Prelude Model.Tar Spec.TarSpec Proofs.TarProofs Proofs.TarRoundtrip Proofs.TarOrder
  Model.Layers.
From Coq Require Import Sorting.Sorted Sorting.Permutation.
Open Scope string_scope. Open Scope list_scope.

(* ---- what is at a path ---------------------------------------------------------------- *)
Inductive info := IDir (m : meta) | IFile (m : meta) (l : leaf) (h : option path).
Definition info_of (t : tree) : info :=
  match t with Dir m _ => IDir m | File m l h => IFile m l h end.
Definition at_path (F : forest) (p : path) : option info := option_map info_of (lookup F p).

Definition leafy (t : tree) : Prop := match t with Dir _ cs => cs = [] | File _ _ _ => True end.

Lemma lookup_cons2 : forall F x y r,
  lookup F (x :: y :: r) = match find_name x F with Some (Dir _ cs) => lookup cs (y :: r) | _ => None end.
Proof. reflexivity. Qed.

Lemma lookup_nil_forest : forall p, lookup [] p = None.
Proof. destruct p as [| x [| y r]]; reflexivity. Qed.

Lemma find_name_replace : forall A x y (v : A) F,
  find_name y (replace_name x v F) =
  if String.eqb y x then match find_name x F with Some _ => Some v | None => None end else find_name y F.
Proof.
  induction F as [| [z w] r IH]; simpl.
  - destruct (String.eqb y x); reflexivity.
  - destruct (String.eqb x z) eqn:E; simpl.
    + apply String.eqb_eq in E. subst z. destruct (String.eqb y x) eqn:E2; reflexivity.
    + destruct (String.eqb y z) eqn:E3.
      * apply String.eqb_eq in E3. subst z. destruct (String.eqb y x) eqn:E4; auto.
        apply String.eqb_eq in E4. subst. rewrite String.eqb_refl in E. discriminate.
      * exact IH.
Qed.

Lemma path_eqb_refl : forall p, path_eqb p p = true.
Proof. intros. apply path_eqb_spec. reflexivity. Qed.

Lemma path_eqb_cons : forall x y p q, path_eqb (x :: p) (y :: q) = String.eqb x y && path_eqb p q.
Proof. reflexivity. Qed.

Lemma parent_cons2 : forall x y (r : path), parent (x :: y :: r) = x :: parent (y :: r).
Proof. reflexivity. Qed.

(* one step of the extractor, read path-wise *)
Lemma insert_at : forall p n F, p <> [] -> leafy n ->
  (parent p = [] \/ exists m, at_path F (parent p) = Some (IDir m)) ->
  (at_path F p = None \/ (exists m, at_path F p = Some (IDir m)) /\ exists m', n = Dir m' []) ->
  exists F', insert p n F = Ok F' /\
    forall q, at_path F' q = if path_eqb q p then Some (info_of n) else at_path F q.
Proof.
  induction p as [| x r IH]; intros n F Hne Hleaf Hpar Hat; [congruence|].
  destruct r as [| y r'].
  - (* top level of this forest *)
    unfold at_path in Hat. simpl in Hat. simpl insert.
    destruct (find_name x F) as [t|] eqn:Ef.
    + destruct Hat as [Hat | [[m Hm] [m' ->]]]; [discriminate|]. simpl in Hm.
      destruct t as [m0 cs | ? ? ?]; [| discriminate].
      eexists. split; [reflexivity|]. intros q. unfold at_path.
      destruct q as [| z [| z2 q']].
      * reflexivity.
      * simpl lookup. rewrite find_name_replace, Ef. rewrite path_eqb_cons. simpl path_eqb.
        rewrite andb_true_r. destruct (String.eqb z x); reflexivity.
      * rewrite !lookup_cons2, find_name_replace, Ef. rewrite path_eqb_cons. simpl path_eqb. rewrite andb_false_r.
        destruct (String.eqb z x) eqn:Ez; [| reflexivity]. apply String.eqb_eq in Ez. subst z. rewrite Ef. reflexivity.
    + eexists. split; [reflexivity|]. intros q. unfold at_path.
      destruct q as [| z [| z2 q']].
      * reflexivity.
      * simpl lookup. rewrite find_name_app. rewrite path_eqb_cons. simpl path_eqb. rewrite andb_true_r.
        destruct (String.eqb z x) eqn:Ez.
        -- apply String.eqb_eq in Ez. subst z. rewrite Ef. simpl. rewrite String.eqb_refl. reflexivity.
        -- destruct (find_name z F); [reflexivity|]. simpl. rewrite Ez. reflexivity.
      * rewrite !lookup_cons2, find_name_app. rewrite path_eqb_cons. simpl path_eqb. rewrite andb_false_r.
        destruct (find_name z F) as [t|] eqn:Ez; [reflexivity|]. simpl.
        destruct (String.eqb z x); [| reflexivity].
        destruct n as [m cs | ? ? ?]; [| reflexivity]. simpl in Hleaf. subst cs. destruct q'; reflexivity.
  - (* below a directory *)
    rewrite parent_cons2 in Hpar. destruct Hpar as [Hpar | [mp Hpar]]; [discriminate|].
    assert (Hd : exists m0 cs, find_name x F = Some (Dir m0 cs) /\
               (parent (y :: r') = [] \/ exists m, at_path cs (parent (y :: r')) = Some (IDir m))).
    { unfold at_path in Hpar. destruct (parent (y :: r')) as [| y2 pr] eqn:Ep.
      - simpl in Hpar. destruct (find_name x F) as [[m0 cs | ? ? ?]|]; try discriminate. exists m0, cs. auto.
      - rewrite lookup_cons2 in Hpar. destruct (find_name x F) as [[m0 cs | ? ? ?]|]; try discriminate.
        exists m0, cs. split; auto. right. exists mp. exact Hpar. }
    destruct Hd as [m0 [cs [Ef Hpar']]].
    assert (Hat' : at_path cs (y :: r') = None \/ (exists m, at_path cs (y :: r') = Some (IDir m)) /\ exists m', n = Dir m' []).
    { unfold at_path in *. rewrite lookup_cons2, Ef in Hat. exact Hat. }
    destruct (IH n cs ltac:(discriminate) Hleaf Hpar' Hat') as [cs' [Hins Hq]].
    exists (replace_name x (Dir m0 cs') F). split.
    + change (insert (x :: y :: r') n F) with
        (match find_name x F with Some (Dir m cs) => do cs' <- insert (y :: r') n cs; Ok (replace_name x (Dir m cs') F) | _ => Err end).
      rewrite Ef, Hins. reflexivity.
    + intros q. destruct q as [| z [| z2 q']].
      * reflexivity.
      * unfold at_path. simpl lookup. rewrite find_name_replace, Ef. rewrite path_eqb_cons. simpl path_eqb. rewrite andb_false_r.
        destruct (String.eqb z x) eqn:Ez; [| reflexivity]. apply String.eqb_eq in Ez. subst z. rewrite Ef. reflexivity.
      * unfold at_path. rewrite !lookup_cons2, find_name_replace, Ef. rewrite path_eqb_cons.
        destruct (String.eqb z x) eqn:Ez; simpl andb; [| reflexivity].
        apply String.eqb_eq in Ez. subst z. rewrite Ef. exact (Hq (z2 :: q')).
Qed.

(* ---- the extractor keeps child names distinct -------------------------------------------- *)
Lemma map_fst_replace : forall A x (v : A) F, map fst (replace_name x v F) = map fst F.
Proof.
  induction F as [| [y w] r IH]; simpl; auto. destruct (String.eqb x y); simpl; [reflexivity | rewrite IH; reflexivity].
Qed.

Lemma forallb_replace : forall (P : string * tree -> bool) x v F,
  forallb P F = true -> (forall y, P (y, v) = true) -> forallb P (replace_name x v F) = true.
Proof.
  induction F as [| [y w] r IH]; intros H Hv; simpl in *; auto.
  apply andb_true_iff in H. destruct H as [H1 H2].
  destruct (String.eqb x y); simpl; [rewrite Hv, H2; reflexivity | rewrite H1, IH; auto].
Qed.

Lemma find_name_in : forall A x (v : A) F, find_name x F = Some v -> In (x, v) F.
Proof.
  induction F as [| [y w] r IH]; simpl; intros H; [discriminate|].
  destruct (String.eqb x y) eqn:E; [apply String.eqb_eq in E; inversion H; subst; auto | right; auto].
Qed.

Lemma in_find_name : forall A x (v : A) F, NoDup (map fst F) -> In (x, v) F -> find_name x F = Some v.
Proof.
  induction F as [| [y w] r IH]; simpl; intros Hnd H; [contradiction|]. inversion Hnd; subst.
  destruct H as [H | H].
  - inversion H; subst. rewrite String.eqb_refl. reflexivity.
  - destruct (String.eqb x y) eqn:E; [| apply IH; auto]. apply String.eqb_eq in E. subst y.
    exfalso. apply H2. apply (in_map fst) in H. exact H.
Qed.

Lemma NoDup_snoc : forall A (l : list A) x, NoDup l -> ~ In x l -> NoDup (l ++ [x]).
Proof.
  induction l as [| y r IH]; intros x Hnd Hx; simpl.
  - constructor; auto.
  - inversion Hnd; subst. constructor.
    + intros Hin. apply in_app_or in Hin. destruct Hin as [Hin | [-> | []]]; [contradiction | apply Hx; simpl; auto].
    + apply IH; auto. intros Hin. apply Hx. simpl; auto.
Qed.

Lemma wf_names_leafy : forall n, leafy n -> wf_names n = true.
Proof. intros [m cs | m l h] H; simpl in *; [subst; reflexivity | reflexivity]. Qed.

Lemma insert_wf : forall p n F F', wf_names n = true -> wf_names_forest F = true -> insert p n F = Ok F' ->
  wf_names_forest F' = true.
Proof.
  induction p as [| x r IH]; intros n F F' Hn HF H; [discriminate|].
  unfold wf_names_forest in HF. apply andb_true_iff in HF. destruct HF as [H1 H2].
  destruct r as [| y r'].
  - simpl in H. destruct (find_name x F) as [t|] eqn:Ef.
    + destruct t as [m cs | ? ? ?]; [| discriminate]. destruct n as [m' cs' | ? ? ?]; [| discriminate]. inversion H; subst.
      unfold wf_names_forest. rewrite map_fst_replace, H1. simpl. apply forallb_replace; auto.
      intros y0. simpl. apply find_name_in in Ef. rewrite forallb_forall in H2. exact (H2 _ Ef).
    + inversion H; subst. unfold wf_names_forest. rewrite map_app, forallb_app. simpl. rewrite H2, Hn. simpl.
      rewrite andb_true_r. apply nodupb_spec. apply nodupb_spec in H1.
      simpl. apply NoDup_snoc; auto. apply find_name_none_notin. exact Ef.
  - change (insert (x :: y :: r') n F) with
      (match find_name x F with Some (Dir m cs) => do cs' <- insert (y :: r') n cs; Ok (replace_name x (Dir m cs') F) | _ => Err end) in H.
    destruct (find_name x F) as [[m cs | ? ? ?]|] eqn:Ef; try discriminate.
    destruct (insert (y :: r') n cs) as [cs'| | |] eqn:Ei; try discriminate. cbn [rbind] in H. inversion H; subst.
    apply find_name_in in Ef. rewrite forallb_forall in H2. pose proof (H2 _ Ef) as Hc. simpl in Hc.
    unfold wf_names_forest. rewrite map_fst_replace, H1. simpl. apply forallb_replace.
    + apply forallb_forall. exact H2.
    + intros y0. simpl. exact (IH n cs cs' Hn Hc Ei).
Qed.

(* ---- forests with the same node at every path have the same canonical form ----------------- *)
Lemma SS_perm_eq : forall A (l1 l2 : list (string * A)),
  StronglySorted by_name l1 -> StronglySorted by_name l2 -> Permutation l1 l2 -> l1 = l2.
Proof.
  induction l1 as [| a l1 IH]; intros l2 S1 S2 P.
  - apply Permutation_nil in P. auto.
  - destruct l2 as [| b l2]; [apply Permutation_sym, Permutation_nil in P; discriminate|].
    inversion S1 as [| ? ? S1' F1]; inversion S2 as [| ? ? S2' F2]; subst.
    assert (Hab : a = b).
    { assert (Ha : In a (b :: l2)) by (eapply Permutation_in; [exact P | simpl; auto]).
      assert (Hb : In b (a :: l1)) by (eapply Permutation_in; [apply Permutation_sym; exact P | simpl; auto]).
      destruct Ha as [Ha | Ha]; auto. destruct Hb as [Hb | Hb]; auto.
      rewrite Forall_forall in F1, F2. pose proof (F1 _ Hb) as L1. pose proof (F2 _ Ha) as L2. unfold by_name in *.
      exfalso. exact (slt_irrefl _ (slt_trans _ _ _ L1 L2)). }
    subst b. f_equal. apply IH; auto. eapply Permutation_cons_inv; eauto.
Qed.

Definition cpair (nc : string * tree) : string * tree := let (n, c) := nc in (n, canon c).

Lemma map_fst_cpair : forall F, map fst (map cpair F) = map fst F.
Proof. intros. rewrite map_map. apply map_ext. intros [n c]. reflexivity. Qed.

Lemma in_cpair : forall F x c, NoDup (map fst F) ->
  (In (x, c) (map cpair F) <-> option_map canon (find_name x F) = Some c).
Proof.
  intros F x c Hnd. split.
  - intros H. apply in_map_iff in H. destruct H as [[y t] [E Hin]]. simpl in E. inversion E; subst.
    rewrite (in_find_name _ _ _ _ Hnd Hin). reflexivity.
  - intros H. destruct (find_name x F) as [t|] eqn:Ef; [| discriminate]. simpl in H. inversion H; subst.
    apply find_name_in in Ef. apply in_map_iff. exists (x, t). split; auto.
Qed.

Lemma NoDup_of_fst : forall A (l : list (string * A)), NoDup (map fst l) -> NoDup l.
Proof.
  induction l as [| a l IH]; intros H; [constructor|]. simpl in H. inversion H; subst. constructor; auto.
  intros Hin. apply H2. apply in_map. exact Hin.
Qed.

Lemma forest_ext : forall F1 F2, NoDup (map fst F1) -> NoDup (map fst F2) ->
  (forall x, option_map canon (find_name x F1) = option_map canon (find_name x F2)) ->
  canon_forest F1 = canon_forest F2.
Proof.
  intros F1 F2 N1 N2 H. unfold canon_forest. fold cpair. apply SS_perm_eq.
  - apply sort_by_name_SS. rewrite map_fst_cpair. exact N1.
  - apply sort_by_name_SS. rewrite map_fst_cpair. exact N2.
  - eapply perm_trans; [apply Permutation_sym, sort_by_name_perm|]. eapply perm_trans; [| apply sort_by_name_perm].
    apply NoDup_Permutation.
    + apply NoDup_of_fst. rewrite map_fst_cpair. exact N1.
    + apply NoDup_of_fst. rewrite map_fst_cpair. exact N2.
    + intros [x c]. rewrite (in_cpair F1 x c N1), (in_cpair F2 x c N2), H. tauto.
Qed.

Definition kids (t : tree) : forest := match t with Dir _ cs => cs | File _ _ _ => [] end.

Lemma tree_ext : forall t t2, wf_names t = true -> wf_names t2 = true -> info_of t = info_of t2 ->
  (forall p, at_path (kids t) p = at_path (kids t2) p) -> canon t = canon t2.
Proof.
  induction t as [m l h | m cs IH] using tree_ind'; intros t2 W1 W2 Hi Hk.
  - destruct t2; simpl in Hi; inversion Hi; subst. reflexivity.
  - destruct t2 as [m2 cs2 | ? ? ?]; simpl in Hi; inversion Hi; subst m2. clear Hi.
    rewrite !canon_dir. f_equal. simpl kids in Hk.
    destruct (wf_names_dir _ _ W1) as [N1 C1]. destruct (wf_names_dir _ _ W2) as [N2 C2].
    apply forest_ext; auto. intros x.
    pose proof (Hk [x]) as Hx. unfold at_path in Hx. simpl in Hx.
    destruct (find_name x cs) as [t1|] eqn:E1; destruct (find_name x cs2) as [t2|] eqn:E2; simpl in Hx; try discriminate; auto.
    simpl. f_equal. rewrite Forall_forall in IH.
    pose proof (find_name_in _ _ _ _ E1) as I1. pose proof (find_name_in _ _ _ _ E2) as I2.
    apply (IH (x, t1) I1 t2).
    + exact (C1 _ I1).
    + exact (C2 _ I2).
    + inversion Hx. reflexivity.
    + intros p. destruct p as [| y r]; [reflexivity|].
      pose proof (Hk (x :: y :: r)) as Hp. unfold at_path in Hp. rewrite !lookup_cons2, E1, E2 in Hp.
      inversion Hx as [Hinfo]. unfold at_path.
      destruct t1 as [? k1 | ? ? ?]; destruct t2 as [? k2 | ? ? ?]; simpl in Hinfo; try discriminate; simpl kids.
      * exact Hp.
      * rewrite lookup_nil_forest. reflexivity.
Qed.

Lemma canon_forest_ext : forall F1 F2, wf_names_forest F1 = true -> wf_names_forest F2 = true ->
  (forall p, at_path F1 p = at_path F2 p) -> canon_forest F1 = canon_forest F2.
Proof.
  intros F1 F2 W1 W2 H.
  pose (m0 := {| m_mode := 0%N; m_uid := 0%Z; m_gid := 0%Z; m_mtime := 0%Z; m_mnsec := 0%N; m_xattrs := [] |}).
  assert (E : canon (Dir m0 F1) = canon (Dir m0 F2)) by (apply tree_ext; auto).
  rewrite !canon_dir in E. inversion E. reflexivity.
Qed.

(* ---- sequences the extractor accepts, and what it leaves at each path ------------------------ *)
Definition einfo (e : entry) : info :=
  match e_kind e with
  | KDir => IDir (meta_of e)
  | KReg => IFile (meta_of e) (LReg (e_cid e) (e_size e)) None
  | KSym => IFile (meta_of e) (LSym (e_link e)) None
  | KChr => IFile (meta_of e) (LChr (e_devmaj e) (e_devmin e)) None
  | KLink => IFile (meta_of e) (LSym "") None      (* not used: link entries are excluded below *)
  end.

(* the last entry written at path p *)
Definition last_at (L : list entry) (p : path) : option entry :=
  find (fun e => path_eqb (e_path e) p) (rev L).

(* every entry below the top level comes after a directory entry for its parent;
   a path is written again only by a directory entry over a directory entry; no
   hard-link entries *)
Inductive valid : list entry -> Prop :=
| valid_nil : valid []
| valid_snoc : forall L x, valid L -> e_path x <> [] -> e_kind x <> KLink ->
    (parent (e_path x) <> [] -> exists d, In d L /\ is_dir d = true /\ e_path d = parent (e_path x)) ->
    (forall d, In d L -> e_path d = e_path x -> is_dir d = true /\ is_dir x = true) ->
    valid (L ++ [x]).

Lemma valid_same_dirness : forall L, valid L ->
  forall d d', In d L -> In d' L -> e_path d = e_path d' -> is_dir d = is_dir d'.
Proof.
  induction 1 as [| L x HL IH Hne Hk Hpar Hdup]; intros d d' Hd Hd' E; [destruct Hd|].
  apply in_app_or in Hd. apply in_app_or in Hd'.
  destruct Hd as [Hd | [<- | []]]; destruct Hd' as [Hd' | [<- | []]]; auto.
  - destruct (Hdup d Hd E) as [A B]. congruence.
  - destruct (Hdup d' Hd' (eq_sym E)) as [A B]. congruence.
Qed.

Lemma find_exists : forall A (P : A -> bool) l x, In x l -> P x = true -> exists y, find P l = Some y.
Proof.
  induction l as [| a l IH]; intros x Hx HP; [destruct Hx|]. simpl. destruct (P a) eqn:E; [eexists; reflexivity|].
  destruct Hx as [-> | Hx]; [congruence | eapply IH; eauto].
Qed.

Lemma last_at_some : forall L p e, last_at L p = Some e -> In e L /\ e_path e = p.
Proof.
  intros L p e H. unfold last_at in H. apply find_some in H. destruct H as [H1 H2]. split.
  - apply in_rev. exact H1.
  - apply path_eqb_spec. exact H2.
Qed.

Lemma last_at_exists : forall L p d, In d L -> e_path d = p -> exists e, last_at L p = Some e.
Proof.
  intros L p d Hd E. unfold last_at. apply (find_exists _ _ _ d); [apply in_rev in Hd; exact Hd | apply path_eqb_spec; exact E].
Qed.

Lemma last_at_none : forall L p, last_at L p = None -> forall d, In d L -> e_path d <> p.
Proof.
  intros L p H d Hd E. destruct (last_at_exists L p d Hd E) as [e He]. congruence.
Qed.

Lemma last_at_snoc : forall L x p, last_at (L ++ [x]) p = if path_eqb p (e_path x) then Some x else last_at L p.
Proof.
  intros. unfold last_at. rewrite rev_unit. simpl.
  assert (E : path_eqb (e_path x) p = path_eqb p (e_path x)).
  { destruct (path_eqb (e_path x) p) eqn:A; destruct (path_eqb p (e_path x)) eqn:B; auto.
    - apply path_eqb_spec in A. subst. rewrite path_eqb_refl in B. discriminate.
    - apply path_eqb_spec in B. subst. rewrite path_eqb_refl in A. discriminate. }
  rewrite E. reflexivity.
Qed.

Lemma is_dir_kind : forall e, is_dir e = true -> e_kind e = KDir.
Proof. intros e H. unfold is_dir in H. destruct (e_kind e); try discriminate. reflexivity. Qed.

Lemma payload_plain_info : forall F x, e_kind x <> KLink ->
  exists n, payload_of F x = Ok n /\ leafy n /\ info_of n = einfo x /\ (is_dir x = true -> n = Dir (meta_of x) []).
Proof.
  intros F x Hk. unfold payload_of, einfo, is_dir. destruct (e_kind x); try congruence;
    (eexists; split; [reflexivity|]; split; [exact I || reflexivity|]; split; [reflexivity|]; intros; (reflexivity || discriminate)).
Qed.

Lemma extract_snoc : forall L x, extract (L ++ [x]) = extract_step (extract L) x.
Proof. intros. unfold extract, extract_from. rewrite fold_left_app. reflexivity. Qed.

Theorem extract_valid : forall L, valid L ->
  exists F, extract L = Ok F /\ wf_names_forest F = true /\
    forall p, at_path F p = option_map einfo (last_at L p).
Proof.
  induction 1 as [| L x HL IH Hne Hk Hpar Hdup].
  - exists []. split; [reflexivity|]. split; [reflexivity|]. intros p. unfold at_path. rewrite lookup_nil_forest. reflexivity.
  - destruct IH as [F [EF [WF AF]]]. rewrite extract_snoc, EF. unfold extract_step. cbn [rbind].
    destruct (payload_plain_info F x Hk) as [n [Pn [Ln [In_ Dn]]]]. rewrite Pn. cbn [rbind].
    assert (C1 : parent (e_path x) = [] \/ exists m, at_path F (parent (e_path x)) = Some (IDir m)).
    { destruct (list_eq_dec string_dec (parent (e_path x)) []) as [E0 | N0]; [left; exact E0 | right].
      destruct (Hpar N0) as [d [Hd [Dd Pd]]]. rewrite AF.
      destruct (last_at_exists L _ d Hd Pd) as [e He]. rewrite He. simpl.
      destruct (last_at_some _ _ _ He) as [Hein Hep].
      assert (De : is_dir e = true) by (rewrite <- Dd; apply (valid_same_dirness L HL); auto; congruence).
      unfold einfo. rewrite (is_dir_kind e De). eexists. reflexivity. }
    assert (C2 : at_path F (e_path x) = None \/ (exists m, at_path F (e_path x) = Some (IDir m)) /\ exists m', n = Dir m' []).
    { rewrite AF. destruct (last_at L (e_path x)) as [e|] eqn:He; [right | left; reflexivity].
      destruct (last_at_some _ _ _ He) as [Hein Hep]. destruct (Hdup e Hein Hep) as [De Dx]. split.
      - simpl. unfold einfo. rewrite (is_dir_kind e De). eexists. reflexivity.
      - exists (meta_of x). apply Dn. exact Dx. }
    destruct (insert_at (e_path x) n F Hne Ln C1 C2) as [F' [Ins Q]].
    exists F'. split; [exact Ins|]. split.
    + apply (insert_wf (e_path x) n F F'); auto. apply wf_names_leafy. exact Ln.
    + intros p. rewrite Q, last_at_snoc. destruct (path_eqb p (e_path x)); [simpl; rewrite In_; reflexivity | apply AF].
Qed.

(* two accepted sequences with the same last entry at every path extract to the same tree *)
Theorem extract_same : forall L1 L2, valid L1 -> valid L2 ->
  (forall p, option_map einfo (last_at L1 p) = option_map einfo (last_at L2 p)) ->
  exists a b, extract L1 = Ok a /\ extract L2 = Ok b /\ canon_forest a = canon_forest b.
Proof.
  intros L1 L2 V1 V2 H. destruct (extract_valid L1 V1) as [a [Ea [Wa Aa]]]. destruct (extract_valid L2 V2) as [b [Eb [Wb Ab]]].
  exists a, b. split; auto. split; auto. apply canon_forest_ext; auto. intros p. rewrite Aa, Ab. apply H.
Qed.
