(* C10 — applying the layers of splitLayers in order gives the tree of the single
   layer: the concatenated layers are a sequence the reference extractor
   accepts, and the last entry they write at every path is the entry of the
   single-layer walk (directories are re-emitted in package layers with a
   file's mtime, but the top layer comes last and carries every directory with
   its true metadata). *)
From Apko Require Import Base.Prelude Model.Tar Spec.TarSpec Proofs.TarProofs Proofs.TarRoundtrip Proofs.TarOrder
  Model.Layers Spec.LayersSpec Proofs.LayersProofs Proofs.LayersChain Proofs.LayersExtract.
From Coq Require Import Sorting.Sorted Sorting.Permutation.
Open Scope string_scope. Open Scope list_scope.

(* ---- facts about the walk sequence ------------------------------------------------------ *)
Lemma wseq_path_inj : forall es a b, wseq es -> In a es -> In b es -> e_path a = e_path b -> a = b.
Proof.
  intros es a b W Ha Hb E. apply in_split in Ha. destruct Ha as [l1 [l2 Es]].
  pose proof (ws_sorted es W) as S. rewrite Es in S. apply SS_split_lt in S. destruct S as [S1 S2].
  rewrite Es in Hb. apply in_app_or in Hb. destruct Hb as [Hb | [Hb | Hb]]; auto.
  - exfalso. specialize (S1 b Hb). unfold entry_lt in S1. rewrite E in S1. exact (path_lt_irrefl _ S1).
  - exfalso. specialize (S2 b Hb). unfold entry_lt in S2. rewrite E in S2. exact (path_lt_irrefl _ S2).
Qed.

Lemma wseq_parent_before : forall es done f rest, wseq es -> es = done ++ f :: rest -> parent (e_path f) <> [] ->
  exists d, In d done /\ is_dir d = true /\ e_path d = parent (e_path f).
Proof.
  intros es done f rest W E Hp.
  assert (Hf : In f es) by (rewrite E; apply in_or_app; right; simpl; auto).
  destruct (ws_parents es W f Hf Hp) as [d [Hd [Hdir Hpath]]].
  destruct (path_parent_last (e_path f) (ws_nonempty es W f Hf)) as [n Hn].
  assert (Hlt : path_lt (e_path d) (e_path f)).
  { rewrite Hpath. remember (parent (e_path f)) as q. rewrite Hn. apply path_lt_prefix. }
  exists d. split; auto.
  rewrite E in Hd. apply in_app_or in Hd. destruct Hd as [Hd | [<- | Hd]]; auto.
  - exfalso. exact (path_lt_irrefl _ Hlt).
  - exfalso. pose proof (ws_sorted es W) as S. rewrite E in S. apply SS_split_lt in S. destruct S as [_ S].
    specialize (S d Hd). unfold entry_lt in S. exact (path_lt_irrefl _ (path_lt_trans _ _ _ Hlt S)).
Qed.

Lemma wseq_valid_prefix : forall es, wseq es -> (forall e, In e es -> e_kind e <> KLink) ->
  forall done rest, es = done ++ rest -> valid done.
Proof.
  intros es W Hk. induction done as [| x d' IH] using rev_ind; intros rest E; [constructor|].
  rewrite <- app_assoc in E. simpl in E.
  assert (Hx : In x es) by (rewrite E; apply in_or_app; right; simpl; auto).
  constructor.
  - exact (IH (x :: rest) E).
  - exact (ws_nonempty es W x Hx).
  - exact (Hk x Hx).
  - intros Hp. exact (wseq_parent_before es d' x rest W E Hp).
  - intros d Hd Heq. exfalso. exact (wseq_fresh es d' x rest W E d Hd Heq).
Qed.

Lemma wseq_valid : forall es, wseq es -> (forall e, In e es -> e_kind e <> KLink) -> valid es.
Proof. intros es W Hk. apply (wseq_valid_prefix es W Hk es []). rewrite app_nil_r. reflexivity. Qed.

(* ---- built layers, one after the other ---------------------------------------------------- *)
Lemma built_path_inj : forall O, built O -> forall a b, In a O -> In b O -> e_path a = e_path b -> a = b.
Proof.
  induction 1 as [| O x HO IH Hfresh Hpar]; intros a b Ha Hb E; [destruct Ha|].
  apply in_app_or in Ha. apply in_app_or in Hb.
  destruct Ha as [Ha | [<- | []]]; destruct Hb as [Hb | [<- | []]]; auto.
  - exfalso. exact (Hfresh a Ha E).
  - exfalso. exact (Hfresh b Hb (eq_sym E)).
Qed.

Lemma valid_app_built : forall A B, valid A -> built B ->
  (forall b, In b B -> e_path b <> [] /\ e_kind b <> KLink) ->
  (forall a b, In a A -> In b B -> e_path a = e_path b -> is_dir a = true /\ is_dir b = true) ->
  valid (A ++ B).
Proof.
  intros A B VA HB. induction HB as [| O x HO IH Hfresh Hpar]; intros Hpl Hcross.
  - rewrite app_nil_r. exact VA.
  - rewrite app_assoc.
    assert (Hx : In x (O ++ [x])) by (apply in_or_app; right; simpl; auto).
    destruct (Hpl x Hx) as [Hne Hk]. constructor; auto.
    + apply IH.
      * intros b Hb. apply Hpl. apply in_or_app. left. exact Hb.
      * intros a b Ha Hb. apply Hcross; auto. apply in_or_app. left. exact Hb.
    + intros Hp. destruct (Hpar Hp) as [d [Hd R]]. exists d. split; auto. apply in_or_app. right. exact Hd.
    + intros d Hd E. apply in_app_or in Hd. destruct Hd as [Hd | Hd].
      * apply Hcross; auto.
      * exfalso. exact (Hfresh d Hd E).
Qed.

Lemma in_concat_nth : forall (ls : list (list entry)) a, In a (List.concat ls) ->
  exists i, i < List.length ls /\ In a (nth i ls []).
Proof.
  intros ls a H. apply in_concat in H. destruct H as [l [Hl Ha]].
  apply (In_nth ls l []) in Hl. destruct Hl as [i [Hi E]]. exists i. split; auto. rewrite E. exact Ha.
Qed.

Lemma valid_concat : forall ls : list (list entry),
  (forall i, i < List.length ls -> built (nth i ls [])) ->
  (forall i b, In b (nth i ls []) -> e_path b <> [] /\ e_kind b <> KLink) ->
  (forall i j a b, i < j -> In a (nth i ls []) -> In b (nth j ls []) -> e_path a = e_path b ->
     is_dir a = true /\ is_dir b = true) ->
  valid (List.concat ls).
Proof.
  induction ls as [| l ls IH] using rev_ind; intros Hb Hpl Hcross; [constructor|].
  rewrite concat_app. simpl. rewrite app_nil_r.
  assert (Hn : forall i, i < List.length ls -> nth i (ls ++ [l]) [] = nth i ls []) by (intros; apply app_nth1; auto).
  assert (Hl : nth (List.length ls) (ls ++ [l]) [] = l) by (rewrite app_nth2, Nat.sub_diag by lia; reflexivity).
  apply valid_app_built.
  - apply IH.
    + intros i Hi. rewrite <- Hn by exact Hi. apply Hb. rewrite app_length. simpl. lia.
    + intros i b Hin. destruct (Nat.lt_ge_cases i (List.length ls)) as [Hi | Hi].
      * apply (Hpl i). rewrite Hn by exact Hi. exact Hin.
      * rewrite nth_overflow in Hin by exact Hi. destruct Hin.
    + intros i j a b Hij Ha Hbn.
      destruct (Nat.lt_ge_cases j (List.length ls)) as [Hj | Hj]; [| rewrite nth_overflow in Hbn by exact Hj; destruct Hbn].
      apply (Hcross i j); auto; rewrite Hn by lia; assumption.
  - rewrite <- Hl. apply Hb. rewrite app_length. simpl. lia.
  - intros b Hin. apply (Hpl (List.length ls)). rewrite Hl. exact Hin.
  - intros a b Ha Hbn. destruct (in_concat_nth ls a Ha) as [i [Hi Hai]].
    apply (Hcross i (List.length ls)); auto; [rewrite Hn by exact Hi; exact Hai | rewrite Hl; exact Hbn].
Qed.

(* ---- the writer of every entry exists when splitLayers returns ------------------------------ *)
Lemma split_step_writer : forall gs own st f st', split_step gs own (Ok st) f = Ok st' ->
  exists w, writer_index gs own (e_path f) = Some w /\ w < S (List.length gs).
Proof.
  intros gs own st f st' H. unfold split_step in H. cbn [rbind] in H. unfold writer_index.
  destruct (own (e_path f)) as [nm|].
  - destruct (writer_of nm gs 0 None) as [w|] eqn:Ew; [| discriminate]. exists w. split; auto.
    apply writer_of_bound in Ew; [lia | intros; discriminate].
  - exists (List.length gs). split; auto.
Qed.

Lemma split_fold_writer : forall gs own es st st', fold_left (split_step gs own) es (Ok st) = Ok st' ->
  forall e, In e es -> exists w, writer_index gs own (e_path e) = Some w /\ w < S (List.length gs).
Proof.
  induction es as [| f r IH]; intros st st' H e He; [destruct He|].
  cbn [fold_left] in H. destruct (split_step gs own (Ok st) f) as [st1| | |] eqn:E1;
    try (rewrite split_fold_nonok in H by (intros; discriminate); discriminate).
  destruct He as [<- | He].
  - exact (split_step_writer gs own st f st1 E1).
  - exact (IH st1 st' H e He).
Qed.

Lemma split_layers_writer : forall gs own es layers, split_layers gs own es = Ok layers ->
  forall e, In e es -> exists w, assigned gs own w e = true /\ w < S (List.length gs).
Proof.
  intros gs own es layers H e He. unfold split_layers in H.
  destruct (fold_left (split_step gs own) es _) as [st| | |] eqn:E; try discriminate.
  destruct (split_fold_writer gs own es _ st E e He) as [w [Hw Hb]]. exists w. split; auto.
  unfold assigned. rewrite Hw. simpl. apply Nat.eqb_refl.
Qed.

Lemma assigned_fun : forall gs own i j e, assigned gs own i e = true -> assigned gs own j e = true -> i = j.
Proof.
  intros gs own i j e Hi Hj. unfold assigned in *. destruct (writer_index gs own (e_path e)) as [w|]; simpl in *; [| discriminate].
  apply Nat.eqb_eq in Hi. apply Nat.eqb_eq in Hj. congruence.
Qed.

(* ---- what the layers contain ------------------------------------------------------------------ *)
Section Flatten.
  Variables (gs : list (list string)) (own : path -> option string) (es : list entry) (layers : list (list entry)).
  Hypothesis W : wseq es.
  Hypothesis Hsplit : split_layers gs own es = Ok layers.

  Let n := List.length gs.

  Lemma fl_len : List.length layers = S n.
  Proof. exact (proj1 (split_each_file_once gs own es layers Hsplit)). Qed.

  Lemma fl_built : forall i, i < S n -> built (nth i layers []).
  Proof.
    intros i Hi. destruct (split_layers_built gs own es layers W Hsplit) as [Hl Hb]. apply Hb. rewrite Hl. exact Hi.
  Qed.

  Lemma fl_origin : forall i o, In o (nth i layers []) -> exists d, In d es /\ e_path d = e_path o /\ e_kind d = e_kind o.
  Proof.
    intros i o Ho. destruct (split_layers_built gs own es layers W Hsplit) as [Hl Hb].
    destruct (Nat.lt_ge_cases i (List.length layers)) as [Hi | Hi]; [| rewrite nth_overflow in Ho by exact Hi; destruct Ho].
    exact (proj2 (Hb i Hi) o Ho).
  Qed.

  Lemma fl_nondir : forall i o, In o (nth i layers []) -> nondir o = true -> In o es /\ assigned gs own i o = true.
  Proof.
    intros i o Ho Hn. destruct (split_each_file_once gs own es layers Hsplit) as [_ [Hf _]].
    assert (G : In o (filter nondir (nth i layers []))) by (apply filter_In; auto).
    rewrite Hf in G. apply filter_In in G. destruct G as [G1 G2]. apply andb_true_iff in G2. tauto.
  Qed.

  Lemma fl_own : forall i e, In e es -> assigned gs own i e = true -> In e (nth i layers []).
  Proof. exact (proj2 (proj2 (split_each_file_once gs own es layers Hsplit))). Qed.

  Lemma kind_nondir : forall a b, e_kind a = e_kind b -> nondir a = nondir b.
  Proof. intros a b E. unfold nondir, is_dir. rewrite E. reflexivity. Qed.

  (* an entry of a layer with the path of a walk entry has that entry's kind;
     a non-directory is that very entry, in its writer's layer *)
  Lemma fl_same_path : forall i o e, In o (nth i layers []) -> In e es -> e_path o = e_path e ->
    e_kind o = e_kind e /\ (nondir e = true -> o = e /\ assigned gs own i e = true).
  Proof.
    intros i o e Ho He E. destruct (fl_origin i o Ho) as [d [Hd [Pd Kd]]].
    assert (d = e) by (apply (wseq_path_inj es d e W Hd He); congruence). subst d.
    split; [congruence|]. intros Hn.
    assert (Hno : nondir o = true) by (rewrite <- Hn; apply kind_nondir; congruence).
    destruct (fl_nondir i o Ho Hno) as [Hoe Ha].
    assert (o = e) by (apply (wseq_path_inj es o e W Hoe He E)). subst o. auto.
  Qed.

  Lemma fl_plain : (forall e, In e es -> e_kind e <> KLink) ->
    forall i b, In b (nth i layers []) -> e_path b <> [] /\ e_kind b <> KLink.
  Proof.
    intros Hk i b Hb. destruct (fl_origin i b Hb) as [d [Hd [Pd Kd]]]. split.
    - rewrite <- Pd. exact (ws_nonempty es W d Hd).
    - rewrite <- Kd. exact (Hk d Hd).
  Qed.

  Lemma fl_cross : forall i j a b, i <> j -> In a (nth i layers []) -> In b (nth j layers []) -> e_path a = e_path b ->
    is_dir a = true /\ is_dir b = true.
  Proof.
    intros i j a b Hij Ha Hb E. destruct (fl_origin i a Ha) as [d [Hd [Pd Kd]]].
    destruct (fl_same_path i a d Ha Hd (eq_sym Pd)) as [Ka Na].
    destruct (fl_same_path j b d Hb Hd ltac:(congruence)) as [Kb Nb].
    destruct (nondir d) eqn:Dn.
    - exfalso. destruct (Na eq_refl) as [_ A1]. destruct (Nb eq_refl) as [_ A2]. exact (Hij (assigned_fun gs own i j d A1 A2)).
    - unfold nondir in Dn. apply negb_false_iff in Dn. unfold is_dir in *. rewrite Ka, Kb. auto.
  Qed.

  Lemma fl_valid : (forall e, In e es -> e_kind e <> KLink) -> valid (List.concat layers).
  Proof.
    intros Hk. apply valid_concat.
    - intros i Hi. apply fl_built. rewrite <- fl_len. exact Hi.
    - apply fl_plain. exact Hk.
    - intros i j a b Hij. apply fl_cross. lia.
  Qed.

  Lemma last_at_app : forall A B p, last_at (A ++ B) p = match last_at B p with Some x => Some x | None => last_at A p end.
  Proof. intros. unfold last_at. rewrite rev_app_distr. apply find_app. Qed.

  Lemma split_last : forall (l : list (list entry)) k, List.length l = S k -> l = firstn k l ++ [nth k l []].
  Proof.
    induction l as [| x l IH]; intros k H; [discriminate|]. destruct k as [| k].
    - destruct l; [reflexivity | discriminate].
    - simpl. f_equal. apply IH. simpl in H. lia.
  Qed.

  (* the last entry the flattened layers write at a path is the walk's entry at that path *)
  Lemma fl_last_at : (forall e, In e es -> is_dir e = true -> own (e_path e) = None) ->
    forall p, last_at (List.concat layers) p = last_at es p.
  Proof.
    intros Hdirs p. destruct (last_at es p) as [e|] eqn:Le.
    - destruct (last_at_some _ _ _ Le) as [He Pe].
      destruct (is_dir e) eqn:De.
      + (* a directory: its own entry is in the top layer, which comes last *)
        assert (Ha : assigned gs own n e = true).
        { unfold assigned, writer_index. rewrite (Hdirs e He De). simpl. apply Nat.eqb_refl. }
        pose proof (fl_own n e He Ha) as Htop.
        rewrite (split_last layers n fl_len), concat_app, last_at_app. simpl List.concat. rewrite app_nil_r.
        destruct (last_at_exists _ p e Htop Pe) as [e' He']. rewrite He'. f_equal.
        destruct (last_at_some _ _ _ He') as [Hin' Pe'].
        apply (built_path_inj (nth n layers []) (fl_built n ltac:(lia))); auto. congruence.
      + (* anything else: written once, in its writer's layer *)
        destruct (split_layers_writer gs own es layers Hsplit e He) as [w [Hw Hwb]].
        pose proof (fl_own w e He Hw) as Hin.
        assert (Hc : In e (List.concat layers)).
        { apply in_concat. exists (nth w layers []). split; auto. apply nth_In. rewrite fl_len. exact Hwb. }
        destruct (last_at_exists _ p e Hc Pe) as [e' He']. rewrite He'. f_equal.
        destruct (last_at_some _ _ _ He') as [Hin' Pe'].
        destruct (in_concat_nth layers e' Hin') as [j [Hj Hej]].
        destruct (fl_same_path j e' e Hej He ltac:(congruence)) as [_ Hn].
        apply Hn. unfold nondir. rewrite De. reflexivity.
    - destruct (last_at (List.concat layers) p) as [o|] eqn:Lo; [| reflexivity]. exfalso.
      destruct (last_at_some _ _ _ Lo) as [Ho Po]. destruct (in_concat_nth layers o Ho) as [j [Hj Hoj]].
      destruct (fl_origin j o Hoj) as [d [Hd [Pd _]]]. apply (last_at_none es p Le d Hd). congruence.
  Qed.

  Theorem split_flatten :
    (forall e, In e es -> e_kind e <> KLink) ->
    (forall e, In e es -> is_dir e = true -> own (e_path e) = None) ->
    exists a b, apply_layers layers = Ok a /\ extract es = Ok b /\ canon_forest a = canon_forest b.
  Proof.
    intros Hk Hdirs. unfold apply_layers. apply extract_same.
    - exact (fl_valid Hk).
    - exact (wseq_valid es W Hk).
    - intros p. rewrite (fl_last_at Hdirs p). reflexivity.
  Qed.
End Flatten.

(* ---- the statements in the vocabulary of the specification ------------------------------------- *)
Lemma wseq_WalkSeq : forall es, wseq es <-> WalkSeq es.
Proof.
  intros es. split.
  - intros [A B C]. split; [exact A | split; [exact B | exact C]].
  - intros [A [B C]]. constructor; [exact A | exact B | exact C].
Qed.

Lemma wf_tree_names : forall t, wf_tree t = true -> wf_names t = true.
Proof.
  induction t as [m l h | m cs IH] using tree_ind'; intros H; [reflexivity|].
  simpl in *. apply andb_true_iff in H. destruct H as [H1 H2]. rewrite H1. simpl.
  apply forallb_forall. intros y Hy. rewrite forallb_forall in H2. rewrite Forall_forall in IH. apply IH; auto.
Qed.

Lemma wf_forest_names : forall f, wf_forest f = true -> wf_names_forest f = true.
Proof.
  intros f H. unfold wf_forest, wf_names_forest in *. apply andb_true_iff in H. destruct H as [H1 H2]. rewrite H1. simpl.
  apply forallb_forall. intros y Hy. rewrite forallb_forall in H2. apply wf_tree_names. auto.
Qed.

(* canonical forms are canonical *)
Lemma canon_forest_names : forall F, NoDup (map fst F) -> NoDup (map fst (canon_forest F)).
Proof.
  intros F H. unfold canon_forest. fold cpair.
  eapply Permutation_NoDup; [apply Permutation_map, sort_by_name_perm|]. rewrite map_fst_cpair. exact H.
Qed.

Lemma find_canon_forest : forall F x, NoDup (map fst F) ->
  find_name x (canon_forest F) = option_map canon (find_name x F).
Proof.
  intros F x H. destruct (find_name x F) as [t|] eqn:E; simpl.
  - apply in_find_name; [apply canon_forest_names; exact H|]. unfold canon_forest. fold cpair.
    apply (proj2 (sort_by_name_in _ _ _)). apply (in_cpair F x (canon t) H). rewrite E. reflexivity.
  - apply find_name_none_notin. apply find_name_none_notin in E. intros Hin. apply E.
    unfold canon_forest in Hin. fold cpair in Hin.
    apply (Permutation_in _ (Permutation_sym (Permutation_map fst (sort_by_name_perm _ (map cpair F))))) in Hin.
    rewrite map_fst_cpair in Hin. exact Hin.
Qed.

Lemma canon_idem : forall t, wf_names t = true -> canon (canon t) = canon t.
Proof.
  induction t as [m l h | m cs IH] using tree_ind'; intros H; [reflexivity|].
  destruct (wf_names_dir _ _ H) as [N C]. rewrite !canon_dir. f_equal.
  apply forest_ext; auto; [apply canon_forest_names; exact N|].
  intros x. rewrite (find_canon_forest cs x N). destruct (find_name x cs) as [t|] eqn:E; simpl; [| reflexivity].
  f_equal. apply find_name_in in E. rewrite Forall_forall in IH. apply (IH (x, t) E). exact (C _ E).
Qed.

Lemma canon_forest_idem : forall F, wf_names_forest F = true -> canon_forest (canon_forest F) = canon_forest F.
Proof.
  intros F H.
  pose (m0 := {| m_mode := 0%N; m_uid := 0%Z; m_gid := 0%Z; m_mtime := 0%Z; m_mnsec := 0%N; m_xattrs := [] |}).
  assert (E : canon (canon (Dir m0 F)) = canon (Dir m0 F)) by (apply canon_idem; exact H).
  rewrite !canon_dir in E. injection E as E'. exact E'.
Qed.

(* the walk of a tree in the C06 envelope has no hard-link entries *)
Lemma walk_no_links : forall ev f e, wf_forest f = true -> In e (walk ev f) -> e_kind e <> KLink.
Proof.
  intros ev f e H He. unfold wf_forest in H. apply andb_true_iff in H. destruct H as [_ H]. rewrite forallb_forall in H.
  unfold walk in He. rewrite walk_forest_sorted in He. apply in_flat_map in He. destruct He as [y [Hy He]].
  apply (proj1 (sort_by_name_in _ _ _)) in Hy.
  assert (P : Forall plain (walk_tree ev ([] ++ [fst y]) (snd y))) by (apply walk_tree_plain; [discriminate | apply H; exact Hy]).
  rewrite Forall_forall in P. exact (proj1 (P e He)).
Qed.

Theorem split_flatten_spec : forall gs own es layers,
  WalkSeq es -> (forall e, In e es -> e_kind e <> KLink) ->
  (forall e, In e es -> is_dir e = true -> own (e_path e) = None) ->
  split_layers gs own es = Ok layers ->
  exists a b, apply_layers layers = Ok a /\ extract es = Ok b /\ canon_forest a = canon_forest b.
Proof. intros gs own es layers W Hk Hd H. apply wseq_WalkSeq in W. exact (split_flatten gs own es layers W H Hk Hd). Qed.

Theorem split_flatten_walk : forall ev t gs own layers,
  wf_forest t = true ->
  (forall e, In e (walk ev t) -> is_dir e = true -> own (e_path e) = None) ->
  split_layers gs own (walk ev t) = Ok layers ->
  exists a, apply_layers layers = Ok a /\ canon_forest a = canon_forest t.
Proof.
  intros ev t gs own layers Wf Hd H. pose proof (wf_forest_names t Wf) as Wn.
  destruct (split_flatten gs own (walk ev t) layers (walk_wseq ev t Wn) H (fun e He => walk_no_links ev t e Wf He) Hd)
    as [a [b [Ea [Eb Ec]]]].
  exists a. split; auto. rewrite (extract_walk ev t Wf) in Eb. inversion Eb; subst b.
  rewrite Ec. apply canon_forest_idem. exact Wn.
Qed.

Theorem split_wellformed_spec : forall gs own es layers,
  WalkSeq es -> split_layers gs own es = Ok layers -> Forall LayerWellFormed layers.
Proof. intros gs own es layers W H. apply wseq_WalkSeq in W. exact (split_layers_wellformed gs own es layers W H). Qed.

Theorem walk_WalkSeq : forall ev t, wf_names_forest t = true -> WalkSeq (walk ev t).
Proof. intros. apply wseq_WalkSeq. apply walk_wseq. assumption. Qed.

(* without the hypothesis on directories the equation fails: a directory owned
   by one package and a file in it owned by another, with different mtimes *)
Definition w_dir (p : path) (t : Z) : entry :=
  {| e_path := p; e_kind := KDir; e_mode := 493; e_uid := 0; e_gid := 0; e_uname := None; e_gname := None;
     e_link := ""; e_devmaj := 0; e_devmin := 0; e_xattrs := []; e_mtime := t; e_mnsec := 0; e_cid := 0; e_size := 0 |}.
Definition w_reg (p : path) (t : Z) : entry :=
  {| e_path := p; e_kind := KReg; e_mode := 420; e_uid := 0; e_gid := 0; e_uname := None; e_gname := None;
     e_link := ""; e_devmaj := 0; e_devmin := 0; e_xattrs := []; e_mtime := t; e_mnsec := 0; e_cid := 9; e_size := 1 |}.
Definition w_lnk (p : path) (tgt : string) : entry :=
  {| e_path := p; e_kind := KLink; e_mode := 420; e_uid := 0; e_gid := 0; e_uname := None; e_gname := None;
     e_link := tgt; e_devmaj := 0; e_devmin := 0; e_xattrs := []; e_mtime := 7; e_mnsec := 0; e_cid := 0; e_size := 0 |}.
Definition w_meta : meta := {| m_mode := 493; m_uid := 0; m_gid := 0; m_mtime := 1700000000; m_mnsec := 0; m_xattrs := [] |}.
Definition w_env : env := {| users := []; groups := []; has_hdr := fun _ => false |}.
Definition w_own2 (a b : path) (p : path) : option string :=
  if path_eqb p a then Some "a" else if path_eqb p b then Some "b" else None.

Lemma owned_dir_breaks_flatten :
  let es := [w_dir ["d"] 5; w_reg ["d"; "x"] 8] in
  let own := w_own2 ["d"] ["d"; "x"] in
  exists layers a b, split_layers [["a"]; ["b"]] own es = Ok layers /\
    apply_layers layers = Ok a /\ extract es = Ok b /\ canon_forest a <> canon_forest b.
Proof. vm_compute. do 3 eexists. repeat split; try reflexivity. discriminate. Qed.

(* a hard link whose target is written by a later layer cannot be applied in order *)
Lemma split_link_breaks_flatten :
  let es := [w_reg ["b"] 8; w_lnk ["c"] "b"] in
  let own := w_own2 ["c"] ["b"] in
  exists layers b, split_layers [["a"]; ["b"]] own es = Ok layers /\
    extract es = Ok b /\ apply_layers layers = Err.
Proof. vm_compute. do 2 eexists. repeat split; reflexivity. Qed.
