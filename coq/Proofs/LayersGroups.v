(* C10 — the grouping: packages of one origin and packages related by a
   satisfied `replaces` share a group, and the result of groupByOriginAndSize
   does not depend on the iteration order of the Go maps.

   The merge loop is read as a single fold over the (package, replaces-entry)
   pairs; the partition it reaches is the least one that is coarser than the
   by-origin partition and joins the two ends of every live pair — whatever the
   order.  Sorting by (size desc, largest name asc) and by name then fixes the
   list, because the keys of distinct blocks differ. *)
From Apko Require Import Base.Prelude Model.Tar Spec.TarSpec Proofs.TarProofs Proofs.TarRoundtrip Proofs.TarOrder
  Model.Layers Spec.LayersSpec Proofs.LayersProofs.
From Coq Require Import Sorting.Permutation Sorting.Sorted.
Open Scope string_scope. Open Scope list_scope.

(* ---- partitions ---------------------------------------------------------------------------- *)
Definition sg (gs : list grp) (p q : pkg) : Prop := exists g, In g gs /\ In p g /\ In q g.
Definition nonempty (gs : list grp) : Prop := forall g, In g gs -> g <> [].

Lemma NoDup_app_disj : forall A (a b : list A) x, NoDup (a ++ b) -> In x a -> In x b -> False.
Proof.
  induction a as [| y a IH]; intros b x H Ha Hb; [destruct Ha|]. simpl in H. inversion H; subst.
  destruct Ha as [-> | Ha]; [apply H2; apply in_or_app; auto | eapply IH; eauto].
Qed.

Lemma NoDup_app_l : forall A (a b : list A), NoDup (a ++ b) -> NoDup a.
Proof. induction a as [| y a IH]; intros b H; [constructor|]. simpl in H. inversion H; subst. constructor; [| eapply IH; eauto].
  intros Hin. apply H2. apply in_or_app. auto. Qed.
Lemma NoDup_app_r : forall A (a b : list A), NoDup (a ++ b) -> NoDup b.
Proof. induction a as [| y a IH]; intros b H; auto. simpl in H. inversion H; auto. Qed.

Lemma NoDup_names_pkgs : forall l : list pkg, NoDup (map p_name l) -> NoDup l.
Proof.
  induction l as [| a l IH]; intros H; [constructor|]. simpl in H. inversion H; subst. constructor; auto.
  intros Hin. apply H2. apply in_map. exact Hin.
Qed.

Lemma pkg_eq_by_name : forall (l : list pkg) p q, NoDup (map p_name l) -> In p l -> In q l -> p_name p = p_name q -> p = q.
Proof.
  induction l as [| a l IH]; intros p q H Hp Hq E; [destruct Hp|]. simpl in H. inversion H; subst.
  destruct Hp as [-> | Hp]; destruct Hq as [-> | Hq]; auto.
  - exfalso. apply H2. rewrite E. apply in_map. exact Hq.
  - exfalso. apply H2. rewrite <- E. apply in_map. exact Hp.
Qed.

Lemma in_block_concat : forall (gs : list grp) g x, In g gs -> In x g -> In x (List.concat gs).
Proof. intros. apply in_concat. exists g. auto. Qed.

Lemma find_group_some : forall n gs g, find_group n gs = Some g -> In g gs /\ has_name n g = true.
Proof.
  induction gs as [| g0 r IH]; simpl; intros g H; [discriminate|].
  destruct (has_name n g0) eqn:E; [inversion H; subst; auto | destruct (IH g H); auto].
Qed.

Lemma find_pkg_some : forall n g q, find_pkg n g = Some q -> In q g /\ p_name q = n.
Proof.
  induction g as [| p r IH]; simpl; intros q H; [discriminate|].
  destruct (String.eqb (p_name p) n) eqn:E; [inversion H; subst; apply String.eqb_eq in E; auto | destruct (IH q H); auto].
Qed.

Lemma has_name_witness : forall n g, has_name n g = true -> exists p, In p g /\ p_name p = n.
Proof.
  intros n g H. unfold has_name in H. apply existsb_exists in H. destruct H as [p [Hp E]]. apply String.eqb_eq in E. eauto.
Qed.

Lemma has_name_of : forall g p, In p g -> has_name (p_name p) g = true.
Proof. intros g p H. unfold has_name. apply existsb_exists. exists p. split; auto. apply String.eqb_refl. Qed.

Lemma find_group_unique : forall gs g0 n, NoDup (map p_name (List.concat gs)) -> In g0 gs -> has_name n g0 = true ->
  find_group n gs = Some g0.
Proof.
  induction gs as [| g1 r IH]; intros g0 n Hnd Hin Hn; [destruct Hin|]. simpl in *. rewrite map_app in Hnd.
  destruct (has_name n g1) eqn:E.
  - destruct Hin as [-> | Hin]; [reflexivity|]. exfalso.
    apply has_name_in in E. apply has_name_in in Hn. apply (NoDup_app_disj _ _ _ n Hnd E).
    rewrite <- names_concat. apply in_concat. exists (map p_name g0). split; auto.
    apply (in_map names_of) in Hin. exact Hin.
  - destruct Hin as [-> | Hin]; [congruence|]. apply IH; auto. eapply NoDup_app_r; eauto.
Qed.

Lemma find_pkg_unique : forall g q, NoDup (map p_name g) -> In q g -> find_pkg (p_name q) g = Some q.
Proof.
  induction g as [| p r IH]; intros q Hnd Hin; [destruct Hin|]. simpl in *. inversion Hnd; subst.
  destruct (String.eqb (p_name p) (p_name q)) eqn:E.
  - apply String.eqb_eq in E. destruct Hin as [-> | Hin]; [reflexivity|]. exfalso. apply H1. rewrite E. apply in_map. exact Hin.
  - destruct Hin as [-> | Hin]; [rewrite String.eqb_refl in E; discriminate | apply IH; auto].
Qed.

Lemma block_names_nodup : forall (gs : list grp) g, NoDup (map p_name (List.concat gs)) -> In g gs -> NoDup (map p_name g).
Proof.
  induction gs as [| g1 r IH]; intros g H Hin; [destruct Hin|]. simpl in H. rewrite map_app in H.
  destruct Hin as [-> | Hin]; [eapply NoDup_app_l; eauto | apply IH; auto; eapply NoDup_app_r; eauto].
Qed.

Lemma block_unique : forall (gs : list grp) g h x, NoDup (map p_name (List.concat gs)) -> In g gs -> In h gs -> In x g -> In x h -> g = h.
Proof.
  intros gs g h x Hnd Hg Hh Hxg Hxh.
  pose proof (find_group_unique gs g (p_name x) Hnd Hg (has_name_of g x Hxg)) as E1.
  pose proof (find_group_unique gs h (p_name x) Hnd Hh (has_name_of h x Hxh)) as E2. congruence.
Qed.

Lemma sg_sym : forall gs x y, sg gs x y -> sg gs y x.
Proof. intros gs x y [g [A [B C]]]. exists g. auto. Qed.

Lemma sg_trans : forall gs x y z, NoDup (map p_name (List.concat gs)) -> sg gs x y -> sg gs y z -> sg gs x z.
Proof.
  intros gs x y z Hnd [g [A [B C]]] [h [A' [B' C']]]. assert (g = h) by (eapply block_unique; eauto). subst h. exists g. auto.
Qed.

(* ---- one step of the merge loop ------------------------------------------------------------- *)
Section Merge.
  Variable rep_name : string -> string.
  Variable rep_sat : string -> pkg -> res bool.
  Variable pkgs0 : list pkg.
  Hypothesis names_distinct : NoDup (map p_name pkgs0).

  Notation part := (part pkgs0).

  Lemma part_in_pkgs : forall gs g x, part gs -> In g gs -> In x g -> In x pkgs0.
  Proof. intros gs g x P Hg Hx. eapply Permutation_in; [exact P | eapply in_block_concat; eauto]. Qed.

  Lemma part_block : forall gs p, part gs -> In p pkgs0 ->
    exists g, find_group (p_name p) gs = Some g /\ In g gs /\ In p g.
  Proof.
    intros gs p P Hp. apply (Permutation_in _ (Permutation_sym P)) in Hp. apply in_concat in Hp. destruct Hp as [g [Hg Hpg]].
    exists g. split; auto. apply find_group_unique; auto; [apply (part_nodup pkgs0 names_distinct gs P) | apply has_name_of; exact Hpg].
  Qed.

  Lemma merge_one_inv : forall pn gs rep gs', merge_one rep_name rep_sat pn (Ok gs) rep = Ok gs' ->
    (gs' = gs /\ (forall replacee q, find_group (rep_name rep) gs = Some replacee -> find_pkg (rep_name rep) replacee = Some q ->
                    rep_sat rep q = Ok true -> has_name pn replacee = true)) \/
    (exists g replacee q, find_group (rep_name rep) gs = Some replacee /\ find_pkg (rep_name rep) replacee = Some q /\
       rep_sat rep q = Ok true /\ find_group pn gs = Some g /\ has_name pn replacee = false /\
       gs' = (g ++ replacee) :: remove_group (rep_name rep) (remove_group pn gs)).
  Proof.
    intros pn gs rep gs' H. unfold merge_one in H. cbn [rbind] in H.
    destruct (find_group (rep_name rep) gs) as [replacee|] eqn:E1; [| inversion H; subst; left; split; auto; intros; discriminate].
    destruct (find_pkg (rep_name rep) replacee) as [q|] eqn:E2;
      [| inversion H; subst; left; split; auto; intros r0 q0 A B; inversion A; subst; congruence].
    destruct (rep_sat rep q) as [ok| | |] eqn:E3; try discriminate. cbn [rbind] in H.
    destruct ok; simpl in H.
    - destruct (find_group pn gs) as [g|] eqn:E4; [| discriminate].
      destruct (has_name pn replacee) eqn:E5; inversion H; subst.
      + left. split; auto. intros r0 q0 A B C. inversion A; subst. exact E5.
      + right. exists g, replacee, q. repeat split; auto.
    - inversion H; subst. left. split; auto. intros r0 q0 A B C. inversion A; subst. rewrite E2 in B. inversion B; subst. congruence.
  Qed.

  Lemma in_remove_group : forall n gs g, In g (remove_group n gs) <-> In g gs /\ has_name n g = false.
  Proof. intros. unfold remove_group. rewrite filter_In, negb_true_iff. tauto. Qed.

  (* groups only grow *)
  Lemma step_coarse : forall pn gs rep gs', part gs -> merge_one rep_name rep_sat pn (Ok gs) rep = Ok gs' ->
    forall x y, sg gs x y -> sg gs' x y.
  Proof.
    intros pn gs rep gs' P H x y [g0 [Hg0 [Hx Hy]]].
    destruct (merge_one_inv pn gs rep gs' H) as [[-> _] | [g [replacee [q [E1 [E2 [E3 [E4 [E5 ->]]]]]]]]]; [exists g0; auto|].
    pose proof (part_nodup pkgs0 names_distinct gs P) as Hnd.
    destruct (has_name pn g0) eqn:A.
    - rewrite (find_group_unique gs g0 pn Hnd Hg0 A) in E4. inversion E4; subst g.
      exists (g0 ++ replacee). split; [left; reflexivity|]. split; apply in_or_app; auto.
    - destruct (has_name (rep_name rep) g0) eqn:B.
      + rewrite (find_group_unique gs g0 _ Hnd Hg0 B) in E1. inversion E1; subst replacee.
        exists (g ++ g0). split; [left; reflexivity|]. split; apply in_or_app; auto.
      + exists g0. split; auto. right. apply in_remove_group. split; auto. apply in_remove_group. auto.
  Qed.

  (* the two ends of a live pair end up together *)
  Lemma step_complete : forall pn gs rep gs' p q, part gs -> merge_one rep_name rep_sat pn (Ok gs) rep = Ok gs' ->
    In p pkgs0 -> p_name p = pn -> In q pkgs0 -> rep_name rep = p_name q -> rep_sat rep q = Ok true -> sg gs' p q.
  Proof.
    intros pn gs rep gs' p q P H Hp Epn Hq Eq Hs.
    pose proof (part_nodup pkgs0 names_distinct gs P) as Hnd.
    destruct (part_block gs p P Hp) as [gp [Fp [Hgp Hpgp]]]. destruct (part_block gs q P Hq) as [gq [Fq [Hgq Hqgq]]].
    assert (Fq' : find_pkg (rep_name rep) gq = Some q).
    { rewrite Eq. apply find_pkg_unique; auto. eapply block_names_nodup; eauto. }
    rewrite <- Eq in Fq. rewrite Epn in Fp.
    destruct (merge_one_inv pn gs rep gs' H) as [[-> Himp] | [g [replacee [q' [E1 [E2 [E3 [E4 [E5 ->]]]]]]]]].
    - pose proof (Himp gq q Fq Fq' Hs) as Hn. destruct (has_name_witness pn gq Hn) as [p' [Hp' Ep']].
      assert (p' = p).
      { apply (pkg_eq_by_name pkgs0); auto; [eapply part_in_pkgs; eauto | congruence]. }
      subst p'. exists gq. auto.
    - rewrite Fq in E1. inversion E1; subst replacee. rewrite Fp in E4. inversion E4; subst g.
      exists (gp ++ gq). split; [left; reflexivity|]. split; apply in_or_app; auto.
  Qed.

  (* and nothing else is joined: any symmetric transitive relation that contains
     the old partition and the live pair contains the new one *)
  Lemma step_sound : forall pn gs rep gs' (Q : pkg -> pkg -> Prop), part gs ->
    merge_one rep_name rep_sat pn (Ok gs) rep = Ok gs' ->
    (forall x y, Q x y -> Q y x) -> (forall x y z, Q x y -> Q y z -> Q x z) ->
    (forall x y, sg gs x y -> Q x y) ->
    (forall p q, In p pkgs0 -> In q pkgs0 -> p_name p = pn -> rep_name rep = p_name q -> rep_sat rep q = Ok true -> Q p q) ->
    forall x y, sg gs' x y -> Q x y.
  Proof.
    intros pn gs rep gs' Q P H Qs Qt Q0 Qe x y [h [Hh [Hx Hy]]].
    destruct (merge_one_inv pn gs rep gs' H) as [[-> _] | [g [replacee [q [E1 [E2 [E3 [E4 [E5 ->]]]]]]]]]; [apply Q0; exists h; auto|].
    destruct Hh as [<- | Hh].
    - destruct (find_group_some _ _ _ E4) as [Hg Hgn]. destruct (find_group_some _ _ _ E1) as [Hr Hrn].
      destruct (has_name_witness pn g Hgn) as [p [Hpg Epn]]. destruct (find_pkg_some _ _ _ E2) as [Hqr Eqn].
      assert (Qpq : Q p q).
      { apply Qe; try congruence; [exact (part_in_pkgs gs g p P Hg Hpg) | exact (part_in_pkgs gs replacee q P Hr Hqr)]. }
      assert (Gg : forall a b, In a g -> In b g -> Q a b) by (intros; apply Q0; exists g; auto).
      assert (Gr : forall a b, In a replacee -> In b replacee -> Q a b) by (intros; apply Q0; exists replacee; auto).
      assert (X : forall a b, In a g -> In b replacee -> Q a b).
      { intros a b Ha Hb. apply (Qt a p); [apply Gg; auto|]. apply (Qt p q); auto. }
      apply in_app_or in Hx. apply in_app_or in Hy. destruct Hx as [Hx | Hx]; destruct Hy as [Hy | Hy]; auto.
    - apply in_remove_group in Hh. destruct Hh as [Hh _]. apply in_remove_group in Hh. destruct Hh as [Hh _].
      apply Q0. exists h. auto.
  Qed.

  Lemma step_nonempty : forall pn gs rep gs', merge_one rep_name rep_sat pn (Ok gs) rep = Ok gs' -> nonempty gs -> nonempty gs'.
  Proof.
    intros pn gs rep gs' H N. destruct (merge_one_inv pn gs rep gs' H) as [[-> _] | [g [replacee [q [E1 [E2 [E3 [E4 [E5 ->]]]]]]]]]; auto.
    intros h [<- | Hh].
    - destruct (find_group_some _ _ _ E4) as [Hg _]. pose proof (N g Hg). destruct g; [congruence | discriminate].
    - apply in_remove_group in Hh. destruct Hh as [Hh _]. apply in_remove_group in Hh. destruct Hh as [Hh _]. auto.
  Qed.

  (* ---- the loop as one fold over (package, replaces entry) pairs ------------------------------ *)
  Definition pairs_of (ord : list (string * list string)) : list (string * string) :=
    flat_map (fun pr => map (fun rep => (fst pr, rep)) (snd pr)) ord.
  Definition step1 (acc : res (list grp)) (x : string * string) : res (list grp) :=
    merge_one rep_name rep_sat (fst x) acc (snd x).

  Lemma merge_pkg_pairs : forall pr acc,
    merge_pkg rep_name rep_sat acc pr = fold_left step1 (map (fun rep => (fst pr, rep)) (snd pr)) acc.
  Proof.
    intros [pn reps] acc. unfold merge_pkg. simpl. revert acc. induction reps as [| r reps IH]; intros acc; simpl; auto.
  Qed.

  Lemma merge_all_pairs : forall ord gs, merge_all rep_name rep_sat ord gs = fold_left step1 (pairs_of ord) (Ok gs).
  Proof.
    intros ord gs. unfold merge_all. generalize (Ok gs : res (list grp)). induction ord as [| pr r IH]; intros acc; simpl; auto.
    rewrite fold_left_app, <- merge_pkg_pairs. apply IH.
  Qed.

  Lemma step1_nonok : forall items acc, (forall gs, acc <> Ok gs) -> fold_left step1 items acc = acc.
  Proof.
    induction items as [| x r IH]; intros acc H; simpl; auto.
    assert (E : step1 acc x = acc) by (unfold step1, merge_one; destruct acc; [exfalso; eapply H; reflexivity | reflexivity ..]).
    rewrite E. apply IH. exact H.
  Qed.

  Definition live_pair (x : string * string) (p q : pkg) : Prop :=
    In p pkgs0 /\ In q pkgs0 /\ p_name p = fst x /\ rep_name (snd x) = p_name q /\ rep_sat (snd x) q = Ok true.

  Lemma fold_steps : forall items gs gs', part gs -> nonempty gs -> fold_left step1 items (Ok gs) = Ok gs' ->
    part gs' /\ nonempty gs' /\
    (forall x y, sg gs x y -> sg gs' x y) /\
    (forall it p q, In it items -> live_pair it p q -> sg gs' p q) /\
    (forall Q : pkg -> pkg -> Prop, (forall x y, Q x y -> Q y x) -> (forall x y z, Q x y -> Q y z -> Q x z) ->
       (forall x y, sg gs x y -> Q x y) -> (forall it p q, In it items -> live_pair it p q -> Q p q) ->
       forall x y, sg gs' x y -> Q x y).
  Proof.
    induction items as [| it r IH]; intros gs gs' P N H.
    - simpl in H. inversion H; subst. repeat split; auto. intros it p q [].
    - cbn [fold_left] in H. destruct (step1 (Ok gs) it) as [gs1| | |] eqn:E1;
        try (rewrite step1_nonok in H by (intros; discriminate); discriminate).
      unfold step1 in E1.
      pose proof (merge_one_part rep_name rep_sat pkgs0 names_distinct _ _ _ _ P E1) as P1.
      pose proof (step_nonempty _ _ _ _ E1 N) as N1.
      destruct (IH gs1 gs' P1 N1 H) as [P' [N' [C [L S]]]]. split; auto. split; auto. split; [| split].
      + intros x y Hxy. apply C. exact (step_coarse _ gs _ gs1 P E1 x y Hxy).
      + intros it' p q [<- | Hin] Hl; [| eapply L; eauto].
        destruct Hl as [Hp [Hq [E2 [E3 E4]]]]. apply C. exact (step_complete _ gs _ gs1 p q P E1 Hp E2 Hq E3 E4).
      + intros Q Qs Qt Q0 Qe x y Hxy. apply (S Q Qs Qt); auto.
        * intros a b Hab. apply (step_sound _ gs _ gs1 Q P E1 Qs Qt Q0); auto.
          intros p q Hp Hq E2 E3 E4. apply (Qe it p q); [left; reflexivity|]. repeat split; auto.
        * intros it' p q Hin Hl. apply (Qe it' p q); auto. right. exact Hin.
  Qed.
End Merge.

(* ---- the by-origin partition ------------------------------------------------------------------- *)
Definition gorig (g : grp) : string := match g with [] => "" | p :: _ => p_origin p end.
Definition homog (g : grp) : Prop := g <> [] /\ forall x, In x g -> p_origin x = gorig g.

Lemma has_origin_homog : forall o g, homog g -> (has_origin o g = true <-> gorig g = o).
Proof.
  intros o g [Hne Hh]. unfold has_origin. rewrite existsb_exists. split.
  - intros [x [Hx E]]. apply String.eqb_eq in E. rewrite <- E. symmetry. apply Hh. exact Hx.
  - intros <-. destruct g as [| p r]; [congruence|]. exists p. split; [left; reflexivity | apply String.eqb_refl].
Qed.

Lemma add_by_origin_inv : forall p gs, Forall homog gs -> NoDup (map gorig gs) ->
  Forall homog (add_by_origin p gs) /\ NoDup (map gorig (add_by_origin p gs)) /\
  map gorig (add_by_origin p gs) = (if existsb (has_origin (p_origin p)) gs then map gorig gs else map gorig gs ++ [p_origin p]).
Proof.
  induction gs as [| g r IH]; intros Hh Hnd; simpl.
  - repeat split; [repeat constructor; [discriminate | intros x [<- | []]; reflexivity] | repeat constructor; auto].
  - inversion Hh as [| ? ? Hg Hr]; subst. inversion Hnd as [| ? ? Hnot Hnd']; subst.
    destruct (has_origin (p_origin p) g) eqn:E.
    + pose proof (proj1 (has_origin_homog _ _ Hg) E) as Eo.
      assert (Go : gorig (g ++ [p]) = gorig g) by (destruct Hg as [Hne _]; destruct g; [congruence | reflexivity]).
      simpl. rewrite Go. repeat split; auto.
      * constructor; auto. split; [destruct g; discriminate|]. intros x Hx. rewrite Go. apply in_app_or in Hx.
        destruct Hx as [Hx | [<- | []]]; [apply Hg; exact Hx | congruence].
    + destruct (IH Hr Hnd') as [A [B C]]. simpl. split; [constructor; auto|]. split.
      * constructor; [| exact B]. rewrite C. destruct (existsb (has_origin (p_origin p)) r); auto.
        intros Hin. apply in_app_or in Hin. destruct Hin as [Hin | [Hin | []]]; [contradiction|].
        assert (T : has_origin (p_origin p) g = true) by (apply has_origin_homog; auto). congruence.
      * rewrite C. destruct (existsb (has_origin (p_origin p)) r); reflexivity.
Qed.

Lemma by_origin_inv : forall pkgs, Forall homog (by_origin pkgs) /\ NoDup (map gorig (by_origin pkgs)).
Proof.
  intros pkgs. unfold by_origin.
  assert (G : forall gs0, Forall homog gs0 -> NoDup (map gorig gs0) ->
     Forall homog (fold_left (fun gs p => add_by_origin p gs) pkgs gs0) /\
     NoDup (map gorig (fold_left (fun gs p => add_by_origin p gs) pkgs gs0))).
  { induction pkgs as [| p r IH]; intros gs0 H1 H2; simpl; auto.
    destruct (add_by_origin_inv p gs0 H1 H2) as [A [B _]]. apply IH; auto. }
  apply G; constructor.
Qed.

Lemma by_origin_nonempty : forall pkgs, nonempty (by_origin pkgs).
Proof. intros pkgs g Hg. destruct (by_origin_inv pkgs) as [H _]. rewrite Forall_forall in H. exact (proj1 (H g Hg)). Qed.

Lemma NoDup_map_inj_in : forall A B (f : A -> B) l x y, NoDup (map f l) -> In x l -> In y l -> f x = f y -> x = y.
Proof.
  induction l as [| a l IH]; intros x y H Hx Hy E; [destruct Hx|]. simpl in H. inversion H; subst.
  destruct Hx as [-> | Hx]; destruct Hy as [-> | Hy]; auto.
  - exfalso. apply H2. rewrite E. apply in_map. exact Hy.
  - exfalso. apply H2. rewrite <- E. apply in_map. exact Hx.
Qed.

Lemma by_origin_same_origin : forall pkgs p q, In p pkgs -> In q pkgs -> p_origin p = p_origin q -> sg (by_origin pkgs) p q.
Proof.
  intros pkgs p q Hp Hq E. destruct (by_origin_inv pkgs) as [Hh Hnd]. rewrite Forall_forall in Hh.
  apply (Permutation_in _ (Permutation_sym (by_origin_perm pkgs))) in Hp. apply in_concat in Hp. destruct Hp as [g [Hg Hpg]].
  apply (Permutation_in _ (Permutation_sym (by_origin_perm pkgs))) in Hq. apply in_concat in Hq. destruct Hq as [h [Hh' Hqh]].
  assert (g = h).
  { apply (NoDup_map_inj_in _ _ gorig (by_origin pkgs)); auto.
    rewrite <- (proj2 (Hh g Hg) p Hpg), <- (proj2 (Hh h Hh') q Hqh). exact E. }
  subst h. exists g. auto.
Qed.

(* ---- insertion sort: the result is determined by the elements when keys are distinct ----------- *)
Section ISort.
  Variable A : Type.
  Variable leb : A -> A -> bool.
  Hypothesis leb_total : forall a b, leb a b = true \/ leb b a = true.
  Hypothesis leb_trans : forall a b c, leb a b = true -> leb b c = true -> leb a c = true.

  Fixpoint ins (x : A) (l : list A) : list A :=
    match l with [] => [x] | y :: r => if leb x y then x :: l else y :: ins x r end.
  Fixpoint isort (l : list A) : list A := match l with [] => [] | x :: r => ins x (isort r) end.
  Definition le (a b : A) : Prop := leb a b = true.

  Lemma ins_perm : forall x l, Permutation (x :: l) (ins x l).
  Proof.
    induction l as [| y r IH]; simpl; auto. destruct (leb x y); auto.
    eapply perm_trans; [apply perm_swap|]. apply perm_skip. exact IH.
  Qed.
  Lemma isort_perm : forall l, Permutation l (isort l).
  Proof. induction l as [| x r IH]; simpl; auto. eapply perm_trans; [apply perm_skip; exact IH | apply ins_perm]. Qed.

  Lemma ins_sorted : forall x l, StronglySorted le l -> StronglySorted le (ins x l).
  Proof.
    induction l as [| y r IH]; intros H; simpl; [repeat constructor|]. inversion H as [| ? ? Hr Hy]; subst.
    destruct (leb x y) eqn:E.
    - constructor; auto. constructor; [exact E|]. rewrite Forall_forall in *. intros z Hz. exact (leb_trans x y z E (Hy z Hz)).
    - constructor; [apply IH; exact Hr|]. apply Forall_forall. intros z Hz.
      apply (Permutation_in _ (Permutation_sym (ins_perm x r))) in Hz. destruct Hz as [<- | Hz].
      + destruct (leb_total x y) as [T | T]; [congruence | exact T].
      + rewrite Forall_forall in Hy. exact (Hy z Hz).
  Qed.
  Lemma isort_sorted : forall l, StronglySorted le (isort l).
  Proof. induction l as [| x r IH]; simpl; [constructor | apply ins_sorted; exact IH]. Qed.

  Lemma sorted_perm_eq : forall l1 l2, StronglySorted le l1 -> StronglySorted le l2 -> Permutation l1 l2 ->
    (forall a b, In a l1 -> In b l1 -> le a b -> le b a -> a = b) -> l1 = l2.
  Proof.
    induction l1 as [| a l1 IH]; intros l2 S1 S2 P Anti.
    - apply Permutation_nil in P. auto.
    - destruct l2 as [| b l2]; [apply Permutation_sym, Permutation_nil in P; discriminate|].
      inversion S1 as [| ? ? S1' F1]; inversion S2 as [| ? ? S2' F2]; subst.
      assert (Hab : a = b).
      { assert (Ha : In a (b :: l2)) by (eapply Permutation_in; [exact P | simpl; auto]).
        assert (Hb : In b (a :: l1)) by (eapply Permutation_in; [apply Permutation_sym; exact P | simpl; auto]).
        destruct Ha as [Ha | Ha]; auto. destruct Hb as [Hb | Hb]; auto.
        rewrite Forall_forall in F1, F2. apply Anti; simpl; auto. }
      subst b. f_equal. apply IH; auto; [eapply Permutation_cons_inv; eauto | intros; apply Anti; simpl; auto].
  Qed.

  Theorem isort_unique : forall l1 l2, Permutation l1 l2 ->
    (forall a b, In a l1 -> In b l1 -> le a b -> le b a -> a = b) -> isort l1 = isort l2.
  Proof.
    intros l1 l2 P Anti. apply sorted_perm_eq; try apply isort_sorted.
    - eapply perm_trans; [apply Permutation_sym, isort_perm|]. eapply perm_trans; [exact P | apply isort_perm].
    - intros a b Ha Hb. apply Anti; eapply Permutation_in; try (apply Permutation_sym, isort_perm); assumption.
  Qed.
End ISort.

(* a map that keeps the keys commutes with the sort *)
Lemma isort_map : forall A (leb : A -> A -> bool) (f : A -> A), (forall a b, leb (f a) (f b) = leb a b) ->
  forall l, isort A leb (map f l) = map f (isort A leb l).
Proof.
  intros A leb f Hf. assert (I : forall x l, ins A leb (f x) (map f l) = map f (ins A leb x l)).
  { induction l as [| y r IH]; simpl; auto. rewrite Hf. destruct (leb x y); simpl; [reflexivity | rewrite IH; reflexivity]. }
  induction l as [| x r IH]; simpl; auto. rewrite IH, I. reflexivity.
Qed.

Lemma sort_pkgs_isort : forall l, sort_pkgs l = isort pkg pkg_leb l.
Proof.
  assert (I : forall x l, insert_pkg x l = ins pkg pkg_leb x l) by (induction l as [| y r IH]; simpl; auto; rewrite IH; reflexivity).
  induction l as [| x r IH]; simpl; [reflexivity|]. rewrite I, IH. reflexivity.
Qed.
Lemma sort_grps_isort : forall l, sort_grps l = isort grp grp_leb l.
Proof.
  assert (I : forall x l, insert_grp x l = ins grp grp_leb x l) by (induction l as [| y r IH]; simpl; auto; rewrite IH; reflexivity).
  induction l as [| x r IH]; simpl; [reflexivity|]. rewrite I, IH. reflexivity.
Qed.

(* ---- the orders ----------------------------------------------------------------------------------- *)
Definition sle (a b : string) : Prop := String.compare a b <> Gt.

Lemma sle_refl : forall a, sle a a.
Proof. intros a. unfold sle. rewrite compare_refl. discriminate. Qed.
Lemma sle_total : forall a b, sle a b \/ sle b a.
Proof.
  intros a b. unfold sle. destruct (String.compare a b) eqn:E; try (left; discriminate).
  right. rewrite String.compare_antisym, E. simpl. discriminate.
Qed.
Lemma sle_trans : forall a b c, sle a b -> sle b c -> sle a c.
Proof.
  unfold sle. intros a b c H1 H2.
  destruct (String.compare a b) eqn:E1; [apply compare_eq in E1; subst; exact H2 | | congruence].
  destruct (String.compare b c) eqn:E2; [apply compare_eq in E2; subst; rewrite E1; discriminate | | congruence].
  rewrite (slt_trans a b c E1 E2). discriminate.
Qed.
Lemma sle_antisym : forall a b, sle a b -> sle b a -> a = b.
Proof.
  unfold sle. intros a b H1 H2. destruct (String.compare a b) eqn:E; [apply compare_eq; exact E | | congruence].
  exfalso. apply H2. rewrite String.compare_antisym, E. reflexivity.
Qed.
Lemma sle_empty : forall a, sle "" a.
Proof. intros a. unfold sle. destruct a; simpl; discriminate. Qed.

Lemma pkg_leb_sle : forall a b, pkg_leb a b = true <-> sle (p_name a) (p_name b).
Proof. intros a b. unfold pkg_leb, sle. destruct (String.compare (p_name a) (p_name b)); split; intros; congruence. Qed.

Lemma pkg_leb_total : forall a b, pkg_leb a b = true \/ pkg_leb b a = true.
Proof. intros a b. rewrite !pkg_leb_sle. apply sle_total. Qed.
Lemma pkg_leb_trans : forall a b c, pkg_leb a b = true -> pkg_leb b c = true -> pkg_leb a c = true.
Proof. intros a b c. rewrite !pkg_leb_sle. apply sle_trans. Qed.

Lemma sort_pkgs_unique : forall g g', Permutation g g' -> NoDup (map p_name g) -> sort_pkgs g = sort_pkgs g'.
Proof.
  intros g g' P Hnd. rewrite !sort_pkgs_isort. apply isort_unique; [exact pkg_leb_total | exact pkg_leb_trans | exact P |].
  intros a b Ha Hb L1 L2. unfold le in *. rewrite pkg_leb_sle in L1, L2. apply (pkg_eq_by_name g); auto. apply sle_antisym; auto.
Qed.

Lemma sort_pkgs_idem : forall g, NoDup (map p_name g) -> sort_pkgs (sort_pkgs g) = sort_pkgs g.
Proof. intros g H. symmetry. apply sort_pkgs_unique; auto. apply sort_pkgs_perm. Qed.

(* ---- the keys of a group: total size and largest name ---------------------------------------------- *)
Lemma u64_mod_nz : u64_mod <> 0%N.
Proof. unfold u64_mod. discriminate. Qed.
Lemma wrap64_add_l : forall a b, wrap64 (wrap64 a + b) = wrap64 (a + b).
Proof. intros a b. unfold wrap64. apply N.add_mod_idemp_l. exact u64_mod_nz. Qed.

Lemma g_size_perm : forall g g', Permutation g g' -> g_size g = g_size g'.
Proof.
  intros g g' P. unfold g_size. generalize 0%N. induction P; intros a; simpl; auto.
  - f_equal. rewrite !wrap64_add_l. f_equal. lia.
  - rewrite IHP1. apply IHP2.
Qed.

Lemma str_max_spec : forall a b, (str_max a b = a \/ str_max a b = b) /\ sle a (str_max a b) /\ sle b (str_max a b).
Proof.
  intros a b. unfold str_max, sle. destruct (String.compare a b) eqn:E.
  - apply compare_eq in E. subst. rewrite compare_refl. repeat split; auto; discriminate.
  - rewrite E, compare_refl. repeat split; auto; discriminate.
  - rewrite compare_refl, String.compare_antisym, E. simpl. repeat split; auto; discriminate.
Qed.

Lemma tie_fold_spec : forall g s0,
  let t := fold_left (fun s p => str_max s (p_name p)) g s0 in
  (t = s0 \/ In t (map p_name g)) /\ sle s0 t /\ (forall n, In n (map p_name g) -> sle n t).
Proof.
  induction g as [| p r IH]; intros s0; simpl.
  - split; auto. split; [apply sle_refl | intros n []].
  - destruct (IH (str_max s0 (p_name p))) as [A [B C]]. destruct (str_max_spec s0 (p_name p)) as [M1 [M2 M3]].
    split; [| split].
    + destruct A as [A | A]; [| right; right; exact A]. rewrite A. destruct M1 as [-> | ->]; auto.
    + eapply sle_trans; eauto.
    + intros n [<- | Hn]; [eapply sle_trans; eauto | apply C; exact Hn].
Qed.

Lemma g_tie_max : forall g, g <> [] -> In (g_tie g) (map p_name g) /\ forall n, In n (map p_name g) -> sle n (g_tie g).
Proof.
  intros g Hne. unfold g_tie. destruct (tie_fold_spec g "") as [A [B C]]. split; auto.
  destruct A as [A | A]; auto. destruct g as [| p r]; [congruence|]. rewrite A in *.
  assert (p_name p = "") by (apply sle_antisym; [apply C; left; reflexivity | apply sle_empty]).
  left. exact H.
Qed.

Lemma g_tie_same_names : forall g g', g <> [] -> (forall n, In n (map p_name g) <-> In n (map p_name g')) -> g_tie g = g_tie g'.
Proof.
  intros g g' Hne H. assert (Hne' : g' <> []).
  { destruct g as [| p r]; [congruence|]. destruct g'; [| discriminate]. exfalso. apply (H (p_name p)). left. reflexivity. }
  destruct (g_tie_max g Hne) as [A B]. destruct (g_tie_max g' Hne') as [A' B'].
  apply sle_antisym; [apply B'; apply H; exact A | apply B; apply H; exact A'].
Qed.

Lemma g_tie_perm : forall g g', Permutation g g' -> g_tie g = g_tie g'.
Proof.
  intros g g' P. destruct g as [| p r]; [apply Permutation_nil in P; subst; reflexivity|].
  apply g_tie_same_names; [discriminate|]. intros n. split; apply Permutation_in; [| apply Permutation_sym]; apply Permutation_map; exact P.
Qed.

Lemma grp_leb_iff : forall a b, grp_leb a b = true <->
  (g_size b < g_size a)%N \/ (g_size a = g_size b /\ sle (g_tie a) (g_tie b)).
Proof.
  intros a b. unfold grp_leb, sle. destruct (N.compare_spec (g_size b) (g_size a)) as [E | E | E].
  - rewrite E. destruct (String.compare (g_tie a) (g_tie b)); split; intros H; try discriminate; auto; try (right; split; [reflexivity | discriminate]);
      destruct H as [H | [_ H]]; try lia; congruence.
  - split; auto.
  - split; [discriminate|]. intros [H | [H _]]; lia.
Qed.

Lemma grp_leb_total : forall a b, grp_leb a b = true \/ grp_leb b a = true.
Proof.
  intros a b. rewrite !grp_leb_iff. destruct (N.lt_trichotomy (g_size a) (g_size b)) as [H | [H | H]]; auto.
  destruct (sle_total (g_tie a) (g_tie b)); [left | right]; right; auto.
Qed.
Lemma grp_leb_trans : forall a b c, grp_leb a b = true -> grp_leb b c = true -> grp_leb a c = true.
Proof.
  intros a b c. rewrite !grp_leb_iff. intros [H1 | [H1 T1]] [H2 | [H2 T2]]; try (left; lia).
  right. split; [congruence | eapply sle_trans; eauto].
Qed.
Lemma grp_leb_antisym : forall a b, grp_leb a b = true -> grp_leb b a = true -> g_tie a = g_tie b.
Proof.
  intros a b. rewrite !grp_leb_iff. intros [H1 | [H1 T1]] [H2 | [H2 T2]]; try lia. apply sle_antisym; auto.
Qed.

Lemma grp_leb_sort : forall a b, grp_leb (sort_pkgs a) (sort_pkgs b) = grp_leb a b.
Proof.
  intros a b. unfold grp_leb.
  rewrite <- (g_size_perm _ _ (sort_pkgs_perm a)), <- (g_size_perm _ _ (sort_pkgs_perm b)),
          <- (g_tie_perm _ _ (sort_pkgs_perm a)), <- (g_tie_perm _ _ (sort_pkgs_perm b)). reflexivity.
Qed.

(* blocks of a partition with the same largest name are the same block *)
Lemma same_tie_same_block : forall (gs : list grp) a b, NoDup (map p_name (List.concat gs)) -> nonempty gs ->
  In a gs -> In b gs -> g_tie a = g_tie b -> a = b.
Proof.
  intros gs a b Hnd Hne Ha Hb E.
  destruct (g_tie_max a (Hne a Ha)) as [Ta _]. destruct (g_tie_max b (Hne b Hb)) as [Tb _]. rewrite E in Ta.
  apply has_name_in in Ta. apply has_name_in in Tb.
  pose proof (find_group_unique gs a _ Hnd Ha Ta). pose proof (find_group_unique gs b _ Hnd Hb Tb). congruence.
Qed.

(* ---- two partitions with the same "together" relation have the same blocks ---------------------------- *)
Lemma concat_split_perm : forall (a : list grp) g b, Permutation (List.concat (a ++ g :: b)) (g ++ List.concat (a ++ b)).
Proof.
  intros. rewrite !concat_app. simpl. rewrite app_assoc. eapply perm_trans; [apply Permutation_app_tail, Permutation_app_comm|].
  rewrite <- app_assoc. reflexivity.
Qed.

Lemma blocks_match : forall M M' : list grp,
  NoDup (map p_name (List.concat M)) -> NoDup (map p_name (List.concat M')) -> nonempty M -> nonempty M' ->
  (forall x, In x (List.concat M) <-> In x (List.concat M')) ->
  (forall x y, sg M x y <-> sg M' x y) ->
  Permutation (map sort_pkgs M) (map sort_pkgs M').
Proof.
  induction M as [| g r IH]; intros M' N1 N2 E1 E2 Hel Hsg.
  - destruct M' as [| g' r']; [constructor|]. exfalso. pose proof (E2 g' (or_introl eq_refl)) as Hne.
    destruct g' as [| x g0]; [congruence|]. apply (proj2 (Hel x)). simpl. auto.
  - pose proof (E1 g (or_introl eq_refl)) as Hgne.
    assert (Hx0 : exists x, In x g) by (destruct g as [| x g0]; [congruence | exists x; left; reflexivity]).
    destruct Hx0 as [x Hxg].
    assert (Hx' : In x (List.concat M')) by (apply Hel; simpl; apply in_or_app; auto).
    apply in_concat in Hx'. destruct Hx' as [g' [Hg' Hxg']].
    assert (Hsame : forall y, In y g <-> In y g').
    { intros y. split; intros Hy.
      - assert (S : sg M' x y) by (apply Hsg; exists g; simpl; auto). destruct S as [h [Hh [Hxh Hyh]]].
        assert (h = g') by exact (block_unique M' h g' x N2 Hh Hg' Hxh Hxg'). subst h. exact Hyh.
      - assert (S : sg (g :: r) x y) by (apply Hsg; exists g'; auto). destruct S as [h [Hh [Hxh Hyh]]].
        assert (h = g) by exact (block_unique (g :: r) h g x N1 Hh (or_introl eq_refl) Hxh Hxg). subst h. exact Hyh. }
    assert (Ng : NoDup (map p_name g)) by (apply (block_names_nodup (g :: r)); simpl; auto).
    assert (Ng' : NoDup (map p_name g')) by (apply (block_names_nodup M'); auto).
    assert (Pg : Permutation g g') by (apply NoDup_Permutation; auto using NoDup_names_pkgs).
    apply in_split in Hg'. destruct Hg' as [a [b ->]].
    rewrite map_app. simpl map. eapply perm_trans; [| apply Permutation_middle].
    rewrite (sort_pkgs_unique g g' Pg Ng). apply perm_skip. rewrite <- map_app.
    pose proof (Permutation_NoDup (Permutation_map p_name (concat_split_perm a g' b)) N2) as N2'. rewrite map_app in N2'.
    simpl in N1. rewrite map_app in N1.
    assert (D1 : forall y, In y g -> In y (List.concat r) -> False).
    { intros y Hy Hy2. apply (NoDup_app_disj _ _ _ (p_name y) N1); apply in_map; auto. }
    assert (D2 : forall y, In y g' -> In y (List.concat (a ++ b)) -> False).
    { intros y Hy Hy2. apply (NoDup_app_disj _ _ _ (p_name y) N2'); apply in_map; auto. }
    assert (Hel' : forall y, In y (List.concat (a ++ g' :: b)) <-> In y g' \/ In y (List.concat (a ++ b))).
    { intros y. split; intros H.
      - apply (Permutation_in _ (concat_split_perm a g' b)) in H. apply in_app_or in H. exact H.
      - apply (Permutation_in _ (Permutation_sym (concat_split_perm a g' b))). apply in_or_app. exact H. }
    assert (Hin' : forall h, In h (a ++ g' :: b) <-> h = g' \/ In h (a ++ b)).
    { intros h. rewrite !in_app_iff. simpl. split; intros H; intuition. }
    apply IH.
    + eapply NoDup_app_r; eauto.
    + eapply NoDup_app_r; eauto.
    + intros h Hh. apply E1. right. exact Hh.
    + intros h Hh. apply E2. apply Hin'. auto.
    + intros y. split; intros Hy.
      * assert (H : In y (List.concat (a ++ g' :: b))) by (apply Hel; simpl; apply in_or_app; auto).
        apply Hel' in H. destruct H as [H | H]; auto. exfalso. apply (D1 y); auto. apply Hsame. exact H.
      * assert (H : In y (List.concat (g :: r))) by (apply Hel; apply Hel'; auto).
        simpl in H. apply in_app_or in H. destruct H as [H | H]; auto. exfalso. apply (D2 y); auto. apply Hsame. exact H.
    + intros y z. split; intros [h [Hh [Hy Hz]]].
      * assert (S : sg (a ++ g' :: b) y z) by (apply Hsg; exists h; simpl; auto). destruct S as [k [Hk [Hyk Hzk]]].
        apply Hin' in Hk. destruct Hk as [-> | Hk]; [| exists k; auto].
        exfalso. apply (D1 y); [apply Hsame; exact Hyk | eapply in_block_concat; eauto].
      * assert (S : sg (g :: r) y z) by (apply Hsg; exists h; split; [apply Hin'; auto | auto]). destruct S as [k [Hk [Hyk Hzk]]].
        destruct Hk as [<- | Hk]; [| exists k; auto].
        exfalso. apply (D2 y); [apply Hsame; exact Hyk | eapply in_block_concat; eauto].
Qed.

(* ---- the stage after merging: sort, cut, sort --------------------------------------------------------- *)
Definition fin (b : Z) (L : list grp) : list grp := map sort_pkgs (cut_budget b (sort_grps L)).

Lemma cut_budget_incl : forall b S g, In g S -> exists g', In g' (cut_budget b S) /\ forall x, In x g -> In x g'.
Proof.
  intros b S g Hg. unfold cut_budget. destruct (Z.of_nat (List.length S) >? b)%Z; [| exists g; auto].
  set (k := Z.to_nat (Z.max (b - 1) 0)). rewrite <- (firstn_skipn k S) in Hg. apply in_app_or in Hg. destruct Hg as [Hg | Hg].
  - exists g. split; auto. apply in_or_app. auto.
  - exists (List.concat (skipn k S)). split; [apply in_or_app; right; left; reflexivity|].
    intros x Hx. apply in_concat. exists g. auto.
Qed.

Lemma fin_sg : forall b L x y, sg L x y -> sg (fin b L) x y.
Proof.
  intros b L x y [g [Hg [Hx Hy]]].
  assert (Hg' : In g (sort_grps L)) by (eapply Permutation_in; [apply sort_grps_perm | exact Hg]).
  destruct (cut_budget_incl b _ g Hg') as [g' [Hg'' Hincl]].
  exists (sort_pkgs g'). split; [unfold fin; apply in_map; exact Hg''|].
  split; (eapply Permutation_in; [apply sort_pkgs_perm | apply Hincl; assumption]).
Qed.

Lemma sg_names : forall gs p q, sg gs p q -> same_group (map names_of gs) (p_name p) (p_name q).
Proof.
  intros gs p q [g [Hg [Hp Hq]]]. exists (names_of g). split; [apply in_map; exact Hg|]. split; apply in_map; assumption.
Qed.

Lemma cut_congr : forall b S S', map sort_pkgs S = map sort_pkgs S' -> NoDup (map p_name (List.concat S)) ->
  map sort_pkgs (cut_budget b S) = map sort_pkgs (cut_budget b S').
Proof.
  intros b S S' E Hnd. assert (Hl : List.length S = List.length S') by (rewrite <- (map_length sort_pkgs S), E, map_length; reflexivity).
  unfold cut_budget. rewrite <- Hl. destruct (Z.of_nat (List.length S) >? b)%Z; [| exact E].
  set (k := Z.to_nat (Z.max (b - 1) 0)). rewrite !map_app. simpl map. f_equal.
  - rewrite <- !firstn_map, E. reflexivity.
  - f_equal. apply sort_pkgs_unique.
    + eapply perm_trans; [apply Permutation_sym, concat_map_sort_perm|].
      eapply perm_trans; [| apply concat_map_sort_perm]. rewrite <- !skipn_map, E. reflexivity.
    + rewrite <- (firstn_skipn k S), concat_app, map_app in Hnd. eapply NoDup_app_r; eauto.
Qed.

Lemma fin_invariant : forall b L L', Permutation (map sort_pkgs L) (map sort_pkgs L') ->
  NoDup (map p_name (List.concat L)) -> nonempty L -> fin b L = fin b L'.
Proof.
  intros b L L' P Hnd Hne. unfold fin. apply cut_congr.
  - rewrite !sort_grps_isort, <- !(isort_map grp grp_leb sort_pkgs grp_leb_sort).
    apply isort_unique; [exact grp_leb_total | exact grp_leb_trans | exact P |].
    intros a b0 Ha Hb L1 L2. apply in_map_iff in Ha. destruct Ha as [a0 [<- Ha0]]. apply in_map_iff in Hb. destruct Hb as [b1 [<- Hb1]].
    pose proof (grp_leb_antisym _ _ L1 L2) as T.
    rewrite <- (g_tie_perm _ _ (sort_pkgs_perm a0)), <- (g_tie_perm _ _ (sort_pkgs_perm b1)) in T.
    rewrite (same_tie_same_block L a0 b1 Hnd Hne Ha0 Hb1 T). reflexivity.
  - eapply Permutation_NoDup; [| exact Hnd]. apply Permutation_map, concat_perm, sort_grps_perm.
Qed.

(* ---- the three statements -------------------------------------------------------------------------------- *)
Section Final.
  Variable rep_name : string -> string.
  Variable rep_sat : string -> pkg -> res bool.
  Variable pkgs0 : list pkg.
  Hypothesis names_distinct : NoDup (map p_name pkgs0).

  Notation rm := (replace_map pkgs0).
  Notation step := (step1 rep_name rep_sat).

  Lemma in_pairs_of : forall ord it, In it (pairs_of ord) <-> exists pr, In pr ord /\ fst it = fst pr /\ In (snd it) (snd pr).
  Proof.
    intros ord [pn rep]. unfold pairs_of. rewrite in_flat_map. split.
    - intros [pr [Hpr Hin]]. apply in_map_iff in Hin. destruct Hin as [r [E Hr]]. inversion E; subst. exists pr. auto.
    - intros [pr [Hpr [E Hr]]]. simpl in *. exists pr. split; auto. apply in_map_iff. exists rep. subst. auto.
  Qed.

  Lemma in_rm : forall pr, In pr rm <-> exists p, In p pkgs0 /\ pr = (p_name p, p_replaces p) /\ p_replaces p <> [].
  Proof.
    intros pr. unfold replace_map. rewrite in_map_iff. split.
    - intros [p [E Hp]]. apply filter_In in Hp. destruct Hp as [Hp Hf]. exists p. repeat split; auto.
      intros Hnil. rewrite Hnil in Hf. discriminate.
    - intros [p [Hp [E Hne]]]. exists p. split; auto. apply filter_In. split; auto. destruct (p_replaces p); [congruence | reflexivity].
  Qed.

  (* which pairs make the loop return an error does not depend on the state *)
  Definition good (it : string * string) : Prop :=
    forall q, In q pkgs0 -> p_name q = rep_name (snd it) -> exists b, rep_sat (snd it) q = Ok b.

  Lemma step_ok_good : forall it gs gs', part pkgs0 gs -> step (Ok gs) it = Ok gs' -> good it.
  Proof.
    intros [pn rep] gs gs' P H q Hq Eq. simpl in *. unfold step1, merge_one in H. cbn [rbind fst snd] in H.
    destruct (part_block pkgs0 names_distinct gs q P Hq) as [gq [Fq [Hgq Hqgq]]]. rewrite Eq in Fq. rewrite Fq in H.
    assert (Fp : find_pkg (rep_name rep) gq = Some q).
    { rewrite <- Eq. apply find_pkg_unique; auto. eapply block_names_nodup; eauto. apply (part_nodup pkgs0 names_distinct gs P). }
    rewrite Fp in H. destruct (rep_sat rep q) as [b| | |]; try discriminate. exists b. reflexivity.
  Qed.

  Lemma step_good_ok : forall it gs, part pkgs0 gs -> good it -> In (fst it) (map p_name pkgs0) -> exists gs', step (Ok gs) it = Ok gs'.
  Proof.
    intros [pn rep] gs P G Hpn. simpl in *. unfold step1, merge_one. cbn [rbind fst snd].
    destruct (find_group (rep_name rep) gs) as [replacee|] eqn:E1; [| eexists; reflexivity].
    destruct (find_pkg (rep_name rep) replacee) as [q|] eqn:E2; [| eexists; reflexivity].
    destruct (find_group_some _ _ _ E1) as [Hr _]. destruct (find_pkg_some _ _ _ E2) as [Hq Eq].
    destruct (G q (part_in_pkgs pkgs0 gs replacee q P Hr Hq) Eq) as [b Hb]. simpl in Hb. rewrite Hb. cbn [rbind].
    destruct b; simpl; [| eexists; reflexivity].
    apply in_map_iff in Hpn. destruct Hpn as [p [Ep Hp]].
    destruct (part_block pkgs0 names_distinct gs p P Hp) as [gp [Fp _]]. rewrite Ep in Fp. rewrite Fp.
    destruct (has_name pn replacee); eexists; reflexivity.
  Qed.

  Lemma fold_ok_good : forall items gs gs', part pkgs0 gs -> fold_left step items (Ok gs) = Ok gs' -> forall it, In it items -> good it.
  Proof.
    induction items as [| x r IH]; intros gs gs' P H it Hin; [destruct Hin|].
    cbn [fold_left] in H. destruct (step (Ok gs) x) as [gs1| | |] eqn:E1;
      try (rewrite step1_nonok in H by (intros; discriminate); discriminate).
    destruct Hin as [<- | Hin]; [exact (step_ok_good x gs gs1 P E1)|].
    apply (IH gs1 gs'); auto. exact (merge_one_part rep_name rep_sat pkgs0 names_distinct _ _ _ _ P E1).
  Qed.

  Lemma fold_good_ok : forall items gs, part pkgs0 gs -> (forall it, In it items -> good it /\ In (fst it) (map p_name pkgs0)) ->
    exists gs', fold_left step items (Ok gs) = Ok gs'.
  Proof.
    induction items as [| x r IH]; intros gs P H; [eexists; reflexivity|].
    destruct (H x (or_introl eq_refl)) as [G N]. destruct (step_good_ok x gs P G N) as [gs1 E1]. cbn [fold_left]. rewrite E1.
    apply IH; [exact (merge_one_part rep_name rep_sat pkgs0 names_distinct _ _ _ _ P E1) | intros; apply H; right; assumption].
  Qed.

  Lemma rm_names : forall ord, (forall x, In x ord -> In x rm) -> forall it, In it (pairs_of ord) -> In (fst it) (map p_name pkgs0).
  Proof.
    intros ord Hsub it Hit. apply in_pairs_of in Hit. destruct Hit as [pr [Hpr [E _]]].
    apply Hsub, in_rm in Hpr. destruct Hpr as [p [Hp [-> _]]]. rewrite E. simpl. apply in_map. exact Hp.
  Qed.

  Lemma pairs_sub : forall ord ord', (forall x, In x ord -> In x ord') -> forall it, In it (pairs_of ord) -> In it (pairs_of ord').
  Proof. intros ord ord' H it Hit. apply in_pairs_of in Hit. destruct Hit as [pr [Hpr R]]. apply in_pairs_of. exists pr. auto. Qed.

  (* what holds of the merged partition, for an order that visits every entry of replaceMap *)
  Lemma merged_facts : forall ord M, (forall x, In x rm -> In x ord) ->
    merge_all rep_name rep_sat ord (by_origin pkgs0) = Ok M ->
    part pkgs0 M /\ nonempty M /\
    (forall p q, In p pkgs0 -> In q pkgs0 -> p_origin p = p_origin q -> sg M p q) /\
    (forall p q rep, In p pkgs0 -> In q pkgs0 -> In rep (p_replaces p) -> rep_name rep = p_name q ->
                     rep_sat rep q = Ok true -> sg M p q).
  Proof.
    intros ord M Hall H. rewrite merge_all_pairs in H.
    destruct (fold_steps rep_name rep_sat pkgs0 names_distinct _ _ _ (by_origin_perm pkgs0) (by_origin_nonempty pkgs0) H)
      as [P [N [C [L _]]]].
    split; auto. split; auto. split.
    - intros p q Hp Hq E. apply C. apply by_origin_same_origin; auto.
    - intros p q rep Hp Hq Hrep En Hs. apply (L (p_name p, rep) p q).
      + apply in_pairs_of. exists (p_name p, p_replaces p). split; [| simpl; auto].
        apply Hall, in_rm. exists p. repeat split; auto. intros Hnil. rewrite Hnil in Hrep. destruct Hrep.
      + repeat split; auto.
  Qed.

  Lemma merged_sub : forall ord ord' M M',
    (forall x, In x ord -> In x rm) -> (forall x, In x rm -> In x ord') ->
    merge_all rep_name rep_sat ord (by_origin pkgs0) = Ok M -> merge_all rep_name rep_sat ord' (by_origin pkgs0) = Ok M' ->
    forall x y, sg M x y -> sg M' x y.
  Proof.
    intros ord ord' M M' Hsub Hall H H'. rewrite merge_all_pairs in H, H'.
    destruct (fold_steps rep_name rep_sat pkgs0 names_distinct _ _ _ (by_origin_perm pkgs0) (by_origin_nonempty pkgs0) H)
      as [P [N [C [L S]]]].
    destruct (fold_steps rep_name rep_sat pkgs0 names_distinct _ _ _ (by_origin_perm pkgs0) (by_origin_nonempty pkgs0) H')
      as [P' [N' [C' [L' S']]]].
    apply (S (sg M')).
    - apply sg_sym.
    - intros a b c. apply sg_trans. apply (part_nodup pkgs0 names_distinct M' P').
    - exact C'.
    - intros it p q Hit Hl. apply (L' it p q); auto. apply (pairs_sub ord ord'); auto.
  Qed.

  Lemma merged_ok : forall ord ord' M, (forall x, In x ord' -> In x ord) -> (forall x, In x ord' -> In x rm) ->
    merge_all rep_name rep_sat ord (by_origin pkgs0) = Ok M -> exists M', merge_all rep_name rep_sat ord' (by_origin pkgs0) = Ok M'.
  Proof.
    intros ord ord' M Hsub Hrm H. rewrite merge_all_pairs in H. rewrite merge_all_pairs.
    apply fold_good_ok; [apply by_origin_perm|]. intros it Hit. split.
    - apply (fold_ok_good _ _ _ (by_origin_perm pkgs0) H). apply (pairs_sub ord' ord); auto.
    - apply (rm_names ord'); auto.
  Qed.

  Theorem group_with_colocated : forall o3 o4 budget gs,
    (forall l, Permutation (o3 l) l) -> (forall l, Permutation (o4 l) l) ->
    group_with rep_name rep_sat o3 o4 pkgs0 budget = Ok gs ->
    (forall p q, In p pkgs0 -> In q pkgs0 -> p_origin p = p_origin q ->
       same_group (map names_of gs) (p_name p) (p_name q)) /\
    (forall p q rep, In p pkgs0 -> In q pkgs0 -> In rep (p_replaces p) -> rep_name rep = p_name q ->
       rep_sat rep q = Ok true -> same_group (map names_of gs) (p_name p) (p_name q)).
  Proof.
    intros o3 o4 budget gs Ho3 Ho4 H. unfold group_with in H.
    destruct (merge_all rep_name rep_sat (o3 rm) (by_origin pkgs0)) as [M| | |] eqn:E; try discriminate.
    cbn [rbind] in H. inversion H; subst. clear H. fold (fin budget (o4 M)).
    destruct (merged_facts (o3 rm) M) as [P [N [A B]]]; auto.
    { intros x Hx. apply (Permutation_in _ (Permutation_sym (Ho3 rm))). exact Hx. }
    assert (T : forall x y, sg M x y -> sg (fin budget (o4 M)) x y).
    { intros x y [g [Hg R]]. apply fin_sg. exists g. split; auto. apply (Permutation_in _ (Permutation_sym (Ho4 M))). exact Hg. }
    split.
    - intros p q Hp Hq Eo. apply sg_names, T, A; auto.
    - intros p q rep Hp Hq Hr En Hs. apply sg_names, T. eapply B; eauto.
  Qed.

  Theorem group_with_order_invariant : forall o3 o4 o3' o4' budget gs,
    (forall l, Permutation (o3 l) l) -> (forall l, Permutation (o4 l) l) ->
    (forall l, Permutation (o3' l) l) -> (forall l, Permutation (o4' l) l) ->
    group_with rep_name rep_sat o3 o4 pkgs0 budget = Ok gs ->
    group_with rep_name rep_sat o3' o4' pkgs0 budget = Ok gs.
  Proof.
    intros o3 o4 o3' o4' budget gs Ho3 Ho4 Ho3' Ho4' H. unfold group_with in *.
    destruct (merge_all rep_name rep_sat (o3 rm) (by_origin pkgs0)) as [M| | |] eqn:E; try discriminate.
    cbn [rbind] in H. inversion H; subst. clear H.
    assert (I1 : forall x, In x (o3 rm) <-> In x rm) by (intros x; split; apply Permutation_in; [| apply Permutation_sym]; apply Ho3).
    assert (I2 : forall x, In x (o3' rm) <-> In x rm) by (intros x; split; apply Permutation_in; [| apply Permutation_sym]; apply Ho3').
    destruct (merged_ok (o3 rm) (o3' rm) M) as [M' E']; auto.
    { intros x Hx. apply I1, I2. exact Hx. } { intros x Hx. apply I2. exact Hx. }
    rewrite E'. cbn [rbind]. f_equal. fold (fin budget (o4 M)). fold (fin budget (o4' M')).
    destruct (merged_facts (o3 rm) M) as [P [N _]]; auto. { intros x Hx. apply I1. exact Hx. }
    destruct (merged_facts (o3' rm) M') as [P' [N' _]]; auto. { intros x Hx. apply I2. exact Hx. }
    pose proof (part_nodup pkgs0 names_distinct M P) as D. pose proof (part_nodup pkgs0 names_distinct M' P') as D'.
    symmetry. apply fin_invariant.
    - eapply perm_trans; [apply Permutation_map, Ho4|]. eapply perm_trans; [| apply Permutation_sym, Permutation_map, Ho4'].
      apply blocks_match; auto.
      + intros x. split; intros Hx.
        * apply (Permutation_in _ (Permutation_sym P')). apply (Permutation_in _ P). exact Hx.
        * apply (Permutation_in _ (Permutation_sym P)). apply (Permutation_in _ P'). exact Hx.
      + intros x y. split.
        * apply (merged_sub (o3 rm) (o3' rm) M M'); auto; [intros z Hz; apply I1; exact Hz | intros z Hz; apply I2; exact Hz].
        * apply (merged_sub (o3' rm) (o3 rm) M' M); auto; [intros z Hz; apply I2; exact Hz | intros z Hz; apply I1; exact Hz].
    - eapply Permutation_NoDup; [| exact D]. apply Permutation_map, concat_perm, Permutation_sym, Ho4.
    - intros g Hg. apply N. apply (Permutation_in _ (Ho4 M)). exact Hg.
  Qed.
End Final.
