(* C10 — flattening with hard-link entries.  A link entry takes the inode of the
   file at its target path AT THE TIME it is applied, so the reading of the
   extractor is a fold ([sem]) rather than "the last entry at each path"; two
   accepted sequences with the same last entry everywhere still give the same
   tree when every link's target precedes it in the walk (induction along the
   walk).  The layers are accepted when every link is written to the same layer
   as its target (tarfs: a link shares its target's node, hence its package). *)
From Apko Require Import Base.Prelude Model.Tar Spec.TarSpec Proofs.TarProofs Proofs.TarRoundtrip Proofs.TarOrder
  Model.Layers Spec.LayersSpec Proofs.LayersProofs Proofs.LayersChain Proofs.LayersExtract Proofs.LayersFlatten.
From Coq Require Import Sorting.Sorted Sorting.Permutation.
Open Scope string_scope. Open Scope list_scope.

Definition tgt (x : entry) : path := split_slash (e_link x).

(* what an entry leaves at its path, given what is there before it *)
Definition xinfo (s : path -> option info) (x : entry) : info :=
  match e_kind x with
  | KLink => match s (tgt x) with
             | Some (IFile m l _) => IFile m l (Some (tgt x))
             | _ => IFile (meta_of x) (LSym "") None        (* not reached for accepted sequences *)
             end
  | _ => einfo x
  end.
Definition sem_step (s : path -> option info) (x : entry) : path -> option info :=
  fun q => if path_eqb q (e_path x) then Some (xinfo s x) else s q.
Definition sem (L : list entry) : path -> option info := fold_left sem_step L (fun _ => None).

Lemma sem_snoc : forall L x, sem (L ++ [x]) = sem_step (sem L) x.
Proof. intros. unfold sem. rewrite fold_left_app. reflexivity. Qed.

Definition idir (i : info) : bool := match i with IDir _ => true | IFile _ _ _ => false end.

Lemma idir_xinfo : forall s x, idir (xinfo s x) = is_dir x.
Proof.
  intros s x. unfold xinfo, is_dir, einfo. destruct (e_kind x); try reflexivity.
  destruct (s (tgt x)) as [[m | m l h]|]; reflexivity.
Qed.

Inductive valid2 : list entry -> Prop :=
| v2_nil : valid2 []
| v2_snoc : forall L x, valid2 L -> e_path x <> [] ->
    (e_kind x = KLink -> exists m l h, sem L (tgt x) = Some (IFile m l h)) ->
    (parent (e_path x) <> [] -> exists d, In d L /\ is_dir d = true /\ e_path d = parent (e_path x)) ->
    (forall d, In d L -> e_path d = e_path x -> is_dir d = true /\ is_dir x = true) ->
    valid2 (L ++ [x]).

Lemma sem_in : forall L p i, sem L p = Some i -> exists d, In d L /\ e_path d = p.
Proof.
  induction L as [| x L IH] using rev_ind; intros p i H; [discriminate|].
  rewrite sem_snoc in H. unfold sem_step in H. destruct (path_eqb p (e_path x)) eqn:E.
  - apply path_eqb_spec in E. exists x. split; [apply in_or_app; right; left; reflexivity | auto].
  - destruct (IH p i H) as [d [Hd Hp]]. exists d. split; auto. apply in_or_app. auto.
Qed.

Lemma sem_kind : forall L, valid2 L -> forall d, In d L -> exists i, sem L (e_path d) = Some i /\ idir i = is_dir d.
Proof.
  induction 1 as [| L x HL IH Hne Hlink Hpar Hdup]; intros d Hd; [destruct Hd|].
  rewrite sem_snoc. unfold sem_step. apply in_app_or in Hd.
  destruct (path_eqb (e_path d) (e_path x)) eqn:E.
  - apply path_eqb_spec in E. eexists. split; [reflexivity|]. rewrite idir_xinfo.
    destruct Hd as [Hd | [<- | []]]; [| reflexivity]. destruct (Hdup d Hd E). congruence.
  - destruct Hd as [Hd | [<- | []]]; [apply IH; exact Hd|]. rewrite path_eqb_refl in E. discriminate.
Qed.

Lemma sem_file : forall L d, valid2 L -> In d L -> is_dir d = false -> exists m l h, sem L (e_path d) = Some (IFile m l h).
Proof.
  intros L d V Hd Hn. destruct (sem_kind L V d Hd) as [i [Hi Hk]]. rewrite Hn in Hk.
  destruct i as [m | m l h]; [discriminate|]. eauto.
Qed.

Lemma sem_dir : forall L d, valid2 L -> In d L -> is_dir d = true -> exists m, sem L (e_path d) = Some (IDir m).
Proof.
  intros L d V Hd Hn. destruct (sem_kind L V d Hd) as [i [Hi Hk]]. rewrite Hn in Hk.
  destruct i as [m | m l h]; [eauto | discriminate].
Qed.

Lemma klink_not_dir : forall x, e_kind x = KLink -> is_dir x = false.
Proof. intros x H. unfold is_dir. rewrite H. reflexivity. Qed.

(* every link has, somewhere before the end, a non-directory at its target *)
Lemma link_target_in : forall L, valid2 L -> forall y, In y L -> e_kind y = KLink ->
  exists d, In d L /\ e_path d = tgt y /\ is_dir d = false.
Proof.
  induction 1 as [| L x HL IH Hne Hlink Hpar Hdup]; intros y Hy Hk; [destruct Hy|].
  apply in_app_or in Hy. destruct Hy as [Hy | [<- | []]].
  - destruct (IH y Hy Hk) as [d [Hd R]]. exists d. split; auto. apply in_or_app. auto.
  - destruct (Hlink Hk) as [m [l [h Hs]]]. destruct (sem_in L _ _ Hs) as [d [Hd Hp]].
    exists d. split; [apply in_or_app; auto|]. split; auto.
    destruct (sem_kind L HL d Hd) as [i [Hi Hdi]]. rewrite Hp, Hs in Hi. inversion Hi; subst. simpl in Hdi. auto.
Qed.

(* ---- the extractor on accepted sequences ------------------------------------------------------ *)
Lemma payload_info2 : forall F (s : path -> option info) x, (forall p, at_path F p = s p) ->
  (e_kind x = KLink -> exists m l h, s (tgt x) = Some (IFile m l h)) ->
  exists n, payload_of F x = Ok n /\ leafy n /\ info_of n = xinfo s x /\ (is_dir x = true -> n = Dir (meta_of x) []).
Proof.
  intros F s x Hs Hl. destruct (e_kind x) eqn:K.
  - destruct (payload_plain_info F x) as [n [A [B [C D]]]]; [congruence|]. exists n. repeat split; auto. unfold xinfo. rewrite K. exact C.
  - destruct (payload_plain_info F x) as [n [A [B [C D]]]]; [congruence|]. exists n. repeat split; auto. unfold xinfo. rewrite K. exact C.
  - destruct (payload_plain_info F x) as [n [A [B [C D]]]]; [congruence|]. exists n. repeat split; auto. unfold xinfo. rewrite K. exact C.
  - destruct (payload_plain_info F x) as [n [A [B [C D]]]]; [congruence|]. exists n. repeat split; auto. unfold xinfo. rewrite K. exact C.
  - destruct (Hl eq_refl) as [m [l [h Hm]]]. rewrite <- Hs in Hm. unfold at_path in Hm. fold (tgt x) in Hm.
    unfold payload_of. rewrite K. fold (tgt x).
    destruct (lookup F (tgt x)) as [[m' cs | m' l' h']|] eqn:Lk; simpl in Hm; try discriminate. inversion Hm; subst.
    eexists. split; [reflexivity|]. split; [exact I|]. split.
    + unfold xinfo. rewrite K. rewrite <- Hs. unfold at_path. rewrite Lk. reflexivity.
    + intros Hd. unfold is_dir in Hd. rewrite K in Hd. discriminate.
Qed.

Theorem extract_valid2 : forall L, valid2 L ->
  exists F, extract L = Ok F /\ wf_names_forest F = true /\ forall p, at_path F p = sem L p.
Proof.
  induction 1 as [| L x HL IH Hne Hlink Hpar Hdup].
  - exists []. split; [reflexivity|]. split; [reflexivity|]. intros p. unfold at_path. rewrite lookup_nil_forest. reflexivity.
  - destruct IH as [F [EF [WF AF]]]. rewrite extract_snoc, EF. unfold extract_step. cbn [rbind].
    destruct (payload_info2 F (sem L) x AF Hlink) as [n [Pn [Ln [In_ Dn]]]]. rewrite Pn. cbn [rbind].
    assert (C1 : parent (e_path x) = [] \/ exists m, at_path F (parent (e_path x)) = Some (IDir m)).
    { destruct (list_eq_dec string_dec (parent (e_path x)) []) as [E0 | N0]; [left; exact E0 | right].
      destruct (Hpar N0) as [d [Hd [Dd Pd]]]. rewrite AF, <- Pd. exact (sem_dir L d HL Hd Dd). }
    assert (C2 : at_path F (e_path x) = None \/ (exists m, at_path F (e_path x) = Some (IDir m)) /\ exists m', n = Dir m' []).
    { rewrite AF. destruct (sem L (e_path x)) as [i|] eqn:Si; [right | left; reflexivity].
      destruct (sem_in L _ _ Si) as [d [Hd Hp]]. destruct (Hdup d Hd Hp) as [Dd Dx]. split.
      - destruct (sem_dir L d HL Hd Dd) as [m Hm]. rewrite Hp, Si in Hm. inversion Hm. eauto.
      - exists (meta_of x). apply Dn. exact Dx. }
    destruct (insert_at (e_path x) n F Hne Ln C1 C2) as [F' [Ins Q]].
    exists F'. split; [exact Ins|]. split.
    + apply (insert_wf (e_path x) n F F'); auto. apply wf_names_leafy. exact Ln.
    + intros p. rewrite Q, sem_snoc. unfold sem_step. destruct (path_eqb p (e_path x)); [rewrite In_; reflexivity | apply AF].
Qed.

(* ---- what is at a path: the last entry there, resolved in the final state ----------------------- *)
Lemma xinfo_ext : forall s s' x, (e_kind x = KLink -> s (tgt x) = s' (tgt x)) -> xinfo s x = xinfo s' x.
Proof. intros s s' x H. unfold xinfo. destruct (e_kind x); try reflexivity. rewrite H; reflexivity. Qed.

Lemma sem_resolved : forall L, valid2 L -> forall p, sem L p = option_map (xinfo (sem L)) (last_at L p).
Proof.
  induction 1 as [| L x HL IH Hne Hlink Hpar Hdup]; intros p; [reflexivity|].
  assert (Stable : forall y, In y (L ++ [x]) -> e_kind y = KLink -> sem (L ++ [x]) (tgt y) = sem L (tgt y)).
  { intros y Hy Hk. rewrite sem_snoc. unfold sem_step. destruct (path_eqb (tgt y) (e_path x)) eqn:E; [| reflexivity].
    apply path_eqb_spec in E. exfalso.
    destruct (link_target_in (L ++ [x]) (v2_snoc L x HL Hne Hlink Hpar Hdup) y Hy Hk) as [d [Hd [Hp Hn]]].
    apply in_app_or in Hd. destruct Hd as [Hd | [<- | []]].
    - destruct (Hdup d Hd ltac:(congruence)) as [Dd _]. congruence.
    - (* the target would be x itself: then y = x is impossible (a link is no directory, and y in L has another path) *)
      apply in_app_or in Hy. destruct Hy as [Hy | [<- | []]].
      + destruct (link_target_in L HL y Hy Hk) as [d' [Hd' [Hp' Hn']]]. destruct (Hdup d' Hd' ltac:(congruence)) as [Dd _]. congruence.
      + destruct (Hlink Hk) as [m [l [h Hs]]]. destruct (sem_in L _ _ Hs) as [d' [Hd' Hp']].
        destruct (Hdup d' Hd' ltac:(congruence)) as [_ Dx]. rewrite (klink_not_dir x Hk) in Dx. discriminate. }
  assert (HS : sem (L ++ [x]) p = sem_step (sem L) x p) by (rewrite sem_snoc; reflexivity).
  rewrite last_at_snoc, HS. unfold sem_step. destruct (path_eqb p (e_path x)) eqn:E.
  - simpl. f_equal. apply xinfo_ext. intros Hk. symmetry. apply Stable; auto. apply in_or_app. right. left. reflexivity.
  - rewrite IH. destruct (last_at L p) as [y|] eqn:Ly; [| reflexivity]. simpl. f_equal.
    apply xinfo_ext. intros Hk. symmetry. apply Stable; auto. apply in_or_app. left. exact (proj1 (last_at_some _ _ _ Ly)).
Qed.

(* two accepted sequences with the same last entry at every path agree, when one of them
   is a walk sequence in which every link's target is the path of an earlier entry *)
Lemma sem_agree : forall L es, valid2 L -> valid2 es -> wseq es -> (forall p, last_at L p = last_at es p) ->
  (forall pre x post, es = pre ++ x :: post -> e_kind x = KLink -> exists t, In t pre /\ e_path t = tgt x) ->
  forall p, sem L p = sem es p.
Proof.
  intros L es V1 V2 W Hlast Hlink.
  assert (G : forall done rest, es = done ++ rest -> forall d, In d done -> sem L (e_path d) = sem es (e_path d)).
  { induction done as [| x done IH] using rev_ind; intros rest E d Hd; [destruct Hd|].
    rewrite <- app_assoc in E. simpl in E. apply in_app_or in Hd. destruct Hd as [Hd | [<- | []]]; [exact (IH (x :: rest) E d Hd)|].
    assert (Hx : In x es) by (rewrite E; apply in_or_app; right; left; reflexivity).
    rewrite (sem_resolved L V1), (sem_resolved es V2), Hlast.
    destruct (last_at_exists es (e_path x) x Hx eq_refl) as [y Ly]. rewrite Ly.
    destruct (last_at_some _ _ _ Ly) as [Hy Py].
    assert (y = x) by (apply (wseq_path_inj es y x W Hy Hx Py)). subst y. simpl. f_equal.
    apply xinfo_ext. intros Hk. destruct (Hlink done x rest E Hk) as [t [Ht Pt]]. rewrite <- Pt.
    exact (IH (x :: rest) E t Ht). }
  intros p. rewrite (sem_resolved L V1), (sem_resolved es V2), Hlast.
  destruct (last_at es p) as [y|] eqn:Ly; [| reflexivity]. destruct (last_at_some _ _ _ Ly) as [Hy Py].
  simpl. f_equal. apply xinfo_ext. intros Hk.
  apply in_split in Hy. destruct Hy as [pre [post Ey]]. destruct (Hlink pre y post Ey Hk) as [t [Ht Pt]]. rewrite <- Pt.
  apply (G es []); [rewrite app_nil_r; reflexivity|]. rewrite Ey. apply in_or_app. left. exact Ht.
Qed.

(* ---- the walk sequence is accepted --------------------------------------------------------------- *)
Definition links_ok (own : path -> option string) (es : list entry) : Prop :=
  forall pre x post, es = pre ++ x :: post -> e_kind x = KLink ->
    exists t, In t pre /\ e_path t = tgt x /\ is_dir t = false /\ own (e_path t) = own (e_path x).

Lemma wseq_valid2_prefix : forall own es, wseq es -> links_ok own es ->
  forall done rest, es = done ++ rest -> valid2 done.
Proof.
  intros own es W Hl. induction done as [| x d' IH] using rev_ind; intros rest E; [constructor|].
  rewrite <- app_assoc in E. simpl in E.
  assert (Hx : In x es) by (rewrite E; apply in_or_app; right; simpl; auto).
  pose proof (IH (x :: rest) E) as V. constructor; auto.
  - exact (ws_nonempty es W x Hx).
  - intros Hk. destruct (Hl d' x rest E Hk) as [t [Ht [Pt [Dt _]]]]. rewrite <- Pt. exact (sem_file d' t V Ht Dt).
  - intros Hp. exact (wseq_parent_before es d' x rest W E Hp).
  - intros d Hd Heq. exfalso. exact (wseq_fresh es d' x rest W E d Hd Heq).
Qed.

Lemma wseq_valid2 : forall own es, wseq es -> links_ok own es -> valid2 es.
Proof. intros own es W Hl. apply (wseq_valid2_prefix own es W Hl es []). rewrite app_nil_r. reflexivity. Qed.

(* ---- the concatenated layers are accepted ---------------------------------------------------------- *)
Lemma valid2_app_built : forall A B, valid2 A -> built B ->
  (forall b, In b B -> e_path b <> []) ->
  (forall a b, In a A -> In b B -> e_path a = e_path b -> is_dir a = true /\ is_dir b = true) ->
  (forall O x rest, B = O ++ x :: rest -> e_kind x = KLink -> exists t, In t O /\ e_path t = tgt x /\ is_dir t = false) ->
  valid2 (A ++ B).
Proof.
  intros A B VA HB. induction HB as [| O x HO IH Hfresh Hpar]; intros Hpl Hcross Hlk.
  - rewrite app_nil_r. exact VA.
  - rewrite app_assoc.
    assert (Hx : In x (O ++ [x])) by (apply in_or_app; right; simpl; auto).
    assert (V : valid2 (A ++ O)).
    { apply IH.
      - intros b Hb. apply Hpl. apply in_or_app. left. exact Hb.
      - intros a b Ha Hb. apply Hcross; auto. apply in_or_app. left. exact Hb.
      - intros O1 y rest E Hk. apply (Hlk O1 y (rest ++ [x])); auto. rewrite E, <- app_assoc. reflexivity. }
    constructor; auto.
    + intros Hk. destruct (Hlk O x [] eq_refl Hk) as [t [Ht [Pt Dt]]]. rewrite <- Pt.
      apply sem_file; auto. apply in_or_app. right. exact Ht.
    + intros Hp. destruct (Hpar Hp) as [d [Hd R]]. exists d. split; auto. apply in_or_app. right. exact Hd.
    + intros d Hd E. apply in_app_or in Hd. destruct Hd as [Hd | Hd].
      * apply Hcross; auto.
      * exfalso. exact (Hfresh d Hd E).
Qed.

Lemma valid2_concat : forall ls : list (list entry),
  (forall i, i < List.length ls -> built (nth i ls [])) ->
  (forall i b, In b (nth i ls []) -> e_path b <> []) ->
  (forall i j a b, i < j -> In a (nth i ls []) -> In b (nth j ls []) -> e_path a = e_path b ->
     is_dir a = true /\ is_dir b = true) ->
  (forall i O x rest, nth i ls [] = O ++ x :: rest -> e_kind x = KLink ->
     exists t, In t O /\ e_path t = tgt x /\ is_dir t = false) ->
  valid2 (List.concat ls).
Proof.
  induction ls as [| l ls IH] using rev_ind; intros Hb Hpl Hcross Hlk; [constructor|].
  rewrite concat_app. simpl. rewrite app_nil_r.
  assert (Hn : forall i, i < List.length ls -> nth i (ls ++ [l]) [] = nth i ls []) by (intros; apply app_nth1; auto).
  assert (Hl : nth (List.length ls) (ls ++ [l]) [] = l) by (rewrite app_nth2, Nat.sub_diag by lia; reflexivity).
  apply valid2_app_built.
  - apply IH.
    + intros i Hi. rewrite <- Hn by exact Hi. apply Hb. rewrite app_length. simpl. lia.
    + intros i b Hin. destruct (Nat.lt_ge_cases i (List.length ls)) as [Hi | Hi].
      * apply (Hpl i). rewrite Hn by exact Hi. exact Hin.
      * rewrite nth_overflow in Hin by exact Hi. destruct Hin.
    + intros i j a b Hij Ha Hbn.
      destruct (Nat.lt_ge_cases j (List.length ls)) as [Hj | Hj]; [| rewrite nth_overflow in Hbn by exact Hj; destruct Hbn].
      apply (Hcross i j); auto; rewrite Hn by lia; assumption.
    + intros i O x rest E Hk. destruct (Nat.lt_ge_cases i (List.length ls)) as [Hi | Hi].
      * apply (Hlk i O x rest); auto. rewrite Hn by exact Hi. exact E.
      * rewrite nth_overflow in E by exact Hi. destruct O; discriminate.
  - rewrite <- Hl. apply Hb. rewrite app_length. simpl. lia.
  - intros b Hin. apply (Hpl (List.length ls)). rewrite Hl. exact Hin.
  - intros a b Ha Hbn. destruct (in_concat_nth ls a Ha) as [i [Hi Hai]].
    apply (Hcross i (List.length ls)); auto; [rewrite Hn by exact Hi; exact Hai | rewrite Hl; exact Hbn].
  - intros O x rest E Hk. destruct (Hlk (List.length ls) O x rest) as [t [Ht R]]; auto; [rewrite Hl; exact E|].
    exists t. split; auto.
Qed.

(* ---- a link is written after its target, in the same layer ------------------------------------------ *)
Lemma split_unique : forall A (a b c d : list A) x, a ++ x :: b = c ++ x :: d -> ~ In x a -> ~ In x c -> a = c.
Proof.
  induction a as [| y a IH]; intros b c d x E Na Nc.
  - destruct c as [| z c]; [reflexivity|]. simpl in E. inversion E; subst. exfalso. apply Nc. left. reflexivity.
  - destruct c as [| z c]; simpl in E; inversion E; subst.
    + exfalso. apply Na. left. reflexivity.
    + f_equal. apply (IH b c d x); auto; intros H; [apply Na | apply Nc]; right; exact H.
Qed.

Section FlattenLinks.
  Variables (gs : list (list string)) (own : path -> option string) (es : list entry) (layers : list (list entry)).
  Hypothesis W : wseq es.
  Hypothesis Hsplit : split_layers gs own es = Ok layers.
  Hypothesis Hl : links_ok own es.

  Lemma assigned_same_owner : forall i a b, own (e_path a) = own (e_path b) -> assigned gs own i a = assigned gs own i b.
  Proof. intros i a b E. unfold assigned, writer_index. rewrite E. reflexivity. Qed.

  Lemma fl_link_after_target : forall i O x rest, nth i layers [] = O ++ x :: rest -> e_kind x = KLink ->
    exists t, In t O /\ e_path t = tgt x /\ is_dir t = false.
  Proof.
    intros i O x rest E Hk.
    assert (Hxi : In x (nth i layers [])) by (rewrite E; apply in_or_app; right; left; reflexivity).
    assert (Hnx : nondir x = true) by (unfold nondir; rewrite (klink_not_dir x Hk); reflexivity).
    destruct (fl_nondir gs own es layers Hsplit i x Hxi Hnx) as [Hxe Hax].
    apply in_split in Hxe. destruct Hxe as [pre [post Ee]].
    destruct (Hl pre x post Ee Hk) as [t [Ht [Pt [Dt Ot]]]].
    exists t. split; [| auto].
    pose (f := fun e => nondir e && assigned gs own i e).
    assert (Hf : filter nondir (nth i layers []) = filter f es)
      by exact (proj1 (proj2 (split_each_file_once gs own es layers Hsplit)) i).
    assert (Hfx : f x = true) by (unfold f; rewrite Hnx, Hax; reflexivity).
    assert (Hft : f t = true).
    { unfold f, nondir. rewrite Dt. simpl. rewrite (assigned_same_owner i t x Ot). exact Hax. }
    rewrite E, Ee, !filter_app in Hf. simpl in Hf. rewrite Hnx, Hfx in Hf.
    assert (Hi : i < S (List.length gs)).
    { destruct (Nat.lt_ge_cases i (List.length layers)) as [L | L]; [rewrite (fl_len gs own es layers Hsplit) in L; exact L|].
      rewrite nth_overflow in Hxi by exact L. destruct Hxi. }
    pose proof (built_wellformed _ (fl_built gs own es layers W Hsplit i Hi)) as WF.
    assert (N1 : ~ In x (filter nondir O)).
    { intros Hin. apply filter_In in Hin. destruct Hin as [Hin _]. exact (proj2 (WF O x rest E) x Hin eq_refl). }
    assert (N2 : ~ In x (filter f pre)).
    { intros Hin. apply filter_In in Hin. destruct Hin as [Hin _]. exact (wseq_fresh es pre x post W Ee x Hin eq_refl). }
    pose proof (split_unique _ _ _ _ _ _ Hf N1 N2) as Eq.
    assert (Hin : In t (filter nondir O)) by (rewrite Eq; apply filter_In; auto).
    apply filter_In in Hin. tauto.
  Qed.

  Lemma fl_valid2 : valid2 (List.concat layers).
  Proof.
    apply valid2_concat.
    - intros i Hi. apply (fl_built gs own es layers W Hsplit). rewrite <- (fl_len gs own es layers Hsplit). exact Hi.
    - intros i b Hb. destruct (fl_origin gs own es layers W Hsplit i b Hb) as [d [Hd [Pd _]]]. rewrite <- Pd. exact (ws_nonempty es W d Hd).
    - intros i j a b Hij. apply (fl_cross gs own es layers W Hsplit). lia.
    - exact fl_link_after_target.
  Qed.

  (* every layer is self-contained as far as hard links go *)
  Lemma fl_links_inside : Forall LayerLinksInside layers.
  Proof.
    apply Forall_forall. intros l Hin. destruct (In_nth layers l [] Hin) as [i [_ Hi]]. subst l.
    intros O x rest E Hk. exact (fl_link_after_target i O x rest E Hk).
  Qed.

  Theorem split_flatten_links :
    (forall e, In e es -> is_dir e = true -> own (e_path e) = None) ->
    exists a b, apply_layers layers = Ok a /\ extract es = Ok b /\ canon_forest a = canon_forest b.
  Proof.
    intros Hdirs. unfold apply_layers.
    destruct (extract_valid2 _ fl_valid2) as [a [Ea [Wa Aa]]].
    destruct (extract_valid2 _ (wseq_valid2 own es W Hl)) as [b [Eb [Wb Ab]]].
    exists a, b. split; auto. split; auto. apply canon_forest_ext; auto. intros p. rewrite Aa, Ab.
    apply sem_agree; auto.
    - exact fl_valid2.
    - exact (wseq_valid2 own es W Hl).
    - exact (fl_last_at gs own es layers W Hsplit Hdirs).
    - intros pre x post E Hk. destruct (Hl pre x post E Hk) as [t [Ht [Pt _]]]. exists t. auto.
  Qed.
End FlattenLinks.

(* a link-free sequence satisfies links_ok vacuously *)
Lemma links_ok_plain : forall own es, (forall e, In e es -> e_kind e <> KLink) -> links_ok own es.
Proof.
  intros own es H pre x post E Hk. exfalso. apply (H x); auto. rewrite E. apply in_or_app. right. left. reflexivity.
Qed.

Theorem split_flatten_links_spec : forall gs own es layers,
  WalkSeq es -> links_ok own es ->
  (forall e, In e es -> is_dir e = true -> own (e_path e) = None) ->
  split_layers gs own es = Ok layers ->
  exists a b, apply_layers layers = Ok a /\ extract es = Ok b /\ canon_forest a = canon_forest b.
Proof. intros gs own es layers W Hl Hd H. apply wseq_WalkSeq in W. exact (split_flatten_links gs own es layers W H Hl Hd). Qed.

Theorem split_links_inside_spec : forall gs own es layers,
  WalkSeq es -> links_ok own es -> split_layers gs own es = Ok layers -> Forall LayerLinksInside layers.
Proof. intros gs own es layers W Hl H. apply wseq_WalkSeq in W. exact (fl_links_inside gs own es layers W H Hl). Qed.

(* the condition on owners is necessary for this clause even when the layers do
   apply in order: a link owned by a package of a LATER layer than its target's *)
Lemma link_in_later_layer :
  let es := [w_reg ["b"] 8; w_lnk ["c"] "b"] in
  let own := w_own2 ["b"] ["c"] in
  exists layers a, split_layers [["a"]; ["b"]] own es = Ok layers /\
    apply_layers layers = Ok a /\ extract es = Ok a /\ ~ Forall LayerLinksInside layers.
Proof.
  vm_compute. do 2 eexists. repeat split; try reflexivity. intros F.
  inversion F as [| ? ? _ F1]; subst. inversion F1 as [| ? ? L1 _]; subst.
  destruct (L1 [] _ [] eq_refl eq_refl) as [t [[] _]].
Qed.
