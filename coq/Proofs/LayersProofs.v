(* C10 — proofs about Model/Layers.v and Spec/LayersSpec.v. *)
From Apko Require Import Base.Prelude Model.Tar Spec.TarSpec Proofs.TarProofs Model.Layers Spec.LayersSpec.
From Coq Require Import Sorting.Permutation Sorting.Sorted OrderedTypeEx.
Open Scope string_scope. Open Scope list_scope.

(* ---- the budget ------------------------------------------------------------------ *)
Lemma cut_budget_length : forall budget gs,
  (Z.of_nat (List.length (cut_budget budget gs)) <= Z.max budget 1)%Z.
Proof.
  intros budget gs. unfold cut_budget.
  destruct (Z.of_nat (List.length gs) >? budget)%Z eqn:E.
  - apply Z.gtb_lt in E. rewrite app_length, firstn_length. cbn [List.length]. lia.
  - assert (Z.of_nat (List.length gs) <= budget)%Z by (destruct (Z.gtb_spec (Z.of_nat (List.length gs)) budget); [discriminate | lia]). lia.
Qed.

Lemma cut_budget_negative : forall budget gs, (budget < 0)%Z -> cut_budget budget gs = [List.concat gs].
Proof.
  intros budget gs Hb. unfold cut_budget.
  assert (E : (Z.of_nat (List.length gs) >? budget)%Z = true) by (apply Z.gtb_lt; lia). rewrite E.
  replace (Z.to_nat (Z.max (budget - 1) 0)) with 0 by lia. reflexivity.
Qed.

Section G.
  Variable rep_name : string -> string.
  Variable rep_sat : string -> pkg -> res bool.

  Lemma group_with_count : forall o3 o4 pkgs budget gs,
    group_with rep_name rep_sat o3 o4 pkgs budget = Ok gs ->
    (Z.of_nat (List.length gs) <= Z.max budget 1)%Z.
  Proof.
    intros o3 o4 pkgs budget gs H. unfold group_with in H.
    destruct (merge_all rep_name rep_sat (o3 (replace_map pkgs)) (by_origin pkgs)) as [m| | |]; try discriminate.
    cbn [rbind] in H. inversion H; subst. rewrite map_length. apply cut_budget_length.
  Qed.

  (* at the level of groupByOriginAndSize a negative budget gives one group *)
  Lemma group_with_negative : forall o3 o4 pkgs budget gs,
    (budget < 0)%Z -> group_with rep_name rep_sat o3 o4 pkgs budget = Ok gs -> List.length gs = 1.
  Proof.
    intros o3 o4 pkgs budget gs Hb H. unfold group_with in H.
    destruct (merge_all rep_name rep_sat (o3 (replace_map pkgs)) (by_origin pkgs)) as [m| | |]; try discriminate.
    cbn [rbind] in H. inversion H; subst. rewrite cut_budget_negative by exact Hb. reflexivity.
  Qed.

  (* the grouping never panics for lack of a byPackage entry when it returns at all:
     the only outcomes are Ok and Err or the (unreachable) missing-map-entry panic *)
End G.

(* ---- splitLayers: every file exactly once, in its writer's layer ------------------- *)
Lemma upd_length : forall A i (f : A -> A) l, List.length (upd i f l) = List.length l.
Proof. induction i; destruct l; simpl; auto. Qed.
Lemma nth_upd_eq : forall A i (f : A -> A) l d, i < List.length l -> nth i (upd i f l) d = f (nth i l d).
Proof. induction i; destruct l; simpl; intros; try lia; auto. apply IHi. lia. Qed.
Lemma nth_upd_neq : forall A i j (f : A -> A) l d, i <> j -> nth j (upd i f l) d = nth j l d.
Proof. induction i; destruct l; destruct j; simpl; intros; try lia; auto. Qed.

Lemma pop_to_dirs : forall p l, Forall (fun e => is_dir e = true) l -> Forall (fun e => is_dir e = true) (pop_to p l).
Proof.
  induction l as [| e r IH]; intros H; simpl; auto. inversion H; subst.
  destruct (path_eqb (e_path e) p); auto.
Qed.
Lemma push_dir_dirs : forall st f, is_dir f = true -> Forall (fun e => is_dir e = true) st ->
  Forall (fun e => is_dir e = true) (push_dir st f).
Proof.
  intros st f Hf H. unfold push_dir. apply Forall_app. split; [| constructor; auto].
  apply Forall_rev. apply pop_to_dirs. apply Forall_rev. exact H.
Qed.
Lemma align_dirs : forall main l, Forall (fun e => is_dir e = true) main -> Forall (fun e => is_dir e = true) (align main l).
Proof.
  induction main as [| m mr IH]; intros l H; simpl; auto.
  destruct l as [| x lr]; auto. destruct (path_eqb (e_path m) (e_path x)); auto. inversion H; subst. apply IH; auto.
Qed.

Lemma writer_of_bound : forall n gs i found k,
  (forall j, found = Some j -> j < i) -> writer_of n gs i found = Some k -> k < i + List.length gs.
Proof.
  induction gs as [| g r IH]; intros i found k Hf H; simpl in *.
  - rewrite Nat.add_0_r. apply Hf. exact H.
  - apply IH in H; [lia|]. intros j Hj. destruct (existsb (String.eqb n) g); [inversion Hj; lia | apply Hf in Hj; lia].
Qed.

(* the layer index the model writes an entry to *)
Definition writer_index (gs : list (list string)) (own : path -> option string) (p : path) : option nat :=
  match own p with None => Some (List.length gs) | Some n => writer_of n gs 0 None end.

Definition assigned (gs : list (list string)) (own : path -> option string) (i : nat) (e : entry) : bool :=
  option_eqb Nat.eqb (writer_index gs own (e_path e)) (Some i).

Record split_inv (gs : list (list string)) (own : path -> option string) (st : lstate) (done : list entry) : Prop := {
  inv_len : List.length (s_outs st) = S (List.length gs);
  inv_main : Forall (fun e => is_dir e = true) (s_main st);
  inv_files : forall i, filter nondir (nth i (s_outs st) []) = filter (fun e => nondir e && assigned gs own i e) done;
  inv_all : forall i e, In e done -> assigned gs own i e = true -> In e (nth i (s_outs st) [])
}.

Lemma filter_extra_nil : forall (todo : list entry) f,
  Forall (fun e => is_dir e = true) todo ->
  filter nondir (map (fun d => with_mtime d f) (filter (fun d => negb (path_eqb (e_path d) (e_path f))) todo)) = [].
Proof.
  induction todo as [| d r IH]; intros f H; simpl; auto. inversion H; subst.
  destruct (negb (path_eqb (e_path d) (e_path f))); simpl; auto.
  unfold nondir, is_dir in *. simpl. destruct (e_kind d); try discriminate. simpl. apply IH; auto.
Qed.

Lemma split_step_inv : forall gs own st done f st',
  split_inv gs own st done -> split_step gs own (Ok st) f = Ok st' -> split_inv gs own st' (done ++ [f]).
Proof.
  intros gs own st done f st' [Hlen Hmain Hfiles Hall] H. unfold split_step in H. cbn [rbind] in H.
  set (main := if is_dir f then push_dir (s_main st) f else s_main st) in *.
  assert (Hmain' : Forall (fun e => is_dir e = true) main).
  { unfold main. destruct (is_dir f) eqn:D; auto. apply push_dir_dirs; auto. }
  assert (W : exists w, writer_index gs own (e_path f) = Some w /\ w < S (List.length gs) /\
     st' = {| s_main := main; s_stacks := upd w (fun _ => main) (s_stacks st);
              s_outs := upd w (fun o => o ++ map (fun d => with_mtime d f)
                 (filter (fun d => negb (path_eqb (e_path d) (e_path f))) (align main (nth w (s_stacks st) []))) ++ [f]) (s_outs st) |}).
  { unfold writer_index. destruct (own (e_path f)) as [n|].
    - destruct (writer_of n gs 0 None) as [w|] eqn:E; [| discriminate]. cbn [rbind] in H. inversion H; subst.
      exists w. repeat split; auto. apply writer_of_bound in E; [lia | intros; discriminate].
    - cbn [rbind] in H. inversion H; subst. exists (List.length gs). repeat split; auto. }
  destruct W as [w [Hw [Hwb ->]]]. constructor; cbn [s_outs s_main].
  - rewrite upd_length. exact Hlen.
  - exact Hmain'.
  - intros i. rewrite filter_app. simpl filter.
    destruct (Nat.eq_dec w i) as [<- | Hne].
    + rewrite nth_upd_eq by lia. rewrite !filter_app, filter_extra_nil by (apply align_dirs; exact Hmain').
      assert (A : assigned gs own w f = true) by (unfold assigned; rewrite Hw; simpl; apply Nat.eqb_refl).
      rewrite Hfiles, A, andb_true_r. simpl. destruct (nondir f); reflexivity.
    + rewrite nth_upd_neq by exact Hne.
      assert (A : assigned gs own i f = false) by (unfold assigned; rewrite Hw; simpl; apply Nat.eqb_neq; exact Hne).
      rewrite Hfiles, A, andb_false_r, app_nil_r. reflexivity.
  - intros i e He Ha. apply in_app_or in He. destruct (Nat.eq_dec w i) as [<- | Hne].
    + rewrite nth_upd_eq by lia. destruct He as [He | [<- | []]].
      * apply in_or_app. left. apply Hall; auto.
      * apply in_or_app. right. apply in_or_app. right. simpl; auto.
    + rewrite nth_upd_neq by exact Hne. destruct He as [He | [<- | []]].
      * apply Hall; auto.
      * unfold assigned in Ha. rewrite Hw in Ha. simpl in Ha. apply Nat.eqb_eq in Ha. contradiction.
Qed.

Lemma split_fold_inv : forall gs own es st done st',
  split_inv gs own st done -> fold_left (split_step gs own) es (Ok st) = Ok st' -> split_inv gs own st' (done ++ es).
Proof.
  induction es as [| f r IH]; intros st done st' Hinv H.
  - simpl in H. inversion H; subst. rewrite app_nil_r. exact Hinv.
  - cbn [fold_left] in H. destruct (split_step gs own (Ok st) f) as [st1| | |] eqn:E.
    + replace (done ++ f :: r) with ((done ++ [f]) ++ r) by (rewrite <- app_assoc; reflexivity).
      eapply IH; [| exact H]. eapply split_step_inv; eauto.
    + exfalso. clear -H. induction r; simpl in H; [discriminate | auto].
    + exfalso. clear -H. induction r; simpl in H; [discriminate | auto].
    + exfalso. clear -H. induction r; simpl in H; [discriminate | auto].
Qed.

Lemma nth_repeat_nil : forall A n i, nth i (repeat (@nil A) n) [] = [].
Proof. induction n; destruct i; simpl; auto. Qed.

Lemma split_each_file_once : forall gs own es layers,
  split_layers gs own es = Ok layers ->
  List.length layers = S (List.length gs) /\
  (forall i, filter nondir (nth i layers []) = filter (fun e => nondir e && assigned gs own i e) es) /\
  (forall i e, In e es -> assigned gs own i e = true -> In e (nth i layers [])).
Proof.
  intros gs own es layers H. unfold split_layers in H.
  destruct (fold_left (split_step gs own) es (Ok {| s_main := []; s_stacks := repeat [] (S (List.length gs)); s_outs := repeat [] (S (List.length gs)) |})) as [st| | |] eqn:E; try discriminate.
  cbn [rbind] in H. inversion H; subst.
  assert (I0 : split_inv gs own {| s_main := []; s_stacks := repeat [] (S (List.length gs)); s_outs := repeat [] (S (List.length gs)) |} []).
  { constructor; cbn [s_outs s_main].
    - apply repeat_length.
    - constructor.
    - intros. rewrite nth_repeat_nil. reflexivity.
    - intros i e []. }
  destruct (split_fold_inv gs own es _ [] st I0 E) as [Hl _ Hf Ha]. simpl in *. repeat split; auto.
Qed.

(* with disjoint groups, the writer the code picks (the last group naming the
   package) is the group the specification names (the one containing it) *)
Lemma mem_in : forall x l, mem x l = true <-> In x l.
Proof.
  intros. unfold mem. rewrite existsb_exists. split.
  - intros [y [Hy E]]. apply String.eqb_eq in E. subst. exact Hy.
  - intros H. exists x. split; auto. apply String.eqb_refl.
Qed.

Lemma group_index_none : forall n gs, ~ In n (List.concat gs) -> group_index n gs = None.
Proof.
  induction gs as [| g r IH]; intros H; simpl in *; auto.
  destruct (mem n g) eqn:E.
  - apply mem_in in E. exfalso. apply H. apply in_or_app. auto.
  - rewrite IH; auto. intros G. apply H. apply in_or_app. auto.
Qed.

Lemma writer_of_group_index : forall n gs i found, NoDup (List.concat gs) ->
  writer_of n gs i found = match group_index n gs with Some k => Some (i + k) | None => found end.
Proof.
  induction gs as [| g r IH]; intros i found Hnd; simpl in *; auto.
  assert (Hr : NoDup (List.concat r)) by (clear -Hnd; induction g as [| x g IHg]; simpl in Hnd; [exact Hnd | inversion Hnd; auto]).
  rewrite IH by exact Hr. fold (mem n g). destruct (mem n g) eqn:E.
  - apply mem_in in E. rewrite group_index_none.
    + f_equal. lia.
    + intros G. revert Hnd E G. clear. induction g as [| x g IHg]; simpl; intros Hnd E G; [contradiction|].
      inversion Hnd; subst. destruct E as [-> | E]; [apply H1; apply in_or_app; auto | apply IHg; auto].
  - destruct (group_index n r); simpl; auto; try (f_equal; lia).
Qed.

Lemma writer_index_layer_index : forall gs own p, NoDup (List.concat gs) ->
  writer_index gs own p = layer_index gs own p.
Proof.
  intros. unfold writer_index, layer_index. destruct (own p); auto.
  rewrite writer_of_group_index by assumption. destruct (group_index s gs); reflexivity.
Qed.

Lemma split_each_file_once_spec : forall gs own es layers,
  NoDup (List.concat gs) -> split_layers gs own es = Ok layers ->
  List.length layers = S (List.length gs) /\
  (forall i, i < List.length layers ->
     filter nondir (nth i layers []) =
     filter (fun e => nondir e && option_eqb Nat.eqb (layer_index gs own (e_path e)) (Some i)) es) /\
  (forall i e, In e es -> layer_index gs own (e_path e) = Some i -> In e (nth i layers [])).
Proof.
  intros gs own es layers Hnd H. destruct (split_each_file_once gs own es layers H) as [Hl [Hf Ha]].
  repeat split; auto.
  - intros i _. rewrite Hf. apply filter_ext. intros e. unfold assigned. rewrite writer_index_layer_index by exact Hnd. reflexivity.
  - intros i e He Hi. apply Ha; auto. unfold assigned. rewrite writer_index_layer_index by exact Hnd. rewrite Hi. simpl. apply Nat.eqb_refl.
Qed.

(* ---- grouping: every package in exactly one group --------------------------------------- *)
Lemma add_by_origin_perm : forall p gs, Permutation (List.concat (add_by_origin p gs)) (p :: List.concat gs).
Proof.
  induction gs as [| g r IH]; simpl; auto.
  destruct (has_origin (p_origin p) g); simpl.
  - rewrite <- app_assoc. simpl. apply Permutation_sym, Permutation_middle.
  - eapply perm_trans; [apply Permutation_app_head; exact IH|]. apply Permutation_sym, Permutation_middle.
Qed.

Lemma by_origin_perm_gen : forall pkgs gs0,
  Permutation (List.concat (fold_left (fun gs p => add_by_origin p gs) pkgs gs0)) (List.concat gs0 ++ pkgs).
Proof.
  induction pkgs as [| p r IH]; intros gs0; simpl.
  - rewrite app_nil_r. auto.
  - eapply perm_trans; [apply IH|]. eapply perm_trans; [apply Permutation_app_tail, add_by_origin_perm|].
    simpl. apply Permutation_middle.
Qed.
Lemma by_origin_perm : forall pkgs, Permutation (List.concat (by_origin pkgs)) pkgs.
Proof. intros. unfold by_origin. apply (by_origin_perm_gen pkgs []). Qed.

Lemma has_name_in : forall n g, has_name n g = true <-> In n (map p_name g).
Proof.
  intros. unfold has_name. rewrite existsb_exists. split.
  - intros [p [Hp E]]. apply String.eqb_eq in E. subst. apply in_map. exact Hp.
  - intros H. apply in_map_iff in H. destruct H as [p [E Hp]]. exists p. split; auto. apply String.eqb_eq. exact E.
Qed.

Lemma remove_group_id : forall n gs, (forall g, In g gs -> has_name n g = false) -> remove_group n gs = gs.
Proof.
  induction gs as [| g r IH]; intros H; simpl; auto.
  rewrite (H g) by (simpl; auto). simpl. rewrite IH; auto. intros; apply H; simpl; auto.
Qed.

Lemma find_group_remove_perm : forall n gs g,
  NoDup (map p_name (List.concat gs)) -> find_group n gs = Some g ->
  Permutation (List.concat gs) (g ++ List.concat (remove_group n gs)).
Proof.
  induction gs as [| g0 r IH]; intros g Hnd H; simpl in *; [discriminate|].
  destruct (has_name n g0) eqn:E; simpl.
  - inversion H; subst. rewrite remove_group_id; auto.
    intros g' Hg'. destruct (has_name n g') eqn:E'; auto. exfalso.
    apply has_name_in in E. apply has_name_in in E'. rewrite map_app in Hnd.
    revert Hnd E E' Hg'. clear. intros Hnd E E' Hg'.
    assert (In n (map p_name (List.concat r))).
    { rewrite concat_map. apply in_concat. exists (map p_name g'). split; auto. apply in_map. exact Hg'. }
    induction (map p_name g) as [| x l IHl]; simpl in *; [contradiction|].
    inversion Hnd; subst. destruct E as [-> | E]; [apply H2; apply in_or_app; auto | apply IHl; auto].
  - assert (Hr : NoDup (map p_name (List.concat r))).
    { rewrite map_app in Hnd. clear -Hnd. induction (map p_name g0) as [| x l IHl]; simpl in Hnd; auto. inversion Hnd; auto. }
    eapply perm_trans; [apply Permutation_app_head, (IH g Hr H)|]. apply Permutation_app_swap_app.
Qed.

Lemma find_group_filter : forall n (P : grp -> bool) gs g,
  find_group n gs = Some g -> P g = true -> find_group n (filter P gs) = Some g.
Proof.
  induction gs as [| g0 r IH]; intros g H HP; simpl in *; [discriminate|].
  destruct (has_name n g0) eqn:E.
  - inversion H; subst. rewrite HP. simpl. rewrite E. reflexivity.
  - destruct (P g0); simpl; [rewrite E|]; apply IH; auto.
Qed.

Lemma names_concat : forall l : list grp, List.concat (map names_of l) = map p_name (List.concat l).
Proof. induction l as [| g r IH]; simpl; auto. rewrite map_app, IH. reflexivity. Qed.

Section GP.
  Variable rep_name : string -> string.
  Variable rep_sat : string -> pkg -> res bool.
  Variable pkgs0 : list pkg.
  Hypothesis names_distinct : NoDup (map p_name pkgs0).

  Definition part (gs : list grp) : Prop := Permutation (List.concat gs) pkgs0.

  Lemma part_nodup : forall gs, part gs -> NoDup (map p_name (List.concat gs)).
  Proof. intros gs H. eapply Permutation_NoDup; [| exact names_distinct]. apply Permutation_map, Permutation_sym, H. Qed.

  Lemma merge_one_part : forall pn gs rep gs', part gs -> merge_one rep_name rep_sat pn (Ok gs) rep = Ok gs' -> part gs'.
  Proof.
    intros pn gs rep gs' Hp H. unfold merge_one in H. cbn [rbind] in H.
    destruct (find_group (rep_name rep) gs) as [replacee|] eqn:E1; [| inversion H; subst; exact Hp].
    destruct (find_pkg (rep_name rep) replacee) as [q|]; [| inversion H; subst; exact Hp].
    destruct (rep_sat rep q) as [ok| | |]; try discriminate. cbn [rbind] in H.
    destruct ok; simpl in H; [| inversion H; subst; exact Hp].
    destruct (find_group pn gs) as [g|] eqn:E2; [| discriminate].
    destruct (has_name pn replacee) eqn:E3; inversion H; subst; [exact Hp|]. clear H.
    unfold part in *. eapply perm_trans; [| exact Hp]. apply Permutation_sym.
    pose proof (part_nodup gs Hp) as Hnd.
    eapply perm_trans; [apply (find_group_remove_perm pn gs g Hnd E2)|]. simpl. rewrite <- app_assoc.
    apply Permutation_app_head.
    apply find_group_remove_perm.
    - assert (Q : Permutation (List.concat gs) (g ++ List.concat (remove_group pn gs))) by (apply find_group_remove_perm; auto).
      apply (Permutation_map p_name) in Q. apply (Permutation_NoDup Q) in Hnd. rewrite map_app in Hnd.
      clear -Hnd. induction (map p_name g) as [| x l IHl]; simpl in Hnd; auto. inversion Hnd; auto.
    - apply find_group_filter; auto. rewrite E3. reflexivity.
  Qed.

  Lemma merge_one_absorb : forall pn acc rep, merge_one rep_name rep_sat pn acc rep = rbind acc (fun gs => merge_one rep_name rep_sat pn (Ok gs) rep).
  Proof. intros. destruct acc; reflexivity. Qed.

  Lemma fold_merge_one_part : forall pn reps acc gs', fold_left (merge_one rep_name rep_sat pn) reps acc = Ok gs' ->
    exists gs, acc = Ok gs /\ (part gs -> part gs').
  Proof.
    induction reps as [| rep r IH]; intros acc gs' H; simpl in H.
    - exists gs'. split; auto.
    - apply IH in H. destruct H as [gs1 [E Hp]]. rewrite merge_one_absorb in E.
      destruct acc as [gs| | |]; try discriminate. cbn [rbind] in E. exists gs. split; auto.
      intros Hg. apply Hp. eapply merge_one_part; eauto.
  Qed.

  Lemma merge_all_part : forall ord gs gs', part gs -> merge_all rep_name rep_sat ord gs = Ok gs' -> part gs'.
  Proof.
    unfold merge_all. intros ord. 
    assert (G : forall acc gs', fold_left (merge_pkg rep_name rep_sat) ord acc = Ok gs' -> exists gs, acc = Ok gs /\ (part gs -> part gs')).
    { induction ord as [| pr r IH]; intros acc gs' H; simpl in H.
      - exists gs'. split; auto.
      - apply IH in H. destruct H as [gs1 [E Hp]]. unfold merge_pkg in E. apply fold_merge_one_part in E.
        destruct E as [gs [-> Hq]]. exists gs. split; auto. }
    intros gs gs' Hp H. apply G in H. destruct H as [gs0 [E Hq]]. inversion E; subst. auto.
  Qed.

  Lemma insert_grp_perm : forall x l, Permutation (x :: l) (insert_grp x l).
  Proof.
    induction l as [| y r IH]; simpl; auto. destruct (grp_leb x y); auto.
    eapply perm_trans; [apply perm_swap|]. apply perm_skip. exact IH.
  Qed.
  Lemma sort_grps_perm : forall l, Permutation l (sort_grps l).
  Proof. induction l as [| x r IH]; simpl; auto. eapply perm_trans; [apply perm_skip; exact IH | apply insert_grp_perm]. Qed.
  Lemma insert_pkg_perm : forall x l, Permutation (x :: l) (insert_pkg x l).
  Proof.
    induction l as [| y r IH]; simpl; auto. destruct (pkg_leb x y); auto.
    eapply perm_trans; [apply perm_swap|]. apply perm_skip. exact IH.
  Qed.
  Lemma sort_pkgs_perm : forall l, Permutation l (sort_pkgs l).
  Proof. induction l as [| x r IH]; simpl; auto. eapply perm_trans; [apply perm_skip; exact IH | apply insert_pkg_perm]. Qed.

  Lemma concat_perm : forall A (l l' : list (list A)), Permutation l l' -> Permutation (List.concat l) (List.concat l').
  Proof.
    induction 1; simpl; auto.
    - apply Permutation_app_head. auto.
    - rewrite !app_assoc. apply Permutation_app_tail, Permutation_app_comm.
    - eapply perm_trans; eauto.
  Qed.
  Lemma concat_map_sort_perm : forall l, Permutation (List.concat (map sort_pkgs l)) (List.concat l).
  Proof.
    induction l as [| g r IH]; simpl; auto. apply Permutation_app; auto. apply Permutation_sym, sort_pkgs_perm.
  Qed.
  Lemma cut_budget_concat : forall b l, List.concat (cut_budget b l) = List.concat l.
  Proof.
    intros. unfold cut_budget. destruct (Z.of_nat (List.length l) >? b)%Z; auto.
    rewrite concat_app. simpl. rewrite app_nil_r, <- concat_app, firstn_skipn. reflexivity.
  Qed.

  Lemma group_with_partition : forall o3 o4 budget gs,
    (forall l, Permutation (o4 l) l) ->
    group_with rep_name rep_sat o3 o4 pkgs0 budget = Ok gs ->
    Permutation (List.concat (map names_of gs)) (map p_name pkgs0).
  Proof.
    intros o3 o4 budget gs Ho4 H. unfold group_with in H.
    destruct (merge_all rep_name rep_sat (o3 (replace_map pkgs0)) (by_origin pkgs0)) as [m| | |] eqn:E; try discriminate.
    cbn [rbind] in H. inversion H; subst. clear H.
    apply merge_all_part in E; [| apply by_origin_perm].
    rewrite (names_concat (map sort_pkgs (cut_budget budget (sort_grps (o4 m))))).
    apply Permutation_map.
    eapply perm_trans; [apply concat_map_sort_perm|]. rewrite cut_budget_concat.
    eapply perm_trans; [apply concat_perm, Permutation_sym, sort_grps_perm|].
    eapply perm_trans; [apply concat_perm, Ho4|]. exact E.
  Qed.
End GP.

(* alignStacks returns the main stack minus the common prefix *)
Lemma align_suffix : forall main l, exists pre, main = pre ++ align main l /\ List.length pre <= List.length l.
Proof.
  induction main as [| m mr IH]; intros l; simpl.
  - exists []. split; auto. simpl. lia.
  - destruct l as [| x lr]; [exists []; split; auto|].
    destruct (path_eqb (e_path m) (e_path x)).
    + destruct (IH lr) as [pre [E Hl]]. exists (m :: pre). split; [simpl; rewrite <- E; reflexivity | simpl; lia].
    + exists []. split; auto. simpl. lia.
Qed.

(* budget 0 with at least one package: one group, i.e. more than the budget *)
Definition w_pkg (n : string) : pkg := {| p_name := n; p_version := "1"; p_origin := n; p_size := 1; p_replaces := [] |}.
Lemma budget_zero_one_group :
  group (fun r => r) (fun _ _ => Ok true) [w_pkg "a"; w_pkg "b"] 0 = Ok [[w_pkg "a"; w_pkg "b"]].
Proof. vm_compute. reflexivity. Qed.
