(* C10 — proofs about Model/Layers.v and Spec/LayersSpec.v. *)
From Apko Require Import Base.Prelude Model.Tar Spec.TarSpec Proofs.TarProofs Model.Layers Spec.LayersSpec.
From Coq Require Import Sorting.Permutation Sorting.Sorted OrderedTypeEx.
Open Scope string_scope. Open Scope list_scope.

(* ---- the budget ------------------------------------------------------------------ *)
Lemma cut_budget_length : forall budget gs, (0 <= budget)%Z ->
  (Z.of_nat (List.length (cut_budget budget gs)) <= Z.max budget 1)%Z.
Proof.
  intros budget gs Hb. unfold cut_budget.
  destruct (Z.of_nat (List.length gs) >? budget)%Z eqn:E.
  - apply Z.gtb_lt in E. rewrite app_length, firstn_length. cbn [List.length]. lia.
  - assert (Z.of_nat (List.length gs) <= budget)%Z by (destruct (Z.gtb_spec (Z.of_nat (List.length gs)) budget); [discriminate | lia]). lia.
Qed.

Section G.
  Variable rep_name : string -> string.
  Variable rep_sat : string -> pkg -> res bool.

  Lemma group_with_count : forall o3 o4 pkgs budget gs,
    group_with rep_name rep_sat o3 o4 pkgs budget = Ok gs ->
    (0 <= budget)%Z /\ (Z.of_nat (List.length gs) <= Z.max budget 1)%Z.
  Proof.
    intros o3 o4 pkgs budget gs H. unfold group_with in H.
    destruct (merge_all rep_name rep_sat (o3 (replace_map pkgs)) (by_origin pkgs)) as [m| | |]; try discriminate.
    cbn [rbind] in H.
    destruct ((budget <? 0)%Z || (budget >? max_cap)%Z) eqn:E; try discriminate.
    apply orb_false_iff in E. destruct E as [E1 _]. apply Z.ltb_ge in E1.
    inversion H; subst. split; auto. rewrite map_length. apply cut_budget_length; auto.
  Qed.

  Lemma group_with_negative : forall o3 o4 pkgs budget,
    (budget < 0)%Z -> forall gs, group_with rep_name rep_sat o3 o4 pkgs budget <> Ok gs.
  Proof. intros o3 o4 pkgs budget Hb gs H. apply group_with_count in H. lia. Qed.
End G.
