(* C10 — group.size is a uint64: `g.size += pkg.InstalledSize` wraps modulo 2^64.
   The model's [g_size] wraps at every addition; here: it is the true sum modulo
   2^64; the groups come out in descending order of the WRAPPED size (largest
   name ascending among equal sizes) whenever no budget cut-off happened; that
   is the descending order of the true sizes when no group's sum reaches 2^64,
   and not otherwise (witness).  Partition, co-location, count and independence
   of the map orders (Proofs/LayersProofs.v, LayersGroups.v) never looked at the
   sizes: they hold for every [p_size], wrapped or not. *)
From Apko Require Import Base.Prelude Model.Tar Model.Layers Spec.LayersSpec Proofs.LayersProofs Proofs.LayersGroups.
From Coq Require Import Sorting.Sorted Sorting.Permutation.
Open Scope string_scope. Open Scope list_scope.

(* the sum Go would compute with unbounded integers *)
Definition g_sum (g : grp) : N := fold_left (fun s p => (s + p_size p)%N) g 0%N.

Lemma wrap64_idem : forall a, wrap64 (wrap64 a) = wrap64 a.
Proof. intros a. unfold wrap64. apply N.mod_mod. exact u64_mod_nz. Qed.

Lemma g_size_fold : forall g a,
  fold_left (fun s p => wrap64 (s + p_size p)) g (wrap64 a) = wrap64 (fold_left (fun s p => (s + p_size p)%N) g a).
Proof.
  induction g as [| p g IH]; intros a; simpl; [reflexivity|].
  rewrite wrap64_add_l. apply IH.
Qed.

Theorem g_size_sum : forall g, g_size g = wrap64 (g_sum g).
Proof. intros g. unfold g_size, g_sum. change 0%N with (wrap64 0) at 1. apply g_size_fold. Qed.

Lemma g_size_lt : forall g, (g_size g < u64_mod)%N.
Proof. intros g. rewrite g_size_sum. unfold wrap64. apply N.mod_lt. exact u64_mod_nz. Qed.

Lemma g_size_exact : forall g, (g_sum g < u64_mod)%N -> g_size g = g_sum g.
Proof. intros g H. rewrite g_size_sum. unfold wrap64. apply N.mod_small. exact H. Qed.

(* ---- the order of the groups ------------------------------------------------------------------- *)
Definition gle (a b : grp) : Prop := grp_leb a b = true.

Lemma SS_map : forall A (R : A -> A -> Prop) (f : A -> A) l,
  (forall a b, R a b -> R (f a) (f b)) -> StronglySorted R l -> StronglySorted R (map f l).
Proof.
  intros A R f l Hf. induction 1 as [| a l Hs IH Ha]; simpl; constructor; auto.
  rewrite Forall_forall in *. intros y Hy. apply in_map_iff in Hy. destruct Hy as [x [<- Hx]]. apply Hf. exact (Ha x Hx).
Qed.

Lemma SS_weaken_in : forall A (R R' : A -> A -> Prop) l,
  (forall a b, In a l -> In b l -> R a b -> R' a b) -> StronglySorted R l -> StronglySorted R' l.
Proof.
  intros A R R' l H S. induction S as [| a l Hs IH Ha]; constructor.
  - apply IH. intros x y Hx Hy. apply H; right; assumption.
  - rewrite Forall_forall in *. intros y Hy. apply H; [left; reflexivity | right; exact Hy | exact (Ha y Hy)].
Qed.

Lemma sort_grps_sorted : forall l, StronglySorted gle (sort_grps l).
Proof. intros l. rewrite sort_grps_isort. exact (isort_sorted grp grp_leb grp_leb_total grp_leb_trans l). Qed.

Lemma cut_budget_id : forall b S, (Z.of_nat (List.length (cut_budget b S)) < b)%Z -> cut_budget b S = S.
Proof.
  intros b S H. unfold cut_budget in *. destruct (Z.of_nat (List.length S) >? b)%Z eqn:E; [| reflexivity].
  exfalso. apply Z.gtb_lt in E. rewrite app_length, firstn_length in H. cbn [List.length] in H. lia.
Qed.

Section G.
  Variable rep_name : string -> string.
  Variable rep_sat : string -> pkg -> res bool.

  (* fewer groups than the budget: no cut-off happened, the list is the sorted one *)
  Theorem group_with_descending : forall o3 o4 pkgs budget gs,
    group_with rep_name rep_sat o3 o4 pkgs budget = Ok gs ->
    (Z.of_nat (List.length gs) < budget)%Z ->
    StronglySorted gle gs.
  Proof.
    intros o3 o4 pkgs budget gs H Hlt. unfold group_with in H.
    destruct (merge_all rep_name rep_sat (o3 (replace_map pkgs)) (by_origin pkgs)) as [m| | |]; try discriminate.
    cbn [rbind] in H. inversion H; subst. rewrite map_length in Hlt. rewrite (cut_budget_id _ _ Hlt).
    apply SS_map; [| apply sort_grps_sorted]. intros a b Hab. unfold gle in *. rewrite grp_leb_sort. exact Hab.
  Qed.

  (* ... which is the descending order of the TRUE sizes when no sum reaches 2^64 *)
  Theorem group_with_descending_true_size : forall o3 o4 pkgs budget gs,
    group_with rep_name rep_sat o3 o4 pkgs budget = Ok gs ->
    (Z.of_nat (List.length gs) < budget)%Z ->
    (forall g, In g gs -> (g_sum g < u64_mod)%N) ->
    StronglySorted (fun a b => (g_sum b <= g_sum a)%N) gs.
  Proof.
    intros o3 o4 pkgs budget gs H Hlt Hsmall.
    apply (SS_weaken_in grp gle); [| exact (group_with_descending o3 o4 pkgs budget gs H Hlt)].
    intros a b Ha Hb Hab. unfold gle in Hab. apply grp_leb_iff in Hab.
    rewrite <- (g_size_exact a (Hsmall a Ha)), <- (g_size_exact b (Hsmall b Hb)). lia.
  Qed.
End G.

(* ---- the witness: two packages of one origin with InstalledSize 2^63 each ------------------------ *)
Definition w_half : N := 9223372036854775808%N.
Definition w_big (n : string) : pkg := {| p_name := n; p_version := "1"; p_origin := "big"; p_size := w_half; p_replaces := [] |}.
Definition w_small (n : string) (sz : N) : pkg := {| p_name := n; p_version := "1"; p_origin := n; p_size := sz; p_replaces := [] |}.
Definition w_wrap_pkgs : list pkg := [w_big "a"; w_big "b"; w_small "c" 1; w_small "d" 2].

Lemma size_wrap_witness :
  g_sum [w_big "a"; w_big "b"] = u64_mod /\ g_size [w_big "a"; w_big "b"] = 0%N /\
  (* budget 4, no cut-off: the origin holding 2^64 bytes sorts LAST *)
  group (fun r => r) (fun _ _ => Ok true) w_wrap_pkgs 4 = Ok [[w_small "d" 2]; [w_small "c" 1]; [w_big "a"; w_big "b"]] /\
  ~ StronglySorted (fun a b => (g_sum b <= g_sum a)%N) [[w_small "d" 2]; [w_small "c" 1]; [w_big "a"; w_big "b"]] /\
  (* budget 2: the group kept on its own is {d} (2 bytes); the 2^64-byte origin is merged into the remainder *)
  group (fun r => r) (fun _ _ => Ok true) w_wrap_pkgs 2 = Ok [[w_small "d" 2]; [w_big "a"; w_big "b"; w_small "c" 1]] /\
  (* and the specification of the grouping still holds of both results *)
  groups_tags (fun r => r) (fun _ _ => Ok true) w_wrap_pkgs 4 [["d"]; ["c"]; ["a"; "b"]] = [] /\
  groups_tags (fun r => r) (fun _ _ => Ok true) w_wrap_pkgs 2 [["d"]; ["a"; "b"; "c"]] = [].
Proof.
  split; [vm_compute; reflexivity|]. split; [vm_compute; reflexivity|]. split; [vm_compute; reflexivity|]. split.
  - intros S. inversion S as [| ? ? _ F]; subst. rewrite Forall_forall in F.
    specialize (F [w_big "a"; w_big "b"] (or_intror (or_introl eq_refl))). vm_compute in F. apply F. reflexivity.
  - split; [vm_compute; reflexivity|]. split; vm_compute; reflexivity.
Qed.
