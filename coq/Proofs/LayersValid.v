(* C10 — the boolean validators decide the specification:
   groups_tags … = [] <-> GroupsOk …,  layers_tags … = [] <-> LayersOk …. *)
From Apko Require Import Base.Prelude Model.Tar Spec.TarSpec Proofs.TarProofs Model.Layers Spec.LayersSpec Proofs.LayersProofs.
From Coq Require Import Sorting.Permutation.
Open Scope string_scope. Open Scope list_scope.

Lemma tag_if_nil : forall b t, tag_if b t = [] <-> b = false.
Proof. intros [|] t; simpl; split; intros; congruence. Qed.

Lemma app_nil_iff : forall A (a b : list A), a ++ b = [] <-> a = [] /\ b = [].
Proof. intros. split; [apply app_eq_nil | intros [-> ->]; reflexivity]. Qed.

(* ---- grouping ------------------------------------------------------------------------------- *)
Lemma count_count_occ : forall x l, count x l = count_occ string_dec l x.
Proof.
  induction l as [| y l IH]; simpl; auto. unfold count in *. simpl.
  destruct (string_dec y x) as [-> | N].
  - rewrite String.eqb_refl. simpl. rewrite IH. reflexivity.
  - destruct (String.eqb x y) eqn:E; [apply String.eqb_eq in E; congruence | exact IH].
Qed.

Lemma permb_spec : forall a b, permb a b = true <-> Permutation a b.
Proof.
  intros a b. unfold permb. rewrite forallb_forall. rewrite (Permutation_count_occ string_dec). split.
  - intros H x. destruct (in_dec string_dec x (a ++ b)) as [Hin | Hnot].
    + specialize (H x Hin). apply Nat.eqb_eq in H. rewrite !count_count_occ in H. exact H.
    + assert (Na : ~ In x a) by (intros G; apply Hnot; apply in_or_app; auto).
      assert (Nb : ~ In x b) by (intros G; apply Hnot; apply in_or_app; auto).
      rewrite (proj1 (count_occ_not_In string_dec a x) Na), (proj1 (count_occ_not_In string_dec b x) Nb). reflexivity.
  - intros H x _. apply Nat.eqb_eq. rewrite !count_count_occ. apply H.
Qed.

Lemma same_groupb_spec : forall gs a b, same_groupb gs a b = true <-> same_group gs a b.
Proof.
  intros gs a b. unfold same_groupb, same_group. rewrite existsb_exists. split.
  - intros [g [Hg H]]. apply andb_true_iff in H. destruct H as [H1 H2]. apply mem_in in H1. apply mem_in in H2. exists g. auto.
  - intros [g [Hg [H1 H2]]]. exists g. split; auto. apply andb_true_iff. split; apply mem_in; assumption.
Qed.

Lemma budget_clause : forall budget n,
  (if (0 <=? budget)%Z && negb (Z.of_nat n <=? budget)%Z
   then [if (budget =? 0)%Z then "viol:group-count-exceeds-budget/budget-zero" else "viol:group-count-exceeds-budget"]
   else []) = [] <-> ((0 <= budget)%Z -> (Z.of_nat n <= budget)%Z).
Proof.
  intros budget n. destruct (0 <=? budget)%Z eqn:E1; destruct (Z.of_nat n <=? budget)%Z eqn:E2; simpl;
    try apply Z.leb_le in E1; try apply Z.leb_le in E2; try apply Z.leb_gt in E1; try apply Z.leb_gt in E2;
    split; intros H; try reflexivity; try lia; try discriminate.
Qed.

Theorem groups_tags_decides : forall rep_name rep_sat pkgs budget gs,
  groups_tags rep_name rep_sat pkgs budget gs = [] <-> GroupsOk rep_name rep_sat pkgs budget gs.
Proof.
  intros rn rs pkgs budget gs. unfold groups_tags, GroupsOk.
  rewrite !app_nil_iff, !tag_if_nil, !negb_false_iff, budget_clause, permb_spec.
  assert (A : forallb (fun p => forallb (fun q =>
      negb (String.eqb (p_origin p) (p_origin q)) || same_groupb gs (p_name p) (p_name q)) pkgs) pkgs = true <->
      (forall p q, In p pkgs -> In q pkgs -> p_origin p = p_origin q -> same_group gs (p_name p) (p_name q))).
  { rewrite forallb_forall. split.
    - intros H p q Hp Hq E. specialize (H p Hp). rewrite forallb_forall in H. specialize (H q Hq).
      apply orb_true_iff in H. destruct H as [H | H]; [| apply same_groupb_spec; exact H].
      apply negb_true_iff in H. apply String.eqb_neq in H. congruence.
    - intros H p Hp. apply forallb_forall. intros q Hq. destruct (String.eqb (p_origin p) (p_origin q)) eqn:E; simpl; auto.
      apply same_groupb_spec. apply H; auto. apply String.eqb_eq. exact E. }
  assert (B : forallb (fun p => forallb (fun q => forallb (fun rep =>
      negb (String.eqb (rn rep) (p_name q) && match rs rep q with Ok true => true | _ => false end)
      || same_groupb gs (p_name p) (p_name q)) (p_replaces p)) pkgs) pkgs = true <->
      (forall p q rep, In p pkgs -> In q pkgs -> In rep (p_replaces p) -> rn rep = p_name q ->
                       rs rep q = Ok true -> same_group gs (p_name p) (p_name q))).
  { rewrite forallb_forall. split.
    - intros H p q rep Hp Hq Hr E S. specialize (H p Hp). rewrite forallb_forall in H. specialize (H q Hq).
      rewrite forallb_forall in H. specialize (H rep Hr). rewrite S in H.
      assert (T : String.eqb (rn rep) (p_name q) = true) by (apply String.eqb_eq; exact E). rewrite T in H. simpl in H.
      apply same_groupb_spec. exact H.
    - intros H p Hp. apply forallb_forall. intros q Hq. apply forallb_forall. intros rep Hr.
      destruct (String.eqb (rn rep) (p_name q)) eqn:E; simpl; auto.
      destruct (rs rep q) as [[|]| | |] eqn:S; simpl; auto.
      apply same_groupb_spec. apply (H p q rep); auto. apply String.eqb_eq. exact E. }
  rewrite A, B. tauto.
Qed.

(* ---- layers ----------------------------------------------------------------------------------- *)
Lemma kind_eqb_spec : forall a b, kind_eqb a b = true <-> a = b.
Proof. intros [] []; simpl; split; intros; congruence. Qed.

Lemma opt_string_eqb_spec : forall a b : option string, option_eqb String.eqb a b = true <-> a = b.
Proof.
  intros [x|] [y|]; simpl; split; intros H; try discriminate; auto.
  - apply String.eqb_eq in H. congruence.
  - inversion H. apply String.eqb_refl.
Qed.

Lemma entry_eqb_spec : forall a b, entry_eqb a b = true <-> a = b.
Proof.
  intros a b. unfold entry_eqb. rewrite !andb_true_iff, path_eqb_spec, kind_eqb_spec, !N.eqb_eq, !Z.eqb_eq,
    !opt_string_eqb_spec, String.eqb_eq, xattrs_eqb_spec.
  split.
  - intros H. destruct a, b; simpl in *. repeat match goal with H : _ /\ _ |- _ => destruct H end. subst. reflexivity.
  - intros ->. repeat split; reflexivity.
Qed.

Lemma in_seqn : forall n i, In i (seqn n) <-> i < n.
Proof.
  induction n as [| n IH]; intros i; simpl; [split; [contradiction | lia]|].
  rewrite in_app_iff, IH. simpl. lia.
Qed.

Lemma opt_nat_eqb_spec : forall a b : option nat, option_eqb Nat.eqb a b = true <-> a = b.
Proof.
  intros [x|] [y|]; simpl; split; intros H; try discriminate; auto.
  - apply Nat.eqb_eq in H. congruence.
  - inversion H. apply Nat.eqb_refl.
Qed.

(* the per-layer check, with the entries already seen *)
Lemma wellformed_from_spec : forall es seen, wellformed_from seen es = true <->
  (forall pre e post, es = pre ++ e :: post ->
    (parent (e_path e) <> [] -> exists d, In d (seen ++ pre) /\ is_dir d = true /\ e_path d = parent (e_path e)) /\
    (forall d, In d (seen ++ pre) -> e_path d <> e_path e)).
Proof.
  induction es as [| x r IH]; intros seen; simpl.
  - split; auto. intros _ pre e post H. destruct pre; discriminate.
  - rewrite !andb_true_iff, IH, negb_true_iff. split.
    + intros [[H1 H2] H3] pre e post E. destruct pre as [| y pre].
      * simpl in E. inversion E; subst. rewrite app_nil_r. split.
        -- intros Hp. destruct (parent (e_path e)) as [| a pp] eqn:Ep; [congruence|].
           apply existsb_exists in H1. destruct H1 as [d [Hd Hc]]. apply andb_true_iff in Hc. destruct Hc as [Hc1 Hc2].
           apply path_eqb_spec in Hc2. exists d. auto.
        -- intros d Hd Heq. assert (T : existsb (fun d0 => path_eqb (e_path d0) (e_path e)) seen = true).
           { apply existsb_exists. exists d. split; auto. apply path_eqb_spec. exact Heq. }
           congruence.
      * simpl in E. inversion E; subst. destruct (H3 pre e post eq_refl) as [A B]. split.
        -- intros Hp. destruct (A Hp) as [d [Hd R]]. exists d. split; auto.
           simpl in Hd. apply in_or_app. destruct Hd as [<- | Hd]; [right; left; reflexivity|].
           apply in_app_or in Hd. destruct Hd; [left | right; right]; assumption.
        -- intros d Hd. apply B. simpl. apply in_app_or in Hd. destruct Hd as [Hd | [<- | Hd]]; [right | left | right]; auto;
             apply in_or_app; auto.
    + intros H. split; [split|].
      * destruct (H [] x r eq_refl) as [A _]. rewrite app_nil_r in A.
        destruct (parent (e_path x)) as [| a pp] eqn:Ep; [reflexivity|].
        destruct (A ltac:(discriminate)) as [d [Hd [Hdir Hpath]]]. apply existsb_exists. exists d. split; auto.
        rewrite Hdir. simpl. apply path_eqb_spec. exact Hpath.
      * destruct (H [] x r eq_refl) as [_ B]. rewrite app_nil_r in B.
        destruct (existsb (fun d => path_eqb (e_path d) (e_path x)) seen) eqn:T; auto.
        apply existsb_exists in T. destruct T as [d [Hd Hc]]. apply path_eqb_spec in Hc. exfalso. exact (B d Hd Hc).
      * intros pre e post E. destruct (H (x :: pre) e post ltac:(simpl; rewrite E; reflexivity)) as [A B]. split.
        -- intros Hp. destruct (A Hp) as [d [Hd R]]. exists d. split; auto.
           apply in_app_or in Hd. simpl. destruct Hd as [Hd | [<- | Hd]]; [right; apply in_or_app; left | left | right; apply in_or_app; right]; auto.
        -- intros d Hd. apply B. simpl in Hd. apply in_or_app. destruct Hd as [<- | Hd]; [right; left; reflexivity|].
           apply in_app_or in Hd. destruct Hd; [left | right; right]; assumption.
Qed.

Lemma wellformed_spec : forall es, wellformed_from [] es = true <-> LayerWellFormed es.
Proof. intros es. rewrite wellformed_from_spec. unfold LayerWellFormed. simpl. tauto. Qed.

Lemma links_inside_from_spec : forall es seen, links_inside_from seen es = true <->
  (forall pre x post, es = pre ++ x :: post -> e_kind x = KLink ->
     exists t, In t (seen ++ pre) /\ e_path t = split_slash (e_link x) /\ is_dir t = false).
Proof.
  induction es as [| y r IH]; intros seen; simpl.
  - split; auto. intros _ pre x post H. destruct pre; discriminate.
  - rewrite andb_true_iff, IH. split.
    + intros [H1 H2] pre x post E Hk. destruct pre as [| z pre]; simpl in E; inversion E; subst.
      * rewrite Hk in H1. apply existsb_exists in H1. destruct H1 as [t [Ht Hc]]. apply andb_true_iff in Hc. destruct Hc as [Hc1 Hc2].
        apply negb_true_iff in Hc1. apply path_eqb_spec in Hc2. exists t. rewrite app_nil_r. auto.
      * destruct (H2 pre x post eq_refl Hk) as [t [Ht R]]. exists t. split; auto.
        simpl in Ht. apply in_or_app. destruct Ht as [<- | Ht]; [right; left; reflexivity|].
        apply in_app_or in Ht. destruct Ht; [left | right; right]; assumption.
    + intros H. split.
      * destruct (e_kind y) eqn:K; auto. destruct (H [] y r eq_refl K) as [t [Ht [Pt Dt]]]. rewrite app_nil_r in Ht.
        apply existsb_exists. exists t. split; auto. rewrite Dt. simpl. apply path_eqb_spec. exact Pt.
      * intros pre x post E Hk. destruct (H (y :: pre) x post ltac:(simpl; rewrite E; reflexivity) Hk) as [t [Ht R]].
        exists t. split; auto. apply in_app_or in Ht. simpl.
        destruct Ht as [Ht | [<- | Ht]]; [right; apply in_or_app; left | left | right; apply in_or_app; right]; auto.
Qed.

Lemma links_inside_spec : forall es, links_inside_from [] es = true <-> LayerLinksInside es.
Proof. intros es. rewrite links_inside_from_spec. unfold LayerLinksInside. simpl. tauto. Qed.

Theorem layers_tags_decides : forall gs own single layers,
  layers_tags gs own single layers = [] <-> LayersOk gs own single layers.
Proof.
  intros gs own single layers. unfold layers_tags, LayersOk.
  rewrite !app_nil_iff, !tag_if_nil, !negb_false_iff, Nat.eqb_eq.
  assert (A : match extract (List.concat layers), extract single with
              | Ok a, Ok b => tag_if (negb (forest_eqb (canon_forest a) (canon_forest b))) "viol:flatten-differs-from-single-layer"
              | Ok _, _ => ["viol:single-layer-not-extractable"]
              | _, _ => ["viol:layers-not-extractable-in-order"]
              end = [] <->
              exists a b, extract (List.concat layers) = Ok a /\ extract single = Ok b /\ canon_forest a = canon_forest b).
  { destruct (extract (List.concat layers)) as [a| | |]; destruct (extract single) as [b| | |];
      try (split; [discriminate | intros [a' [b' [E1 [E2 _]]]]; discriminate]).
    rewrite tag_if_nil, negb_false_iff, forest_eqb_spec. split.
    - intros H. exists a, b. auto.
    - intros [a' [b' [E1 [E2 E3]]]]. inversion E1; inversion E2; subst. exact E3. }
  assert (B : forallb (fun i => list_eqb entry_eqb (filter nondir (nth i layers []))
        (filter (fun e => nondir e && option_eqb Nat.eqb (layer_index gs own (e_path e)) (Some i)) single))
      (seqn (List.length layers)) = true <->
      forall i, i < List.length layers -> filter nondir (nth i layers []) =
        filter (fun e => nondir e && option_eqb Nat.eqb (layer_index gs own (e_path e)) (Some i)) single).
  { rewrite forallb_forall. split.
    - intros H i Hi. apply (list_eqb_spec entry_eqb entry_eqb_spec). apply H. apply in_seqn. exact Hi.
    - intros H i Hi. apply (list_eqb_spec entry_eqb entry_eqb_spec). apply H. apply in_seqn. exact Hi. }
  assert (C : forallb (wellformed_from []) layers = true <-> Forall LayerWellFormed layers).
  { rewrite forallb_forall, Forall_forall. split; intros H l Hl; apply wellformed_spec; apply H; exact Hl. }
  assert (D : forallb (links_inside_from []) layers = true <-> Forall LayerLinksInside layers).
  { rewrite forallb_forall, Forall_forall. split; intros H l Hl; apply links_inside_spec; apply H; exact Hl. }
  rewrite A, B, C, D. tauto.
Qed.
