(* C10 — flattening the layers of the walk of a tree WITH recorded hard links.
   C06's round trip for such trees (Proofs/TarLinks.v, imported read-only:
   [extract_walk_links], [link_target]; envelope [wfl_forest], Spec/TarSpec.v)
   composed with the flatten theorem for walk sequences with link entries
   (Proofs/LayersLinks.v [split_flatten_links]).  The one condition that is
   C10's own: a recorded link has the owner of its target (tarfs: the link
   shares its target's node, hence memFileInfo.Package()). *)
From Apko Require Import Base.Prelude Model.Tar Spec.TarSpec Proofs.TarProofs Proofs.TarRoundtrip Proofs.TarOrder Proofs.TarLinks
  Model.Layers Spec.LayersSpec Proofs.LayersProofs Proofs.LayersChain Proofs.LayersExtract Proofs.LayersFlatten Proofs.LayersLinks.
From Coq Require Import Sorting.Sorted Sorting.Permutation.
Open Scope string_scope. Open Scope list_scope.

(* every recorded additional name has the owner of the name it was recorded against *)
Definition LinksShareOwner (own : path -> option string) (t : forest) : Prop :=
  forall p m l q, lookup t p = Some (File m l (Some q)) -> own q = own p.

(* inside the envelope the walk satisfies the condition on link entries of c10_flatten *)
Lemma walk_links_ok_own : forall ev t own, wfl_forest (has_hdr ev) t = true -> LinksShareOwner own t ->
  links_ok own (walk ev t).
Proof.
  intros ev t own H Hown pre x post E Hk.
  destruct (link_target ev t H pre x post E Hk) as [m [l [q [h' [Hlx [Ht [Hq Hin]]]]]]].
  exists (node_entry ev q (File m l h')). split; [exact Hin|]. split; [rewrite node_entry_path; auto|].
  split; [apply node_entry_not_dir|]. rewrite node_entry_path. exact (Hown _ _ _ _ Hlx).
Qed.

(* the condition read off the walk's link entries (decidable on a concrete tree) *)
Lemma some_node_klink : forall ev f p m l q, link_ok (has_hdr ev) f p m l q = true ->
  e_kind (node_entry ev p (File m l (Some q))) = KLink.
Proof.
  intros ev f p m l q H. destruct (link_ok_inv _ _ _ _ _ _ H) as [Hh [_ [_ [Hs _]]]].
  simpl. unfold file_entry. rewrite Hh. destruct l as [c s | t | a b]; try reflexivity.
  rewrite (Hs t eq_refl). reflexivity.
Qed.

Lemma links_share_owner_of_walk : forall ev t own, wfl_forest (has_hdr ev) t = true ->
  (forall x, In x (walk ev t) -> e_kind x = KLink -> own (tgt x) = own (e_path x)) -> LinksShareOwner own t.
Proof.
  intros ev t own H Hw p m l q Hl.
  pose proof (wfl_lookup _ _ _ _ H Hl) as Hok. simpl in Hok.
  set (x := node_entry ev p (File m l (Some q))).
  assert (Hx : In x (walk ev t)).
  { apply walk_in_iff; [exact (wfl_wf_names _ _ H)|]. exists p, (File m l (Some q)). auto. }
  assert (Hk : e_kind x = KLink) by (exact (some_node_klink ev t p m l q Hok)).
  pose proof (Hw x Hx Hk) as G.
  apply in_split in Hx. destruct Hx as [pre [post E]].
  destruct (link_target ev t H pre x post E Hk) as [m' [l' [q' [h' [Hlx [Ht _]]]]]].
  unfold x in Hlx. rewrite node_entry_path in Hlx. rewrite Hl in Hlx. inversion Hlx as [[E1 E2 E3]].
  rewrite Ht in G. unfold x in G. rewrite node_entry_path in G. congruence.
Qed.

Definition links_share_ownerb (own : path -> option string) (es : list entry) : bool :=
  forallb (fun x => match e_kind x with
                    | KLink => option_eqb String.eqb (own (tgt x)) (own (e_path x))
                    | _ => true
                    end) es.
Lemma links_share_ownerb_spec : forall own es, links_share_ownerb own es = true ->
  forall x, In x es -> e_kind x = KLink -> own (tgt x) = own (e_path x).
Proof.
  intros own es H x Hx Hk. unfold links_share_ownerb in H. rewrite forallb_forall in H. specialize (H x Hx). rewrite Hk in H.
  destruct (own (tgt x)) as [a|], (own (e_path x)) as [b|]; simpl in H; try discriminate; [| reflexivity].
  apply String.eqb_eq in H. subst. reflexivity.
Qed.

Theorem split_flatten_walk_links : forall ev t gs own layers,
  wfl_forest (has_hdr ev) t = true ->
  (forall e, In e (walk ev t) -> is_dir e = true -> own (e_path e) = None) ->
  LinksShareOwner own t ->
  split_layers gs own (walk ev t) = Ok layers ->
  exists a, apply_layers layers = Ok a /\ canon_forest a = canon_forest t.
Proof.
  intros ev t gs own layers H Hd Hown Hs.
  pose proof (wfl_wf_names _ _ H) as Wn.
  destruct (split_flatten_links gs own (walk ev t) layers (walk_wseq ev t Wn) Hs (walk_links_ok_own ev t own H Hown) Hd)
    as [a [b [Ea [Eb Ec]]]].
  exists a. split; [exact Ea|]. rewrite (extract_walk_links ev t H) in Eb. inversion Eb; subst b.
  rewrite Ec. apply canon_forest_idem. exact Wn.
Qed.

(* all five clauses of LayersOk for such a walk *)
Theorem split_layers_ok_walk_links : forall ev t gs own layers,
  NoDup (List.concat gs) ->
  wfl_forest (has_hdr ev) t = true ->
  (forall e, In e (walk ev t) -> is_dir e = true -> own (e_path e) = None) ->
  LinksShareOwner own t ->
  split_layers gs own (walk ev t) = Ok layers ->
  LayersOk gs own (walk ev t) layers.
Proof.
  intros ev t gs own layers Hnd H Hd Hown Hs.
  pose proof (wfl_wf_names _ _ H) as Wn. pose proof (walk_wseq ev t Wn) as W.
  destruct (split_each_file_once_spec gs own (walk ev t) layers Hnd Hs) as [Hlen [Hf _]].
  split; [| split; [| split; [| split]]].
  - exact (split_flatten_links gs own (walk ev t) layers W Hs (walk_links_ok_own ev t own H Hown) Hd).
  - exact Hf.
  - exact (split_layers_wellformed gs own (walk ev t) layers W Hs).
  - exact Hlen.
  - exact (fl_links_inside gs own (walk ev t) layers W Hs (walk_links_ok_own ev t own H Hown)).
Qed.

(* ---- witnesses -------------------------------------------------------------------------------- *)
(* C06's tree with four recorded links (one in another directory, one naming another
   link, one to a character device); usr/bin/* and usr/libexec/gz belong to package
   "gz", dev/* to nobody *)
Definition w_links_own (p : path) : option string :=
  match p with
  | ["usr"; "bin"; _] | ["usr"; "libexec"; _] => Some "gz"
  | _ => None
  end.

Lemma w_links_hyps :
  wfl_forest (has_hdr env_allhdr) w_links = true /\ wf_forest w_links = false /\
  (forall e, In e (walk env_allhdr w_links) -> is_dir e = true -> w_links_own (e_path e) = None) /\
  LinksShareOwner w_links_own w_links /\
  exists layers, split_layers [["other"]; ["gz"]] w_links_own (walk env_allhdr w_links) = Ok layers /\
    List.length layers = 3 /\ List.length (filter (fun e => match e_kind e with KLink => true | _ => false end) (nth 1 layers [])) = 3.
Proof.
  split; [vm_compute; reflexivity|]. split; [vm_compute; reflexivity|]. split; [| split].
  - intros e He Hd. vm_compute in He. repeat (destruct He as [<- | He]; [try reflexivity; discriminate Hd|]). destruct He.
  - apply (links_share_owner_of_walk env_allhdr); [vm_compute; reflexivity|]. apply links_share_ownerb_spec. vm_compute. reflexivity.
  - eexists. split; [vm_compute; reflexivity|]. split; reflexivity.
Qed.

(* the owner clause is necessary: a recorded link owned by a package whose layer comes
   before the layer of its target's package cannot be applied in order *)
Definition w_link_two_owners : forest :=
  [("b", File m0 (LReg 7 5) None); ("c", File m0 (LReg 7 5) (Some ["b"]))].

Lemma walk_link_owner_breaks_flatten :
  let own := w_own2 ["c"] ["b"] in
  wfl_forest (has_hdr env_allhdr) w_link_two_owners = true /\
  (forall e, In e (walk env_allhdr w_link_two_owners) -> is_dir e = true -> own (e_path e) = None) /\
  ~ LinksShareOwner own w_link_two_owners /\
  exists layers, split_layers [["a"]; ["b"]] own (walk env_allhdr w_link_two_owners) = Ok layers /\
    apply_layers layers = Err.
Proof.
  split; [vm_compute; reflexivity|]. split; [| split].
  - intros e He Hd. vm_compute in He. repeat (destruct He as [<- | He]; [try reflexivity; discriminate Hd|]). destruct He.
  - intros H. specialize (H ["c"] m0 (LReg 7 5) ["b"] eq_refl). vm_compute in H. discriminate.
  - eexists. split; vm_compute; reflexivity.
Qed.

(* the clauses of the envelope are necessary too: with no package at all (one top
   layer) the layers of C06's boundary trees do not flatten to the tree *)
Definition flatten_fails (ev : env) (t : forest) : Prop :=
  exists layers, split_layers [] (fun _ => None) (walk ev t) = Ok layers /\
    match apply_layers layers with Ok a => forest_eqb (canon_forest a) (canon_forest t) = false | _ => True end.

Lemma flatten_fails_not : forall ev t, flatten_fails ev t ->
  forall layers, split_layers [] (fun _ => None) (walk ev t) = Ok layers ->
  ~ exists a, apply_layers layers = Ok a /\ canon_forest a = canon_forest t.
Proof.
  intros ev t [ls [Hs Hm]] layers Hl [a [Ea Ec]]. rewrite Hs in Hl. inversion Hl; subst ls.
  rewrite Ea in Hm. apply (proj2 (forest_eqb_spec _ _)) in Ec. congruence.
Qed.

Lemma walk_links_envelope_boundary :
  flatten_fails env_nohdr w_link_after /\          (* name recorded without a header: written as a copy *)
  flatten_fails env_allhdr w_link_before /\        (* target sorts after the link: not extractable *)
  flatten_fails env_allhdr w_link_to_symlink /\    (* the shared node is a symlink with a target *)
  flatten_fails env_allhdr w_link_names_symlink /\ (* the node at the recorded name is not the shared node *)
  wfl_forest (has_hdr env_nohdr) w_link_after = false /\ wfl_forest (has_hdr env_allhdr) w_link_before = false /\
  wfl_forest (has_hdr env_allhdr) w_link_to_symlink = false /\ wfl_forest (has_hdr env_allhdr) w_link_names_symlink = false.
Proof.
  repeat split; try (vm_compute; reflexivity); eexists; (split; [vm_compute; reflexivity | vm_compute; auto]).
Qed.
