(* C09 — the install order of the locked and of the unlocked build (finding C09-F5). *)
From Apko Require Import Base.Prelude Base.C12Lib Model.Version Model.Resolver Model.LockBuild Proofs.ResolveTheorems.
From Apko Require Model.Lock Proofs.LockProofs.
Open Scope string_scope. Open Scope list_scope.

(* a lock file that lists, for [arch], the packages [order] in that order (entries of
   other architectures anywhere in between) makes the locked build hand exactly
   those packages, in that order, to the installer *)
Theorem locked_build_installs_file_order U arch order (lockpkgs : list Lock.lock_pkg) :
  LockProofs.for_arch arch lockpkgs = List.map (lock_pkg_at U arch) order ->
  Lock.installable_for_arch lockpkgs arch = Ok (List.map (installable_at U) order).
Proof.
  intro E. destruct (LockProofs.installable_exact lockpkgs arch) as (_ & H & _).
  rewrite H.
  - rewrite E, map_map. reflexivity.
  - rewrite E. apply Forall_forall. intros p Hp. apply in_map_iff in Hp. destruct Hp as [j [<- _]].
    unfold lock_pkg_at. cbn [Lock.lp_checksum]. discriminate.
Qed.

(* x -> v, w0; z0 provides v.  The request [x] resolves to [z0 w0 x] (of x's
   dependencies "v" < "w0" is expanded first), the lock [w0=1.0 x=1.0 z0=1.0] to
   [w0 z0 x] (the entries are expanded in list order and w0 sorts before x): same
   packages, other order — installed database, layer and image digest differ. *)
Definition U_order : universe :=
  [wp "x" "1.0" ["v"; "w0"] [] []; wp "w0" "1.0" [] [] []; wp "z0" "1.0" [] ["v=1"] []].

Lemma order_differs :
  lockfile_order U_order ["x"] = Ok [2; 1; 0]%nat /\
  locked_packages U_order "amd64" ["x"] [2; 1; 0]%nat = Ok ["w0=1.0"; "x=1.0"; "z0=1.0"] /\
  unlocked_order U_order "amd64" ["x"] = Ok [1; 2; 0]%nat.
Proof. repeat split; vm_compute; reflexivity. Qed.

(* what makes the two builds install in the same order: a lock file that lists the
   packages in the order in which the LOCKED configuration resolves (LockCmd
   resolving configs[arch] of LockImageConfiguration, as buildImageComponents does) *)
Theorem same_order_when_lock_lists_unlocked_order U arch packages order (lockpkgs : list Lock.lock_pkg) :
  unlocked_order U arch packages = Ok order ->
  LockProofs.for_arch arch lockpkgs = List.map (lock_pkg_at U arch) order ->
  Lock.installable_for_arch lockpkgs arch = Ok (List.map (installable_at U) order).
Proof. intros _ E. exact (locked_build_installs_file_order U arch order lockpkgs E). Qed.
