(* C09 against Model/Resolver.v, tagged repositories: lock entries
   name=version@tag.  Generalises LockFixpointSuccess (members from untagged
   repositories only) to members that come from a tagged repository:
     * an entry name=version@tag of a member of repository "@tag" has that member
       as its one candidate (pin_allowed: fo_prefer = tag);
     * a dependency of a member on a tagged member is admitted during the
       re-resolution because the walk finds that member in `existing` under the
       dependency's NAME (all members are world entries of the lock, so phase 1
       puts all of them into the map handed to every walk) — which works only
       when the dependency names the PACKAGE: a tagged member that is reached
       through a name it merely provides is filtered out unless the walk
       happens to carry its tag (finding C09-F8, the refutation below);
     * a member of a tagged repository whose entry carries no tag has no
       candidate at all (finding C09-F1). *)
From Apko Require Import Base.Prelude Base.Regex Generated.Regexes Generated.VersionConsts Generated.C03Version
  Model.Version Model.Resolver Spec.ResolveSpec
  Proofs.ResolveProofs Proofs.ResolveProofs2 Proofs.C14Proofs Proofs.ResolveTheorems Proofs.ResolveEnvelope
  Proofs.ResolveClosure Proofs.ResolveClosure2 Proofs.ResolveNoPanic Proofs.LockFixpointResolver Proofs.LockFixpointSuccess.
Open Scope string_scope. Open Scope list_scope. Open Scope nat_scope.

Lemma pin_allowed_prefer R o k : p_pin (k_pkg k) = fo_prefer o -> pin_allowed R o k = true.
Proof. intros E. unfold pin_allowed. rewrite E, String.eqb_refl. cbn. rewrite !andb_false_r. reflexivity. Qed.
Lemma pin_allowed_installed R o k j : fo_installed o = Some j -> k_url (getp R j) = k_url k -> pin_allowed R o k = true.
Proof. intros E1 E2. unfold pin_allowed. rewrite E1, E2, String.eqb_refl. cbn. rewrite !andb_false_r. reflexivity. Qed.

Section Pinned.
  Variable U : universe.
  Local Notation R := (new_resolver U).
  Hypothesis EF : env_facts R.
  Variable S : list pid.

  Hypothesis SV : forall j, In j S -> valid R j.
  Hypothesis SC : forall m, In m S -> Sat U S m.
  Hypothesis SN : forall m cd rest x, In m S -> In cd (k_deps (getp R m)) -> d_neg cd = Some rest -> In x S -> ~ excluded U rest x.
  Hypothesis SW : forall m d, In m S -> In d (positive_deps (getp R m)) -> (s_dep d =? dep_versionAny)%Z = true -> s_version d = "".
  Hypothesis SD : forall j, In j S -> NoDup (List.map s_name (k_provs (getp R j))).
  (* a member of a tagged repository is depended on by its own name only *)
  Hypothesis SPD : forall m d y, In m S -> In d (positive_deps (getp R m)) -> In y S ->
    pkg_satisfies_b d (getp R y) = true -> p_pin (k_pkg (getp R y)) = "" \/ k_name (getp R y) = s_name d.

  (* `existing` knows every member under its own name *)
  Definition ex_all (ex : list (string * pid)) : Prop := forall x, In x S -> alookup (nm R x) ex = Some x.

  Lemma ex_all_aset ex j : In j S -> ex_all ex -> ex_all (aset (nm R j) j ex).
  Proof.
    intros Hj H x Hx. rewrite aset_keeps_lookup. destruct (String.eqb_spec (nm R j) (nm R x)) as [E|_]; [|apply H; exact Hx].
    rewrite (uniq U j x EF (SV j Hj) (SV x Hx) E). reflexivity.
  Qed.

  Lemma note_existing_ex_all sub : forall st, incl sub S -> ex_all (st_existing st) -> ex_all (st_existing (note_existing R sub st)).
  Proof.
    unfold note_existing. induction sub as [|j t IH]; intros st Hs H; [exact H|]. simpl. apply IH.
    - intros x Hx. apply Hs. right. exact Hx.
    - cbn [st_existing]. apply (ex_all_aset _ j); [apply Hs; left; reflexivity | exact H].
  Qed.

  Lemma eval_dep_member' st self pin d : In self S -> In d (positive_deps (getp R self)) ->
    dq_ok S (st_dq st) -> sel_ok R (st_selected st) -> ex_all (st_existing st) ->
    eval_dep R st (getp R self) pin d <> DFail.
  Proof.
    intros Hs Hd Hdq Hsel Hex. pose proof (SV self Hs) as Vs.
    pose proof Hd as Hd'. apply positive_deps_In in Hd'. destruct Hd' as [cd [H1 [H2 H3]]].
    pose proof (ef_no_self_dep _ EF _ _ (getp_in _ _ Vs) H1 H2) as HN. rewrite H3 in HN.
    destruct (dep_provider U EF S SV SC self d Hs Hd) as [y [Hy [Ey Sy]]].
    unfold eval_dep. rewrite HN.
    match goal with |- (if ?b then _ else _) <> _ => destruct b; [discriminate|] end.
    destruct (alookup (s_name d) (st_selected st)) as [j|] eqn:ES.
    - destruct (String.eqb (s_version d) "") eqn:EV; [discriminate|].
      destruct (s_dep d =? dep_versionAny)%Z eqn:Hdep.
      { rewrite (SW self d Hs Hd Hdep) in EV. discriminate. }
      destruct (Hsel _ _ ES) as [Vj Hj]. rewrite (the_provider U _ y j EF Ey Vj Hj).
      destruct (dep_versioned U EF S SV self d y Hs Hd Hdep Hy Sy) as [Hn [a [r [Ea [Er Es]]]]].
      rewrite Ea, Er, sps_false, Es; [discriminate|].
      intros pv Hpv. rewrite <- Hn. apply (ef_no_self_provide _ EF _ pv (getp_in _ _ (SV y Hy)) Hpv).
    - rewrite Ey.
      assert (Hin : In y (filter_packages R (st_dq st)
                {| fo_allow := pin; fo_prefer := ""; fo_dep := s_dep d; fo_req := s_req d;
                   fo_installed := alookup (s_name d) (st_existing st) |} [y])).
      { apply filter_packages_In; [left; reflexivity | apply Hdq; exact Hy | |].
        - destruct (SPD self d y Hs Hd Hy Sy) as [E|E]; [apply pin_allowed_unpinned; exact E|].
          apply (pin_allowed_installed R _ _ y); [|reflexivity]. cbn [fo_installed]. rewrite <- E. apply (Hex y Hy).
        - cbn [fo_dep fo_req]. destruct (s_dep d =? dep_versionAny)%Z eqn:Hdep; [left; reflexivity|]. right.
          destruct (dep_versioned U EF S SV self d y Hs Hd Hdep Hy Sy) as [_ [a [r [Ea [Er Es]]]]].
          exists r. split; [exact Er|]. unfold version_passes. rewrite Ea, Es. reflexivity. }
      destruct (filter_packages R (st_dq st) _ [y]); [contradiction | discriminate].
  Qed.

  Definition walk_fine' (r : res (rstate * list pid)) : Prop :=
    r <> Err /\ forall st' deps, r = Ok (st', deps) ->
      dq_ok S (st_dq st') /\ sel_good U (st_selected st') /\ ex_all (st_existing st') /\ incl deps S.

  Lemma deps_loop_ok' rec self pin parents : In self S ->
    (forall best ps st, In best S -> dq_ok S (st_dq st) -> sel_good U (st_selected st) -> ex_all (st_existing st) ->
                        walk_fine' (rec best pin ps st)) ->
    forall n cs st acc, (forall d, In d cs -> In d (positive_deps (getp R self))) ->
      dq_ok S (st_dq st) -> sel_good U (st_selected st) -> ex_all (st_existing st) -> incl acc S ->
      walk_fine' (deps_loop R rec self pin parents n cs st acc).
  Proof.
    intros Hs Hrec. induction n as [|n IH]; intros cs st acc Hcs Hdq Hsel Hex Hacc.
    - destruct cs; simpl; [split; [discriminate | intros st' deps E; inversion E; subst; auto]|].
      split; [discriminate | intros st' deps E; discriminate].
    - destruct cs as [|c0 cs0]; [simpl; split; [discriminate | intros st' deps E; inversion E; subst; auto]|].
      cbn [deps_loop]. remember (c0 :: cs0) as cs.
      destruct (eval_all_some R st (getp R self) pin cs
                  (fun d Hd => eval_dep_member' st self pin d Hs (Hcs d Hd) Hdq (proj1 Hsel) Hex) []) as [opts EA].
      rewrite EA. pose proof (eval_all_sound _ _ _ _ _ _ _ EA) as Snd.
      destruct (lowest opts) as [[d cands]|] eqn:EL;
        [|split; [discriminate | intros st' deps E; inversion E; subst; auto]].
      apply lowest_In in EL. destruct EL as [key EL]. destruct (Snd _ _ _ EL) as [[]|[Hdcs [_ Hev]]].
      pose proof (eval_dep_opts_nonempty _ _ _ _ _ _ Hev) as Hne.
      destruct (best_package R (s_name d) (st_existing st) (st_origins st) "" cands) as [best|] eqn:EB;
        [|destruct cands; [congruence | discriminate]].
      apply best_package_In in EB.
      destruct (eval_dep_opts_listed _ _ _ _ _ _ Hev) as [cands0 [E0 I0]].
      assert (HbS : In best S) by (apply (S_prov_closed U EF S SV SC self d Hs (Hcs d Hdcs) cands0 best E0); apply I0; exact EB).
      rewrite (disqualify_conflicts_id U EF best (st_dq st) (SV best HbS)). cbn [rbind].
      destruct (pick_ok U EF self (st_selected st) (SV self Hs) (SD self Hs) Hsel) as [sel1 [EP Hsel1]]. rewrite EP. cbn [rbind].
      destruct (Hrec best (k_name (getp R self) :: parents) (with_selected (with_dq st (st_dq st)) sel1) HbS Hdq Hsel1 Hex) as [RN RO].
      destruct (rec best pin (k_name (getp R self) :: parents) (with_selected (with_dq st (st_dq st)) sel1)) as [[st2 sub]| | |] eqn:ER;
        cbn [rbind]; [|congruence | split; [discriminate | intros ? ? E; discriminate] | split; [discriminate | intros ? ? E; discriminate]].
      destruct (RO st2 sub eq_refl) as [D2 [G2 [X2 I2]]].
      apply IH.
      + intros e He. apply Hcs. apply filter_In in He. destruct He as [He _]. apply in_map_iff in He.
        destruct He as [[k0 [d0 l0]] [E1 Hin0]]. simpl in E1. subst d0. destruct (Snd _ _ _ Hin0) as [[]|[A _]]. exact A.
      + rewrite note_existing_dq. exact D2.
      + rewrite note_existing_sel. exact G2.
      + apply note_existing_ex_all; assumption.
      + apply incl_app; [exact Hacc|]. apply incl_app; [exact I2|]. intros x [<-|[]]. exact HbS.
  Qed.

  Lemma get_deps_ok' pin : forall fuel i parents st, In i S -> dq_ok S (st_dq st) -> sel_good U (st_selected st) -> ex_all (st_existing st) ->
    walk_fine' (get_deps fuel R i pin parents st).
  Proof.
    induction fuel as [|f IH]; intros i parents st Hi Hdq Hsel Hex; [split; [discriminate | intros ? ? E; discriminate]|].
    cbn [get_deps]. destruct (mem_str (k_name (getp R i)) parents).
    - split; [discriminate | intros st' deps E; inversion E; subst]. split; [assumption|]. split; [assumption|]. split; [assumption | intros x []].
    - destruct (constrain_members U S (k_deps (getp R i)) (member_deps_fine U EF S SV SC SN i Hi) (st_dq st) Hdq) as [dq1 [EC Hdq1]].
      rewrite EC. cbn [rbind]. apply deps_loop_ok'; [exact Hi | | auto | exact Hdq1 | exact Hsel | exact Hex | intros x []].
      intros best ps st0 Hb D0 G0 X0. apply IH; assumption.
  Qed.

  (* ---- the top level --------------------------------------------------------------------------- *)
  (* a world entry that asks for member j by name, exactly at its version, with the tag of j's repository when it has one *)
  Definition went_for (w : cstr) (j : pid) : Prop :=
    In j S /\ s_name w = nm R j /\ (p_pin (k_pkg (getp R j)) = "" \/ p_pin (k_pkg (getp R j)) = s_pin w) /\
    s_dep w = dep_versionEqual /\ exists a, s_req w = Some a /\ k_ver (getp R j) = Some a.
  Definition went' (w : cstr) : Prop := exists j, went_for w j.

  Lemma went_candidates' w j dq : went_for w j -> dq_ok S dq ->
    In j (candidates R dq w) /\ forall i, In i (candidates R dq w) -> i = j.
  Proof.
    intros [Hj [Hn [Hp [Hd [a [Hr Hv]]]]]] Hdq.
    unfold candidates. rewrite Hn, (provider_single U EF j (nm R j) (SV j Hj) (or_introl eq_refl)). split.
    - apply filter_packages_In; [left; reflexivity | apply Hdq; exact Hj | |].
      + destruct Hp as [Hp|Hp]; [apply pin_allowed_unpinned; exact Hp | apply pin_allowed_prefer; exact Hp].
      + right. cbn [world_opts fo_dep fo_req]. exists a. split; [exact Hr|]. unfold version_passes. rewrite Hv, Hd, satisfies_equal_refl. reflexivity.
    - intros i Hi. apply filter_packages_sub in Hi. destruct Hi as [[<-|[]] _]. reflexivity.
  Qed.

  Lemma went_resolve_package' w j dq : went_for w j -> dq_ok S dq -> resolve_package R dq w = Ok j.
  Proof.
    intros Hw Hdq. destruct (went_candidates' w j dq Hw Hdq) as [Hin Hall].
    unfold resolve_package.
    destruct (best_package R (s_name w) [] [] (s_pin w) (candidates R dq w)) as [i|] eqn:EB.
    - apply best_package_In in EB. rewrite (Hall i EB). reflexivity.
    - destruct (candidates R dq w); [contradiction | discriminate].
  Qed.

  Lemma next_package_ok' dq : forall cs next least, (forall w, In w cs -> went' w) -> dq_ok S dq ->
    exists r, next_package R dq cs next least = Ok r.
  Proof.
    induction cs as [|w t IH]; intros next least H Hdq; [exists next; reflexivity|]. simpl.
    destruct (H w (or_introl eq_refl)) as [j Hwj]. destruct (went_candidates' w j dq Hwj Hdq) as [Hin _].
    destruct (candidates R dq w) as [|x l]; [contradiction|]. cbn [List.length].
    destruct (String.eqb (s_raw next) ""); [apply IH; [intros w' Hw'; apply H; right; exact Hw' | exact Hdq]|].
    destruct (Nat.ltb (Datatypes.S (List.length l)) least); apply IH; try exact Hdq; intros w' Hw'; apply H; right; exact Hw'.
  Qed.

  (* what phase 1 leaves in the map: entries name -> member of that name *)
  Definition dm_ok (dm : list (string * pid)) : Prop := forall n i, alookup n dm = Some i -> In i S /\ n = nm R i.

  Lemma phase1_ok' : forall n cs dq depmap,
    (forall w, In w cs -> went' w) -> (forall w, In w cs -> w = cook_str (s_raw w)) -> dq_ok S dq -> dm_ok depmap ->
    phase1 n R cs dq depmap <> Err /\
    forall dq' depmap', phase1 n R cs dq depmap = Ok (dq', depmap') ->
      dq_ok S dq' /\ dm_ok depmap' /\
      (forall n0 i, alookup n0 depmap = Some i -> alookup n0 depmap' = Some i) /\
      (forall w j, In w cs -> went_for w j -> alookup (nm R j) depmap' = Some j).
  Proof.
    induction n as [|n IH]; intros cs dq depmap H HC Hdq Hdm.
    - destruct cs; simpl; [|split; [discriminate | intros ? ? E; discriminate]].
      split; [discriminate|]. intros ? ? E; inversion E; subst. split; [exact Hdq|]. split; [exact Hdm|]. split; [auto | intros w j []].
    - destruct cs as [|c cs].
      { simpl. split; [discriminate|]. intros ? ? E; inversion E; subst. split; [exact Hdq|]. split; [exact Hdm|]. split; [auto | intros w j []]. }
      cbn [phase1]. destruct (next_package_ok' dq (c :: cs) (cook_str "") 0 H Hdq) as [next EN]. rewrite EN. cbn [rbind].
      pose proof (next_package_first _ _ _ _ _ EN) as Hnext.
      destruct (H next Hnext) as [j Hnj]. pose proof Hnj as [Hj _].
      rewrite (went_resolve_package' next j dq Hnj Hdq). cbn [rbind].
      rewrite (disqualify_conflicts_id U EF j dq (SV j Hj)). cbn [rbind].
      set (cs' := List.filter (fun w => negb (String.eqb (s_raw w) (s_raw next))) (c :: cs)).
      set (dm1 := aset (k_name (getp R j)) j depmap).
      assert (Hdm1 : dm_ok dm1).
      { intros n0 i E. unfold dm1 in E. rewrite aset_keeps_lookup in E. destruct (String.eqb_spec (k_name (getp R j)) n0) as [<-|_].
        - inversion E; subst i. split; [exact Hj | reflexivity].
        - exact (Hdm n0 i E). }
      assert (Keep1 : forall n0 i, alookup n0 depmap = Some i -> alookup n0 dm1 = Some i).
      { intros n0 i E. unfold dm1. rewrite aset_keeps_lookup. destruct (String.eqb_spec (k_name (getp R j)) n0) as [E0|_]; [|exact E].
        destruct (Hdm n0 i E) as [Hi En]. f_equal. apply (uniq U j i EF (SV j Hj) (SV i Hi)). unfold nm in *. congruence. }
      destruct (IH cs' dq dm1) as [PN PO].
      { intros w Hw. apply H. apply filter_In in Hw. tauto. }
      { intros w Hw. apply HC. apply filter_In in Hw. tauto. }
      { exact Hdq. }
      { exact Hdm1. }
      split; [exact PN|]. intros dq' depmap' E. destruct (PO dq' depmap' E) as [A [B [C D]]].
      split; [exact A|]. split; [exact B|]. split; [intros n0 i E0; apply C; apply Keep1; exact E0|].
      intros w j' Hw Hwj'. destruct (String.eqb_spec (s_raw w) (s_raw next)) as [Er|Er].
      + (* the same entry as the one just handled *)
        assert (w = next) by (rewrite (HC w Hw), (HC next Hnext), Er; reflexivity). subst w.
        assert (j' = j).
        { destruct (went_candidates' next j dq Hnj Hdq) as [_ Hall]. destruct (went_candidates' next j' dq Hwj' Hdq) as [Hin' _]. apply Hall. exact Hin'. }
        subst j'. apply C. unfold dm1, nm. rewrite aset_keeps_lookup, String.eqb_refl. reflexivity.
      + apply (D w j'); [|exact Hwj']. unfold cs'. apply filter_In. split; [exact Hw|]. apply negb_true_iff. apply String.eqb_neq. exact Er.
  Qed.

  Lemma get_pkg_ok' w dq sel ex : went' w -> dq_ok S dq -> sel_good U sel -> ex_all ex ->
    get_pkg R w dq sel ex <> Err /\
    forall dq' sel' i deps, get_pkg R w dq sel ex = Ok (dq', sel', i, deps) -> dq_ok S dq' /\ sel_good U sel'.
  Proof.
    intros [j Hwj] Hdq Hsel Hex. pose proof Hwj as [Hj _].
    unfold get_pkg, get_pkg_core. rewrite (went_resolve_package' w j dq Hwj Hdq). cbn [rbind].
    destruct (get_deps_ok' (s_pin w) (fuel_bound R) j [] {| st_dq := dq; st_selected := sel; st_existing := ex; st_origins := initial_origins R ex |}
                Hj Hdq Hsel Hex) as [GN GO].
    destruct (get_deps (fuel_bound R) R j (s_pin w) [] _) as [[st' ds]| | |]; cbn [rbind];
      [|congruence | split; [discriminate | intros ? ? ? ? E; discriminate] | split; [discriminate | intros ? ? ? ? E; discriminate]].
    destruct (GO st' ds eq_refl) as [D [G _]]. destruct (dedup_by_name R ds) as [l added]. cbn [rbind].
    pose proof (iif_loop_not_err R (fuel_bound R) 0 l added) as NI.
    destruct (iif_loop (fuel_bound R) R 0 l added) as [deps0| | |]; cbn [rbind];
      [|congruence | split; [discriminate | intros ? ? ? ? E; discriminate] | split; [discriminate | intros ? ? ? ? E; discriminate]].
    split; [discriminate|]. intros dq' sel' i deps E. inversion E; subst. split; assumption.
  Qed.

  (* track never overwrites a key of the map *)
  Lemma track_ex_all j acc : ex_all (snd acc) -> ex_all (snd (track R j acc)).
  Proof.
    destruct acc as [[ti tracked] depmap]. unfold track. intros H. cbn [snd] in H.
    destruct (mem_str (k_name (getp R j)) tracked); cbn [snd];
      (destruct (ahas (k_name (getp R j)) depmap) eqn:Ea; [exact H|];
       intros x Hx; rewrite aset_keeps_lookup; destruct (String.eqb_spec (k_name (getp R j)) (nm R x)) as [E|_]; [|apply H; exact Hx];
       exfalso; unfold ahas in Ea; rewrite E, (H x Hx) in Ea; discriminate).
  Qed.
  Lemma track_fold_ex_all deps : forall acc, ex_all (snd acc) -> ex_all (snd (fold_left (fun a j => track R j a) deps acc)).
  Proof. induction deps as [|d ds IH]; intros acc H; [exact H|]. simpl. apply IH. apply track_ex_all. exact H. Qed.

  Lemma phase2_ok' : forall ws dq sel acc, (forall w, In w ws -> went' w) -> dq_ok S dq -> sel_good U sel -> ex_all (snd acc) ->
    phase2 R ws dq sel acc <> Err.
  Proof.
    induction ws as [|w ws IH]; intros dq sel acc H Hdq Hsel Hex; [simpl; discriminate|].
    cbn [phase2]. destruct (get_pkg_ok' w dq sel (snd acc) (H w (or_introl eq_refl)) Hdq Hsel Hex) as [GN GO].
    destruct (get_pkg R w dq sel (snd acc)) as [[[[dq' sel'] i] deps]| | |]; cbn [rbind]; try congruence; try discriminate.
    destruct (GO dq' sel' i deps eq_refl) as [D G].
    apply IH; [intros w' Hw'; apply H; right; exact Hw' | exact D | exact G|].
    apply track_ex_all. apply track_fold_ex_all. exact Hex.
  Qed.

  (* a world that names every member — each entry exact, with the member's tag — resolves *)
  Theorem lock_resolves' L dq0 : dq_ok S dq0 ->
    (forall e, In e L -> d_neg (cook_dep e) = None /\ went' (cook_str e)) ->
    (forall j, In j S -> exists e, In e L /\ went_for (cook_str e) j) ->
    exists S', resolve U L dq0 = Ok S'.
  Proof.
    intros Hdq HL HS.
    assert (NE : resolve U L dq0 <> Err).
    { unfold resolve, resolve_with.
      destruct (constrain_members U S (List.map cook_dep L)) with (dq := dq0) as [dq1 [EC Hdq1]]; [|exact Hdq|].
      { intros cd Hcd. apply in_map_iff in Hcd. destruct Hcd as [e [<- He]]. destruct (HL e He) as [Hn [j [Hj [Nm [_ [Hd [a [Hr Hv]]]]]]]].
        unfold cd_fine. rewrite Hn. unfold cook_dep; cbn [d_pos]. right. right. exists a. split; [exact Hr|].
        intros providers x E Hx _. rewrite Nm, (provider_single U EF j (nm R j) (SV j Hj) (or_introl eq_refl)) in E.
        inversion E; subst providers. destruct Hx as [<-|[]].
        unfold constrain_provider. rewrite Nm. unfold nm. rewrite String.eqb_refl, Hv, Hd, satisfies_equal_refl. reflexivity. }
      rewrite EC. cbn [rbind].
      set (ws := List.map d_pos (List.map cook_dep L)).
      assert (HW : forall w, In w ws -> went' w).
      { intros w Hw. unfold ws in Hw. rewrite map_map in Hw. apply in_map_iff in Hw. destruct Hw as [e [<- He]]. apply (HL e He). }
      assert (HC : forall w, In w ws -> w = cook_str (s_raw w)).
      { intros w Hw. unfold ws in Hw. rewrite map_map in Hw. apply in_map_iff in Hw. destruct Hw as [e [<- He]]. reflexivity. }
      destruct (phase1_ok' (List.length ws) ws dq1 [] HW HC Hdq1) as [PN PO]; [intros n0 i E; discriminate|].
      destruct (phase1 _ R ws dq1 []) as [[dq2 depmap]| | |]; cbn [rbind]; try congruence; try discriminate.
      destruct (PO dq2 depmap eq_refl) as [D2 [_ [_ Hall]]].
      apply phase2_ok'; [exact HW | exact D2 | split; [intros n j E; discriminate | intros n j E; discriminate] |].
      cbn [snd]. intros x Hx. destruct (HS x Hx) as [e [He Hwe]]. apply (Hall (cook_str e) x); [|exact Hwe].
      unfold ws. rewrite map_map. apply in_map_iff. exists e. split; [reflexivity | exact He]. }
    pose proof (resolve_no_panic U L dq0) as NP. pose proof (termination_lemma U L dq0) as NF.
    destruct (resolve U L dq0) as [S'| | |]; [exists S'; reflexivity | congruence | congruence | congruence].
  Qed.
End Pinned.

(* ================= lock entries name=version[@tag] ============================================= *)
From Apko Require Model.Lock Proofs.LockProofs Proofs.LockResolverBridge Proofs.LockPinProofs Proofs.ConstraintProofs.

(* the entry of package p when [pin] maps package names to "" or "@tag" (unify_pin of the request list is one such map) *)
Definition pinned_entry (pin : string -> string) (p : pkg) : string :=
  (p_name p ++ "=" ++ p_version p ++ pin (p_name p))%string.
Definition pin_shape (pin : string -> string) (p : pkg) : Prop :=
  pin (p_name p) = "" \/ exists t, LockPinProofs.clean_tag t /\ pin (p_name p) = ("@" ++ t)%string.
Definition lists_pinned_entries (pin : string -> string) (U : universe) (S : list pid) (L : list string) : Prop :=
  forall e, In e L <-> exists j, In j S /\ e = pinned_entry pin (nth j U dummy_pkg).

(* every member of a tagged repository carries that tag in its entry *)
Definition tags_attached (pin : string -> string) (U : universe) (S : list pid) : Prop :=
  forall j, In j S -> p_pin (nth j U dummy_pkg) = "" \/ pin (p_name (nth j U dummy_pkg)) = ("@" ++ p_pin (nth j U dummy_pkg))%string.
(* a member of a tagged repository is depended on, by members, under its own name only *)
Definition pinned_by_own_name (U : universe) (S : list pid) : Prop :=
  forall m d y, In m S -> In d (positive_deps (getp (new_resolver U) m)) -> In y S ->
    pkg_satisfies_b d (getp (new_resolver U) y) = true ->
    p_pin (nth y U dummy_pkg) = "" \/ p_name (nth y U dummy_pkg) = s_name d.
Definition versions_parse (U : universe) (S : list pid) : Prop :=
  forall j, In j S -> parse_version (p_version (nth j U dummy_pkg)) <> None.

Lemma sapp_nil_r' (s : string) : (s ++ "")%string = s.
Proof. induction s as [|c s IH]; simpl; [reflexivity | rewrite IH; reflexivity]. Qed.

Lemma pinned_entry_constraint pin p : lockable p -> pin_shape pin p ->
  exists tag, resolve_constraint (pinned_entry pin p) =
                {| c_name := p_name p; c_version := p_version p; c_dep := dep_versionEqual; c_pin := tag |} /\
              (pin (p_name p) = "" /\ tag = "" \/ pin (p_name p) = ("@" ++ tag)%string /\ tag <> "").
Proof.
  intros [Hn [Hv _]] [E|[t [Ht E]]]; unfold pinned_entry; rewrite E.
  - exists "". rewrite sapp_nil_r'. split; [apply LockProofs.lock_entry_parses; assumption | left; auto].
  - exists t. split; [apply LockPinProofs.pinned_entry_parses; assumption | right; split; [reflexivity|]].
    destruct Ht as [Ht _]. intro F. subst t. apply Ht. reflexivity.
Qed.

Lemma pinned_entry_names U pin j : lockable (nth j U dummy_pkg) -> pin_shape pin (nth j U dummy_pkg) ->
  names_member U (pinned_entry pin (nth j U dummy_pkg)) j.
Proof.
  intros HL HP. destruct (pinned_entry_constraint pin _ HL HP) as [tag [E _]]. destruct HL as [Hn [Hv Hb]]. split.
  - unfold cook_dep; cbn [d_neg]. unfold pinned_entry.
    rewrite (proj2 (bang_rest_app _ _ (clean_name_nonempty _ Hn)) Hb). reflexivity.
  - unfold s_name, cook_str; cbn [s_c]. rewrite E. cbn [c_name]. rewrite nm_new_resolver. reflexivity.
Qed.

(* WHENEVER the list of pinned entries resolves, it resolves to the members it was derived from *)
Theorem pinned_same_members U W dq0 S pin L :
  envelope_b U W = true -> resolve U W dq0 = Ok S ->
  (forall j, In j S -> lockable (nth j U dummy_pkg)) -> (forall j, In j S -> pin_shape pin (nth j U dummy_pkg)) ->
  lists_pinned_entries pin U S L ->
  envelope_b U L = true /\ forall S', resolve U L dq0 = Ok S' -> forall j, In j S' <-> In j S.
Proof.
  intros HE H HL HP HLL. apply (same_members U W dq0 S L HE H).
  - intros e He. apply HLL in He. destruct He as [j [Hj ->]]. exists j. split; [exact Hj | apply pinned_entry_names; auto].
  - intros j Hj. exists (pinned_entry pin (nth j U dummy_pkg)). split; [apply HLL; exists j; auto | apply pinned_entry_names; auto].
Qed.

(* and it DOES resolve when every member of a tagged repository carries its tag *)
Theorem pinned_complete U W dq0 S pin L :
  envelope_b U W = true -> resolve U W dq0 = Ok S ->
  (forall j, In j S -> lockable (nth j U dummy_pkg)) -> (forall j, In j S -> pin_shape pin (nth j U dummy_pkg)) ->
  versions_parse U S -> tags_attached pin U S -> pinned_by_own_name U S ->
  no_member_excluded U S -> deps_wellformed U S -> lists_pinned_entries pin U S L ->
  exists S', resolve U L dq0 = Ok S' /\ forall j, In j S' <-> In j S.
Proof.
  intros HE H HL HP HVp HT HO HN HW HLL. pose proof (envelope_facts U W HE) as EF.
  pose proof (members_lemma U W dq0 S H) as [_ HV].
  assert (SV : forall j, In j S -> valid (new_resolver U) j) by (intros j Hj; apply valid_new; apply HV; exact Hj).
  assert (WF : forall j, In j S -> went_for U S (cook_str (pinned_entry pin (nth j U dummy_pkg))) j).
  { intros j Hj. destruct (pinned_entry_constraint pin _ (HL j Hj) (HP j Hj)) as [tag [E Etag]].
    destruct (pinned_entry_names U pin j (HL j Hj) (HP j Hj)) as [_ N2].
    split; [exact Hj|]. split; [exact N2|].
    unfold s_pin, s_dep, s_req, cook_str; cbn [s_c s_req]. rewrite E. cbn [c_pin c_dep c_version].
    split; [|split; [reflexivity|]].
    - rewrite getp_new_resolver. cbn [cook_pkg k_pkg]. destruct (HT j Hj) as [T|T]; [left; exact T|].
      destruct Etag as [[E0 _]|[E1 _]]; rewrite T in *.
      + discriminate.
      + right. inversion E1. reflexivity.
    - destruct (parse_version (p_version (nth j U dummy_pkg))) as [a|] eqn:Ea; [|exfalso; exact (HVp j Hj Ea)].
      exists a. split; [reflexivity|]. rewrite getp_new_resolver. cbn [cook_pkg k_ver]. exact Ea. }
  destruct (lock_resolves' U EF S SV (resolve_closure U EF W dq0 S H)) with (L := L) (dq0 := dq0) as [S' HS'].
  - exact HN.
  - exact HW.
  - intros j Hj. apply provides_nodup; [exact EF | apply SV; exact Hj].
  - intros m d y Hm Hd Hy Sy. rewrite !getp_new_resolver. cbn [cook_pkg k_pkg k_name]. unfold k_name. cbn [k_pkg].
    exact (HO m d y Hm Hd Hy Sy).
  - intros x Hx Hin. pose proof (resolve_ok _ _ _ _ (new_resolver_wf2 U) H) as [_ [HM _]].
    rewrite Forall_forall in HM. destruct (HM x Hx) as [_ [N|I]]; [exact (N Hin)|].
    unfold has_iif in I. rewrite (ef_no_iif _ EF _ (getp_in _ _ (SV x Hx))) in I. discriminate.
  - intros e He. apply HLL in He. destruct He as [j [Hj ->]].
    split; [exact (proj1 (pinned_entry_names U pin j (HL j Hj) (HP j Hj))) | exists j; apply WF; exact Hj].
  - intros j Hj. exists (pinned_entry pin (nth j U dummy_pkg)). split; [apply HLL; exists j; auto | apply WF; exact Hj].
  - exists S'. split; [exact HS'|].
    destruct (pinned_same_members U W dq0 S pin L HE H HL HP HLL) as [_ B]. exact (B S' HS').
Qed.

Lemma filter_packages_pin R dq o l x : In x (filter_packages R dq o l) -> pin_allowed R o (getp R x) = true.
Proof.
  unfold filter_packages. intros H.
  assert (B : forall y, In y (List.filter (fun i => negb (mem_pid i dq) && pin_allowed R o (getp R i)) l) -> pin_allowed R o (getp R y) = true).
  { intros y Hy. apply filter_In in Hy. destruct Hy as [_ Hy]. apply andb_true_iff in Hy. tauto. }
  destruct (fo_dep o =? dep_versionAny)%Z; [apply B; exact H|].
  destruct (fo_req o); [|contradiction]. apply filter_In in H. apply B. tauto.
Qed.

(* a member of a tagged repository whose entry carries no tag has no candidate: the list cannot resolve (finding C09-F1) *)
Theorem untagged_entry_fails U dq0 L j :
  env_facts (new_resolver U) -> j < List.length U -> lockable (nth j U dummy_pkg) ->
  p_pin (nth j U dummy_pkg) <> "" ->
  In (p_name (nth j U dummy_pkg) ++ "=" ++ p_version (nth j U dummy_pkg))%string L ->
  forall S', resolve U L dq0 <> Ok S'.
Proof.
  intros EF Hj [Hn [Hv Hb]] Hp Hin S' H.
  destruct (resolve_ok_c _ _ _ _ (new_resolver_wf2 U) H) as [dq1 [_ HW]].
  destruct (HW _ Hin) as [dq [i [_ [Hi _]]]].
  unfold candidates in Hi.
  set (w := cook_str (p_name (nth j U dummy_pkg) ++ "=" ++ p_version (nth j U dummy_pkg))) in *.
  assert (Ew : s_name w = nm (new_resolver U) j /\ s_pin w = "").
  { unfold w, s_name, s_pin, cook_str; cbn [s_c]. rewrite (LockProofs.lock_entry_parses _ _ Hn Hv). cbn [c_name c_pin].
    rewrite nm_new_resolver. split; reflexivity. }
  destruct Ew as [E1 E2]. rewrite E1, (own_single U j EF Hj) in Hi.
  pose proof (filter_packages_pin _ _ _ _ _ Hi) as P. apply filter_packages_sub in Hi. destruct Hi as [[<-|[]] _].
  unfold pin_allowed in P. cbn [world_opts fo_allow fo_prefer fo_installed] in P. rewrite E2, getp_new_resolver in P. cbn [cook_pkg k_pkg] in P.
  destruct (String.eqb_spec (p_pin (nth j U dummy_pkg)) "") as [E|_]; [contradiction|]. cbn in P. discriminate.
Qed.

(* ================= witnesses ================================================================== *)
Definition ep (n v : string) (deps provs : list string) : pkg :=
  {| p_name := n; p_version := v; p_origin := n; p_deps := deps; p_provides := provs; p_install_if := [];
     p_prio := 0%N; p_pin := "edge"; p_repo := "https://repo1.example/x86_64" |}.

(* C09-F1: a (tagged) -> d (tagged); world [a@edge] *)
Definition U_edge : universe := [ep "a" "2.0" ["d"] []; ep "d" "3.0" [] []].
(* C09-F8: r -> 0x -> a (tagged) -> v, provided by p1 (tagged); world [a@edge p1@edge r]: every tagged member is requested with its tag *)
Definition U_edge_virtual : universe :=
  [wp "r" "1.0" ["0x"] [] []; wp "0x" "1.0" ["a"] [] []; ep "a" "1.0" ["v"] []; ep "p1" "1.0" [] ["v=1"]].
(* the positive case: a (tagged, requested a@edge) -> d (untagged), b (untagged) -> a *)
Definition U_edge_ok : universe := [ep "a" "2.0" ["d"] []; wp "d" "3.0" [] [] []; wp "b" "1.0" ["a"] [] []].

(* ================= what unify emits for one architecture IS such a list ========================= *)
From Apko Require Spec.LockSpec Proofs.LockUnifyOrder Base.C12Lib.
From Coq Require Import Permutation.

(* one architecture's resolution as LockImageConfiguration sees it (name, version, provides) *)
Definition rpkg_of (p : pkg) : Lock.rpkg :=
  {| Lock.p_name := p_name p; Lock.p_version := p_version p; Lock.p_provides := p_provides p |}.
Definition arch_resolution (U : universe) (S : list pid) : list Lock.rpkg :=
  List.map (fun j => rpkg_of (nth j U dummy_pkg)) S.

Lemma fold_versions_other n : forall l r, ~ In n (List.map Lock.p_name l) ->
  C12Lib.alookup n (Lock.r_versions (fold_left Lock.add_pkg l r)) = C12Lib.alookup n (Lock.r_versions r).
Proof.
  induction l as [|q l IH]; intros r H; [reflexivity|]. simpl. rewrite IH; [|intro F; apply H; right; exact F].
  cbn [Lock.add_pkg Lock.r_versions]. apply LockProofs.alookup_mset_other. intro E. apply H. left. exact E.
Qed.
Lemma resolved_of_version arch pkgs p : NoDup (List.map Lock.p_name pkgs) -> In p pkgs ->
  Lock.vget (Lock.p_name p) (Lock.r_versions (Lock.resolved_of arch pkgs)) = Lock.p_version p.
Proof.
  unfold Lock.resolved_of.
  assert (G : forall l r, NoDup (List.map Lock.p_name l) -> In p l ->
              Lock.vget (Lock.p_name p) (Lock.r_versions (fold_left Lock.add_pkg l r)) = Lock.p_version p).
  { induction l as [|q l IH]; intros r ND Hp; [contradiction|]. simpl in ND. inversion ND as [|? ? Nin ND']; subst.
    destruct Hp as [->|Hp]; [|simpl; apply IH; assumption].
    simpl. unfold Lock.vget. rewrite (fold_versions_other _ l _ Nin). cbn [Lock.add_pkg Lock.r_versions].
    rewrite LockProofs.alookup_mset_same. reflexivity. }
  apply G.
Qed.

Theorem arch_lock_lists_pinned_entries U S pin arch :
  NoDup (List.map (fun j => p_name (nth j U dummy_pkg)) S) ->
  let r := Lock.resolved_of arch (arch_resolution U S) in
  lists_pinned_entries pin U S
    (Lock.sort_strings (List.map (LockSpec.lock_entry pin (Lock.r_versions r)) (Lock.r_packages r))).
Proof.
  intros ND r e.
  assert (ND' : NoDup (List.map Lock.p_name (arch_resolution U S))).
  { unfold arch_resolution. rewrite map_map. exact ND. }
  split.
  - intro He. eapply Permutation_in in He; [|apply Permutation_sym, LockProofs.sort_strings_perm].
    apply in_map_iff in He. destruct He as [n [<- Hn]]. apply LockUnifyOrder.resolved_of_packages in Hn.
    apply in_map_iff in Hn. destruct Hn as [q [<- Hq]]. pose proof Hq as Hq'. unfold arch_resolution in Hq'. apply in_map_iff in Hq'.
    destruct Hq' as [j [<- Hj]]. exists j. split; [exact Hj|].
    unfold LockSpec.lock_entry. unfold r. rewrite (resolved_of_version arch _ _ ND' Hq). reflexivity.
  - intros [j [Hj ->]]. eapply Permutation_in; [apply LockProofs.sort_strings_perm|].
    assert (Hq : In (rpkg_of (nth j U dummy_pkg)) (arch_resolution U S)) by (unfold arch_resolution; apply in_map_iff; exists j; auto).
    apply in_map_iff. exists (p_name (nth j U dummy_pkg)). split.
    + pose proof (resolved_of_version arch _ (rpkg_of (nth j U dummy_pkg)) ND' Hq) as V. cbn [rpkg_of Lock.p_name Lock.p_version] in V.
      unfold LockSpec.lock_entry, r. rewrite V. reflexivity.
    + apply LockUnifyOrder.resolved_of_packages. apply in_map_iff. exists (rpkg_of (nth j U dummy_pkg)). split; [reflexivity | exact Hq].
Qed.

(* the per-architecture lock of a resolution, as unify emits it for the request list [originals] *)
Definition arch_lock (originals : list string) (arch : string) (U : universe) (S : list pid) : list string :=
  let r := Lock.resolved_of arch (arch_resolution U S) in
  Lock.sort_strings (List.map (LockSpec.lock_entry (LockProofs.unify_pin originals) (Lock.r_versions r)) (Lock.r_packages r)).

(* it is what a successful unify stores under that architecture, whatever the other architectures are *)
Lemma arch_lock_of_unify ord ordp originals inputs arch U S bya mba :
  originals <> [] -> NoDup (List.map Lock.r_arch inputs) -> ~ In Generated.C09Lock.unify_index_key (List.map Lock.r_arch inputs) ->
  In (Lock.resolved_of arch (arch_resolution U S)) inputs ->
  Lock.unify ord ordp originals inputs = Ok (bya, mba) ->
  C12Lib.alookup arch bya = Some (arch_lock originals arch U S).
Proof.
  intros Hne ND Nidx Hin Eu.
  rewrite <- (LockUnifyOrder.resolved_of_arch arch (arch_resolution U S)) at 1.
  exact (LockProofs.unify_per_arch_exact _ _ _ _ _ _ Hne ND Nidx Eu _ Hin).
Qed.

Lemma arch_lock_lists originals arch U S :
  NoDup (List.map (fun j => p_name (nth j U dummy_pkg)) S) ->
  lists_pinned_entries (LockProofs.unify_pin originals) U S (arch_lock originals arch U S).
Proof. intro ND. exact (arch_lock_lists_pinned_entries U S (LockProofs.unify_pin originals) arch ND). Qed.

Lemma members_nodup U W dq0 S : resolve U W dq0 = Ok S -> NoDup (List.map (fun j => p_name (nth j U dummy_pkg)) S).
Proof.
  intro H. pose proof (nodup_lemma U W dq0 S H) as ND. unfold pkgs_of in ND. rewrite map_map in ND. exact ND.
Qed.

(* ---- the pin map of a request list has the right shape on every name ---------------------------- *)
Lemma unify_pin_shape originals p : Forall LockPinProofs.plain_request originals -> pin_shape (LockProofs.unify_pin originals) p.
Proof.
  intros H. unfold pin_shape. destruct (string_dec (LockProofs.unify_pin originals (p_name p)) "") as [E|E]; [left; exact E|]. right.
  destruct (LockPinProofs.pin_of_requested_name originals (p_name p) H E) as [o [Ho [_ [Hne Eq]]]].
  exists (c_pin (resolve_constraint o)). split; [|exact Eq].
  rewrite Forall_forall in H. destruct (LockPinProofs.request_pin_clean o (H o Ho)) as [F|F]; [contradiction | exact F].
Qed.

(* ---- the statement of Properties/C09.v ------------------------------------------------------------ *)
Lemma fixpoint_pinned_lemma (U : universe) W dq0 S originals arch :
  envelope_b U W = true -> resolve U W dq0 = Ok S ->
  (forall j, In j S -> lockable (nth j U dummy_pkg)) ->
  Forall LockPinProofs.plain_request originals ->
  let pin := LockProofs.unify_pin originals in
  (forall n, pin n = LockSpec.spec_pin originals n) /\
  (forall n, (forall o, In o originals -> c_name (resolve_constraint o) <> n) -> pin n = "") /\
  lists_pinned_entries pin U S (arch_lock originals arch U S) /\
  (forall L, lists_pinned_entries pin U S L ->
     envelope_b U L = true /\ forall S', resolve U L dq0 = Ok S' -> forall j, In j S' <-> In j S) /\
  (forall L j, lists_pinned_entries pin U S L -> In j S ->
     p_pin (nth j U dummy_pkg) <> "" -> pin (p_name (nth j U dummy_pkg)) = "" -> forall S', resolve U L dq0 <> Ok S') /\
  (versions_parse U S -> tags_attached pin U S -> pinned_by_own_name U S ->
   no_member_excluded U S -> deps_wellformed U S ->
   forall L, lists_pinned_entries pin U S L -> exists S', resolve U L dq0 = Ok S' /\ forall j, In j S' <-> In j S).
Proof.
  intros HE H HL HP pin.
  assert (HS : forall j, In j S -> pin_shape pin (nth j U dummy_pkg)) by (intros j _; apply unify_pin_shape; exact HP).
  split; [exact (LockPinProofs.unify_pin_is_spec_pin originals HP)|].
  split; [intros n Hn; exact (LockPinProofs.pin_only_for_requested_names originals n HP Hn)|].
  split; [exact (arch_lock_lists originals arch U S (members_nodup U W dq0 S H))|].
  split; [intros L HLL; exact (pinned_same_members U W dq0 S pin L HE H HL HS HLL)|].
  split.
  - intros L j HLL Hj Hp He S'. pose proof (envelope_facts U W HE) as EF.
    apply (untagged_entry_fails U dq0 L j EF (proj2 (members_lemma U W dq0 S H) j Hj) (HL j Hj) Hp).
    apply HLL. exists j. split; [exact Hj|]. unfold pinned_entry. rewrite He, sapp_nil_r'. reflexivity.
  - intros HV HT HO HN HW L HLL. exact (pinned_complete U W dq0 S pin L HE H HL HS HV HT HO HN HW HLL).
Qed.

(* ---- witnesses -------------------------------------------------------------------------------------- *)
(* C09-F1: world [a@edge], a -> d, both only in the tagged repository.  unify attaches the tag to a (requested by
   name) and not to d; the emitted lock cannot be resolved; with the tag on d as well it reproduces the origin *)
Lemma pinned_refuted_F1 :
  let U := U_edge in let W := ["a@edge"] in let S := [1; 0] in
  envelope_b U W = true /\ resolve U W [] = Ok S /\ Forall LockPinProofs.plain_request W /\
  (forall j, In j S -> lockable (nth j U dummy_pkg)) /\
  LockProofs.unify_pin W "a" = "@edge" /\ LockProofs.unify_pin W "d" = "" /\
  arch_lock W "amd64" U S = ["a=2.0@edge"; "d=3.0"] /\
  resolve U (arch_lock W "amd64" U S) [] = Err /\
  resolve U ["a=2.0@edge"; "d=3.0@edge"] [] = Ok S.
Proof.
  cbv zeta. split; [vm_compute; reflexivity|]. split; [vm_compute; reflexivity|].
  split. { constructor; [|constructor]. split; vm_compute; reflexivity. }
  split. { intros j [<-|[<-|[]]]; (split; [|split]); vm_compute; repeat split; discriminate. }
  repeat split; vm_compute; reflexivity.
Qed.

(* C09-F8: every member of the tagged repository is requested with its tag and every entry carries it, the other hypotheses
   of the positive clause hold — except that the tagged p1 is reached through the virtual v: the emitted lock fails *)
Lemma pinned_refuted_F8 :
  let U := U_edge_virtual in let W := ["a@edge"; "p1@edge"; "r"] in let S := [3; 2; 1; 0] in
  envelope_b U W = true /\ resolve U W [] = Ok S /\ Forall LockPinProofs.plain_request W /\
  (forall j, In j S -> lockable (nth j U dummy_pkg)) /\
  versions_parse U S /\ tags_attached (LockProofs.unify_pin W) U S /\ no_member_excluded U S /\ deps_wellformed U S /\
  ~ pinned_by_own_name U S /\
  arch_lock W "amd64" U S = ["0x=1.0"; "a=1.0@edge"; "p1=1.0@edge"; "r=1.0"] /\
  resolve U (arch_lock W "amd64" U S) [] = Err.
Proof.
  cbv zeta. split; [vm_compute; reflexivity|]. split; [vm_compute; reflexivity|].
  split. { repeat constructor; vm_compute; reflexivity. }
  split. { intros j [<-|[<-|[<-|[<-|[]]]]]; (split; [|split]); vm_compute; repeat split; discriminate. }
  split. { intros j [<-|[<-|[<-|[<-|[]]]]]; vm_compute; discriminate. }
  split. { intros j [<-|[<-|[<-|[<-|[]]]]]; vm_compute; auto. }
  split.
  { intros m cd rest x Hm Hcd Hneg Hx. exfalso.
    destruct Hm as [<-|[<-|[<-|[<-|[]]]]]; vm_compute in Hcd; repeat (destruct Hcd as [<-|Hcd]; [vm_compute in Hneg; discriminate|]); exact Hcd. }
  split.
  { intros m d Hm Hd Hdep. destruct Hm as [<-|[<-|[<-|[<-|[]]]]]; vm_compute in Hd;
      repeat (destruct Hd as [<-|Hd]; [vm_compute in Hdep |- *; congruence|]); contradiction. }
  split.
  { intro F. specialize (F 2 (cook_str "v") 3). destruct F as [F|F].
    - right; left; reflexivity.
    - vm_compute. left. reflexivity.
    - left; reflexivity.
    - vm_compute. reflexivity.
    - vm_compute in F. discriminate.
    - vm_compute in F. discriminate. }
  split; vm_compute; reflexivity.
Qed.

(* the hypotheses of the positive clause are satisfiable with a tagged member: a (tagged, requested a@edge) -> d, b -> a *)
Lemma pinned_example :
  let U := U_edge_ok in let W := ["a@edge"; "b"] in let S := [1; 0; 2] in
  envelope_b U W = true /\ resolve U W [] = Ok S /\ Forall LockPinProofs.plain_request W /\
  (forall j, In j S -> lockable (nth j U dummy_pkg)) /\
  versions_parse U S /\ tags_attached (LockProofs.unify_pin W) U S /\ pinned_by_own_name U S /\
  no_member_excluded U S /\ deps_wellformed U S /\
  arch_lock W "amd64" U S = ["a=2.0@edge"; "b=1.0"; "d=3.0"] /\
  resolve U (arch_lock W "amd64" U S) [] = Ok [1; 0; 2].
Proof.
  cbv zeta. split; [vm_compute; reflexivity|]. split; [vm_compute; reflexivity|].
  split. { repeat constructor; vm_compute; reflexivity. }
  split. { intros j [<-|[<-|[<-|[]]]]; (split; [|split]); vm_compute; repeat split; discriminate. }
  split. { intros j [<-|[<-|[<-|[]]]]; vm_compute; discriminate. }
  split. { intros j [<-|[<-|[<-|[]]]]; vm_compute; auto. }
  split.
  { intros m d y Hm Hd Hy Sy.
    destruct Hm as [<-|[<-|[<-|[]]]]; vm_compute in Hd; repeat (destruct Hd as [<-|Hd]); try contradiction;
      destruct Hy as [<-|[<-|[<-|[]]]]; vm_compute in Sy; try discriminate; vm_compute; auto. }
  split.
  { intros m cd rest x Hm Hcd Hneg Hx. exfalso.
    destruct Hm as [<-|[<-|[<-|[]]]]; vm_compute in Hcd; repeat (destruct Hcd as [<-|Hcd]; [vm_compute in Hneg; discriminate|]); exact Hcd. }
  split.
  { intros m d Hm Hd Hdep. destruct Hm as [<-|[<-|[<-|[]]]]; vm_compute in Hd;
      repeat (destruct Hd as [<-|Hd]; [vm_compute in Hdep |- *; congruence|]); contradiction. }
  split; vm_compute; reflexivity.
Qed.
