(* C09 against Model/Resolver.v: re-resolving the lock of a resolution.

   Part 1 (resolver only).  An UPPER BOUND of every result: a set that holds
   every listed provider of every world entry and of every positive dependency
   of its members contains the result (nothing is installed that nobody asked
   for — the "minimal" hypothesis of c09_fixpoint_partial).  With the closure
   theorem of C02 (the "sound" hypothesis) it gives: inside the envelope, ANY
   world whose entries name exactly the members of a result resolves — if it
   resolves at all — to the same member set.
   Part 2: the lock world  name=version  of Model/Lock.v is such a world.
   Part 3: the third hypothesis ("the resolver finds the solution of an exact
   lock") is FALSE inside both envelopes: a conflict entry "!b" of one member
   against another member b is honoured only for packages chosen later, so the
   origin holds both and its lock cannot be resolved. *)
From Apko Require Import Base.Prelude Base.Regex Generated.Regexes Generated.VersionConsts Generated.C03Version
  Model.Version Model.Resolver Spec.ResolveSpec
  Proofs.ResolveProofs Proofs.ResolveProofs2 Proofs.C14Proofs Proofs.ResolveTheorems Proofs.ResolveEnvelope
  Proofs.ResolveClosure Proofs.ResolveClosure2.
Open Scope string_scope. Open Scope list_scope. Open Scope nat_scope.

(* ================= Part 1: the upper bound ======================================= *)
(* every listed provider of name [n] is in T *)
Definition lists_in (R : resolver) (T : list pid) (n : string) : Prop :=
  forall l x, alookup n (r_names R) = Some l -> In x l -> In x T.
Definition prov_closed (R : resolver) (T : list pid) : Prop :=
  forall m d, In m T -> In d (positive_deps (getp R m)) -> lists_in R T (s_name d).

Lemma eval_dep_opts_listed R st k pin d l : eval_dep R st k pin d = DOpts l ->
  exists cands, alookup (s_name d) (r_names R) = Some cands /\ incl l cands.
Proof.
  unfold eval_dep. intros H.
  destruct (my_provides k (s_name d) || my_provides k (s_raw d)); [discriminate|].
  match type of H with (if ?b then _ else _) = _ => destruct b; [discriminate|] end.
  destruct (alookup (s_name d) (st_selected st)) as [j|].
  { destruct (String.eqb (s_version d) ""); [discriminate|].
    destruct (k_ver (getp R j)); [|discriminate]. destruct (s_req d); [|discriminate].
    destruct (selected_provides_satisfy (s_name d) m0 (k_provs (getp R j))) as [[|]|]; try discriminate.
    destruct (satisfies (s_dep d) m m0); discriminate. }
  destruct (alookup (s_name d) (r_names R)) as [cands|]; [|discriminate]. exists cands. split; [reflexivity|].
  match type of H with match ?f with _ => _ end = _ => destruct f as [|x0 t] eqn:EFl; [discriminate|] end.
  inversion H; subst l. rewrite <- EFl. intros x Hx. apply filter_packages_sub in Hx. tauto.
Qed.

Section Upper.
  Variable R : resolver.
  Variable T : list pid.
  Hypothesis HT : prov_closed R T.

  Lemma deps_loop_upper rec self pin parents : In self T ->
    (forall best ps st st' sub, rec best pin ps st = Ok (st', sub) -> In best T -> incl sub T) ->
    forall n cs st acc st' deps,
      deps_loop R rec self pin parents n cs st acc = Ok (st', deps) ->
      (forall d, In d cs -> In d (positive_deps (getp R self))) -> incl acc T -> incl deps T.
  Proof.
    intros Hs Hrec. induction n as [|n IH]; intros cs st acc st' deps H Hcs Hacc.
    - destruct cs; simpl in H; [inversion H; subst; exact Hacc | discriminate].
    - destruct cs as [|c0 cs0]; [simpl in H; inversion H; subst; exact Hacc|].
      cbn [deps_loop] in H. remember (c0 :: cs0) as cs.
      destruct (eval_all R st (getp R self) pin cs []) as [opts|] eqn:EA; [|discriminate].
      pose proof (eval_all_sound _ _ _ _ _ _ _ EA) as Snd.
      destruct (lowest opts) as [[d cands]|] eqn:EL; [|inversion H; subst; exact Hacc].
      destruct (best_package R (s_name d) (st_existing st) (st_origins st) "" cands) as [best|] eqn:EB; [|discriminate].
      destruct (disqualify_conflicts R best (st_dq st)) as [dq1| | |] eqn:ED; simpl in H; try discriminate.
      destruct (pick R self (st_selected st)) as [sel1| | |] eqn:EP; simpl in H; try discriminate.
      destruct (rec best pin (k_name (getp R self) :: parents) (with_selected (with_dq st dq1) sel1)) as [[st2 sub]| | |] eqn:ER;
        simpl in H; try discriminate.
      apply lowest_In in EL. destruct EL as [key EL]. apply best_package_In in EB.
      destruct (Snd _ _ _ EL) as [[]|[Hdcs [_ Hev]]].
      destruct (eval_dep_opts_listed _ _ _ _ _ _ Hev) as [cands0 [E0 I0]].
      assert (HbT : In best T) by (apply (HT self d Hs (Hcs d Hdcs) cands0 best E0); apply I0; exact EB).
      eapply IH; [exact H | |].
      + intros e He. apply Hcs. apply filter_In in He. destruct He as [He _]. apply in_map_iff in He.
        destruct He as [[k0 [d0 l0]] [E1 Hin0]]. simpl in E1. subst d0.
        destruct (Snd _ _ _ Hin0) as [[]|[A _]]. exact A.
      + apply incl_app; [exact Hacc|]. apply incl_app; [eapply Hrec; eassumption|]. intros x [<-|[]]. exact HbT.
  Qed.

  Lemma get_deps_upper : forall fuel i pin parents st st' deps,
    get_deps fuel R i pin parents st = Ok (st', deps) -> In i T -> incl deps T.
  Proof.
    induction fuel as [|f IH]; intros i pin parents st st' deps H Hi; [discriminate|].
    cbn [get_deps] in H. destruct (mem_str (k_name (getp R i)) parents); [inversion H; subst; intros x []|].
    destruct (constrain R (k_deps (getp R i)) (st_dq st)) as [dq1| | |]; cbn [rbind] in H; try discriminate.
    eapply (deps_loop_upper (get_deps f R) i pin parents Hi); [| exact H | auto | intros x []].
    intros best ps st0 st0' sub E Hb. eapply IH; eassumption.
  Qed.

  Hypothesis Hiif : r_iif R = [].

  Lemma get_pkg_upper w dq sel ex dq' sel' i deps :
    get_pkg R w dq sel ex = Ok (dq', sel', i, deps) -> lists_in R T (s_name w) -> In i T /\ incl deps T.
  Proof.
    intros H Hw. unfold get_pkg, get_pkg_core in H.
    destruct (resolve_package R dq w) as [i0| | |] eqn:ER; cbn [rbind] in H; try discriminate.
    destruct (get_deps (fuel_bound R) R i0 (s_pin w) [] _) as [[st' ds]| | |] eqn:EG; cbn [rbind] in H; try discriminate.
    destruct (dedup_by_name R ds) as [l added] eqn:ED. cbn [rbind] in H.
    destruct (iif_loop (fuel_bound R) R 0 l added) as [deps0| | |] eqn:EI; cbn [rbind] in H; try discriminate.
    apply (iif_loop_nil_ok _ _ _ _ _ _ Hiif) in EI. subst deps0.
    assert (Hl : forall j, In j l -> In j ds) by (intros j Hj; apply (dedup_sub R); rewrite ED; exact Hj).
    injection H as <- <- <- <-.
    assert (Hi : In i0 T).
    { unfold resolve_package in ER.
      destruct (best_package R (s_name w) [] [] (s_pin w) (candidates R dq w)) as [j|] eqn:EB; [|discriminate].
      inversion ER; subst j. apply best_package_In in EB. unfold candidates in EB.
      destruct (alookup (s_name w) (r_names R)) as [cands|] eqn:EC; [|contradiction].
      apply filter_packages_sub in EB. eapply Hw; [exact EC | tauto]. }
    split; [exact Hi|]. intros j Hj. eapply get_deps_upper; [exact EG | exact Hi | apply Hl; exact Hj].
  Qed.

  Lemma phase2_upper : forall ws dq sel acc S,
    phase2 R ws dq sel acc = Ok S -> (forall w, In w ws -> lists_in R T (s_name w)) ->
    incl (fst (fst acc)) T -> incl S T.
  Proof.
    induction ws as [|w ws IH]; intros dq sel acc S H Hws Hacc.
    - simpl in H. inversion H; subst. exact Hacc.
    - cbn [phase2] in H.
      destruct (get_pkg R w dq sel (snd acc)) as [[[[dq' sel'] i] deps]| | |] eqn:EG; cbn [rbind] in H; try discriminate.
      destruct (get_pkg_upper _ _ _ _ _ _ _ _ EG (Hws w (or_introl eq_refl))) as [Hi Hd].
      eapply IH; [exact H | intros w' Hw'; apply Hws; right; exact Hw' |].
      intros m Hm. apply track_members in Hm. destruct Hm as [Hm| ->]; [|exact Hi].
      apply track_fold_members in Hm. destruct Hm as [Hm|Hm]; [apply Hacc; exact Hm | apply Hd; exact Hm].
  Qed.

  Theorem resolve_upper W dq0 S : resolve_with R W dq0 = Ok S ->
    (forall w, In w W -> lists_in R T (s_name (cook_str w))) -> incl S T.
  Proof.
    unfold resolve_with. intros H HW.
    destruct (constrain R (List.map cook_dep W) dq0) as [dq1| | |]; cbn [rbind] in H; try discriminate.
    destruct (phase1 _ R _ dq1 []) as [[dq2 depmap]| | |]; cbn [rbind] in H; try discriminate.
    eapply phase2_upper; [exact H | | intros x []].
    intros w Hw. rewrite map_map in Hw. apply in_map_iff in Hw. destruct Hw as [s [<- Hs]]. apply HW. exact Hs.
  Qed.
End Upper.

(* ================= inside the envelope: worlds that name the members ================ *)
Lemma pkg_satisfies_b_names d k : pkg_satisfies_b d k = true -> k_name k = s_name d \/ provides_name k (s_name d).
Proof.
  unfold pkg_satisfies_b. intros H. apply orb_true_iff in H. destruct H as [H|H].
  - apply andb_true_iff in H. destruct H as [H _]. left. apply String.eqb_eq. exact H.
  - apply existsb_exists in H. destruct H as [pv [Hpv H]]. unfold provide_ok_b in H. apply andb_true_iff in H.
    destruct H as [H _]. right. exists pv. split; [exact Hpv | apply String.eqb_eq; exact H].
Qed.

Section SameMembers.
  Variable U : universe.
  Local Notation R := (new_resolver U).

  (* the own name of a package lists exactly that package *)
  Lemma own_single j : env_facts R -> j < List.length U -> alookup (nm R j) (r_names R) = Some [j].
  Proof.
    intros EF Hj. destruct (own_listed U j Hj) as [l [E Hin]]. destruct (ef_single _ EF _ _ E) as [x ->].
    destruct Hin as [<-|[]]. exact E.
  Qed.

  (* entry [e] of a world asks for member [j] by its own name *)
  Definition names_member (e : string) (j : pid) : Prop :=
    d_neg (cook_dep e) = None /\ s_name (cook_str e) = nm R j.

  Theorem same_members W dq0 S L :
    envelope_b U W = true -> resolve U W dq0 = Ok S ->
    (forall e, In e L -> exists j, In j S /\ names_member e j) ->
    (forall j, In j S -> exists e, In e L /\ names_member e j) ->
    envelope_b U L = true /\
    forall S', resolve U L dq0 = Ok S' -> forall j, In j S' <-> In j S.
  Proof.
    intros HE H HL1 HL2. pose proof (envelope_facts U W HE) as EF.
    pose proof (members_lemma U W dq0 S H) as [_ HV].
    (* the lock world is inside the envelope *)
    assert (HEL : envelope_b U L = true).
    { unfold envelope_b, envelope_c in *. apply andb_true_iff in HE. destruct HE as [HE _]. rewrite HE. cbn [andb].
      apply forallb_forall. intros cd Hcd. apply in_map_iff in Hcd. destruct Hcd as [e [<- He]].
      destruct (HL1 e He) as [j [Hj [N1 N2]]]. rewrite N1. unfold cook_dep; cbn [d_pos].
      unfold versioned_on_real_b. rewrite N2, (own_single j EF (HV j Hj)). unfold nm. rewrite String.eqb_refl. apply orb_true_r. }
    split; [exact HEL|]. intros S' H' j. split.
    - (* nothing beyond the members: S is closed under the unique providers *)
      revert j. change (incl S' S). apply (resolve_upper R S) with (W := L) (dq0 := dq0).
      + intros m d Hm Hd l x El Hx. destruct (ef_single _ EF _ _ El) as [x0 ->]. destruct Hx as [<-|[]].
        destruct (resolve_closure U EF W dq0 S H m Hm d Hd) as [y [Hy Sy]].
        assert (Vy : valid R y) by (apply valid_new; apply HV; exact Hy).
        rewrite <- (the_provider U _ _ y EF El Vy (pkg_satisfies_b_names _ _ Sy)). exact Hy.
      + apply iif_nil. exact EF.
      + exact H'.
      + intros e He l x El Hx. destruct (HL1 e He) as [j [Hj [_ N2]]]. rewrite N2, (own_single j EF (HV j Hj)) in El.
        inversion El; subst l. destruct Hx as [<-|[]]. exact Hj.
    - (* every member is asked for by name, and the candidate chosen for a request is a member *)
      intros Hj. destruct (HL2 j Hj) as [e [He [_ N2]]].
      destruct (closed_partial_lemma U L dq0 S' HEL H') as [_ [_ C]].
      destruct (C e He) as [dq [i [_ [Hi HiS]]]]. unfold candidates in Hi. rewrite N2, (own_single j EF (HV j Hj)) in Hi.
      apply filter_packages_sub in Hi. destruct Hi as [[<-|[]] _]. exact HiS.
  Qed.
End SameMembers.

(* ================= Part 2: the lock world of Model/Lock.v ============================== *)
From Apko Require Model.Lock Proofs.LockProofs Proofs.LockResolverBridge.

(* package [j] of the universe as a candidate of Model/Lock.v (its dq flag is what dq0 says) *)
Definition cand_at (U : universe) (dq0 : list pid) (j : pid) : Lock.cand :=
  LockResolverBridge.cand_of (nth j U dummy_pkg) (mem_pid j dq0).
Definition lock_universe (U : universe) (dq0 : list pid) : list Lock.cand :=
  List.map (fun ip => LockResolverBridge.cand_of (snd ip) (mem_pid (fst ip) dq0)) (number_from 0 U).
(* the lock of a result: name=version per member, in the order of the result *)
Definition lock_world (U : universe) (dq0 : list pid) (S : list pid) : list string :=
  Lock.lock_of (List.map (cand_at U dq0) S).

(* names and versions as the lock writes and reads them back *)
Definition lockable (p : pkg) : Prop :=
  LockProofs.clean_name (p_name p) /\ LockProofs.clean_version (p_version p) /\ bang_rest (p_name p) = None.

Lemma lock_entry_at U dq0 j :
  Lock.lock_entry_of (cand_at U dq0 j) = (p_name (nth j U dummy_pkg) ++ "=" ++ p_version (nth j U dummy_pkg))%string.
Proof. reflexivity. Qed.

Lemma bang_rest_app n t : n <> "" -> bang_rest (n ++ t)%string = None <-> bang_rest n = None.
Proof. destruct n as [|c n]; [congruence|]. intros _. simpl. destruct (Ascii.eqb c "!"); split; congruence. Qed.

Lemma clean_name_nonempty n : LockProofs.clean_name n -> n <> "".
Proof. intros [H _] E. subst n. apply H. reflexivity. Qed.

Lemma lock_entry_names U dq0 j : lockable (nth j U dummy_pkg) ->
  names_member U (Lock.lock_entry_of (cand_at U dq0 j)) j.
Proof.
  intros [Hn [Hv Hb]]. rewrite lock_entry_at. split.
  - unfold cook_dep; cbn [d_neg]. rewrite (proj2 (bang_rest_app _ _ (clean_name_nonempty _ Hn)) Hb). reflexivity.
  - unfold s_name, cook_str; cbn [s_c]. rewrite (LockProofs.lock_entry_parses _ _ Hn Hv). cbn [c_name].
    rewrite nm_new_resolver. reflexivity.
Qed.

Theorem fixpoint_same_members U W dq0 S :
  envelope_b U W = true -> resolve U W dq0 = Ok S ->
  (forall j, In j S -> lockable (nth j U dummy_pkg)) ->
  envelope_b U (lock_world U dq0 S) = true /\
  forall S', resolve U (lock_world U dq0 S) dq0 = Ok S' -> forall j, In j S' <-> In j S.
Proof.
  intros HE H HL. apply (same_members U W dq0 S _ HE H).
  - intros e He. unfold lock_world, Lock.lock_of in He. rewrite map_map in He. apply in_map_iff in He.
    destruct He as [j [<- Hj]]. exists j. split; [exact Hj | apply lock_entry_names; apply HL; exact Hj].
  - intros j Hj. exists (Lock.lock_entry_of (cand_at U dq0 j)). split.
    + unfold lock_world, Lock.lock_of. rewrite map_map. apply in_map_iff. exists j. split; [reflexivity | exact Hj].
    + apply lock_entry_names. apply HL. exact Hj.
Qed.

(* hypothesis (ii) of c09_fixpoint_partial — nothing else in the universe is
   admitted by a member's entry — is implied by the C02 envelope: what an entry
   n=v admits is named n or provides n, and n has one provider *)
Lemma lock_universe_In U dq0 k : In k (lock_universe U dq0) -> exists i, i < List.length U /\ k = cand_at U dq0 i.
Proof.
  unfold lock_universe. intros H. apply in_map_iff in H. destruct H as [[i p] [<- Hin]]. cbn [fst snd].
  pose proof (number_from_bound _ _ _ _ Hin) as B. pose proof (number_from_nth _ _ _ _ Hin) as N. rewrite Nat.sub_0_r in N.
  exists i. split; [lia|]. unfold cand_at. rewrite (nth_error_nth _ _ _ N). reflexivity.
Qed.

Lemma filter_for_sub c cands k : In k (Lock.filter_for c cands) -> In k cands.
Proof.
  unfold Lock.filter_for. destruct (c_dep c =? dep_versionAny)%Z; [intros H; apply filter_In in H; tauto|].
  destruct (parse_version (c_version c)); [intros H; apply filter_In in H; tauto | intros []].
Qed.

Lemma entry_admits_only_member U W dq0 j k' :
  envelope_b U W = true -> j < List.length U -> lockable (nth j U dummy_pkg) ->
  In k' (lock_universe U dq0) ->
  LockProofs.admitted (lock_universe U dq0) (Lock.lock_entry_of (cand_at U dq0 j)) k' -> k' = cand_at U dq0 j.
Proof.
  intros HE Hj [Hn [Hv _]] Hk' Ha. pose proof (envelope_facts U W HE) as EF.
  destruct (lock_universe_In U dq0 k' Hk') as [i [Hi ->]].
  unfold LockProofs.admitted in Ha. rewrite lock_entry_at, (LockProofs.lock_entry_parses _ _ Hn Hv) in Ha. cbn [c_name] in Ha.
  apply filter_for_sub in Ha. unfold Lock.cands_of in Ha. apply filter_In in Ha. destruct Ha as [_ Ha].
  assert (i = j); [|subst i; reflexivity].
  apply (the_provider U (p_name (nth j U dummy_pkg)) j i EF).
  - rewrite <- nm_new_resolver. apply own_single; assumption.
  - apply valid_new. exact Hi.
  - rewrite getp_new_resolver. apply orb_true_iff in Ha. destruct Ha as [Ha|Ha].
    + left. apply String.eqb_eq in Ha. exact Ha.
    + right. apply existsb_exists in Ha. destruct Ha as [prov [Hp Ha]]. apply String.eqb_eq in Ha.
      exists (cook_str prov). split; [unfold cook_pkg; cbn [k_provs]; apply in_map; exact Hp | exact Ha].
Qed.

(* the statement of Properties/C09.v *)
Lemma fixpoint_resolver_partial_lemma (U : universe) W dq0 S :
  envelope_b U W = true -> resolve U W dq0 = Ok S ->
  (forall j, In j S -> lockable (nth j U dummy_pkg)) ->
  Closed U W (pkgs_of U S) /\
  lock_world U dq0 S = Lock.lock_of (List.map (cand_at U dq0) S) /\
  envelope_b U (lock_world U dq0 S) = true /\
  (forall j k', In j S -> In k' (lock_universe U dq0) ->
     LockProofs.admitted (lock_universe U dq0) (Lock.lock_entry_of (cand_at U dq0 j)) k' -> k' = cand_at U dq0 j) /\
  (forall S', resolve U (lock_world U dq0 S) dq0 = Ok S' -> forall j, In j S' <-> In j S).
Proof.
  intros HE H HL. destruct (fixpoint_same_members U W dq0 S HE H HL) as [A B].
  split; [exact (closed_full_lemma U W dq0 S HE H)|]. split; [reflexivity|]. split; [exact A|]. split; [|exact B].
  intros j k' Hj Hk' Ha.
  exact (entry_admits_only_member U W dq0 j k' HE (proj2 (members_lemma U W dq0 S H) j Hj) (HL j Hj) Hk' Ha).
Qed.

(* ================= Part 3: the lock need not resolve ===================================== *)
Fixpoint insert_everywhere {A} (x : A) (l : list A) : list (list A) :=
  match l with
  | [] => [[x]]
  | y :: t => (x :: l) :: List.map (cons y) (insert_everywhere x t)
  end.
Fixpoint all_orders {A} (l : list A) : list (list A) :=
  match l with
  | [] => [[]]
  | x :: t => flat_map (insert_everywhere x) (all_orders t)
  end.

(* C09-F6: a -> b, c; c -> !b.  The conflict entry of c is applied when c is
   expanded, AFTER b was chosen for a; it only keeps b from being chosen again.
   The origin [b c a] is closed (C02), every member answers its own entry, no
   entry admits anything else — and its lock fails to resolve in the order of
   the result, in sorted order (the order lock.go writes) and in three more of
   the six orders of its entries: whenever c is expanded before the request or
   the dependency that needs b is looked at.  Only [b a c] replays the origin. *)
Definition U_conflict : universe :=
  [wp "a" "1.0" ["b"; "c"] [] []; wp "b" "1.0" [] [] []; wp "c" "1.0" ["!b"] [] []].

Lemma fixpoint_finds_locked_refuted :
  let U := U_conflict in let W := ["a"] in let S := [1; 2; 0] in
  envelope_b U W = true /\ resolve U W [] = Ok S /\ Closed U W (pkgs_of U S) /\
  (forall j, In j S -> lockable (nth j U dummy_pkg)) /\
  (forall j, In j S -> LockProofs.admitted (lock_universe U []) (Lock.lock_entry_of (cand_at U [] j)) (cand_at U [] j)) /\
  lock_world U [] S = ["b=1.0"; "c=1.0"; "a=1.0"] /\
    resolve U (lock_world U [] S) [] = Err /\
    resolve U ["a=1.0"; "b=1.0"; "c=1.0"] [] = Err /\
    List.map (fun L => resolve U L []) (all_orders (lock_world U [] S)) = [Err; Err; Err; Ok S; Err; Err].
Proof.
  cbv zeta.
  assert (HE : envelope_b U_conflict ["a"] = true) by (vm_compute; reflexivity).
  assert (HR : resolve U_conflict ["a"] [] = Ok [1; 2; 0]) by (vm_compute; reflexivity).
  split; [exact HE|]. split; [exact HR|]. split; [exact (closed_full_lemma _ _ [] _ HE HR)|].
  split.
  { intros j [<-|[<-|[<-|[]]]]; (split; [|split]); vm_compute; repeat split; discriminate. }
  split.
  { intros j [<-|[<-|[<-|[]]]]; vm_compute; tauto. }
  split; [vm_compute; reflexivity|].
  split; [|split]; vm_compute; reflexivity.
Qed.
