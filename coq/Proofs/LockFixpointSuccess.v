(* C09 against Model/Resolver.v: the lock of a result DOES resolve — inside the
   envelope of c02_closed_partial, when every member comes from an untagged
   repository and has a parsable version, no member is excluded by a member's
   conflict entry, and no dependency of a member carries a version without a
   known operator.  (Without the third hypothesis: finding C09-F6.)
   The proof follows the re-resolution step by step and shows that none of them
   returns an error: members are never disqualified, `selected` only ever holds
   the unique provider of a name, every dependency of a member evaluates to its
   provider (or is skipped), `pick` finds nothing taken. *)
From Apko Require Import Base.Prelude Base.Regex Generated.Regexes Generated.VersionConsts Generated.C03Version
  Model.Version Model.Resolver Spec.ResolveSpec
  Proofs.ResolveProofs Proofs.ResolveProofs2 Proofs.C14Proofs Proofs.ResolveTheorems Proofs.ResolveEnvelope
  Proofs.ResolveClosure Proofs.ResolveClosure2 Proofs.ResolveNoPanic Proofs.LockFixpointResolver.
From Apko Require Proofs.VersionProofs.
Open Scope string_scope. Open Scope list_scope. Open Scope nat_scope.

(* ---- a version equals itself ------------------------------------------------------ *)
Lemma compare_versions_refl a : compare_versions a a = cmp_equal.
Proof.
  rewrite VersionProofs.compare_ladder_is_hand. unfold VersionProofs.compare_versions_hand.
  rewrite VersionProofs.numbers_cmp. destruct VersionProofs.good_cmp_nums as [Rf _]. rewrite Rf.
  rewrite !VersionProofs.ladder_cmp, !Z.compare_refl. reflexivity.
Qed.

Lemma satisfies_equal_refl a : satisfies dep_versionEqual a a = true.
Proof. unfold satisfies. rewrite compare_versions_refl. vm_compute. reflexivity. Qed.

(* ---- filterPackages is antitone in dq ------------------------------------------------ *)
Lemma filter_packages_nil R dq o l x : In x (filter_packages R dq o l) -> In x (filter_packages R [] o l).
Proof.
  unfold filter_packages. intros H.
  assert (B : forall y, In y (List.filter (fun i => negb (mem_pid i dq) && pin_allowed R o (getp R i)) l) ->
                        In y (List.filter (fun i => negb (mem_pid i []) && pin_allowed R o (getp R i)) l)).
  { intros y Hy. apply filter_In in Hy. destruct Hy as [A B]. apply filter_In. split; [exact A|].
    apply andb_true_iff in B. destruct B as [_ B]. simpl. exact B. }
  destruct (fo_dep o =? dep_versionAny)%Z; [apply B; exact H|].
  destruct (fo_req o); [|contradiction]. apply filter_In in H. destruct H as [H1 H2]. apply filter_In. split; [apply B; exact H1 | exact H2].
Qed.

Lemma filter_packages_In R dq o l x : In x l -> ~ In x dq -> pin_allowed R o (getp R x) = true ->
  ((fo_dep o =? dep_versionAny)%Z = true \/ exists req, fo_req o = Some req /\ version_passes (getp R x) (fo_dep o) req = true) ->
  In x (filter_packages R dq o l).
Proof.
  intros Hl Hdq Hp Hv. unfold filter_packages.
  assert (B : In x (List.filter (fun i => negb (mem_pid i dq) && pin_allowed R o (getp R i)) l)).
  { apply filter_In. split; [exact Hl|]. rewrite Hp. apply mem_pid_false in Hdq. rewrite Hdq. reflexivity. }
  destruct Hv as [Hv|[req [E Hv]]].
  - rewrite Hv. exact B.
  - destruct (fo_dep o =? dep_versionAny)%Z; [exact B|]. rewrite E. apply filter_In. split; assumption.
Qed.

Lemma pin_allowed_unpinned R o k : p_pin (k_pkg k) = "" -> pin_allowed R o k = true.
Proof. intros E. unfold pin_allowed. rewrite E. reflexivity. Qed.

Lemma fold_dq_add_In l : forall dq x, In x (fold_left (fun dq j => dq_add j dq) l dq) -> In x dq \/ In x l.
Proof.
  induction l as [|a l IH]; intros dq x H; simpl in H; [left; exact H|].
  apply IH in H. destruct H as [H|H]; [|right; right; exact H].
  unfold dq_add in H. destruct (mem_pid a dq); [left; exact H|]. destruct H as [<-|H]; [right; left; reflexivity | left; exact H].
Qed.

Lemma fold_dq_cond_In (f : pid -> bool) l : forall dq x,
  In x (fold_left (fun dq j => if f j then dq_add j dq else dq) l dq) -> In x dq \/ (In x l /\ f x = true).
Proof.
  induction l as [|a l IH]; intros dq x H; simpl in H; [left; exact H|].
  apply IH in H. destruct H as [H|[H1 H2]]; [|right; split; [right; exact H1 | exact H2]].
  destruct (f a) eqn:E; [|left; exact H].
  unfold dq_add in H. destruct (mem_pid a dq); [left; exact H|].
  destruct H as [<-|H]; [right; split; [left; reflexivity | exact E] | left; exact H].
Qed.

Section Success.
  Variable U : universe.
  Local Notation R := (new_resolver U).
  Hypothesis EF : env_facts R.
  Variable S : list pid.

  (* what a conflict entry "!rest" disqualifies, whatever was disqualified before *)
  Definition excluded (rest : cstr) (x : pid) : Prop :=
    exists providers, alookup (s_name rest) (r_names R) = Some providers /\
                      In x (filter_packages R [] (world_opts rest) providers).

  Hypothesis SV : forall j, In j S -> valid R j.
  Hypothesis SC : forall m, In m S -> Sat U S m.
  Hypothesis SP : forall j, In j S -> p_pin (k_pkg (getp R j)) = "".
  Hypothesis SN : forall m cd rest x, In m S -> In cd (k_deps (getp R m)) -> d_neg cd = Some rest -> In x S -> ~ excluded rest x.
  Hypothesis SW : forall m d, In m S -> In d (positive_deps (getp R m)) -> (s_dep d =? dep_versionAny)%Z = true -> s_version d = "".
  Hypothesis SD : forall j, In j S -> NoDup (List.map s_name (k_provs (getp R j))).

  Definition dq_ok (dq : list pid) : Prop := forall x, In x S -> ~ In x dq.

  Lemma provider_single x n : valid R x -> (k_name (getp R x) = n \/ provides_name (getp R x) n) ->
    alookup n (r_names R) = Some [x].
  Proof.
    intros V H.
    assert (L : listed (r_names R) n x).
    { destruct H as [H|[pv [Hpv H]]]; rewrite <- H.
      - apply valid_new in V. apply (own_listed U x V).
      - apply provider_listed; assumption. }
    destruct L as [l [E Hin]]. destruct (ef_single _ EF _ _ E) as [x0 ->]. destruct Hin as [<-|[]]. exact E.
  Qed.

  (* the provider of a dependency of a member is a member *)
  Lemma dep_provider m d : In m S -> In d (positive_deps (getp R m)) ->
    exists y, In y S /\ alookup (s_name d) (r_names R) = Some [y] /\ pkg_satisfies_b d (getp R y) = true.
  Proof.
    intros Hm Hd. destruct (SC m Hm d Hd) as [y [Hy Sy]]. exists y. split; [exact Hy|]. split; [|exact Sy].
    apply provider_single; [apply SV; exact Hy | apply pkg_satisfies_b_names; exact Sy].
  Qed.

  Lemma dep_versioned m d y : In m S -> In d (positive_deps (getp R m)) -> (s_dep d =? dep_versionAny)%Z = false ->
    In y S -> pkg_satisfies_b d (getp R y) = true ->
    k_name (getp R y) = s_name d /\
    exists a r, k_ver (getp R y) = Some a /\ s_req d = Some r /\ satisfies (s_dep d) a r = true.
  Proof.
    intros Hm Hd Hdep Hy Sy.
    destruct (real_provider U EF m d y (SV m Hm) Hd Hdep (SV y Hy) (pkg_satisfies_b_names _ _ Sy)) as [Hn _].
    split; [exact Hn|]. unfold pkg_satisfies_b in Sy. apply orb_true_iff in Sy. destruct Sy as [Sy|Sy].
    - apply andb_true_iff in Sy. destruct Sy as [_ Sy]. unfold ver_ok_b in Sy. rewrite Hdep in Sy. cbn [orb] in Sy.
      destruct (k_ver (getp R y)) as [a|]; [|discriminate]. destruct (s_req d) as [r|]; [|discriminate].
      exists a, r. auto.
    - exfalso. apply existsb_exists in Sy. destruct Sy as [pv [Hpv Sy]]. unfold provide_ok_b in Sy.
      apply andb_true_iff in Sy. destruct Sy as [Sy _]. apply String.eqb_eq in Sy.
      apply (ef_no_self_provide _ EF _ pv (getp_in _ _ (SV y Hy)) Hpv). congruence.
  Qed.

  (* ---- constrain never disqualifies a member ------------------------------------------ *)
  Definition cd_fine (cd : cdep) : Prop :=
    match d_neg cd with
    | Some rest => forall x, In x S -> ~ excluded rest x
    | None =>
        (s_dep (d_pos cd) =? dep_versionAny)%Z = true \/
        alookup (s_name (d_pos cd)) (r_names R) = None \/
        exists req, s_req (d_pos cd) = Some req /\
          forall providers x, alookup (s_name (d_pos cd)) (r_names R) = Some providers -> In x providers -> In x S ->
                              constrain_provider (d_pos cd) req (getp R x) = false
    end.

  Lemma constrain_members cs : (forall cd, In cd cs -> cd_fine cd) ->
    forall dq, dq_ok dq -> exists dq1, constrain R cs dq = Ok dq1 /\ dq_ok dq1.
  Proof.
    unfold constrain. induction cs as [|cd cs IH]; intros Hf dq Hdq; [exists dq; split; [reflexivity | exact Hdq]|].
    cbn [fold_left rbind].
    assert (St : exists dq', (match d_neg cd with
                   | Some rest => Ok (disqualify_providers R rest dq)
                   | None => if (s_dep (d_pos cd) =? dep_versionAny)%Z then Ok dq else
                       match alookup (s_name (d_pos cd)) (r_names R) with
                       | None => Ok dq
                       | Some providers =>
                           match s_req (d_pos cd) with
                           | None => Err
                           | Some req => Ok (fold_left (fun dq j => if constrain_provider (d_pos cd) req (getp R j) then dq_add j dq else dq) providers dq)
                           end
                       end
                   end) = Ok dq' /\ dq_ok dq').
    { pose proof (Hf cd (or_introl eq_refl)) as F. unfold cd_fine in F. destruct (d_neg cd) as [rest|].
      - eexists. split; [reflexivity|]. intros x Hx Hin. unfold disqualify_providers in Hin.
        destruct (alookup (s_name rest) (r_names R)) as [providers|] eqn:E; [|exact (Hdq x Hx Hin)].
        apply fold_dq_add_In in Hin. destruct Hin as [Hin|Hin]; [exact (Hdq x Hx Hin)|].
        apply (F x Hx). exists providers. split; [exact E | eapply filter_packages_nil; exact Hin].
      - destruct F as [F|[F|[req [F1 F2]]]].
        + rewrite F. exists dq. split; [reflexivity | exact Hdq].
        + rewrite F. destruct (s_dep (d_pos cd) =? dep_versionAny)%Z; exists dq; (split; [reflexivity | exact Hdq]).
        + destruct (s_dep (d_pos cd) =? dep_versionAny)%Z; [exists dq; split; [reflexivity | exact Hdq]|].
          destruct (alookup (s_name (d_pos cd)) (r_names R)) as [providers|] eqn:E; [|exists dq; split; [reflexivity | exact Hdq]].
          rewrite F1. eexists. split; [reflexivity|]. intros x Hx Hin.
          apply (fold_dq_cond_In (fun j => constrain_provider (d_pos cd) req (getp R j))) in Hin.
          destruct Hin as [Hin|[Hin Hc]]; [exact (Hdq x Hx Hin)|]. rewrite (F2 providers x eq_refl Hin Hx) in Hc. discriminate. }
    destruct St as [dq' [E Hdq']]. rewrite E. apply IH; [intros cd' Hcd'; apply Hf; right; exact Hcd' | exact Hdq'].
  Qed.

  Lemma member_deps_fine m : In m S -> forall cd, In cd (k_deps (getp R m)) -> cd_fine cd.
  Proof.
    intros Hm cd Hcd. unfold cd_fine. destruct (d_neg cd) as [rest|] eqn:En.
    - intros x Hx. exact (SN m cd rest x Hm Hcd En Hx).
    - destruct (s_dep (d_pos cd) =? dep_versionAny)%Z eqn:Hdep; [left; reflexivity|]. right. right.
      assert (Hd : In (d_pos cd) (positive_deps (getp R m))) by (apply positive_deps_In; exists cd; auto).
      destruct (dep_provider m _ Hm Hd) as [y [Hy [Ey Sy]]].
      destruct (dep_versioned m _ y Hm Hd Hdep Hy Sy) as [Hn [a [r [Ea [Er Es]]]]].
      exists r. split; [exact Er|]. intros providers x E Hx _. rewrite Ey in E. inversion E; subst providers.
      destruct Hx as [<-|[]]. unfold constrain_provider. rewrite Hn, String.eqb_refl, Ea, Es. reflexivity.
  Qed.

  (* ---- disqualifyConflicts does nothing: nobody else provides what a package provides ----- *)
  Lemma disqualify_conflicts_id i dq : valid R i -> disqualify_conflicts R i dq = Ok dq.
  Proof.
    intros V. unfold disqualify_conflicts.
    assert (G : forall provs, (forall pv, In pv provs -> In pv (k_provs (getp R i))) ->
              fold_left (fun acc pv => do dq <- acc;
                 match alookup (s_name pv) (r_names R) with
                 | None => Ok dq
                 | Some providers =>
                     fold_left (fun acc j => do dq <- acc;
                        if Nat.eqb j i then Ok dq else if mem_pid j dq then Ok dq
                        else match conflicting_version (s_c pv) (getp R j) with
                             | None => Panic | Some false => Ok dq | Some true => Ok (j :: dq) end) providers (Ok dq)
                 end) provs (Ok dq) = Ok dq).
    { induction provs as [|pv t IH]; intros H; [reflexivity|]. cbn [fold_left rbind].
      rewrite (provider_single i (s_name pv) V (or_intror (ex_intro _ pv (conj (H pv (or_introl eq_refl)) eq_refl)))).
      cbn [fold_left rbind]. rewrite Nat.eqb_refl. apply IH. intros pv' Hpv'. apply H. right. exact Hpv'. }
    apply G. auto.
  Qed.

  (* ---- `selected`: holders are providers; the name of a holder is held by it ------------- *)
  Definition sel_good (sel : list (string * pid)) : Prop :=
    sel_ok R sel /\ forall n j, alookup n sel = Some j -> alookup (k_name (getp R j)) sel = Some j.

  Lemma pick_provs_keeps i provs : forall cur sel1, pick_provs i provs cur = Ok sel1 ->
    forall n j, alookup n cur = Some j -> alookup n sel1 = Some j.
  Proof.
    induction provs as [|pv t IH]; intros cur sel1 H n j E; simpl in H; [inversion H; subst; exact E|].
    destruct (ahas (s_name pv) cur) eqn:Ea; [discriminate|]. destruct (String.eqb (s_version pv) ""); [eapply IH; eassumption|].
    eapply IH; [exact H|]. rewrite aset_keeps_lookup. destruct (String.eqb (s_name pv) n) eqn:En; [|exact E].
    apply String.eqb_eq in En. subst n. unfold ahas in Ea. rewrite E in Ea. discriminate.
  Qed.

  Lemma pick_provs_ok i provs : forall cur, NoDup (List.map s_name provs) ->
    (forall pv, In pv provs -> ahas (s_name pv) cur = false) -> exists sel1, pick_provs i provs cur = Ok sel1.
  Proof.
    induction provs as [|pv t IH]; intros cur ND H; [exists cur; reflexivity|]. simpl.
    rewrite (H pv (or_introl eq_refl)). simpl in ND. inversion ND as [|? ? Hn Hd]; subst.
    destruct (String.eqb (s_version pv) "").
    - apply IH; [exact Hd | intros pv' Hpv'; apply H; right; exact Hpv'].
    - apply IH; [exact Hd|]. intros pv' Hpv'. rewrite ahas_aset. rewrite (H pv' (or_intror Hpv')).
      destruct (String.eqb (s_name pv) (s_name pv')) eqn:E; [|reflexivity].
      exfalso. apply Hn. apply String.eqb_eq in E. rewrite E. apply in_map. exact Hpv'.
  Qed.

  Lemma pick_ok i sel : valid R i -> NoDup (List.map s_name (k_provs (getp R i))) -> sel_good sel ->
    exists sel1, pick R i sel = Ok sel1 /\ sel_good sel1.
  Proof.
    intros V ND [Hok Hcl]. unfold pick. destruct (alookup (k_name (getp R i)) sel) as [j0|] eqn:E0.
    - destruct (Hok _ _ E0) as [V0 H0].
      rewrite (the_provider U _ i j0 EF (provider_single i _ V (or_introl eq_refl)) V0 H0), Nat.eqb_refl.
      exists sel. split; [reflexivity | split; assumption].
    - destruct (pick_provs_ok i (k_provs (getp R i)) (aset (k_name (getp R i)) i sel) ND) as [sel1 E1].
      { intros pv Hpv. rewrite ahas_aset. apply orb_false_iff. split.
        - apply String.eqb_neq. intro E. apply (ef_no_self_provide _ EF _ pv (getp_in _ _ V) Hpv). symmetry. exact E.
        - destruct (ahas (s_name pv) sel) eqn:Ea; [|reflexivity]. exfalso.
          apply ahas_lookup in Ea. destruct Ea as [j0 Ej]. destruct (Hok _ _ Ej) as [V0 H0].
          assert (Hi : alookup (s_name pv) (r_names R) = Some [i]).
          { apply provider_single; [exact V|]. right. exists pv. split; [exact Hpv | reflexivity]. }
          rewrite (the_provider U _ i j0 EF Hi V0 H0) in Ej. apply Hcl in Ej. rewrite E0 in Ej. discriminate. }
      exists sel1. split; [exact E1|].
      assert (EP : pick R i sel = Ok sel1) by (unfold pick; rewrite E0; exact E1).
      split; [eapply pick_sel_ok; [exact V | exact Hok | exact EP]|].
      intros n j E. destruct (pick_new R i sel sel1 EP n j E) as [A|[-> _]].
      + apply (pick_provs_keeps _ _ _ _ E1). rewrite aset_keeps_lookup.
        destruct (String.eqb (k_name (getp R i)) (k_name (getp R j))) eqn:En; [|apply Hcl in A; exact A].
        apply String.eqb_eq in En. destruct (Hok _ _ A) as [Vj _]. rewrite (uniq U i j EF V Vj En). reflexivity.
      + apply (pick_provs_keeps _ _ _ _ E1). rewrite aset_keeps_lookup, String.eqb_refl. reflexivity.
  Qed.

  (* ---- one dependency of a member never fails ----------------------------------------------- *)
  Lemma S_prov_closed : prov_closed R S.
  Proof.
    intros m d Hm Hd l x El Hx. destruct (dep_provider m d Hm Hd) as [y [Hy [Ey _]]].
    rewrite Ey in El. inversion El; subst l. destruct Hx as [<-|[]]. exact Hy.
  Qed.

  Lemma eval_dep_member st self d : In self S -> In d (positive_deps (getp R self)) ->
    dq_ok (st_dq st) -> sel_ok R (st_selected st) -> eval_dep R st (getp R self) "" d <> DFail.
  Proof.
    intros Hs Hd Hdq Hsel. pose proof (SV self Hs) as Vs.
    pose proof Hd as Hd'. apply positive_deps_In in Hd'. destruct Hd' as [cd [H1 [H2 H3]]].
    pose proof (ef_no_self_dep _ EF _ _ (getp_in _ _ Vs) H1 H2) as HN. rewrite H3 in HN.
    destruct (dep_provider self d Hs Hd) as [y [Hy [Ey Sy]]].
    unfold eval_dep. rewrite HN.
    match goal with |- (if ?b then _ else _) <> _ => destruct b; [discriminate|] end.
    destruct (alookup (s_name d) (st_selected st)) as [j|] eqn:ES.
    - destruct (String.eqb (s_version d) "") eqn:EV; [discriminate|].
      destruct (s_dep d =? dep_versionAny)%Z eqn:Hdep.
      { rewrite (SW self d Hs Hd Hdep) in EV. discriminate. }
      destruct (Hsel _ _ ES) as [Vj Hj]. rewrite (the_provider U _ y j EF Ey Vj Hj).
      destruct (dep_versioned self d y Hs Hd Hdep Hy Sy) as [Hn [a [r [Ea [Er Es]]]]].
      rewrite Ea, Er, sps_false, Es; [discriminate|].
      intros pv Hpv. rewrite <- Hn. apply (ef_no_self_provide _ EF _ pv (getp_in _ _ (SV y Hy)) Hpv).
    - rewrite Ey.
      assert (Hin : In y (filter_packages R (st_dq st)
                {| fo_allow := ""; fo_prefer := ""; fo_dep := s_dep d; fo_req := s_req d;
                   fo_installed := alookup (s_name d) (st_existing st) |} [y])).
      { apply filter_packages_In; [left; reflexivity | apply Hdq; exact Hy | apply pin_allowed_unpinned; apply SP; exact Hy|].
        cbn [fo_dep fo_req]. destruct (s_dep d =? dep_versionAny)%Z eqn:Hdep; [left; reflexivity|]. right.
        destruct (dep_versioned self d y Hs Hd Hdep Hy Sy) as [_ [a [r [Ea [Er Es]]]]].
        exists r. split; [exact Er|]. unfold version_passes. rewrite Ea, Es. reflexivity. }
      destruct (filter_packages R (st_dq st) _ [y]); [contradiction | discriminate].
  Qed.

  Lemma eval_dep_opts_nonempty R0 st k pin d l : eval_dep R0 st k pin d = DOpts l -> l <> [].
  Proof.
    unfold eval_dep. intros H.
    destruct (my_provides k (s_name d) || my_provides k (s_raw d)); [discriminate|].
    match type of H with (if ?b then _ else _) = _ => destruct b; [discriminate|] end.
    destruct (alookup (s_name d) (st_selected st)) as [j|].
    { destruct (String.eqb (s_version d) ""); [discriminate|].
      destruct (k_ver (getp R0 j)); [|discriminate]. destruct (s_req d); [|discriminate].
      destruct (selected_provides_satisfy (s_name d) m0 (k_provs (getp R0 j))) as [[|]|]; try discriminate.
      destruct (satisfies (s_dep d) m m0); discriminate. }
    destruct (alookup (s_name d) (r_names R0)) as [cands|]; [|discriminate].
    match type of H with match ?f with _ => _ end = _ => destruct f as [|x0 t]; [discriminate|] end.
    inversion H. discriminate.
  Qed.

  Lemma eval_all_some R0 st k pin cs : (forall d, In d cs -> eval_dep R0 st k pin d <> DFail) ->
    forall opts, exists opts', eval_all R0 st k pin cs opts = Some opts'.
  Proof.
    induction cs as [|c cs IH]; intros H opts; [exists opts; reflexivity|]. simpl.
    pose proof (H c (or_introl eq_refl)) as Hc. destruct (eval_dep R0 st k pin c); [|congruence|];
      apply IH; intros d Hd; apply H; right; exact Hd.
  Qed.

  (* ---- the dependency walk of a member never fails --------------------------------------------- *)
  Definition walk_fine (r : res (rstate * list pid)) : Prop :=
    r <> Err /\ forall st' deps, r = Ok (st', deps) -> dq_ok (st_dq st') /\ sel_good (st_selected st').

  Lemma deps_loop_ok rec self parents : In self S ->
    (forall best ps st, In best S -> dq_ok (st_dq st) -> sel_good (st_selected st) -> walk_fine (rec best "" ps st)) ->
    forall n cs st acc, (forall d, In d cs -> In d (positive_deps (getp R self))) ->
      dq_ok (st_dq st) -> sel_good (st_selected st) ->
      walk_fine (deps_loop R rec self "" parents n cs st acc).
  Proof.
    intros Hs Hrec. induction n as [|n IH]; intros cs st acc Hcs Hdq Hsel.
    - destruct cs; simpl; [split; [discriminate | intros st' deps E; inversion E; subst; split; assumption]|].
      split; [discriminate | intros st' deps E; discriminate].
    - destruct cs as [|c0 cs0]; [simpl; split; [discriminate | intros st' deps E; inversion E; subst; split; assumption]|].
      cbn [deps_loop]. remember (c0 :: cs0) as cs.
      destruct (eval_all_some R st (getp R self) "" cs
                  (fun d Hd => eval_dep_member st self d Hs (Hcs d Hd) Hdq (proj1 Hsel)) []) as [opts EA].
      rewrite EA. pose proof (eval_all_sound _ _ _ _ _ _ _ EA) as Snd.
      destruct (lowest opts) as [[d cands]|] eqn:EL;
        [|split; [discriminate | intros st' deps E; inversion E; subst; split; assumption]].
      apply lowest_In in EL. destruct EL as [key EL]. destruct (Snd _ _ _ EL) as [[]|[Hdcs [_ Hev]]].
      pose proof (eval_dep_opts_nonempty _ _ _ _ _ _ Hev) as Hne.
      destruct (best_package R (s_name d) (st_existing st) (st_origins st) "" cands) as [best|] eqn:EB;
        [|destruct cands; [congruence | discriminate]].
      apply best_package_In in EB.
      destruct (eval_dep_opts_listed _ _ _ _ _ _ Hev) as [cands0 [E0 I0]].
      assert (HbS : In best S) by (apply (S_prov_closed self d Hs (Hcs d Hdcs) cands0 best E0); apply I0; exact EB).
      rewrite (disqualify_conflicts_id best (st_dq st) (SV best HbS)). cbn [rbind].
      destruct (pick_ok self (st_selected st) (SV self Hs) (SD self Hs) Hsel) as [sel1 [EP Hsel1]]. rewrite EP. cbn [rbind].
      destruct (Hrec best (k_name (getp R self) :: parents) (with_selected (with_dq st (st_dq st)) sel1) HbS Hdq Hsel1) as [RN RO].
      destruct (rec best "" (k_name (getp R self) :: parents) (with_selected (with_dq st (st_dq st)) sel1)) as [[st2 sub]| | |] eqn:ER;
        cbn [rbind]; [|congruence | split; [discriminate | intros ? ? E; discriminate] | split; [discriminate | intros ? ? E; discriminate]].
      destruct (RO st2 sub eq_refl) as [D2 G2].
      apply IH.
      + intros e He. apply Hcs. apply filter_In in He. destruct He as [He _]. apply in_map_iff in He.
        destruct He as [[k0 [d0 l0]] [E1 Hin0]]. simpl in E1. subst d0. destruct (Snd _ _ _ Hin0) as [[]|[A _]]. exact A.
      + rewrite note_existing_dq. exact D2.
      + rewrite note_existing_sel. exact G2.
  Qed.

  Lemma get_deps_ok : forall fuel i parents st, In i S -> dq_ok (st_dq st) -> sel_good (st_selected st) ->
    walk_fine (get_deps fuel R i "" parents st).
  Proof.
    induction fuel as [|f IH]; intros i parents st Hi Hdq Hsel; [split; [discriminate | intros ? ? E; discriminate]|].
    cbn [get_deps]. destruct (mem_str (k_name (getp R i)) parents).
    - split; [discriminate | intros st' deps E; inversion E; subst; split; assumption].
    - destruct (constrain_members (k_deps (getp R i)) (member_deps_fine i Hi) (st_dq st) Hdq) as [dq1 [EC Hdq1]].
      rewrite EC. cbn [rbind]. apply deps_loop_ok; [exact Hi | | auto | exact Hdq1 | exact Hsel].
      intros best ps st0 Hb D0 G0. apply IH; assumption.
  Qed.

  (* ---- the top level ---------------------------------------------------------------------------- *)
  (* a world entry that asks for member j by name, exactly at its version, without pin *)
  Definition went (w : cstr) : Prop :=
    exists j, In j S /\ s_name w = nm R j /\ s_pin w = "" /\ s_dep w = dep_versionEqual /\
              exists a, s_req w = Some a /\ k_ver (getp R j) = Some a.

  Lemma went_candidates w dq : went w -> dq_ok dq ->
    exists j, In j S /\ In j (candidates R dq w) /\ forall i, In i (candidates R dq w) -> i = j.
  Proof.
    intros [j [Hj [Hn [Hp [Hd [a [Hr Hv]]]]]]] Hdq. exists j. split; [exact Hj|].
    unfold candidates. rewrite Hn, (provider_single j (nm R j) (SV j Hj) (or_introl eq_refl)). split.
    - apply filter_packages_In; [left; reflexivity | apply Hdq; exact Hj | apply pin_allowed_unpinned; apply SP; exact Hj|].
      right. cbn [world_opts fo_dep fo_req]. exists a. split; [exact Hr|]. unfold version_passes. rewrite Hv, Hd, satisfies_equal_refl. reflexivity.
    - intros i Hi. apply filter_packages_sub in Hi. destruct Hi as [[<-|[]] _]. reflexivity.
  Qed.

  Lemma went_resolve_package w dq : went w -> dq_ok dq -> exists j, In j S /\ resolve_package R dq w = Ok j.
  Proof.
    intros Hw Hdq. destruct (went_candidates w dq Hw Hdq) as [j [Hj [Hin Hall]]]. exists j. split; [exact Hj|].
    unfold resolve_package.
    destruct (best_package R (s_name w) [] [] (s_pin w) (candidates R dq w)) as [i|] eqn:EB.
    - apply best_package_In in EB. rewrite (Hall i EB). reflexivity.
    - destruct (candidates R dq w); [contradiction | discriminate].
  Qed.

  Lemma next_package_ok dq : forall cs next least, (forall w, In w cs -> went w) -> dq_ok dq ->
    exists r, next_package R dq cs next least = Ok r.
  Proof.
    induction cs as [|w t IH]; intros next least H Hdq; [exists next; reflexivity|]. simpl.
    destruct (went_candidates w dq (H w (or_introl eq_refl)) Hdq) as [j [_ [Hin _]]].
    destruct (candidates R dq w) as [|x l]; [contradiction|]. cbn [List.length].
    destruct (String.eqb (s_raw next) ""); [apply IH; [intros w' Hw'; apply H; right; exact Hw' | exact Hdq]|].
    destruct (Nat.ltb (Datatypes.S (List.length l)) least); apply IH; try exact Hdq; intros w' Hw'; apply H; right; exact Hw'.
  Qed.

  Lemma phase1_ok : forall n cs dq depmap, (forall w, In w cs -> went w) -> dq_ok dq ->
    phase1 n R cs dq depmap <> Err /\ forall dq' depmap', phase1 n R cs dq depmap = Ok (dq', depmap') -> dq_ok dq'.
  Proof.
    induction n as [|n IH]; intros cs dq depmap H Hdq.
    - destruct cs; simpl; [split; [discriminate | intros ? ? E; inversion E; subst; exact Hdq]|].
      split; [discriminate | intros ? ? E; discriminate].
    - destruct cs as [|c cs]; [simpl; split; [discriminate | intros ? ? E; inversion E; subst; exact Hdq]|].
      cbn [phase1]. destruct (next_package_ok dq (c :: cs) (cook_str "") 0 H Hdq) as [next EN]. rewrite EN. cbn [rbind].
      pose proof (next_package_first _ _ _ _ _ EN) as Hnext.
      destruct (went_resolve_package next dq (H next Hnext) Hdq) as [j [Hj ER]]. rewrite ER. cbn [rbind].
      rewrite (disqualify_conflicts_id j dq (SV j Hj)). cbn [rbind].
      apply IH; [|exact Hdq]. intros w Hw. apply H. apply filter_In in Hw. tauto.
  Qed.

  Lemma get_pkg_ok w dq sel ex : went w -> dq_ok dq -> sel_good sel ->
    get_pkg R w dq sel ex <> Err /\
    forall dq' sel' i deps, get_pkg R w dq sel ex = Ok (dq', sel', i, deps) -> dq_ok dq' /\ sel_good sel'.
  Proof.
    intros Hw Hdq Hsel. destruct (went_resolve_package w dq Hw Hdq) as [j [Hj ER]].
    assert (Hp : s_pin w = "") by (destruct Hw as [? [_ [_ [Hp _]]]]; exact Hp).
    unfold get_pkg, get_pkg_core. rewrite ER, Hp. cbn [rbind].
    destruct (get_deps_ok (fuel_bound R) j [] {| st_dq := dq; st_selected := sel; st_existing := ex; st_origins := initial_origins R ex |}
                Hj Hdq Hsel) as [GN GO].
    destruct (get_deps (fuel_bound R) R j "" [] _) as [[st' ds]| | |]; cbn [rbind];
      [|congruence | split; [discriminate | intros ? ? ? ? E; discriminate] | split; [discriminate | intros ? ? ? ? E; discriminate]].
    destruct (GO st' ds eq_refl) as [D G]. destruct (dedup_by_name R ds) as [l added]. cbn [rbind].
    pose proof (iif_loop_not_err R (fuel_bound R) 0 l added) as NI.
    destruct (iif_loop (fuel_bound R) R 0 l added) as [deps0| | |]; cbn [rbind];
      [|congruence | split; [discriminate | intros ? ? ? ? E; discriminate] | split; [discriminate | intros ? ? ? ? E; discriminate]].
    split; [discriminate|]. intros dq' sel' i deps E. inversion E; subst. split; assumption.
  Qed.

  Lemma phase2_ok : forall ws dq sel acc, (forall w, In w ws -> went w) -> dq_ok dq -> sel_good sel ->
    phase2 R ws dq sel acc <> Err.
  Proof.
    induction ws as [|w ws IH]; intros dq sel acc H Hdq Hsel; [simpl; discriminate|].
    cbn [phase2]. destruct (get_pkg_ok w dq sel (snd acc) (H w (or_introl eq_refl)) Hdq Hsel) as [GN GO].
    destruct (get_pkg R w dq sel (snd acc)) as [[[[dq' sel'] i] deps]| | |]; cbn [rbind]; try congruence; try discriminate.
    destruct (GO dq' sel' i deps eq_refl) as [D G]. apply IH; [intros w' Hw'; apply H; right; exact Hw' | exact D | exact G].
  Qed.

  (* a world of such entries resolves *)
  Theorem lock_resolves L dq0 : dq_ok dq0 ->
    (forall e, In e L -> d_neg (cook_dep e) = None /\ went (cook_str e)) ->
    exists S', resolve U L dq0 = Ok S'.
  Proof.
    intros Hdq HL.
    assert (NE : resolve U L dq0 <> Err).
    { unfold resolve, resolve_with.
      destruct (constrain_members (List.map cook_dep L)) with (dq := dq0) as [dq1 [EC Hdq1]]; [|exact Hdq|].
      { intros cd Hcd. apply in_map_iff in Hcd. destruct Hcd as [e [<- He]]. destruct (HL e He) as [Hn [j [Hj [Nm [_ [Hd [a [Hr Hv]]]]]]]].
        unfold cd_fine. rewrite Hn. unfold cook_dep; cbn [d_pos]. right. right. exists a. split; [exact Hr|].
        intros providers x E Hx _. rewrite Nm, (provider_single j (nm R j) (SV j Hj) (or_introl eq_refl)) in E.
        inversion E; subst providers. destruct Hx as [<-|[]].
        unfold constrain_provider. rewrite Nm. unfold nm. rewrite String.eqb_refl, Hv, Hd, satisfies_equal_refl. reflexivity. }
      rewrite EC. cbn [rbind].
      assert (HW : forall w, In w (List.map d_pos (List.map cook_dep L)) -> went w).
      { intros w Hw. rewrite map_map in Hw. apply in_map_iff in Hw. destruct Hw as [e [<- He]]. apply (HL e He). }
      destruct (phase1_ok (List.length (List.map d_pos (List.map cook_dep L))) _ dq1 [] HW Hdq1) as [PN PO].
      destruct (phase1 _ R _ dq1 []) as [[dq2 depmap]| | |]; cbn [rbind]; try congruence; try discriminate.
      apply phase2_ok; [exact HW | eapply PO; reflexivity|]. split; [intros n j E; discriminate | intros n j E; discriminate]. }
    pose proof (resolve_no_panic U L dq0) as NP. pose proof (termination_lemma U L dq0) as NF.
    destruct (resolve U L dq0) as [S'| | |]; [exists S'; reflexivity | congruence | congruence | congruence].
  Qed.
End Success.

(* ================= the lock of a result resolves, to the same members ======================= *)
From Apko Require Model.Lock Proofs.LockProofs Proofs.LockResolverBridge.

(* hypothesis (i) of c09_fixpoint_partial — the member answers its own entry — in resolver terms *)
Definition member_answers (U : universe) (j : pid) : Prop :=
  p_pin (nth j U dummy_pkg) = "" /\ parse_version (p_version (nth j U dummy_pkg)) <> None.

Lemma admitted_member_answers U dq0 j : lockable (nth j U dummy_pkg) ->
  LockProofs.admitted (lock_universe U dq0) (Lock.lock_entry_of (cand_at U dq0 j)) (cand_at U dq0 j) -> member_answers U j.
Proof.
  intros [Hn [Hv _]] Ha. unfold LockProofs.admitted in Ha.
  rewrite lock_entry_at, (LockProofs.lock_entry_parses _ _ Hn Hv) in Ha. cbn [c_name] in Ha.
  unfold Lock.filter_for in Ha. cbn [c_dep c_version c_pin] in Ha.
  change (dep_versionEqual =? dep_versionAny)%Z with false in Ha. cbv iota in Ha.
  unfold member_answers. destruct (parse_version (p_version (nth j U dummy_pkg))) as [req|]; [|contradiction].
  split; [|discriminate]. apply filter_In in Ha. destruct Ha as [_ Ha].
  apply andb_true_iff in Ha. destruct Ha as [Ha _]. apply andb_true_iff in Ha. destruct Ha as [_ Ha].
  unfold cand_at, LockResolverBridge.cand_of in Ha. cbn [Lock.k_pinned] in Ha.
  apply orb_true_iff in Ha. destruct Ha as [Ha|Ha]; apply String.eqb_eq in Ha; exact Ha.
Qed.

(* no member is excluded by a member's conflict entry (what "!rest" disqualifies is
   decided by the model's own filterPackages, on an empty disqualification set) *)
Definition no_member_excluded (U : universe) (S : list pid) : Prop :=
  forall m cd rest x, In m S -> In cd (k_deps (getp (new_resolver U) m)) -> d_neg cd = Some rest -> In x S ->
    ~ excluded U rest x.
(* a dependency of a member without a known operator carries no version
   (e.g. "b><zz" parses to name b, version zz, operator none) *)
Definition deps_wellformed (U : universe) (S : list pid) : Prop :=
  forall m d, In m S -> In d (positive_deps (getp (new_resolver U) m)) ->
    (s_dep d =? dep_versionAny)%Z = true -> s_version d = "".

(* ---- one provider per name implies: no package provides a name twice ---------------------------- *)
Definition look (n : string) (m : name_map) : list pid := match alookup n m with Some l => l | None => [] end.

Lemma look_nm_add n n' i' m : look n (nm_add n' i' m) = if String.eqb n' n then look n m ++ [i'] else look n m.
Proof.
  unfold look. induction m as [|[k l] m IH]; simpl.
  - destruct (String.eqb n' n); reflexivity.
  - destruct (String.eqb k n') eqn:E1; simpl.
    + apply String.eqb_eq in E1. subst k. destruct (String.eqb n' n); reflexivity.
    + destruct (String.eqb k n) eqn:E2; [|exact IH].
      apply String.eqb_eq in E2. subst k. rewrite String.eqb_sym, E1. reflexivity.
Qed.

Lemma look_nm_add_len n n' i' m : List.length (look n m) <= List.length (look n (nm_add n' i' m)).
Proof. rewrite look_nm_add. destruct (String.eqb n' n); [rewrite app_length; simpl; lia | lia]. Qed.

Definition cntn (n : string) (provs : list cstr) : nat :=
  List.length (List.filter (fun pv => String.eqb (s_name pv) n) provs).

Lemma provs_fold_len n i provs : forall m,
  List.length (look n (fold_left (fun m pv => nm_add (s_name pv) i m) provs m)) = List.length (look n m) + cntn n provs.
Proof.
  unfold cntn. induction provs as [|pv t IH]; intros m; simpl; [lia|]. rewrite IH, look_nm_add.
  destruct (String.eqb (s_name pv) n); [rewrite app_length; simpl; lia | lia].
Qed.

Lemma fold_left_ge {A B} (mu : A -> nat) (f : A -> B -> A) (l : list B) (x : B) (c : nat) :
  In x l -> (forall a, mu a + c <= mu (f a x)) -> (forall a b, mu a <= mu (f a b)) ->
  forall a, mu a + c <= mu (fold_left f l a).
Proof.
  intros Hin Hx Hm.
  assert (Mono : forall l a, mu a <= mu (fold_left f l a)).
  { induction l0 as [|b l0 IH]; intros a; simpl; [lia|]. specialize (IH (f a b)). specialize (Hm a b). lia. }
  induction l as [|b l IH]; intros a; [contradiction|]. simpl. destruct Hin as [->|Hin].
  - specialize (Mono l (f a x)). specialize (Hx a). lia.
  - specialize (IH Hin (f a b)). specialize (Hm a b). lia.
Qed.

Lemma build_names_count ks i k n : nth_error ks i = Some k ->
  cntn n (k_provs k) <= List.length (look n (build_names ks)).
Proof.
  intros Hi. unfold build_names, add_provides.
  destruct (own_names_lists ks i k Hi) as [ids [Eids Hin]].
  set (mu := fun m : name_map => List.length (look n m)).
  assert (Mprov : forall provs j m, mu m <= mu (fold_left (fun m pv => nm_add (s_name pv) j m) provs m)).
  { intros provs j m. unfold mu. rewrite provs_fold_len. lia. }
  assert (Mid : forall m j, mu m <= mu (match nth_error ks j with
                                        | None => m
                                        | Some k0 => fold_left (fun m pv => nm_add (s_name pv) j m) (k_provs k0) m end)).
  { intros m j. destruct (nth_error ks j); [apply Mprov | lia]. }
  pose proof (fold_left_ge mu
    (fun m key => match alookup key (own_names ks) with
                  | None => m
                  | Some ids => fold_left (fun m i => match nth_error ks i with
                                                      | None => m
                                                      | Some k => fold_left (fun m pv => nm_add (s_name pv) i m) (k_provs k) m
                                                      end) ids m
                  end) (List.map fst (own_names ks)) (k_name k) (cntn n (k_provs k))) as G.
  specialize (G (own_names_keys ks i k Hi)).
  assert (Mids : forall ids0 m, mu m <= mu (fold_left (fun m i => match nth_error ks i with
                                                      | None => m
                                                      | Some k => fold_left (fun m pv => nm_add (s_name pv) i m) (k_provs k) m
                                                      end) ids0 m)).
  { induction ids0 as [|j t IH]; intros m; simpl; [lia|]. specialize (IH (match nth_error ks j with
       | None => m | Some k0 => fold_left (fun m pv => nm_add (s_name pv) j m) (k_provs k0) m end)). specialize (Mid m j). lia. }
  assert (G1 : forall a, mu a + cntn n (k_provs k) <=
                 mu (match alookup (k_name k) (own_names ks) with
                     | None => a
                     | Some ids => fold_left (fun m i => match nth_error ks i with
                                                         | None => m
                                                         | Some k => fold_left (fun m pv => nm_add (s_name pv) i m) (k_provs k) m
                                                         end) ids a
                     end)).
  { intros a. rewrite Eids. apply (fold_left_ge mu _ ids i (cntn n (k_provs k)) Hin).
    - intros a0. rewrite Hi. unfold mu. rewrite provs_fold_len. lia.
    - intros a0 b. apply Mid. }
  specialize (G G1).
  assert (G2 : forall a b, mu a <= mu (match alookup b (own_names ks) with
                     | None => a
                     | Some ids => fold_left (fun m i => match nth_error ks i with
                                                         | None => m
                                                         | Some k => fold_left (fun m pv => nm_add (s_name pv) i m) (k_provs k) m
                                                         end) ids a
                     end)).
  { intros a b. destruct (alookup b (own_names ks)); [apply Mids | lia]. }
  specialize (G G2).
  specialize (G (own_names ks)). unfold mu in G. unfold mu. lia.
Qed.

Lemma nodup_by_count provs : (forall n, cntn n provs <= 1) -> NoDup (List.map s_name provs).
Proof.
  induction provs as [|pv t IH]; intros H; simpl; [constructor|]. constructor.
  - intro Hin. apply in_map_iff in Hin. destruct Hin as [pv' [E Hpv']].
    specialize (H (s_name pv)). unfold cntn in H. simpl in H. rewrite String.eqb_refl in H. simpl in H.
    assert (1 <= List.length (List.filter (fun pv0 => String.eqb (s_name pv0) (s_name pv)) t)).
    { assert (In pv' (List.filter (fun pv0 => String.eqb (s_name pv0) (s_name pv)) t)).
      { apply filter_In. split; [exact Hpv' | apply String.eqb_eq; exact E]. }
      destruct (List.filter _ t); [contradiction | simpl; lia]. }
    lia.
  - apply IH. intros n. specialize (H n). unfold cntn in *. simpl in H. destruct (String.eqb (s_name pv) n); simpl in H; lia.
Qed.

Lemma provides_nodup U j : env_facts (new_resolver U) -> valid (new_resolver U) j ->
  NoDup (List.map s_name (k_provs (getp (new_resolver U) j))).
Proof.
  intros EF V. apply nodup_by_count. intros n.
  assert (E : nth_error (List.map cook_pkg U) j = Some (getp (new_resolver U) j)).
  { unfold getp, new_resolver; cbn [r_pkgs]. apply nth_error_nth'. apply valid_new in V. rewrite map_length. exact V. }
  pose proof (build_names_count _ _ _ n E) as C.
  change (build_names (List.map cook_pkg U)) with (r_names (new_resolver U)) in C.
  unfold look in C. destruct (alookup n (r_names (new_resolver U))) as [l|] eqn:El; [|simpl in C; lia].
  destruct (ef_single _ EF _ _ El) as [x ->]. simpl in C. exact C.
Qed.

(* ================= the fixpoint ======================================================================= *)
Theorem fixpoint_complete U W dq0 S :
  envelope_b U W = true -> resolve U W dq0 = Ok S ->
  (forall j, In j S -> lockable (nth j U dummy_pkg)) ->
  (forall j, In j S -> member_answers U j) ->
  no_member_excluded U S -> deps_wellformed U S ->
  exists S', resolve U (lock_world U dq0 S) dq0 = Ok S' /\ forall j, In j S' <-> In j S.
Proof.
  intros HE H HL HA HN HW. pose proof (envelope_facts U W HE) as EF.
  pose proof (members_lemma U W dq0 S H) as [_ HV].
  assert (SV : forall j, In j S -> valid (new_resolver U) j) by (intros j Hj; apply valid_new; apply HV; exact Hj).
  destruct (lock_resolves U EF S SV (resolve_closure U EF W dq0 S H)) with (L := lock_world U dq0 S) (dq0 := dq0)
    as [S' HS'].
  - intros j Hj. rewrite getp_new_resolver. cbn [cook_pkg k_pkg]. apply (HA j Hj).
  - exact HN.
  - exact HW.
  - intros j Hj. apply provides_nodup; [exact EF | apply SV; exact Hj].
  - (* members were never disqualified *)
    intros x Hx Hin. pose proof (resolve_ok _ _ _ _ (new_resolver_wf2 U) H) as [_ [HM _]].
    rewrite Forall_forall in HM. destruct (HM x Hx) as [_ [N|I]]; [exact (N Hin)|].
    unfold has_iif in I. rewrite (ef_no_iif _ EF _ (getp_in _ _ (SV x Hx))) in I. discriminate.
  - intros e He. unfold lock_world, Lock.lock_of in He. rewrite map_map in He. apply in_map_iff in He.
    destruct He as [j [<- Hj]]. destruct (lock_entry_names U dq0 j (HL j Hj)) as [N1 N2]. split; [exact N1|].
    destruct (HL j Hj) as [Hn [Hv _]]. destruct (HA j Hj) as [_ Hp].
    exists j. split; [exact Hj|]. split; [exact N2|].
    rewrite lock_entry_at. unfold s_pin, s_dep, s_req, cook_str; cbn [s_c s_req].
    rewrite (LockProofs.lock_entry_parses _ _ Hn Hv). cbn [c_pin c_dep c_version].
    split; [reflexivity|]. split; [reflexivity|].
    destruct (parse_version (p_version (nth j U dummy_pkg))) as [a|] eqn:Ea; [|congruence].
    exists a. split; [reflexivity|]. rewrite getp_new_resolver. cbn [cook_pkg k_ver]. exact Ea.
  - exists S'. split; [exact HS'|].
    destruct (fixpoint_same_members U W dq0 S HE H HL) as [_ B]. exact (B S' HS').
Qed.

(* ---- any order of the entries (lock.go sorts them), repetitions allowed --------------------------- *)
Definition lists_lock_entries (U : universe) (dq0 : list pid) (S : list pid) (L : list string) : Prop :=
  forall e, In e L <-> In e (lock_world U dq0 S).

Lemma lock_world_In U dq0 S e : In e (lock_world U dq0 S) <-> exists j, In j S /\ e = Lock.lock_entry_of (cand_at U dq0 j).
Proof.
  unfold lock_world, Lock.lock_of. rewrite map_map, in_map_iff. split; intros [j [A B]]; exists j; [split; [exact B | symmetry; exact A] | split; [symmetry; exact B | exact A]].
Qed.

Theorem fixpoint_same_members_any U W dq0 S L :
  envelope_b U W = true -> resolve U W dq0 = Ok S ->
  (forall j, In j S -> lockable (nth j U dummy_pkg)) -> lists_lock_entries U dq0 S L ->
  envelope_b U L = true /\
  forall S', resolve U L dq0 = Ok S' -> forall j, In j S' <-> In j S.
Proof.
  intros HE H HL HLL. apply (same_members U W dq0 S L HE H).
  - intros e He. apply HLL in He. apply lock_world_In in He. destruct He as [j [Hj ->]].
    exists j. split; [exact Hj | apply lock_entry_names; apply HL; exact Hj].
  - intros j Hj. exists (Lock.lock_entry_of (cand_at U dq0 j)). split.
    + apply HLL. apply lock_world_In. exists j. split; [exact Hj | reflexivity].
    + apply lock_entry_names. apply HL. exact Hj.
Qed.

Theorem fixpoint_complete_any U W dq0 S L :
  envelope_b U W = true -> resolve U W dq0 = Ok S ->
  (forall j, In j S -> lockable (nth j U dummy_pkg)) ->
  (forall j, In j S -> member_answers U j) ->
  no_member_excluded U S -> deps_wellformed U S -> lists_lock_entries U dq0 S L ->
  exists S', resolve U L dq0 = Ok S' /\ forall j, In j S' <-> In j S.
Proof.
  intros HE H HL HA HN HW HLL. pose proof (envelope_facts U W HE) as EF.
  pose proof (members_lemma U W dq0 S H) as [_ HV].
  assert (SV : forall j, In j S -> valid (new_resolver U) j) by (intros j Hj; apply valid_new; apply HV; exact Hj).
  destruct (lock_resolves U EF S SV (resolve_closure U EF W dq0 S H)) with (L := L) (dq0 := dq0)
    as [S' HS'].
  - intros j Hj. rewrite getp_new_resolver. cbn [cook_pkg k_pkg]. apply (HA j Hj).
  - exact HN.
  - exact HW.
  - intros j Hj. apply provides_nodup; [exact EF | apply SV; exact Hj].
  - intros x Hx Hin. pose proof (resolve_ok _ _ _ _ (new_resolver_wf2 U) H) as [_ [HM _]].
    rewrite Forall_forall in HM. destruct (HM x Hx) as [_ [N|I]]; [exact (N Hin)|].
    unfold has_iif in I. rewrite (ef_no_iif _ EF _ (getp_in _ _ (SV x Hx))) in I. discriminate.
  - intros e He. apply HLL in He. apply lock_world_In in He. destruct He as [j [Hj ->]].
    destruct (lock_entry_names U dq0 j (HL j Hj)) as [N1 N2]. split; [exact N1|].
    destruct (HL j Hj) as [Hn [Hv _]]. destruct (HA j Hj) as [_ Hp].
    exists j. split; [exact Hj|]. split; [exact N2|].
    rewrite lock_entry_at. unfold s_pin, s_dep, s_req, cook_str; cbn [s_c s_req].
    rewrite (LockProofs.lock_entry_parses _ _ Hn Hv). cbn [c_pin c_dep c_version].
    split; [reflexivity|]. split; [reflexivity|].
    destruct (parse_version (p_version (nth j U dummy_pkg))) as [a|] eqn:Ea; [|congruence].
    exists a. split; [reflexivity|]. rewrite getp_new_resolver. cbn [cook_pkg k_ver]. exact Ea.
  - exists S'. split; [exact HS'|].
    destruct (fixpoint_same_members_any U W dq0 S L HE H HL HLL) as [_ B]. exact (B S' HS').
Qed.

(* the statement of Properties/C09.v *)
Lemma fixpoint_resolver_lemma (U : universe) W dq0 S :
  envelope_b U W = true -> resolve U W dq0 = Ok S ->
  (forall j, In j S -> lockable (nth j U dummy_pkg)) ->
  Closed U W (pkgs_of U S) /\
  lock_world U dq0 S = Lock.lock_of (List.map (cand_at U dq0) S) /\
  (forall j k', In j S -> In k' (lock_universe U dq0) ->
     LockProofs.admitted (lock_universe U dq0) (Lock.lock_entry_of (cand_at U dq0 j)) k' -> k' = cand_at U dq0 j) /\
  (forall L, lists_lock_entries U dq0 S L ->
     envelope_b U L = true /\
     forall S', resolve U L dq0 = Ok S' -> forall j, In j S' <-> In j S) /\
  ((forall j, In j S -> LockProofs.admitted (lock_universe U dq0) (Lock.lock_entry_of (cand_at U dq0 j)) (cand_at U dq0 j)) ->
   no_member_excluded U S -> deps_wellformed U S ->
   forall L, lists_lock_entries U dq0 S L ->
   exists S', resolve U L dq0 = Ok S' /\ forall j, In j S' <-> In j S).
Proof.
  intros HE H HL. destruct (fixpoint_resolver_partial_lemma U W dq0 S HE H HL) as [A [B [_ [D _]]]].
  split; [exact A|]. split; [exact B|]. split; [exact D|].
  split; [intros L HLL; exact (fixpoint_same_members_any U W dq0 S L HE H HL HLL)|].
  intros HA HN HW L HLL. apply (fixpoint_complete_any U W dq0 S L HE H HL); try assumption.
  intros j Hj. apply (admitted_member_answers U dq0 j (HL j Hj)). apply HA. exact Hj.
Qed.

(* the hypotheses are satisfiable: a -> b>0.5, v, !zz; b provides v=2 *)
Definition U_example : universe := [wp "a" "1.0" ["b>0.5"; "v"; "!zz"] [] []; wp "b" "1.0" [] ["v=2"] []].
Lemma fixpoint_example :
  envelope_b U_example ["a"; "v"] = true /\ resolve U_example ["a"; "v"] [] = Ok [1; 0] /\
  (forall j, In j [1; 0] -> lockable (nth j U_example dummy_pkg)) /\
  (forall j, In j [1; 0] -> LockProofs.admitted (lock_universe U_example []) (Lock.lock_entry_of (cand_at U_example [] j)) (cand_at U_example [] j)) /\
  no_member_excluded U_example [1; 0] /\ deps_wellformed U_example [1; 0] /\
  lock_world U_example [] [1; 0] = ["b=1.0"; "a=1.0"] /\ resolve U_example ["b=1.0"; "a=1.0"] [] = Ok [1; 0].
Proof.
  split; [vm_compute; reflexivity|]. split; [vm_compute; reflexivity|].
  split. { intros j [<-|[<-|[]]]; (split; [|split]); vm_compute; repeat split; discriminate. }
  split. { intros j [<-|[<-|[]]]; vm_compute; tauto. }
  split.
  { intros m cd rest x Hm Hcd Hneg Hx [providers [E _]].
    destruct Hm as [<-|[<-|[]]]; vm_compute in Hcd.
    - contradiction.
    - destruct Hcd as [<-|[<-|[<-|[]]]]; vm_compute in Hneg; try discriminate.
      inversion Hneg; subst rest. vm_compute in E. discriminate. }
  split.
  { intros m d Hm Hd Hdep. destruct Hm as [<-|[<-|[]]]; vm_compute in Hd.
    - contradiction.
    - destruct Hd as [<-|[<-|[]]]; vm_compute in Hdep |- *; congruence. }
  split; vm_compute; reflexivity.
Qed.
