(* C09 — the stale-lock guard, the epoch of the two install paths, the base-image filter. *)
From Apko Require Import Base.Prelude Base.C09Lib Generated.C09Build Model.LockGuard.
Open Scope string_scope. Open Scope list_scope.

(* a lock emitted for another state of the configuration (the recorded deep checksum differs from the known
   checksum of the configuration as it is now) is refused — WHATEVER the two path strings are *)
Theorem stale_lock_refused g :
  gi_config_present g = true -> gi_cfg_sum g <> "" -> gi_cfg_sum g <> gi_lock_sum g -> lock_refused g = true.
Proof.
  intros P H1 H2. unfold lock_refused. rewrite P. unfold lock_guard_refuse, guard_env. cbn.
  (* whichever way round the source writes the comparisons and the conjunction *)
  repeat match goal with |- context [String.eqb ?a ?b] => destruct (String.eqb_spec a b) end; try congruence; reflexivity.
Qed.
(* and nothing else is: a refusal means a known checksum that differs *)
Theorem refused_only_when_stale g :
  lock_refused g = true -> gi_config_present g = true /\ gi_cfg_sum g <> "" /\ gi_cfg_sum g <> gi_lock_sum g.
Proof.
  unfold lock_refused. destruct (gi_config_present g); [|discriminate]. unfold lock_guard_refuse, guard_env. cbn.
  repeat match goal with |- context [String.eqb ?a ?b] => destruct (String.eqb_spec a b) end; cbn; try discriminate;
    intros _; repeat split; congruence.
Qed.

(* both install paths hand the build's source date epoch to the installer *)
Lemma same_epoch : locked_install_epoch = unlocked_install_epoch /\ locked_install_epoch = "SourceDateEpoch".
Proof. split; reflexivity. Qed.

(* ---- base image ------------------------------------------------------------------------------ *)
Lemma in_base_iff base r : in_base base r = true <-> exists b, In b base /\ bp_name b = bp_name r.
Proof.
  unfold in_base. rewrite existsb_exists. split; intros [b [Hb H]]; exists b; (split; [exact Hb|]).
  - unfold in_base_filter, filter_env in H. cbn in H. apply String.eqb_eq in H. congruence.
  - unfold in_base_filter, filter_env. cbn. apply String.eqb_eq. congruence.
Qed.

Lemma name_installed_iff inst p : name_installed inst p = true <-> exists q, In q inst /\ bp_name q = bp_name p.
Proof.
  unfold name_installed. rewrite existsb_exists. split; intros [q [Hq H]]; exists q; (split; [exact Hq|]).
  - unfold is_installed_test, skip_key, install_skip_arg in H. cbn in H. apply String.eqb_eq in H. congruence.
  - unfold is_installed_test, skip_key, install_skip_arg. cbn. apply String.eqb_eq. congruence.
Qed.

Lemma install_on_fresh listed inst :
  (forall p, In p listed -> name_installed inst p = false) -> install_on inst listed = inst ++ listed.
Proof.
  intro H. unfold install_on. f_equal. induction listed as [|p l IH]; [reflexivity|]. simpl.
  rewrite (H p (or_introl eq_refl)). simpl. f_equal. apply IH. intros q Hq. apply H. right. exact Hq.
Qed.

(* what the lock lists on top of a base image is exactly what the build from it adds, each package in the
   listed build: nothing that is listed is skipped by the installer *)
Theorem base_lock_listed_is_installed base resolved :
  NoDup (List.map bp_name resolved) ->
  install_on base (lock_listed base resolved) = base ++ lock_listed base resolved /\
  (forall p, In p (lock_listed base resolved) <-> In p resolved /\ ~ exists b, In b base /\ bp_name b = bp_name p).
Proof.
  intros ND. split.
  - apply install_on_fresh.
    intros p Hp. unfold lock_listed in Hp. apply filter_In in Hp. destruct Hp as [_ Hp]. apply negb_true_iff in Hp.
    destruct (name_installed base p) eqn:E; [|reflexivity]. apply name_installed_iff in E. apply in_base_iff in E. congruence.
  - intros p. unfold lock_listed. rewrite filter_In, negb_true_iff. split; intros [A B]; (split; [exact A|]).
    + intro F. apply in_base_iff in F. congruence.
    + destruct (in_base base p) eqn:E; [|reflexivity]. apply in_base_iff in E. contradiction.
Qed.

Example guard_example :
  lock_refused {| gi_config_present := true; gi_cfg_sum := "sha-new"; gi_cfg_file := "dir/./apko.yaml"; gi_lock_sum := "sha-old"; gi_lock_name := "apko.yaml" |} = true /\
  lock_refused {| gi_config_present := true; gi_cfg_sum := "sha-old"; gi_cfg_file := "dir/./apko.yaml"; gi_lock_sum := "sha-old"; gi_lock_name := "apko.yaml" |} = false /\
  lock_listed [{| bp_name := "pretend-baselayout"; bp_checksum := "Q1base" |}]
              [{| bp_name := "pretend-baselayout"; bp_checksum := "Q1rebuilt" |}; {| bp_name := "replayout"; bp_checksum := "Q1r" |}]
    = [{| bp_name := "replayout"; bp_checksum := "Q1r" |}].
Proof. repeat split; vm_compute; reflexivity. Qed.
