(* C09 — the @pin of a lock entry.
   (1) unify reads the pin of a request with its own splitter (text from the
       first '@'; name = text before the first of "=<>~", minus that suffix).
       On every request that matches packageNameRegex and is not rewritten by
       the soname special case this is EXACTLY what the resolver's grammar
       (Model/Version.resolve_constraint, C03) reads: same name, pin "@" ++ c_pin
       (or none).  Hence unify_pin = spec_pin on such request lists.
   (2) the pin is re-attached to the entry of package n iff n is the NAME of a
       request (the last one of that name decides) that carries a pin: never to
       a package that was not requested by its own name (finding C09-F1).
   (3) a pinned entry name=version@tag is read back by the resolver as
       (name, "=", version, tag). *)
From Apko Require Import Base.Prelude Base.Regex Base.C12Lib Model.Version Model.Lock Spec.LockSpec
  Proofs.LockProofs Proofs.ConstraintProofs Generated.Regexes Generated.VersionConsts Generated.C03Version Generated.C09Lock.
Open Scope string_scope. Open Scope list_scope.

(* ---- bytes and strings ------------------------------------------------------------ *)
Lemma sob_cons c l : string_of_bytes (c :: l) = String (ascii_of_N c) (string_of_bytes l).
Proof. reflexivity. Qed.
Lemma sob_app a b : string_of_bytes (a ++ b) = (string_of_bytes a ++ string_of_bytes b)%string.
Proof. induction a as [|c a IH]; [reflexivity|]. simpl app. rewrite !sob_cons, IH. reflexivity. Qed.

Lemma byte_tests :
  forallb (fun c => Bool.eqb (has_char (ascii_of_N c) unify_constraint_delims) (is_opchar c) &&
                    Bool.eqb (has_char (ascii_of_N c) unify_pin_delims) (negb (not_at c)) &&
                    Bool.eqb (Ascii.eqb (ascii_of_N c) "@"%char) (negb (not_at c))) all_bytes = true.
Proof. vm_compute. reflexivity. Qed.
Lemma byte_facts c : (c < 256)%N ->
  has_char (ascii_of_N c) unify_constraint_delims = is_opchar c /\
  has_char (ascii_of_N c) unify_pin_delims = negb (not_at c) /\
  Ascii.eqb (ascii_of_N c) "@"%char = negb (not_at c).
Proof.
  intros H. pose proof byte_tests as T. rewrite forallb_forall in T.
  specialize (T c (in_all_bytes c H)). apply andb_true_iff in T. destruct T as [T T3].
  apply andb_true_iff in T. destruct T as [T1 T2]. apply Bool.eqb_prop in T1, T2, T3. auto.
Qed.

(* strings.IndexAny + the two slices, on byte lists *)
Lemma cut_any_bytes chars (p : N -> bool) a b :
  Forall byte (a ++ b) -> (forall c, (c < 256)%N -> has_char (ascii_of_N c) chars = p c) ->
  forallb (fun c => negb (p c)) a = true ->
  cut_any chars (string_of_bytes (a ++ b)) =
    match b with
    | c :: _ => if p c then Some (string_of_bytes a, string_of_bytes b) else cut_any chars (string_of_bytes (a ++ b))
    | [] => None
    end.
Proof.
  intros Hb Hp Ha. induction a as [|x a IH]; simpl app.
  - destruct b as [|c b]; [reflexivity|]. destruct (p c) eqn:E; [|reflexivity].
    rewrite sob_cons. cbn [cut_any]. inversion Hb as [|? ? Bc _]; subst. rewrite (Hp c Bc), E. reflexivity.
  - simpl in Ha. apply andb_true_iff in Ha. destruct Ha as [Hx Ha]. inversion Hb as [|? ? Bx Bb]; subst.
    specialize (IH Bb Ha). destruct b as [|c b].
    + rewrite sob_cons. cbn [cut_any]. rewrite (Hp x Bx). apply negb_true_iff in Hx. rewrite Hx, IH. reflexivity.
    + destruct (p c) eqn:E; [|reflexivity].
      rewrite sob_cons. cbn [cut_any]. rewrite (Hp x Bx). apply negb_true_iff in Hx. rewrite Hx, IH. reflexivity.
Qed.

Lemma cut_any_none chars (p : N -> bool) l :
  Forall byte l -> (forall c, (c < 256)%N -> has_char (ascii_of_N c) chars = p c) ->
  forallb (fun c => negb (p c)) l = true -> cut_any chars (string_of_bytes l) = None.
Proof.
  intros Hb Hp Hl. rewrite <- (app_nil_r l). rewrite (cut_any_bytes chars p l []); [reflexivity | rewrite app_nil_r; exact Hb | exact Hp | exact Hl].
Qed.
Lemma cut_any_some chars (p : N -> bool) a c b :
  Forall byte (a ++ c :: b) -> (forall c, (c < 256)%N -> has_char (ascii_of_N c) chars = p c) ->
  forallb (fun c => negb (p c)) a = true -> p c = true ->
  cut_any chars (string_of_bytes (a ++ c :: b)) = Some (string_of_bytes a, string_of_bytes (c :: b)).
Proof. intros Hb Hp Ha Hc. rewrite (cut_any_bytes chars p a (c :: b) Hb Hp Ha), Hc. reflexivity. Qed.

(* strings.TrimSuffix *)
Lemma has_suffix_refl s : has_suffix s s = true.
Proof. destruct s; simpl; [reflexivity|]. rewrite Ascii.eqb_refl, String.eqb_refl. reflexivity. Qed.
Lemma has_suffix_app a b : has_suffix (a ++ b) b = true.
Proof.
  induction a as [|c a IH]; [apply has_suffix_refl|]. cbn [String.append has_suffix].
  destruct (String.eqb (String c (a ++ b)) b); [reflexivity | exact IH].
Qed.
Lemma has_suffix_nil s : has_suffix s "" = true.
Proof. rewrite <- (sapp_nil_r s) at 1. apply has_suffix_app. Qed.
Lemma slen_app a b : String.length (a ++ b) = (String.length a + String.length b)%nat.
Proof. induction a as [|c a IH]; simpl; [reflexivity | rewrite IH; reflexivity]. Qed.
Lemma trim_suffix_app a b : trim_suffix (a ++ b) b = a.
Proof.
  induction a as [|c a IH]; cbn [String.append].
  - destruct b; simpl; [reflexivity|]. rewrite Ascii.eqb_refl, String.eqb_refl. reflexivity.
  - cbn [trim_suffix]. destruct (String.eqb_spec (String c (a ++ b)) b) as [E|_].
    + exfalso. apply (f_equal String.length) in E. simpl in E. rewrite slen_app in E. lia.
    + rewrite has_suffix_app, IH. reflexivity.
Qed.
Lemma trim_suffix_nil s : trim_suffix s "" = s.
Proof. rewrite <- (sapp_nil_r s) at 1. rewrite trim_suffix_app. reflexivity. Qed.
Lemma has_suffix_char x s suf : has_suffix s suf = true -> has_char x suf = true -> has_char x s = true.
Proof.
  induction s as [|c s IH]; cbn [has_suffix]; intros H Hx.
  - destruct (String.eqb_spec "" suf) as [E|_]; [rewrite <- E in Hx; exact Hx | discriminate].
  - destruct (String.eqb_spec (String c s) suf) as [E|_]; [rewrite <- E in Hx; exact Hx|].
    cbn [has_char]. rewrite (IH H Hx). apply orb_true_r.
Qed.
Lemma trim_suffix_other x s suf : has_char x suf = true -> has_char x s = false -> trim_suffix s suf = s.
Proof.
  intros Hx Hs. destruct s as [|c s]; cbn [trim_suffix].
  - destruct (String.eqb "" suf); reflexivity.
  - destruct (String.eqb_spec (String c s) suf) as [E0|_]; [rewrite <- E0 in Hx; congruence|].
    destruct (has_suffix s suf) eqn:E; [|reflexivity].
    pose proof (has_suffix_char x s suf E Hx) as F. cbn [has_char] in Hs. rewrite F, orb_true_r in Hs. discriminate.
Qed.
Lemma no_at_string l : Forall byte l -> forallb not_at l = true -> has_char "@"%char (string_of_bytes l) = false.
Proof.
  induction l as [|c l IH]; intros Hb H; [reflexivity|]. inversion Hb as [|? ? Bc Bl]; subst. simpl in H. apply andb_true_iff in H. destruct H as [Hc Hl].
  rewrite sob_cons. cbn [has_char]. rewrite (proj2 (proj2 (byte_facts c Bc))), Hc, (IH Bl Hl). reflexivity.
Qed.

(* ---- spans --------------------------------------------------------------------------- *)
Lemma span_parts (p : N -> bool) l : forall a b, span p l = (a, b) ->
  l = a ++ b /\ forallb p a = true /\ match b with [] => True | c :: _ => p c = false end.
Proof.
  induction l as [|c l IH]; intros a b H; simpl in H.
  - inversion H; subst. repeat split.
  - destruct (p c) eqn:E.
    + destruct (span p l) as [a' b'] eqn:Es. inversion H; subst. destruct (IH a' b eq_refl) as (-> & A & B).
      split; [reflexivity|]. split; [simpl; rewrite E; exact A | exact B].
    + inversion H; subst. split; [reflexivity|]. split; [reflexivity | exact E].
Qed.

(* what split_constraint makes of ANY string: the name is the maximal run of
   name characters, the pin is what follows the first '@' *)
Definition after_at (l : list N) : list N := match snd (span not_at l) with _ :: p => p | [] => [] end.
Lemma split_name_pin s :
  let '(name, _, _, pin) := split_constraint s in name = fst (span is_namechar s) /\ pin = after_at s.
Proof.
  unfold split_constraint, after_at.
  destruct (span is_namechar s) as [name r1] eqn:E1. destruct (span is_opchar r1) as [ops r2] eqn:E2.
  destruct (span not_at r2) as [v r3] eqn:E3.
  destruct (span_parts _ _ _ _ E1) as (-> & A1 & _). destruct (span_parts _ _ _ _ E2) as (-> & A2 & _).
  destruct (span_parts _ _ _ _ E3) as (-> & A3 & B3).
  assert (Es : span not_at (name ++ ops ++ v ++ r3) = (name ++ ops ++ v, r3)).
  { rewrite !app_assoc. apply span_app; [|exact B3]. rewrite <- app_assoc, !forallb_app, A3.
    assert (N1 : forallb not_at name = true).
    { eapply forallb_forall. intros c Hc. rewrite forallb_forall in A1. specialize (A1 c Hc). unfold is_namechar in A1.
      apply andb_true_iff in A1. unfold not_at. tauto. }
    assert (N2 : forallb not_at ops = true).
    { eapply forallb_forall. intros c Hc. rewrite forallb_forall in A2. specialize (A2 c Hc). unfold is_opchar in A2. unfold not_at.
      destruct (c =? 64)%N eqn:E; [|reflexivity]. apply N.eqb_eq in E. subst c. discriminate. }
    rewrite N1, N2. reflexivity. }
  rewrite Es. cbn [fst snd]. destruct ops, v; split; reflexivity.
Qed.

(* ---- the shape of a string that packageNameRegex accepts -------------------------------- *)
Lemma L_star_cls_inv rs l : L (Star (Cls rs)) l -> forallb (in_ranges rs) l = true.
Proof.
  intro H. remember (Star (Cls rs)) as r eqn:Er. induction H; try discriminate; [reflexivity|].
  inversion Er; subst. apply L_cls_inv in H. destruct H as [c [-> Hc]]. simpl. rewrite Hc. apply IHL2. reflexivity.
Qed.
Lemma L_plus_cls_inv rs l : L (Plus (Cls rs)) l -> l <> [] /\ forallb (in_ranges rs) l = true.
Proof.
  intro H. apply L_plus_inv in H. destruct H as (s1 & s2 & -> & H1 & H2). apply L_cls_inv in H1. destruct H1 as [c [-> Hc]].
  split; [discriminate|]. simpl. rewrite Hc. apply L_star_cls_inv. exact H2.
Qed.

Record accepted (s name ov pt : list N) : Prop := {
  ac_eq : s = name ++ ov ++ pt;
  ac_name : name <> [] /\ forallb is_namechar name = true;
  ac_ov : ov = [] \/ exists ops v, ov = ops ++ v /\ ops <> [] /\ forallb is_opchar ops = true /\ v <> [] /\ forallb not_at v = true;
  ac_pt : pt = [] \/ exists pin, pt = 64%N :: pin /\ pin <> [] /\ forallb is_alnum pin = true
}.

Lemma forallb_cls_back (p : N -> bool) rs l :
  Forall byte l -> (forall c, (c < 256)%N -> p c = in_ranges rs c) -> forallb (in_ranges rs) l = true -> forallb p l = true.
Proof.
  intros Hb Hp. induction Hb as [|c l Hc Hl IH]; simpl; auto.
  intros H. apply andb_true_iff in H. destruct H as [H1 H2]. rewrite (Hp c Hc), H1. simpl. apply IH. exact H2.
Qed.

Lemma accepted_shape o : full_match package_name_regex o = true ->
  exists name ov pt, accepted (bytes_of_string o) name ov pt.
Proof.
  unfold full_match. rewrite package_name_regex_body. intro H.
  apply matches_L in H; [|vm_compute; reflexivity]. unfold pn_body in H.
  apply L_cat_inv in H. destruct H as (name & r1 & E1 & Hn & H). apply L_grp_inv in Hn.
  apply L_cat_inv in H. destruct H as (ov & r2 & E2 & Hov & H).
  apply L_cat_inv in H. destruct H as (pt & r3 & E3 & Hpt & H). apply L_eps_inv in H. subst r3 r2 r1.
  rewrite app_nil_r in E1. pose proof (bytes_are_bytes o) as Bo. rewrite E1 in Bo.
  apply Forall_app_l in Bo. destruct Bo as [Bn Bo]. apply Forall_app_l in Bo. destruct Bo as [Bov Bpt].
  exists name, ov, pt. constructor.
  - exact E1.
  - apply L_plus_cls_inv in Hn. destruct Hn as [Hn1 Hn2]. split; [exact Hn1|].
    apply (forallb_cls_back is_namechar name_cls); auto. intros c Hc. apply (class_facts c Hc).
  - apply L_opt_inv in Hov. destruct Hov as [->|Hov]; [left; reflexivity|]. right.
    apply L_grp_inv in Hov. apply L_cat_inv in Hov. destruct Hov as (ops & v & -> & Ho & Hv).
    apply L_grp_inv in Ho. apply L_grp_inv in Hv. apply L_plus_cls_inv in Ho. apply L_plus_cls_inv in Hv.
    apply Forall_app_l in Bov. destruct Bov as [Bo Bv].
    exists ops, v. split; [reflexivity|]. split; [tauto|]. split.
    { apply (forallb_cls_back is_opchar op_cls); [exact Bo | intros c Hc; apply (class_facts c Hc) | tauto]. }
    split; [tauto|]. apply (forallb_cls_back not_at ver_cls); [exact Bv | intros c Hc; apply (class_facts c Hc) | tauto].
  - apply L_opt_inv in Hpt. destruct Hpt as [->|Hpt]; [left; reflexivity|]. right.
    apply L_grp_inv in Hpt. apply L_cat_inv in Hpt. destruct Hpt as (at1 & pin & -> & Ha & Hp).
    inversion Ha; subst. apply L_grp_inv in Hp. apply L_plus_cls_inv in Hp.
    exists pin. split; [reflexivity|]. split; [tauto|]. unfold is_alnum. tauto.
Qed.

(* ---- one request, read by unify and by the resolver ------------------------------------- *)
Definition pin_text (c : constraint) : string := match c_pin c with EmptyString => "" | p => "@" ++ p end.

(* the request matches the grammar and is not rewritten by the soname special
   case (every request that is not a "so:" name, or carries no operator) *)
Definition plain_request (o : string) : Prop :=
  full_match lock_package_name_regex o = true /\ so_rewrite (bytes_of_string o) = bytes_of_string o.

Lemma plain_request_not_so o : full_match lock_package_name_regex o = true ->
  strip_prefix (bytes_of_string "so:") (bytes_of_string o) = None -> plain_request o.
Proof. intros H E. split; [exact H|]. unfold so_rewrite, so_rewrite_with. rewrite E. reflexivity. Qed.

Lemma namechar_not_op l : forallb is_namechar l = true -> forallb (fun c => negb (is_opchar c)) l = true.
Proof. intro H. rewrite forallb_forall in *. intros c Hc. specialize (H c Hc). unfold is_namechar in H. apply andb_true_iff in H. tauto. Qed.
Lemma namechar_not_at l : forallb is_namechar l = true -> forallb not_at l = true.
Proof. intro H. rewrite forallb_forall in *. intros c Hc. specialize (H c Hc). unfold is_namechar in H. apply andb_true_iff in H. unfold not_at. tauto. Qed.
Lemma opchar_not_at l : forallb is_opchar l = true -> forallb not_at l = true.
Proof.
  intro H. rewrite forallb_forall in *. intros c Hc. specialize (H c Hc). unfold is_opchar in H. unfold not_at.
  destruct (c =? 64)%N eqn:E; [|reflexivity]. apply N.eqb_eq in E. subst c. discriminate.
Qed.
Lemma alnum_facts l : forallb is_alnum l = true -> forallb not_at l = true /\ forallb (fun c => negb (is_opchar c)) l = true.
Proof.
  intro H. split; rewrite forallb_forall in *; intros c Hc; specialize (H c Hc); unfold is_alnum, pin_cls, in_ranges in H; simpl in H;
    unfold not_at, is_opchar;
    repeat match goal with
           | |- context [(?a =? ?b)%N] => destruct (N.eqb_spec a b); [subst; vm_compute in H; try discriminate|]
           end; reflexivity.
Qed.

Theorem request_read_alike o : plain_request o ->
  let '(name, _, pinned) := parse_original o in
  name = c_name (resolve_constraint o) /\ pinned = pin_text (resolve_constraint o).
Proof.
  intros [Hm Hso]. rewrite lock_regex_is_resolver_regex in Hm.
  destruct (accepted_shape o Hm) as (name & ov & pt & [Eq [Hn1 Hn2] Hov Hpt]).
  pose proof (bytes_are_bytes o) as Bo. rewrite Eq in Bo.
  (* the resolver's side *)
  assert (Rs : c_name (resolve_constraint o) = string_of_bytes name /\
               c_pin (resolve_constraint o) = string_of_bytes (match pt with _ :: p => p | [] => [] end)).
  { unfold resolve_constraint. rewrite Hso, string_of_bytes_of_string, Hm.
    pose proof (split_name_pin (bytes_of_string o)) as S.
    destruct (split_constraint (bytes_of_string o)) as [[[nm ops] v] pin]. destruct S as [-> ->]. cbn [c_name c_pin].
    rewrite Eq. split; f_equal.
    - rewrite (span_app is_namechar name (ov ++ pt) Hn2); [reflexivity|].
      destruct Hov as [->|(ops0 & v0 & -> & Ho1 & Ho2 & _)].
      + destruct Hpt as [->|(pin0 & -> & _)]; [exact I | reflexivity].
      + destruct ops0 as [|x ops0]; [congruence|]. simpl in Ho2. apply andb_true_iff in Ho2. destruct Ho2 as [Hx _].
        simpl. unfold is_namechar. rewrite Hx. reflexivity.
    - unfold after_at. rewrite !app_assoc. rewrite (span_app not_at (name ++ ov) pt); [reflexivity | |].
      + rewrite forallb_app, (namechar_not_at _ Hn2). destruct Hov as [->|(ops0 & v0 & -> & _ & Ho2 & _ & Hv2)]; [reflexivity|].
        rewrite forallb_app, (opchar_not_at _ Ho2), Hv2. reflexivity.
      + destruct Hpt as [->|(pin0 & -> & _)]; [exact I | reflexivity]. }
  destruct Rs as [Rn Rp]. unfold pin_text. rewrite Rn, Rp. clear Rn Rp.
  (* unify's side *)
  unfold parse_original. rewrite <- (string_of_bytes_of_string o), Eq.
  assert (Pf : forall c, (c < 256)%N -> has_char (ascii_of_N c) unify_pin_delims = negb (not_at c)) by (intros c Hc; apply (byte_facts c Hc)).
  assert (Of : forall c, (c < 256)%N -> has_char (ascii_of_N c) unify_constraint_delims = is_opchar c) by (intros c Hc; apply (byte_facts c Hc)).
  assert (NA : forallb (fun c => negb (negb (not_at c))) (name ++ ov) = true).
  { rewrite forallb_forall. intros c Hc. rewrite negb_involutive. revert c Hc. apply forallb_forall.
    rewrite forallb_app, (namechar_not_at _ Hn2). destruct Hov as [->|(ops0 & v0 & -> & _ & Ho2 & _ & Hv2)]; [reflexivity|].
    rewrite forallb_app, (opchar_not_at _ Ho2), Hv2. reflexivity. }
  apply Forall_app_l in Bo. destruct Bo as [Bn Bo]. pose proof Bo as Bo'. apply Forall_app_l in Bo'. destruct Bo' as [Bov Bpt].
  destruct Hpt as [->|(pin & -> & Hp1 & Hp2)].
  - (* no pin *)
    rewrite app_nil_r.
    rewrite (cut_any_none unify_pin_delims (fun c => negb (not_at c)) (name ++ ov)); [| apply Forall_app; split; assumption | exact Pf | exact NA].
    destruct Hov as [->|(ops0 & v0 & -> & Ho1 & Ho2 & _)].
    + rewrite app_nil_r. rewrite (cut_any_none unify_constraint_delims is_opchar name Bn Of (namechar_not_op _ Hn2)).
      rewrite !trim_suffix_nil. split; reflexivity.
    + destruct ops0 as [|x ops0]; [congruence|]. simpl in Ho2. apply andb_true_iff in Ho2. destruct Ho2 as [Hx _].
      simpl app. rewrite (cut_any_some unify_constraint_delims is_opchar name x (ops0 ++ v0)); [| apply Forall_app; split; assumption | exact Of | exact (namechar_not_op _ Hn2) | exact Hx].
      rewrite !trim_suffix_nil. split; reflexivity.
  - (* a pin *)
    assert (E64 : negb (not_at 64%N) = true) by reflexivity.
    replace (name ++ ov ++ 64%N :: pin) with ((name ++ ov) ++ 64%N :: pin) by (rewrite <- app_assoc; reflexivity).
    rewrite (cut_any_some unify_pin_delims (fun c => negb (not_at c)) (name ++ ov) 64%N pin); [| rewrite <- app_assoc; apply Forall_app; split; assumption | exact Pf | exact NA | exact E64].
    assert (Pin : string_of_bytes (64%N :: pin) = ("@" ++ string_of_bytes pin)%string) by reflexivity.
    assert (HasAt : has_char "@"%char (string_of_bytes (64%N :: pin)) = true) by reflexivity.
    destruct pin as [|p0 pin']; [congruence|].
    destruct Hov as [->|(ops0 & v0 & -> & Ho1 & Ho2 & _ & Hv2)].
    + rewrite app_nil_r. simpl app.
      assert (NoOp : forallb (fun c => negb (is_opchar c)) (name ++ 64%N :: p0 :: pin') = true).
      { rewrite forallb_app, (namechar_not_op _ Hn2).
        change (true && (negb (is_opchar 64) && forallb (fun c => negb (is_opchar c)) (p0 :: pin')) = true).
        rewrite (proj2 (alnum_facts _ Hp2)). reflexivity. }
      rewrite (cut_any_none unify_constraint_delims is_opchar (name ++ 64%N :: p0 :: pin')); [| apply Forall_app; split; assumption | exact Of | exact NoOp].
      rewrite sob_app, trim_suffix_app. split; [reflexivity|]. rewrite Pin. reflexivity.
    + destruct ops0 as [|x ops0]; [congruence|]. simpl in Ho2. apply andb_true_iff in Ho2. destruct Ho2 as [Hx Ho2].
      rewrite <- app_assoc. simpl app.
      rewrite (cut_any_some unify_constraint_delims is_opchar name x ((ops0 ++ v0) ++ 64%N :: p0 :: pin')); [| | exact Of | exact (namechar_not_op _ Hn2) | exact Hx].
      2:{ apply Forall_app; split; [exact Bn | exact Bo]. }
      rewrite (trim_suffix_other "@"%char (string_of_bytes name) _ HasAt (no_at_string name Bn (namechar_not_at _ Hn2))).
      split; [reflexivity|]. rewrite Pin. reflexivity.
Qed.

(* the tag of a request is a clean tag *)
Definition clean_tag (t : string) : Prop := bytes_of_string t <> [] /\ forallb is_alnum (bytes_of_string t) = true.

Lemma bytes_roundtrip' l : Forall byte l -> bytes_of_string (string_of_bytes l) = l.
Proof.
  unfold bytes_of_string, string_of_bytes. intros H.
  rewrite list_ascii_of_string_of_list_ascii, map_map.
  induction H as [|c l Hc Hl IH]; cbn [List.map]; [reflexivity|].
  rewrite (N_ascii_embedding c Hc). f_equal. exact IH.
Qed.

Lemma request_pin_clean o : plain_request o ->
  c_pin (resolve_constraint o) = "" \/ clean_tag (c_pin (resolve_constraint o)).
Proof.
  intros [Hm Hso]. rewrite lock_regex_is_resolver_regex in Hm.
  destruct (accepted_shape o Hm) as (name & ov & pt & [Eq [Hn1 Hn2] Hov Hpt]).
  pose proof (bytes_are_bytes o) as Bo. rewrite Eq in Bo.
  unfold resolve_constraint. rewrite Hso, string_of_bytes_of_string, Hm.
  pose proof (split_name_pin (bytes_of_string o)) as S.
  destruct (split_constraint (bytes_of_string o)) as [[[nm ops] v] pin]. destruct S as [_ ->]. cbn [c_pin].
  rewrite Eq. unfold after_at. rewrite !app_assoc. rewrite (span_app not_at (name ++ ov) pt).
  - cbn [snd]. destruct Hpt as [->|(pin0 & -> & Hp1 & Hp2)]; [left; reflexivity|]. right.
    apply Forall_app_l in Bo. destruct Bo as [_ Bo]. apply Forall_app_l in Bo. destruct Bo as [_ Bo].
    inversion Bo as [|? ? _ Bp]; subst. unfold clean_tag. rewrite (bytes_roundtrip' pin0 Bp). split; assumption.
  - rewrite forallb_app, (namechar_not_at _ Hn2). destruct Hov as [->|(ops0 & v0 & -> & _ & Ho2 & _ & Hv2)]; [reflexivity|].
    rewrite forallb_app, (opchar_not_at _ Ho2), Hv2. reflexivity.
  - destruct Hpt as [->|(pin0 & -> & _)]; [exact I | reflexivity].
Qed.

(* ---- the whole request list: unify_pin = spec_pin ---------------------------------------- *)
Lemma vget_mset_same k v m : vget k (mset k v m) = v.
Proof. unfold vget. rewrite alookup_mset_same. reflexivity. Qed.
Lemma vget_mset_other k k' v m : k <> k' -> vget k' (mset k v m) = vget k' m.
Proof. intro H. unfold vget. rewrite (alookup_mset_other k k' v m H). reflexivity. Qed.

Lemma unify_pin_snoc l o n :
  unify_pin (l ++ [o]) n = let '(name, _, pinned) := parse_original o in if String.eqb name n then pinned else unify_pin l n.
Proof.
  unfold unify_pin, parse_originals. rewrite fold_left_app. cbn [fold_left]. unfold add_original at 1.
  destruct (parse_original o) as [[name version] pinned]. cbn [o_pinned].
  destruct (String.eqb_spec name n) as [->|Hne]; [apply vget_mset_same | apply vget_mset_other; exact Hne].
Qed.
Lemma spec_pin_snoc l o n :
  spec_pin (l ++ [o]) n = if String.eqb (c_name (resolve_constraint o)) n then pin_text (resolve_constraint o) else spec_pin l n.
Proof.
  unfold spec_pin. rewrite rev_app_distr. cbn [rev app find].
  destruct (String.eqb (c_name (resolve_constraint o)) n); reflexivity.
Qed.

Theorem unify_pin_is_spec_pin originals : Forall plain_request originals ->
  forall n, unify_pin originals n = spec_pin originals n.
Proof.
  intros H n. induction originals as [|o l IH] using rev_ind; [reflexivity|].
  apply Forall_app in H. destruct H as [Hl Ho]. inversion Ho as [|? ? Hp _]; subst.
  rewrite unify_pin_snoc, spec_pin_snoc. pose proof (request_read_alike o Hp) as R.
  destruct (parse_original o) as [[name version] pinned]. destruct R as [-> ->].
  destruct (String.eqb _ n); [reflexivity | apply IH; exact Hl].
Qed.

(* when the pin is (not) re-attached: only to the NAME of a request *)
Theorem pin_only_for_requested_names originals n : Forall plain_request originals ->
  (forall o, In o originals -> c_name (resolve_constraint o) <> n) -> unify_pin originals n = "".
Proof.
  intros H Hn. rewrite (unify_pin_is_spec_pin originals H). unfold spec_pin.
  destruct (find _ (rev originals)) as [o|] eqn:E; [|reflexivity].
  apply find_some in E. destruct E as [Hin E]. apply String.eqb_eq in E. apply in_rev in Hin. exfalso. exact (Hn o Hin E).
Qed.
Theorem pin_of_requested_name originals n : Forall plain_request originals -> unify_pin originals n <> "" ->
  exists o, In o originals /\ c_name (resolve_constraint o) = n /\ c_pin (resolve_constraint o) <> "" /\
            unify_pin originals n = ("@" ++ c_pin (resolve_constraint o))%string.
Proof.
  intros H Hne. rewrite (unify_pin_is_spec_pin originals H) in *. unfold spec_pin in *.
  destruct (find _ (rev originals)) as [o|] eqn:E; [|congruence].
  apply find_some in E. destruct E as [Hin E]. apply String.eqb_eq in E. apply in_rev in Hin.
  exists o. split; [exact Hin|]. split; [exact E|]. destruct (c_pin (resolve_constraint o)); [congruence|]. split; [discriminate | reflexivity].
Qed.

(* ---- a pinned entry, read back ----------------------------------------------------------- *)
Lemma pinned_entry_parses name v tag : clean_name name -> clean_version v -> clean_tag tag ->
  resolve_constraint (name ++ "=" ++ v ++ "@" ++ tag) =
    {| c_name := name; c_version := v; c_dep := dep_versionEqual; c_pin := tag |}.
Proof.
  intros (Hn1 & Hn2 & Hn3) (Hv1 & Hv2 & Hv3) (Ht1 & Ht2).
  assert (Eb : bytes_of_string (name ++ "=" ++ v ++ "@" ++ tag) =
               bytes_of_string name ++ [61%N] ++ bytes_of_string v ++ pin_tail (bytes_of_string tag)).
  { rewrite !bytes_of_string_app. unfold pin_tail. destruct (bytes_of_string tag) eqn:E; [congruence|]. reflexivity. }
  rewrite (resolve_clean _ (bytes_of_string name) [61%N] (bytes_of_string v) (bytes_of_string tag) Eb).
  - rewrite !string_of_bytes_of_string. reflexivity.
  - unfold no_so_prefix. rewrite Eb. change (bytes_of_string "so:") with [115; 111; 58]%N in *.
    destruct (bytes_of_string name) as [|c0 [|c1 [|c2 t]]] eqn:En; try congruence.
    + cbn [strip_prefix app]. destruct (115 =? c0)%N; reflexivity.
    + cbn [strip_prefix app]. destruct (115 =? c0)%N; [|reflexivity]. destruct (111 =? c1)%N; reflexivity.
    + apply strip_prefix_app_none; [simpl; lia | exact Hn3].
  - constructor.
    + repeat (apply Forall_app; split); try apply bytes_are_bytes. constructor; [vm_compute; reflexivity | constructor].
    + split; assumption.
    + split; [discriminate | reflexivity].
    + split; [exact Hv1 | split; [exact Hv2 | exact Hv3]].
    + exact Ht2.
Qed.
