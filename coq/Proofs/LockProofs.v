(* C09 — proofs about Model/Lock.v and Spec/LockSpec.v. *)
From Apko Require Import Base.Prelude Base.Regex Base.C12Lib Model.Version Model.Lock Spec.LockSpec
  Generated.Regexes Generated.C09Lock.
From Coq Require Import Permutation Sorted.
Open Scope string_scope. Open Scope list_scope.

(* pkg/build's private copy of packageNameRegex is the resolver's *)
Lemma lock_regex_is_resolver_regex : lock_package_name_regex = package_name_regex.
Proof. reflexivity. Qed.
