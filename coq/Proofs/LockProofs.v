(* C09 — proofs about Model/Lock.v and Spec/LockSpec.v. *)
From Apko Require Import Base.Prelude Base.Regex Base.C12Lib Model.Version Model.Lock Spec.LockSpec
  Generated.Regexes Generated.C09Lock.
From Coq Require Import Permutation Sorted.
Open Scope string_scope. Open Scope list_scope.

(* pkg/build's private copy of packageNameRegex is the resolver's *)
Lemma lock_regex_is_resolver_regex : lock_package_name_regex = package_name_regex.
Proof. reflexivity. Qed.

(* ---- small facts ------------------------------------------------------------ *)
Lemma sapp_nil_r (s : string) : (s ++ "")%string = s.
Proof. induction s as [|c s IH]; simpl; [reflexivity | rewrite IH; reflexivity]. Qed.

Lemma smem_In x s : smem x s = true <-> In x s.
Proof.
  unfold smem. rewrite existsb_exists. split.
  - intros (y & Hy & E). apply String.eqb_eq in E. subst. exact Hy.
  - intro H. exists x. split; [exact H | apply String.eqb_refl].
Qed.
Lemma smem_false x s : smem x s = false <-> ~ In x s.
Proof. rewrite <- smem_In. destruct (smem x s); split; congruence. Qed.

Lemma nv_eqb_eq a b : nv_eqb a b = true <-> a = b.
Proof.
  destruct a as [a1 a2], b as [b1 b2]. unfold nv_eqb. simpl.
  rewrite andb_true_iff, !String.eqb_eq. split; [intros [-> ->]; reflexivity | intro E; inversion E; auto].
Qed.
Lemma nv_mem_In x l : nv_mem x l = true <-> In x l.
Proof.
  unfold nv_mem. rewrite existsb_exists. split.
  - intros (y & Hy & E). apply nv_eqb_eq in E. subst. exact Hy.
  - intro H. exists x. split; [exact H | apply nv_eqb_eq; reflexivity].
Qed.

(* ---- validators decide their Props ------------------------------------------- *)
Lemma same_members_b_iff a b : same_members_b a b = true <-> SameMembers a b.
Proof.
  unfold same_members_b, SameMembers. rewrite andb_true_iff, !forallb_forall. split.
  - intros [H1 H2] x. split; intro H; [apply nv_mem_In, H1 | apply nv_mem_In, H2]; exact H.
  - intro H. split; intros x Hx; apply nv_mem_In, H; exact Hx.
Qed.

Lemma index_sound_b_iff pin r0 rest idx :
  index_sound_b pin r0 rest idx = true <-> IndexSound pin r0 rest idx.
Proof.
  unfold index_sound_b, IndexSound. rewrite forallb_forall. split.
  - intros H e He. specialize (H e He). unfold index_entry_ok in H.
    apply existsb_exists in H. destruct H as (n & Hn & H). apply andb_true_iff in H. destruct H as [E F].
    apply String.eqb_eq in E. exists n. split; [exact Hn|]. split; [exact E|].
    intros r Hr. rewrite forallb_forall in F. specialize (F r Hr). apply andb_true_iff in F.
    destruct F as [F1 F2]. split; [apply smem_In; exact F1 | apply String.eqb_eq; exact F2].
  - intros H e He. destruct (H e He) as (n & Hn & E & F). unfold index_entry_ok.
    apply existsb_exists. exists n. split; [exact Hn|]. apply andb_true_iff. split; [apply String.eqb_eq; exact E|].
    apply forallb_forall. intros r Hr. destruct (F r Hr) as [F1 F2].
    apply andb_true_iff. split; [apply smem_In; exact F1 | apply String.eqb_eq; exact F2].
Qed.

Lemma sort_strings_sorted l : StronglySorted sle (sort_strings l).
Proof. apply (isort_sorted (fun x : string => x)). Qed.
Lemma sort_strings_perm l : Permutation l (sort_strings l).
Proof. apply (isort_perm (fun x : string => x)). Qed.
Lemma sorted_strings_unique l l' :
  StronglySorted sle l -> StronglySorted sle l' -> Permutation l l' -> l = l'.
Proof. intros S S' P. apply (sorted_perm_unique (fun x : string => x)); auto. Qed.

Lemma arch_lock_exact_b_iff pin r l : arch_lock_exact_b pin r l = true <-> ArchLockExact pin r l.
Proof.
  unfold arch_lock_exact_b, ArchLockExact.
  rewrite (list_eqb_spec String.eqb String.eqb_eq). split.
  - intros ->. split; [apply sort_strings_sorted | apply Permutation_sym, sort_strings_perm].
  - intros [S P]. apply sorted_strings_unique; [exact S | apply sort_strings_sorted |].
    rewrite P. apply sort_strings_perm.
Qed.

Lemma ranges_tile_b_iff sp sg ct dt total : ranges_tile_b sp sg ct dt total = true <-> RangesTile sp sg ct dt total.
Proof.
  unfold ranges_tile_b, RangesTile. destruct sp;
    rewrite !andb_true_iff, ?Z.eqb_eq, ?Z.leb_le; tauto.
Qed.

(* ---- c09_ranges ---------------------------------------------------------------- *)
Lemma slice_mid (a b c : list N) :
  slice (Z.of_nat (List.length a)) (Z.of_nat (List.length a) + Z.of_nat (List.length b) - 1) (a ++ b ++ c) = b.
Proof.
  unfold slice.
  replace (Z.to_nat (Z.of_nat (List.length a) + Z.of_nat (List.length b) - 1 + 1 - Z.of_nat (List.length a)))
    with (List.length b) by lia.
  rewrite Nat2Z.id. rewrite skipn_app, skipn_all, Nat.sub_diag. simpl.
  rewrite firstn_app, firstn_all, Nat.sub_diag. simpl. apply app_nil_r.
Qed.

Lemma ranges_exact sha1 sha256 (sig ctl dat : list N) :
  let e := expand sha1 sha256 sig ctl dat in
  let file := sig ++ ctl ++ dat in
  (signature_emitted e = false <-> sig = []) /\
  (signature_emitted e = true -> slice (n_lo (signature_nums e)) (n_hi (signature_nums e)) file = sig) /\
  slice (n_lo (control_nums e)) (n_hi (control_nums e)) file = ctl /\
  slice (n_lo (data_nums e)) (n_hi (data_nums e)) file = dat /\
  (ctl <> [] -> dat <> [] ->
   RangesTile (signature_emitted e) (signature_nums e) (control_nums e) (data_nums e) (Z.of_nat (List.length file))).
Proof.
  intros e file.
  assert (Hs : n_lo (signature_nums e) = 0%Z /\ n_hi (signature_nums e) = (Z.of_nat (List.length sig) - 1)%Z) by (split; reflexivity).
  assert (Hc : n_lo (control_nums e) = Z.of_nat (List.length sig) /\
               n_hi (control_nums e) = (Z.of_nat (List.length sig) + Z.of_nat (List.length ctl) - 1)%Z) by (split; reflexivity).
  assert (Hd : n_lo (data_nums e) = (Z.of_nat (List.length sig) + Z.of_nat (List.length ctl))%Z /\
               n_hi (data_nums e) = (Z.of_nat (List.length sig) + Z.of_nat (List.length ctl) + Z.of_nat (List.length dat) - 1)%Z) by (split; reflexivity).
  assert (He : signature_emitted e = negb (Z.of_nat (List.length sig) =? 0)%Z) by reflexivity.
  destruct Hs as [Hs1 Hs2], Hc as [Hc1 Hc2], Hd as [Hd1 Hd2].
  rewrite Hs1, Hs2, Hc1, Hc2, Hd1, Hd2, He. subst file.
  split; [|split; [|split; [|split]]].
  - destruct sig; simpl; split; intro H; try reflexivity; try discriminate.
  - intros _. change 0%Z with (Z.of_nat (@List.length N [])).
    replace (Z.of_nat (List.length sig) - 1)%Z with (Z.of_nat (@List.length N []) + Z.of_nat (List.length sig) - 1)%Z by (simpl; lia).
    apply (slice_mid [] sig (ctl ++ dat)).
  - apply slice_mid.
  - replace (Z.of_nat (List.length sig) + Z.of_nat (List.length ctl))%Z with (Z.of_nat (List.length (sig ++ ctl))) by (rewrite app_length; lia).
    rewrite app_assoc. rewrite <- (app_nil_r ((sig ++ ctl) ++ dat)). rewrite <- app_assoc.
    apply (slice_mid (sig ++ ctl) dat []).
  - intros Hcn Hdn. unfold RangesTile. rewrite Hs1, Hs2, Hc1, Hc2, Hd1, Hd2. rewrite !app_length.
    assert (List.length ctl <> 0%nat) by (destruct ctl; simpl; congruence).
    assert (List.length dat <> 0%nat) by (destruct dat; simpl; congruence).
    destruct sig as [|s0 sig']; simpl negb; cbn [List.length]; repeat split; try lia.
Qed.

Lemma checksums_exact sha1 sha256 (b64 : list N -> string) (sig ctl dat : list N) :
  let e := expand sha1 sha256 sig ctl dat in
  s_checksum (control_section b64 e) = (lock_control_checksum_prefix ++ b64 (sha1 ctl))%string /\
  s_checksum (data_section b64 e) = (lock_data_checksum_prefix ++ b64 (sha256 dat))%string /\
  (sig <> [] -> s_checksum (signature_section b64 e) = (lock_signature_checksum_prefix ++ b64 (sha1 sig))%string) /\
  (sig = [] -> signature_section b64 e = {| s_range := ""; s_checksum := "" |}) /\
  s_range (control_section b64 e) =
    fmt_s lock_control_range_format [dec (n_lo (control_nums e)); dec (n_hi (control_nums e))] /\
  s_range (data_section b64 e) =
    fmt_s lock_data_range_format [dec (n_lo (data_nums e)); dec (n_hi (data_nums e))] /\
  (sig <> [] -> s_range (signature_section b64 e) =
    fmt_s lock_signature_range_format [dec (n_hi (signature_nums e))]).
Proof.
  intros e. repeat split.
  - intro Hs. destruct sig as [|s0 sig']; [congruence|]. reflexivity.
  - intros ->. reflexivity.
  - intro Hs. destruct sig as [|s0 sig']; [congruence|]. reflexivity.
Qed.

(* ---- c09_lock_install ------------------------------------------------------------ *)
Definition to_installable (p : lock_pkg) : installable :=
  {| i_name := lp_name p; i_url := lp_url p; i_checksum := lp_checksum p |}.
Definition for_arch (arch : string) (pkgs : list lock_pkg) : list lock_pkg :=
  filter (fun p => String.eqb (lp_arch p) arch) pkgs.

Lemma installable_exact pkgs arch :
  (forall l, installable_for_arch pkgs arch = Ok l ->
     l = List.map to_installable (for_arch arch pkgs) /\
     Forall (fun p => lp_checksum p <> "") (for_arch arch pkgs)) /\
  (Forall (fun p => lp_checksum p <> "") (for_arch arch pkgs) ->
     installable_for_arch pkgs arch = Ok (List.map to_installable (for_arch arch pkgs))) /\
  installable_for_arch pkgs arch <> Panic /\ installable_for_arch pkgs arch <> OutOfFuel.
Proof.
  induction pkgs as [|p t IH].
  - simpl. split; [|split; [|split]]; try congruence.
    intros l0 H. inversion H. split; [reflexivity | constructor].
  - destruct IH as (IH1 & IH2 & IH3 & IH4). unfold for_arch in *. cbn [installable_for_arch filter].
    destruct (String.eqb (lp_arch p) arch) eqn:E; cbn [negb].
    2:{ split; [exact IH1 | split; [exact IH2 | split; assumption]]. }
    destruct (lp_checksum p) as [|c cs] eqn:Ec.
    + split; [|split; [|split]]; try congruence.
      intro F. inversion F as [|? ? Hp _]. congruence.
    + destruct (installable_for_arch t arch) as [l'| | |] eqn:Er; cbn [rbind].
      * destruct (IH1 l' eq_refl) as [El F]. split; [|split; [|split]]; try congruence.
        -- intros l0 H. inversion H. subst. split.
           ++ cbn [List.map]. unfold to_installable at 2. rewrite Ec. reflexivity.
           ++ constructor; [congruence | exact F].
        -- intros _. cbn [List.map]. unfold to_installable at 1. rewrite Ec, El. reflexivity.
      * split; [|split; [|split]]; try congruence.
        intro F. inversion F as [|? ? _ F']. specialize (IH2 F'). congruence.
      * congruence.
      * congruence.
Qed.

Section InstallProofs.
  Context {P : Type} (fetch : installable -> option P).
  Lemma install_packages_exact l ps :
    install_packages fetch l = Ok ps -> List.map Some ps = List.map fetch l.
  Proof.
    revert ps. induction l as [|i t IH]; simpl; intros ps H.
    - inversion H. reflexivity.
    - destruct (fetch i) as [p|] eqn:E; [|discriminate].
      destruct (install_packages fetch t) as [r| | |]; simpl in H; try discriminate.
      inversion H; subst. simpl. f_equal. apply IH. reflexivity.
  Qed.
  Lemma build_from_lock_exact pkgs arch ps :
    build_from_lock fetch pkgs arch = Ok ps ->
    List.map Some ps = List.map fetch (List.map to_installable (for_arch arch pkgs)).
  Proof.
    unfold build_from_lock. destruct (installable_for_arch pkgs arch) as [l| | |] eqn:E; simpl; try discriminate.
    intro H. destruct (installable_exact pkgs arch) as (H1 & _). destruct (H1 l E) as [-> _].
    apply install_packages_exact. exact H.
  Qed.
End InstallProofs.

(* ---- iteration-order independence of unify ------------------------------------------ *)
Lemma fold_left_perm {A B} (f : A -> B -> A) :
  (forall a x y, f (f a x) y = f (f a y) x) ->
  forall l l', Permutation l l' -> forall a, fold_left f l a = fold_left f l' a.
Proof.
  intros C l l' P. induction P; intro a; simpl.
  - reflexivity.
  - apply IHP.
  - rewrite C. reflexivity.
  - rewrite IHP1. apply IHP2.
Qed.

Lemma alookup_filter_other {V} x y (m : list (string * V)) : x <> y ->
  alookup y (filter (fun kv => negb (String.eqb x (fst kv))) m) = alookup y m.
Proof.
  intro Hne. induction m as [|[k v] m IH]; simpl; [reflexivity|].
  destruct (String.eqb_spec x k); simpl.
  - subst k. destruct (String.eqb_spec y x); [congruence | exact IH].
  - destruct (String.eqb y k); [reflexivity | exact IH].
Qed.
Lemma vget_mdel_other x y m : x <> y -> vget y (mdel x m) = vget y m.
Proof. intro H. unfold vget, mdel. rewrite (alookup_filter_other x y m H). reflexivity. Qed.

Lemma alookup_supd_other x y o sl : x <> y -> alookup y (supd x o sl) = alookup y sl.
Proof.
  intro Hne. induction sl as [|[k v] sl IH]; simpl; [reflexivity|].
  destruct (String.eqb_spec x k); simpl.
  - subst k. destruct (String.eqb_spec y x); [congruence | exact IH].
  - destruct (String.eqb y k); [reflexivity | exact IH].
Qed.
Lemma sget_supd_other x y o sl : x <> y -> sget y (supd x o sl) = sget y sl.
Proof. intro H. unfold sget. rewrite (alookup_supd_other x y o sl H). reflexivity. Qed.

Lemma supd_comm x y ox oy sl : x <> y -> supd y oy (supd x ox sl) = supd x ox (supd y oy sl).
Proof.
  intro Hne. unfold supd. rewrite !map_map. apply map_ext. intros [k v]. simpl.
  destruct (String.eqb_spec x k); destruct (String.eqb_spec y k); simpl;
    try (subst; congruence);
    repeat match goal with
           | |- context [String.eqb ?a ?b] => destruct (String.eqb_spec a b); try congruence
           end.
Qed.
Lemma filter_comm {A} (f g : A -> bool) l : filter f (filter g l) = filter g (filter f l).
Proof.
  induction l as [|a l IH]; simpl; [reflexivity|].
  destruct (f a) eqn:Ef, (g a) eqn:Eg; simpl; rewrite ?Ef, ?Eg, IH; reflexivity.
Qed.

(* the two decisions step_pkg takes only read the package's own key *)
Definition pkg_del (next : resolved) (a : acc) (pkg : string) : bool :=
  negb (String.eqb (vget pkg (a_versions a)) (vget pkg (r_versions next))).
Definition pkg_cur (next : resolved) (a : acc) (pkg : string) : option (list string) :=
  let cur := if pkg_del next a pkg then None else sget pkg (a_slots a) in
  let cs := match cur with Some s => s | None => [] end in
  let ns := pget pkg (r_provided next) in
  if sequal cs ns then cur else Some (sinter cs ns).
Lemma step_pkg_eq next a pkg :
  step_pkg next a pkg =
  {| a_packages := if pkg_del next a pkg then sdel pkg (a_packages a) else a_packages a;
     a_versions := if pkg_del next a pkg then mdel pkg (a_versions a) else a_versions a;
     a_slots := supd pkg (pkg_cur next a pkg) (a_slots a) |}.
Proof. reflexivity. Qed.

Lemma pkg_del_other next a x y : x <> y -> pkg_del next (step_pkg next a x) y = pkg_del next a y.
Proof.
  intro H. rewrite step_pkg_eq. unfold pkg_del. simpl.
  destruct (negb (String.eqb (vget x (a_versions a)) (vget x (r_versions next))));
    [rewrite (vget_mdel_other x y _ H)|]; reflexivity.
Qed.
Lemma pkg_cur_other next a x y : x <> y -> pkg_cur next (step_pkg next a x) y = pkg_cur next a y.
Proof.
  intro H. unfold pkg_cur. rewrite (pkg_del_other next a x y H).
  rewrite step_pkg_eq. simpl. rewrite (sget_supd_other x y _ _ H). reflexivity.
Qed.

Lemma step_pkg_comm next a x y :
  step_pkg next (step_pkg next a x) y = step_pkg next (step_pkg next a y) x.
Proof.
  destruct (String.eqb_spec x y) as [->|Hne]; [reflexivity|].
  assert (Hne' : y <> x) by congruence.
  rewrite (step_pkg_eq next (step_pkg next a x) y), (step_pkg_eq next (step_pkg next a y) x).
  rewrite (pkg_del_other next a x y Hne), (pkg_del_other next a y x Hne').
  rewrite (pkg_cur_other next a x y Hne), (pkg_cur_other next a y x Hne').
  rewrite !step_pkg_eq. simpl.
  f_equal.
  - destruct (pkg_del next a x), (pkg_del next a y); try reflexivity. unfold sdel. apply filter_comm.
  - destruct (pkg_del next a x), (pkg_del next a y); try reflexivity. unfold mdel. apply filter_comm.
  - apply supd_comm. exact Hne.
Qed.

Definition perm_ord (ord : nat -> list string -> list string) : Prop := forall i l, Permutation (ord i l) l.
Definition perm_ordp (ordp : list (list string) -> list (list string)) : Prop := forall l, Permutation (ordp l) l.

Lemma step_arch_ord o o' a next :
  (forall l, Permutation (o l) l) -> (forall l, Permutation (o' l) l) ->
  step_arch o a next = step_arch o' a next.
Proof.
  intros H H'. unfold step_arch.
  destruct (vmap_eq (a_versions a) (r_versions next) && pmap_eq (present (a_slots a)) (r_provided next)); [reflexivity|].
  cbv zeta. apply fold_left_perm; [apply step_pkg_comm|].
  rewrite H, H'. reflexivity.
Qed.
Lemma steps_ord ord ord' : perm_ord ord -> perm_ord ord' ->
  forall rest i a, steps ord i a rest = steps ord' i a rest.
Proof.
  intros H H'. induction rest as [|next rest IH]; intros i a; simpl; [reflexivity|].
  rewrite (step_arch_ord (ord i) (ord' i) a next (H i) (H' i)). apply IH.
Qed.

Lemma filter_true_id {A} (f : A -> bool) l : (forall x, In x l -> f x = true) -> filter f l = l.
Proof.
  induction l as [|a l IH]; simpl; intro H; [reflexivity|].
  rewrite (H a (or_introl eq_refl)). f_equal. apply IH. intros x Hx. apply H. right. exact Hx.
Qed.
Lemma filter_filter {A} (f g : A -> bool) l : filter f (filter g l) = filter (fun x => g x && f x) l.
Proof.
  induction l as [|a l IH]; simpl; [reflexivity|].
  destruct (g a); simpl; [destruct (f a); rewrite IH; reflexivity | exact IH].
Qed.

(* what the range over acc.provided computes, whatever its order *)
Definition elide_spec (provs : list (list string)) (missing : list string) : list string :=
  filter (fun x => negb (existsb (fun p => smem x p) provs)) missing.
Lemma elide_is_spec provs : forall missing, elide provs missing = elide_spec provs missing.
Proof.
  unfold elide, elide_spec. induction provs as [|p provs IH]; intro m; simpl.
  - symmetry. apply filter_true_id. reflexivity.
  - assert (E : (if shas_any p m then sdiff m p else m) = sdiff m p).
    { destruct (shas_any p m) eqn:Eh; [reflexivity|]. symmetry. unfold sdiff. apply filter_true_id.
      intros x Hx. unfold shas_any in Eh. destruct (smem x p) eqn:Ex; [|reflexivity].
      assert (existsb (fun x => smem x p) m = true) by (apply existsb_exists; exists x; auto). congruence. }
    rewrite E, IH. unfold sdiff. rewrite filter_filter. apply filter_ext. intro x.
    destruct (smem x p); reflexivity.
Qed.
Lemma existsb_perm {A} (f : A -> bool) l l' : Permutation l l' -> existsb f l = existsb f l'.
Proof.
  intro P. destruct (existsb f l) eqn:E.
  - symmetry. apply existsb_exists in E. destruct E as (x & Hx & Fx). apply existsb_exists. exists x.
    split; [eapply Permutation_in; eassumption | exact Fx].
  - destruct (existsb f l') eqn:E'; [|reflexivity]. apply existsb_exists in E'. destruct E' as (x & Hx & Fx).
    assert (existsb f l = true) by (apply existsb_exists; exists x; split; [eapply Permutation_in; [apply Permutation_sym; eassumption|exact Hx] | exact Fx]).
    congruence.
Qed.
Lemma elide_perm provs provs' m : Permutation provs provs' -> elide provs m = elide provs' m.
Proof.
  intro P. rewrite !elide_is_spec. unfold elide_spec. apply filter_ext. intro x.
  rewrite (existsb_perm _ _ _ P). reflexivity.
Qed.

Theorem unify_order_independent ord ord' ordp ordp' originals inputs :
  perm_ord ord -> perm_ord ord' -> perm_ordp ordp -> perm_ordp ordp' ->
  unify ord ordp originals inputs = unify ord' ordp' originals inputs.
Proof.
  intros H H' Hp Hp'. unfold unify.
  destruct originals as [|o0 os]; [reflexivity|]. destruct inputs as [|r0 rest]; [reflexivity|].
  rewrite (steps_ord ord ord' H H' rest 0 (init_acc r0)).
  set (a := steps ord' 0 (init_acc r0) rest).
  set (m0 := sdiff (o_packages (parse_originals (o0 :: os))) (a_packages a)).
  assert (E : elide (ordp (List.map snd (present (a_slots a)))) m0 = elide (ordp' (List.map snd (present (a_slots a)))) m0).
  { apply elide_perm. eapply Permutation_trans; [apply Hp | apply Permutation_sym, Hp']. }
  destruct m0; [reflexivity|]. rewrite E. reflexivity.
Qed.

(* ---- what unify puts into the shared and the per-architecture lists ------------------ *)
Definition unify_pin (originals : list string) (n : string) : string :=
  vget n (o_pinned (parse_originals originals)).

Lemma fmt_entry a b : fmt_s unify_index_entry_format [a; b] = (a ++ "=" ++ b)%string /\
                      fmt_s unify_arch_entry_format [a; b] = (a ++ "=" ++ b)%string.
Proof. split; cbn; rewrite sapp_nil_r; reflexivity. Qed.
Lemma fmt_pin a b : fmt_s unify_index_pin_format [a; b] = (a ++ b)%string /\
                    fmt_s unify_arch_pin_format [a; b] = (a ++ b)%string.
Proof. split; cbn; rewrite sapp_nil_r; reflexivity. Qed.

Lemma sapp_assoc (a b c : string) : ((a ++ b) ++ c)%string = (a ++ b ++ c)%string.
Proof. induction a as [|x a IH]; simpl; [reflexivity | rewrite IH; reflexivity]. Qed.

Lemma entry_is_lock_entry versions o n :
  entry unify_index_entry_format unify_index_pin_format versions o n = lock_entry (fun n => vget n (o_pinned o)) versions n /\
  entry unify_arch_entry_format unify_arch_pin_format versions o n = lock_entry (fun n => vget n (o_pinned o)) versions n.
Proof.
  unfold entry, lock_entry.
  destruct (fmt_entry n (vget n versions)) as [E1 E2]. rewrite E1, E2.
  destruct (vget n (o_pinned o)) as [|c p] eqn:Ep.
  - rewrite !sapp_nil_r. split; reflexivity.
  - destruct (fmt_pin (n ++ "=" ++ vget n versions)%string (String c p)) as [F1 F2]. rewrite F1, F2.
    rewrite !sapp_assoc. simpl. split; reflexivity.
Qed.

Definition wf_resolved (r : resolved) : Prop := forall n, In n (r_packages r) <-> In n (akeys (r_versions r)).
Definition agrees (r0 r : resolved) (p : string) : Prop :=
  In p (r_packages r) /\ vget p (r_versions r) = vget p (r_versions r0).

Record inv (r0 : resolved) (done : list resolved) (a : acc) : Prop := {
  inv_sound : forall p, In p (a_packages a) ->
      In p (r_packages r0) /\ vget p (a_versions a) = vget p (r_versions r0) /\
      alookup p (a_versions a) <> None /\ forall r, In r done -> agrees r0 r p;
  inv_complete : forall p, In p (r_packages r0) -> (forall r, In r done -> agrees r0 r p) -> In p (a_packages a)
}.

Lemma sdel_In x p l : In p (sdel x l) <-> In p l /\ p <> x.
Proof.
  unfold sdel. rewrite filter_In. split; intros [H1 H2]; split; auto.
  - intros ->. rewrite String.eqb_refl in H2. discriminate.
  - destruct (String.eqb_spec x p); [congruence | reflexivity].
Qed.

Lemma step_pkg_packages next a x p :
  In p (a_packages (step_pkg next a x)) <-> In p (a_packages a) /\ (p = x -> pkg_del next a x = false).
Proof.
  rewrite step_pkg_eq. simpl. destruct (pkg_del next a x).
  - rewrite sdel_In. split; intros [H1 H2]; split; auto.
    + intro E. contradiction.
    + intro E. specialize (H2 E). discriminate.
  - tauto.
Qed.
Lemma step_pkg_versions next a x p :
  p <> x \/ pkg_del next a x = false ->
  alookup p (a_versions (step_pkg next a x)) = alookup p (a_versions a).
Proof.
  intro H. rewrite step_pkg_eq. simpl. destruct (pkg_del next a x) eqn:D; [|reflexivity].
  destruct H as [H|H]; [|discriminate]. unfold mdel. apply alookup_filter_other. congruence.
Qed.
Lemma pkg_del_after next a x p :
  p <> x \/ pkg_del next a x = false -> pkg_del next (step_pkg next a x) p = pkg_del next a p.
Proof.
  intro H. unfold pkg_del, vget. rewrite (step_pkg_versions next a x p H). reflexivity.
Qed.

Lemma fold_pkgs next : forall l a,
  (forall p, In p (a_packages (fold_left (step_pkg next) l a)) <->
             In p (a_packages a) /\ (In p l -> pkg_del next a p = false)) /\
  (forall p, In p (a_packages (fold_left (step_pkg next) l a)) ->
             alookup p (a_versions (fold_left (step_pkg next) l a)) = alookup p (a_versions a)).
Proof.
  induction l as [|x l IH]; intro a; simpl.
  - split; [intro p; tauto | reflexivity].
  - destruct (IH (step_pkg next a x)) as [IH1 IH2]. split.
    + intro p. rewrite IH1, step_pkg_packages. split.
      * intros [[Hp Hx] Hl]. split; [exact Hp|]. intros [E|Hin].
        -- subst x. apply Hx. reflexivity.
        -- destruct (String.eqb_spec p x) as [->|Hne].
           ++ apply Hx. reflexivity.
           ++ rewrite <- (pkg_del_after next a x p (or_introl Hne)). apply Hl. exact Hin.
      * intros [Hp Hall]. split; [split; [exact Hp|]|].
        -- intros ->. apply Hall. left. reflexivity.
        -- intro Hin. destruct (String.eqb_spec p x) as [->|Hne].
           ++ rewrite (pkg_del_after next a x x); [|right]; apply Hall; left; reflexivity.
           ++ rewrite (pkg_del_after next a x p (or_introl Hne)). apply Hall. right. exact Hin.
    + intros p Hp. rewrite (IH2 p Hp). apply IH1 in Hp. destruct Hp as [Hp _].
      apply step_pkg_packages in Hp. destruct Hp as [_ Hx].
      apply step_pkg_versions. destruct (String.eqb_spec p x) as [->|Hne]; [right; apply Hx; reflexivity | left; exact Hne].
Qed.

Lemma alookup_some_in_keys {V} k (v : V) m : alookup k m = Some v -> In k (akeys m).
Proof.
  intro H. destruct (in_dec string_dec k (akeys m)) as [I|N]; [exact I|].
  apply alookup_none in N. congruence.
Qed.

Lemma vmap_eq_agree a b p v : vmap_eq a b = true -> alookup p a = Some v -> alookup p b = Some v.
Proof.
  unfold vmap_eq. intros H E. apply andb_true_iff in H. destruct H as [_ H].
  rewrite forallb_forall in H. specialize (H (p, v) (alookup_in _ _ _ E)). simpl in H.
  destruct (alookup p b) as [v'|]; [|discriminate]. apply String.eqb_eq in H. congruence.
Qed.

Lemma step_arch_inv r0 done a next o :
  (forall l, Permutation (o l) l) -> wf_resolved next ->
  inv r0 done a -> inv r0 (done ++ [next]) (step_arch o a next).
Proof.
  intros Ho Wn [Is Ic]. unfold step_arch.
  destruct (vmap_eq (a_versions a) (r_versions next) && pmap_eq (present (a_slots a)) (r_provided next)) eqn:Sh.
  - (* the DeepEqual shortcut *)
    apply andb_true_iff in Sh. destruct Sh as [Sv _]. split.
    + intros p Hp. destruct (Is p Hp) as (H0 & Hv & Hn & Hd).
      split; [exact H0 | split; [exact Hv | split; [exact Hn|]]].
      intros r Hr. apply in_app_or in Hr. destruct Hr as [Hr|[<-|[]]]; [apply Hd; exact Hr|].
      destruct (alookup p (a_versions a)) as [v|] eqn:E; [|congruence].
      pose proof (vmap_eq_agree _ _ _ _ Sv E) as E'. split.
      * apply Wn. eapply alookup_some_in_keys. exact E'.
      * rewrite <- Hv. unfold vget. rewrite E, E'. reflexivity.
    + intros p H0 Hall. apply Ic; [exact H0|]. intros r Hr. apply Hall. apply in_or_app. left. exact Hr.
  - cbv zeta.
    set (a1 := {| a_packages := sdiff (a_packages a) (sdiff (a_packages a) (r_packages next));
                  a_versions := a_versions a; a_slots := a_slots a |}).
    assert (H1 : forall p, In p (a_packages a1) <-> In p (a_packages a) /\ In p (r_packages next)).
    { intro p. simpl. unfold sdiff. rewrite !filter_In. split.
      - intros [Hp Hn]. split; [exact Hp|]. apply negb_true_iff, smem_false in Hn.
        destruct (in_dec string_dec p (r_packages next)) as [I|N]; [exact I|].
        exfalso. apply Hn. apply filter_In. split; [exact Hp|]. apply negb_true_iff, smem_false. exact N.
      - intros [Hp Hn]. split; [exact Hp|]. apply negb_true_iff, smem_false. intro F.
        apply filter_In in F. destruct F as [_ F]. apply negb_true_iff, smem_false in F. contradiction. }
    destruct (fold_pkgs next (o (a_packages a1)) a1) as [F1 F2].
    assert (Hl : forall p, In p (o (a_packages a1)) <-> In p (a_packages a1)).
    { intro p. split; intro H; [eapply Permutation_in; [apply Ho|exact H] | eapply Permutation_in; [apply Permutation_sym, Ho|exact H]]. }
    split.
    + intros p Hp. pose proof (F2 p Hp) as Ev. apply F1 in Hp. destruct Hp as [Hp Hd].
      specialize (Hd (proj2 (Hl p) Hp)). apply H1 in Hp. destruct Hp as [Hpa Hpn].
      destruct (Is p Hpa) as (H0 & Hv & Hn & Hdone).
      change (a_versions a1) with (a_versions a) in Ev.
      split; [exact H0 | split; [|split]].
      * unfold vget. rewrite Ev. exact Hv.
      * rewrite Ev. exact Hn.
      * intros r Hr. apply in_app_or in Hr. destruct Hr as [Hr|[<-|[]]]; [apply Hdone; exact Hr|].
        split; [exact Hpn|]. unfold pkg_del in Hd. apply negb_false_iff, String.eqb_eq in Hd.
        simpl in Hd. rewrite <- Hd. exact Hv.
    + intros p H0 Hall. apply F1.
      assert (Hpa : In p (a_packages a)).
      { apply Ic; [exact H0|]. intros r Hr. apply Hall. apply in_or_app. left. exact Hr. }
      assert (Hnx : In next (done ++ [next])) by (apply in_or_app; right; left; reflexivity).
      destruct (Hall next Hnx) as [Hpn Hvn].
      split; [apply H1; split; assumption|]. intros _.
      unfold pkg_del. apply negb_false_iff, String.eqb_eq. simpl.
      destruct (Is p Hpa) as (_ & Hv & _). rewrite Hv, Hvn. reflexivity.
Qed.

Lemma steps_inv r0 ord : perm_ord ord -> forall rest done i a,
  Forall wf_resolved rest -> inv r0 done a -> inv r0 (done ++ rest) (steps ord i a rest).
Proof.
  intro Ho. induction rest as [|next rest IH]; intros done i a W I; simpl.
  - rewrite app_nil_r. exact I.
  - inversion W as [|? ? Wn Wr]; subst.
    replace (done ++ next :: rest) with ((done ++ [next]) ++ rest) by (rewrite <- app_assoc; reflexivity).
    apply IH; [exact Wr|]. apply step_arch_inv; auto.
Qed.

Lemma init_inv r0 : wf_resolved r0 -> inv r0 [] (init_acc r0).
Proof.
  intro W. split; simpl.
  - intros p Hp. split; [exact Hp | split; [reflexivity | split; [|intros r []]]].
    apply W in Hp. intro E. apply alookup_none in E. contradiction.
  - intros p Hp _. exact Hp.
Qed.

(* lookups in a map built by successive stores *)
Lemma alookup_mset_same {V} k (v : V) m : alookup k (mset k v m) = Some v.
Proof.
  induction m as [|[k' v'] m IH]; simpl; [rewrite String.eqb_refl; reflexivity|].
  destruct (String.eqb_spec k k'); simpl; [rewrite String.eqb_refl; reflexivity|].
  destruct (String.eqb_spec k k'); [contradiction | exact IH].
Qed.
Lemma alookup_mset_other {V} k k' (v : V) m : k <> k' -> alookup k' (mset k v m) = alookup k' m.
Proof.
  intro Hne. induction m as [|[k2 v2] m IH]; simpl.
  - destruct (String.eqb_spec k' k); [congruence | reflexivity].
  - destruct (String.eqb_spec k k2); simpl.
    + subst k2. destruct (String.eqb_spec k' k); [congruence | reflexivity].
    + destruct (String.eqb k' k2); [reflexivity | exact IH].
Qed.
Section FoldMset.
  Context {R V : Type} (key : R -> string) (val : R -> V).
  Lemma fold_mset_notin l : forall m k, ~ In k (List.map key l) ->
    alookup k (fold_left (fun m r => mset (key r) (val r) m) l m) = alookup k m.
  Proof.
    induction l as [|x l IH]; intros m k H; simpl; [reflexivity|].
    rewrite IH; [|intro F; apply H; right; exact F].
    apply alookup_mset_other. intro E. apply H. left. exact E.
  Qed.
  Lemma fold_mset_in l : forall m r, NoDup (List.map key l) -> In r l ->
    alookup (key r) (fold_left (fun m r => mset (key r) (val r) m) l m) = Some (val r).
  Proof.
    induction l as [|x l IH]; intros m r ND Hr; simpl; [contradiction|].
    inversion ND as [|? ? Nin ND']; subst. destruct Hr as [->|Hr].
    - rewrite fold_mset_notin; [apply alookup_mset_same | exact Nin].
    - apply IH; assumption.
  Qed.
End FoldMset.

Lemma unify_ok_shape ord ordp o0 os r0 rest bya mba :
  unify ord ordp (o0 :: os) (r0 :: rest) = Ok (bya, mba) ->
  let o := parse_originals (o0 :: os) in
  let a := steps ord 0 (init_acc r0) rest in
  bya = fold_left (fun m r =>
          mset (r_arch r) (sort_strings (List.map (entry unify_arch_entry_format unify_arch_pin_format (r_versions r) o) (r_packages r))) m)
          (r0 :: rest)
          [(unify_index_key, sort_strings (List.map (entry unify_index_entry_format unify_index_pin_format (a_versions a) o) (a_packages a)))].
Proof.
  unfold unify. cbv zeta.
  destruct (match sdiff _ _ with [] => [] | _ :: _ => _ end); [|discriminate].
  intro H. inversion H. reflexivity.
Qed.

Theorem unify_index_exact ord ordp originals r0 rest bya mba :
  perm_ord ord -> originals <> [] ->
  Forall wf_resolved (r0 :: rest) ->
  ~ In unify_index_key (List.map r_arch (r0 :: rest)) ->
  unify ord ordp originals (r0 :: rest) = Ok (bya, mba) ->
  exists idx, alookup unify_index_key bya = Some idx /\ StronglySorted sle idx /\
    forall e, In e idx <->
      exists n, In n (r_packages r0) /\ e = lock_entry (unify_pin originals) (r_versions r0) n /\
                forall r, In r rest -> agrees r0 r n.
Proof.
  intros Ho Hne W Nidx H. destruct originals as [|o0 os]; [congruence|].
  pose proof (unify_ok_shape _ _ _ _ _ _ _ _ H) as Eb. cbv zeta in Eb.
  set (o := parse_originals (o0 :: os)) in *. set (a := steps ord 0 (init_acc r0) rest) in *.
  exists (sort_strings (List.map (entry unify_index_entry_format unify_index_pin_format (a_versions a) o) (a_packages a))).
  split; [|split].
  - rewrite Eb. rewrite (fold_mset_notin r_arch _ (r0 :: rest) _ unify_index_key Nidx).
    cbn [alookup]. rewrite String.eqb_refl. reflexivity.
  - apply sort_strings_sorted.
  - inversion W as [|? ? W0 Wr]; subst.
    pose proof (steps_inv r0 ord Ho rest [] 0 (init_acc r0) Wr (init_inv r0 W0)) as [Is Ic]. simpl in Is, Ic.
    fold a in Is, Ic. intro e. split.
    + intro He. eapply Permutation_in in He; [|apply Permutation_sym, sort_strings_perm].
      apply in_map_iff in He. destruct He as (n & <- & Hn). destruct (Is n Hn) as (H0 & Hv & _ & Hd).
      exists n. split; [exact H0|]. split; [|exact Hd].
      rewrite (proj1 (entry_is_lock_entry (a_versions a) o n)). unfold lock_entry, unify_pin. fold o. rewrite Hv. reflexivity.
    + intros (n & H0 & -> & Hd). eapply Permutation_in; [apply sort_strings_perm|].
      apply in_map_iff. exists n. split; [|apply Ic; assumption].
      destruct (Is n (Ic n H0 Hd)) as (_ & Hv & _).
      rewrite (proj1 (entry_is_lock_entry (a_versions a) o n)). unfold lock_entry, unify_pin. fold o. rewrite Hv. reflexivity.
Qed.

Theorem unify_per_arch_exact ord ordp originals inputs bya mba :
  originals <> [] -> NoDup (List.map r_arch inputs) -> ~ In unify_index_key (List.map r_arch inputs) ->
  unify ord ordp originals inputs = Ok (bya, mba) ->
  forall r, In r inputs ->
    alookup (r_arch r) bya = Some (sort_strings (List.map (lock_entry (unify_pin originals) (r_versions r)) (r_packages r))).
Proof.
  intros Hne ND Nidx H r Hr. destruct originals as [|o0 os]; [congruence|].
  destruct inputs as [|r0 rest]; [contradiction|].
  pose proof (unify_ok_shape _ _ _ _ _ _ _ _ H) as Eb. cbv zeta in Eb. rewrite Eb.
  rewrite (fold_mset_in r_arch _ (r0 :: rest) _ r ND Hr). f_equal. f_equal.
  apply map_ext. intro n. apply (proj2 (entry_is_lock_entry (r_versions r) _ n)).
Qed.

(* the shared list when nothing was requested *)
Lemma unify_no_originals ord ordp inputs : unify ord ordp [] inputs = Ok ([(unify_index_key, [])], []).
Proof. reflexivity. Qed.

(* ---- c09_lock_entries_exact ------------------------------------------------------------ *)
From Apko Require Import Proofs.ConstraintProofs Generated.VersionConsts Generated.C03Version.

(* what filterPackages checks of one candidate for an "=" entry with required version [req] *)
Definition Admits (req : mver) (k : cand) : Prop :=
  exists av, parse_version (k_version k) = Some av /\
    (satisfies dep_versionEqual av req = true \/
     exists prov pv, In prov (k_provides k) /\
       c_version (resolve_constraint prov) <> "" /\
       parse_version (c_version (resolve_constraint prov)) = Some pv /\
       satisfies dep_versionEqual pv req = true).

Lemma version_admits_iff req k : version_admits dep_versionEqual req k = true <-> Admits req k.
Proof.
  unfold version_admits, Admits. destruct (parse_version (k_version k)) as [av|].
  - rewrite orb_true_iff, existsb_exists. split.
    + intros [H|(prov & Hp & H)]; exists av; split; auto. right.
      destruct (c_version (resolve_constraint prov)) as [|c0 v0] eqn:Ev; [discriminate|].
      destruct (parse_version (String c0 v0)) as [pv|] eqn:Epv; [|discriminate].
      exists prov, pv. rewrite Ev. repeat split; auto. discriminate.
    + intros (av' & E & [H|(prov & pv & Hp & Hne & Epv & H)]); inversion E; subst; auto.
      right. exists prov. split; [exact Hp|].
      destruct (c_version (resolve_constraint prov)) as [|c0 v0]; [congruence|]. rewrite Epv. exact H.
  - split; [discriminate|]. intros (av & E & _). discriminate.
Qed.

Lemma bytes_of_string_app a b : bytes_of_string (a ++ b)%string = bytes_of_string a ++ bytes_of_string b.
Proof.
  unfold bytes_of_string. induction a as [|c a IH]; simpl; [reflexivity|]. f_equal. exact IH.
Qed.

(* a lock entry name=version, for a name and a version free of the grammar's delimiters *)
Definition clean_name (name : string) : Prop :=
  bytes_of_string name <> [] /\ forallb is_namechar (bytes_of_string name) = true /\
  strip_prefix (bytes_of_string "so:") (bytes_of_string name) = None.
Definition clean_version (v : string) : Prop :=
  bytes_of_string v <> [] /\ forallb not_at (bytes_of_string v) = true /\
  match bytes_of_string v with c :: _ => is_opchar c = false | [] => True end.

Lemma strip_prefix_app_none (pre a b : list N) : (List.length pre <= List.length a)%nat ->
  strip_prefix pre a = None -> strip_prefix pre (a ++ b) = None.
Proof.
  revert a. induction pre as [|x pre IH]; intros a Hl H; simpl in *; [discriminate|].
  destruct a as [|y a]; simpl in *; [lia|]. destruct (x =? y)%N; [apply IH; [lia|exact H] | reflexivity].
Qed.

Lemma lock_entry_parses name v : clean_name name -> clean_version v ->
  resolve_constraint (name ++ "=" ++ v) =
    {| c_name := name; c_version := v; c_dep := dep_versionEqual; c_pin := "" |}.
Proof.
  intros (Hn1 & Hn2 & Hn3) (Hv1 & Hv2 & Hv3).
  assert (Eb : bytes_of_string (name ++ "=" ++ v) = bytes_of_string name ++ [61%N] ++ bytes_of_string v ++ pin_tail []).
  { rewrite !bytes_of_string_app. simpl. rewrite app_nil_r. reflexivity. }
  rewrite (resolve_clean (name ++ "=" ++ v) (bytes_of_string name) [61%N] (bytes_of_string v) [] Eb).
  - rewrite !string_of_bytes_of_string. reflexivity.
  - unfold no_so_prefix. rewrite Eb. change (bytes_of_string "so:") with [115; 111; 58]%N in *.
    destruct (bytes_of_string name) as [|c0 [|c1 [|c2 t]]] eqn:En; try congruence.
    + (* one-byte name: the next byte is '=' *)
      cbn [strip_prefix app]. destruct (115 =? c0)%N; reflexivity.
    + cbn [strip_prefix app]. destruct (115 =? c0)%N; [|reflexivity]. destruct (111 =? c1)%N; reflexivity.
    + apply strip_prefix_app_none; [simpl; lia | exact Hn3].
  - constructor.
    + pose proof Eb as Eb'. unfold pin_tail in Eb'. rewrite <- Eb'. apply bytes_are_bytes.
    + split; assumption.
    + split; [discriminate | reflexivity].
    + split; [exact Hv1 | split; [exact Hv2 | exact Hv3]].
    + reflexivity.
Qed.

Theorem lock_entry_admits_exactly name v (cands : list cand) (k : cand) :
  clean_name name -> clean_version v ->
  In k (filter_for (resolve_constraint (name ++ "=" ++ v)) cands) <->
  In k cands /\ k_dq k = false /\ k_pinned k = "" /\
  exists req, parse_version v = Some req /\ Admits req k.
Proof.
  intros Hn Hv. rewrite (lock_entry_parses name v Hn Hv). unfold filter_for. cbn [c_dep c_version c_pin].
  change (dep_versionEqual =? dep_versionAny)%Z with false. cbv iota.
  destruct (parse_version v) as [req|].
  - rewrite filter_In, !andb_true_iff, negb_true_iff, orb_true_iff, version_admits_iff, !String.eqb_eq. split.
    + intros (Hin & (Hd & Hp) & Ha). repeat split; auto; [tauto | exists req; auto].
    + intros (Hin & Hd & Hp & req' & E & Ha). inversion E; subst. auto.
  - split; [intros [] | intros (_ & _ & _ & req & E & _); discriminate].
Qed.

(* where the round trip can fail: the entry b=1.0-r0 also admits a package with
   another name that merely provides b and, separately, something at 1.0-r0 *)
Lemma lock_entry_admits_foreign :
  let q := {| k_name := "q"; k_version := "5.0-r0"; k_provides := ["b"; "zz=1.0-r0"]; k_deps := [];
              k_pinned := ""; k_dq := false |} in
  In q (filter_for (resolve_constraint "b=1.0-r0") [q]).
Proof. vm_compute. left. reflexivity. Qed.

(* ---- c09_fixpoint ------------------------------------------------------------------------ *)
Section LockFixpoint.
  Variable U : list cand.                               (* every package of every repository *)
  Variable resolve : list string -> option (list cand). (* the resolver over U: world -> install set *)

  Definition admitted (w : string) (k : cand) : Prop :=
    In k (filter_for (resolve_constraint w) (cands_of U (c_name (resolve_constraint w)))).
  Definition is_negative (d : string) : bool := match d with String "!" _ => true | _ => false end.
  Definition closed (S : list cand) : Prop :=
    forall k, In k S -> forall d, In d (k_deps k) -> is_negative d = false -> exists k', In k' S /\ admitted d k'.
  Definition solution (W : list string) (S : list cand) : Prop :=
    incl S U /\ (forall w, In w W -> exists k, In k S /\ admitted w k) /\ closed S.

  (* the full statement *)
  Definition Fixpoint_statement : Prop :=
    forall W S, resolve W = Some S ->
      exists R, resolve (lock_of S) = Some R /\ forall k, In k R <-> In k S.

  (* what is assumed of the resolver *)
  Hypothesis resolve_sound : forall W S, resolve W = Some S -> solution W S.
  Hypothesis resolve_minimal : forall W S S', resolve W = Some S -> solution W S' -> incl S' S -> incl S S'.
  Hypothesis resolve_finds_locked : forall S, solution (lock_of S) S -> exists R, resolve (lock_of S) = Some R.

  Theorem fixpoint_partial W S :
    resolve W = Some S ->
    (forall k, In k S -> admitted (lock_entry_of k) k) ->
    (forall k k', In k S -> In k' U -> admitted (lock_entry_of k) k' -> k' = k) ->
    exists R, resolve (lock_of S) = Some R /\ forall k, In k R <-> In k S.
  Proof.
    intros HW Hself Honly. destruct (resolve_sound W S HW) as (HU & _ & Hcl).
    assert (Hsol : solution (lock_of S) S).
    { split; [exact HU | split; [|exact Hcl]]. intros w Hw. apply in_map_iff in Hw.
      destruct Hw as (k & <- & Hk). exists k. split; [exact Hk | apply Hself; exact Hk]. }
    destruct (resolve_finds_locked S Hsol) as (R & HR). exists R. split; [exact HR|].
    destruct (resolve_sound _ _ HR) as (HRU & HRw & _).
    assert (HSR : incl S R).
    { intros k Hk. destruct (HRw (lock_entry_of k)) as (k' & Hk' & Ha); [apply in_map; exact Hk|].
      rewrite <- (Honly k k' Hk (HRU k' Hk') Ha). exact Hk'. }
    intro k. split; [apply (resolve_minimal _ R S HR Hsol HSR) | apply HSR].
  Qed.
End LockFixpoint.

(* ---- the order of the architectures --------------------------------------------------------- *)
Lemma unify_arch_order_refuted :
  let r1 := resolved_of "amd64" [{| p_name := "p1"; p_version := "1.0-r0"; p_provides := ["v=9.0"] |}] in
  let r2 := resolved_of "arm64" [{| p_name := "v"; p_version := "1.0-r0"; p_provides := [] |}] in
  unify id_ord id_ordp ["v"] [r1; r2] = Ok ([("index", []); ("amd64", ["p1=1.0-r0"]); ("arm64", ["v=1.0-r0"])],
                                            [("amd64", ["p1"]); ("arm64", ["v"])]) /\
  unify id_ord id_ordp ["v"] [r2; r1] = Err.
Proof. split; vm_compute; reflexivity. Qed.

(* the per-architecture lists do not depend on the order of the inputs *)
Lemma unify_arch_order_partial ord ordp originals inputs inputs' bya mba bya' mba' :
  originals <> [] -> Permutation inputs inputs' ->
  NoDup (List.map r_arch inputs) -> ~ In unify_index_key (List.map r_arch inputs) ->
  unify ord ordp originals inputs = Ok (bya, mba) ->
  unify ord ordp originals inputs' = Ok (bya', mba') ->
  forall r, In r inputs -> alookup (r_arch r) bya = alookup (r_arch r) bya'.
Proof.
  intros Hne P ND Nidx H H' r Hr.
  rewrite (unify_per_arch_exact _ _ _ _ _ _ Hne ND Nidx H r Hr).
  assert (ND' : NoDup (List.map r_arch inputs')) by (eapply Permutation_NoDup; [apply Permutation_map; exact P | exact ND]).
  assert (Nidx' : ~ In unify_index_key (List.map r_arch inputs')).
  { intro F. apply Nidx. eapply Permutation_in; [apply Permutation_sym, Permutation_map; exact P | exact F]. }
  rewrite (unify_per_arch_exact _ _ _ _ _ _ Hne ND' Nidx' H' r (Permutation_in _ P Hr)). reflexivity.
Qed.
