(* C09 <-> Model/Resolver.v (C02/C08/C14): the version test that Model/Lock.v
   uses to say what a lock entry admits is the resolver model's own
   [version_passes] — the two transcriptions of filterPackages agree. *)
From Apko Require Import Base.Prelude Model.Version.
From Apko Require Model.Lock Model.Resolver.
Open Scope string_scope. Open Scope list_scope.

Definition cand_of (p : Resolver.pkg) (dq : bool) : Lock.cand :=
  {| Lock.k_name := Resolver.p_name p; Lock.k_version := Resolver.p_version p;
     Lock.k_provides := Resolver.p_provides p; Lock.k_deps := Resolver.p_deps p;
     Lock.k_pinned := Resolver.p_pin p; Lock.k_dq := dq |}.

Lemma parse_empty : parse_version "" = None.
Proof. vm_compute. reflexivity. Qed.

Lemma version_test_agrees p dq dep req :
  Lock.version_admits dep req (cand_of p dq) = Resolver.version_passes (Resolver.cook_pkg p) dep req.
Proof.
  unfold Lock.version_admits, Resolver.version_passes, cand_of, Resolver.cook_pkg. simpl.
  destruct (parse_version (Resolver.p_version p)) as [av|]; [|reflexivity]. f_equal.
  induction (Resolver.p_provides p) as [|s l IH]; simpl; [reflexivity|]. rewrite IH. f_equal.
  unfold Resolver.cook_str. simpl.
  destruct (c_version (resolve_constraint s)) as [|c v]; [rewrite parse_empty|]; reflexivity.
Qed.
