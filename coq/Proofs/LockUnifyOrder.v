(* C09 — (1) what LockImageConfiguration hands to unify is well formed, for
   EVERY resolution result: [resolved_of] builds packages = keys(versions),
   duplicate-free, provided only for listed packages (so the unify theorems
   need no side condition on real calls);
   (2) the order of the architectures: when two orders of the same inputs both
   succeed, the results are equal as Go maps (every key of the lock map and of
   the missing map looks up the same list, the shared "index" list included);
   when the architectures agree on who provides the REQUESTED names, success
   itself does not depend on the order;
   (3) LockImageConfiguration since fix 8c1f464 sorts the architectures: its
   result is a function of the SET of per-architecture resolutions. *)
From Apko Require Import Base.Prelude Base.Regex Base.C12Lib Model.Version Model.Lock Spec.LockSpec
  Proofs.LockProofs Generated.Regexes Generated.C09Lock.
From Coq Require Import Permutation Sorted.
Open Scope string_scope. Open Scope list_scope.

(* ================= (1) resolved_of ===================================================== *)
Lemma sins_In x y s : In x (sins y s) <-> x = y \/ In x s.
Proof.
  unfold sins. destruct (smem y s) eqn:E.
  - apply smem_In in E. split; [auto | intros [->|H]; assumption].
  - rewrite in_app_iff. simpl. split; [intros [H|[H|[]]]; auto | intros [H|H]; auto].
Qed.
Lemma sins_nodup y s : NoDup s -> NoDup (sins y s).
Proof.
  intro ND. unfold sins. destruct (smem y s) eqn:E; [exact ND|].
  apply smem_false in E. eapply Permutation_NoDup; [apply Permutation_cons_append|]. constructor; assumption.
Qed.
Lemma sins_nonempty y s : sins y s <> [].
Proof. unfold sins. destruct (smem y s) eqn:E; [intro H; subst; discriminate | destruct s; discriminate]. Qed.

Lemma akeys_mset {V} k (v : V) m x : In x (akeys (mset k v m)) <-> x = k \/ In x (akeys m).
Proof.
  induction m as [|[k' v'] m IH]; simpl; [split; [intros [H|[]]; auto | intros [H|[]]; auto]|].
  destruct (String.eqb_spec k k'); simpl.
  - subst k'. split; [intros [H|H]; auto | intros [H|[H|H]]; auto].
  - rewrite IH. split; [intros [H|[H|H]]; auto | intros [H|[H|H]]; auto].
Qed.
Lemma akeys_mset_nodup {V} k (v : V) m : NoDup (akeys m) -> NoDup (akeys (mset k v m)).
Proof.
  induction m as [|[k' v'] m IH]; simpl; intro ND; [constructor; [intros [] | constructor]|].
  inversion ND as [|? ? Nin ND']; subst. destruct (String.eqb_spec k k'); simpl.
  - subst k'. constructor; assumption.
  - constructor; [|apply IH; exact ND']. intro H. apply akeys_mset in H. destruct H as [H|H]; [congruence | contradiction].
Qed.
Lemma in_mset {V} k (v : V) m k' v' : In (k', v') (mset k v m) -> (k', v') = (k, v) \/ In (k', v') m.
Proof.
  induction m as [|[k2 v2] m IH]; simpl; [intros [H|[]]; left; symmetry; exact H|].
  destruct (String.eqb_spec k k2); simpl.
  - intros [H|H]; [left; symmetry; exact H | right; right; exact H].
  - intros [H|H]; [right; left; exact H|]. destruct (IH H) as [E|E]; [left; exact E | right; right; exact E].
Qed.

(* everything the correspondence's wf_resolved_b tests, as a Prop *)
Record wf_full (r : resolved) : Prop := {
  wff_keys : wf_resolved r;
  wff_pk : NoDup (r_packages r);
  wff_vk : NoDup (akeys (r_versions r));
  wff_prk : NoDup (akeys (r_provided r));
  wff_prsub : incl (akeys (r_provided r)) (r_packages r);
  wff_sets : forall k v, In (k, v) (r_provided r) -> NoDup v /\ v <> []
}.

Lemma provides_fold_inv name provs : forall m,
  NoDup (akeys m) -> (forall k v, In (k, v) m -> NoDup v /\ v <> []) ->
  let m' := fold_left (fun m prov => match provided_name prov with
                                     | None => m
                                     | Some n => mset name (sins n (pget name m)) m
                                     end) provs m in
  NoDup (akeys m') /\ (forall k v, In (k, v) m' -> NoDup v /\ v <> []) /\
  (forall k, In k (akeys m') -> k = name \/ In k (akeys m)).
Proof.
  induction provs as [|prov provs IH]; intros m ND HS; cbn [fold_left]; cbv zeta.
  - split; [exact ND | split; [exact HS | auto]].
  - destruct (provided_name prov) as [n|]; [|apply IH; assumption].
    set (m1 := mset name (sins n (pget name m)) m).
    assert (ND1 : NoDup (akeys m1)) by (apply akeys_mset_nodup; exact ND).
    assert (HS1 : forall k v, In (k, v) m1 -> NoDup v /\ v <> []).
    { intros k v H. apply in_mset in H. destruct H as [E|H]; [|exact (HS k v H)].
      inversion E; subst. split; [|apply sins_nonempty]. apply sins_nodup.
      unfold pget. destruct (alookup name m) as [v0|] eqn:E0; [|constructor].
      apply alookup_in in E0. exact (proj1 (HS _ _ E0)). }
    destruct (IH m1 ND1 HS1) as (A & B & C). split; [exact A | split; [exact B|]].
    intros k Hk. destruct (C k Hk) as [E|H]; [left; exact E|]. apply akeys_mset in H. exact H.
Qed.

Lemma add_pkg_wf r p : wf_full r -> wf_full (add_pkg r p).
Proof.
  intros [W1 W2 W3 W4 W5 W6].
  destruct (provides_fold_inv (p_name p) (p_provides p) (r_provided r) W4 W6) as (A & B & C).
  constructor; cbn [add_pkg r_packages r_versions r_provided].
  - intro n. cbn [add_pkg r_packages r_versions]. rewrite sins_In, akeys_mset. specialize (W1 n). tauto.
  - apply sins_nodup. exact W2.
  - apply akeys_mset_nodup. exact W3.
  - exact A.
  - intros k Hk. apply sins_In. destruct (C k Hk) as [E|H]; [left; exact E | right; apply W5; exact H].
  - exact B.
Qed.

Theorem resolved_of_wf arch pkgs : wf_full (resolved_of arch pkgs).
Proof.
  unfold resolved_of.
  assert (G : forall l r, wf_full r -> wf_full (fold_left add_pkg l r)).
  { induction l as [|p l IH]; intros r W; [exact W|]. simpl. apply IH. apply add_pkg_wf. exact W. }
  apply G. constructor; simpl.
  - intro n. simpl. tauto.
  - constructor.
  - constructor.
  - constructor.
  - intros ? [].
  - intros ? ? [].
Qed.

Lemma resolved_of_arch arch pkgs : r_arch (resolved_of arch pkgs) = arch.
Proof.
  unfold resolved_of.
  assert (G : forall l r, r_arch (fold_left add_pkg l r) = r_arch r).
  { induction l as [|p l IH]; intros r; [reflexivity|]. simpl. rewrite IH. reflexivity. }
  apply G.
Qed.

(* what the resolution of one architecture becomes: the package names are the
   names of the resolution, the version of a name is that of its LAST package
   (a resolution never holds a name twice: C02 cl_nodup) *)
Lemma resolved_of_packages arch pkgs n : In n (r_packages (resolved_of arch pkgs)) <-> In n (List.map p_name pkgs).
Proof.
  unfold resolved_of.
  assert (G : forall l r, In n (r_packages (fold_left add_pkg l r)) <-> In n (r_packages r) \/ In n (List.map p_name l)).
  { induction l as [|p l IH]; intros r; simpl; [tauto|]. rewrite IH. cbn [add_pkg r_packages]. rewrite sins_In.
    split; [intros [[->|H]|H]; auto | intros [H|[<-|H]]; auto]. }
  rewrite G. simpl. tauto.
Qed.

(* the inputs of unify as LockImageConfiguration builds them *)
Definition inputs_of (archs : list (string * list rpkg)) : list resolved :=
  List.map (fun ap => resolved_of (fst ap) (snd ap)) archs.
Lemma inputs_of_archs archs : List.map r_arch (inputs_of archs) = List.map fst archs.
Proof. unfold inputs_of. rewrite map_map. apply map_ext. intros [a l]. apply resolved_of_arch. Qed.
Lemma inputs_of_wf archs : Forall wf_full (inputs_of archs).
Proof. apply Forall_forall. intros r Hr. apply in_map_iff in Hr. destruct Hr as [[a l] [<- _]]. apply resolved_of_wf. Qed.
Lemma inputs_of_wf_resolved archs : Forall wf_resolved (inputs_of archs).
Proof. eapply Forall_impl; [|apply inputs_of_wf]. intros r W. exact (wff_keys r W). Qed.

(* ================= (2) the order of the architectures ====================================== *)
(* [p] is resolved on every architecture, to one and the same version *)
Definition common (inputs : list resolved) (p : string) : Prop :=
  forall r r', In r inputs -> In r' inputs ->
    In p (r_packages r) /\ vget p (r_versions r) = vget p (r_versions r').

Lemma common_cons r0 rest p :
  (In p (r_packages r0) /\ forall r, In r rest -> agrees r0 r p) <-> common (r0 :: rest) p.
Proof.
  split.
  - intros [H0 H] r r' Hr Hr'.
    assert (A : forall x, In x (r0 :: rest) -> In p (r_packages x) /\ vget p (r_versions x) = vget p (r_versions r0)).
    { intros x [<-|Hx]; [split; [exact H0 | reflexivity] | exact (H x Hx)]. }
    destruct (A r Hr) as [A1 A2]. destruct (A r' Hr') as [_ B2]. split; [exact A1 | congruence].
  - intro C. split; [exact (proj1 (C r0 r0 (or_introl eq_refl) (or_introl eq_refl)))|].
    intros r Hr. exact (C r r0 (or_intror Hr) (or_introl eq_refl)).
Qed.
Lemma common_perm l l' p : Permutation l l' -> common l p -> common l' p.
Proof.
  intros P C r r' Hr Hr'. apply C; eapply Permutation_in; try eassumption; apply Permutation_sym; exact P.
Qed.

(* the accumulator only ever loses packages *)
Lemma NoDup_filter' {A} (f : A -> bool) l : NoDup l -> NoDup (filter f l).
Proof.
  induction l as [|x l IH]; intro ND; simpl; [constructor|]. inversion ND as [|? ? Nin ND']; subst.
  destruct (f x); [constructor; [intro H; apply filter_In in H; tauto | apply IH; exact ND'] | apply IH; exact ND'].
Qed.
Lemma step_pkg_nodup next a x : NoDup (a_packages a) -> NoDup (a_packages (step_pkg next a x)).
Proof. intro ND. rewrite step_pkg_eq. simpl. destruct (pkg_del next a x); [apply NoDup_filter'; exact ND | exact ND]. Qed.
Lemma step_arch_nodup o a next : NoDup (a_packages a) -> NoDup (a_packages (step_arch o a next)).
Proof.
  intro ND. unfold step_arch. destruct (_ && _); [exact ND|]. cbv zeta.
  assert (G : forall l b, NoDup (a_packages b) -> NoDup (a_packages (fold_left (step_pkg next) l b))).
  { induction l as [|x l IH]; intros b Hb; [exact Hb|]. simpl. apply IH. apply step_pkg_nodup. exact Hb. }
  apply G. simpl. apply NoDup_filter'. exact ND.
Qed.
Lemma steps_nodup ord : forall rest i a, NoDup (a_packages a) -> NoDup (a_packages (steps ord i a rest)).
Proof. induction rest as [|next rest IH]; intros i a ND; simpl; [exact ND | apply IH; apply step_arch_nodup; exact ND]. Qed.

(* the packages that are left, and their versions *)
Lemma final_packages ord r0 rest : perm_ord ord -> Forall wf_resolved (r0 :: rest) ->
  let a := steps ord 0 (init_acc r0) rest in
  (forall p, In p (a_packages a) <-> common (r0 :: rest) p) /\
  (forall p, In p (a_packages a) -> vget p (a_versions a) = vget p (r_versions r0)).
Proof.
  intros Ho W. inversion W as [|? ? W0 Wr]; subst.
  pose proof (steps_inv r0 ord Ho rest [] 0 (init_acc r0) Wr (init_inv r0 W0)) as [Is Ic]. simpl in Is, Ic.
  cbv zeta. split.
  - intro p. rewrite <- common_cons. split.
    + intro Hp. destruct (Is p Hp) as (H0 & _ & _ & Hd). split; assumption.
    + intros [H0 Hd]. apply Ic; assumption.
  - intros p Hp. exact (proj1 (proj2 (Is p Hp))).
Qed.

Lemma sdiff_ext a b b' : (forall x, In x b <-> In x b') -> sdiff a b = sdiff a b'.
Proof.
  intro H. unfold sdiff. apply filter_ext. intro x. f_equal.
  destruct (smem x b) eqn:E, (smem x b') eqn:E'; try reflexivity.
  - apply smem_In in E. apply H in E. apply smem_In in E. congruence.
  - apply smem_In in E'. apply H in E'. apply smem_In in E'. congruence.
Qed.
Lemma sdiff_nil_r a : sdiff a [] = a.
Proof. unfold sdiff. apply filter_true_id. reflexivity. Qed.

Lemma fold_left_ext {A B} (f g : A -> B -> A) : (forall a b, f a b = g a b) -> forall l a, fold_left f l a = fold_left g l a.
Proof. intros E. induction l as [|x l IH]; intro a; simpl; [reflexivity | rewrite E; apply IH]. Qed.

(* the two maps of a successful call *)
Definition arch_missing (apk : list string) (r : resolved) : list string := sdiff (r_packages r) apk.
Lemma unify_ok_shape2 ord ordp o0 os r0 rest bya mba :
  unify ord ordp (o0 :: os) (r0 :: rest) = Ok (bya, mba) ->
  let a := steps ord 0 (init_acc r0) rest in
  mba = fold_left (fun m r => match arch_missing (a_packages a) r with
                              | [] => m
                              | l => mset (r_arch r) (sort_strings l) m
                              end) (r0 :: rest) [].
Proof.
  unfold unify. cbv zeta.
  destruct (match sdiff _ _ with [] => [] | _ :: _ => _ end); [|discriminate].
  intro H. apply (f_equal (fun r : res (bymap * bymap) => match r with Ok (_, m) => m | _ => [] end)) in H.
  cbv beta iota in H. rewrite <- H. apply fold_left_ext. intros m r. unfold arch_missing. rewrite sdiff_nil_r. reflexivity.
Qed.

Section FoldCond.
  Context {R V : Type} (key : R -> string) (val : R -> option V).
  Let step (m : list (string * V)) (r : R) := match val r with None => m | Some v => mset (key r) v m end.
  Lemma fold_cond_notin l : forall m k, ~ In k (List.map key l) -> alookup k (fold_left step l m) = alookup k m.
  Proof.
    induction l as [|x l IH]; intros m k H; simpl; [reflexivity|].
    rewrite IH; [|intro F; apply H; right; exact F]. unfold step. destruct (val x); [|reflexivity].
    apply alookup_mset_other. intro E. apply H. left. exact E.
  Qed.
  Lemma fold_cond_in l : forall m r, NoDup (List.map key l) -> In r l ->
    alookup (key r) (fold_left step l m) = match val r with Some v => Some v | None => alookup (key r) m end.
  Proof.
    induction l as [|x l IH]; intros m r ND Hr; simpl; [contradiction|].
    inversion ND as [|? ? Nin ND']; subst. destruct Hr as [->|Hr].
    - rewrite fold_cond_notin by exact Nin. unfold step. destruct (val r); [apply alookup_mset_same | reflexivity].
    - rewrite (IH _ r ND' Hr). destruct (val r); [reflexivity|]. unfold step. destruct (val x); [|reflexivity].
      apply alookup_mset_other. intro E. apply Nin. rewrite E. apply in_map. exact Hr.
  Qed.
End FoldCond.

Definition missing_val (apk : list string) (r : resolved) : option (list string) :=
  match arch_missing apk r with [] => None | l => Some (sort_strings l) end.
Lemma missing_fold_eq apk l m :
  fold_left (fun m r => match arch_missing apk r with [] => m | l => mset (r_arch r) (sort_strings l) m end) l m =
  fold_left (fun m r => match missing_val apk r with None => m | Some v => mset (r_arch r) v m end) l m.
Proof. apply fold_left_ext. intros m0 r. unfold missing_val. destruct (arch_missing apk r); reflexivity. Qed.

Lemma entries_perm (f f' : string -> string) l l' :
  NoDup l -> NoDup l' -> (forall x, In x l <-> In x l') -> (forall x, In x l -> f x = f' x) ->
  Permutation (List.map f l) (List.map f' l').
Proof.
  intros ND ND' H E. rewrite (map_ext_in f f' l E). apply Permutation_map. apply NoDup_Permutation; assumption.
Qed.

(* when two orders of the same inputs both succeed, the results are equal as Go maps *)
Theorem unify_arch_order_lists_equal ord ordp ord' ordp' originals inputs inputs' bya mba bya' mba' :
  perm_ord ord -> perm_ord ord' -> originals <> [] -> Permutation inputs inputs' ->
  Forall wf_resolved inputs -> Forall (fun r => NoDup (r_packages r)) inputs ->
  NoDup (List.map r_arch inputs) -> ~ In unify_index_key (List.map r_arch inputs) ->
  unify ord ordp originals inputs = Ok (bya, mba) ->
  unify ord' ordp' originals inputs' = Ok (bya', mba') ->
  forall k, alookup k bya = alookup k bya' /\ alookup k mba = alookup k mba'.
Proof.
  intros Ho Ho' Hne P W NDp ND Nidx H H' k.
  destruct originals as [|o0 os]; [congruence|].
  destruct inputs as [|r0 rest]; [simpl in H; discriminate|].
  destruct inputs' as [|r0' rest']; [simpl in H'; discriminate|].
  assert (W' : Forall wf_resolved (r0' :: rest')) by (eapply Permutation_Forall; eassumption).
  assert (ND' : NoDup (List.map r_arch (r0' :: rest'))) by (eapply Permutation_NoDup; [apply Permutation_map; exact P | exact ND]).
  assert (Nidx' : ~ In unify_index_key (List.map r_arch (r0' :: rest'))).
  { intro F. apply Nidx. eapply Permutation_in; [apply Permutation_sym, Permutation_map; exact P | exact F]. }
  pose proof (unify_ok_shape _ _ _ _ _ _ _ _ H) as Eb. pose proof (unify_ok_shape _ _ _ _ _ _ _ _ H') as Eb'.
  pose proof (unify_ok_shape2 _ _ _ _ _ _ _ _ H) as Em. pose proof (unify_ok_shape2 _ _ _ _ _ _ _ _ H') as Em'.
  cbv zeta in Eb, Eb', Em, Em'.
  destruct (final_packages ord r0 rest Ho W) as [Fm Fv]. destruct (final_packages ord' r0' rest' Ho' W') as [Fm' Fv']. cbv zeta in Fm, Fv, Fm', Fv'.
  set (a := steps ord 0 (init_acc r0) rest) in *. set (a' := steps ord' 0 (init_acc r0') rest') in *.
  set (o := parse_originals (o0 :: os)) in *.
  assert (Same : forall p, In p (a_packages a) <-> In p (a_packages a')).
  { intro p. rewrite Fm, Fm'. split; apply common_perm; [exact P | apply Permutation_sym; exact P]. }
  assert (NDa : NoDup (a_packages a)).
  { apply steps_nodup. simpl. inversion NDp; assumption. }
  assert (NDa' : NoDup (a_packages a')).
  { apply steps_nodup. simpl. assert (Q : Forall (fun r => NoDup (r_packages r)) (r0' :: rest')) by (eapply Permutation_Forall; eassumption).
    inversion Q; assumption. }
  assert (In0' : In r0' (r0 :: rest)) by (eapply Permutation_in; [apply Permutation_sym; exact P | left; reflexivity]).
  split.
  - (* the lock map *)
    destruct (in_dec string_dec k (List.map r_arch (r0 :: rest))) as [Hk|Hk].
    + apply in_map_iff in Hk. destruct Hk as [r [<- Hr]].
      rewrite (unify_per_arch_exact _ _ _ _ _ _ Hne ND Nidx H r Hr).
      rewrite (unify_per_arch_exact _ _ _ _ _ _ Hne ND' Nidx' H' r (Permutation_in _ P Hr)). reflexivity.
    + assert (Hk' : ~ In k (List.map r_arch (r0' :: rest'))).
      { intro F. apply Hk. eapply Permutation_in; [apply Permutation_sym, Permutation_map; exact P | exact F]. }
      rewrite Eb, Eb'. rewrite (fold_mset_notin r_arch _ (r0 :: rest) _ k Hk), (fold_mset_notin r_arch _ (r0' :: rest') _ k Hk').
      cbn [alookup]. destruct (String.eqb k unify_index_key); [|reflexivity]. f_equal.
      apply sorted_strings_unique; [apply sort_strings_sorted | apply sort_strings_sorted |].
      rewrite <- (sort_strings_perm _), <- (sort_strings_perm _).
      apply entries_perm; [exact NDa | exact NDa' | exact Same |].
      intros n Hn. rewrite (proj1 (entry_is_lock_entry (a_versions a) o n)), (proj1 (entry_is_lock_entry (a_versions a') o n)).
      unfold lock_entry. rewrite (Fv n Hn), (Fv' n (proj1 (Same n) Hn)).
      apply Fm in Hn. destruct (Hn r0 r0' (or_introl eq_refl) In0') as [_ E]. rewrite E. reflexivity.
  - (* the missing map *)
    rewrite Em, Em', !missing_fold_eq.
    destruct (in_dec string_dec k (List.map r_arch (r0 :: rest))) as [Hk|Hk].
    + apply in_map_iff in Hk. destruct Hk as [r [<- Hr]].
      rewrite (fold_cond_in r_arch (missing_val (a_packages a)) (r0 :: rest) [] r ND Hr).
      rewrite (fold_cond_in r_arch (missing_val (a_packages a')) (r0' :: rest') [] r ND' (Permutation_in _ P Hr)).
      unfold missing_val, arch_missing. rewrite (sdiff_ext (r_packages r) _ _ Same). reflexivity.
    + assert (Hk' : ~ In k (List.map r_arch (r0' :: rest'))).
      { intro F. apply Hk. eapply Permutation_in; [apply Permutation_sym, Permutation_map; exact P | exact F]. }
      rewrite (fold_cond_notin r_arch _ (r0 :: rest) [] k Hk), (fold_cond_notin r_arch _ (r0' :: rest') [] k Hk'). reflexivity.
Qed.

(* ---- whether there is a result at all: the provides of the requested names ------------------- *)
Definition slotset (a : acc) (p : string) : list string :=
  match sget p (a_slots a) with Some s => s | None => [] end.

(* the architectures agree on who provides the names in [N] *)
Definition agree_on (N : list string) (inputs : list resolved) : Prop :=
  forall n r r' p, In n N -> In r inputs -> In r' inputs ->
    (In n (pget p (r_provided r)) <-> In n (pget p (r_provided r'))).
Definition provided_listed (r : resolved) : Prop := incl (akeys (r_provided r)) (r_packages r).

Lemma supd_keys k o sl : List.map fst (supd k o sl) = List.map fst sl.
Proof. unfold supd. rewrite map_map. apply map_ext. intros [k' v]. simpl. destruct (String.eqb k k'); reflexivity. Qed.
Lemma sget_supd_same x o sl : In x (List.map fst sl) -> sget x (supd x o sl) = o.
Proof.
  unfold sget. induction sl as [|[k v] sl IH]; simpl; [intros []|].
  destruct (String.eqb_spec x k) as [->|Hne]; simpl.
  - rewrite String.eqb_refl. reflexivity.
  - intros [E|H]; [congruence|]. destruct (String.eqb_spec x k); [congruence|]. apply IH. exact H.
Qed.
Lemma step_pkg_keys next a x : List.map fst (a_slots (step_pkg next a x)) = List.map fst (a_slots a).
Proof. rewrite step_pkg_eq. simpl. apply supd_keys. Qed.
Lemma step_arch_keys o a next : List.map fst (a_slots (step_arch o a next)) = List.map fst (a_slots a).
Proof.
  unfold step_arch. destruct (_ && _); [reflexivity|]. cbv zeta.
  assert (G : forall l b, List.map fst (a_slots (fold_left (step_pkg next) l b)) = List.map fst (a_slots b)).
  { induction l as [|x l IH]; intros b; [reflexivity|]. simpl. rewrite IH. apply step_pkg_keys. }
  rewrite G. reflexivity.
Qed.

Lemma sinter_In x a b : In x (sinter a b) <-> In x a /\ In x b.
Proof. unfold sinter. rewrite filter_In, smem_In. tauto. Qed.
Lemma pget_not_listed r p : provided_listed r -> ~ In p (r_packages r) -> pget p (r_provided r) = [].
Proof.
  intros PL H. unfold pget. destruct (alookup p (r_provided r)) eqn:E; [|reflexivity].
  exfalso. apply H. apply PL. eapply alookup_some_in_keys. exact E.
Qed.

Section Provides.
  Variable N : list string.
  Variable r0 : resolved.

  Record pinv (a : acc) : Prop := {
    pi_slots : forall p n, In n N -> (In n (slotset a p) <-> In n (pget p (r_provided r0)) /\ In p (a_packages a));
    pi_keys : incl (a_packages a) (List.map fst (a_slots a))
  }.

  Lemma step_pkg_pinv next a x :
    (forall n p, In n N -> (In n (pget p (r_provided r0)) <-> In n (pget p (r_provided next)))) ->
    In x (List.map fst (a_slots a)) -> pinv a -> pinv (step_pkg next a x).
  Proof.
    intros Ag Hx [J K]. split.
    2:{ intros p Hp. rewrite step_pkg_keys. apply K. apply step_pkg_packages in Hp. tauto. }
    intros p n Hn. rewrite step_pkg_packages. unfold slotset. rewrite step_pkg_eq. cbn [a_slots].
    destruct (String.eqb_spec p x) as [->|Hne].
    - rewrite (sget_supd_same x _ _ Hx). unfold pkg_cur. destruct (pkg_del next a x) eqn:D.
      + assert (E : match (if sequal [] (pget x (r_provided next)) then None else Some (sinter [] (pget x (r_provided next)))) with
                    | Some s => s | None => [] end = []) by (destruct (sequal _ _); reflexivity).
        rewrite E. split; [intros [] | intros [_ [_ F]]; specialize (F eq_refl); discriminate].
      + specialize (J x n Hn). unfold slotset in J.
        destruct (sequal _ _).
        * rewrite J. tauto.
        * cbn [sinter]. rewrite sinter_In, J, <- (Ag n x Hn). tauto.
    - rewrite (sget_supd_other x p _ _ (not_eq_sym Hne)). specialize (J p n Hn). unfold slotset in J. rewrite J. tauto.
  Qed.

  Lemma step_arch_pinv o a next :
    (forall l, Permutation (o l) l) -> provided_listed next ->
    (forall n p, In n N -> (In n (pget p (r_provided r0)) <-> In n (pget p (r_provided next)))) ->
    pinv a -> pinv (step_arch o a next).
  Proof.
    intros Ho PL Ag I. unfold step_arch. destruct (_ && _); [exact I|]. cbv zeta.
    set (a1 := {| a_packages := sdiff (a_packages a) (sdiff (a_packages a) (r_packages next));
                  a_versions := a_versions a; a_slots := a_slots a |}).
    assert (H1 : forall p, In p (a_packages a1) <-> In p (a_packages a) /\ In p (r_packages next)).
    { intro p. simpl. unfold sdiff. rewrite !filter_In. split.
      - intros [Hp Hn]. split; [exact Hp|]. apply negb_true_iff, smem_false in Hn.
        destruct (in_dec string_dec p (r_packages next)) as [Q|Q]; [exact Q|].
        exfalso. apply Hn. apply filter_In. split; [exact Hp|]. apply negb_true_iff, smem_false. exact Q.
      - intros [Hp Hn]. split; [exact Hp|]. apply negb_true_iff, smem_false. intro F.
        apply filter_In in F. destruct F as [_ F]. apply negb_true_iff, smem_false in F. contradiction. }
    assert (I1 : pinv a1).
    { destruct I as [J K]. split.
      - intros p n Hn. change (slotset a1 p) with (slotset a p). rewrite (J p n Hn), H1.
        split; [|tauto]. intros [A B]. split; [exact A|]. split; [exact B|].
        destruct (in_dec string_dec p (r_packages next)) as [Q|Q]; [exact Q|].
        exfalso. apply (Ag n p Hn) in A. rewrite (pget_not_listed next p PL Q) in A. contradiction.
      - intros p Hp. apply K. apply H1 in Hp. tauto. }
    assert (G : forall l b, (forall x, In x l -> In x (List.map fst (a_slots b))) -> pinv b -> pinv (fold_left (step_pkg next) l b)).
    { induction l as [|x l IH]; intros b Hl Ib; [exact Ib|]. simpl. apply IH.
      - intros y Hy. rewrite step_pkg_keys. apply Hl. right. exact Hy.
      - apply step_pkg_pinv; [exact Ag | apply Hl; left; reflexivity | exact Ib]. }
    apply G; [|exact I1]. intros x Hx. apply (pi_keys a1 I1). eapply Permutation_in; [apply Ho | exact Hx].
  Qed.

  Lemma steps_pinv ord : perm_ord ord -> forall rest i a,
    Forall provided_listed rest ->
    (forall next n p, In next rest -> In n N -> (In n (pget p (r_provided r0)) <-> In n (pget p (r_provided next)))) ->
    pinv a -> pinv (steps ord i a rest).
  Proof.
    intro Ho. induction rest as [|next rest IH]; intros i a PL Ag I; simpl; [exact I|].
    inversion PL; subst. apply IH; [assumption | intros nx n p Hnx; apply Ag; right; exact Hnx|].
    apply step_arch_pinv; [apply Ho | assumption | intros n p; apply Ag; left; reflexivity | exact I].
  Qed.
End Provides.

Lemma init_pinv N r0 : provided_listed r0 -> pinv N r0 (init_acc r0).
Proof.
  intro PL. split.
  - intros p n _. unfold slotset, init_acc, sget. cbn [a_slots a_packages].
    set (K := nodup string_dec (r_packages r0 ++ akeys (r_provided r0))).
    assert (E : alookup p (List.map (fun k => (k, alookup k (r_provided r0))) K) =
                if in_dec string_dec p K then Some (alookup p (r_provided r0)) else None).
    { induction K as [|k K IH]; [reflexivity|]. cbn [List.map alookup]. destruct (String.eqb_spec p k) as [->|Hne].
      - destruct (in_dec string_dec k (k :: K)) as [_|F]; [reflexivity | exfalso; apply F; left; reflexivity].
      - rewrite IH. destruct (in_dec string_dec p K) as [Q|Q], (in_dec string_dec p (k :: K)) as [Q'|Q']; try reflexivity.
        + exfalso. apply Q'. right. exact Q.
        + destruct Q' as [Q'|Q']; [congruence | contradiction]. }
    rewrite E. destruct (in_dec string_dec p K) as [Q|Q].
    + unfold pget. destruct (alookup p (r_provided r0)) as [s|] eqn:Es.
      * split; [|tauto]. intro Hs. split; [exact Hs|]. apply PL. eapply alookup_some_in_keys. exact Es.
      * split; [intros [] | intros [[] _]].
    + split; [intros []|]. intros [_ Hp]. exfalso. apply Q. apply nodup_In. apply in_or_app. left. exact Hp.
  - intros p Hp. unfold init_acc. cbn [a_slots a_packages]. rewrite map_map. cbn [fst]. rewrite map_id.
    apply nodup_In. apply in_or_app. left. exact Hp.
Qed.

(* the elision, read off the slots *)
Lemma present_covered sl x : NoDup (List.map fst sl) ->
  (existsb (fun p => smem x p) (List.map snd (present sl)) = true <-> exists p s, sget p sl = Some s /\ In x s).
Proof.
  intro ND. rewrite existsb_exists. split.
  - intros (s & Hs & Hx). apply smem_In in Hx. apply in_map_iff in Hs. destruct Hs as ([k s'] & E & Hin). simpl in E. subst s'.
    unfold present in Hin. apply in_flat_map in Hin. destruct Hin as ([k' o] & Hkv & Hin). simpl in Hin.
    destruct o as [s0|]; [|contradiction]. destruct Hin as [E|[]]. inversion E; subst.
    exists k, s. split; [|exact Hx]. unfold sget. rewrite (in_alookup_nodup k (Some s) sl ND Hkv). reflexivity.
  - intros (p & s & E & Hx). exists s. split; [|apply smem_In; exact Hx].
    unfold sget in E. destruct (alookup p sl) as [o|] eqn:Ea; [|discriminate]. subst o.
    apply alookup_in in Ea. apply in_map_iff. exists (p, s). split; [reflexivity|].
    unfold present. apply in_flat_map. exists (p, Some s). split; [exact Ea | left; reflexivity].
Qed.

Lemma unify_result_shape ord ordp o0 os r0 rest : perm_ordp ordp ->
  let o := parse_originals (o0 :: os) in
  let a := steps ord 0 (init_acc r0) rest in
  let missing := elide_spec (List.map snd (present (a_slots a))) (sdiff (o_packages o) (a_packages a)) in
  (missing <> [] -> unify ord ordp (o0 :: os) (r0 :: rest) = Err) /\
  (missing = [] -> exists ok, unify ord ordp (o0 :: os) (r0 :: rest) = Ok ok).
Proof.
  intros Hp. cbv zeta. unfold unify.
  set (a := steps ord 0 (init_acc r0) rest). set (m0 := sdiff (o_packages (parse_originals (o0 :: os))) (a_packages a)).
  assert (E : match m0 with [] => [] | _ :: _ => elide (ordp (List.map snd (present (a_slots a)))) m0 end =
              elide_spec (List.map snd (present (a_slots a))) m0).
  { rewrite <- elide_is_spec, (elide_perm _ _ m0 (Hp _)). destruct m0; [|reflexivity].
    rewrite elide_is_spec. reflexivity. }
  rewrite E. destruct (elide_spec _ m0); split; try congruence; intros _; eexists; reflexivity.
Qed.

Theorem unify_arch_order_error_iff ord ordp ord' ordp' originals inputs inputs' :
  perm_ord ord -> perm_ord ord' -> perm_ordp ordp -> perm_ordp ordp' ->
  Permutation inputs inputs' -> Forall wf_resolved inputs -> Forall provided_listed inputs ->
  agree_on (o_packages (parse_originals originals)) inputs ->
  (unify ord ordp originals inputs = Err <-> unify ord' ordp' originals inputs' = Err).
Proof.
  intros Ho Ho' Hp Hp' P W PL Ag.
  destruct originals as [|o0 os]; [simpl; split; discriminate|].
  destruct inputs as [|r0 rest]; [apply Permutation_nil in P; subst; simpl; split; discriminate|].
  destruct inputs' as [|r0' rest']; [apply Permutation_sym, Permutation_nil in P; discriminate|].
  assert (W' : Forall wf_resolved (r0' :: rest')) by (eapply Permutation_Forall; eassumption).
  assert (PL' : Forall provided_listed (r0' :: rest')) by (eapply Permutation_Forall; eassumption).
  assert (Ag' : agree_on (o_packages (parse_originals (o0 :: os))) (r0' :: rest')).
  { intros n r r' p Hn Hr Hr'. apply Ag; [exact Hn | |]; eapply Permutation_in; try eassumption; apply Permutation_sym; exact P. }
  destruct (final_packages ord r0 rest Ho W) as [Fm _]. destruct (final_packages ord' r0' rest' Ho' W') as [Fm' _]. cbv zeta in Fm, Fm'.
  destruct (unify_result_shape ord ordp o0 os r0 rest Hp) as [E1 E2].
  destruct (unify_result_shape ord' ordp' o0 os r0' rest' Hp') as [E1' E2']. cbv zeta in E1, E2, E1', E2'.
  set (N := o_packages (parse_originals (o0 :: os))) in *.
  set (a := steps ord 0 (init_acc r0) rest) in *. set (a' := steps ord' 0 (init_acc r0') rest') in *.
  assert (Same : forall p, In p (a_packages a) <-> In p (a_packages a')).
  { intro p. rewrite Fm, Fm'. split; apply common_perm; [exact P | apply Permutation_sym; exact P]. }
  assert (In0' : In r0' (r0 :: rest)) by (eapply Permutation_in; [apply Permutation_sym; exact P | left; reflexivity]).
  assert (I : pinv N r0 a).
  { inversion PL; subst. apply steps_pinv; [exact Ho | assumption | | apply init_pinv; assumption].
    intros nx n p Hnx Hn. apply Ag; [exact Hn | left; reflexivity | right; exact Hnx]. }
  assert (I' : pinv N r0' a').
  { inversion PL'; subst. apply steps_pinv; [exact Ho' | assumption | | apply init_pinv; assumption].
    intros nx n p Hnx Hn. apply Ag'; [exact Hn | left; reflexivity | right; exact Hnx]. }
  assert (KD : forall ordx r (l : list resolved), NoDup (List.map fst (a_slots (steps ordx 0 (init_acc r) l)))).
  { intros ordx r l.
    assert (G : forall l i b, List.map fst (a_slots (steps ordx i b l)) = List.map fst (a_slots b)).
    { induction l0 as [|nx l0 IH]; intros i b; [reflexivity|]. simpl. rewrite IH. apply step_arch_keys. }
    rewrite G. unfold init_acc. cbn [a_slots]. rewrite map_map. cbn [fst]. rewrite map_id. apply NoDup_nodup. }
  assert (EM : elide_spec (List.map snd (present (a_slots a))) (sdiff N (a_packages a)) =
               elide_spec (List.map snd (present (a_slots a'))) (sdiff N (a_packages a'))).
  { rewrite (sdiff_ext N _ _ Same). unfold elide_spec. apply filter_ext_in. intros x Hx.
    assert (HxN : In x N) by (unfold sdiff in Hx; apply filter_In in Hx; tauto).
    f_equal.
    assert (C : forall (b : acc) r, pinv N r b -> NoDup (List.map fst (a_slots b)) ->
                (existsb (fun p => smem x p) (List.map snd (present (a_slots b))) = true <->
                 exists p, In x (pget p (r_provided r)) /\ In p (a_packages b))).
    { intros b r [J _] NDk. rewrite (present_covered _ x NDk). split.
      - intros (p & s & Es & Hs). exists p. apply (J p x HxN). unfold slotset. rewrite Es. exact Hs.
      - intros (p & Hpr). apply (J p x HxN) in Hpr. unfold slotset in Hpr. destruct (sget p (a_slots b)) as [s|] eqn:Es; [|contradiction].
        exists p, s. split; [exact Es | exact Hpr]. }
    pose proof (C a r0 I (KD ord r0 rest)) as Ca. pose proof (C a' r0' I' (KD ord' r0' rest')) as Ca'.
    destruct (existsb _ (List.map snd (present (a_slots a)))) eqn:Ea, (existsb _ (List.map snd (present (a_slots a')))) eqn:Ea'; try reflexivity; exfalso.
    - destruct (proj1 Ca eq_refl) as (p & Hp1 & Hp2).
      assert (false = true); [|discriminate]. apply Ca'. exists p. split; [|apply Same; exact Hp2].
      apply (Ag x r0 r0' p HxN (or_introl eq_refl) In0'). exact Hp1.
    - destruct (proj1 Ca' eq_refl) as (p & Hp1 & Hp2).
      assert (false = true); [|discriminate]. apply Ca. exists p. split; [|apply Same; exact Hp2].
      apply (Ag x r0 r0' p HxN (or_introl eq_refl) In0'). exact Hp1. }
  rewrite EM in E1, E2.
  destruct (elide_spec (List.map snd (present (a_slots a'))) (sdiff N (a_packages a'))) as [|m ms].
  - destruct (E2 eq_refl) as [ok Eo]. destruct (E2' eq_refl) as [ok' Eo']. rewrite Eo, Eo'. split; discriminate.
  - rewrite E1, E1' by discriminate. tauto.
Qed.

(* ================= (3) LockImageConfiguration visits the architectures in sorted order ============ *)
From Apko Require Import Model.LockArchOrder.

Lemma archs_sorted_today : lock_archs_order = "sorted".
Proof. reflexivity. Qed.

(* the result is a function of the SET of per-architecture resolutions: whatever
   order the map range delivers them in, whatever the set iteration orders *)
Theorem lock_image_configuration_deterministic ord ordp ord' ordp' originals delivered delivered' :
  perm_ord ord -> perm_ord ord' -> perm_ordp ordp -> perm_ordp ordp' ->
  NoDup (List.map fst delivered) -> Permutation delivered delivered' ->
  lock_image_configuration_now ord ordp originals delivered =
  lock_image_configuration_now ord' ordp' originals delivered'.
Proof.
  intros Ho Ho' Hp Hp' ND P. unfold lock_image_configuration_now, visit_order. rewrite archs_sorted_today. cbn [String.eqb Ascii.eqb Bool.eqb].
  unfold sort_archs, lock_image_configuration.
  rewrite (isort_unique_of_perm fst delivered delivered'); [apply unify_order_independent; assumption | | exact P].
  intros x y Hx Hy E. destruct x as [a l], y as [a' l']. simpl in E. subst a'.
  f_equal. clear -ND Hx Hy. induction delivered as [|[k v] d IH]; [contradiction|].
  simpl in ND. inversion ND as [|? ? Nin ND']; subst.
  destruct Hx as [Hx|Hx], Hy as [Hy|Hy].
  - congruence.
  - inversion Hx; subst. exfalso. apply Nin. apply in_map_iff. exists (a, l'). auto.
  - inversion Hy; subst. exfalso. apply Nin. apply in_map_iff. exists (a, l). auto.
  - apply IH; assumption.
Qed.

(* and it is the result of unify on well-formed inputs with distinct
   architectures: the unify theorems apply to every real call *)
Lemma visit_order_perm d : Permutation (visit_order d) d.
Proof. unfold visit_order. destruct (String.eqb _ _); [apply Permutation_sym, isort_perm | reflexivity]. Qed.

Theorem lock_image_configuration_inputs ord ordp originals delivered :
  NoDup (List.map fst delivered) -> ~ In unify_index_key (List.map fst delivered) ->
  lock_image_configuration_now ord ordp originals delivered = unify ord ordp originals (inputs_of (visit_order delivered)) /\
  Forall wf_full (inputs_of (visit_order delivered)) /\
  NoDup (List.map r_arch (inputs_of (visit_order delivered))) /\
  ~ In unify_index_key (List.map r_arch (inputs_of (visit_order delivered))).
Proof.
  intros ND Nidx. split; [reflexivity|]. split; [apply inputs_of_wf|]. rewrite inputs_of_archs.
  pose proof (Permutation_map fst (visit_order_perm delivered)) as P. split.
  - eapply Permutation_NoDup; [apply Permutation_sym; exact P | exact ND].
  - intro F. apply Nidx. eapply Permutation_in; [exact P | exact F].
Qed.
