(* C14 proofs about the wiring model (Model/MultiArch.v): the ByArch map loses no
   sibling when the keys are distinct, the set a wired resolution starts from is
   exactly "some sibling lacks this name+version", whatever the iteration order;
   members without install_if are available everywhere; the disqualification
   cache is transparent for equal groupings. *)
From Coq Require Import Permutation.
From Apko Require Import Base.Prelude Generated.C14Wiring Model.Version Model.Resolver Model.MultiArch Spec.ResolveSpec
  Proofs.ResolveProofs Proofs.ResolveProofs2 Proofs.C14Proofs.
Open Scope string_scope. Open Scope list_scope. Open Scope nat_scope.

(* ---- package objects ------------------------------------------------------------ *)
Lemma objs_of_index_length ix : List.length (objs_of_index ix) = List.length (ni_pkgs ix).
Proof. unfold objs_of_index. rewrite map_length, seq_length. reflexivity. Qed.

Lemma objs_of_length ixs : List.length (objs_of ixs) = List.length (flatten ixs).
Proof.
  unfold objs_of, flatten. induction ixs as [|ix t IH]; simpl; [reflexivity|].
  rewrite !app_length, IH, objs_of_index_length. reflexivity.
Qed.

Lemma objs_of_index_In ix o : In o (objs_of_index ix) <-> fst o = ni_id ix /\ snd o < List.length (ni_pkgs ix).
Proof.
  unfold objs_of_index. rewrite in_map_iff. split.
  - intros [i [<- H]]. apply in_seq in H. simpl. split; [reflexivity | lia].
  - intros [H1 H2]. exists (snd o). split; [destruct o; simpl in *; subst; reflexivity | apply in_seq; lia].
Qed.

Lemma objs_of_In ixs o : In o (objs_of ixs) -> In (fst o) (List.map ni_id ixs).
Proof.
  unfold objs_of. rewrite in_flat_map. intros [ix [Hix Ho]]. apply objs_of_index_In in Ho. destruct Ho as [-> _].
  apply in_map. exact Hix.
Qed.

Lemma objs_of_index_nodup ix : NoDup (objs_of_index ix).
Proof.
  unfold objs_of_index. apply FinFun.Injective_map_NoDup; [|apply seq_NoDup].
  intros a b E. inversion E. reflexivity.
Qed.

Lemma objs_of_nodup ixs : NoDup (List.map ni_id ixs) -> NoDup (objs_of ixs).
Proof.
  unfold objs_of. induction ixs as [|ix t IH]; simpl; intros H; [constructor|].
  inversion H as [|? ? Hn Ht]; subst.
  assert (A : forall l1 l2 : list obj, NoDup l1 -> NoDup l2 -> (forall x, In x l1 -> ~ In x l2) -> NoDup (l1 ++ l2)).
  { induction l1 as [|a l1 IH1]; simpl; intros l2 N1 N2 D; [exact N2|].
    inversion N1; subst. constructor.
    - intro Hc. apply in_app_or in Hc. destruct Hc as [Hc|Hc]; [contradiction | exact (D a (or_introl eq_refl) Hc)].
    - apply IH1; auto. }
  apply A; [apply objs_of_index_nodup | apply IH; exact Ht |].
  intros o Ho Hc. apply objs_of_index_In in Ho. destruct Ho as [E _]. apply objs_of_In in Hc. rewrite E in Hc. contradiction.
Qed.

Lemma obj_at_In ixs i : i < List.length (flatten ixs) -> In (obj_at ixs i) (objs_of ixs).
Proof. intros H. unfold obj_at. apply nth_In. rewrite objs_of_length. exact H. Qed.

Lemma obj_eqb_eq a b : obj_eqb a b = true <-> a = b.
Proof.
  unfold obj_eqb. destruct a as [a1 a2], b as [b1 b2]; simpl. rewrite andb_true_iff, !Nat.eqb_eq.
  split; [intros [-> ->]; reflexivity | intros E; inversion E; auto].
Qed.

Lemma mem_obj_In o l : mem_obj o l = true <-> In o l.
Proof.
  unfold mem_obj. rewrite existsb_exists. split.
  - intros [x [Hx E]]. apply obj_eqb_eq in E. subst. exact Hx.
  - intros H. exists o. split; [exact H | apply obj_eqb_eq; reflexivity].
Qed.

(* ---- universes_of ------------------------------------------------------------------- *)
Lemma universes_of_In aa k U : In (k, U) (universes_of aa) <-> exists ixs, In (k, ixs) aa /\ U = flatten ixs.
Proof.
  unfold universes_of. rewrite in_map_iff. split.
  - intros [[k' ixs] [E H]]. simpl in E. inversion E; subst. exists ixs. auto.
  - intros [ixs [H ->]]. exists (k, ixs). auto.
Qed.

Lemma nodup_fst_unique {A B} (l : list (A * B)) k v v' :
  NoDup (List.map fst l) -> In (k, v) l -> In (k, v') l -> v = v'.
Proof.
  induction l as [|[a b] t IH]; simpl; intros N H H'; [contradiction|].
  inversion N as [|? ? Hn Ht]; subst.
  destruct H as [H|H], H' as [H'|H'].
  - congruence.
  - inversion H; subst. exfalso. apply Hn. apply (in_map fst) in H'. exact H'.
  - inversion H'; subst. exfalso. apply Hn. apply (in_map fst) in H. exact H.
  - apply IH; assumption.
Qed.

(* ---- the objects of the set ------------------------------------------------------------- *)
Lemma dq_objs_In aa o :
  In o (dq_objs aa) <-> exists k ixs i, In (k, ixs) aa /\ In i (dq_for (universes_of aa) k) /\ o = obj_at ixs i.
Proof.
  unfold dq_objs. rewrite in_flat_map. split.
  - intros [[k ixs] [H Ho]]. simpl in Ho. apply in_map_iff in Ho. destruct Ho as [i [<- Hi]]. exists k, ixs, i. auto.
  - intros [k [ixs [i [H [Hi ->]]]]]. exists (k, ixs). split; [exact H|]. simpl. apply in_map. exact Hi.
Qed.

Lemma dq_for_bound aa k ixs i : NoDup (List.map fst aa) -> In (k, ixs) aa ->
  In i (dq_for (universes_of aa) k) -> i < List.length (flatten ixs).
Proof.
  intros N H Hi. apply dq_for_spec in Hi. apply disqualify_difference_spec in Hi.
  destruct Hi as [_ [U [HU [Hlt _]]]]. apply universes_of_In in HU. destruct HU as [ixs' [H' ->]].
  rewrite (nodup_fst_unique aa k ixs ixs' N H H'). exact Hlt.
Qed.

(* a resolver built from [own], listed under key [k], whose objects no other
   architecture of the map shares: its part of the set is dq_for ... k *)
Lemma own_dq_spec own aa k :
  In (k, own) aa -> NoDup (List.map fst aa) -> NoDup (List.map ni_id own) ->
  (forall k' ixs ix, In (k', ixs) aa -> k' <> k -> In ix ixs -> ~ In (ni_id ix) (List.map ni_id own)) ->
  forall i, In i (own_dq own (dq_objs aa)) <-> In i (dq_for (universes_of aa) k).
Proof.
  intros Hk N Nid Sep i. unfold own_dq. rewrite filter_In, in_seq, mem_obj_In, dq_objs_In, objs_of_length. split.
  - intros [[_ Hlt] [k' [ixs [j [H [Hj E]]]]]]. simpl in Hlt.
    pose proof (dq_for_bound aa k' ixs j N H Hj) as Bj.
    destruct (string_dec k' k) as [->|Hne].
    + rewrite (nodup_fst_unique aa k ixs own N H Hk) in *.
      assert (i = j); [|subst; exact Hj].
      pose proof (objs_of_nodup own Nid) as ND. unfold obj_at in E.
      apply (proj1 (NoDup_nth (objs_of own) (0, 0)) ND); rewrite ?objs_of_length; assumption.
    + exfalso. pose proof (obj_at_In own i Hlt) as A. pose proof (obj_at_In ixs j Bj) as B.
      apply objs_of_In in A. apply objs_of_In in B. rewrite E in A.
      apply in_map_iff in B. destruct B as [ix [Eix Hix]]. apply (Sep k' ixs ix H Hne Hix). rewrite Eix. exact A.
  - intros Hi. pose proof (dq_for_bound aa k own i N Hk Hi) as B. split; [simpl; lia|].
    exists k, own, i. auto.
Qed.

(* ---- the ByArch map -------------------------------------------------------------------------- *)
Lemma aset_fresh {A} k (v : A) m : ~ In k (List.map fst m) -> aset k v m = m ++ [(k, v)].
Proof.
  induction m as [|[k' v'] t IH]; simpl; intros H; [reflexivity|].
  destruct (String.eqb k' k) eqn:E.
  - apply String.eqb_eq in E. subst. exfalso. apply H. left. reflexivity.
  - rewrite IH; [reflexivity|]. intro Hc. apply H. right. exact Hc.
Qed.

Lemma by_arch_fold order : forall m0,
  NoDup (List.map fst m0 ++ List.map byarch_key order) ->
  fold_left (fun m a => aset (byarch_key a) a m) order m0 = m0 ++ List.map (fun a => (byarch_key a, a)) order.
Proof.
  induction order as [|a t IH]; simpl; intros m0 N; [rewrite app_nil_r; reflexivity|].
  assert (F : ~ In (byarch_key a) (List.map fst m0)).
  { intro Hc. apply NoDup_remove_2 in N. apply N. apply in_or_app. left. exact Hc. }
  rewrite (aset_fresh _ _ _ F). rewrite IH.
  - rewrite <- app_assoc. reflexivity.
  - rewrite map_app. simpl. rewrite <- app_assoc. simpl.
    apply NoDup_remove_1 in N as N1. pose proof (NoDup_remove_2 _ _ _ N) as N2.
    (* move the key from the middle to its place *)
    clear IH F.
    revert N1 N2. generalize (List.map fst m0) (List.map byarch_key t) (byarch_key a). clear.
    intros l1 l2 x. induction l1 as [|y l1 IH]; simpl; intros N1 N2.
    + constructor; assumption.
    + inversion N1 as [|? ? Hy Hl]; subst. constructor.
      * intro Hc. apply in_app_or in Hc. destruct Hc as [Hc|[Hc|Hc]].
        -- apply Hy. apply in_or_app. left. exact Hc.
        -- subst. apply N2. left. reflexivity.
        -- apply Hy. apply in_or_app. right. exact Hc.
      * apply IH; [exact Hl|]. intro Hc. apply N2. right. exact Hc.
Qed.

(* distinct keys: the map is one entry per architecture, in the order visited *)
Lemma by_arch_of_distinct order : NoDup (List.map byarch_key order) ->
  by_arch_of order = List.map (fun a => (byarch_key a, a)) order.
Proof. intros N. unfold by_arch_of, by_arch_with. rewrite by_arch_fold; [reflexivity | exact N]. Qed.

Lemma nodup_map_inj {A B} (f : A -> B) l a b : NoDup (List.map f l) -> In a l -> In b l -> f a = f b -> a = b.
Proof.
  induction l as [|x t IH]; simpl; intros N Ha Hb E; [contradiction|].
  inversion N as [|? ? Hn Ht]; subst.
  destruct Ha as [Ha|Ha], Hb as [Hb|Hb]; subst.
  - reflexivity.
  - exfalso. apply Hn. rewrite E. apply in_map. exact Hb.
  - exfalso. apply Hn. rewrite <- E. apply in_map. exact Ha.
  - apply IH; assumption.
Qed.

(* no sibling is dropped *)
Lemma no_sibling_dropped order : NoDup (List.map byarch_key order) ->
  List.length (by_arch_of order) = List.length order /\
  (forall a, In a order -> alookup (byarch_key a) (by_arch_of order) = Some a) /\
  (forall k a, In (k, a) (by_arch_of order) -> In a order /\ k = byarch_key a).
Proof.
  intros N. rewrite (by_arch_of_distinct order N). split; [apply map_length|]. split.
  - intros a Ha. induction order as [|x t IH]; simpl in *; [contradiction|].
    inversion N as [|? ? Hn Ht]; subst. destruct (String.eqb (byarch_key x) (byarch_key a)) eqn:E.
    + apply String.eqb_eq in E. destruct Ha as [->|Ha]; [reflexivity|].
      exfalso. apply Hn. rewrite E. apply in_map. exact Ha.
    + destruct Ha as [->|Ha]; [rewrite String.eqb_refl in E; discriminate | apply IH; assumption].
  - intros k a H. apply in_map_iff in H. destruct H as [a' [E H]]. inversion E; subst. auto.
Qed.

(* the finite enumeration over types.AllArchs, as a boolean *)
Definition keys_distinct_b (l : list string) : bool :=
  forallb (fun a => forallb (fun b => negb (String.eqb (byarch_key a) (byarch_key b)) || String.eqb a b) l) l.

Lemma keys_distinct_b_spec l : keys_distinct_b l = true ->
  forall a b, In a l -> In b l -> byarch_key a = byarch_key b -> a = b.
Proof.
  unfold keys_distinct_b. intros H a b Ha Hb E. rewrite forallb_forall in H. specialize (H a Ha).
  rewrite forallb_forall in H. specialize (H b Hb). apply orb_true_iff in H. destruct H as [H|H].
  - apply negb_true_iff in H. apply String.eqb_neq in H. contradiction.
  - apply String.eqb_eq. exact H.
Qed.

Lemma apko_keys_distinct : forall a b, In a apko_archs -> In b apko_archs -> byarch_key a = byarch_key b -> a = b.
Proof. apply keys_distinct_b_spec. vm_compute. reflexivity. Qed.

Lemma inj_nodup_map {A B} (f : A -> B) l :
  (forall a b, In a l -> In b l -> f a = f b -> a = b) -> NoDup l -> NoDup (List.map f l).
Proof.
  induction l as [|x t IH]; simpl; intros Inj N; [constructor|].
  inversion N as [|? ? Hn Ht]; subst. constructor.
  - intro Hc. apply in_map_iff in Hc. destruct Hc as [y [E Hy]].
    assert (y = x) by (apply Inj; auto). subst. contradiction.
  - apply IH; [|exact Ht]. intros a b Ha Hb. apply Inj; right; assumption.
Qed.

Lemma apko_keys_nodup archs : NoDup archs -> incl archs apko_archs -> NoDup (List.map byarch_key archs).
Proof.
  intros N I. apply inj_nodup_map; [|exact N]. intros a b Ha Hb. apply apko_keys_distinct; apply I; assumption.
Qed.

(* ---- the set a wired resolution starts from ----------------------------------------------------- *)
Definition universe_of (load : string -> list nindex) (self : string) (own : list nindex) (a : string) : universe :=
  flatten (if String.eqb a self then own else load a).

(* the index objects of the resolver under consideration are its own: no
   sibling's load returns one of them, and they are pairwise different objects *)
Definition objects_separate (load : string -> list nindex) (self : string) (own : list nindex) (order : list string) : Prop :=
  NoDup (List.map ni_id own) /\
  forall b ix, In b order -> b <> self -> In ix (load b) -> ~ In (ni_id ix) (List.map ni_id own).

Lemma collect_distinct load self own order : NoDup (List.map byarch_key order) ->
  collect_all_archs load self own (by_arch_of order) =
  List.map (fun a => (byarch_key a, if String.eqb a self then own else load a)) order.
Proof.
  intros N. rewrite (by_arch_of_distinct order N). unfold collect_all_archs. rewrite map_map. reflexivity.
Qed.

Theorem wired_dq_spec load self own order i :
  NoDup (List.map byarch_key order) -> In self order -> objects_separate load self own order ->
  (In i (wired_dq load (by_arch_of order) self own) <->
   i < List.length (universe_of load self own self) /\
   exists b, In b order /\ b <> self /\
     ~ Available (universe_of load self own b) (nth i (universe_of load self own self) dummy_pkg)).
Proof.
  intros N Hs [Nid Sep]. unfold wired_dq. rewrite (collect_distinct load self own order N).
  set (aa := List.map (fun a => (byarch_key a, if String.eqb a self then own else load a)) order).
  assert (Hk : In (byarch_key self, own) aa).
  { unfold aa. apply in_map_iff. exists self. rewrite String.eqb_refl. auto. }
  assert (Nk : NoDup (List.map fst aa)).
  { unfold aa. rewrite map_map. simpl. exact N. }
  assert (Uself : universe_of load self own self = flatten own).
  { unfold universe_of. rewrite String.eqb_refl. reflexivity. }
  rewrite (own_dq_spec own aa (byarch_key self) Hk Nk Nid).
  2:{ intros k' ixs ix H Hne Hix. unfold aa in H. apply in_map_iff in H. destruct H as [b [E Hb]]. inversion E; subst.
      destruct (String.eqb b self) eqn:Eb; [apply String.eqb_eq in Eb; subst; contradiction|].
      apply String.eqb_neq in Eb. apply (Sep b ix Hb Eb Hix). }
  rewrite dq_for_spec, disqualify_difference_spec, Uself. split.
  - intros [_ [U [HU [Hlt [k [V [HV [Hne NA]]]]]]]].
    apply universes_of_In in HU. destruct HU as [ixs [H ->]].
    rewrite (nodup_fst_unique aa _ ixs own Nk H Hk) in *. split; [exact Hlt|].
    apply universes_of_In in HV. destruct HV as [ixs' [H' ->]].
    unfold aa in H'. apply in_map_iff in H'. destruct H' as [b [E Hb]]. inversion E; subst.
    exists b. split; [exact Hb|]. split; [intro Eb; subst; apply Hne; reflexivity|]. exact NA.
  - intros [Hlt [b [Hb [Hne NA]]]]. split.
    + unfold universes_of, aa. rewrite !map_length. intro L.
      destruct order as [|x [|y t]]; simpl in L; try discriminate.
      destruct Hs as [->|[]]. destruct Hb as [->|[]]. apply Hne. reflexivity.
    + exists (flatten own). split; [apply universes_of_In; exists own; auto|]. split; [exact Hlt|].
      exists (byarch_key b), (universe_of load self own b). split.
      * apply universes_of_In. exists (if String.eqb b self then own else load b). split; [|reflexivity].
        unfold aa. apply in_map_iff. exists b. auto.
      * split; [|exact NA]. intro E. apply Hne. apply (nodup_map_inj byarch_key order b self N Hb Hs E).
Qed.

(* ... for every list of requested architectures and every order in which the
   contexts were visited *)
Lemma contexts_In archs a : In a (contexts archs) <-> In a archs.
Proof. unfold contexts. apply nodup_In. Qed.

Theorem dq_symmetric_complete archs order load self own i :
  Permutation order (contexts archs) -> NoDup (List.map byarch_key (contexts archs)) ->
  In self archs -> objects_separate load self own (contexts archs) ->
  (In i (wired_dq load (by_arch_of order) self own) <->
   i < List.length (universe_of load self own self) /\
   exists b, In b archs /\ b <> self /\
     ~ Available (universe_of load self own b) (nth i (universe_of load self own self) dummy_pkg)).
Proof.
  intros P N Hs [Nid Sep].
  assert (N' : NoDup (List.map byarch_key order)).
  { eapply Permutation_NoDup; [|exact N]. apply Permutation_map. apply Permutation_sym. exact P. }
  assert (I : forall a, In a order <-> In a archs).
  { intros a. rewrite <- (contexts_In archs a). split; intro H.
    - exact (Permutation_in a P H).
    - exact (Permutation_in a (Permutation_sym P) H). }
  rewrite (wired_dq_spec load self own order i N').
  - split; intros [H1 [b [Hb H2]]]; (split; [exact H1|]); exists b; (split; [apply I; exact Hb | exact H2]).
  - apply I. exact Hs.
  - split; [exact Nid|]. intros b ix Hb. apply Sep. apply contexts_In. apply I. exact Hb.
Qed.

(* the same set for any two visiting orders *)
Corollary wired_dq_order_independent archs order1 order2 load self own i :
  Permutation order1 (contexts archs) -> Permutation order2 (contexts archs) ->
  NoDup (List.map byarch_key (contexts archs)) -> In self archs -> objects_separate load self own (contexts archs) ->
  (In i (wired_dq load (by_arch_of order1) self own) <-> In i (wired_dq load (by_arch_of order2) self own)).
Proof.
  intros P1 P2 N Hs Sep.
  rewrite (dq_symmetric_complete archs order1 load self own i P1 N Hs Sep).
  rewrite (dq_symmetric_complete archs order2 load self own i P2 N Hs Sep). reflexivity.
Qed.

(* ---- members of a wired resolution ------------------------------------------------------------------ *)
Lemma resolve_world_fresh load by_arch self own world :
  snd (resolve_world [] load by_arch self own world) = resolve (flatten own) world (wired_dq load by_arch self own).
Proof. unfold resolve_world, get_packages, dq_cache_get, wired_dq. simpl. reflexivity. Qed.

Theorem filtered_members_multi archs order load self own world S j :
  Permutation order (contexts archs) -> NoDup (List.map byarch_key (contexts archs)) ->
  In self archs -> objects_separate load self own (contexts archs) ->
  snd (resolve_world [] load (by_arch_of order) self own world) = Ok S -> In j S ->
  p_install_if (nth j (flatten own) dummy_pkg) = [] ->
  forall b, In b archs -> Available (universe_of load self own b) (nth j (flatten own) dummy_pkg).
Proof.
  intros P N Hs Sep H Hj Hno b Hb. rewrite resolve_world_fresh in H.
  assert (Uself : universe_of load self own self = flatten own).
  { unfold universe_of. rewrite String.eqb_refl. reflexivity. }
  pose proof (resolve_ok _ _ _ _ (new_resolver_wf2 (flatten own)) H) as [_ [HM _]].
  rewrite Forall_forall in HM. destruct (HM j Hj) as [Vj _].
  unfold valid, new_resolver in Vj; cbn [r_pkgs] in Vj. rewrite map_length in Vj.
  destruct (string_dec b self) as [->|Hne].
  - rewrite Uself. exists (nth j (flatten own) dummy_pkg). split; [apply nth_In; exact Vj | auto].
  - destruct (available_in (universe_of load self own b) (nth j (flatten own) dummy_pkg)) eqn:B;
      [apply available_in_spec; exact B|].
    exfalso. apply (members_filtered (flatten own) world _ S j H Hj); [|exact Hno].
    apply (dq_symmetric_complete archs order load self own j P N Hs Sep). rewrite Uself. split; [exact Vj|].
    exists b. split; [exact Hb|]. split; [exact Hne|]. rewrite <- available_in_spec. congruence.
Qed.

(* ---- the disqualification cache (one entry per grouping since fix 3541d7b) -------------------------- *)
Definition run_calls (calls : list arch_map) : dq_cache :=
  fold_left (fun c aa => fst (dq_cache_get c aa)) calls [].

Lemma find_entry_In k g c d : find_entry k g c = Some d ->
  exists g', In (k, g', d) c /\ same_grouping g' g = true.
Proof.
  induction c as [|[[k' g'] d'] t IH]; simpl; [discriminate|].
  destruct (list_eqb Nat.eqb k k' && same_grouping g' g) eqn:E.
  - intros H. inversion H; subst. apply andb_true_iff in E. destruct E as [E1 E2].
    apply (list_eqb_spec Nat.eqb Nat.eqb_eq) in E1. subst. exists g'. split; [left; reflexivity | exact E2].
  - intros H. destruct (IH H) as [g0 [I S]]. exists g0. split; [right; exact I | exact S].
Qed.

(* every stored entry is (key, grouping, disqualifyDifference) of SOME earlier call *)
Lemma run_calls_inv calls : forall k g d, In (k, g, d) (run_calls calls) ->
  exists aa, In aa calls /\ dq_cache_key aa = k /\ g = grouping_of aa /\ d = dq_objs aa.
Proof.
  unfold run_calls.
  assert (G : forall c0, (forall k g d, In (k, g, d) c0 -> exists aa, In aa calls /\ dq_cache_key aa = k /\ g = grouping_of aa /\ d = dq_objs aa) ->
          forall l, incl l calls ->
          forall k g d, In (k, g, d) (fold_left (fun c aa => fst (dq_cache_get c aa)) l c0) ->
          exists aa, In aa calls /\ dq_cache_key aa = k /\ g = grouping_of aa /\ d = dq_objs aa).
  { intros c0 H0 l. revert c0 H0. induction l as [|aa t IH]; simpl; intros c0 H0 I k g d H; [apply (H0 k g d H)|].
    apply (IH (fst (dq_cache_get c0 aa))); [|intros x Hx; apply I; right; exact Hx | exact H].
    intros k' g' d' H'. unfold dq_cache_get in H'. destruct (find_entry (dq_cache_key aa) (grouping_of aa) c0) eqn:F; simpl in H'.
    - apply (H0 k' g' d' H').
    - destruct H' as [E|H']; [|apply (H0 k' g' d' H')]. inversion E; subst. exists aa. split; [apply I; left; reflexivity | auto]. }
  intros k g d H. apply (G [] (fun _ _ _ F => match F with end) calls (incl_refl _) k g d H).
Qed.

(* the members of the difference do not depend on the order in which the map is listed *)
Lemma dq_objs_perm aa aa' o : Permutation aa' aa -> In o (dq_objs aa') -> In o (dq_objs aa).
Proof.
  intros P. rewrite !dq_objs_In. intros [k [ixs [i [H [Hi E]]]]]. exists k, ixs, i.
  split; [eapply Permutation_in; eauto|]. split; [|exact E].
  apply dq_for_spec. apply dq_for_spec in Hi. apply disqualify_difference_spec in Hi. apply disqualify_difference_spec.
  assert (PU : Permutation (universes_of aa') (universes_of aa)) by (apply Permutation_map; exact P).
  destruct Hi as [L [U [HU [Hlt [b [V [HV R]]]]]]]. split.
  - rewrite <- (Permutation_length PU). exact L.
  - exists U. split; [eapply Permutation_in; eauto|]. split; [exact Hlt|]. exists b, V. split; [eapply Permutation_in; eauto | exact R].
Qed.

(* a Go map: distinct keys; index objects: the identity determines the object *)
Definition go_map (aa : arch_map) : Prop := NoDup (List.map fst aa).
Definition indexes_of (l : list arch_map) : list nindex := List.concat (List.map (fun aa => List.concat (List.map snd aa)) l).
Definition coherent (l : list arch_map) : Prop :=
  forall x y, In x (indexes_of l) -> In y (indexes_of l) -> ni_id x = ni_id y -> x = y.

Lemma ids_eq_objects l : forall l', (forall x y, In x l -> In y l' -> ni_id x = ni_id y -> x = y) ->
  List.map ni_id l = List.map ni_id l' -> l = l'.
Proof.
  induction l as [|x l IH]; intros [|y l'] H E; simpl in E; try discriminate; [reflexivity|].
  inversion E as [[E1 E2]]. f_equal.
  - apply H; [left; reflexivity | left; reflexivity | exact E1].
  - apply IH; [|exact E2]. intros a b Ha Hb. apply H; right; assumption.
Qed.

Lemma alookup_grouping_of k aa l : alookup k (grouping_of aa) = Some l ->
  exists ixs, In (k, ixs) aa /\ l = List.map ni_id ixs.
Proof.
  unfold grouping_of. induction aa as [|[k' ixs'] aa IH]; simpl; [discriminate|].
  destruct (String.eqb k' k) eqn:E.
  - intros H. inversion H; subst. apply String.eqb_eq in E. subst. exists ixs'. split; [left; reflexivity | reflexivity].
  - intros H. destruct (IH H) as [ixs [I L]]. exists ixs. split; [right; exact I | exact L].
Qed.

Lemma In_indexes_of aa l k ixs x : In aa l -> In (k, ixs) aa -> In x ixs -> In x (indexes_of l).
Proof.
  intros Ha He Hx. unfold indexes_of. apply in_concat. exists (List.concat (List.map snd aa)). split.
  - apply in_map_iff. exists aa. split; [reflexivity | exact Ha].
  - apply in_concat. exists ixs. split; [|exact Hx]. apply in_map_iff. exists (k, ixs). split; [reflexivity | exact He].
Qed.

(* equal groupings (as the code compares them) of coherent objects: the same Go map *)
Lemma same_grouping_perm l aa' aa : In aa' l -> In aa l -> coherent l -> go_map aa' -> go_map aa ->
  same_grouping (grouping_of aa') (grouping_of aa) = true -> Permutation aa' aa.
Proof.
  intros Ha' Ha C N' N S. unfold same_grouping in S. apply andb_true_iff in S. destruct S as [L S].
  apply Nat.eqb_eq in L. unfold grouping_of in L. rewrite !map_length in L.
  apply NoDup_Permutation_bis; [eapply NoDup_map_inv; exact N' | lia|].
  intros [k ixs'] He. rewrite forallb_forall in S.
  specialize (S (k, List.map ni_id ixs')). cbn [fst snd] in S.
  assert (Hin : In (k, List.map ni_id ixs') (grouping_of aa')).
  { unfold grouping_of. apply in_map_iff. exists (k, ixs'). split; [reflexivity | exact He]. }
  specialize (S Hin). destruct (alookup k (grouping_of aa)) as [l0|] eqn:A; [|discriminate].
  apply (list_eqb_spec Nat.eqb Nat.eqb_eq) in S. destruct (alookup_grouping_of k aa l0 A) as [ixs [I ->]].
  assert (E : ixs' = ixs).
  { apply ids_eq_objects; [|exact S]. intros x y Hx Hy. apply C; [exact (In_indexes_of aa' l k ixs' x Ha' He Hx) | exact (In_indexes_of aa l k ixs y Ha I Hy)]. }
  subst. exact I.
Qed.

(* AFTER ANY HISTORY a call is handed what a fresh disqualifyDifference of ITS OWN map
   computes: a hit is an entry stored by a call with an equal grouping, a miss computes it *)
Theorem cache_own_grouping hist aa :
  go_map aa -> Forall go_map hist -> coherent (aa :: hist) ->
  forall o, In o (snd (dq_cache_get (run_calls hist) aa)) <-> In o (dq_objs aa).
Proof.
  intros N NH C o. unfold dq_cache_get.
  destruct (find_entry (dq_cache_key aa) (grouping_of aa) (run_calls hist)) as [d|] eqn:F; simpl; [|reflexivity].
  apply find_entry_In in F. destruct F as [g' [I S]]. apply run_calls_inv in I. destruct I as [aa' [H [_ [-> ->]]]].
  rewrite Forall_forall in NH.
  pose proof (same_grouping_perm (aa :: hist) aa' aa (or_intror H) (or_introl eq_refl) C (NH aa' H) N S) as P.
  split; [apply dq_objs_perm; exact P | apply dq_objs_perm; apply Permutation_sym; exact P].
Qed.

(* ---- messages --------------------------------------------------------------------------------------------- *)
Lemma dq_reasons_spec aa a p m :
  In m (dq_reasons aa a p) <->
  List.length aa <> 1 /\ exists b ixs, In (b, ixs) aa /\ b <> a /\ ~ Available (flatten ixs) p /\
                                     m = dq_message (pkg_filename p) b.
Proof.
  unfold dq_reasons. destruct (Nat.eqb (List.length aa) 1) eqn:L.
  - apply Nat.eqb_eq in L. split; [intros [] | intros [H _]; contradiction].
  - apply Nat.eqb_neq in L. rewrite in_map_iff. split.
    + intros [[b ixs] [E H]]. apply filter_In in H. destruct H as [H T]. simpl in *. apply andb_true_iff in T.
      destruct T as [T1 T2]. apply negb_true_iff in T1, T2. apply String.eqb_neq in T1.
      split; [exact L|]. exists b, ixs. split; [exact H|]. split; [exact T1|]. split; [|symmetry; exact E].
      rewrite <- available_in_spec. congruence.
    + intros [_ [b [ixs [H [Hne [NA ->]]]]]]. exists (b, ixs). split; [reflexivity|]. apply filter_In. split; [exact H|].
      simpl. apply andb_true_iff. split; apply negb_true_iff; [apply String.eqb_neq; exact Hne|].
      destruct (available_in (flatten ixs) p) eqn:B; [apply available_in_spec in B; contradiction | reflexivity].
Qed.

(* ---- concurrent calls: every order of whole Gets ------------------------------------------------- *)
Lemma indexes_of_In l x : In x (indexes_of l) <-> exists aa, In aa l /\ In x (List.concat (List.map snd aa)).
Proof.
  unfold indexes_of. rewrite in_concat. split.
  - intros [m [Hm Hx]]. apply in_map_iff in Hm. destruct Hm as [aa [<- Haa]]. exists aa. auto.
  - intros [aa [Haa Hx]]. exists (List.concat (List.map snd aa)). split; [|exact Hx].
    apply in_map_iff. exists aa. auto.
Qed.

Lemma coherent_incl l l' : (forall aa, In aa l' -> In aa l) -> coherent l -> coherent l'.
Proof.
  intros I C x y Hx Hy E. apply indexes_of_In in Hx. apply indexes_of_In in Hy.
  destruct Hx as [a [Ha Hx]]. destruct Hy as [b [Hb Hy]].
  apply C; [apply indexes_of_In; exists a | apply indexes_of_In; exists b | exact E]; auto.
Qed.

Theorem concurrent_calls_serialised calls sched pre aa post :
  Permutation sched calls -> Forall go_map calls -> coherent calls ->
  sched = pre ++ aa :: post ->
  forall o, In o (snd (dq_cache_get (run_calls pre) aa)) <-> In o (dq_objs aa).
Proof.
  intros P G C E o.
  assert (I : forall x, In x (aa :: pre) -> In x calls).
  { intros x Hx. apply (Permutation_in x P). rewrite E. apply in_or_app. destruct Hx as [->|Hx]; [right; left; reflexivity | left; exact Hx]. }
  rewrite Forall_forall in G.
  apply cache_own_grouping.
  - apply G. apply I. left. reflexivity.
  - apply Forall_forall. intros x Hx. apply G. apply I. right. exact Hx.
  - exact (coherent_incl calls (aa :: pre) I C).
Qed.

(* ---- the listing order of the map (Go map iteration; it decides the trie path of indexes with equal names) ---- *)
Lemma concat_snd_perm (aa aa' : arch_map) x : Permutation aa' aa ->
  In x (List.concat (List.map snd aa')) -> In x (List.concat (List.map snd aa)).
Proof.
  intros P H. apply in_concat in H. destruct H as [l [Hl Hx]]. apply in_concat. exists l. split; [|exact Hx].
  exact (Permutation_in l (Permutation_map snd P) Hl).
Qed.

Lemma indexes_of_cons aa l x : In x (indexes_of (aa :: l)) <-> In x (List.concat (List.map snd aa)) \/ In x (indexes_of l).
Proof. unfold indexes_of. simpl. rewrite in_app_iff. reflexivity. Qed.

Theorem cache_listing_order hist aa aa' :
  Permutation aa' aa -> go_map aa -> Forall go_map hist -> coherent (aa :: hist) ->
  forall o, In o (snd (dq_cache_get (run_calls hist) aa')) <-> In o (dq_objs aa).
Proof.
  intros P N NH C o.
  assert (N' : go_map aa').
  { unfold go_map in *. exact (Permutation_NoDup (Permutation_map fst (Permutation_sym P)) N). }
  assert (C' : coherent (aa' :: hist)).
  { intros x y Hx Hy. apply C; apply indexes_of_cons; [apply indexes_of_cons in Hx; destruct Hx as [Hx|Hx] | apply indexes_of_cons in Hy; destruct Hy as [Hy|Hy]];
      try (right; assumption); left; eapply concat_snd_perm; eauto. }
  rewrite (cache_own_grouping hist aa' N' NH C' o).
  split; [apply dq_objs_perm; exact P | apply dq_objs_perm; apply Permutation_sym; exact P].
Qed.
