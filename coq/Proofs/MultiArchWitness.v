(* C14: statements about whole multi-architecture builds assembled from
   MultiArchProofs, and the witnesses of the refuted clauses (kernel-checked by
   evaluation; each is replayed on the real code by the harness corpus). *)
From Coq Require Import Permutation.
From Apko Require Import Base.Prelude Generated.C14Wiring Model.Version Model.Resolver Model.MultiArch Spec.ResolveSpec
  Proofs.ResolveProofs Proofs.ResolveProofs2 Proofs.C14Proofs Proofs.MultiArchProofs.
Open Scope string_scope. Open Scope list_scope. Open Scope nat_scope.

(* one MultiArch: architecture -> the index objects its APK resolves with *)
Definition arch_universe (repos : string -> list nindex) (a : string) : universe := flatten (repos a).

(* every architecture's index objects are its own *)
Definition repos_separate (repos : string -> list nindex) (archs : list string) : Prop :=
  forall a, In a archs -> objects_separate repos a (repos a) (contexts archs).

Lemma universe_of_repos repos a b : universe_of repos a (repos a) b = arch_universe repos b.
Proof.
  unfold universe_of, arch_universe. destruct (String.eqb b a) eqn:E; [|reflexivity].
  apply String.eqb_eq in E. subst. reflexivity.
Qed.

(* (a) for a whole build *)
Theorem build_dq_symmetric_complete archs order repos a i :
  Permutation order (contexts archs) -> NoDup (List.map byarch_key (contexts archs)) ->
  repos_separate repos archs -> In a archs ->
  (In i (wired_dq repos (by_arch_of order) a (repos a)) <->
   i < List.length (arch_universe repos a) /\
   exists b, In b archs /\ b <> a /\ ~ Available (arch_universe repos b) (nth i (arch_universe repos a) dummy_pkg)).
Proof.
  intros P N Sep Ha. rewrite (dq_symmetric_complete archs order repos a (repos a) i P N Ha (Sep a Ha)).
  rewrite !universe_of_repos. split; intros [H1 [b [Hb [Hne H2]]]]; (split; [exact H1|]); exists b;
    (split; [exact Hb|]); (split; [exact Hne|]); [rewrite universe_of_repos in H2 | rewrite universe_of_repos]; exact H2.
Qed.

(* (b) for a whole build *)
Theorem build_filtered_members archs order repos world a S j :
  Permutation order (contexts archs) -> NoDup (List.map byarch_key (contexts archs)) ->
  repos_separate repos archs -> In a archs ->
  snd (resolve_world [] repos (by_arch_of order) a (repos a) world) = Ok S -> In j S ->
  p_install_if (nth j (arch_universe repos a) dummy_pkg) = [] ->
  forall b, In b archs -> Available (arch_universe repos b) (nth j (arch_universe repos a) dummy_pkg).
Proof.
  intros P N Sep Ha H Hj Hno b Hb. rewrite <- (universe_of_repos repos a b).
  exact (filtered_members_multi archs order repos a (repos a) world S j P N Ha (Sep a Ha) H Hj Hno b Hb).
Qed.

Lemma member_in_universe U W dq0 S j : resolve U W dq0 = Ok S -> In j S -> In (nth j U dummy_pkg) U.
Proof.
  intros H Hj. pose proof (resolve_ok _ _ _ _ (new_resolver_wf2 U) H) as [_ [HM _]].
  rewrite Forall_forall in HM. destruct (HM j Hj) as [Vj _].
  unfold valid, new_resolver in Vj; cbn [r_pkgs] in Vj. rewrite map_length in Vj. apply nth_In. exact Vj.
Qed.

(* (c), the part that holds: a name selected on two architectures (neither
   package an install_if package) is selected at versions that BOTH exist on
   every architecture; where an architecture offers the name in one version
   only, the two versions coincide *)
Theorem same_versions_partial archs order repos world a b Sa Sb ja jb :
  Permutation order (contexts archs) -> NoDup (List.map byarch_key (contexts archs)) ->
  repos_separate repos archs -> In a archs -> In b archs ->
  snd (resolve_world [] repos (by_arch_of order) a (repos a) world) = Ok Sa ->
  snd (resolve_world [] repos (by_arch_of order) b (repos b) world) = Ok Sb ->
  In ja Sa -> In jb Sb ->
  let pa := nth ja (arch_universe repos a) dummy_pkg in
  let pb := nth jb (arch_universe repos b) dummy_pkg in
  p_name pa = p_name pb -> p_install_if pa = [] -> p_install_if pb = [] ->
  (forall c, In c archs -> Available (arch_universe repos c) pa /\ Available (arch_universe repos c) pb) /\
  ((forall q q', In q (arch_universe repos b) -> In q' (arch_universe repos b) ->
                 p_name q = p_name q' -> p_version q = p_version q') ->
   p_version pa = p_version pb).
Proof.
  intros P N Sep Ha Hb HSa HSb Hja Hjb pa pb En Ia Ib.
  assert (A : forall c, In c archs -> Available (arch_universe repos c) pa).
  { intros c Hc. exact (build_filtered_members archs order repos world a Sa ja P N Sep Ha HSa Hja Ia c Hc). }
  assert (B : forall c, In c archs -> Available (arch_universe repos c) pb).
  { intros c Hc. exact (build_filtered_members archs order repos world b Sb jb P N Sep Hb HSb Hjb Ib c Hc). }
  split; [intros c Hc; split; [apply A | apply B]; exact Hc|].
  intros One. destruct (A b Hb) as [q [Hq [E1 E2]]]. rewrite <- E2.
  apply One; [exact Hq | | congruence].
  rewrite resolve_world_fresh in HSb. exact (member_in_universe _ _ _ _ _ HSb Hjb).
Qed.

(* (d) lifted to the map: for apko's architectures no sibling is dropped *)
Lemma no_sibling_dropped_apko : forall archs order,
  incl archs apko_archs -> Permutation order (contexts archs) ->
  List.length (by_arch_of order) = List.length (contexts archs) /\
  (forall a, In a archs -> alookup (byarch_key a) (by_arch_of order) = Some a) /\
  (forall k a, In (k, a) (by_arch_of order) -> In a archs /\ k = byarch_key a).
Proof.
  intros archs order I P.
  assert (N : NoDup (List.map byarch_key order)).
  { apply apko_keys_nodup.
    - eapply Permutation_NoDup; [apply Permutation_sym; exact P | apply NoDup_nodup].
    - intros a Ha. apply I. apply contexts_In. exact (Permutation_in a P Ha). }
  destruct (no_sibling_dropped order N) as [L [A B]]. split; [rewrite L; apply Permutation_length; exact P|]. split.
  - intros a Ha. apply A. apply (Permutation_in a (Permutation_sym P)). apply contexts_In. exact Ha.
  - intros k a H. destruct (B k a H) as [H1 H2]. split; [apply contexts_In; exact (Permutation_in a P H1) | exact H2].
Qed.

(* one requested architecture (however often it is listed): nothing is disqualified *)
Lemma single_arch_wiring archs order repos a :
  Permutation order (contexts archs) -> In a archs -> (forall b, In b archs -> b = a) ->
  NoDup (List.map ni_id (repos a)) ->
  wired_dq repos (by_arch_of order) a (repos a) = [] /\
  forall world, snd (resolve_world [] repos (by_arch_of order) a (repos a) world) = resolve (arch_universe repos a) world [].
Proof.
  intros P Ha One Nid.
  assert (C : forall b, In b (contexts archs) -> b = a) by (intros b Hb; apply One; apply contexts_In; exact Hb).
  assert (N : NoDup (List.map byarch_key (contexts archs))).
  { apply inj_nodup_map; [|apply NoDup_nodup]. intros x y Hx Hy _. rewrite (C x Hx), (C y Hy). reflexivity. }
  assert (Sep : repos_separate repos archs).
  { intros x Hx. rewrite (One x Hx). split; [exact Nid|]. intros b ix Hb Hne. exfalso. apply Hne. apply C. exact Hb. }
  assert (E : wired_dq repos (by_arch_of order) a (repos a) = []).
  { destruct (wired_dq repos (by_arch_of order) a (repos a)) as [|i t] eqn:W; [reflexivity|]. exfalso.
    assert (Hi : In i (wired_dq repos (by_arch_of order) a (repos a))) by (rewrite W; left; reflexivity).
    apply (build_dq_symmetric_complete archs order repos a i P N Sep Ha) in Hi.
    destruct Hi as [_ [b [Hb [Hne _]]]]. apply Hne. apply One. exact Hb. }
  split; [exact E|]. intros world. rewrite resolve_world_fresh, E. reflexivity.
Qed.

(* ---- witnesses --------------------------------------------------------------------------------- *)
Definition mp (n v : string) (deps provs iif : list string) : pkg :=
  {| p_name := n; p_version := v; p_origin := n; p_deps := deps; p_provides := provs; p_install_if := iif;
     p_prio := 0%N; p_pin := ""; p_repo := "repo" |}.
Definition repos_of (l : list (string * list nindex)) (a : string) : list nindex :=
  match alookup a l with Some ixs => ixs | None => [] end.

(* C14-F1 through the wiring: amd64 has a-x (install_if a), arm64 does not *)
Definition W_F1 : list (string * list nindex) :=
  [("amd64", [NI 0 "" [mp "w" "1" ["a"] [] []; mp "a" "1" [] [] []; mp "a-x" "1" [] [] ["a"]]]);
   ("arm64", [NI 1 "" [mp "w" "1" ["a"] [] []; mp "a" "1" [] [] []]])].

(* objects_separate for a concrete table, by evaluation *)
Definition ids_of (ixs : list nindex) : list nat := List.map ni_id ixs.
Fixpoint nodup_nat (l : list nat) : bool :=
  match l with [] => true | x :: t => negb (existsb (Nat.eqb x) t) && nodup_nat t end.
Lemma nodup_nat_spec l : nodup_nat l = true -> NoDup l.
Proof.
  induction l as [|x t IH]; simpl; intros H; [constructor|]. apply andb_true_iff in H. destruct H as [H1 H2].
  constructor; [|apply IH; exact H2]. intro Hc. apply negb_true_iff in H1.
  assert (existsb (Nat.eqb x) t = true); [|congruence]. apply existsb_exists. exists x. split; [exact Hc | apply Nat.eqb_refl].
Qed.
Definition separate_b (repos : string -> list nindex) (archs : list string) : bool :=
  forallb (fun a => nodup_nat (ids_of (repos a)) &&
    forallb (fun b => String.eqb b a ||
      forallb (fun ix => negb (existsb (Nat.eqb (ni_id ix)) (ids_of (repos a)))) (repos b)) (contexts archs)) archs.
Lemma separate_b_spec repos archs : separate_b repos archs = true -> repos_separate repos archs.
Proof.
  unfold separate_b, repos_separate, objects_separate. intros H a Ha. rewrite forallb_forall in H. specialize (H a Ha).
  apply andb_true_iff in H. destruct H as [H1 H2]. split; [apply nodup_nat_spec; exact H1|].
  intros b ix Hb Hne Hix Hc. rewrite forallb_forall in H2. specialize (H2 b Hb). apply orb_true_iff in H2.
  destruct H2 as [H2|H2]; [apply String.eqb_eq in H2; contradiction|].
  rewrite forallb_forall in H2. specialize (H2 ix Hix). apply negb_true_iff in H2.
  assert (existsb (Nat.eqb (ni_id ix)) (ids_of (repos a)) = true); [|congruence].
  apply existsb_exists. exists (ni_id ix). split; [exact Hc | apply Nat.eqb_refl].
Qed.

Lemma nodup_by_check (l : list string) : nodup_b l = true -> NoDup l.
Proof.
  induction l as [|x t IH]; simpl; intros H; [constructor|]. apply andb_true_iff in H. destruct H as [H1 H2].
  constructor; [|apply IH; exact H2]. intro Hc. apply negb_true_iff in H1.
  assert (mem_str x t = true); [|congruence]. unfold mem_str. apply existsb_exists. exists x. split; [exact Hc | apply String.eqb_refl].
Qed.

(* REFUTED (C14-F1 seen through NewMultiArch + ResolveWorld): a member that the
   install_if loop added is missing from a sibling *)
Lemma filtered_members_multi_refuted_lemma :
  exists archs order repos world a S j b,
    Permutation order (contexts archs) /\ NoDup (List.map byarch_key (contexts archs)) /\
    repos_separate repos archs /\ In a archs /\ In b archs /\
    snd (resolve_world [] repos (by_arch_of order) a (repos a) world) = Ok S /\ In j S /\
    ~ Available (arch_universe repos b) (nth j (arch_universe repos a) dummy_pkg) /\
    In "foreign-version/install-if-member" (foreign_check [arch_universe repos b] (List.map (fun j => nth j (arch_universe repos a) dummy_pkg) S)).
Proof.
  exists ["amd64"; "arm64"], ["arm64"; "amd64"], (repos_of W_F1), ["w"], "amd64", [1; 2; 0], 2, "arm64".
  split; [vm_compute; apply perm_swap|]. split; [apply nodup_by_check; vm_compute; reflexivity|].
  split; [apply separate_b_spec; vm_compute; reflexivity|].
  split; [simpl; auto|]. split; [simpl; auto|]. split; [vm_compute; reflexivity|]. split; [simpl; auto|].
  split; [|vm_compute; auto].
  rewrite <- available_in_spec. vm_compute. discriminate.
Qed.

(* (c) REFUTED: both architectures offer exactly the same (name, version) pairs
   with the same metadata; only the order inside the index differs.  1.0-r0 and
   1.0 compare equal (an absent revision counts as r0), bestPackage keeps the
   first of equally good candidates, so amd64 installs lib-1.0-r0 and arm64
   installs lib-1.0: every version is available everywhere and yet the builds
   disagree. *)
Definition W_SKEW : list (string * list nindex) :=
  [("amd64", [NI 0 "" [mp "lib" "1.0-r0" [] [] []; mp "lib" "1.0" [] [] []]]);
   ("arm64", [NI 1 "" [mp "lib" "1.0" [] [] []; mp "lib" "1.0-r0" [] [] []]])].

Definition same_offer (U V : universe) : Prop :=
  (forall p, In p U -> In p V) /\ (forall p, In p V -> In p U).

Lemma same_versions_refuted_lemma :
  exists archs order repos world a b Sa Sb ja jb,
    Permutation order (contexts archs) /\ NoDup (List.map byarch_key (contexts archs)) /\
    repos_separate repos archs /\ In a archs /\ In b archs /\
    same_offer (arch_universe repos a) (arch_universe repos b) /\
    snd (resolve_world [] repos (by_arch_of order) a (repos a) world) = Ok Sa /\
    snd (resolve_world [] repos (by_arch_of order) b (repos b) world) = Ok Sb /\
    In ja Sa /\ In jb Sb /\
    p_name (nth ja (arch_universe repos a) dummy_pkg) = p_name (nth jb (arch_universe repos b) dummy_pkg) /\
    p_version (nth ja (arch_universe repos a) dummy_pkg) <> p_version (nth jb (arch_universe repos b) dummy_pkg).
Proof.
  exists ["amd64"; "arm64"], ["amd64"; "arm64"], (repos_of W_SKEW), ["lib"], "amd64", "arm64", [0], [0], 0, 0.
  split; [vm_compute; apply Permutation_refl|]. split; [apply nodup_by_check; vm_compute; reflexivity|].
  split; [apply separate_b_spec; vm_compute; reflexivity|].
  split; [simpl; auto|]. split; [simpl; auto|].
  split; [split; vm_compute; intros p [H|[H|[]]]; subst; auto|].
  split; [vm_compute; reflexivity|]. split; [vm_compute; reflexivity|].
  split; [simpl; auto|]. split; [simpl; auto|]. split; [vm_compute; reflexivity|].
  vm_compute. discriminate.
Qed.

(* ---- the cache seen from C14 ---------------------------------------------------------------------- *)
(* the former C08-F2: {x:[i0], y:[i1]} and {x:[i0, i1]} have one key (trie path), two groupings *)
Definition F2_i0 : nindex := NI 0 "a" [mp "only" "1" [] [] []; mp "common" "1" [] [] []].
Definition F2_i1 : nindex := NI 1 "b" [mp "common" "1" [] [] []].
Definition F2_multi : arch_map := [("x", [F2_i0]); ("y", [F2_i1])].
Definition F2_single : arch_map := [("x", [F2_i0; F2_i1])].

(* since fix 3541d7b each is handed its own difference, in both orders and alternating *)
Example cache_own_grouping_values :
  dq_cache_key F2_multi = [0; 1] /\ dq_cache_key F2_single = [0; 1] /\
  same_grouping (grouping_of F2_multi) (grouping_of F2_single) = false /\
  dq_objs F2_multi = [(0, 0)] /\ dq_objs F2_single = [] /\
  snd (dq_cache_get (run_calls [F2_multi]) F2_single) = [] /\
  snd (dq_cache_get (run_calls [F2_single]) F2_multi) = [(0, 0)] /\
  snd (dq_cache_get (run_calls [F2_multi; F2_single]) F2_multi) = [(0, 0)] /\
  (* the same map listed in another order finds the entry *)
  List.length (run_calls [F2_multi; [("y", [F2_i1]); ("x", [F2_i0])]]) = 1.
Proof. vm_compute. repeat split; reflexivity. Qed.

Lemma F2_hypotheses : go_map F2_single /\ Forall go_map [F2_multi] /\ coherent [F2_single; F2_multi].
Proof.
  split; [repeat constructor; simpl; tauto|]. split; [repeat constructor; simpl; intuition discriminate|].
  intros x y Hx Hy E. vm_compute in Hx, Hy.
  destruct Hx as [<-|[<-|[<-|[<-|[]]]]], Hy as [<-|[<-|[<-|[<-|[]]]]]; try reflexivity; discriminate.
Qed.

(* NON-VACUITY of "one entry per grouping": with the lookup by the key alone (the code
   before the fix: finding C08-F2) the statement of cache_own_grouping is false *)
Definition run_calls_by_key (calls : list arch_map) : dq_cache :=
  fold_left (fun c aa => fst (dq_cache_get_by_key c aa)) calls [].

Lemma cache_keyed_by_concatenation_refuted :
  exists hist aa,
    go_map aa /\ Forall go_map hist /\ coherent (aa :: hist) /\
    exists o, ~ (In o (snd (dq_cache_get_by_key (run_calls_by_key hist) aa)) <-> In o (dq_objs aa)).
Proof.
  exists [F2_multi], F2_single. destruct F2_hypotheses as [A [B C]]. split; [exact A|]. split; [exact B|]. split; [exact C|].
  exists (0, 0). vm_compute. intros [H _]. apply H. left. reflexivity.
Qed.

(* ---- what the hypotheses exclude -------------------------------------------------------------------- *)
(* the resolver's OWN objects must be in the map (fix f441d90): if the own
   architecture's entry holds other objects with the same contents — a second,
   uncached load — nothing of the resolver is disqualified *)
Example own_objects_matter :
  let own := [NI 0 "" [mp "lib" "1" [] [] []; mp "lib" "2" [] [] []]] in
  let reloaded := [NI 7 "" [mp "lib" "1" [] [] []; mp "lib" "2" [] [] []]] in
  let load := repos_of [("amd64", reloaded); ("arm64", [NI 1 "" [mp "lib" "1" [] [] []]])] in
  wired_dq load (by_arch_of ["amd64"; "arm64"]) "amd64" own = [1] /\
  own_dq own (dq_objs (collect_all_archs load "amd64" reloaded (by_arch_of ["amd64"; "arm64"]))) = [].
Proof. vm_compute. split; reflexivity. Qed.

(* distinct keys are needed: under a key that maps both 32-bit ARM variants to
   "arm" (seeded change C14-3) one of them is dropped from the shared map, is
   compared with nobody and is disqualified nowhere *)
Definition oci_key (a : string) : string :=
  if String.eqb a "arm/v6" || String.eqb a "arm/v7" then "arm" else a.
Example colliding_key_drops_a_sibling :
  by_arch_with oci_key ["amd64"; "arm/v6"; "arm/v7"] = [("amd64", "amd64"); ("arm", "arm/v7")] /\
  by_arch_of ["amd64"; "arm/v6"; "arm/v7"] = [("amd64", "amd64"); ("arm/v6", "arm/v6"); ("arm/v7", "arm/v7")] /\
  let repos := repos_of [("amd64", [NI 0 "" [mp "lib" "1" [] [] []]]);
                         ("arm/v6", [NI 1 "" [mp "lib" "1" [] [] []; mp "lib" "2" [] [] []]]);
                         ("arm/v7", [NI 2 "" [mp "lib" "1" [] [] []]])] in
  wired_dq repos (by_arch_with oci_key ["amd64"; "arm/v6"; "arm/v7"]) "arm/v6" (repos "arm/v6") = [] /\
  wired_dq repos (by_arch_of ["amd64"; "arm/v6"; "arm/v7"]) "arm/v6" (repos "arm/v6") = [1].
Proof. vm_compute. repeat split; reflexivity. Qed.
