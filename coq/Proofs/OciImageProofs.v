(* C12 — the modelled path configuration -> image config (Model/OciImage.v): the config
   mirrors the declared configuration with the REAL splitter and time printers, the
   creation time is denoted by the created field, the label and the history. *)
From Apko Require Import Base.Prelude Base.C12Lib Generated.C12Oci Model.Oci Model.OciTime Model.OciShlex Model.OciImage
  Spec.OciSpec Spec.OciTimeSpec Spec.OciShlexSpec Spec.OciImageSpec
  Proofs.OciProofs Proofs.OciTimeProofs Proofs.OciShlexProofs.
From Coq Require Import Permutation.
Open Scope string_scope. Open Scope list_scope.

Lemma validate_is_declared etype ic : validate_ic etype ic = declared_ic etype ic.
Proof. reflexivity. Qed.

Lemma declared_env etype ic : ic_env (declared_ic etype ic) = ic_env ic.
Proof. unfold declared_ic. destruct (String.eqb etype spec_service_bundle_type); reflexivity. Qed.

Lemma denotes_format sec : (rfc3339_min <= sec <= rfc3339_max)%Z -> denotes (Some (format_rfc3339 sec)) sec = true.
Proof. intro R. unfold denotes. rewrite (rfc3339_roundtrip sec R). cbn. apply Z.eqb_refl. Qed.

Lemma marshal_utc_in_range sec : (rfc3339_min <= sec <= rfc3339_max)%Z ->
  go_marshal_time sec 0 0 = Some (format_rfc3339 sec).
Proof.
  intro R. rewrite marshal_utc.
  replace (rfc3339_min <=? sec)%Z with true by (symmetry; apply Z.leb_le; lia).
  replace (sec <=? rfc3339_max)%Z with true by (symmetry; apply Z.leb_le; lia). reflexivity.
Qed.

Lemma forallb_repeat {A} (p : A -> bool) x n : p x = true -> forallb p (List.repeat x n) = true.
Proof. intro H. induction n as [|n IH]; [reflexivity|]. cbn. rewrite H, IH. reflexivity. Qed.

Lemma skipn_length_app {A} (a b : list A) : List.skipn (List.length a) (a ++ b) = b.
Proof. induction a as [|x a IH]; [reflexivity|exact IH]. Qed.
Lemma firstn_length_app {A} (a b : list A) : List.firstn (List.length a) (a ++ b) = a.
Proof. induction a as [|x a IH]; [reflexivity|cbn; rewrite IH; reflexivity]. Qed.

Lemma build_image_mirrors base bh etype ic sec arch nlayers dord eord :
  merge_into_copies_vcs_url = true ->
  (rfc3339_min <= sec <= rfc3339_max)%Z ->
  NoDup (akeys (ic_env ic)) ->
  Permutation dord (akeys default_env) ->
  Permutation eord (akeys (with_defaults default_env dord (ic_env ic))) ->
  match build_image true etype base bh ic (utc_time sec) arch nlayers dord eord with
  | Ok out => ConfigMirrors shlex_split format_rfc3339 (to_oci_platform arch) base (declared_ic etype ic) sec (io_config out) /\
              ImageTimeOk bh nlayers sec out
  | Err => shlex_failed shlex_split (declared_ic etype ic)
  | _ => False
  end.
Proof.
  intros Flag R NE Pd Pe. unfold build_image. cbv iota. rewrite validate_is_declared. cbn [utc_time t_sec t_nsec t_off].
  rewrite (marshal_utc_in_range sec R). cbv iota.
  change (fun sec0 : Z => go_format_rfc3339 sec0 0) with format_rfc3339.
  pose proof (build_config_mirrors_full shlex_split format_rfc3339 base (declared_ic etype ic) sec arch dord eord Flag) as H.
  rewrite declared_env in H. specialize (H NE Pd Pe).
  destruct (build_config shlex_split format_rfc3339 base (declared_ic etype ic) sec arch dord eord) as [cfg| | |]; try exact H.
  cbn [rbind]. split; [exact H|].
  constructor; cbn [io_created io_config io_history utc_time t_sec t_nsec t_off].
  - apply denotes_format. exact R.
  - destruct H as [_ _ _ _ _ _ _ Hl _ _ _]. rewrite (Hl created_key). unfold expected_label.
    rewrite String.eqb_refl. apply denotes_format. exact R.
  - unfold history_ok_b. rewrite app_length, skipn_length_app. unfold layer_history. rewrite repeat_length, Nat.eqb_refl.
    cbn [andb]. apply forallb_repeat. cbn [h_created utc_time t_sec t_nsec t_off].
    rewrite (marshal_utc_in_range sec R). apply denotes_format. exact R.
  - apply firstn_length_app.
Qed.

(* entrypoint.type = service-bundle: unless a shell fragment is declared, the entrypoint is
   the s6 supervisor over /sv, whatever entrypoint.command said *)
Lemma service_bundle_words : shlex_split service_bundle_command = Some spec_service_bundle_words.
Proof. vm_compute. reflexivity. Qed.

Lemma build_config_service_bundle rfc base ic sec arch dord eord cfg :
  nonempty (ic_shell_fragment ic) = false ->
  build_config shlex_split rfc base (set_command ic service_bundle_command) sec arch dord eord = Ok cfg ->
  oc_entrypoint cfg = spec_service_bundle_words.
Proof.
  intros Hf. unfold build_config.
  assert (F : ic_shell_fragment (copy_for_build (set_command ic service_bundle_command)) = ic_shell_fragment ic /\
              ic_command (copy_for_build (set_command ic service_bundle_command)) = service_bundle_command).
  { unfold copy_for_build. destruct merge_into_copies_vcs_url; split; reflexivity. }
  destruct F as [F1 F2]. unfold build_config_core. rewrite F1, F2, Hf. unfold split_or at 1.
  change (nonempty service_bundle_command) with true. cbv iota. rewrite service_bundle_words. cbn [rbind].
  destruct (split_or _ _ _) as [cmd| | |]; cbn [rbind]; intro E; inversion E; reflexivity.
Qed.

Lemma service_bundle_entrypoint base bh ic t arch nlayers dord eord out :
  nonempty (ic_shell_fragment ic) = false ->
  build_image true service_bundle_type base bh ic t arch nlayers dord eord = Ok out ->
  oc_entrypoint (io_config out) = spec_service_bundle_words.
Proof.
  intros Hf. unfold build_image. cbv iota. unfold validate_ic. rewrite String.eqb_refl.
  destruct (build_config shlex_split (fun sec => go_format_rfc3339 sec (t_off t)) base
              (set_command ic service_bundle_command) (t_sec t) arch dord eord) as [cfg| | |] eqn:B;
    destruct (go_marshal_time (t_sec t) (t_nsec t) (t_off t)); destruct nlayers; cbn [rbind]; intro E; inversion E;
    cbn [io_config]; exact (build_config_service_bundle _ _ _ _ _ _ _ _ Hf B).
Qed.

(* a creation time that time.Time.MarshalJSON refuses (UTC: exactly the years outside
   [0, 9999]): with at least one layer BuildImageFromLayers fails; no image is produced *)
Lemma build_image_unserialisable validated etype base bh ic sec arch nlayers dord eord :
  ~ (rfc3339_min <= sec <= rfc3339_max)%Z -> nlayers <> 0 ->
  build_image validated etype base bh ic (utc_time sec) arch nlayers dord eord = Err.
Proof.
  intros R N. unfold build_image. cbn [utc_time t_sec t_nsec t_off]. rewrite marshal_utc.
  replace ((rfc3339_min <=? sec)%Z && (sec <=? rfc3339_max)%Z) with false
    by (symmetry; apply andb_false_iff; rewrite !Z.leb_gt; lia).
  destruct nlayers; [congruence|reflexivity].
Qed.

(* the validator decides the creation-time clauses *)
Lemma history_entry_eqb_iff a b : history_entry_eqb a b = true <-> a = b.
Proof.
  unfold history_entry_eqb. rewrite !andb_true_iff, !String.eqb_eq, option_str_eqb_iff.
  destruct a, b; cbn. split; [intros [[[-> ->] ->] ->]; reflexivity|intro E; inversion E; auto].
Qed.

Lemma image_time_tags_iff bh nlayers sec out :
  image_time_tags bh nlayers sec out = [] <-> ImageTimeOk bh nlayers sec out.
Proof.
  unfold image_time_tags. rewrite !tag_if_app_nil.
  assert (Hlast : forall b t, tag_if (negb b) t = [] <-> b = true).
  { intros b t. destruct b; simpl; split; congruence. }
  rewrite Hlast, (list_eqb_spec history_entry_eqb history_entry_eqb_iff).
  split.
  - intros (A & B & C & D). constructor; assumption.
  - intros [A B C D]. auto.
Qed.
