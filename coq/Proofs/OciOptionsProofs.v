(* C12 — the option layer: command line over configuration, idempotent under re-application. *)
From Apko Require Import Base.Prelude Base.C12Lib Generated.C12Oci Model.Oci Model.OciOptions Model.OciTime Model.OciShlex Model.OciImage
  Spec.OciSpec Spec.OciOptionsSpec Spec.OciTimeSpec Spec.OciImageSpec Proofs.OciProofs Proofs.OciTimeProofs Proofs.OciImageProofs.
From Coq Require Import Permutation.
Open Scope string_scope. Open Scope list_scope.

Lemma fold_aset_lookup : forall (L m : list (string * string)) k, NoDup (akeys L) ->
  alookup k (fold_left aset_pair L m) = match alookup k L with Some v => Some v | None => alookup k m end.
Proof.
  induction L as [|[k1 v1] L IH]; intros m k ND; [reflexivity|].
  inversion ND as [|? ? Nin ND']; subst. cbn [fold_left]. rewrite IH by exact ND'.
  change (aset_pair m (k1, v1)) with (aset k1 v1 m). cbn [alookup]. rewrite alookup_aset.
  destruct (String.eqb_spec k k1) as [->|Hne]; [|reflexivity].
  apply alookup_none in Nin. rewrite Nin. reflexivity.
Qed.

Lemma aset_same : forall (m : list (string * string)) k v, alookup k m = Some v -> aset k v m = m.
Proof.
  induction m as [|[k2 v2] m IH]; intros k v H; [discriminate|].
  cbn [alookup aset] in *. destruct (String.eqb_spec k k2) as [->|Hne].
  - inversion H; reflexivity.
  - rewrite IH by exact H. reflexivity.
Qed.

Lemma fold_aset_fixed : forall (L m : list (string * string)),
  (forall k v, In (k, v) L -> alookup k m = Some v) -> fold_left aset_pair L m = m.
Proof.
  induction L as [|[k1 v1] L IH]; intros m H; [reflexivity|].
  cbn [fold_left]. change (aset_pair m (k1, v1)) with (aset k1 v1 m). rewrite aset_same by (apply H; left; reflexivity).
  apply IH. intros k v I. apply H. right. exact I.
Qed.

Lemma alookup_perm {V} (a b : list (string * V)) k : NoDup (akeys a) -> Permutation a b -> alookup k a = alookup k b.
Proof.
  intros ND P. assert (NDb : NoDup (akeys b)) by (eapply Permutation_NoDup; [apply Permutation_map; exact P|exact ND]).
  destruct (alookup k a) as [v|] eqn:E.
  - symmetry. apply in_alookup_nodup; [exact NDb|]. eapply Permutation_in; [exact P|]. apply alookup_in. exact E.
  - symmetry. apply alookup_none. apply alookup_none in E. intro I. apply E.
    eapply Permutation_in; [apply Permutation_map, Permutation_sym; exact P|exact I].
Qed.

Section Cmdline.
  Variables (cfg cl : list (string * string)) (ord : list string).
  Hypothesis ND : NoDup (akeys cl).
  Hypothesis P : Permutation ord (akeys cl).

  Lemma with_annotations_lookup m k :
    alookup k (with_annotations_dir true m cl ord) = declared_annotation m cl k.
  Proof.
    unfold with_annotations_dir, declared_annotation.
    rewrite fold_aset_lookup by (apply range_map_keys_nodup; assumption).
    rewrite (alookup_perm (range_map cl ord) cl k); [reflexivity| |apply range_map_perm; assumption].
    apply range_map_keys_nodup; assumption.
  Qed.

  Lemma with_annotations_idem m :
    with_annotations_dir true (with_annotations_dir true m cl ord) cl ord = with_annotations_dir true m cl ord.
  Proof.
    unfold with_annotations_dir at 1. apply fold_aset_fixed. intros k v I.
    rewrite with_annotations_lookup. unfold declared_annotation.
    assert (E : alookup k cl = Some v).
    { rewrite <- (alookup_perm (range_map cl ord) cl k); [|apply range_map_keys_nodup; assumption|apply range_map_perm; assumption].
      apply in_alookup_nodup; [apply range_map_keys_nodup; assumption|exact I]. }
    rewrite E. reflexivity.
  Qed.
End Cmdline.

Lemma annotations_precedence cfg cl ord n :
  annotations_cmdline_wins = true -> NoDup (akeys cl) -> Permutation ord (akeys cl) -> n <> 0 ->
  (forall k, alookup k (with_annotations_n n cfg cl ord) = declared_annotation cfg cl k) /\
  with_annotations_n n cfg cl ord = with_annotations cfg cl ord /\
  (forall rfc ic created k v, alookup k cl = Some v -> emitter_owned ic k = false ->
     expected_label rfc (set_annotations ic (with_annotations_n n cfg cl ord)) created k = Some v).
Proof.
  intros Flag ND P Hn.
  assert (E1 : forall m, with_annotations m cl ord = with_annotations_dir true m cl ord)
    by (intro m; unfold with_annotations; rewrite Flag; reflexivity).
  assert (En : with_annotations_n n cfg cl ord = with_annotations cfg cl ord).
  { destruct n as [|n]; [congruence|]. clear Hn. induction n as [|n IH]; [reflexivity|].
    change (with_annotations_n (S (S n)) cfg cl ord) with (with_annotations (with_annotations_n (S n) cfg cl ord) cl ord).
    rewrite IH, !E1. apply with_annotations_idem; assumption. }
  assert (L : forall k, alookup k (with_annotations_n n cfg cl ord) = declared_annotation cfg cl k)
    by (intro k; rewrite En, E1; apply with_annotations_lookup; assumption).
  split; [exact L|]. split; [exact En|].
  intros rfc ic created k v Hk Ho. unfold expected_label. cbn [set_annotations ic_vcs_url ic_annotations].
  unfold emitter_owned in Ho. apply orb_false_iff in Ho. destruct Ho as [H1 H2]. rewrite H1.
  destruct (if nonempty (ic_vcs_url ic) then cut_at "@" (ic_vcs_url ic) else None) as [[u h]|].
  - apply orb_false_iff in H2. destruct H2 as [H2 H3]. rewrite H2, H3, L. unfold declared_annotation. rewrite Hk. reflexivity.
  - rewrite L. unfold declared_annotation. rewrite Hk. reflexivity.
Qed.

(* the copy the other way round lets the configuration file win *)
Lemma annotations_precedence_refuted :
  with_annotations_dir false [("k", "from-config-file")] [("k", "from-command-line")] ["k"] = [("k", "from-config-file")] /\
  declared_annotation [("k", "from-config-file")] [("k", "from-command-line")] "k" = Some "from-command-line".
Proof. split; reflexivity. Qed.

(* ---- SOURCE_DATE_EPOCH ------------------------------------------------------------------------ *)
Lemma parse_int64_range s z : parse_int64 s = Some z -> (int64_min <= z <= int64_max)%Z.
Proof.
  unfold parse_int64. destruct (match s with String c r => _ | EmptyString => _ end) as [neg u].
  destruct (all_digits u); [|discriminate].
  destruct ((int64_min <=? _)%Z && (_ <=? int64_max)%Z) eqn:E; [|discriminate].
  intro H. inversion H; subst. apply andb_true_iff in E. rewrite !Z.leb_le in E. exact E.
Qed.

(* decimal numerals: appending a digit multiplies by ten and adds it *)
Lemma dec_value_snoc u c : dec_value (u ++ String c "")%string = (10 * dec_value u + (Z.of_N (N_of_ascii c) - 48))%Z.
Proof.
  unfold dec_value.
  assert (E : list_ascii_of_string (u ++ String c "")%string = list_ascii_of_string u ++ [c]).
  { induction u as [|x u IH]; [reflexivity|]. cbn. rewrite IH. reflexivity. }
  rewrite E, fold_left_app. reflexivity.
Qed.

Lemma declared_date_env_cases ds env z0 : fold_left apply_date ds (Ok 0%Z) = Ok z0 ->
  declared_date_env ds env =
  match env with
  | None => Ok z0
  | Some v => if all_space v then Ok z0 else match parse_int64 v with Some e => Ok e | None => Err end
  end.
Proof. intro H. unfold declared_date_env. rewrite H. reflexivity. Qed.

Lemma declared_date_env_override ds v e z0 :
  fold_left apply_date ds (Ok 0%Z) = Ok z0 -> parse_int64 v = Some e -> declared_date_env ds (Some v) = Ok e.
Proof.
  intros H P. rewrite (declared_date_env_cases ds (Some v) z0 H).
  destruct (all_space v) eqn:A; [|rewrite P; reflexivity].
  exfalso. (* a string of white space only is not a number *)
  unfold parse_int64 in P. destruct v as [|c r]; [discriminate|].
  assert (K : forall x rest, (N_of_ascii x <? 128)%N = true ->
            ((9 <=? N_of_ascii x) && (N_of_ascii x <=? 13) || (N_of_ascii x =? 32))%N = false -> all_space (String x rest) = false).
  { intros x rest Hlt Hs. apply N.ltb_lt in Hlt. cbn [all_space]. rewrite Hs.
    destruct rest as [|c1 r1]; [reflexivity|].
    replace (N_of_ascii x =? 194)%N with false by (symmetry; apply N.eqb_neq; lia). cbn [andb].
    destruct r1 as [|c2 r2]; [reflexivity|].
    replace (N_of_ascii x =? 225)%N with false by (symmetry; apply N.eqb_neq; lia).
    replace (N_of_ascii x =? 226)%N with false by (symmetry; apply N.eqb_neq; lia).
    replace (N_of_ascii x =? 227)%N with false by (symmetry; apply N.eqb_neq; lia). reflexivity. }
  destruct (Ascii.eqb_spec c "-"%char) as [->|N1]; [rewrite (K "-"%char r eq_refl eq_refl) in A; discriminate|].
  destruct (Ascii.eqb_spec c "+"%char) as [->|N2]; [rewrite (K "+"%char r eq_refl eq_refl) in A; discriminate|].
  destruct (all_digits (String c r)) eqn:Hr; [|discriminate].
  cbn in Hr. apply andb_true_iff in Hr. destruct Hr as [Hx _]. unfold is_dec_digit in Hx.
  apply andb_true_iff in Hx. rewrite !N.leb_le in Hx.
  rewrite K in A; [discriminate|apply N.ltb_lt; lia|].
  apply orb_false_iff. split; [apply andb_false_iff; right; apply N.leb_gt; lia|apply N.eqb_neq; lia].
Qed.

(* SOURCE_DATE_EPOCH = a base-10 int64 [e] in the serialisable range: it is the declared creation
   time whatever the date options said, and the created texts of config, history, label and
   index annotation are [e] printed by the RFC 3339 printer, which denotes [e] *)
Lemma source_date_epoch_created ds z0 v e base bh etype ic arch nlayers dord eord :
  fold_left apply_date ds (Ok 0%Z) = Ok z0 -> parse_int64 v = Some e ->
  (rfc3339_min <= e <= rfc3339_max)%Z ->
  merge_into_copies_vcs_url = true -> NoDup (akeys (ic_env ic)) ->
  Permutation dord (akeys default_env) -> Permutation eord (akeys (with_defaults default_env dord (ic_env ic))) ->
  declared_date_env ds (Some v) = Ok e /\ (int64_min <= e <= int64_max)%Z /\
  parse_rfc3339 (format_rfc3339 e) = Some e /\
  alookup created_key (index_annotations format_rfc3339 (ic_vcs_url ic) e (ic_annotations ic)) = Some (format_rfc3339 e) /\
  match build_image true etype base bh ic (utc_time e) arch nlayers dord eord with
  | Ok out => ImageTimeOk bh nlayers e out /\
              io_created out = Some (format_rfc3339 e) /\
              alookup created_key (oc_labels (io_config out)) = Some (format_rfc3339 e)
  | Err => shlex_failed shlex_split (declared_ic etype ic)
  | _ => False
  end.
Proof.
  intros H P R Flag NE Pd Pe.
  split; [exact (declared_date_env_override ds v e z0 H P)|]. split; [exact (parse_int64_range v e P)|].
  split; [exact (rfc3339_roundtrip e R)|].
  split; [rewrite index_labels_lookup; unfold expected_label; rewrite String.eqb_refl; reflexivity|].
  pose proof (build_image_mirrors base bh etype ic e arch nlayers dord eord Flag R NE Pd Pe) as B.
  destruct (build_image true etype base bh ic (utc_time e) arch nlayers dord eord) as [out| | |] eqn:E; try exact B.
  destruct B as [CM TO]. split; [exact TO|]. split.
  - unfold build_image in E. cbn [utc_time t_sec t_nsec t_off] in E. rewrite (marshal_utc_in_range e R) in E.
    destruct (build_config _ _ _ _ _ _ _ _) as [cfg| | |]; cbn [rbind] in E; inversion E. reflexivity.
  - destruct CM as [_ _ _ _ _ _ _ Hl _ _ _]. rewrite (Hl created_key). unfold expected_label. rewrite String.eqb_refl. reflexivity.
Qed.
