(* C12 — the option layer: command line over configuration, idempotent under re-application. *)
From Apko Require Import Base.Prelude Base.C12Lib Generated.C12Oci Model.Oci Model.OciOptions
  Spec.OciSpec Spec.OciOptionsSpec Proofs.OciProofs.
From Coq Require Import Permutation.
Open Scope string_scope. Open Scope list_scope.

Lemma fold_aset_lookup : forall (L m : list (string * string)) k, NoDup (akeys L) ->
  alookup k (fold_left aset_pair L m) = match alookup k L with Some v => Some v | None => alookup k m end.
Proof.
  induction L as [|[k1 v1] L IH]; intros m k ND; [reflexivity|].
  inversion ND as [|? ? Nin ND']; subst. cbn [fold_left]. rewrite IH by exact ND'.
  change (aset_pair m (k1, v1)) with (aset k1 v1 m). cbn [alookup]. rewrite alookup_aset.
  destruct (String.eqb_spec k k1) as [->|Hne]; [|reflexivity].
  apply alookup_none in Nin. rewrite Nin. reflexivity.
Qed.

Lemma aset_same : forall (m : list (string * string)) k v, alookup k m = Some v -> aset k v m = m.
Proof.
  induction m as [|[k2 v2] m IH]; intros k v H; [discriminate|].
  cbn [alookup aset] in *. destruct (String.eqb_spec k k2) as [->|Hne].
  - inversion H; reflexivity.
  - rewrite IH by exact H. reflexivity.
Qed.

Lemma fold_aset_fixed : forall (L m : list (string * string)),
  (forall k v, In (k, v) L -> alookup k m = Some v) -> fold_left aset_pair L m = m.
Proof.
  induction L as [|[k1 v1] L IH]; intros m H; [reflexivity|].
  cbn [fold_left]. change (aset_pair m (k1, v1)) with (aset k1 v1 m). rewrite aset_same by (apply H; left; reflexivity).
  apply IH. intros k v I. apply H. right. exact I.
Qed.

Lemma alookup_perm {V} (a b : list (string * V)) k : NoDup (akeys a) -> Permutation a b -> alookup k a = alookup k b.
Proof.
  intros ND P. assert (NDb : NoDup (akeys b)) by (eapply Permutation_NoDup; [apply Permutation_map; exact P|exact ND]).
  destruct (alookup k a) as [v|] eqn:E.
  - symmetry. apply in_alookup_nodup; [exact NDb|]. eapply Permutation_in; [exact P|]. apply alookup_in. exact E.
  - symmetry. apply alookup_none. apply alookup_none in E. intro I. apply E.
    eapply Permutation_in; [apply Permutation_map, Permutation_sym; exact P|exact I].
Qed.

Section Cmdline.
  Variables (cfg cl : list (string * string)) (ord : list string).
  Hypothesis ND : NoDup (akeys cl).
  Hypothesis P : Permutation ord (akeys cl).

  Lemma with_annotations_lookup m k :
    alookup k (with_annotations_dir true m cl ord) = declared_annotation m cl k.
  Proof.
    unfold with_annotations_dir, declared_annotation.
    rewrite fold_aset_lookup by (apply range_map_keys_nodup; assumption).
    rewrite (alookup_perm (range_map cl ord) cl k); [reflexivity| |apply range_map_perm; assumption].
    apply range_map_keys_nodup; assumption.
  Qed.

  Lemma with_annotations_idem m :
    with_annotations_dir true (with_annotations_dir true m cl ord) cl ord = with_annotations_dir true m cl ord.
  Proof.
    unfold with_annotations_dir at 1. apply fold_aset_fixed. intros k v I.
    rewrite with_annotations_lookup. unfold declared_annotation.
    assert (E : alookup k cl = Some v).
    { rewrite <- (alookup_perm (range_map cl ord) cl k); [|apply range_map_keys_nodup; assumption|apply range_map_perm; assumption].
      apply in_alookup_nodup; [apply range_map_keys_nodup; assumption|exact I]. }
    rewrite E. reflexivity.
  Qed.
End Cmdline.

Lemma annotations_precedence cfg cl ord n :
  annotations_cmdline_wins = true -> NoDup (akeys cl) -> Permutation ord (akeys cl) -> n <> 0 ->
  (forall k, alookup k (with_annotations_n n cfg cl ord) = declared_annotation cfg cl k) /\
  with_annotations_n n cfg cl ord = with_annotations cfg cl ord /\
  (forall rfc ic created k v, alookup k cl = Some v -> emitter_owned ic k = false ->
     expected_label rfc (set_annotations ic (with_annotations_n n cfg cl ord)) created k = Some v).
Proof.
  intros Flag ND P Hn.
  assert (E1 : forall m, with_annotations m cl ord = with_annotations_dir true m cl ord)
    by (intro m; unfold with_annotations; rewrite Flag; reflexivity).
  assert (En : with_annotations_n n cfg cl ord = with_annotations cfg cl ord).
  { destruct n as [|n]; [congruence|]. clear Hn. induction n as [|n IH]; [reflexivity|].
    change (with_annotations_n (S (S n)) cfg cl ord) with (with_annotations (with_annotations_n (S n) cfg cl ord) cl ord).
    rewrite IH, !E1. apply with_annotations_idem; assumption. }
  assert (L : forall k, alookup k (with_annotations_n n cfg cl ord) = declared_annotation cfg cl k)
    by (intro k; rewrite En, E1; apply with_annotations_lookup; assumption).
  split; [exact L|]. split; [exact En|].
  intros rfc ic created k v Hk Ho. unfold expected_label. cbn [set_annotations ic_vcs_url ic_annotations].
  unfold emitter_owned in Ho. apply orb_false_iff in Ho. destruct Ho as [H1 H2]. rewrite H1.
  destruct (if nonempty (ic_vcs_url ic) then cut_at "@" (ic_vcs_url ic) else None) as [[u h]|].
  - apply orb_false_iff in H2. destruct H2 as [H2 H3]. rewrite H2, H3, L. unfold declared_annotation. rewrite Hk. reflexivity.
  - rewrite L. unfold declared_annotation. rewrite Hk. reflexivity.
Qed.

(* the copy the other way round lets the configuration file win *)
Lemma annotations_precedence_refuted :
  with_annotations_dir false [("k", "from-config-file")] [("k", "from-command-line")] ["k"] = [("k", "from-config-file")] /\
  declared_annotation [("k", "from-config-file")] [("k", "from-command-line")] "k" = Some "from-command-line".
Proof. split; reflexivity. Qed.
