(* C12 — proofs. *)
From Apko Require Import Base.Prelude Base.C12Lib Generated.C12Oci Model.Oci Spec.OciSpec.
From Coq Require Import Permutation Sorted.
Open Scope string_scope. Open Scope list_scope.

(* ---- append offset --------------------------------------------------------- *)
Lemma next_boundary_b_iff b n o : (0 < b)%Z ->
  next_boundary_b b n o = true <-> NextBoundary b n o.
Proof.
  intro Hb. unfold next_boundary_b, NextBoundary.
  rewrite !andb_true_iff, Z.eqb_eq, Z.leb_le, Z.ltb_lt. split.
  - intros [[Hm Hle] Hlt]. split; [apply Z.mod_divide; [lia|exact Hm]|]. split; [exact Hle|].
    intros m [k ->] Hn.
    apply Z.mod_divide in Hm; [|lia]. destruct Hm as [j ->].
    assert (j < k + 1)%Z by (apply (Z.mul_lt_mono_pos_r b); lia).
    apply Z.mul_le_mono_nonneg_r; lia.
  - intros [Hd [Hle Hmin]]. split; [split; [apply Z.mod_divide; [lia|exact Hd]|exact Hle]|].
    destruct Hd as [j ->].
    assert (H := Hmin ((j - 1) * b)%Z (Z.divide_factor_r _ _)).
    destruct (Z_lt_le_dec (j * b) (n + b)) as [L|G]; [exact L|]. exfalso.
    assert (j * b <= (j - 1) * b)%Z by (apply H; lia). lia.
Qed.

(* the translated program, evaluated on symbolic inputs; shape-independent
   arithmetic afterwards (quot/rem to equations, linear arithmetic) *)
Lemma append_offset_next_boundary pos size :
  (0 <= pos)%Z -> (0 <= size)%Z ->
  NextBoundary tar_block (pos + size) (append_offset pos size) /\
  (append_offset pos size < pos + size + tar_block)%Z.
Proof.
  intros Hp Hs.
  assert (B : next_boundary_b tar_block (pos + size) (append_offset pos size) = true).
  { unfold next_boundary_b, tar_block, append_offset.
    cbv [pad_program pad_out_var pad_pos_var pad_size_var exec aeval cmpeval ilookup
         String.eqb Ascii.eqb Bool.eqb].
    rewrite !andb_true_iff, Z.eqb_eq, Z.leb_le, Z.ltb_lt.
    repeat match goal with
           | |- context [if ?c then _ else _] => let E := fresh "E" in destruct c eqn:E
           end;
    repeat match goal with
           | H : negb _ = true |- _ => apply negb_true_iff in H
           | H : negb _ = false |- _ => apply negb_false_iff in H
           | H : (_ =? _)%Z = true |- _ => apply Z.eqb_eq in H
           | H : (_ =? _)%Z = false |- _ => apply Z.eqb_neq in H
           | H : (_ <? _)%Z = true |- _ => apply Z.ltb_lt in H
           | H : (_ <? _)%Z = false |- _ => apply Z.ltb_ge in H
           | H : (_ <=? _)%Z = true |- _ => apply Z.leb_le in H
           | H : (_ <=? _)%Z = false |- _ => apply Z.leb_gt in H
           end;
    Z.to_euclidean_division_equations; lia. }
  split; [apply next_boundary_b_iff; [reflexivity|exact B]|].
  unfold next_boundary_b in B. rewrite !andb_true_iff, Z.ltb_lt in B. tauto.
Qed.

Lemma append_offset_full pos size :
  (0 <= pos)%Z -> (0 <= size)%Z ->
  NextBoundary tar_block (pos + size) (append_offset pos size) /\
  (append_offset pos size < pos + size + tar_block)%Z /\
  block_size = tar_block.
Proof.
  intros Hp Hs. destruct (append_offset_next_boundary pos size Hp Hs) as [A B].
  split; [exact A|]. split; [exact B|reflexivity].
Qed.

Lemma unconditional_padding_refuted :
  exists pos size, (0 <= pos)%Z /\ (0 <= size)%Z /\
    ~ NextBoundary tar_block (pos + size) (pos + size + (tar_block - (pos + size) mod tar_block))%Z.
Proof.
  exists 1536%Z, 512%Z. split; [lia|]. split; [lia|].
  intros [_ [_ Hmin]]. unfold tar_block in Hmin.
  assert (D : (512 | 2048)%Z) by (exists 4%Z; reflexivity).
  assert (H := Hmin 2048%Z D).
  assert (E : ((1536 + 512) mod 512 = 0)%Z) by reflexivity.
  rewrite E in H. lia.
Qed.
